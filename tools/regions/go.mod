module regions

go 1.26
