// regions — translator: the critical sections of panrpc's mutexes, read from the source with go/ast.
//
//	go run . <repo>/go/pkg/utils/broadcaster.go <repo>/go/pkg/rpc/manager.go <repo>/go/pkg/rpc/registry.go
//
// Output (JSON on stdout): one record per critical section: which mutex, where, whether the release is
// deferred (so that it also happens when the code inside panics), which calls inside may run code that is
// not panrpc's own or the standard library's (calls through function values, struct fields of function type,
// reflect / utils.Call, or package functions that contain such calls), which operations inside may block
// (channel operations, select without default, Wait), and which other mutexes are acquired inside - directly or
// through package functions. Function literals are units of their own: code inside a `go func(){…}` or a stored
// closure does not run inside the section that creates it.
package main

import (
	"encoding/json"
	"fmt"
	"go/ast"
	"go/parser"
	"go/printer"
	"go/token"
	"os"
	"path/filepath"
	"sort"
	"strings"
)

type Region struct {
	File     string   `json:"file"`
	Func     string   `json:"func"`
	Mutex    string   `json:"mutex"`
	Line     int      `json:"line"`
	Deferred bool     `json:"deferred"`
	Dynamic  []string `json:"dynamic"`
	Blocking []string `json:"blocking"`
	Inner    []string `json:"inner"`
	closed   bool
}

type summary struct {
	dynamic  map[string]bool // callee texts
	acquires map[string]bool // mutex names
	callees  map[string]bool // declared functions it calls
}

var (
	fset     = token.NewFileSet()
	declared = map[string]bool{} // package-level functions and methods, by bare name
	imports  = map[string]bool{}
	sums     = map[string]*summary{}
	builtins = map[string]bool{"len": true, "cap": true, "make": true, "new": true, "append": true, "delete": true, "close": true,
		"panic": true, "recover": true, "copy": true, "print": true, "println": true, "min": true, "max": true, "clear": true}
	// methods of standard-library values that occur in these files (contexts, reflect values and types, wait groups,
	// condition variables, errors): not application code, never blocking except Wait
	stdMethods = map[string]bool{"Done": true, "Err": true, "Add": true, "Wait": true, "Broadcast": true, "Signal": true,
		"Type": true, "Kind": true, "Elem": true, "IsNil": true, "IsValid": true, "NumIn": true, "NumOut": true, "In": true, "Out": true,
		"Interface": true, "Implements": true, "NumField": true, "Field": true, "FieldByName": true, "MethodByName": true, "NumMethod": true,
		"Name": true, "String": true, "Error": true, "Len": true, "Index": true, "Set": true, "Convert": true, "ConvertibleTo": true,
		"CanSet": true, "CanInterface": true, "Addr": true, "Method": true, "Value": true, "Load": true, "Store": true, "IsExported": true,
		"cancel": true, "Lock": true, "Unlock": true, "RLock": true, "RUnlock": true}
)

func text(n ast.Node) string {
	var sb strings.Builder
	printer.Fprint(&sb, fset, n)
	return sb.String()
}

func mutexOp(call *ast.CallExpr) (string, string, bool) {
	sel, ok := call.Fun.(*ast.SelectorExpr)
	if !ok || len(call.Args) != 0 {
		return "", "", false
	}
	switch sel.Sel.Name {
	case "Lock", "RLock", "Unlock", "RUnlock":
		return mutexName(text(sel.X)), sel.Sel.Name, true
	}
	return "", "", false
}

// b.lock -> lock, m.closuresLock -> closuresLock, fatalErrLock.L -> fatalErrLock
func mutexName(s string) string {
	s = strings.TrimSuffix(s, ".L")
	if i := strings.LastIndex(s, "."); i >= 0 {
		s = s[i+1:]
	}
	return s
}

// classify a call: "", or a description of code that is not panrpc's own / the standard library's
func dynamicCallee(call *ast.CallExpr, locals map[string]bool) (dyn string, static string) {
	switch f := call.Fun.(type) {
	case *ast.Ident:
		if builtins[f.Name] {
			return "", ""
		}
		if declared[f.Name] && !locals[f.Name] {
			return "", f.Name
		}
		if locals[f.Name] {
			return f.Name, ""
		}
		return "", "" // a conversion to a named or predeclared type
	case *ast.SelectorExpr:
		if x, ok := f.X.(*ast.Ident); ok && imports[x.Name] && !locals[x.Name] {
			if x.Name == "utils" && f.Sel.Name == "Call" {
				return "utils.Call", ""
			}
			return "", ""
		}
		if f.Sel.Name == "Call" || f.Sel.Name == "CallSlice" {
			return text(f), "" // reflect.Value.Call
		}
		if declared[f.Sel.Name] {
			return "", f.Sel.Name
		}
		if stdMethods[f.Sel.Name] {
			return "", ""
		}
		return text(f), ""
	case *ast.FuncLit:
		return "", "" // its body is walked in place by the caller (immediately invoked literal)
	case *ast.IndexExpr, *ast.IndexListExpr, *ast.ParenExpr, *ast.ArrayType, *ast.MapType, *ast.InterfaceType, *ast.StarExpr, *ast.ChanType, *ast.FuncType:
		return "", "" // conversions and instantiations
	}
	return text(call.Fun), ""
}

type walker struct {
	file    string
	fn      string
	locals  map[string]bool
	open    []*Region
	all     *[]*Region
	sum     *summary
	pending []pendingLit
}

type pendingLit struct {
	lit  *ast.FuncLit
	name string
}

func (w *walker) note(kind string, what string) {
	for _, r := range w.open {
		if r.closed {
			continue
		}
		switch kind {
		case "dyn":
			r.Dynamic = append(r.Dynamic, what)
		case "block":
			r.Blocking = append(r.Blocking, what)
		case "inner":
			if what != r.Mutex {
				r.Inner = append(r.Inner, what)
			} else {
				r.Inner = append(r.Inner, what+" (again)")
			}
		}
	}
}

// expressions: calls and channel receives; function literals are queued as units of their own
func (w *walker) expr(e ast.Node) {
	if e == nil {
		return
	}
	ast.Inspect(e, func(n ast.Node) bool {
		switch x := n.(type) {
		case *ast.FuncLit:
			w.pending = append(w.pending, pendingLit{x, fmt.Sprintf("%s.func@%d", w.fn, fset.Position(x.Pos()).Line)})
			return false
		case *ast.UnaryExpr:
			if x.Op == token.ARROW {
				w.note("block", "receive "+text(x.X))
			}
		case *ast.CallExpr:
			if m, op, ok := mutexOp(x); ok {
				_ = m
				_ = op
				return true // handled at statement level
			}
			dyn, static := dynamicCallee(x, w.locals)
			if dyn != "" {
				w.sum.dynamic[dyn] = true
				w.note("dyn", dyn)
			}
			if static != "" {
				w.sum.callees[static] = true
				w.note("dyn", "via:"+static) // resolved after the summaries are complete
			}
			if sel, ok := x.Fun.(*ast.SelectorExpr); ok && sel.Sel.Name == "Wait" {
				w.note("block", "Wait on "+text(sel.X))
			}
		}
		return true
	})
}

func endsInJump(list []ast.Stmt) bool {
	if len(list) == 0 {
		return false
	}
	switch s := list[len(list)-1].(type) {
	case *ast.ReturnStmt:
		return true
	case *ast.BranchStmt:
		return s.Tok == token.CONTINUE || s.Tok == token.BREAK || s.Tok == token.GOTO
	case *ast.ExprStmt:
		if c, ok := s.X.(*ast.CallExpr); ok {
			if id, ok := c.Fun.(*ast.Ident); ok && id.Name == "panic" {
				return true
			}
		}
	}
	return false
}

func (w *walker) branch(list []ast.Stmt) {
	saved := append([]*Region(nil), w.open...)
	savedClosed := map[*Region]bool{}
	for _, r := range saved {
		savedClosed[r] = r.closed
	}
	w.stmts(list)
	if endsInJump(list) {
		// the path leaves: what it released stays held on the path that goes on
		for _, r := range saved {
			r.closed = savedClosed[r]
		}
		w.open = saved
	}
}

func (w *walker) stmts(list []ast.Stmt) {
	for _, s := range list {
		w.stmt(s)
	}
}

func (w *walker) declare(names ...*ast.Ident) {
	for _, n := range names {
		if n != nil && n.Name != "_" {
			w.locals[n.Name] = true
		}
	}
}

func (w *walker) stmt(s ast.Stmt) {
	switch x := s.(type) {
	case nil:
	case *ast.ExprStmt:
		if c, ok := x.X.(*ast.CallExpr); ok {
			if m, op, ok := mutexOp(c); ok {
				switch op {
				case "Lock", "RLock":
					w.note("inner", m)
					w.sum.acquires[m] = true
					r := &Region{File: w.file, Func: w.fn, Mutex: m, Line: fset.Position(c.Pos()).Line, Dynamic: []string{}, Blocking: []string{}, Inner: []string{}}
					*w.all = append(*w.all, r)
					w.open = append(w.open, r)
				default:
					for i := len(w.open) - 1; i >= 0; i-- {
						if w.open[i].Mutex == m && !w.open[i].closed && !w.open[i].Deferred {
							w.open[i].closed = true
							break
						}
					}
				}
				return
			}
			if lit, ok := c.Fun.(*ast.FuncLit); ok { // immediately invoked: runs here
				for _, a := range c.Args {
					w.expr(a)
				}
				w.stmts(lit.Body.List)
				return
			}
		}
		w.expr(x.X)
	case *ast.DeferStmt:
		if m, op, ok := mutexOp(x.Call); ok && (op == "Unlock" || op == "RUnlock") {
			for i := len(w.open) - 1; i >= 0; i-- {
				if w.open[i].Mutex == m && !w.open[i].closed {
					w.open[i].Deferred = true
					break
				}
			}
			return
		}
		// a deferred literal runs when the function returns: a unit of its own (no section of this function is
		// open then unless it is itself deferred-released, which the unit's own walk cannot see; conservative: walk
		// it in place as well when a deferred-release section is open)
		if lit, ok := x.Call.Fun.(*ast.FuncLit); ok {
			w.pending = append(w.pending, pendingLit{lit, fmt.Sprintf("%s.defer@%d", w.fn, fset.Position(lit.Pos()).Line)})
			for _, r := range w.open {
				if r.Deferred && !r.closed {
					w.stmts(lit.Body.List)
					break
				}
			}
			return
		}
		w.expr(x.Call)
	case *ast.GoStmt:
		if lit, ok := x.Call.Fun.(*ast.FuncLit); ok {
			w.pending = append(w.pending, pendingLit{lit, fmt.Sprintf("%s.go@%d", w.fn, fset.Position(lit.Pos()).Line)})
			for _, a := range x.Call.Args {
				w.expr(a)
			}
			return
		}
		for _, a := range x.Call.Args { // the call itself runs on another goroutine
			w.expr(a)
		}
	case *ast.AssignStmt:
		for _, r := range x.Rhs {
			w.expr(r)
		}
		for _, l := range x.Lhs {
			if id, ok := l.(*ast.Ident); ok && x.Tok == token.DEFINE {
				w.declare(id)
			} else {
				w.expr(l)
			}
		}
	case *ast.DeclStmt:
		if gd, ok := x.Decl.(*ast.GenDecl); ok {
			for _, sp := range gd.Specs {
				if vs, ok := sp.(*ast.ValueSpec); ok {
					for _, v := range vs.Values {
						w.expr(v)
					}
					w.declare(vs.Names...)
				}
			}
		}
	case *ast.SendStmt:
		w.expr(x.Chan)
		w.expr(x.Value)
		w.note("block", "send on "+text(x.Chan))
	case *ast.IncDecStmt:
		w.expr(x.X)
	case *ast.ReturnStmt:
		for _, r := range x.Results {
			w.expr(r)
		}
	case *ast.BlockStmt:
		w.stmts(x.List)
	case *ast.IfStmt:
		w.stmt(x.Init)
		w.expr(x.Cond)
		w.branch(x.Body.List)
		switch e := x.Else.(type) {
		case *ast.BlockStmt:
			w.branch(e.List)
		case *ast.IfStmt:
			w.stmt(e)
		}
	case *ast.ForStmt:
		w.stmt(x.Init)
		w.expr(x.Cond)
		w.stmt(x.Post)
		w.branch(x.Body.List)
	case *ast.RangeStmt:
		w.expr(x.X)
		if x.Tok == token.DEFINE {
			if id, ok := x.Key.(*ast.Ident); ok {
				w.declare(id)
			}
			if id, ok := x.Value.(*ast.Ident); ok {
				w.declare(id)
			}
		}
		w.branch(x.Body.List)
	case *ast.SwitchStmt:
		w.stmt(x.Init)
		w.expr(x.Tag)
		for _, c := range x.Body.List {
			cc := c.(*ast.CaseClause)
			for _, e := range cc.List {
				w.expr(e)
			}
			w.branch(cc.Body)
		}
	case *ast.TypeSwitchStmt:
		w.stmt(x.Init)
		w.stmt(x.Assign)
		for _, c := range x.Body.List {
			w.branch(c.(*ast.CaseClause).Body)
		}
	case *ast.SelectStmt:
		hasDefault := false
		for _, c := range x.Body.List {
			if c.(*ast.CommClause).Comm == nil {
				hasDefault = true
			}
		}
		if !hasDefault {
			w.note("block", "select without default")
		}
		for _, c := range x.Body.List {
			cc := c.(*ast.CommClause)
			if hasDefault {
				// non-blocking: the communication itself is not a blocking operation
				saved := w.open
				w.open = nil
				w.stmt(cc.Comm)
				w.open = saved
			} else {
				w.stmt(cc.Comm)
			}
			w.branch(cc.Body)
		}
	case *ast.LabeledStmt:
		w.stmt(x.Stmt)
	case *ast.BranchStmt, *ast.EmptyStmt:
	default:
		w.expr(s)
	}
}

func walkFunc(file, name string, typ *ast.FuncType, recv *ast.FieldList, body *ast.BlockStmt, outer map[string]bool, all *[]*Region) {
	if body == nil {
		return
	}
	sum := &summary{dynamic: map[string]bool{}, acquires: map[string]bool{}, callees: map[string]bool{}}
	sums[name] = sum
	w := &walker{file: file, fn: name, locals: map[string]bool{}, all: all, sum: sum}
	for k := range outer {
		w.locals[k] = true
	}
	for _, fl := range []*ast.FieldList{recv, typ.Params, typ.Results} {
		if fl == nil {
			continue
		}
		for _, f := range fl.List {
			w.declare(f.Names...)
		}
	}
	w.stmts(body.List)
	for i := 0; i < len(w.pending); i++ {
		p := w.pending[i]
		walkFunc(file, p.name, p.lit.Type, nil, p.lit.Body, w.locals, all)
		// a literal is code of the function that contains it as far as the summaries are concerned (it may run
		// later, on the caller's behalf): fold its summary in, except for `go` statements
		if !strings.Contains(p.name, ".go@") {
			for k := range sums[p.name].dynamic {
				sum.dynamic[k] = true
			}
			for k := range sums[p.name].acquires {
				sum.acquires[k] = true
			}
			for k := range sums[p.name].callees {
				sum.callees[k] = true
			}
		}
	}
}

func main() {
	var regions []*Region
	var files []*ast.File
	var names []string
	dirs := map[string]bool{}
	for _, p := range os.Args[1:] {
		dirs[filepath.Dir(p)] = true
	}
	// every declaration of the packages involved (for "is this a function of panrpc?")
	for d := range dirs {
		pkgs, err := parser.ParseDir(fset, d, func(fi os.FileInfo) bool { return !strings.HasSuffix(fi.Name(), "_test.go") }, 0)
		if err != nil {
			fmt.Fprintln(os.Stderr, err)
			os.Exit(2)
		}
		for _, pkg := range pkgs {
			for _, f := range pkg.Files {
				for _, dcl := range f.Decls {
					if fd, ok := dcl.(*ast.FuncDecl); ok {
						declared[fd.Name.Name] = true
					}
				}
			}
		}
	}
	for _, p := range os.Args[1:] {
		f, err := parser.ParseFile(fset, p, nil, 0)
		if err != nil {
			fmt.Fprintln(os.Stderr, err)
			os.Exit(2)
		}
		files = append(files, f)
		names = append(names, filepath.Base(p))
		for _, im := range f.Imports {
			n := strings.Trim(im.Path.Value, `"`)
			if i := strings.LastIndex(n, "/"); i >= 0 {
				n = n[i+1:]
			}
			if im.Name != nil {
				n = im.Name.Name
			}
			imports[n] = true
		}
	}
	for i, f := range files {
		for _, dcl := range f.Decls {
			if fd, ok := dcl.(*ast.FuncDecl); ok {
				walkFunc(names[i], fd.Name.Name, fd.Type, fd.Recv, fd.Body, nil, &regions)
			}
		}
	}
	// transitive summaries of the declared functions
	for changed := true; changed; {
		changed = false
		for _, s := range sums {
			for c := range s.callees {
				if cs, ok := sums[c]; ok {
					for k := range cs.dynamic {
						if !s.dynamic[k] {
							s.dynamic[k], changed = true, true
						}
					}
					for k := range cs.acquires {
						if !s.acquires[k] {
							s.acquires[k], changed = true, true
						}
					}
				}
			}
		}
	}
	for _, r := range regions {
		var dyn []string
		seen := map[string]bool{}
		add := func(s string) {
			if !seen[s] {
				seen[s] = true
				dyn = append(dyn, s)
			}
		}
		for _, d := range r.Dynamic {
			if strings.HasPrefix(d, "via:") {
				n := strings.TrimPrefix(d, "via:")
				if cs, ok := sums[n]; ok {
					for k := range cs.dynamic {
						add(k + " (in " + n + ")")
					}
					for k := range cs.acquires {
						if k != r.Mutex {
							r.Inner = append(r.Inner, k+" (in "+n+")")
						} else {
							r.Inner = append(r.Inner, k+" (again, in "+n+")")
						}
					}
				}
			} else {
				add(d)
			}
		}
		sort.Strings(dyn)
		if dyn == nil {
			dyn = []string{}
		}
		r.Dynamic = dyn
		sort.Strings(r.Inner)
		sort.Strings(r.Blocking)
	}
	json.NewEncoder(os.Stdout).Encode(regions)
}
