package harness

// bcast.go — window-level scenarios on the exported Broadcaster API (C19, C05).

import (
	"context"
	"errors"
	"fmt"
	"math/rand"
	"testing"
	"testing/synctest"

	"github.com/pojntfx/panrpc/go/pkg/utils"
	"github.com/pojntfx/panrpc/go/pkg/verifhook"
)

type BOp struct {
	Op string `json:"op"` // pub recv run free close cancel
	K  int    `json:"k,omitempty"`
	V  int    `json:"v,omitempty"`
	C  int    `json:"c,omitempty"`
	H  int    `json:"h,omitempty"`
}

type BThreadObs struct {
	St      string   `json:"st"` // gate found blocked
	N       int      `json:"n"`  // remaining ops (gate)
	Results []string `json:"res"`
}

type BObs struct {
	Crashed bool         `json:"crashed"`
	Threads []BThreadObs `json:"threads"`
}

type BStep struct {
	T   int  `json:"t"`
	Obs BObs `json:"obs"`
}

type BCase struct {
	Progs    [][]BOp `json:"progs"`
	Trace    []BStep `json:"trace"`
	Panic    string  `json:"panic,omitempty"`
	Stuck    bool    `json:"stuck,omitempty"` // cleanup could not release every goroutine
	Deliver  int     `json:"deliveries"`
	Violates string  `json:"violates,omitempty"` // implementation-side monitor
}

type bthread struct {
	th      *Thread
	prog    []BOp
	pos     int
	results []string
	handles []func() (*int, error)
	pubOut  string
	got     []gotVal // every result a receive function handed out, to be read again at the end
}

type gotVal struct {
	ptr *int
	val int
}

// RunBcast executes progs on a fresh broadcaster under the schedule produced by choose
// (choose gets the step number and the indices of the runnable threads and returns one of them,
// or -1 to stop).
func RunBcast(t *testing.T, progs [][]BOp, choose func(step int, runnable []int) int) BCase {
	res := BCase{Progs: progs}
	synctest.Test(t, func(t *testing.T) {
		s := NewSched()
		b := utils.NewBroadcaster[int]()
		ctxs := map[int]context.Context{}
		cancels := map[int]context.CancelFunc{}
		getctx := func(c int) context.Context {
			if _, ok := ctxs[c]; !ok {
				ctxs[c], cancels[c] = context.WithCancel(context.Background())
			}
			return ctxs[c]
		}
		// contexts are created up front so that creation order is not part of the schedule
		for _, p := range progs {
			for _, op := range p {
				if op.Op == "recv" || op.Op == "cancel" {
					getctx(op.C)
				}
			}
		}
		bts := make([]*bthread, len(progs))
		byThread := map[*Thread]*bthread{}
		crashed := false
		panicText := ""

		s.Active = func(label string) bool { return label == "gate" || label == "bc.publish.found" }
		verifhook.SetHandler(func(point, key string) {
			switch point {
			case "bc.publish.found":
				s.Park(point, key)
			case "bc.publish.sent", "bc.publish.gaveup":
				if th := s.Current(); th != nil {
					s.mu.Lock()
					byThread[th].pubOut = point[len("bc.publish."):]
					s.mu.Unlock()
				}
			}
		})
		defer verifhook.SetHandler(nil)

		started := make(chan struct{})
		for i := range progs {
			bt := &bthread{prog: progs[i]}
			bts[i] = bt
			go func() {
				bt.th = s.Register(fmt.Sprintf("t%d", i), "client", "")
				s.mu.Lock()
				byThread[bt.th] = bt
				s.mu.Unlock()
				started <- struct{}{}
				defer s.Finish()
				defer func() {
					if e := recover(); e != nil {
						s.mu.Lock()
						crashed = true
						panicText = fmt.Sprint(e)
						s.mu.Unlock()
					}
				}()
				for bt.pos < len(bt.prog) {
					s.Park("gate", "")
					s.mu.Lock()
					if s.Aborted {
						s.mu.Unlock()
						return
					}
					op := bt.prog[bt.pos]
					bt.pos++
					s.mu.Unlock()
					var r string
					switch op.Op {
					case "pub":
						bt.pubOut = "none"
						b.Publish(fmt.Sprint(op.K), op.V)
						s.mu.Lock()
						r = "pub:" + bt.pubOut
						s.mu.Unlock()
					case "recv":
						f, err := b.Receive(fmt.Sprint(op.K), getctxLocked(s, ctxs, op.C))
						if err != nil {
							if !errors.Is(err, utils.ErrClosed) {
								r = "reg:err:" + err.Error()
							} else {
								r = "reg:false"
							}
						} else {
							bt.handles = append(bt.handles, f)
							r = "reg:true"
						}
					case "run":
						if op.H >= len(bt.handles) {
							r = "recv:nohandle"
						} else {
							v, err := bt.handles[op.H]()
							switch {
							case err == nil && v != nil:
								r = fmt.Sprintf("recv:got:%d", *v)
								s.mu.Lock()
								bt.got = append(bt.got, gotVal{v, *v})
								s.mu.Unlock()
							case errors.Is(err, utils.ErrClosed):
								r = "recv:closed"
							case errors.Is(err, context.Canceled):
								r = "recv:ctx"
							default:
								r = fmt.Sprintf("recv:other:%v", err)
							}
						}
					case "free":
						b.Free(fmt.Sprint(op.K), nil)
						r = "unit"
					case "close":
						b.Close(nil)
						r = "unit"
					case "cancel":
						s.mu.Lock()
						c := cancels[op.C]
						s.mu.Unlock()
						c()
						r = "unit"
					}
					s.mu.Lock()
					bt.results = append(bt.results, r)
					s.mu.Unlock()
				}
			}()
			<-started
		}
		synctest.Wait()

		observe := func() BObs {
			s.mu.Lock()
			defer s.mu.Unlock()
			o := BObs{Crashed: crashed}
			for _, bt := range bts {
				to := BThreadObs{Results: append([]string{}, bt.results...)}
				switch {
				case bt.th.Parked && bt.th.Label == "gate":
					to.St, to.N = "gate", len(bt.prog)-bt.pos
				case bt.th.Parked:
					to.St = "found"
				case bt.th.Done:
					to.St, to.N = "gate", 0
				default:
					to.St = "blocked"
				}
				o.Threads = append(o.Threads, to)
			}
			return o
		}

		sh := newShadow(progs)
		for step := 0; step < 200; step++ {
			var runnable []int
			for i, bt := range bts {
				s.mu.Lock()
				p := bt.th.Parked
				s.mu.Unlock()
				if p {
					runnable = append(runnable, i)
				}
			}
			if len(runnable) == 0 || crashed {
				break
			}
			c := choose(step, runnable)
			if c < 0 {
				break
			}
			s.Release(bts[c].th)
			synctest.Wait()
			o := observe()
			res.Trace = append(res.Trace, BStep{T: c, Obs: o})
			if v := sh.step(c, o); v != "" && res.Violates == "" {
				res.Violates = fmt.Sprintf("step %d: %s", step, v)
			}
		}

		// implementation-side monitor: every value received was published on that key, at most once
		if v := bcastMonitor(progs, bts, crashed, panicText); v != "" {
			res.Violates = v
		}
		// a result handed out earlier is the caller's: later hand-offs do not change it
		for i, bt := range bts {
			for _, g := range bt.got {
				if *g.ptr != g.val && res.Violates == "" {
					res.Violates = fmt.Sprintf("the value %d that a receive function of thread %d returned reads %d after a later hand-off: two results share storage, so one published value shows up in two results and the earlier one is lost", g.val, i, *g.ptr)
				}
			}
		}
		res.Panic = panicText

		// cleanup: everything must be releasable by cancel + close (else: stuck goroutine)
		s.Abort()
		for _, c := range cancels {
			c()
		}
		b.Close(nil)
		synctest.Wait()
		for _, bt := range bts {
			s.mu.Lock()
			if !bt.th.Done {
				res.Stuck = true
			}
			s.mu.Unlock()
		}
		if res.Stuck {
			// cannot leave the bubble with blocked goroutines: report and let the process die
			out := fmt.Sprintf("STUCK progs=%v", progs)
			panic(out)
		}
	})
	return res
}

func getctxLocked(s *Sched, ctxs map[int]context.Context, c int) context.Context {
	s.mu.Lock()
	defer s.mu.Unlock()
	return ctxs[c]
}

func bcastMonitor(progs [][]BOp, bts []*bthread, crashed bool, panicText string) string {
	if crashed {
		return "panic: " + panicText
	}
	// count per value: published vs received (values are unique per publish op by construction)
	pub := map[int]int{}
	pubKey := map[int]int{}
	for _, p := range progs {
		for _, op := range p {
			if op.Op == "pub" {
				pub[op.V]++
				pubKey[op.V] = op.K
			}
		}
	}
	got := map[int]int{}
	for ti, bt := range bts {
		// key of each handle
		var hkeys []int
		ri := 0
		for pi := 0; pi < bt.pos && ri < len(bt.results); pi++ {
			op := bt.prog[pi]
			r := bt.results[ri]
			ri++
			if op.Op == "recv" && r == "reg:true" {
				hkeys = append(hkeys, op.K)
			}
			if op.Op == "run" {
				var v int
				if n, _ := fmt.Sscanf(r, "recv:got:%d", &v); n == 1 {
					got[v]++
					if pub[v] == 0 {
						return fmt.Sprintf("thread %d received value %d that was never published", ti, v)
					}
					if op.H < len(hkeys) && hkeys[op.H] != pubKey[v] {
						return fmt.Sprintf("thread %d received value %d published on key %d through key %d", ti, v, pubKey[v], hkeys[op.H])
					}
				}
			}
		}
	}
	for v, n := range got {
		if n > pub[v] {
			return fmt.Sprintf("value %d delivered %d times, published %d times", v, n, pub[v])
		}
	}
	return ""
}

// ---- generation ----

func GenBcastProgs(r *rand.Rand, maxThreads, maxOps int) [][]BOp {
	nextV := 1
	nkeys := 1 + r.Intn(2)
	nctx := 1 + r.Intn(2)
	var progs [][]BOp
	if r.Intn(100) < 75 {
		// structured: receivers (register + run) and publishers per key, plus disruptors
		budget := 3 + r.Intn(maxOps-2)
		for k := 0; k < nkeys && budget > 0; k++ {
			nr := 1 + r.Intn(2)
			for i := 0; i < nr && budget > 0; i++ {
				p := []BOp{{Op: "recv", K: k, C: r.Intn(nctx)}, {Op: "run", H: 0}}
				budget -= 2
				if r.Intn(100) < 20 {
					p = append(p, BOp{Op: "run", H: 0})
					budget--
				}
				progs = append(progs, p)
			}
			np := 1 + r.Intn(2)
			for i := 0; i < np && budget > 0; i++ {
				p := []BOp{{Op: "pub", K: k, V: nextV}}
				nextV++
				budget--
				if r.Intn(100) < 25 {
					p = append(p, BOp{Op: "pub", K: r.Intn(nkeys), V: nextV})
					nextV++
					budget--
				}
				progs = append(progs, p)
			}
		}
		nd := r.Intn(3)
		var d []BOp
		for i := 0; i < nd; i++ {
			switch x := r.Intn(100); {
			case x < 45:
				d = append(d, BOp{Op: "free", K: r.Intn(nkeys)})
			case x < 70:
				d = append(d, BOp{Op: "close"})
			default:
				d = append(d, BOp{Op: "cancel", C: r.Intn(nctx)})
			}
			if r.Intn(2) == 0 && len(d) > 0 {
				progs = append(progs, d)
				d = nil
			}
		}
		if len(d) > 0 {
			progs = append(progs, d)
		}
		r.Shuffle(len(progs), func(i, j int) { progs[i], progs[j] = progs[j], progs[i] })
		return progs
	}
	nt := 2 + r.Intn(maxThreads-1)
	progs = make([][]BOp, nt)
	total := 2 + r.Intn(maxOps-1)
	for i := 0; i < total; i++ {
		t := r.Intn(nt)
		var op BOp
		switch x := r.Intn(100); {
		case x < 28:
			op = BOp{Op: "pub", K: r.Intn(nkeys), V: nextV}
			nextV++
		case x < 50:
			op = BOp{Op: "recv", K: r.Intn(nkeys), C: r.Intn(nctx)}
		case x < 66:
			op = BOp{Op: "run", H: r.Intn(2)}
		case x < 80:
			op = BOp{Op: "free", K: r.Intn(nkeys)}
		case x < 90:
			op = BOp{Op: "close"}
		default:
			op = BOp{Op: "cancel", C: r.Intn(nctx)}
		}
		progs[t] = append(progs[t], op)
	}
	var out [][]BOp
	for _, p := range progs {
		if len(p) > 0 {
			out = append(out, p)
		}
	}
	if len(out) == 0 {
		out = [][]BOp{{{Op: "close"}}}
	}
	return out
}

func RandomChooser(r *rand.Rand) func(int, []int) int {
	return func(step int, runnable []int) int { return runnable[r.Intn(len(runnable))] }
}

func FixedChooser(sched []int) func(int, []int) int {
	return func(step int, runnable []int) int {
		if step >= len(sched) {
			return -1
		}
		for _, x := range runnable {
			if x == sched[step] {
				return x
			}
		}
		return -1
	}
}

// ExploreBcast enumerates every schedule of progs (stateless DFS with replay from the start)
func ExploreBcast(t *testing.T, progs [][]BOp, limit int, emit func(BCase)) (n int, complete bool) {
	type frame struct{ idx, n int }
	var stack []frame
	for {
		depth := 0
		c := RunBcast(t, progs, func(step int, runnable []int) int {
			if depth < len(stack) {
				f := stack[depth]
				depth++
				if f.idx < len(runnable) {
					return runnable[f.idx]
				}
				return runnable[len(runnable)-1]
			}
			stack = append(stack, frame{0, len(runnable)})
			depth++
			return runnable[0]
		})
		emit(c)
		n++
		// advance odometer
		for len(stack) > 0 {
			top := &stack[len(stack)-1]
			if top.idx+1 < top.n {
				top.idx++
				break
			}
			stack = stack[:len(stack)-1]
		}
		if len(stack) == 0 {
			return n, true
		}
		if n >= limit {
			return n, false
		}
	}
}

// ---- implementation-side monitor: a shadow of the key table written from the property text ----
// (C19: a publish returns once delivered / key freed / context done / closed, immediately for
// unknown keys; a receive returns the value, the context's error or closed and never blocks once
// one applies; each value goes to at most one receiver of its key.)

type shEntry struct {
	key, parent int
	cancelled   bool
}

type shThread struct {
	pos     int // ops started
	nres    int
	st      string
	entry   int // entry of the publish / receive in progress
	val     int
	ctx     int
	handles [][2]int // entry, ctx
}

type shadow struct {
	progs     [][]BOp
	tbl       map[int]int
	ents      []shEntry
	closed    bool
	cancelled map[int]bool
	th        []shThread
}

func newShadow(progs [][]BOp) *shadow {
	sh := &shadow{progs: progs, tbl: map[int]int{}, cancelled: map[int]bool{}, th: make([]shThread, len(progs))}
	for i := range sh.th {
		sh.th[i].st = "gate"
	}
	return sh
}

func (sh *shadow) done(e int) bool {
	return sh.ents[e].cancelled || sh.cancelled[sh.ents[e].parent]
}

func (sh *shadow) step(c int, o BObs) string {
	if o.Crashed {
		return "panic"
	}
	t := &sh.th[c]
	wasGate := t.st == "gate"
	var op BOp
	pubNoneOK := false
	if wasGate {
		op = sh.progs[c][t.pos]
		t.pos++
		switch op.Op {
		case "pub":
			e, ok := sh.tbl[op.K]
			if sh.closed || !ok {
				pubNoneOK = true
				t.entry = -1
			} else {
				t.entry, t.val = e, op.V
			}
		case "recv":
			if !sh.closed {
				e, ok := sh.tbl[op.K]
				if !ok {
					e = len(sh.ents)
					sh.ents = append(sh.ents, shEntry{key: op.K, parent: op.C})
					sh.tbl[op.K] = e
				}
				t.handles = append(t.handles, [2]int{e, op.C})
			}
		case "run":
			if op.H < len(t.handles) {
				t.entry, t.ctx = t.handles[op.H][0], t.handles[op.H][1]
			} else {
				t.entry = -1
			}
		case "free":
			if e, ok := sh.tbl[op.K]; ok {
				sh.ents[e].cancelled = true
				delete(sh.tbl, op.K)
			}
		case "close":
			for k, e := range sh.tbl {
				sh.ents[e].cancelled = true
				delete(sh.tbl, k)
			}
			sh.closed = true
		case "cancel":
			sh.cancelled[op.C] = true
		}
	}
	// partners parked before this step
	type sent struct{ entry, val int }
	var sents []sent
	var gots []sent
	// collect new results
	for i := range sh.th {
		ti := &sh.th[i]
		to := o.Threads[i]
		for ti.nres < len(to.Results) {
			r := to.Results[ti.nres]
			ti.nres++
			var v int
			switch {
			case r == "pub:none":
				if !(i == c && pubNoneOK) {
					return fmt.Sprintf("thread %d: Publish returned without delivering although its key was registered and the broadcaster open", i)
				}
			case r == "pub:gaveup":
				if ti.entry < 0 || !sh.done(ti.entry) {
					return fmt.Sprintf("thread %d: Publish gave up although its key was neither freed nor its context done nor the broadcaster closed", i)
				}
			case r == "pub:sent":
				sents = append(sents, sent{ti.entry, ti.val})
			case r == "reg:true":
				if sh.closed && i == c && op.Op == "recv" {
					return fmt.Sprintf("thread %d: Receive succeeded on a closed broadcaster", i)
				}
			case r == "reg:false":
				if !sh.closed {
					return fmt.Sprintf("thread %d: Receive refused on an open broadcaster", i)
				}
			case r == "recv:ctx":
				if ti.entry < 0 || !sh.cancelled[ti.ctx] {
					return fmt.Sprintf("thread %d: receive returned a context error although its context is not done", i)
				}
			case r == "recv:closed":
				if ti.entry < 0 || !sh.done(ti.entry) {
					return fmt.Sprintf("thread %d: receive returned closed although nothing was freed or closed", i)
				}
			case r == "recv:nohandle", r == "unit":
			default:
				if n, _ := fmt.Sscanf(r, "recv:got:%d", &v); n == 1 {
					gots = append(gots, sent{ti.entry, v})
				} else {
					return fmt.Sprintf("thread %d: unexpected result %q", i, r)
				}
			}
		}
		ti.st = to.St
	}
	if len(sents) != len(gots) {
		return fmt.Sprintf("%d publishes reported delivery, %d receives got a value", len(sents), len(gots))
	}
	for _, g := range gots {
		ok := false
		for _, s := range sents {
			if s == g {
				ok = true
			}
		}
		if !ok {
			return fmt.Sprintf("value %d received through an entry it was not published on (or not published)", g.val)
		}
	}
	// nobody may stay blocked once a reason to return applies
	for i := range sh.th {
		ti := &sh.th[i]
		if ti.st != "blocked" {
			continue
		}
		last := sh.progs[i][ti.pos-1]
		if last.Op == "pub" {
			if sh.done(ti.entry) {
				return fmt.Sprintf("thread %d stays blocked in Publish although its key was freed / its context is done / the broadcaster is closed", i)
			}
			for j := range sh.th {
				tj := &sh.th[j]
				if tj.st == "blocked" && sh.progs[j][tj.pos-1].Op == "run" && tj.entry == ti.entry {
					return fmt.Sprintf("thread %d blocked in Publish and thread %d blocked in receive on the same key: lost hand-off", i, j)
				}
			}
		} else if last.Op == "run" {
			if sh.cancelled[ti.ctx] {
				return fmt.Sprintf("thread %d stays blocked in receive although its context is done", i)
			}
			if sh.done(ti.entry) {
				return fmt.Sprintf("thread %d stays blocked in receive although its key was freed or the broadcaster closed", i)
			}
		} else {
			return fmt.Sprintf("thread %d blocked in %s", i, last.Op)
		}
	}
	return ""
}
