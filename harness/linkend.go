package harness

// linkend.go — C03 (black box, real scheduler): one real registry against a scripted raw peer.
//   - a transport read fails with an error value that panrpc itself uses as a signal elsewhere
//     (context.Canceled, context.DeadlineExceeded, io.EOF, ...) while the link context is alive;
//   - one response write is stuck in the transport while other operations proceed, then the link
//     context is cancelled.
// In every case: the call in flight returns a non-nil error, Link returns, later calls fail at once.

import (
	"context"
	"sort"
	"strings"
	"encoding/json"
	"errors"
	"fmt"
	"io"
	"net"
	"os"
	"sync"
	"time"

	"github.com/pojntfx/panrpc/go/pkg/rpc"
	"github.com/pojntfx/panrpc/go/pkg/utils"
)

var sentinelErrs = []struct {
	name string
	err  error
}{
	{"context.Canceled", context.Canceled},
	{"context.DeadlineExceeded", context.DeadlineExceeded},
	{"io.EOF", io.EOF},
	{"io.ErrUnexpectedEOF", io.ErrUnexpectedEOF},
	{"net.ErrClosed", net.ErrClosed},
	{"os.ErrDeadlineExceeded", os.ErrDeadlineExceeded},
	{"utils.ErrClosed", utils.ErrClosed},
	{"wrapped context.Canceled", fmt.Errorf("read tcp: %w", context.Canceled)},
	{"plain", errors.New("connection reset by peer")},
}

// failQ is a frame source that blocks until it is told to fail (or fed)
type failQ struct {
	ch   chan json.RawMessage
	fail chan error
}

func newFailQ() *failQ { return &failQ{ch: make(chan json.RawMessage, 16), fail: make(chan error, 1)} }
func (q *failQ) Get() (json.RawMessage, error) {
	select {
	case f := <-q.ch:
		return f, nil
	case err := <-q.fail:
		q.fail <- err // sticky
		return nil, err
	}
}

func FamLinkEnd(seed int64) SysRecord {
	variant := int(seed % int64(3*len(sentinelErrs)+12))
	if variant < 0 {
		variant = -variant
	}
	rec := SysRecord{Family: "linkend", Seed: seed}
	w := newWorld()
	node := NewSysNode[json.RawMessage](w, "A")
	c := jsonRawCodec()
	ctx, cancel := context.WithCancel(context.Background())
	defer cancel()
	add := func(cl SysCall) { rec.Calls = append(rec.Calls, cl) }
	errc := make(chan error, 1)
	inflight := func(rem sysRemote, tag int) chan SysCall {
		done := make(chan SysCall, 1)
		go func() {
			v, err := rem.EchoInt(context.Background(), tag, 1)
			done <- SysCall{Tag: tag, From: "A", Method: "InFlightAtEnd", Ret: canon(v), Err: errText(err), Done: true}
		}()
		return done
	}
	finish := func(rem sysRemote, done chan SysCall, what string) {
		select {
		case cl := <-done:
			cl.Extra = what
			add(cl)
		case <-time.After(3 * time.Second):
			add(SysCall{Tag: 960, From: "A", Method: "InFlightAtEnd", Err: "", Extra: what + ": DID-NOT-RETURN within 3 s"})
		}
		select {
		case err := <-errc:
			add(SysCall{Tag: 961, Method: "LinkReturn", Ret: "returned", Err: errText(err), Extra: what, Done: true})
		case <-time.After(3 * time.Second):
			add(SysCall{Tag: 961, Method: "LinkReturn", Ret: "DID-NOT-RETURN within 3 s", Extra: what})
		}
		lctx, lcancel := context.WithTimeout(context.Background(), 2*time.Second)
		t0 := time.Now()
		_, err := rem.EchoInt(lctx, 962, 2)
		lcancel()
		add(SysCall{Tag: 962, From: "A", Method: "LaterCall", Err: errText(err), Extra: fmt.Sprintf("%s: took %v", what, time.Since(t0) > time.Second), Done: true})
	}
	firstRemote := func() (sysRemote, bool) {
		if !WaitRemotes(node, 1) {
			rec.Notes = append(rec.Notes, "link did not come up")
			return sysRemote{}, false
		}
		for _, x := range node.Remotes() {
			return x, true
		}
		return sysRemote{}, false
	}
	ns := len(sentinelErrs)
	switch {
	case variant < 2*ns: // message API: the request reader (even) or the response reader (odd) fails
		s := sentinelErrs[variant/2]
		which := []string{"request", "response"}[variant%2]
		rec.Config = fmt.Sprintf("json-raw/message %s read fails with %s", which, s.name)
		reqIn, resIn := newFailQ(), newFailQ()
		sink := func(b json.RawMessage) error { return nil }
		go func() { errc <- node.Reg.LinkMessage(ctx, sink, sink, reqIn.Get, resIn.Get, c.Marshal, c.Unmarshal, nil) }()
		rem, ok := firstRemote()
		if !ok {
			return rec
		}
		done := inflight(rem, 960)
		time.Sleep(2 * time.Millisecond)
		if which == "request" {
			reqIn.fail <- s.err
		} else {
			resIn.fail <- s.err
		}
		finish(rem, done, rec.Config)
		cancel()
		other := errors.New("closed")
		select {
		case reqIn.fail <- other:
		default:
		}
		select {
		case resIn.fail <- other:
		default:
		}
	case variant < 3*ns: // stream API: decode fails
		s := sentinelErrs[variant-2*ns]
		rec.Config = fmt.Sprintf("json-raw/stream decode fails with %s", s.name)
		fail := make(chan error, 1)
		dec := func(v *rpc.Message[json.RawMessage]) error { err := <-fail; fail <- err; return err }
		enc := func(v rpc.Message[json.RawMessage]) error { return nil }
		go func() { errc <- node.Reg.LinkStream(ctx, enc, dec, c.Marshal, c.Unmarshal, nil) }()
		rem, ok := firstRemote()
		if !ok {
			return rec
		}
		done := inflight(rem, 960)
		time.Sleep(2 * time.Millisecond)
		fail <- s.err
		finish(rem, done, rec.Config)
		cancel()
	case variant >= 3*ns+8: // the link context ends with a cause: Link still returns the context's error
		k := variant - (3*ns + 8)
		stream := k%2 == 1
		timeout := k >= 2
		rec.Config = fmt.Sprintf("json-raw/%s link context %s with a cause", map[bool]string{false: "message", true: "stream"}[stream], map[bool]string{false: "cancelled", true: "timed out"}[timeout])
		var lctx context.Context
		var fire func()
		if timeout {
			c2, cn := context.WithTimeoutCause(context.Background(), 30*time.Millisecond, errors.New("application: watchdog fired"))
			lctx, fire = c2, func() { time.Sleep(40 * time.Millisecond); _ = cn }
		} else {
			c2, cn := context.WithCancelCause(context.Background())
			lctx, fire = c2, func() { cn(errors.New("application: shutting down for maintenance")) }
		}
		reqIn, resIn := newFailQ(), newFailQ()
		sink := func(b json.RawMessage) error { return nil }
		if !stream {
			go func() { errc <- node.Reg.LinkMessage(lctx, sink, sink, reqIn.Get, resIn.Get, c.Marshal, c.Unmarshal, nil) }()
		} else {
			dec := func(v *rpc.Message[json.RawMessage]) error { <-lctx.Done(); return lctx.Err() }
			enc := func(v rpc.Message[json.RawMessage]) error { return nil }
			go func() { errc <- node.Reg.LinkStream(lctx, enc, dec, c.Marshal, c.Unmarshal, nil) }()
		}
		rem, ok2 := firstRemote()
		if !ok2 {
			return rec
		}
		done := inflight(rem, 960)
		time.Sleep(2 * time.Millisecond)
		fire()
		finish(rem, done, rec.Config)
		cancel()
		other := errors.New("closed")
		select {
		case reqIn.fail <- other:
		default:
		}
		select {
		case resIn.fail <- other:
		default:
		}
	case variant >= 3*ns+4: // a write fails (message API): request write (even) or response write (odd)
		which := []string{"request", "response"}[variant%2]
		s := sentinelErrs[[]int{8, 0, 2, 6}[variant-(3*ns+4)]]
		rec.Config = fmt.Sprintf("json-raw/message %s write fails with %s", which, s.name)
		reqIn, resIn := newFailQ(), newFailQ()
		ok := func(b json.RawMessage) error { return nil }
		bad := func(b json.RawMessage) error { return s.err }
		wreq, wres := ok, ok
		if which == "request" {
			wreq = bad
		} else {
			wres = bad
		}
		go func() { errc <- node.Reg.LinkMessage(ctx, wreq, wres, reqIn.Get, resIn.Get, c.Marshal, c.Unmarshal, nil) }()
		rem, ok2 := firstRemote()
		if !ok2 {
			return rec
		}
		var done chan SysCall
		if which == "request" {
			done = inflight(rem, 960) // its own request write fails
		} else {
			done = make(chan SysCall, 1)
			// a gated call is in flight when the response to a request of the peer cannot be written
			go func() {
				v, err := rem.EchoInt(context.Background(), 960, 1)
				done <- SysCall{Tag: 960, From: "A", Method: "InFlightAtEnd", Ret: canon(v), Err: errText(err), Done: true}
			}()
			time.Sleep(2 * time.Millisecond)
			if variant-(3*ns+4) == 2 {
				// the function whose response cannot be written has no return values at all
				rec.Config += " (handler without return values)"
				reqIn.ch <- json.RawMessage(`{"call":"p1","function":"Notify0","args":[970]}`)
			} else {
				reqIn.ch <- json.RawMessage(`{"call":"p1","function":"EchoInt","args":[970,5]}`)
			}
		}
		finish(rem, done, rec.Config)
		cancel()
		other := errors.New("closed")
		select {
		case reqIn.fail <- other:
		default:
		}
		select {
		case resIn.fail <- other:
		default:
		}
	default: // a response write is stuck in the transport; requests still go out; then the link context is cancelled
		stream := (variant-3*ns)%2 == 1
		rec.Config = fmt.Sprintf("json-raw/%s with a stuck response write", map[bool]string{false: "message", true: "stream"}[stream])
		release := make(chan struct{})
		defer close(release)
		reqOut := make(chan string, 16)
		stuck := make(chan struct{}, 16)
		reqIn, resIn := newFailQ(), newFailQ()
		if !stream {
			go func() {
				errc <- node.Reg.LinkMessage(ctx,
					func(b json.RawMessage) error { reqOut <- string(b); return nil },
					func(b json.RawMessage) error { stuck <- struct{}{}; <-release; return errors.New("released") },
					reqIn.Get, resIn.Get, c.Marshal, c.Unmarshal, nil)
			}()
		} else {
			var mu sync.Mutex // the application serialises what does get written
			in := make(chan rpc.Message[json.RawMessage], 16)
			go func() {
				for {
					select {
					case f := <-reqIn.ch:
						in <- rpc.Message[json.RawMessage]{Request: &f}
					case f := <-resIn.ch:
						in <- rpc.Message[json.RawMessage]{Response: &f}
					case <-ctx.Done():
						return
					}
				}
			}()
			enc := func(v rpc.Message[json.RawMessage]) error {
				if v.Response != nil {
					stuck <- struct{}{}
					<-release
					return errors.New("released")
				}
				mu.Lock()
				defer mu.Unlock()
				reqOut <- string(*v.Request)
				return nil
			}
			dec := func(v *rpc.Message[json.RawMessage]) error {
				select {
				case m := <-in:
					*v = m
					return nil
				case <-ctx.Done():
					return ctx.Err()
				}
			}
			go func() { errc <- node.Reg.LinkStream(ctx, enc, dec, c.Marshal, c.Unmarshal, nil) }()
		}
		rem, ok := firstRemote()
		if !ok {
			return rec
		}
		// the peer calls A; A's response write gets stuck
		reqIn.ch <- json.RawMessage(`{"call":"p1","function":"EchoInt","args":[970,5]}`)
		select {
		case <-stuck:
		case <-time.After(3 * time.Second):
			rec.Notes = append(rec.Notes, "the response write never started")
		}
		// an independent call of A still goes out and completes
		cdone := make(chan SysCall, 1)
		go func() {
			cctx, ccancel := context.WithTimeout(context.Background(), 3*time.Second)
			defer ccancel()
			v, err := rem.EchoInt(cctx, 971, 9)
			cdone <- SysCall{Tag: 971, From: "A", Method: "CallWhileWriteStuck", Ret: canon(v), Err: errText(err), Done: true}
		}()
		select {
		case f := <-reqOut:
			var q struct {
				Call string `json:"call"`
			}
			json.Unmarshal([]byte(f), &q)
			resIn.ch <- json.RawMessage(fmt.Sprintf(`{"call":%q,"value":9,"err":""}`, q.Call))
		case <-time.After(3 * time.Second):
			rec.Notes = append(rec.Notes, "a new call's request was not written while an unrelated response write was stuck")
		}
		select {
		case cl := <-cdone:
			add(cl)
		case <-time.After(4 * time.Second):
			add(SysCall{Tag: 971, From: "A", Method: "CallWhileWriteStuck", Err: "DID-NOT-RETURN"})
		}
		// a call in flight (never answered); the link context is cancelled
		done := inflight(rem, 960)
		select {
		case <-reqOut:
		case <-time.After(3 * time.Second):
			rec.Notes = append(rec.Notes, "the in-flight call's request was not written while an unrelated response write was stuck")
		}
		cancel()
		finish(rem, done, rec.Config)
	}
	return rec
}

// ---- C14: a link ends while the registry is being enumerated ----
func FamEnumRace(seed int64) SysRecord {
	rec := SysRecord{Family: "enumrace", Config: "json-raw/mixed", Seed: seed}
	w := newWorld()
	c := jsonRawCodec()
	hub := NewSysNode[json.RawMessage](w, "H")
	n := 3
	spokes := make([]*SysNode[json.RawMessage], n)
	links := make([]*SysLink[json.RawMessage], n)
	idOf := map[string]int{}
	for i := range spokes {
		spokes[i] = NewSysNode[json.RawMessage](w, fmt.Sprintf("S%d", i))
		before := hub.Remotes()
		links[i] = Connect(w, hub, spokes[i], c, (seed+int64(i))%2 == 0, -1, seed+int64(i))
		if !WaitRemotes(hub, i+1) || !WaitRemotes(spokes[i], 1) {
			rec.Notes = append(rec.Notes, "link did not come up")
			return rec
		}
		for id := range hub.Remotes() {
			if _, ok := before[id]; !ok {
				idOf[id] = i
			}
		}
	}
	disconnected := func(id string) bool {
		for _, e := range w.Events() {
			if e.Node == "H" && e.Kind == "hook" && e.Method == "disconnect" && e.Remote == id {
				return true
			}
		}
		return false
	}
	first := true
	done := make(chan struct{})
	go func() {
		defer close(done)
		hub.Reg.ForRemotes(func(id string, _ sysRemote) error {
			w.log(SysEvent{Node: "H", Kind: "enum", Remote: id})
			if first {
				first = false
				// while the enumeration is under way, every other link ends
				for vid, k := range idOf {
					if vid == id {
						continue
					}
					links[k].CancelB()
					links[k].CancelA()
					links[k].CloseTransport(errors.New("gone"))
				}
				// give the disconnect notifications a chance to be delivered (they may have to wait
				// for the enumeration, which is fine: then the links still count as live)
				waitUntil(func() bool {
					k := 0
					for vid := range idOf {
						if vid != id && disconnected(vid) {
							k++
						}
					}
					return k == n-1
				}, 150*time.Millisecond)
			}
			return nil
		})
	}()
	select {
	case <-done:
	case <-time.After(5 * time.Second):
		rec.Notes = append(rec.Notes, "enumeration did not finish")
		rec.Hang = true
	}
	for k := range links {
		links[k].CancelA()
		links[k].CancelB()
		links[k].CloseTransport(errors.New("gone"))
	}
	waitUntil(func() bool { return len(hub.Remotes()) == 0 }, 3*time.Second)
	time.Sleep(2 * time.Millisecond)
	rec.Events = w.Events()
	return rec
}

// ---- C13: a handler of link 0 relays over link 1 with its request's context; link 0 is cancelled ----
func FamRelay[T any](c Codec[T], seed int64) SysRecord {
	rec := SysRecord{Family: "relay", Config: c.Name + "/mixed", Seed: seed}
	w := newWorld()
	hub := NewSysNode[T](w, "H")
	n := 2
	spokes := make([]*SysNode[T], n)
	links := make([]*SysLink[T], n)
	hubRem := make([]sysRemote, n) // the hub's stub for spoke i
	for i := range spokes {
		spokes[i] = NewSysNode[T](w, fmt.Sprintf("S%d", i))
		before := hub.Remotes()
		links[i] = Connect(w, hub, spokes[i], c, (seed+int64(i))%2 == 0, -1, seed+int64(i))
		if !WaitRemotes(hub, i+1) || !WaitRemotes(spokes[i], 1) {
			rec.Notes = append(rec.Notes, "link did not come up")
			return rec
		}
		for id, r := range hub.Remotes() {
			if _, ok := before[id]; !ok {
				hubRem[i] = r
			}
		}
	}
	spokeRem := func(i int) sysRemote {
		for _, r := range spokes[i].Remotes() {
			return r
		}
		return sysRemote{}
	}
	w.mu.Lock()
	w.relay = func() (sysRemote, bool) { return hubRem[1], true }
	w.mu.Unlock()
	ctx, cancel := context.WithTimeout(context.Background(), 20*time.Second)
	defer cancel()
	var mu sync.Mutex
	add := func(cl SysCall) { mu.Lock(); rec.Calls = append(rec.Calls, cl); mu.Unlock() }
	var wg sync.WaitGroup
	// calls in flight on link 1 in both directions
	wg.Add(2)
	go func() {
		defer wg.Done()
		v, err := spokeRem(1).Gate(ctx, 801)
		add(SysCall{Tag: 801, From: "S1", Method: "InFlightOnOtherLink", Ret: canon(v), Err: errText(err), Done: true})
	}()
	go func() {
		defer wg.Done()
		v, err := hubRem[1].Gate(ctx, 802)
		add(SysCall{Tag: 802, From: "H", Method: "InFlightOnOtherLink", Ret: canon(v), Err: errText(err), Done: true})
	}()
	// spoke 0 asks the hub to relay: the hub's handler calls spoke 1 with the handler's context
	relayDone := make(chan SysCall, 1)
	go func() {
		v, err := spokeRem(0).Relay(ctx, 800)
		relayDone <- SysCall{Tag: 800, From: "S0", Method: "RelayCaller", Ret: canon(v), Err: errText(err), Done: true}
	}()
	if !waitUntil(func() bool { return hasInv(w, "Gate", 801) && hasInv(w, "Gate", 802) && hasInv(w, "Gate", 803) }, 4*time.Second) {
		rec.Notes = append(rec.Notes, "the calls did not all reach their handlers")
	}
	// link 0 ends on the hub's side (its context is cancelled): the relayed call is aborted
	links[0].CancelA()
	links[0].CloseTransport(errors.New("transport closed"))
	if !waitUntil(func() bool { return hasRet(w, "Relay", 800) }, 3*time.Second) {
		rec.Notes = append(rec.Notes, "the relayed call (made with the context of a request of the cancelled link) did not return")
	}
	select {
	case cl := <-relayDone:
		add(cl)
	case <-time.After(3 * time.Second):
		add(SysCall{Tag: 800, From: "S0", Method: "RelayCaller", Err: "DID-NOT-RETURN"})
	}
	// a handler that served link 0 may still use its request's context (now cancelled) for a call over link 1:
	// that call fails with the context's error - an ordinary failed call on link 1
	{
		dctx, dcancel := context.WithCancel(ctx)
		dcancel()
		v, err := hubRem[1].EchoInt(dctx, 809, 1)
		add(SysCall{Tag: 809, From: "H", Method: "CallOnOtherLinkWithDeadContext", Ret: canon(v), Err: errText(err), Done: true})
	}
	// link 1 is unaffected: new calls work in both directions, the calls in flight complete
	for k, rem := range []sysRemote{spokeRem(1), hubRem[1]} {
		pctx, pcancel := context.WithTimeout(ctx, 3*time.Second)
		v, err := rem.EchoInt(pctx, 810+k, 42)
		pcancel()
		add(SysCall{Tag: 810 + k, From: []string{"S1", "H"}[k], Method: "ProbeOtherLink", Ret: canon(v), Err: errText(err), Done: true})
	}
	for _, g := range []int{801, 802, 803} {
		close(w.gate(g))
	}
	if !waitAll(&wg, 5*time.Second) {
		rec.Hang = true
	}
	for i, l := range links {
		l.CancelA()
		l.CancelB()
		l.CloseTransport(errors.New("transport closed"))
		for _, e := range []chan error{l.ErrA, l.ErrB} {
			select {
			case <-e:
			case <-time.After(5 * time.Second):
				rec.Notes = append(rec.Notes, fmt.Sprintf("link %d did not return", i))
			}
		}
	}
	rec.Events = w.Events()
	return rec
}

// ---- C14 / C13: a link whose context descends from the context of a request of ANOTHER link ----
// Spoke S0 calls hub.OpenLink; the hub's handler links the hub to a new spoke S1 using the context of the
// request it is handling (which carries S0's link identity) and returns. The new link must get a fresh
// identity of its own: announced, enumerated and read by its handlers as such.
func FamNestedLink[T any](c Codec[T], seed int64) SysRecord {
	rec := SysRecord{Family: "nestedlink", Config: c.Name + "/mixed", Seed: seed}
	w := newWorld()
	hub := NewSysNode[T](w, "H")
	s0, s1 := NewSysNode[T](w, "S0"), NewSysNode[T](w, "S1")
	l0 := Connect(w, hub, s0, c, seed%2 == 0, -1, seed)
	if !WaitRemotes(hub, 1) || !WaitRemotes(s0, 1) {
		rec.Notes = append(rec.Notes, "link did not come up")
		return rec
	}
	var id0 string
	for id := range hub.Remotes() {
		id0 = id
	}
	var l1 *SysLink[T]
	var lmu sync.Mutex
	w.mu.Lock()
	w.openLink = func(ctx context.Context, tag int) int {
		l := ConnectCtx(ctx, w, hub, s1, c, seed%3 == 0, -1, seed+7)
		lmu.Lock()
		l1 = l
		lmu.Unlock()
		if !WaitRemotes(s1, 1) {
			return -1
		}
		// keep the request (and with it the parent context) alive until the workload is done
		select {
		case <-w.gate(tag):
		case <-time.After(10 * time.Second):
		}
		return len(hub.Remotes())
	}
	w.mu.Unlock()
	ctx, cancel := context.WithTimeout(context.Background(), 20*time.Second)
	defer cancel()
	var rem0 sysRemote
	for _, r := range s0.Remotes() {
		rem0 = r
	}
	done := make(chan SysCall, 1)
	go func() {
		v, err := rem0.OpenLink(ctx, 760)
		done <- SysCall{Tag: 760, From: "S0", Method: "OpenLink", Ret: canon(v), Err: errText(err), Done: true}
	}()
	if !waitUntil(func() bool { return len(s1.Remotes()) == 1 && len(hub.Remotes()) >= 1 }, 4*time.Second) {
		rec.Notes = append(rec.Notes, "the second link did not come up")
	}
	time.Sleep(2 * time.Millisecond)
	ids := []string{}
	for id := range hub.Remotes() {
		ids = append(ids, id)
	}
	sort.Strings(ids)
	rec.Calls = append(rec.Calls, SysCall{Tag: 761, From: "H", Method: "EnumeratedWhileBothLinksLive", Ret: fmt.Sprint(len(ids)), Extra: id0, Done: true})
	// what do the handlers of each link read from their context?
	who0, e0 := rem0.WhoAmI(ctx, 762)
	rec.Calls = append(rec.Calls, SysCall{Tag: 762, From: "S0", Method: "WhoAmIFirstLink", Ret: who0, Err: errText(e0), Extra: id0, Done: true})
	for _, r := range s1.Remotes() {
		who1, e1 := r.WhoAmI(ctx, 763)
		other := ""
		for _, id := range ids {
			if id != id0 {
				other = id
			}
		}
		rec.Calls = append(rec.Calls, SysCall{Tag: 763, From: "S1", Method: "WhoAmISecondLink", Ret: who1, Err: errText(e1), Extra: other, Done: true})
	}
	close(w.gate(760))
	select {
	case cl := <-done:
		rec.Calls = append(rec.Calls, cl)
	case <-time.After(4 * time.Second):
		rec.Calls = append(rec.Calls, SysCall{Tag: 760, From: "S0", Method: "OpenLink", Err: "DID-NOT-RETURN"})
	}
	lmu.Lock()
	links := []*SysLink[T]{l0, l1}
	lmu.Unlock()
	for i, l := range links {
		if l == nil {
			continue
		}
		l.CancelA()
		l.CancelB()
		l.CloseTransport(errors.New("transport closed"))
		for _, e := range []chan error{l.ErrA, l.ErrB} {
			select {
			case <-e:
			case <-time.After(4 * time.Second):
				rec.Notes = append(rec.Notes, fmt.Sprintf("link %d did not return", i))
			}
		}
	}
	waitUntil(func() bool { return len(hub.Remotes()) == 0 }, 3*time.Second)
	time.Sleep(2 * time.Millisecond)
	rec.Events = w.Events()
	return rec
}

// ---- C03: a handler is inside an invocation of a closure the peer passed when the link ends: that
// invocation is a call in flight like any other and returns a non-nil error ----
func FamClosureEnd[T any](c Codec[T], stream bool, chunk int, seed int64) SysRecord {
	rec := SysRecord{Family: "closureend", Config: cfgName(c.Name, stream, chunk), Seed: seed}
	p, err := newPair(c, stream, chunk, seed)
	if err != nil {
		rec.Notes = append(rec.Notes, err.Error())
		return rec
	}
	ctx, cancel := context.WithTimeout(context.Background(), 20*time.Second)
	defer cancel()
	started, release := make(chan struct{}), make(chan struct{})
	done := make(chan SysCall, 1)
	go func() {
		v, err := p.ra.KeepAndCall(ctx, 790, func(ctx context.Context, x int) (int, error) {
			close(started)
			<-release
			return x, nil
		})
		done <- SysCall{Tag: 790, From: "A", Method: "CallWhoseClosureIsRunning", Ret: canon(v), Err: errText(err), Done: true}
	}()
	select {
	case <-started:
	case <-time.After(3 * time.Second):
		rec.Notes = append(rec.Notes, "closure never started")
	}
	p.l.CloseTransport(errors.New("transport failed")) // no context is cancelled
	if !waitUntil(func() bool { return hasRet(p.w, "KeepAndCall", 790) }, 4*time.Second) {
		rec.Notes = append(rec.Notes, "the handler's closure invocation that was in flight when the link ended DID-NOT-RETURN")
	}
	select {
	case cl := <-done:
		rec.Calls = append(rec.Calls, cl)
	case <-time.After(4 * time.Second):
		rec.Calls = append(rec.Calls, SysCall{Tag: 790, From: "A", Method: "CallWhoseClosureIsRunning", Err: "DID-NOT-RETURN"})
	}
	close(release)
	p.l.CancelA()
	p.l.CancelB()
	for _, e := range []chan error{p.l.ErrA, p.l.ErrB} {
		select {
		case <-e:
		case <-time.After(4 * time.Second):
			rec.Notes = append(rec.Notes, "a Link call did not return")
		}
	}
	time.Sleep(2 * time.Millisecond)
	rec.Events = p.w.Events()
	return rec
}

// ---- C08: the same scripted history against the message API and the stream API ----
// scenario 0: a malformed response ends the link, one more response arrives, then the application cancels and
//             closes: Link returns, the disconnect notification fires, nothing stays enumerated
// scenario 1: the lane requests are written to is blocked (back-pressure); requests of the peer are still answered
func FamParity(seed int64, stream bool, scenario int) SysRecord {
	rec := SysRecord{Family: fmt.Sprintf("parity%d", scenario), Config: map[bool]string{false: "json-raw/message", true: "json-raw/stream"}[stream], Seed: seed}
	w := newWorld()
	node := NewSysNode[json.RawMessage](w, "A")
	c := jsonRawCodec()
	ctx, cancel := context.WithCancel(context.Background())
	defer cancel()
	errc := make(chan error, 1)
	resOut := make(chan string, 16)
	blockReq := make(chan struct{}) // closed = request lane free
	if scenario != 1 {
		close(blockReq)
	}
	reqIn, resIn := newFailQ(), newFailQ()
	reqFrames := make(chan string, 16) // the request frames the registry writes
	once := make(chan error, 1)      // one read fails once with this error (scenario 2)
	closeAll := make(chan struct{})  // the transport is closed (scenarios 2 and 3)
	hooks := &rpc.LinkHooks{OnClientDisconnect: func(id string) { w.log(SysEvent{Node: "A", Kind: "hook", Method: "link-disconnect"}) }}
	readReq := func() (json.RawMessage, error) {
		select {
		case f := <-reqIn.ch:
			return f, nil
		case e := <-once:
			return nil, e
		case e := <-reqIn.fail:
			reqIn.fail <- e
			return nil, e
		case <-closeAll:
			return nil, errors.New("closed")
		}
	}
	readRes := func() (json.RawMessage, error) {
		select {
		case f := <-resIn.ch:
			return f, nil
		case e := <-resIn.fail:
			resIn.fail <- e
			return nil, e
		case <-closeAll:
			return nil, errors.New("closed")
		}
	}
	if !stream {
		go func() {
			errc <- node.Reg.LinkMessage(ctx, func(b json.RawMessage) error {
				<-blockReq
				select {
				case reqFrames <- string(b):
				default:
				}
				return nil
			},
				func(b json.RawMessage) error { resOut <- string(b); return nil }, readReq, readRes, c.Marshal, c.Unmarshal, hooks)
		}()
	} else {
		in := make(chan rpc.Message[json.RawMessage], 16)
		go func() {
			for {
				select {
				case f := <-reqIn.ch:
					in <- rpc.Message[json.RawMessage]{Request: &f}
				case f := <-resIn.ch:
					in <- rpc.Message[json.RawMessage]{Response: &f}
				case <-ctx.Done():
					return
				}
			}
		}()
		enc := func(v rpc.Message[json.RawMessage]) error {
			if v.Request != nil {
				<-blockReq
				select {
				case reqFrames <- string(*v.Request):
				default:
				}
				return nil
			}
			resOut <- string(*v.Response)
			return nil
		}
		dec := func(v *rpc.Message[json.RawMessage]) error {
			if scenario >= 2 {
				// a transport that does not know about the context: reads return when data arrives, on a transport
				// error or when the transport is closed
				select {
				case m := <-in:
					*v = m
					return nil
				case e := <-once:
					return e
				case <-closeAll:
					return errors.New("closed")
				}
			}
			select {
			case m := <-in:
				*v = m
				return nil
			case <-ctx.Done():
				return ctx.Err()
			}
		}
		go func() { errc <- node.Reg.LinkStream(ctx, enc, dec, c.Marshal, c.Unmarshal, hooks) }()
	}
	if !WaitRemotes(node, 1) {
		rec.Notes = append(rec.Notes, "link did not come up")
		return rec
	}
	var rem sysRemote
	for _, x := range node.Remotes() {
		rem = x
	}
	add := func(m, ret string) { rec.Calls = append(rec.Calls, SysCall{Method: m, Ret: ret, Done: true}) }
	disconnects := func() int {
		nd := 0
		for _, e := range w.Events() {
			if e.Kind == "hook" && e.Method == "link-disconnect" {
				nd++
			}
		}
		return nd
	}
	if scenario == 2 || scenario == 3 {
		if scenario == 2 {
			// a read fails ONCE with a timeout-like error of the transport (os.ErrDeadlineExceeded): whatever the link
			// does with it, it does the same under both APIs
			once <- os.ErrDeadlineExceeded
		} else {
			// the link context is cancelled while the transport stays open and idle
			cancel()
		}
		select {
		case err := <-errc:
			add("LinkReturn", "returned "+errText(err))
			errc <- err
		case <-time.After(400 * time.Millisecond):
			add("LinkReturn", "still running after 400 ms")
		}
		if scenario == 3 {
			// (under the stream API ONE failing decode fails both reads, under the message API the other read is
			// still outstanding: only the idle-transport scenario is comparable here)
			time.Sleep(50 * time.Millisecond)
			add("RemotesBeforeTheTransportCloses", fmt.Sprint(len(node.Remotes())))
			add("DisconnectNotificationsBeforeTheTransportCloses", fmt.Sprint(disconnects()))
		}
		// the next call; the peer answers it if it sees its request
		go func() {
			select {
			case f := <-reqFrames:
				var q struct {
					Call string `json:"call"`
				}
				json.Unmarshal([]byte(f), &q)
				resIn.ch <- json.RawMessage(fmt.Sprintf(`{"call":%q,"value":3,"err":""}`, q.Call))
			case <-closeAll:
			}
		}()
		cctx, ccancel := context.WithTimeout(context.Background(), 300*time.Millisecond)
		cv, cerr := rem.EchoInt(cctx, 797, 3)
		ccancel()
		add("NextCall", fmt.Sprintf("%d/%s", cv, errText(cerr)))
		close(closeAll)
		cancel()
		select {
		case <-errc:
		case <-time.After(3 * time.Second):
			add("LinkReturn", "DID-NOT-RETURN after the transport was closed")
		}
		gone := waitUntil(func() bool { return len(node.Remotes()) == 0 }, 3*time.Second)
		add("RemoteRemovedAfterTheEnd", fmt.Sprint(gone))
		time.Sleep(2 * time.Millisecond)
		add("DisconnectNotifications", fmt.Sprint(disconnects()))
		return rec
	}
	if scenario == 0 {
		resIn.ch <- json.RawMessage(`{"call":5,"value":1,"err":""}`) // malformed: the call id is not a string
		time.Sleep(5 * time.Millisecond)
		resIn.ch <- json.RawMessage(`{"call":"nobody","value":2,"err":""}`) // the peer keeps sending
		time.Sleep(5 * time.Millisecond)
		cancel()
		select {
		case reqIn.fail <- errors.New("closed"):
		default:
		}
		select {
		case resIn.fail <- errors.New("closed"):
		default:
		}
		select {
		case <-errc:
			add("LinkReturn", "returned")
		case <-time.After(3 * time.Second):
			add("LinkReturn", "DID-NOT-RETURN")
		}
		gone := waitUntil(func() bool { return len(node.Remotes()) == 0 }, 3*time.Second)
		add("RemoteRemovedAfterTheEnd", fmt.Sprint(gone))
		time.Sleep(2 * time.Millisecond)
		nd := 0
		for _, e := range w.Events() {
			if e.Kind == "hook" && e.Method == "link-disconnect" {
				nd++
			}
		}
		add("DisconnectNotifications", fmt.Sprint(nd))
	} else {
		// A's own call: its request write is stuck behind back-pressure
		go func() {
			cctx, ccancel := context.WithTimeout(ctx, 4*time.Second)
			defer ccancel()
			rem.EchoInt(cctx, 795, 1)
		}()
		time.Sleep(5 * time.Millisecond)
		// the peer calls A meanwhile
		reqIn.ch <- json.RawMessage(`{"call":"b1","function":"EchoInt","args":[796,6]}`)
		select {
		case f := <-resOut:
			var d map[string]any
			json.Unmarshal([]byte(f), &d)
			add("PeerRequestWhileRequestLaneIsBlocked", canon(d["value"]))
		case <-time.After(3 * time.Second):
			add("PeerRequestWhileRequestLaneIsBlocked", "NO-ANSWER")
		}
		close(blockReq)
		cancel()
		select {
		case reqIn.fail <- errors.New("closed"):
		default:
		}
		select {
		case resIn.fail <- errors.New("closed"):
		default:
		}
		select {
		case <-errc:
		case <-time.After(3 * time.Second):
			rec.Notes = append(rec.Notes, "link did not return")
		}
	}
	return rec
}

// FamEndInEnum — a link of a hub ends (its peer hangs up) while the application is in the middle of an
// enumeration whose callback is waiting in a call: on the OTHER link (variant 0) or on the link that ends
// (variant 1). Link must return promptly with the read error in both.
func FamEndInEnum(seed int64, variant int) SysRecord {
	what := "a link ends while a ForRemotes callback waits in a call on " + map[int]string{0: "another link", 1: "that link"}[variant%2]
	rec := SysRecord{Family: "linkend", Config: "json-raw/message " + what, Seed: seed}
	w := newWorld()
	c := jsonRawCodec()
	hub := NewSysNode[json.RawMessage](w, "H")
	spokes := []*SysNode[json.RawMessage]{NewSysNode[json.RawMessage](w, "S0"), NewSysNode[json.RawMessage](w, "S1")}
	links := make([]*SysLink[json.RawMessage], 2)
	for i := range spokes {
		links[i] = Connect(w, hub, spokes[i], c, false, -1, seed+int64(i))
		if !WaitRemotes(hub, i+1) || !WaitRemotes(spokes[i], 1) {
			rec.Notes = append(rec.Notes, "link did not come up")
			return rec
		}
	}
	ctx, cancel := context.WithTimeout(context.Background(), 10*time.Second)
	defer cancel()
	enumDone := make(chan error, 1)
	go func() {
		first := true
		enumDone <- hub.Reg.ForRemotes(func(id string, rem sysRemote) error {
			if first {
				first = false
				rem.Gate(ctx, 970) // waits until the gate opens or its link ends
			}
			return nil
		})
	}()
	busy := -1
	waitUntil(func() bool {
		for _, e := range w.Events() {
			if e.Kind == "inv" && e.Method == "Gate" && e.Tag == 970 {
				busy = int(e.Node[1] - '0')
				return true
			}
		}
		return false
	}, 3*time.Second)
	if busy < 0 {
		rec.Notes = append(rec.Notes, "the enumeration's call never reached a spoke")
		close(w.gate(970))
		return rec
	}
	victim := busy
	if variant%2 == 0 {
		victim = 1 - busy
	}
	links[victim].CloseTransport(io.EOF) // the peer of that link hangs up
	select {
	case err := <-links[victim].ErrA:
		rec.Calls = append(rec.Calls, SysCall{Tag: 971, Method: "LinkReturn", Ret: "returned", Err: errText(err), Extra: what, Done: true})
	case <-time.After(3 * time.Second):
		rec.Calls = append(rec.Calls, SysCall{Tag: 971, Method: "LinkReturn", Ret: "DID-NOT-RETURN within 3 s", Extra: what})
	}
	close(w.gate(970))
	select {
	case <-enumDone:
	case <-time.After(3 * time.Second):
		rec.Notes = append(rec.Notes, "the enumeration did not finish after its call could complete")
	}
	for _, l := range links {
		l.CancelA()
		l.CancelB()
		l.CloseTransport(io.EOF)
	}
	return rec
}

// FamSharedHooks — several links of one registry are established at the same time and are all given the same
// LinkHooks value, one of whose members is unset (both are optional): the links only read it.
func FamSharedHooks(seed int64) SysRecord {
	rec := SysRecord{Family: "sharedhooks", Config: "json-raw", Seed: seed}
	w := newWorld()
	c := jsonRawCodec()
	hub := NewSysNode[json.RawMessage](w, "H")
	setConnect := seed%2 == 0
	hub.SharedHooks = &rpc.LinkHooks{}
	if setConnect {
		hub.SharedHooks.OnClientConnect = func(id string) { w.log(SysEvent{Node: "H", Kind: "hook", Method: "link-connect", Remote: id}) }
	} else {
		hub.SharedHooks.OnClientDisconnect = func(id string) { w.log(SysEvent{Node: "H", Kind: "hook", Method: "link-disconnect", Remote: id}) }
	}
	const n = 4
	spokes := make([]*SysNode[json.RawMessage], n)
	links := make([]*SysLink[json.RawMessage], n)
	var wg sync.WaitGroup
	for i := range spokes {
		spokes[i] = NewSysNode[json.RawMessage](w, fmt.Sprintf("S%d", i))
		wg.Add(1)
		go func() {
			defer wg.Done()
			links[i] = Connect(w, hub, spokes[i], c, i%2 == 1, -1, seed+int64(i))
		}()
	}
	wg.Wait()
	if !WaitRemotes(hub, n) {
		rec.Notes = append(rec.Notes, "links did not come up")
	}
	ctx, cancel := context.WithTimeout(context.Background(), 5*time.Second)
	defer cancel()
	for i, s := range spokes {
		WaitRemotes(s, 1)
		for _, rem := range s.Remotes() {
			if v, err := rem.EchoInt(ctx, 990+i, int64(i)); err != nil || v != int64(i) {
				rec.Notes = append(rec.Notes, fmt.Sprintf("call of spoke %d returned (%v, %v)", i, v, err))
			}
		}
	}
	for _, l := range links {
		l.CancelA()
		l.CancelB()
		l.CloseTransport(io.EOF)
		for _, ch := range []chan error{l.ErrA, l.ErrB} {
			select {
			case <-ch:
			case <-time.After(3 * time.Second):
				rec.Notes = append(rec.Notes, "LINK-DID-NOT-RETURN")
			}
		}
	}
	waitUntil(func() bool { return len(hub.Remotes()) == 0 }, 2*time.Second)
	if (setConnect && hub.SharedHooks.OnClientDisconnect != nil) || (!setConnect && hub.SharedHooks.OnClientConnect != nil) {
		rec.Notes = append(rec.Notes, "HOOKS-VALUE-WRITTEN panrpc wrote to the LinkHooks value the application passed to four concurrently established links (an unset member is now set): an unsynchronised write to state shared between links")
	}
	rec.Events = w.Events()
	return rec
}

// FamPanicTwice — two handlers of one link panic one after the other with an error value of the same
// uncomparable type (a slice type): the first panic ends the link, the second is a consequence; neither
// may take the process down.
func FamPanicTwice(seed int64) SysRecord {
	c := jsonRawCodec()
	rec := SysRecord{Family: "linkend", Config: "json-raw/message two handlers panic with an error of an uncomparable type", Seed: seed}
	p, err := newPair(c, seed%2 == 1, -1, seed)
	if err != nil {
		rec.Notes = append(rec.Notes, err.Error())
		return rec
	}
	ctx, cancel := context.WithTimeout(context.Background(), 10*time.Second)
	defer cancel()
	done := make(chan error, 2)
	for k := 0; k < 2; k++ {
		go func() { done <- p.ra.PanicGate(ctx, 985+k) }()
	}
	if !waitUntil(func() bool { return hasInv(p.w, "PanicGate", 985) && hasInv(p.w, "PanicGate", 986) }, 3*time.Second) {
		rec.Notes = append(rec.Notes, "handlers never started")
	}
	close(p.w.gate(985))
	select {
	case e := <-p.l.ErrB:
		rec.Calls = append(rec.Calls, SysCall{Tag: 987, Method: "LinkReturn", Ret: "returned", Err: errText(e), Extra: "first handler panic", Done: true})
	case <-time.After(3 * time.Second):
		rec.Calls = append(rec.Calls, SysCall{Tag: 987, Method: "LinkReturn", Ret: "DID-NOT-RETURN within 3 s", Extra: "first handler panic"})
	}
	close(p.w.gate(986)) // the second panic happens on the link that has already ended
	time.Sleep(20 * time.Millisecond)
	p.l.CancelA()
	p.l.CancelB()
	p.l.CloseTransport(io.EOF)
	for k := 0; k < 2; k++ {
		select {
		case e := <-done:
			rec.Calls = append(rec.Calls, SysCall{Tag: 985 + k, From: "A", Method: "InFlightAtEnd", Err: errText(e), Extra: "handler panicked", Done: true})
		case <-time.After(3 * time.Second):
			rec.Calls = append(rec.Calls, SysCall{Tag: 985 + k, From: "A", Method: "InFlightAtEnd", Extra: "handler panicked: DID-NOT-RETURN within 3 s"})
		}
	}
	return rec
}

// FamHealthyStaysUp — things that must NOT end a link: the context of one invocation of a callable is
// cancelled while that invocation is in flight; a per-call context is cancelled; a handler returns an
// error. Link may not return on either side.
func FamHealthyStaysUp(seed int64) SysRecord {
	c := jsonRawCodec()
	rec := SysRecord{Family: "linkend", Config: "json-raw a healthy link: invocation context cancelled, call cancelled, application error", Seed: seed}
	p, err := newPair(c, seed%2 == 1, -1, seed)
	if err != nil {
		rec.Notes = append(rec.Notes, err.Error())
		return rec
	}
	ctx, cancel := context.WithTimeout(context.Background(), 10*time.Second)
	defer cancel()
	rel := make(chan struct{})
	var once sync.Once
	p.ra.IterDerived(ctx, 975, func(ctx context.Context, i int, s string, xs []int, b bool) (string, error) {
		if i == 2 {
			once.Do(func() { close(rel) })
		} else {
			select {
			case <-rel:
			case <-time.After(4 * time.Second):
			}
		}
		return "r", nil
	})
	once.Do(func() { close(rel) })
	cctx, ccancel := context.WithCancel(ctx)
	go func() { time.Sleep(20 * time.Millisecond); ccancel() }()
	p.ra.GateCtx(cctx, 976)
	close(p.w.gate(976))
	p.ra.Fail(ctx, 977, "application error")
	time.Sleep(100 * time.Millisecond)
	for k, ch := range []chan error{p.l.ErrA, p.l.ErrB} {
		select {
		case e := <-ch:
			rec.Calls = append(rec.Calls, SysCall{Tag: 978 + k, Method: "LinkStillUp", Ret: "RETURNED", Err: errText(e), Extra: []string{"caller side", "callee side"}[k], Done: true})
			ch <- e
		default:
			rec.Calls = append(rec.Calls, SysCall{Tag: 978 + k, Method: "LinkStillUp", Ret: "up", Extra: []string{"caller side", "callee side"}[k], Done: true})
		}
	}
	p.close()
	return rec
}

// FamRelayClosure — a handler serving link 0 invokes a callable that the peer of link 1 passed (that call is
// still in flight), using the context of its own request; then link 0 ends. The invocation is aborted with that
// context's error - link 1 itself, its call in flight and new calls on it are unaffected.
func FamRelayClosure(seed int64) SysRecord {
	c := jsonRawCodec()
	rec := SysRecord{Family: "relay", Config: c.Name + "/closure relayed with the other link's request context", Seed: seed}
	w := newWorld()
	hub := NewSysNode[json.RawMessage](w, "H")
	spokes := []*SysNode[json.RawMessage]{NewSysNode[json.RawMessage](w, "S0"), NewSysNode[json.RawMessage](w, "S1")}
	links := make([]*SysLink[json.RawMessage], 2)
	for i := range spokes {
		links[i] = Connect(w, hub, spokes[i], c, (seed+int64(i))%2 == 0, -1, seed+int64(i))
		if !WaitRemotes(hub, i+1) || !WaitRemotes(spokes[i], 1) {
			rec.Notes = append(rec.Notes, "link did not come up")
			return rec
		}
	}
	toHub := func(i int) sysRemote {
		for _, r := range spokes[i].Remotes() {
			return r
		}
		return sysRemote{}
	}
	ctx, cancel := context.WithTimeout(context.Background(), 15*time.Second)
	defer cancel()
	var mu sync.Mutex
	add := func(cl SysCall) { mu.Lock(); rec.Calls = append(rec.Calls, cl); mu.Unlock() }
	cbStarted := make(chan struct{})
	var once sync.Once
	bdone := make(chan struct{})
	go func() {
		defer close(bdone)
		v, err := toHub(1).KeepWait(ctx, 7700, func(ctx context.Context, x int) (int, error) {
			once.Do(func() { close(cbStarted) })
			<-w.gate(7702)
			return x, nil
		})
		add(SysCall{Tag: 7700, From: "S1", Method: "InFlightOnOtherLink", Ret: canon(v), Err: errText(err), Done: true})
	}()
	if !waitUntil(func() bool { w.mu.Lock(); defer w.mu.Unlock(); return w.kept[7700] != nil }, 3*time.Second) {
		rec.Notes = append(rec.Notes, "the hub never received the callable")
	}
	go func() { toHub(0).RelayCb(ctx, 7701, 7700) }()
	select {
	case <-cbStarted:
	case <-time.After(3 * time.Second):
		rec.Notes = append(rec.Notes, "the relayed invocation never reached the function on link 1's peer")
	}
	// link 0 ends
	links[0].CancelA()
	links[0].CancelB()
	links[0].CloseTransport(errors.New("link 0 failed"))
	time.Sleep(30 * time.Millisecond)
	pctx, pcancel := context.WithTimeout(ctx, 3*time.Second)
	v, err := toHub(1).EchoInt(pctx, 7703, 42)
	pcancel()
	add(SysCall{Tag: 7703, From: "S1", Method: "ProbeOtherLink", Ret: canon(v), Err: errText(err), Done: true})
	for k, ch := range []chan error{links[1].ErrA, links[1].ErrB} {
		select {
		case e := <-ch:
			add(SysCall{Tag: 7704 + k, Method: "OtherLinkStillUp", Ret: "RETURNED", Err: errText(e), Extra: []string{"the hub's side", "the peer's side"}[k], Done: true})
			ch <- e
		default:
			add(SysCall{Tag: 7704 + k, Method: "OtherLinkStillUp", Ret: "up", Extra: []string{"the hub's side", "the peer's side"}[k], Done: true})
		}
	}
	close(w.gate(7702))
	close(w.gate(7700))
	select {
	case <-bdone:
	case <-time.After(4 * time.Second):
		add(SysCall{Tag: 7700, From: "S1", Method: "InFlightOnOtherLink", Err: "DID-NOT-RETURN", Done: true})
	}
	for _, l := range links {
		l.CancelA()
		l.CancelB()
		l.CloseTransport(io.EOF)
	}
	return rec
}

// FamEndWhileClosureRuns — C16 "without waiting for handlers": one real registry against a scripted raw peer. A
// call passes a function; the peer invokes it and the function stays inside application code; while it runs, a
// failure is detected on the caller's path of a call that passes a function:
//   variant 0: the peer answers that call with a value that cannot be decoded into the result type;
//   variant 1: the request write of a second call that passes a function fails.
// Link returns that error promptly - the running function is released only afterwards.
func FamEndWhileClosureRuns(seed int64, variant int) SysRecord {
	what := []string{"the response of a call that passes a function cannot be decoded", "the request write of a second call that passes a function fails"}[variant]
	rec := SysRecord{Family: "linkend", Config: "json-raw/message while a function passed by a call is running, " + what, Seed: seed}
	w := newWorld()
	node := NewSysNode[json.RawMessage](w, "A")
	c := jsonRawCodec()
	ctx, cancel := context.WithCancel(context.Background())
	defer cancel()
	errc := make(chan error, 1)
	reqIn, resIn := newFailQ(), newFailQ()
	reqOut := make(chan string, 16)
	var nreq int32
	var mu sync.Mutex
	wreq := func(b json.RawMessage) error {
		mu.Lock()
		nreq++
		k := nreq
		mu.Unlock()
		if variant == 1 && k == 2 {
			return errors.New("connection reset by peer")
		}
		reqOut <- string(b)
		return nil
	}
	sink := func(b json.RawMessage) error { return nil }
	go func() { errc <- node.Reg.LinkMessage(ctx, wreq, sink, reqIn.Get, resIn.Get, c.Marshal, c.Unmarshal, nil) }()
	defer func() {
		cancel()
		other := errors.New("closed")
		select {
		case reqIn.fail <- other:
		default:
		}
		select {
		case resIn.fail <- other:
		default:
		}
	}()
	if !WaitRemotes(node, 1) {
		rec.Notes = append(rec.Notes, "link did not come up")
		return rec
	}
	var rem sysRemote
	for _, x := range node.Remotes() {
		rem = x
	}
	running, release := make(chan struct{}), make(chan struct{})
	var once sync.Once
	defer once.Do(func() { close(release) })
	cdone := make(chan SysCall, 1)
	go func() {
		v, err := rem.Delayed(context.Background(), 990, func(ctx context.Context, x int) (int, error) {
			close(running)
			<-release
			return x, nil
		})
		cdone <- SysCall{Tag: 990, From: "A", Method: "InFlightAtEnd", Ret: canon(v), Err: errText(err), Done: true}
	}()
	var q struct {
		Call string            `json:"call"`
		Args []json.RawMessage `json:"args"`
	}
	select {
	case f := <-reqOut:
		json.Unmarshal([]byte(f), &q)
	case <-time.After(3 * time.Second):
		rec.Notes = append(rec.Notes, "the request of the call that passes a function was not written")
		return rec
	}
	if len(q.Args) < 2 {
		rec.Notes = append(rec.Notes, "unexpected request frame")
		return rec
	}
	// the peer invokes the function; it stays inside application code
	reqIn.ch <- json.RawMessage(fmt.Sprintf(`{"call":"p1","function":"CallClosure","args":[%s,[7]]}`, string(q.Args[1])))
	select {
	case <-running:
	case <-time.After(3 * time.Second):
		rec.Notes = append(rec.Notes, "the function passed by the call was not invoked")
		return rec
	}
	want := ""
	if variant == 0 {
		resIn.ch <- json.RawMessage(fmt.Sprintf(`{"call":%q,"value":"not a number","err":""}`, q.Call))
		want = "cannot unmarshal"
	} else {
		go func() {
			rem.Delayed(context.Background(), 991, func(ctx context.Context, x int) (int, error) { return x, nil })
		}()
		want = "connection reset by peer"
	}
	select {
	case err := <-errc:
		rec.Calls = append(rec.Calls, SysCall{Tag: 992, Method: "LinkReturn", Ret: "returned", Err: errText(err), Oracle: want, Extra: rec.Config, Done: true})
	case <-time.After(3 * time.Second):
		rec.Calls = append(rec.Calls, SysCall{Tag: 992, Method: "LinkReturn", Ret: "DID-NOT-RETURN within 3 s (it waits for the running function)", Oracle: want, Extra: rec.Config})
	}
	once.Do(func() { close(release) })
	select {
	case cl := <-cdone:
		cl.Extra = rec.Config
		rec.Calls = append(rec.Calls, cl)
	case <-time.After(3 * time.Second):
		rec.Calls = append(rec.Calls, SysCall{Tag: 990, From: "A", Method: "InFlightAtEnd", Extra: rec.Config + ": DID-NOT-RETURN within 3 s"})
	}
	return rec
}

// FamDeadlineEnd — C15: the link context ends by its DEADLINE (context.DeadlineExceeded is a timeout error in
// the sense of net.Error) and the transport's reads return the context's error from then on, every time they
// are called (a transport wrapper that honours the context). After Link has returned nothing may remain: the
// remote is deregistered, the disconnect notification is delivered, no goroutine of panrpc is still running.
func FamDeadlineEnd(seed int64, stream bool) SysRecord {
	api := map[bool]string{false: "message", true: "stream"}[stream]
	rec := SysRecord{Family: "earlycancel", Config: "json-raw/" + api + " link context ends by its deadline, reads return the context's error", Seed: seed}
	w := newWorld()
	node := NewSysNode[json.RawMessage](w, "A")
	c := jsonRawCodec()
	time.Sleep(10 * time.Millisecond)
	before := goroutineStacks()
	ctx, cancel := context.WithTimeout(context.Background(), 40*time.Millisecond)
	defer cancel()
	errc := make(chan error, 1)
	read := func() (json.RawMessage, error) { <-ctx.Done(); return nil, ctx.Err() }
	sink := func(b json.RawMessage) error { return nil }
	if !stream {
		go func() { errc <- node.Reg.LinkMessage(ctx, sink, sink, read, read, c.Marshal, c.Unmarshal, nil) }()
	} else {
		dec := func(v *rpc.Message[json.RawMessage]) error { <-ctx.Done(); return ctx.Err() }
		enc := func(v rpc.Message[json.RawMessage]) error { return nil }
		go func() { errc <- node.Reg.LinkStream(ctx, enc, dec, c.Marshal, c.Unmarshal, nil) }()
	}
	select {
	case err := <-errc:
		if !errors.Is(err, context.DeadlineExceeded) {
			rec.Notes = append(rec.Notes, "DEADLINE-END Link returned "+errText(err)+", expected the context's error (context deadline exceeded)")
		}
	case <-time.After(3 * time.Second):
		rec.Notes = append(rec.Notes, "DEADLINE-END Link did not return within 3 s after its context's deadline")
	}
	cancel()
	if !waitUntil(func() bool { return len(node.Remotes()) == 0 }, 2*time.Second) {
		rec.Notes = append(rec.Notes, "DEADLINE-END 2 s after the link ended by its deadline and its reads returned the context's error, the remote is still enumerated (no disconnect notification): the read loops never stopped")
	}
	time.Sleep(100 * time.Millisecond)
	var left []string
	for id, g := range goroutineStacks() {
		if _, ok := before[id]; !ok && strings.Contains(g, "panrpc/go/pkg/rpc.") {
			left = append(left, strings.SplitN(g, "\n", 2)[0])
		}
	}
	if len(left) > 0 {
		sort.Strings(left)
		rec.Notes = append(rec.Notes, fmt.Sprintf("DEADLINE-END goroutines started by panrpc still run after the link ended by its deadline: %v", left))
	}
	rec.Events = w.Events()
	return rec
}

// FamLinkHooksOnly — C14 "this applies to the registry-wide hooks and to the hooks supplied for the individual
// link": a registry created WITHOUT registry-wide hooks (nil), or with a connect hook only, whose links get hooks
// of their own: each link's own connect and disconnect notification is delivered exactly once.
func FamLinkHooksOnly(seed int64, variant int) SysRecord {
	what := []string{"no registry-wide hooks (nil)", "registry-wide connect hook only"}[variant]
	rec := SysRecord{Family: "earlycancel", Config: "json-raw/message " + what + ", hooks supplied for the link", Seed: seed}
	w := newWorld()
	local := &sysLocal{w: w, node: "L"}
	var rh *rpc.RegistryHooks
	if variant == 1 {
		rh = &rpc.RegistryHooks{OnClientConnect: func(id string) {}}
	}
	reg := rpc.NewRegistry[sysRemote, json.RawMessage](local, rh)
	c := jsonRawCodec()
	var mu sync.Mutex
	var conn, disc []string
	lh := &rpc.LinkHooks{
		OnClientConnect:    func(id string) { mu.Lock(); conn = append(conn, id); mu.Unlock() },
		OnClientDisconnect: func(id string) { mu.Lock(); disc = append(disc, id); mu.Unlock() },
	}
	ctx, cancel := context.WithCancel(context.Background())
	defer cancel()
	reqIn, resIn := newFailQ(), newFailQ()
	sink := func(b json.RawMessage) error { return nil }
	errc := make(chan error, 1)
	go func() { errc <- reg.LinkMessage(ctx, sink, sink, reqIn.Get, resIn.Get, c.Marshal, c.Unmarshal, lh) }()
	if !waitUntil(func() bool { mu.Lock(); defer mu.Unlock(); return len(conn) == 1 }, 2*time.Second) {
		rec.Notes = append(rec.Notes, "LINK-HOOKS the link's own connect notification was not delivered")
	}
	reqIn.fail <- io.EOF
	resIn.fail <- io.EOF
	select {
	case <-errc:
	case <-time.After(3 * time.Second):
		rec.Notes = append(rec.Notes, "LINK-HOOKS Link did not return after both reads failed")
	}
	enumerated := func() int {
		n := 0
		reg.ForRemotes(func(string, sysRemote) error { n++; return nil })
		return n
	}
	waitUntil(func() bool { return enumerated() == 0 }, 2*time.Second)
	ok := waitUntil(func() bool { mu.Lock(); defer mu.Unlock(); return len(disc) == 1 }, 2*time.Second)
	mu.Lock()
	if !ok || len(conn) != 1 || len(disc) != 1 || conn[0] != disc[0] {
		rec.Notes = append(rec.Notes, fmt.Sprintf("LINK-HOOKS the link has ended, its reads have returned and it is no longer enumerated (%d remotes), but the hooks supplied for the link saw connect %v / disconnect %v: exactly one of each with the same identifier is required", enumerated(), conn, disc))
	}
	mu.Unlock()
	return rec
}

// FamNilCtx — C05: a call made with a nil context (an application mistake panrpc detects at run time). The call
// returns an error, the link ends with that error, and nothing is left deadlocked: Link returns, later calls fail
// at once, the remote is deregistered.
func FamNilCtx(seed int64, stream bool) SysRecord {
	api := map[bool]string{false: "message", true: "stream"}[stream]
	rec := SysRecord{Family: "linkend", Config: "json-raw/" + api + " a call is made with a nil context", Seed: seed}
	w := newWorld()
	node := NewSysNode[json.RawMessage](w, "A")
	c := jsonRawCodec()
	ctx, cancel := context.WithCancel(context.Background())
	defer cancel()
	errc := make(chan error, 1)
	reqIn, resIn := newFailQ(), newFailQ()
	sink := func(b json.RawMessage) error { return nil }
	if !stream {
		go func() { errc <- node.Reg.LinkMessage(ctx, sink, sink, reqIn.Get, resIn.Get, c.Marshal, c.Unmarshal, nil) }()
	} else {
		dec := func(v *rpc.Message[json.RawMessage]) error { <-ctx.Done(); return ctx.Err() }
		enc := func(v rpc.Message[json.RawMessage]) error { return nil }
		go func() { errc <- node.Reg.LinkStream(ctx, enc, dec, c.Marshal, c.Unmarshal, nil) }()
	}
	defer func() {
		cancel()
		other := errors.New("closed")
		select {
		case reqIn.fail <- other:
		default:
		}
		select {
		case resIn.fail <- other:
		default:
		}
	}()
	if !WaitRemotes(node, 1) {
		rec.Notes = append(rec.Notes, "link did not come up")
		return rec
	}
	var rem sysRemote
	for _, x := range node.Remotes() {
		rem = x
	}
	done := make(chan SysCall, 1)
	go func() {
		var nilCtx context.Context
		v, err := rem.EchoInt(nilCtx, 995, 1)
		done <- SysCall{Tag: 995, From: "A", Method: "InFlightAtEnd", Ret: canon(v), Err: errText(err), Extra: rec.Config, Done: true}
	}()
	select {
	case cl := <-done:
		rec.Calls = append(rec.Calls, cl)
	case <-time.After(3 * time.Second):
		rec.Calls = append(rec.Calls, SysCall{Tag: 995, From: "A", Method: "InFlightAtEnd", Extra: rec.Config + ": DID-NOT-RETURN within 3 s"})
	}
	select {
	case err := <-errc:
		rec.Calls = append(rec.Calls, SysCall{Tag: 996, Method: "LinkReturn", Ret: "returned", Err: errText(err), Extra: rec.Config, Done: true})
	case <-time.After(3 * time.Second):
		rec.Calls = append(rec.Calls, SysCall{Tag: 996, Method: "LinkReturn", Ret: "DID-NOT-RETURN within 3 s (goroutines deadlocked inside panrpc)", Extra: rec.Config})
	}
	lctx, lcancel := context.WithTimeout(context.Background(), 2*time.Second)
	t0 := time.Now()
	ldone := make(chan error, 1)
	go func() { _, err := rem.EchoInt(lctx, 997, 2); ldone <- err }()
	select {
	case err := <-ldone:
		rec.Calls = append(rec.Calls, SysCall{Tag: 997, From: "A", Method: "LaterCall", Err: errText(err), Extra: fmt.Sprintf("%s: took %v", rec.Config, time.Since(t0) > time.Second), Done: true})
	case <-time.After(4 * time.Second):
		rec.Calls = append(rec.Calls, SysCall{Tag: 997, From: "A", Method: "LaterCall", Err: "", Extra: rec.Config + ": took true (never returned)", Done: true})
		rec.Hang = true
	}
	lcancel()
	return rec
}

// FamRelayBack — C13: a handler serving link 1 relays the call over link 0 and hands whatever that call returns
// back to its own caller. Link 0 fails while the relayed call is in flight: the relayed call fails with the
// library's own "closed" error, which the handler returns UNCHANGED to the peer of link 1 - an ordinary
// application-level error there. Link 1 itself, its Link call, later calls on it are unaffected.
func FamRelayBack[T any](c Codec[T], seed int64) SysRecord {
	rec := SysRecord{Family: "relay", Config: c.Name + "/a handler hands back the error of a call it relayed over a link that failed", Seed: seed}
	w := newWorld()
	hub := NewSysNode[T](w, "H")
	spokes := []*SysNode[T]{NewSysNode[T](w, "S0"), NewSysNode[T](w, "S1")}
	var links []*SysLink[T]
	var hubRem [2]sysRemote
	for i := 0; i < 2; i++ {
		before := hub.Remotes()
		links = append(links, Connect(w, hub, spokes[i], c, (seed+int64(i))%2 == 0, -1, seed+int64(i)))
		if !WaitRemotes(hub, i+1) || !WaitRemotes(spokes[i], 1) {
			rec.Notes = append(rec.Notes, "link did not come up")
			return rec
		}
		for id, r := range hub.Remotes() {
			if _, old := before[id]; !old {
				hubRem[i] = r
			}
		}
	}
	var s1rem sysRemote
	for _, r := range spokes[1].Remotes() {
		s1rem = r
	}
	w.mu.Lock()
	w.relay = func() (sysRemote, bool) { return hubRem[0], true }
	w.mu.Unlock()
	ctx, cancel := context.WithTimeout(context.Background(), 20*time.Second)
	defer cancel()
	relayDone := make(chan SysCall, 1)
	go func() {
		v, err := s1rem.Relay(ctx, 820)
		relayDone <- SysCall{Tag: 820, From: "S1", Method: "RelayedOverFailedLink", Ret: canon(v), Err: errText(err), Done: true}
	}()
	if !waitUntil(func() bool { return hasInv(w, "Gate", 823) }, 4*time.Second) {
		rec.Notes = append(rec.Notes, "the relayed call did not reach its handler")
	}
	// link 0 fails (transport), nothing happens on link 1
	links[0].CloseTransport(errors.New("transport closed"))
	select {
	case cl := <-relayDone:
		rec.Calls = append(rec.Calls, cl)
	case <-time.After(4 * time.Second):
		rec.Calls = append(rec.Calls, SysCall{Tag: 820, From: "S1", Method: "RelayedOverFailedLink", Err: "DID-NOT-RETURN", Done: true})
	}
	// ... and once more now that link 0 has ended: the handler's call fails at once, which is again only an
	// application-level error on link 1
	{
		rctx, rcancel := context.WithTimeout(ctx, 3*time.Second)
		v, err := s1rem.Relay(rctx, 830)
		rcancel()
		rec.Calls = append(rec.Calls, SysCall{Tag: 830, From: "S1", Method: "RelayedOverFailedLink", Ret: canon(v), Err: errText(err), Done: true})
	}
	time.Sleep(50 * time.Millisecond)
	for k, ch := range []chan error{links[1].ErrA, links[1].ErrB} {
		select {
		case e := <-ch:
			rec.Calls = append(rec.Calls, SysCall{Tag: 824 + k, Method: "OtherLinkStillUp", Ret: "RETURNED", Err: errText(e), Extra: []string{"the hub's side", "the spoke's side"}[k], Done: true})
			ch <- e
		default:
			rec.Calls = append(rec.Calls, SysCall{Tag: 824 + k, Method: "OtherLinkStillUp", Ret: "up", Extra: []string{"the hub's side", "the spoke's side"}[k], Done: true})
		}
	}
	for k, rem := range []sysRemote{s1rem, hubRem[1]} {
		pctx, pcancel := context.WithTimeout(ctx, 3*time.Second)
		v, err := rem.EchoInt(pctx, 826+k, 42)
		pcancel()
		rec.Calls = append(rec.Calls, SysCall{Tag: 826 + k, From: []string{"S1", "H"}[k], Method: "ProbeOtherLink", Ret: canon(v), Err: errText(err), Done: true})
	}
	close(w.gate(823))
	for i, l := range links {
		l.CancelA()
		l.CancelB()
		l.CloseTransport(errors.New("transport closed"))
		for _, e := range []chan error{l.ErrA, l.ErrB} {
			select {
			case <-e:
			case <-time.After(5 * time.Second):
				rec.Notes = append(rec.Notes, fmt.Sprintf("link %d did not return", i))
			}
		}
	}
	rec.Events = w.Events()
	return rec
}

// FamMassEnd — C03: several hundred calls are in flight (their handlers stalled) when the link's context is
// cancelled: every one of them returns a non-nil error promptly, and so does Link - however many failures are
// reported at once.
func FamMassEnd(seed int64, stream bool) SysRecord {
	api := map[bool]string{false: "message", true: "stream"}[stream]
	const many = 300
	rec := SysRecord{Family: "linkend", Config: fmt.Sprintf("json-raw/%s %d calls in flight when the link context is cancelled", api, many), Seed: seed}
	p, err := newPair(jsonRawCodec(), stream, -1, seed)
	if err != nil {
		rec.Notes = append(rec.Notes, err.Error())
		return rec
	}
	results := make(chan error, many)
	for k := 0; k < many; k++ {
		go func() { _, err := p.ra.Gate(context.Background(), 60000); results <- err }()
	}
	if !waitUntil(func() bool {
		n := 0
		for _, e := range p.w.Events() {
			if e.Kind == "inv" && e.Method == "Gate" && e.Tag == 60000 {
				n++
			}
		}
		return n == many
	}, 8*time.Second) {
		rec.Notes = append(rec.Notes, "not all calls reached their handlers")
	}
	p.l.CancelA()
	returned, nilerr := 0, 0
	deadline := time.After(6 * time.Second)
loop:
	for returned < many {
		select {
		case err := <-results:
			returned++
			if err == nil {
				nilerr++
			}
		case <-deadline:
			break loop
		}
	}
	if returned < many {
		rec.Calls = append(rec.Calls, SysCall{Tag: 60000, From: "A", Method: "InFlightAtEnd", Extra: fmt.Sprintf("%s: %d of %d in-flight calls DID-NOT-RETURN within 6 s after the link ended", rec.Config, many-returned, many)})
	} else {
		e := "closed"
		if nilerr > 0 {
			e = ""
		}
		rec.Calls = append(rec.Calls, SysCall{Tag: 60000, From: "A", Method: "InFlightAtEnd", Err: e, Extra: rec.Config, Done: true})
	}
	select {
	case err := <-p.l.ErrA:
		rec.Calls = append(rec.Calls, SysCall{Tag: 60001, Method: "LinkReturn", Ret: "returned", Err: errText(err), Extra: rec.Config, Done: true})
		p.l.ErrA <- err
	case <-time.After(3 * time.Second):
		rec.Calls = append(rec.Calls, SysCall{Tag: 60001, Method: "LinkReturn", Ret: "DID-NOT-RETURN within 3 s", Extra: rec.Config})
	}
	close(p.w.gate(60000))
	p.close()
	return rec
}

// FamLinkEndMore — C16: (0) the link context is cancelled while the connect notification of that link is still
// running (the hook blocks): Link returns the context's error promptly, it does not wait for the hook;
// (1), (2) the write of the response of a handler that returned (value, error) resp. an error only fails: that
// transport error is the first failure of the link, Link returns it although both reads stay blocked.
func FamLinkEndMore(seed int64, variant int) SysRecord {
	what := []string{"link context cancelled while the link's connect notification is still running",
		"response write fails with plain (handler returned a value and an error)",
		"response write fails with plain (handler returned an error only)",
		"the response of the call in flight is malformed after its call id (its err member is a number)",
		"hooks supplied for the link have a connect function only; the peer sends garbage"}[variant]
	rec := SysRecord{Family: "linkend", Config: "json-raw/message " + what, Seed: seed}
	w := newWorld()
	c := jsonRawCodec()
	ctx, cancel := context.WithCancel(context.Background())
	defer cancel()
	errc := make(chan error, 1)
	reqIn, resIn := newFailQ(), newFailQ()
	defer func() {
		cancel()
		other := errors.New("closed")
		select {
		case reqIn.fail <- other:
		default:
		}
		select {
		case resIn.fail <- other:
		default:
		}
	}()
	sink := func(b json.RawMessage) error { return nil }
	if variant == 0 {
		local := &sysLocal{w: w, node: "L"}
		inHook, release := make(chan struct{}), make(chan struct{})
		var once sync.Once
		defer once.Do(func() { close(release) })
		reg := rpc.NewRegistry[sysRemote, json.RawMessage](local, &rpc.RegistryHooks{OnClientConnect: func(id string) { close(inHook); <-release }})
		go func() { errc <- reg.LinkMessage(ctx, sink, sink, reqIn.Get, resIn.Get, c.Marshal, c.Unmarshal, nil) }()
		select {
		case <-inHook:
		case <-time.After(3 * time.Second):
			rec.Notes = append(rec.Notes, "the connect notification was not delivered")
			return rec
		}
		cancel()
		select {
		case err := <-errc:
			rec.Calls = append(rec.Calls, SysCall{Tag: 998, Method: "LinkReturn", Ret: "returned", Err: errText(err), Oracle: "context canceled", Extra: rec.Config, Done: true})
		case <-time.After(3 * time.Second):
			rec.Calls = append(rec.Calls, SysCall{Tag: 998, Method: "LinkReturn", Ret: "DID-NOT-RETURN within 3 s (it waits for the connect notification to finish)", Oracle: "context canceled", Extra: rec.Config})
		}
		once.Do(func() { close(release) })
		return rec
	}
	node := NewSysNode[json.RawMessage](w, "A")
	bad := func(b json.RawMessage) error { return errors.New("connection reset by peer") }
	if variant == 3 || variant == 4 {
		reqOut := make(chan string, 4)
		var lh *rpc.LinkHooks
		if variant == 4 {
			lh = &rpc.LinkHooks{OnClientConnect: func(id string) {}}
		}
		go func() {
			errc <- node.Reg.LinkMessage(ctx, func(b json.RawMessage) error { reqOut <- string(b); return nil }, sink, reqIn.Get, resIn.Get, c.Marshal, c.Unmarshal, lh)
		}()
		if !WaitRemotes(node, 1) {
			rec.Notes = append(rec.Notes, "link did not come up")
			return rec
		}
		var rem sysRemote
		for _, x := range node.Remotes() {
			rem = x
		}
		if variant == 4 {
			reqIn.ch <- json.RawMessage(`{"call":17,"function":[],"args":"garbage"}`)
			select {
			case err := <-errc:
				rec.Calls = append(rec.Calls, SysCall{Tag: 998, Method: "LinkReturn", Ret: "returned", Err: errText(err), Extra: rec.Config, Done: true})
			case <-time.After(3 * time.Second):
				rec.Calls = append(rec.Calls, SysCall{Tag: 998, Method: "LinkReturn", Ret: "DID-NOT-RETURN within 3 s", Extra: rec.Config})
			}
			cancel()
			other := errors.New("closed")
			reqIn.fail <- other
			resIn.fail <- other
			waitUntil(func() bool { return len(node.Remotes()) == 0 }, 2*time.Second) // the teardown (and its notifications) has run
			time.Sleep(20 * time.Millisecond)
			return rec
		}
		done := make(chan SysCall, 1)
		go func() {
			v, err := rem.EchoInt(context.Background(), 999, 1)
			done <- SysCall{Tag: 999, From: "A", Method: "InFlightAtEnd", Ret: canon(v), Err: errText(err), Extra: rec.Config, Done: true}
		}()
		var q struct {
			Call string `json:"call"`
		}
		select {
		case f := <-reqOut:
			json.Unmarshal([]byte(f), &q)
		case <-time.After(3 * time.Second):
			rec.Notes = append(rec.Notes, "the request was not written")
			return rec
		}
		resIn.ch <- json.RawMessage(fmt.Sprintf(`{"call":%q,"value":7,"err":5}`, q.Call))
		select {
		case cl := <-done:
			if cl.Err == "" {
				cl.Extra += " (the call was completed with the value " + cl.Ret + " of a response that cannot be decoded)"
			}
			rec.Calls = append(rec.Calls, cl)
		case <-time.After(3 * time.Second):
			rec.Calls = append(rec.Calls, SysCall{Tag: 999, From: "A", Method: "InFlightAtEnd", Extra: rec.Config + ": DID-NOT-RETURN within 3 s"})
		}
		select {
		case err := <-errc:
			rec.Calls = append(rec.Calls, SysCall{Tag: 998, Method: "LinkReturn", Ret: "returned", Err: errText(err), Extra: rec.Config, Done: true})
		case <-time.After(3 * time.Second):
			rec.Calls = append(rec.Calls, SysCall{Tag: 998, Method: "LinkReturn", Ret: "DID-NOT-RETURN within 3 s", Extra: rec.Config})
		}
		return rec
	}
	go func() { errc <- node.Reg.LinkMessage(ctx, sink, bad, reqIn.Get, resIn.Get, c.Marshal, c.Unmarshal, nil) }()
	if !WaitRemotes(node, 1) {
		rec.Notes = append(rec.Notes, "link did not come up")
		return rec
	}
	if variant == 1 {
		reqIn.ch <- json.RawMessage(`{"call":"p1","function":"FailVal","args":[970,5,"application error"]}`)
	} else {
		reqIn.ch <- json.RawMessage(`{"call":"p1","function":"Fail","args":[970,"application error"]}`)
	}
	select {
	case err := <-errc:
		rec.Calls = append(rec.Calls, SysCall{Tag: 998, Method: "LinkReturn", Ret: "returned", Err: errText(err), Extra: rec.Config, Done: true})
	case <-time.After(3 * time.Second):
		rec.Calls = append(rec.Calls, SysCall{Tag: 998, Method: "LinkReturn", Ret: "DID-NOT-RETURN within 3 s", Extra: rec.Config})
	}
	return rec
}
