package harness

// sysfam.go — workloads on two or more linked registries (black-box families).

import (
	"github.com/google/uuid"
	"github.com/pojntfx/panrpc/go/pkg/rpc"
	"context"
	"errors"
	"fmt"
	"io"
	"math/rand"
	"sort"
	"strings"
	"sync"
	"time"
)

type SysCall struct {
	Tag    int    `json:"tag"`
	From   string `json:"from"`
	Method string `json:"m"`
	Arg    string `json:"arg"`    // canonical form of the argument(s) as passed
	Oracle string `json:"oracle"` // canonical form after a direct marshal->unmarshal into the declared type
	Ret    string `json:"ret"`    // canonical form of the value returned to the caller
	Err    string `json:"err"`
	Done   bool   `json:"done"`
	Extra  string `json:"extra,omitempty"`
}

type SysRecord struct {
	Family string     `json:"family"`
	Config string     `json:"config"`
	Seed   int64      `json:"seed"`
	Calls  []SysCall  `json:"calls"`
	Events []SysEvent `json:"events"`
	LinkA  string     `json:"linkA,omitempty"`
	LinkB  string     `json:"linkB,omitempty"`
	Notes  []string   `json:"notes,omitempty"`
	Hang   bool       `json:"hang,omitempty"`
}

func roundTrip[T any, V any](c Codec[T], v V) string {
	b, err := c.Marshal(v)
	if err != nil {
		return "!marshal:" + err.Error()
	}
	var out V
	if err := c.Unmarshal(b, &out); err != nil {
		return "!unmarshal:" + err.Error()
	}
	return canon(out)
}

// roundTripVal: the value itself after one encode/decode
func roundTripVal[T any, V any](c Codec[T], v V) V {
	b, err := c.Marshal(v)
	var out V
	if err != nil {
		return out
	}
	c.Unmarshal(b, &out)
	return out
}

type pair[T any] struct {
	w    *sysWorld
	a, b *SysNode[T]
	l    *SysLink[T]
	ra   sysRemote // A's stub of B
	rb   sysRemote // B's stub of A
}

func newPair[T any](c Codec[T], stream bool, chunk int, seed int64) (*pair[T], error) {
	w := newWorld()
	a, b := NewSysNode[T](w, "A"), NewSysNode[T](w, "B")
	l := Connect(w, a, b, c, stream, chunk, seed)
	if !WaitRemotes(a, 1) || !WaitRemotes(b, 1) {
		return nil, errors.New("link did not come up")
	}
	p := &pair[T]{w: w, a: a, b: b, l: l}
	for _, r := range a.Remotes() {
		p.ra = r
	}
	for _, r := range b.Remotes() {
		p.rb = r
	}
	return p, nil
}

func (p *pair[T]) close() (string, string) {
	p.l.CancelA()
	p.l.CancelB()
	p.l.CloseTransport(errors.New("transport closed"))
	var ea, eb error
	select {
	case ea = <-p.l.ErrA:
	case <-time.After(5 * time.Second):
		ea = errors.New("LINK-A-DID-NOT-RETURN")
	}
	select {
	case eb = <-p.l.ErrB:
	case <-time.After(5 * time.Second):
		eb = errors.New("LINK-B-DID-NOT-RETURN")
	}
	// the disconnect notifications follow once both reader loops have returned
	if !waitUntil(func() bool { return len(p.a.Remotes()) == 0 && len(p.b.Remotes()) == 0 }, 3*time.Second) {
		ea = errors.New("REMOTE-STILL-ENUMERATED-AFTER-TEARDOWN")
	}
	return errText(ea), errText(eb)
}

func waitAll(wg *sync.WaitGroup, d time.Duration) bool {
	done := make(chan struct{})
	go func() { wg.Wait(); close(done) }()
	select {
	case <-done:
		return true
	case <-time.After(d):
		return false
	}
}

// ---- C01: concurrent calls, frames held and released in a seeded order ----
// midRand: a random source whose 16-byte reads share their first four and last six bytes
type midRand struct {
	mu sync.Mutex
	r  *rand.Rand
}

func (m *midRand) Read(b []byte) (int, error) {
	m.mu.Lock()
	defer m.mu.Unlock()
	for i := range b {
		switch k := i % 16; {
		case k < 4:
			b[i] = 0xab
		case k >= 10:
			b[i] = 0xcd
		default:
			b[i] = byte(m.r.Intn(256))
		}
	}
	return len(b), nil
}

func FamConc[T any](c Codec[T], seed int64) SysRecord {
	r := rand.New(rand.NewSource(seed))
	rec := SysRecord{Family: "conc", Config: c.Name + "/message", Seed: seed}
	if seed%3 == 2 {
		// identifiers that differ only in their middle bytes (a legal random source): calls, links and passed
		// functions are told apart by their whole identifier
		uuid.SetRand(&midRand{r: rand.New(rand.NewSource(seed))})
		defer uuid.SetRand(nil)
		rec.Config += "/ids differing in the middle only"
	}
	p, err := newPair(c, false, 0, seed)
	if err != nil {
		rec.Notes = append(rec.Notes, err.Error())
		return rec
	}
	k := 1 + r.Intn(12)
	calls := make([]SysCall, k)
	for _, q := range []*frameQ[T]{p.l.ABreq, p.l.BAreq, p.l.ABres, p.l.BAres} {
		q.SetHold(true)
	}
	var wg sync.WaitGroup
	for i := 0; i < k; i++ {
		from, rem := "A", p.ra
		if r.Intn(2) == 0 {
			from, rem = "B", p.rb
		}
		tag := 100 + i
		kind := r.Intn(12)
		x := int64(r.Intn(1000))
		s := GenString(r)
		wg.Add(1)
		go func() {
			defer wg.Done()
			c := &calls[i]
			c.Tag, c.From = tag, from
			switch kind {
			case 0:
				c.Method, c.Arg = "EchoInt", canon(x)
				v, err := rem.EchoInt(context.Background(), tag, x)
				c.Ret, c.Err = canon(v), errText(err)
			case 1:
				c.Method, c.Arg = "EchoStr", canon(s)
				v, err := rem.EchoStr(context.Background(), tag, s)
				c.Ret, c.Err = canon(v), errText(err)
			case 2:
				c.Method, c.Arg = "FailVal", canon([]any{int(x), "e" + s})
				v, err := rem.FailVal(context.Background(), tag, int(x), "e"+s)
				c.Ret, c.Err = canon(v), errText(err)
			case 3:
				c.Method, c.Arg = "Sub.Deep.Ping", "null"
				v, err := rem.Sub.Deep.Ping(context.Background(), tag)
				c.Ret, c.Err = canon(v), errText(err)
			case 4: // a function declared after a nested struct, inside the nested struct
				c.Method, c.Arg = "Sub.Ping", "null"
				v, err := rem.Sub.Ping(context.Background(), tag)
				c.Ret, c.Err = canon(v), errText(err)
			case 5: // ... and at the top level
				c.Method, c.Arg = "After", "null"
				v, err := rem.After(context.Background(), tag)
				c.Ret, c.Err = canon(v), errText(err)
			case 8: // a call made with a context that is already cancelled: it fails, the others and the link are unaffected
				cctx, ccancel := context.WithCancel(context.Background())
				ccancel()
				c.Method, c.Arg = "EchoIntCancelled", canon(x)
				v, err := rem.EchoInt(cctx, tag, x)
				c.Ret, c.Err = canon(v), errText(err)
			case 11: // an argument whose type implements context.Context is data like any other
				le := Lease{ID: int(x), Owner: "o" + s}
				c.Method, c.Arg = "EchoLease", canon(le)
				v, err := rem.EchoLease(context.Background(), tag, le)
				c.Ret, c.Err = canon(v), errText(err)
			case 9: // a nil pointer argument reaches the handler as a nil pointer
				c.Method, c.Arg = "EchoPtr", "null"
				v, err := rem.EchoPtr(context.Background(), tag, nil)
				c.Ret, c.Err = canon(v), errText(err)
			case 10:
				pr := &Rec{}
				c.Method, c.Arg = "EchoPtr", canon(pr)
				v, err := rem.EchoPtr(context.Background(), tag, pr)
				c.Ret, c.Err = canon(v), errText(err)
			case 6: // a function whose handler returns nothing at all
				c.Method, c.Arg = "Notify0", "null"
				err := rem.Notify0(context.Background(), tag)
				c.Ret, c.Err = "null", errText(err)
			default: // an error-only function; the message is handed back verbatim (white space around it included)
				msg := []string{" ", "\t", "", "\n"}[tag%4] + "e" + s + []string{"\n", "", "  ", "\t\n"}[(tag/4)%4]
				c.Method, c.Arg = "Fail", canon(msg)
				err := rem.Fail(context.Background(), tag, msg)
				c.Ret, c.Err = "null", errText(err)
			}
			c.Done = true
		}()
	}
	// all requests written and held -> release in a seeded order; same for the responses
	ok := waitUntil(func() bool { return p.l.ABreq.HeldLen()+p.l.BAreq.HeldLen() == k }, 5*time.Second)
	if !ok {
		rec.Notes = append(rec.Notes, fmt.Sprintf("only %d of %d requests were written", p.l.ABreq.HeldLen()+p.l.BAreq.HeldLen(), k))
	}
	p.l.ABreq.Release(r)
	p.l.BAreq.Release(r)
	p.l.ABreq.SetHold(false)
	p.l.BAreq.SetHold(false)
	ok = waitUntil(func() bool { return p.l.ABres.HeldLen()+p.l.BAres.HeldLen() == k }, 5*time.Second)
	if !ok {
		rec.Notes = append(rec.Notes, fmt.Sprintf("only %d of %d responses were written", p.l.ABres.HeldLen()+p.l.BAres.HeldLen(), k))
	}
	p.l.ABres.Release(r)
	p.l.BAres.Release(r)
	p.l.ABres.SetHold(false)
	p.l.BAres.SetHold(false)
	if !waitAll(&wg, 8*time.Second) {
		rec.Hang = true
	}
	// a handler that returns at once and, afterwards, uses the context it was given for a call back to the peer
	// (a subscription that notifies later): that call gets its own handler's result like any other
	{
		sctx, scancel := context.WithTimeout(context.Background(), 4*time.Second)
		_, err := p.ra.SpawnEcho(sctx, 190)
		scancel()
		if err != nil {
			rec.Notes = append(rec.Notes, "SpawnEcho failed: "+err.Error())
		} else {
			var got *SysEvent
			waitUntil(func() bool {
				for _, e := range p.w.Events() {
					if e.Kind == "ret" && e.Method == "SpawnedEcho" {
						e := e
						got = &e
						return true
					}
				}
				return false
			}, 4*time.Second)
			if got == nil {
				calls = append(calls, SysCall{Tag: 5190, From: "B", Method: "CallWithHandlerContextAfterReturn", Err: "DID-NOT-RETURN", Done: true})
			} else {
				calls = append(calls, SysCall{Tag: 5190, From: "B", Method: "CallWithHandlerContextAfterReturn", Ret: got.Data, Err: got.Err, Done: true})
			}
		}
	}
	// now and then: a long history of sequential calls on one link (counters, id spaces, tables that only grow)
	if seed%6 == 1 {
		const long = 6000
		for k := 0; k < long; k++ {
			v, err := p.ra.EchoInt(context.Background(), 70000, int64(k))
			if err != nil || v != int64(k) {
				rec.Notes = append(rec.Notes, fmt.Sprintf("sequential call number %d on this link returned (%d, %v), expected (%d, nil)", k+1, v, err, k))
				break
			}
		}
	}
	// now and then: more calls in flight at once than any fixed internal bound one might think of
	if seed%6 == 0 {
		const many = 1100
		var wg2 sync.WaitGroup
		bad := make(chan string, many)
		for k := 0; k < many; k++ {
			wg2.Add(1)
			go func() {
				defer wg2.Done()
				v, err := p.ra.Gate(context.Background(), 50000)
				if err != nil || v != 50000 {
					bad <- fmt.Sprintf("(%d, %v)", v, err)
				}
			}()
		}
		entered := func() int {
			n := 0
			for _, e := range p.w.Events() {
				if e.Kind == "inv" && e.Method == "Gate" && e.Tag == 50000 {
					n++
				}
			}
			return n
		}
		if !waitUntil(func() bool { return entered() == many }, 10*time.Second) {
			rec.Notes = append(rec.Notes, fmt.Sprintf("only %d of %d concurrent calls ever reached their handler", entered(), many))
		}
		close(p.w.gate(50000))
		if !waitAll(&wg2, 10*time.Second) {
			rec.Hang = true
		}
		select {
		case b := <-bad:
			rec.Notes = append(rec.Notes, "one of "+fmt.Sprint(many)+" concurrent calls returned "+b)
		default:
		}
	}
	rec.LinkA, rec.LinkB = p.close()
	rec.Calls = calls
	evs := p.w.Events()
	if len(evs) > 4000 { // the burst's invocations are summarised above
		var keep []SysEvent
		for _, e := range evs {
			if e.Tag != 50000 {
				keep = append(keep, e)
			}
		}
		evs = keep
	}
	rec.Events = evs
	return rec
}

// ---- C09: values ----
func FamValues[T any](c Codec[T], stream bool, chunk int, seed int64, n int) SysRecord {
	r := rand.New(rand.NewSource(seed))
	rec := SysRecord{Family: "values", Config: cfgName(c.Name, stream, chunk), Seed: seed}
	p, err := newPair(c, stream, chunk, seed)
	if err != nil {
		rec.Notes = append(rec.Notes, err.Error())
		return rec
	}
	ctx, cancel := context.WithTimeout(context.Background(), 20*time.Second)
	defer cancel()
	for i := 0; i < n; i++ {
		from, rem := "A", p.ra
		if r.Intn(2) == 0 {
			from, rem = "B", p.rb
		}
		tag := 200 + i
		cl := SysCall{Tag: tag, From: from}
		switch r.Intn(20) {
		case 0:
			x := []int64{0, 1, -1, 1 << 40, -(1 << 40), 9007199254740991, int64(r.Intn(100000))}[r.Intn(7)]
			cl.Method, cl.Arg, cl.Oracle = "EchoInt", canon(x), roundTrip(c, x)
			v, err := rem.EchoInt(ctx, tag, x)
			cl.Ret, cl.Err = canon(v), errText(err)
		case 1:
			s := GenString(r)
			cl.Method, cl.Arg, cl.Oracle = "EchoStr", canon(s), roundTrip(c, s)
			v, err := rem.EchoStr(ctx, tag, s)
			cl.Ret, cl.Err = canon(v), errText(err)
		case 2:
			b := [][]byte{nil, {}, {0}, []byte("bytes\x00\xff"), []byte(GenString(r))}[r.Intn(5)]
			cl.Method, cl.Arg, cl.Oracle = "EchoBytes", canon(b), roundTrip(c, b)
			v, err := rem.EchoBytes(ctx, tag, b)
			cl.Ret, cl.Err = canon(v), errText(err)
		case 3:
			xs := [][]int{nil, {}, {0}, {1, -2, 3}, {1 << 31, -(1 << 31)}}[r.Intn(5)]
			cl.Method, cl.Arg, cl.Oracle = "EchoSlice", canon(xs), roundTrip(c, xs)
			v, err := rem.EchoSlice(ctx, tag, xs)
			cl.Ret, cl.Err = canon(v), errText(err)
		case 4:
			m := []map[string]int{nil, {}, {"a": 1}, {"": 0, "k\"q": -5, GenString(r): 7}}[r.Intn(4)]
			cl.Method, cl.Arg, cl.Oracle = "EchoMap", canon(m), roundTrip(c, m)
			v, err := rem.EchoMap(ctx, tag, m)
			cl.Ret, cl.Err = canon(v), errText(err)
		case 5:
			s := GenRec(r, 2)
			cl.Method, cl.Arg, cl.Oracle = "EchoStruct", canon(s), roundTrip(c, s)
			v, err := rem.EchoStruct(ctx, tag, s)
			cl.Ret, cl.Err = canon(v), errText(err)
		case 6:
			var ptr *Rec
			if r.Intn(3) != 0 {
				s := GenRec(r, 1)
				ptr = &s
			}
			cl.Method, cl.Arg, cl.Oracle = "EchoPtr", canon(ptr), roundTrip(c, ptr)
			v, err := rem.EchoPtr(ctx, tag, ptr)
			cl.Ret, cl.Err = canon(v), errText(err)
		case 7:
			a, b2, cc, d := r.Intn(100), GenString(r), []byte(GenString(r)), GenRec(r, 1)
			var e *Rec
			if r.Intn(2) == 0 {
				x := GenRec(r, 0)
				e = &x
			}
			f := [][]float64{nil, {}, {0.5, -1.25, 1e10}}[r.Intn(3)]
			g := r.Intn(2) == 0
			all := []any{a, b2, cc, d, e, f, g}
			cl.Method, cl.Arg = "Multi", canon(all)
			// oracle: each argument round-trips separately into its declared type
			cl.Oracle = "[" + strings.Join([]string{roundTrip(c, a), roundTrip(c, b2), roundTrip(c, cc), roundTrip(c, d), roundTrip(c, e), roundTrip(c, f), roundTrip(c, g)}, ",") + "]"
			v, err := rem.Multi(ctx, tag, a, b2, cc, d, e, f, g)
			cl.Ret, cl.Err = v, errText(err)
		case 8: // a value that accompanies an error
			x := 1 + r.Intn(100000)
			msg := "partial " + GenString(r) + "."
			cl.Method, cl.Arg, cl.Oracle, cl.Extra = "FailVal", canon([]any{x, msg}), roundTrip(c, x), msg
			v, err := rem.FailVal(ctx, tag, x, msg)
			cl.Ret, cl.Err = canon(v), errText(err)
		case 9:
			s := GenRec(r, 2)
			msg := "partially processed."
			cl.Method, cl.Arg, cl.Oracle, cl.Extra = "PartialStruct", canon(s), roundTrip(c, s), msg
			v, err := rem.PartialStruct(ctx, tag, s, msg)
			cl.Ret, cl.Err = canon(v), errText(err)
		case 11: // a result type that itself has an Error method is still a value
			st := Status{Code: 1 + r.Intn(9), Msg: "status " + GenString(r)}
			cl.Method, cl.Arg, cl.Oracle = "EchoStatus", canon(st), roundTrip(c, st)
			v, err := rem.EchoStatus(ctx, tag, st)
			cl.Ret, cl.Err = canon(v), errText(err)
		case 12:
			var sp *Status
			if r.Intn(3) != 0 {
				sp = &Status{Code: 7, Msg: "seven"}
			}
			cl.Method, cl.Arg, cl.Oracle = "EchoStatusPtr", canon(sp), roundTrip(c, sp)
			v, err := rem.EchoStatusPtr(ctx, tag, sp)
			cl.Ret, cl.Err = canon(v), errText(err)
		case 13: // handlers that return a value and no error
			nm := GenString(r)
			cl.Method, cl.Arg, cl.Oracle, cl.Extra = "Greet", canon(nm), roundTrip(c, nm), roundTrip(c, "hello "+roundTripVal(c, nm))
			v, err := rem.Greet(ctx, tag, nm)
			cl.Ret, cl.Err = canon(v), errText(err)
		case 14:
			cl.Method, cl.Arg, cl.Oracle, cl.Extra = "Tags", "null", "null", roundTrip(c, map[string]int{"a": 1, "b": tag})
			v, err := rem.Tags(ctx, tag)
			cl.Ret, cl.Err = canon(v), errText(err)
		case 15:
			var ptr *Rec
			if r.Intn(3) != 0 {
				x := GenRec(r, 1)
				ptr = &x
			}
			cl.Method, cl.Arg, cl.Oracle, cl.Extra = "Mirror", canon(ptr), roundTrip(c, ptr), roundTrip(c, ptr)
			v, err := rem.Mirror(ctx, tag, ptr)
			cl.Ret, cl.Err = canon(v), errText(err)
		case 16: // a defined string type with its own text encoding, as a top-level parameter and result
			lv := []Level{"warn", "error", "", "custom"}[r.Intn(4)]
			cl.Method, cl.Arg, cl.Oracle = "EchoLevel", canon(string(lv)), canon(string(roundTripVal(c, lv)))
			v, err := rem.EchoLevel(ctx, tag, lv)
			cl.Ret, cl.Err = canon(string(v)), errText(err)
		case 19: // an interface-typed parameter: nil, numbers, strings, lists
			av := []any{nil, float64(tag), "s" + GenString(r), []any{float64(1), "x", nil}, map[string]any{"k": nil}}[r.Intn(5)]
			cl.Method, cl.Arg, cl.Oracle = "EchoAny", canon(av), roundTrip(c, av)
			v, err := rem.EchoAny(ctx, tag, av)
			cl.Ret, cl.Err = canon(v), errText(err)
		case 18: // a struct whose field type has a pointer-receiver JSON encoding: the VALUE is what is returned
			ss := Session{Cred: Cred{User: "u" + GenString(r), Token: "tok-" + fmt.Sprint(tag)}, N: tag}
			cl.Method, cl.Arg, cl.Oracle = "EchoSession", canon(ss), roundTrip(c, ss)
			v, err := rem.EchoSession(ctx, tag, ss)
			cl.Ret, cl.Err = canon(v), errText(err)
		case 10: // named non-struct types
			cn, nm := Count([]uint64{0, 7, 1 << 40}[r.Intn(3)]), Name(GenString(r))
			cl.Method, cl.Arg, cl.Oracle = "EchoNamed", canon([]any{cn, nm}), "["+roundTrip(c, cn)+","+roundTrip(c, nm)+"]"
			v, err := rem.EchoNamed(ctx, tag, cn, nm)
			cl.Ret, cl.Err, cl.Extra = canon(v), errText(err), canon(cn+Count(len(nm)))
		default:
			cl.Method, cl.Arg, cl.Oracle = "Zero", "null", "null"
			cl.Tag = 0
			err := rem.Zero(ctx)
			cl.Ret, cl.Err = "null", errText(err)
		}
		cl.Done = true
		rec.Calls = append(rec.Calls, cl)
	}
	// payloads beyond any small fixed buffer size (64 KiB and more), text and binary
	{
		big := strings.Repeat("0123456789abcdef", 4400)
		v, err := p.ra.EchoStr(ctx, 290, big)
		rec.Calls = append(rec.Calls, SysCall{Tag: 290, From: "A", Method: "EchoStr", Arg: canon(big), Oracle: roundTrip(c, big), Ret: canon(v), Err: errText(err), Done: true})
		bb := make([]byte, 66000)
		for i := range bb {
			bb[i] = byte(i * 7)
		}
		vb, err := p.rb.EchoBytes(ctx, 291, bb)
		rec.Calls = append(rec.Calls, SysCall{Tag: 291, From: "B", Method: "EchoBytes", Arg: canon(bb), Oracle: roundTrip(c, bb), Ret: canon(vb), Err: errText(err), Done: true})
	}
	// a burst of pipelined calls in one direction (frames back to back on the transport)
	{
		var wg sync.WaitGroup
		var mu sync.Mutex
		for k := 0; k < 6; k++ {
			tag := 280 + k
			s := fmt.Sprintf("%c%s", 'a'+k, strings.Repeat(string(rune('a'+k)), 7-k))
			wg.Add(1)
			go func() {
				defer wg.Done()
				v, err := p.ra.EchoStr(ctx, tag, s)
				mu.Lock()
				rec.Calls = append(rec.Calls, SysCall{Tag: tag, From: "A", Method: "EchoStr", Arg: canon(s), Oracle: roundTrip(c, s), Ret: canon(v), Err: errText(err), Done: true})
				mu.Unlock()
			}()
		}
		if !waitAll(&wg, 8*time.Second) {
			rec.Hang = true
		}
	}
	rec.LinkA, rec.LinkB = p.close()
	rec.Events = p.w.Events()
	return rec
}

func cfgName(codec string, stream bool, chunk int) string {
	if !stream {
		return codec + "/message"
	}
	return fmt.Sprintf("%s/stream-%d", codec, chunk)
}

// ---- C10: errors ----
func blankMsg(m string) bool { return strings.TrimSpace(m) == "" }

func FamErrors[T any](c Codec[T], stream bool, chunk int, seed int64, n int) SysRecord {
	r := rand.New(rand.NewSource(seed))
	rec := SysRecord{Family: "errors", Config: cfgName(c.Name, stream, chunk), Seed: seed}
	p, err := newPair(c, stream, chunk, seed)
	if err != nil {
		rec.Notes = append(rec.Notes, err.Error())
		return rec
	}
	ctx, cancel := context.WithTimeout(context.Background(), 20*time.Second)
	defer cancel()
	msgs := append([]string{"disk is 100% full", "%s %d %v %!", "100%", "<nil>", "x", " lead", "trail ", "\ttab\t", "\nnl", "a\nb", "\"quoted\"", "ünï ☃", "   . ", " nbsp "}, sampleStrings[2:]...)
	for i := 0; i < n; i++ {
		from, rem := "A", p.ra
		if r.Intn(2) == 0 {
			from, rem = "B", p.rb
		}
		tag := 300 + i
		msg := msgs[r.Intn(len(msgs))]
		cl := SysCall{Tag: tag, From: from, Arg: canon(msg)}
		switch r.Intn(11) {
		case 9: // a nil POINTER of an error type is a non-nil error: its message arrives (handler and closure)
			cl.Method, cl.Arg = "FailTypedNil", canon("typed nil error")
			err := rem.FailTypedNil(ctx, tag)
			cl.Ret, cl.Err = "null", errText(err)
			if err == nil {
				cl.Err = "<nil>"
			}
			cl.Done = true
			rec.Calls = append(rec.Calls, cl)
			cl2 := SysCall{Tag: tag + 5000, From: from, Arg: canon("typed nil error"), Method: "IterErr"}
			err2 := rem.IterErr(ctx, tag+5000, 5, func(ctx context.Context, x int) error { var e *ptrErr; return e })
			cl2.Ret, cl2.Err = "null", errText(err2)
			if err2 == nil {
				cl2.Err = "<nil>"
			}
			cl = cl2
		case 10: // an error type that prints differently through fmt: the message that crosses the link is Error()
			if msg == "<nil>" || blankMsg(msg) {
				msg = "plain"
			}
			cl.Method, cl.Arg = "FailFormatted", canon(msg)
			err := rem.FailFormatted(ctx, tag, msg)
			cl.Ret, cl.Err = "null", errText(err)
			if err == nil {
				cl.Err = "<nil>"
			}
		case 8: // a closure that returns a nil value together with an error (and one with a value, and one with neither)
			cl.Method = "IterNilErr"
			v, err := rem.IterNilErr(ctx, tag, func(ctx context.Context, page int) ([]string, error) {
				switch page {
				case 0:
					return []string{"a"}, nil
				case 1:
					if msg == "<nil>" {
						return nil, nil
					}
					return nil, errors.New(msg)
				}
				return nil, nil
			})
			cl.Ret, cl.Err = v, errText(err)
			if err == nil {
				cl.Err = "<nil>"
			}
		case 7: // an error value whose fields no serializer can encode: only its message travels
			cl.Method = "FailFancy"
			cctx, ccancel := context.WithTimeout(ctx, 3*time.Second)
			err := rem.FailFancy(cctx, tag, msg)
			ccancel()
			cl.Ret, cl.Err = "null", errText(err)
			if err == nil {
				cl.Err = "<nil>"
			}
		case 4: // the handler declares a concrete error type as its only result
			cl.Method = "FailConcrete"
			err := rem.FailConcrete(ctx, tag, msg)
			cl.Ret, cl.Err = "null", errText(err)
			if err == nil {
				cl.Err = "<nil>"
			}
		case 5: // application errors that wrap errors panrpc itself uses as signals
			k := r.Intn(7)
			cl.Method, cl.Arg = "FailWrap", canon(wrapErr(k).Error())
			cctx, ccancel := context.WithTimeout(ctx, 3*time.Second)
			err := rem.FailWrap(cctx, tag, k)
			ccancel()
			cl.Ret, cl.Err = "null", errText(err)
			if err == nil {
				cl.Err = "<nil>"
			}
		case 6:
			k := r.Intn(7)
			cl.Method, cl.Arg, cl.Extra = "FailVal", canon(wrapErr(k).Error()), fmt.Sprint(tag)
			cctx, ccancel := context.WithTimeout(ctx, 3*time.Second)
			v, err := rem.FailWrapVal(cctx, tag, k)
			ccancel()
			cl.Ret, cl.Err = canon(v), errText(err)
			if err == nil {
				cl.Err = "<nil>"
			}
		case 0:
			cl.Method = "Fail"
			err := rem.Fail(ctx, tag, msg)
			cl.Ret, cl.Err = "null", errText(err)
			if err == nil {
				cl.Err = "<nil>"
			}
		case 1:
			v0 := 1 + r.Intn(50)
			cl.Method, cl.Extra = "FailVal", fmt.Sprint(v0)
			v, err := rem.FailVal(ctx, tag, v0, msg)
			cl.Ret, cl.Err = canon(v), errText(err)
			if err == nil {
				cl.Err = "<nil>"
			}
		case 2: // closure returning an error only
			cl.Method = "IterErr"
			err := rem.IterErr(ctx, tag, 5, func(ctx context.Context, x int) error {
				if msg == "<nil>" {
					return nil
				}
				return errors.New(msg)
			})
			cl.Ret, cl.Err = "null", errText(err)
			if err == nil {
				cl.Err = "<nil>"
			}
		default: // closure returning a value and an error: the callee concatenates "<value>/<error text>"
			cl.Method = "IterValErr"
			v, err := rem.Iter(ctx, tag, 1, func(ctx context.Context, i int, s string, xs []int, b bool) (string, error) {
				if msg == "<nil>" {
					return "val", nil
				}
				return "val", errors.New(msg)
			})
			cl.Ret, cl.Err = v, errText(err)
			if err == nil {
				cl.Err = "<nil>"
			}
		}
		cl.Done = true
		rec.Calls = append(rec.Calls, cl)
	}
	// calls in flight together whose responses arrive back to back, alternately failing and succeeding: every
	// call gets its own outcome (an error never leaks into, or vanishes from, a neighbouring response)
	{
		const k = 12
		if !stream {
			p.l.BAres.SetHold(true)
		}
		var wg sync.WaitGroup
		var mu sync.Mutex
		for j := 0; j < k; j++ {
			tag := 360 + j
			msg := "<nil>"
			if j%2 == 0 {
				msg = fmt.Sprintf("burst failure %d", j)
			}
			wg.Add(1)
			go func() {
				defer wg.Done()
				err := p.ra.Fail(ctx, tag, msg)
				cl := SysCall{Tag: tag, From: "A", Method: "Fail", Arg: canon(msg), Ret: "null", Err: errText(err), Done: true}
				if err == nil {
					cl.Err = "<nil>"
				}
				mu.Lock()
				rec.Calls = append(rec.Calls, cl)
				mu.Unlock()
			}()
		}
		if !stream {
			waitUntil(func() bool { return p.l.BAres.HeldLen() == k }, 3*time.Second)
			p.l.BAres.Release(r)
			p.l.BAres.SetHold(false)
		}
		if !waitAll(&wg, 8*time.Second) {
			rec.Hang = true
		}
	}
	// two callables of different result shapes in one call (value and error / error only): the error a callable
	// returns reaches the handler that invoked it, with its value
	{
		sctx, scancel := context.WithTimeout(ctx, 4*time.Second)
		v, err := p.ra.Shapes(sctx, 397, func(ctx context.Context, x int) (int, error) { return 7, errors.New("out of stock") },
			func(ctx context.Context, x int) error { return errors.New("not done") })
		scancel()
		if err != nil || v != "7/out of stock;not done" {
			rec.Notes = append(rec.Notes, fmt.Sprintf("two callables of different result shapes in one call, the first returning (7, 'out of stock'), the second 'not done': the handler that invoked them received %q (call error %v), expected \"7/out of stock;not done\"", v, err))
		}
	}
	// a call is abandoned by its caller (context cancelled) while its handler is still running; the handler then
	// returns an ordinary error: that response is for nobody, and it is still only an application-level error
	{
		cctx, ccancel := context.WithCancel(ctx)
		adone := make(chan struct{})
		go func() { p.ra.GateFail(cctx, 398, "late failure of an abandoned call"); close(adone) }()
		waitUntil(func() bool { return hasInv(p.w, "GateFail", 398) }, 3*time.Second)
		ccancel()
		select {
		case <-adone:
		case <-time.After(3 * time.Second):
			rec.Notes = append(rec.Notes, "a call whose context was cancelled while its handler ran did not return")
		}
		close(p.w.gate(398))
		waitUntil(func() bool { return hasRet(p.w, "GateFail", 398) }, 3*time.Second)
		time.Sleep(60 * time.Millisecond)
	}
	// the link must still be healthy
	v, err := p.ra.EchoInt(ctx, 399, 42)
	rec.Calls = append(rec.Calls, SysCall{Tag: 399, From: "A", Method: "EchoInt", Arg: "42", Ret: canon(v), Err: errText(err), Done: true, Extra: "probe"})
	rec.LinkA, rec.LinkB = p.close()
	rec.Events = p.w.Events()
	return rec
}

// ---- C11 / C12: closures ----
// the error text a failing closure returns: also texts with white space around them (an error crosses
// the link as its message, unchanged)
func cbFailText(tag, i int) string {
	switch tag % 4 {
	case 1:
		return fmt.Sprintf("cbfail%d\n", i)
	case 2:
		return fmt.Sprintf("  cbfail%d", i)
	case 3:
		return fmt.Sprintf("\tcb fail\n\t%d \n", i)
	}
	return fmt.Sprintf("cbfail%d", i)
}

func FamClosures[T any](c Codec[T], stream bool, chunk int, seed int64, n int) SysRecord {
	r := rand.New(rand.NewSource(seed))
	rec := SysRecord{Family: "closures", Config: cfgName(c.Name, stream, chunk), Seed: seed}
	p, err := newPair(c, stream, chunk, seed)
	if err != nil {
		rec.Notes = append(rec.Notes, err.Error())
		return rec
	}
	ctx, cancel := context.WithTimeout(context.Background(), 20*time.Second)
	defer cancel()
	for i := 0; i < n; i++ {
		from, rem, node := "A", p.ra, p.a
		if r.Intn(2) == 0 {
			from, rem, node = "B", p.rb, p.b
		}
		tag := 400 + i
		cnt := r.Intn(6)
		if r.Intn(3) == 0 {
			cnt = -(1 + r.Intn(5)) // concurrent invocations
		}
		if r.Intn(12) == 0 {
			cnt = 20
		}
		cl := SysCall{Tag: tag, From: from, Method: "Iter", Arg: fmt.Sprint(cnt)}
		var mu sync.Mutex
		var runs []string
		failAt := -1
		if r.Intn(3) == 0 {
			failAt = r.Intn(3)
		}
		v, err := rem.Iter(ctx, tag, cnt, func(ctx context.Context, i int, s string, xs []int, b bool) (string, error) {
			mu.Lock()
			runs = append(runs, canon([]any{i, s, xs, b}))
			mu.Unlock()
			if i == failAt {
				return fmt.Sprintf("r%d", i), errors.New(cbFailText(tag, i))
			}
			return fmt.Sprintf("r%d", i), nil
		})
		mu.Lock()
		cl.Extra = strings.Join(sortedCopy(runs), "|")
		mu.Unlock()
		cl.Ret, cl.Err, cl.Done = v, errText(err), true
		cl.Oracle = fmt.Sprint(failAt)
		rec.Calls = append(rec.Calls, cl)
		if n := node.Reg.VerifClosureCount(); n != 0 {
			rec.Notes = append(rec.Notes, fmt.Sprintf("CLOSURES-REMAIN tag=%d count=%d after the call returned", tag, n))
		}
	}
	// closure parameters of named non-struct types (kind-equal to what the serializer decodes, not type-equal)
	{
		var mu sync.Mutex
		var runs []string
		pctx, pcancel := context.WithTimeout(ctx, 5*time.Second)
		v, err := p.ra.IterNamed(pctx, 489, func(ctx context.Context, cn Count, nm Name, ra Ratio, sm Small) (Count, error) {
			mu.Lock()
			runs = append(runs, canon([]any{cn, nm, ra, sm}))
			mu.Unlock()
			return cn + Count(len(nm)), nil
		})
		pcancel()
		mu.Lock()
		rec.Calls = append(rec.Calls, SysCall{Tag: 489, From: "A", Method: "IterNamed", Ret: v, Err: errText(err), Done: true, Extra: strings.Join(runs, "|")})
		mu.Unlock()
	}
	// ... of named integer types only (the serializers decode numbers differently)
	{
		pctx, pcancel := context.WithTimeout(ctx, 5*time.Second)
		v, err := p.ra.IterCount(pctx, 487, func(ctx context.Context, cn Count, sm Small) (Count, error) { return cn + Count(sm+1), nil })
		pcancel()
		rec.Calls = append(rec.Calls, SysCall{Tag: 487, From: "A", Method: "IterCount", Ret: v, Err: errText(err), Done: true})
	}
	// an invocation made with a context that is already cancelled fails with that context's error - that
	// invocation only: the next one, with a live context, gets its result, the link stays up
	{
		pctx, pcancel := context.WithTimeout(ctx, 5*time.Second)
		v, err := p.ra.IterPreCancelled(pctx, 485, func(ctx context.Context, x int) (int, error) { return x * 11, nil })
		pcancel()
		rec.Calls = append(rec.Calls, SysCall{Tag: 485, From: "A", Method: "IterPreCancelled", Ret: v, Err: errText(err), Done: true})
	}
	// ... whose parameter is a list of lists, one of them nil (null on the wire)
	{
		pctx, pcancel := context.WithTimeout(ctx, 5*time.Second)
		v, err := p.ra.Groups(pctx, 486, func(ctx context.Context, gs [][]string) (string, error) {
			var parts []string
			for _, g := range gs {
				parts = append(parts, fmt.Sprintf("%d%v", len(g), g))
			}
			return strings.Join(parts, ","), nil
		})
		pcancel()
		rec.Calls = append(rec.Calls, SysCall{Tag: 486, From: "A", Method: "Groups", Ret: v, Err: errText(err), Done: true})
	}
	// one invocation of the callable is cancelled (context of that invocation only) while another is in flight
	{
		rel := make(chan struct{})
		var once sync.Once
		pctx, pcancel := context.WithTimeout(ctx, 8*time.Second)
		v, err := p.ra.IterDerived(pctx, 486, func(ctx context.Context, i int, s string, xs []int, b bool) (string, error) {
			if i == 2 {
				once.Do(func() { close(rel) })
			} else {
				select {
				case <-rel:
				case <-time.After(6 * time.Second):
				}
			}
			return fmt.Sprintf("r%d", i), nil
		})
		pcancel()
		once.Do(func() { close(rel) })
		rec.Calls = append(rec.Calls, SysCall{Tag: 486, From: "A", Method: "IterDerived", Ret: v, Err: errText(err), Done: true})
	}
	// a function argument that panics on its first invocation: that invocation gets an error, the callable
	// stays invocable for as long as its call is in flight
	{
		var mu sync.Mutex
		runs := 0
		pctx, pcancel := context.WithTimeout(ctx, 5*time.Second)
		v, err := p.ra.Iter(pctx, 483, 3, func(ctx context.Context, i int, s string, xs []int, b bool) (string, error) {
			mu.Lock()
			runs++
			mu.Unlock()
			if i == 0 {
				panic(errors.New("cbpanic"))
			}
			return fmt.Sprintf("r%d", i), nil
		})
		pcancel()
		mu.Lock()
		rec.Calls = append(rec.Calls, SysCall{Tag: 483, From: "A", Method: "IterPanicsOnce", Ret: v, Err: errText(err), Done: true, Extra: fmt.Sprint(runs)})
		mu.Unlock()
	}
	// two overlapping calls of the SAME remote function, each passing its own function: when the first returns,
	// the second call's function is still invocable
	{
		type r2 struct {
			v   int
			err error
		}
		d1, d2 := make(chan r2, 1), make(chan r2, 1)
		octx, ocancel := context.WithTimeout(ctx, 8*time.Second)
		go func() {
			v, err := p.ra.Delayed(octx, 4810, func(ctx context.Context, x int) (int, error) { return x + 100, nil })
			d1 <- r2{v, err}
		}()
		go func() {
			v, err := p.ra.Delayed(octx, 4811, func(ctx context.Context, x int) (int, error) { return x + 200, nil })
			d2 <- r2{v, err}
		}()
		waitUntil(func() bool { return hasInv(p.w, "Delayed", 4810) && hasInv(p.w, "Delayed", 4811) }, 3*time.Second)
		close(p.w.gate(4810))
		var a, b r2
		select {
		case a = <-d1:
		case <-time.After(4 * time.Second):
			a = r2{-1, errors.New("DID-NOT-RETURN")}
		}
		close(p.w.gate(4811))
		select {
		case b = <-d2:
		case <-time.After(4 * time.Second):
			b = r2{-1, errors.New("DID-NOT-RETURN")}
		}
		ocancel()
		rec.Calls = append(rec.Calls, SysCall{Tag: 4810, From: "A", Method: "OverlappingSameFunction", Ret: fmt.Sprintf("%d/%s;%d/%s", a.v, errText(a.err), b.v, errText(b.err)), Done: true})
	}
	// function arguments between plain arguments: every argument arrives in its declared position
	{
		pctx, pcancel := context.WithTimeout(ctx, 5*time.Second)
		v, err := p.rb.Mixed(pctx, 484, func(ctx context.Context, x int) (int, error) { return x * 10, nil }, 7,
			func(ctx context.Context, x int) (int, error) { return x * 100, nil }, "tail")
		pcancel()
		rec.Calls = append(rec.Calls, SysCall{Tag: 484, From: "B", Method: "Mixed", Ret: v, Err: errText(err), Done: true})
	}
	// two closures in one call: each callable reaches its own function
	{
		var mu sync.Mutex
		var runs []string
		pctx, pcancel := context.WithTimeout(ctx, 5*time.Second)
		v, err := p.rb.Two(pctx, 488, func(ctx context.Context, x int) (int, error) {
			mu.Lock()
			runs = append(runs, fmt.Sprintf("f%d", x))
			mu.Unlock()
			return x + 10, nil
		}, func(ctx context.Context, x int) (int, error) {
			mu.Lock()
			runs = append(runs, fmt.Sprintf("g%d", x))
			mu.Unlock()
			return x + 20, nil
		})
		pcancel()
		mu.Lock()
		rec.Calls = append(rec.Calls, SysCall{Tag: 488, From: "B", Method: "Two", Ret: v, Err: errText(err), Done: true, Extra: strings.Join(runs, "|")})
		mu.Unlock()
		if n := p.b.Reg.VerifClosureCount(); n != 0 {
			rec.Notes = append(rec.Notes, fmt.Sprintf("CLOSURES-REMAIN tag=488 count=%d after a call with two function arguments returned", n))
		}
	}
	// a closure that takes nothing but the context
	{
		pctx, pcancel := context.WithTimeout(ctx, 5*time.Second)
		v, err := p.ra.Call0(pctx, 485, func(ctx context.Context) (int, error) { return 4850, nil })
		pcancel()
		rec.Calls = append(rec.Calls, SysCall{Tag: 485, From: "A", Method: "Call0", Ret: canon(v), Err: errText(err), Done: true})
	}
	// two calls in flight at once that pass closures made by the SAME function literal: each callee must reach
	// the closure of its own call
	{
		var wg sync.WaitGroup
		res := make([]SysCall, 2)
		for k := 0; k < 2; k++ {
			wg.Add(1)
			go func() {
				defer wg.Done()
				pctx, pcancel := context.WithTimeout(ctx, 6*time.Second)
				defer pcancel()
				v, err := p.ra.Delayed(pctx, 4830+k, func(ctx context.Context, x int) (int, error) { return 1000*(k+1) + x, nil })
				res[k] = SysCall{Tag: 4830 + k, From: "A", Method: "SameLiteral", Ret: canon(v), Err: errText(err), Done: true}
			}()
		}
		waitUntil(func() bool { return hasInv(p.w, "Delayed", 4830) && hasInv(p.w, "Delayed", 4831) }, 3*time.Second)
		close(p.w.gate(4831))
		close(p.w.gate(4830))
		if !waitAll(&wg, 8*time.Second) {
			rec.Hang = true
		}
		rec.Calls = append(rec.Calls, res...)
	}
	// the callee keeps the callable and is still inside an invocation of it when the passing call is cancelled;
	// once that invocation has finished, a later invocation must be refused
	{
		cctx, ccancel := context.WithCancel(ctx)
		started, release := make(chan struct{}), make(chan struct{})
		runs := 0
		var mu sync.Mutex
		done := make(chan SysCall, 1)
		go func() {
			v, err := p.ra.KeepAndCall(cctx, 482, func(ctx context.Context, x int) (int, error) {
				mu.Lock()
				runs++
				first := runs == 1
				mu.Unlock()
				if first {
					close(started)
					<-release
				}
				return x, nil
			})
			done <- SysCall{Tag: 482, From: "A", Method: "KeepAndCallCancelled", Ret: canon(v), Err: errText(err), Done: true}
		}()
		select {
		case <-started:
		case <-time.After(3 * time.Second):
			rec.Notes = append(rec.Notes, "closure of KeepAndCall never started")
		}
		ccancel()
		select {
		case cl := <-done:
			rec.Calls = append(rec.Calls, cl)
		case <-time.After(3 * time.Second):
			rec.Calls = append(rec.Calls, SysCall{Tag: 482, From: "A", Method: "KeepAndCallCancelled", Err: "DID-NOT-RETURN"})
		}
		close(release)
		waitUntil(func() bool { return hasRet(p.w, "KeepAndCall", 482) }, 3*time.Second)
		p.w.mu.Lock()
		kept := p.w.kept[482]
		p.w.mu.Unlock()
		if kept != nil {
			lctx, lcancel := context.WithTimeout(ctx, 3*time.Second)
			v, err := kept(lctx, 9)
			lcancel()
			mu.Lock()
			rec.Calls = append(rec.Calls, SysCall{Tag: 481, From: "B", Method: "LateInvokeAfterInFlight", Ret: canon(v), Err: errText(err), Done: true, Extra: fmt.Sprint(runs)})
			mu.Unlock()
		}
	}
	// a function argument that cannot be a closure (no error result): the call fails, nothing stays registered
	{
		pctx, pcancel := context.WithTimeout(ctx, 5*time.Second)
		err := p.ra.BadCb(pctx, 486, func(ctx context.Context, msg string) {})
		pcancel()
		rec.Calls = append(rec.Calls, SysCall{Tag: 486, From: "A", Method: "BadClosureArg", Err: errText(err), Done: true, Extra: fmt.Sprint(p.a.Reg.VerifClosureCount())})
		if err != nil {
			// fatal for the link (a panic inside the stub): relink for the rest
			p.close()
			p2, err2 := newPair(c, stream, chunk, seed+2)
			if err2 != nil {
				rec.Notes = append(rec.Notes, "relink failed: "+err2.Error())
				return rec
			}
			p = p2
		}
	}
	// a later argument cannot be encoded: the call fails before anything is written, and the closure that
	// was registered for the earlier argument must be gone again
	{
		err := p.ra.CbFirst(ctx, 491, func(ctx context.Context, x int) (int, error) { return x, nil }, make(chan int))
		cl := SysCall{Tag: 491, From: "A", Method: "CbFirstUnencodable", Err: errText(err), Done: true, Extra: fmt.Sprint(p.a.Reg.VerifClosureCount())}
		rec.Calls = append(rec.Calls, cl)
		if err != nil {
			// the marshal failure is fatal for the link (a panic inside the stub): relink for the rest
			p.close()
			p2, err2 := newPair(c, stream, chunk, seed+1)
			if err2 != nil {
				rec.Notes = append(rec.Notes, "relink failed: "+err2.Error())
				return rec
			}
			w0 := p.w
			p = p2
			_ = w0
		}
	}
	// late invocation: the callee keeps the callable and invokes it after the call returned
	ran := false
	err = p.ra.Keep(ctx, 499, func(ctx context.Context, x int) (int, error) { ran = true; return x, nil })
	rec.Calls = append(rec.Calls, SysCall{Tag: 499, From: "A", Method: "Keep", Err: errText(err), Done: true})
	p.w.mu.Lock()
	kept := p.w.kept[499]
	p.w.mu.Unlock()
	if kept != nil {
		v, err := kept(ctx, 7)
		rec.Calls = append(rec.Calls, SysCall{Tag: 498, From: "B", Method: "LateInvoke", Ret: canon(v), Err: errText(err), Done: true, Extra: fmt.Sprint(ran)})
	} else {
		rec.Notes = append(rec.Notes, "callee did not receive the closure")
	}
	// ... and again while ANOTHER call that passes a function is in flight: the late invocation must not reach
	// that other function either
	if kept != nil {
		otherRan := 0
		started := make(chan struct{})
		dctx, dcancel := context.WithTimeout(ctx, 5*time.Second)
		ddone := make(chan SysCall, 1)
		go func() {
			v, err := p.ra.Delayed(dctx, 4990, func(ctx context.Context, x int) (int, error) { otherRan++; return x + 1, nil })
			ddone <- SysCall{Tag: 4990, From: "A", Method: "DelayedDuringLateInvoke", Ret: canon(v), Err: errText(err), Done: true}
		}()
		go func() {
			waitUntil(func() bool { return hasInv(p.w, "Delayed", 4990) }, 3*time.Second)
			close(started)
		}()
		<-started
		v, err := kept(ctx, 9)
		rec.Calls = append(rec.Calls, SysCall{Tag: 4991, From: "B", Method: "LateInvokeWhileOtherInFlight", Ret: canon(v), Err: errText(err), Done: true, Extra: fmt.Sprintf("%v/%d", ran, otherRan)})
		close(p.w.gate(4990))
		select {
		case cl := <-ddone:
			rec.Calls = append(rec.Calls, cl)
		case <-time.After(5 * time.Second):
			rec.Calls = append(rec.Calls, SysCall{Tag: 4990, From: "A", Method: "DelayedDuringLateInvoke", Err: "DID-NOT-RETURN", Done: true})
		}
		dcancel()
	}
	// the callee's handler has returned but its response is still in transit (held by the transport): the call
	// has not returned on the caller's side, so its function is still invocable
	if !stream {
		p.l.BAres.SetHold(true)
		ranT := 0
		kdone := make(chan error, 1)
		go func() {
			kdone <- p.ra.Keep(ctx, 4970, func(ctx context.Context, x int) (int, error) { ranT++; return x * 3, nil })
		}()
		var keptT cbI
		waitUntil(func() bool {
			p.w.mu.Lock()
			keptT = p.w.kept[4970]
			p.w.mu.Unlock()
			return keptT != nil && p.l.BAres.HeldLen() >= 1
		}, 3*time.Second)
		if keptT != nil {
			ictx, icancel := context.WithTimeout(ctx, 3*time.Second)
			idone := make(chan SysCall, 1)
			go func() {
				v, err := keptT(ictx, 7)
				idone <- SysCall{Tag: 4971, From: "B", Method: "InvokeWhileResponseInTransit", Ret: canon(v), Err: errText(err), Done: true}
			}()
			// the invocation's own response travels A->B and is not held
			select {
			case cl := <-idone:
				cl.Extra = fmt.Sprint(ranT)
				rec.Calls = append(rec.Calls, cl)
			case <-time.After(4 * time.Second):
				rec.Calls = append(rec.Calls, SysCall{Tag: 4971, From: "B", Method: "InvokeWhileResponseInTransit", Err: "DID-NOT-RETURN", Done: true})
			}
			icancel()
		} else {
			rec.Notes = append(rec.Notes, "callee did not receive the closure (response-in-transit scenario)")
		}
		p.l.BAres.Release(nil)
		p.l.BAres.SetHold(false)
		select {
		case <-kdone:
		case <-time.After(3 * time.Second):
			rec.Notes = append(rec.Notes, "the call whose response was held did not return after the response was released")
		}
	}
	// the late invocation is an application-level error: the link stays healthy
	v2, err2 := p.ra.EchoInt(ctx, 497, 42)
	rec.Calls = append(rec.Calls, SysCall{Tag: 497, From: "A", Method: "EchoInt", Arg: "42", Ret: canon(v2), Err: errText(err2), Done: true, Extra: "probe"})
	// ... and closures still work in both directions afterwards (nothing is left locked)
	for k, rem := range []sysRemote{p.ra, p.rb} {
		pctx, pcancel := context.WithTimeout(ctx, 3*time.Second)
		v3, err3 := rem.Iter(pctx, 496-k, 1, func(ctx context.Context, i int, s string, xs []int, b bool) (string, error) { return "p", nil })
		pcancel()
		rec.Calls = append(rec.Calls, SysCall{Tag: 496 - k, From: []string{"A", "B"}[k], Method: "IterProbe", Ret: v3, Err: errText(err3), Done: true})
	}
	// a call whose context is cancelled while its closure is still running returns promptly; the
	// closure finishes later without harm
	{
		cctx, ccancel := context.WithCancel(ctx)
		started, release := make(chan struct{}), make(chan struct{})
		done := make(chan SysCall, 1)
		go func() {
			v, err := p.ra.Iter(cctx, 494, 1, func(ctx context.Context, i int, s string, xs []int, b bool) (string, error) {
				close(started)
				<-release
				return "late", nil
			})
			done <- SysCall{Tag: 494, From: "A", Method: "IterCancelled", Ret: v, Err: errText(err), Done: true}
		}()
		select {
		case <-started:
			ccancel()
			select {
			case c := <-done:
				rec.Calls = append(rec.Calls, c)
			case <-time.After(3 * time.Second):
				rec.Calls = append(rec.Calls, SysCall{Tag: 494, From: "A", Method: "IterCancelled", Err: "DID-NOT-RETURN while its closure was running"})
				rec.Hang = true
			}
		case <-time.After(3 * time.Second):
			rec.Notes = append(rec.Notes, "closure of the to-be-cancelled call never started")
			ccancel()
		}
		// while that closure is still stalled, an independent closure-carrying call completes
		pctx, pcancel := context.WithTimeout(ctx, 3*time.Second)
		v4, err4 := p.ra.Iter(pctx, 493, 2, func(ctx context.Context, i int, s string, xs []int, b bool) (string, error) { return "q", nil })
		pcancel()
		rec.Calls = append(rec.Calls, SysCall{Tag: 493, From: "A", Method: "IterWhileStalled", Ret: v4, Err: errText(err4), Done: true})
		close(release)
		time.Sleep(2 * time.Millisecond)
	}
	rec.LinkA, rec.LinkB = p.close()
	rec.Events = p.w.Events()
	return rec
}

func sortedCopy(s []string) []string {
	c := append([]string{}, s...)
	for i := range c {
		for j := i + 1; j < len(c); j++ {
			if c[j] < c[i] {
				c[i], c[j] = c[j], c[i]
			}
		}
	}
	return c
}

// ---- C02: nesting and stalled handlers ----
func FamNest[T any](c Codec[T], stream bool, chunk int, seed int64) SysRecord {
	r := rand.New(rand.NewSource(seed))
	rec := SysRecord{Family: "nest", Config: cfgName(c.Name, stream, chunk), Seed: seed}
	p, err := newPair(c, stream, chunk, seed)
	if err != nil {
		rec.Notes = append(rec.Notes, err.Error())
		return rec
	}
	ctx, cancel := context.WithTimeout(context.Background(), 25*time.Second)
	defer cancel()
	var wg sync.WaitGroup
	var mu sync.Mutex
	add := func(cl SysCall) { mu.Lock(); rec.Calls = append(rec.Calls, cl); mu.Unlock() }
	// k stalled handlers on each side
	k := r.Intn(4)
	for i := 0; i < k; i++ {
		for _, side := range []struct {
			from string
			rem  sysRemote
		}{{"A", p.ra}, {"B", p.rb}} {
			tag := 500 + 2*i
			if side.from == "B" {
				tag++
			}
			wg.Add(1)
			go func() {
				defer wg.Done()
				v, err := side.rem.Gate(ctx, tag)
				add(SysCall{Tag: tag, From: side.from, Method: "Gate", Ret: canon(v), Err: errText(err), Done: true})
			}()
		}
	}
	// wait until the stalled handlers are running
	waitUntil(func() bool {
		n := 0
		for _, e := range p.w.Events() {
			if e.Kind == "inv" && e.Method == "Gate" {
				n++
			}
		}
		return n == 2*k
	}, 5*time.Second)
	// while they are stalled: ping-pong chains and independent calls, also a closure called from a nested handler
	depth := 1 + r.Intn(8)
	if r.Intn(6) == 0 {
		depth = 30 + r.Intn(40)
	}
	if seed%16 == 5 {
		depth = 1100 + r.Intn(200) // far beyond any fixed pool of handlers
	}
	var inner sync.WaitGroup
	for _, side := range []struct {
		from string
		rem  sysRemote
	}{{"A", p.ra}, {"B", p.rb}} {
		inner.Add(2)
		go func() {
			defer inner.Done()
			v, err := side.rem.Nest(ctx, 600, depth)
			add(SysCall{Tag: 600, From: side.from, Method: "Nest", Arg: fmt.Sprint(depth), Ret: canon(v), Err: errText(err), Done: true})
		}()
		go func() {
			defer inner.Done()
			v, err := side.rem.Iter(ctx, 610, 3, func(ctx context.Context, i int, s string, xs []int, b bool) (string, error) {
				return fmt.Sprintf("n%d", i), nil
			})
			add(SysCall{Tag: 610, From: side.from, Method: "Iter", Arg: "3", Ret: v, Err: errText(err), Done: true})
		}()
	}
	if !waitAll(&inner, 15*time.Second) {
		rec.Hang = true
		rec.Notes = append(rec.Notes, fmt.Sprintf("calls issued while %d handlers were stalled did not complete (depth %d)", 2*k, depth))
	}
	// the outermost call of a chain is made from inside the registry's enumeration callback (the usual way to
	// reach a peer); the chain comes back with a function argument: B -> A.CallBackIter -> B.Iter(f) -> f on A.
	// Only the outermost call is issued from the callback; the nested ones are ordinary handler code.
	{
		edone := make(chan SysCall, 1)
		go func() {
			var v string
			var err error
			ectx, ecancel := context.WithTimeout(ctx, 4*time.Second)
			defer ecancel()
			p.b.Reg.ForRemotes(func(id string, rem sysRemote) error {
				v, err = rem.CallBackIter(ectx, 650)
				return nil
			})
			edone <- SysCall{Tag: 650, From: "B", Method: "ChainFromEnumeration", Ret: v, Err: errText(err), Done: true}
		}()
		select {
		case cl := <-edone:
			add(cl)
		case <-time.After(6 * time.Second):
			add(SysCall{Tag: 650, From: "B", Method: "ChainFromEnumeration", Err: "DID-NOT-RETURN", Done: true})
		}
	}
	// a handler that starts a call back to its peer on a goroutine of its own and returns at once (a
	// subscription): its response does not wait for that call, whose handler is stalled
	{
		sctx, scancel := context.WithTimeout(ctx, 4*time.Second)
		v, err := p.ra.Spawn(sctx, 640)
		scancel()
		add(SysCall{Tag: 640, From: "A", Method: "Spawn", Ret: canon(v), Err: errText(err), Done: true})
	}
	for i := 0; i < 2*k; i++ {
		close(p.w.gate(500 + i))
	}
	close(p.w.gate(641))
	if !waitAll(&wg, 10*time.Second) {
		rec.Hang = true
	}
	rec.LinkA, rec.LinkB = p.close()
	rec.Events = p.w.Events()
	return rec
}

// ---- C13: hub and spokes ----
func FamHub[T any](c Codec[T], seed int64) SysRecord {
	r := rand.New(rand.NewSource(seed))
	rec := SysRecord{Family: "hub", Config: c.Name + "/message", Seed: seed}
	w := newWorld()
	hub := NewSysNode[T](w, "H")
	// the hub hands ONE LinkHooks value to all its links (legal: the value is the application's)
	hub.SharedHooks = &rpc.LinkHooks{
		OnClientConnect:    func(id string) { w.log(SysEvent{Node: "H", Kind: "hook", Method: "link-connect", Remote: id}) },
		OnClientDisconnect: func(id string) { w.log(SysEvent{Node: "H", Kind: "hook", Method: "link-disconnect", Remote: id}) },
	}
	n := 2 + r.Intn(3)
	spokes := make([]*SysNode[T], n)
	links := make([]*SysLink[T], n)
	spokeHubID := make([]string, n) // the id under which the hub knows spoke i (learned by WhoAmI)
	// every other run sets the links of spokes 1.. up at the same time, while an enumeration on the hub is in
	// progress (so that the set-ups overlap between building the remote and registering it)
	overlap := seed%2 == 0
	held := make(chan struct{})
	var eager sync.WaitGroup
	for i := range spokes {
		spokes[i] = NewSysNode[T](w, fmt.Sprintf("S%d", i))
		stream := r.Intn(2) == 0
		if overlap && i == 1 {
			started := make(chan struct{})
			go func() {
				defer close(held)
				_ = hub.Reg.ForRemotes(func(id string, rem sysRemote) error {
					select {
					case <-started:
					default:
						close(started)
						time.Sleep(120 * time.Millisecond)
					}
					return nil
				})
			}()
			select {
			case <-started:
			case <-time.After(2 * time.Second):
			}
		}
		links[i] = Connect(w, hub, spokes[i], c, stream, -1, seed+int64(i))
		if overlap && i >= 1 {
			// the spoke calls the hub as soon as ITS side of the link is up - while the hub's side may still be
			// waiting for the registry (the enumeration in progress): nothing of a link is handled before its
			// connect notification
			sp := spokes[i]
			eager.Add(1)
			go func() {
				defer eager.Done()
				if !WaitRemotes(sp, 1) {
					return
				}
				ectx, ecancel := context.WithTimeout(context.Background(), 5*time.Second)
				defer ecancel()
				for _, rem := range sp.Remotes() {
					rem.EchoInt(ectx, 7400+i, int64(i))
				}
			}()
			continue
		}
		if !WaitRemotes(hub, i+1) || !WaitRemotes(spokes[i], 1) {
			rec.Notes = append(rec.Notes, "link did not come up")
			return rec
		}
	}
	if overlap {
		<-held
		waitAll(&eager, 8*time.Second)
		if !WaitRemotes(hub, n) {
			rec.Notes = append(rec.Notes, "link did not come up")
			return rec
		}
		for i := range spokes {
			if !WaitRemotes(spokes[i], 1) {
				rec.Notes = append(rec.Notes, "link did not come up")
				return rec
			}
		}
	}
	ctx, cancel := context.WithTimeout(context.Background(), 15*time.Second)
	defer cancel()
	var mu sync.Mutex
	add := func(cl SysCall) { mu.Lock(); rec.Calls = append(rec.Calls, cl); mu.Unlock() }
	// each spoke asks the hub who it is (the hub answers with the id it sees in the handler context)
	for i, s := range spokes {
		for _, rem := range s.Remotes() {
			id, err := rem.WhoAmI(ctx, 700+i)
			spokeHubID[i] = id
			add(SysCall{Tag: 700 + i, From: s.Name, Method: "WhoAmI", Ret: id, Err: errText(err), Done: true})
		}
	}
	// the hub calls every remote it enumerates; the call must reach the spoke whose id that is
	hubRemotes := hub.Remotes()
	for id, rem := range hubRemotes {
		tag := 720
		for i := range spokes {
			if spokeHubID[i] == id {
				tag = 720 + i
			}
		}
		v, err := rem.EchoInt(ctx, tag, int64(tag))
		add(SysCall{Tag: tag, From: "H", Method: "EchoInt", Arg: fmt.Sprint(tag), Ret: canon(v), Err: errText(err), Done: true, Extra: id})
	}
	// a function the hub passed on one link is still being executed for that link's peer while the hub makes a
	// closure-carrying call on another link: the second call does not wait for the first link's traffic
	{
		ids := make([]string, 0, len(hubRemotes))
		for id := range hubRemotes {
			ids = append(ids, id)
		}
		sort.Strings(ids)
		if len(ids) >= 2 {
			entered, release := make(chan struct{}), make(chan struct{})
			slowDone := make(chan SysCall, 1)
			go func() {
				v, err := hubRemotes[ids[0]].Iter(ctx, 7200, 1, func(ctx context.Context, k int, st string, xs []int, b bool) (string, error) {
					close(entered)
					select {
					case <-release:
					case <-time.After(8 * time.Second):
					}
					return "slow", nil
				})
				slowDone <- SysCall{Tag: 7200, From: "H", Method: "SlowCbAcross", Ret: v, Err: errText(err), Done: true}
			}()
			select {
			case <-entered:
			case <-time.After(3 * time.Second):
				rec.Notes = append(rec.Notes, "the hub's function passed on one link was never invoked")
			}
			qctx, qcancel := context.WithTimeout(ctx, 3*time.Second)
			v, err := hubRemotes[ids[1]].Iter(qctx, 7300, 1, func(ctx context.Context, k int, st string, xs []int, b bool) (string, error) {
				return "quick", nil
			})
			qcancel()
			add(SysCall{Tag: 7300, From: "H", Method: "QuickCbAcross", Ret: v, Err: errText(err), Done: true})
			close(release)
			select {
			case cl := <-slowDone:
				add(cl)
			case <-time.After(5 * time.Second):
				add(SysCall{Tag: 7200, From: "H", Method: "SlowCbAcross", Err: "STUCK", Done: true})
			}
		}
	}
	// calls in flight on every link, then one link fails
	var wg sync.WaitGroup
	for i, s := range spokes {
		for _, rem := range s.Remotes() {
			wg.Add(1)
			go func() {
				defer wg.Done()
				v, err := rem.Gate(ctx, 740+i)
				add(SysCall{Tag: 740 + i, From: s.Name, Method: "Gate", Ret: canon(v), Err: errText(err), Done: true})
			}()
		}
	}
	// ... and a closure-carrying call on every link whose closure is still running
	cbStarted := make([]chan struct{}, n)
	for i, s := range spokes {
		cbStarted[i] = make(chan struct{})
		for _, rem := range s.Remotes() {
			wg.Add(1)
			go func() {
				defer wg.Done()
				v, err := rem.Iter(ctx, 780+i, 1, func(ctx context.Context, k int, st string, xs []int, b bool) (string, error) {
					close(cbStarted[i])
					<-w.gate(790 + i)
					return fmt.Sprintf("h%d", i), nil // each link's function answers with its own mark
				})
				add(SysCall{Tag: 780 + i, From: s.Name, Method: "IterAcross", Ret: v, Err: errText(err), Done: true})
			}()
		}
	}
	// the hub passes a closure to every spoke; the spokes invoke it only after the failure below
	for id, rem := range hub.Remotes() {
		i := -1
		for k := range spokes {
			if spokeHubID[k] == id {
				i = k
			}
		}
		wg.Add(1)
		go func() {
			defer wg.Done()
			v, err := rem.Delayed(ctx, 7100+i, func(ctx context.Context, x int) (int, error) { return 20000*(i+1) + x, nil }) // same literal, own mark per link
			add(SysCall{Tag: 7100 + i, From: "H", Method: "DelayedAcross", Ret: canon(v), Err: errText(err), Done: true})
		}()
	}
	for i := range spokes {
		select {
		case <-cbStarted[i]:
		case <-time.After(5 * time.Second):
			rec.Notes = append(rec.Notes, fmt.Sprintf("closure of spoke %d never started", i))
		}
	}
	waitUntil(func() bool {
		k := 0
		for _, e := range w.Events() {
			if e.Kind == "inv" && e.Method == "Gate" {
				k++
			}
		}
		return k == n
	}, 5*time.Second)
	victim := r.Intn(n)
	switch r.Intn(3) {
	case 0:
		links[victim].CancelB()
	case 1:
		links[victim].CancelA()
	default:
	}
	// the peer disappears: the transport of that link fails on both ends
	links[victim].CloseTransport(errors.New("victim transport failed"))
	rec.Notes = append(rec.Notes, fmt.Sprintf("victim=%d", victim))
	time.Sleep(5 * time.Millisecond)
	// traffic on the surviving links
	for i, s := range spokes {
		if i == victim {
			continue
		}
		for _, rem := range s.Remotes() {
			v, err := rem.EchoInt(ctx, 760+i, int64(i))
			add(SysCall{Tag: 760 + i, From: s.Name, Method: "EchoInt", Arg: fmt.Sprint(i), Ret: canon(v), Err: errText(err), Done: true, Extra: "survivor"})
		}
	}
	// a new link comes up after the failure: fresh identity, routed to the new peer, survivors unaffected
	fresh := NewSysNode[T](w, "SN")
	freshLink := Connect(w, hub, fresh, c, false, 0, seed+99)
	links = append(links, freshLink)
	if WaitRemotes(fresh, 1) && waitUntil(func() bool { return len(hub.Remotes()) == n }, 3*time.Second) {
		for _, rem := range fresh.Remotes() {
			id, err := rem.WhoAmI(ctx, 799)
			add(SysCall{Tag: 799, From: "SN", Method: "WhoAmINew", Ret: id, Err: errText(err), Done: true, Extra: strings.Join(spokeHubID, ",")})
			if hr, ok := hub.Remotes()[id]; ok {
				v, err := hr.EchoInt(ctx, 798, 798)
				add(SysCall{Tag: 798, From: "H", Method: "EchoIntNew", Arg: "798", Ret: canon(v), Err: errText(err), Done: true})
			} else {
				rec.Notes = append(rec.Notes, "the id the new link sees in handler contexts is not enumerated by the hub")
			}
		}
		for i, s := range spokes {
			if i == victim {
				continue
			}
			for _, rem := range s.Remotes() {
				id, err := rem.WhoAmI(ctx, 770+i)
				add(SysCall{Tag: 770 + i, From: s.Name, Method: "WhoAmIAgain", Ret: id, Err: errText(err), Done: true, Extra: spokeHubID[i]})
			}
		}
	} else {
		rec.Notes = append(rec.Notes, fmt.Sprintf("after one link failed and a new one connected the hub enumerates %d remotes, expected %d", len(hub.Remotes()), n))
	}
	for i := 0; i < n; i++ {
		close(w.gate(740 + i))
		close(w.gate(790 + i))
		close(w.gate(7100 + i))
	}
	if !waitAll(&wg, 10*time.Second) {
		rec.Hang = true
	}
	for i, l := range links {
		l.CancelA()
		l.CancelB()
		l.CloseTransport(errors.New("transport closed"))
		select {
		case <-l.ErrA:
		case <-time.After(5 * time.Second):
			rec.Notes = append(rec.Notes, fmt.Sprintf("hub side of link %d did not return", i))
		}
		select {
		case <-l.ErrB:
		case <-time.After(5 * time.Second):
			rec.Notes = append(rec.Notes, fmt.Sprintf("spoke side of link %d did not return", i))
		}
	}
	if !waitUntil(func() bool { return len(hub.Remotes()) == 0 }, 3*time.Second) {
		rec.Notes = append(rec.Notes, "hub still enumerates remotes after every link ended")
	}
	rec.Events = w.Events()
	return rec
}

// ---- C03: a call in flight inside the registry's enumeration callback when the link fails ----
func FamInForRemotes[T any](c Codec[T], stream bool, chunk int, seed int64) SysRecord {
	rec := SysRecord{Family: "inforremotes", Config: cfgName(c.Name, stream, chunk), Seed: seed}
	p, err := newPair(c, stream, chunk, seed)
	if err != nil {
		rec.Notes = append(rec.Notes, err.Error())
		return rec
	}
	done := make(chan SysCall, 1)
	go func() {
		p.a.Reg.ForRemotes(func(id string, r sysRemote) error {
			v, err := r.Gate(context.Background(), 650)
			done <- SysCall{Tag: 650, From: "A", Method: "GateInForRemotes", Ret: canon(v), Err: errText(err), Done: true}
			return nil
		})
	}()
	waitUntil(func() bool {
		for _, e := range p.w.Events() {
			if e.Kind == "inv" && e.Method == "Gate" {
				return true
			}
		}
		return false
	}, 3*time.Second)
	// the transport fails (no context is cancelled)
	p.l.CloseTransport(errors.New("transport failed"))
	select {
	case cl := <-done:
		rec.Calls = append(rec.Calls, cl)
	case <-time.After(4 * time.Second):
		rec.Calls = append(rec.Calls, SysCall{Tag: 650, From: "A", Method: "GateInForRemotes", Err: "STILL BLOCKED 4 s after the link ended"})
		rec.Hang = true
	}
	close(p.w.gate(650))
	select {
	case e := <-p.l.ErrA:
		rec.LinkA = errText(e)
	case <-time.After(4 * time.Second):
		rec.Notes = append(rec.Notes, "Link on the calling side did not return after its transport failed")
	}
	p.l.CancelA()
	p.l.CancelB()
	rec.Events = p.w.Events()
	return rec
}

// ---- C04 (black box): cancellation of calls that carry closures, and of closure invocations ----
func FamCancel[T any](c Codec[T], stream bool, chunk int, seed int64) SysRecord {
	rec := SysRecord{Family: "cancel", Config: cfgName(c.Name, stream, chunk), Seed: seed}
	p, err := newPair(c, stream, chunk, seed)
	if err != nil {
		rec.Notes = append(rec.Notes, err.Error())
		return rec
	}
	ctx, cancel := context.WithTimeout(context.Background(), 30*time.Second)
	defer cancel()
	add := func(cl SysCall) { rec.Calls = append(rec.Calls, cl) }
	probe := func(tag int, what string) {
		for k, rem := range []sysRemote{p.ra, p.rb} {
			pctx, pcancel := context.WithTimeout(ctx, 3*time.Second)
			v, err := rem.EchoInt(pctx, tag+2*k, 42)
			add(SysCall{Tag: tag + 2*k, From: []string{"A", "B"}[k], Method: "Probe", Ret: canon(v), Err: errText(err), Done: true, Extra: what})
			v3, err3 := rem.Iter(pctx, tag+2*k+1, 1, func(ctx context.Context, i int, s string, xs []int, b bool) (string, error) { return "p", nil })
			pcancel()
			add(SysCall{Tag: tag + 2*k + 1, From: []string{"A", "B"}[k], Method: "ProbeClosure", Ret: v3, Err: errText(err3), Done: true, Extra: what})
		}
	}
	// 1. a call that passes a closure is cancelled while its handler waits; the peer then invokes the
	//    stale closure; afterwards plain and closure-carrying calls still work in both directions
	{
		cctx, ccancel := context.WithCancel(ctx)
		ran := false
		done := make(chan SysCall, 1)
		go func() {
			v, err := p.ra.Delayed(cctx, 700, func(ctx context.Context, x int) (int, error) { ran = true; return x, nil })
			done <- SysCall{Tag: 700, From: "A", Method: "CancelledWithClosure", Ret: canon(v), Err: errText(err), Done: true}
		}()
		if !waitUntil(func() bool { return hasInv(p.w, "Delayed", 700) }, 3*time.Second) {
			rec.Notes = append(rec.Notes, "handler of the to-be-cancelled call never started")
		}
		ccancel()
		select {
		case cl := <-done:
			add(cl)
		case <-time.After(3 * time.Second):
			add(SysCall{Tag: 700, From: "A", Method: "CancelledWithClosure", Err: "DID-NOT-RETURN"})
			rec.Hang = true
		}
		if n := p.a.Reg.VerifClosureCount(); n != 0 {
			rec.Notes = append(rec.Notes, fmt.Sprintf("CLOSURES-REMAIN tag=700 count=%d after the cancelled call returned", n))
		}
		// the handler now invokes the closure of the cancelled call: an application-level error for it
		close(p.w.gate(700))
		if !waitUntil(func() bool { return hasRet(p.w, "Delayed", 700) }, 3*time.Second) {
			rec.Notes = append(rec.Notes, "the handler's invocation of the stale closure did not return")
		}
		add(SysCall{Tag: 701, From: "B", Method: "StaleInvoke", Extra: fmt.Sprint(ran), Done: true})
		probe(710, "after a cancelled closure-carrying call and a stale invocation")
	}
	// 1b. many calls (more than any small fixed bound) are cancelled while their handlers are still running:
	//     each returns promptly, and later calls on the link are served although those handlers still run
	if seed%3 == 0 {
		const many = 1100
		mctx, mcancel := context.WithCancel(ctx)
		errs := make(chan string, many)
		for k := 0; k < many; k++ {
			go func() {
				_, err := p.ra.Gate(mctx, 7500)
				errs <- errText(err)
			}()
		}
		entered := func() int {
			n := 0
			for _, e := range p.w.Events() {
				if e.Kind == "inv" && e.Method == "Gate" && e.Tag == 7500 {
					n++
				}
			}
			return n
		}
		if !waitUntil(func() bool { return entered() == many }, 10*time.Second) {
			rec.Notes = append(rec.Notes, fmt.Sprintf("only %d of %d concurrent calls reached their handler", entered(), many))
		}
		mcancel()
		bad := 0
		for k := 0; k < many; k++ {
			select {
			case e := <-errs:
				if e != "context canceled" {
					bad++
				}
			case <-time.After(5 * time.Second):
				bad++
			}
		}
		add(SysCall{Tag: 7500, From: "A", Method: "MassCancelled", Ret: fmt.Sprint(bad), Arg: fmt.Sprint(many), Done: true})
		probe(7510, fmt.Sprintf("after %d calls were cancelled while their handlers are still running", many))
		close(p.w.gate(7500))
	}
	// 2. a handler invokes the peer's closure with a context of its own and cancels it while the
	//    closure runs: that invocation returns promptly with the context's error, the next one works
	{
		release := make(chan struct{})
		pctx, pcancel := context.WithTimeout(ctx, 12*time.Second)
		v, err := p.ra.IterCtx(pctx, 720, func(ctx context.Context, x int) (int, error) {
			if x == 1 {
				close(p.w.gate(721))
				<-release
				return 100, nil
			}
			return x, nil
		})
		pcancel()
		close(release)
		add(SysCall{Tag: 720, From: "A", Method: "IterCtx", Ret: v, Err: errText(err), Done: true})
		probe(730, "after a cancelled closure invocation")
	}
	// 3. a call whose context ends with a CAUSE still returns the context's error (not the cause)
	{
		cctx, ccancel := context.WithCancelCause(ctx)
		done := make(chan SysCall, 1)
		go func() {
			v, err := p.ra.Gate(cctx, 740)
			done <- SysCall{Tag: 740, From: "A", Method: "CancelledWithCause", Ret: canon(v), Err: errText(err), Done: true}
		}()
		waitUntil(func() bool { return hasInv(p.w, "Gate", 740) }, 3*time.Second)
		ccancel(errors.New("user pressed abort"))
		select {
		case cl := <-done:
			add(cl)
		case <-time.After(3 * time.Second):
			add(SysCall{Tag: 740, From: "A", Method: "CancelledWithCause", Err: "DID-NOT-RETURN"})
		}
		close(p.w.gate(740))
		tctx, tcancel := context.WithTimeoutCause(ctx, 20*time.Millisecond, errors.New("watchdog"))
		v, err := p.ra.Gate(tctx, 741)
		tcancel()
		add(SysCall{Tag: 741, From: "A", Method: "TimedOutWithCause", Ret: canon(v), Err: errText(err), Done: true})
		close(p.w.gate(741))
	}
	// 4. two calls in flight pass closures made by the same function literal; one of them is cancelled: the other
	//    one's closure must stay invocable
	{
		mk := func(k int) cbI { return func(ctx context.Context, x int) (int, error) { return 100*k + x, nil } }
		cctx, ccancel := context.WithCancel(ctx)
		adone, bdone := make(chan SysCall, 1), make(chan SysCall, 1)
		go func() {
			v, err := p.ra.Delayed(cctx, 750, mk(1))
			adone <- SysCall{Tag: 750, From: "A", Method: "CancelledSibling", Ret: canon(v), Err: errText(err), Done: true}
		}()
		go func() {
			pctx, pcancel := context.WithTimeout(ctx, 6*time.Second)
			defer pcancel()
			v, err := p.ra.Delayed(pctx, 751, mk(2))
			bdone <- SysCall{Tag: 751, From: "A", Method: "SurvivingSibling", Ret: canon(v), Err: errText(err), Done: true}
		}()
		waitUntil(func() bool { return hasInv(p.w, "Delayed", 750) && hasInv(p.w, "Delayed", 751) }, 3*time.Second)
		ccancel()
		select {
		case cl := <-adone:
			add(cl)
		case <-time.After(3 * time.Second):
			add(SysCall{Tag: 750, From: "A", Method: "CancelledSibling", Err: "DID-NOT-RETURN"})
		}
		close(p.w.gate(751))
		select {
		case cl := <-bdone:
			add(cl)
		case <-time.After(7 * time.Second):
			add(SysCall{Tag: 751, From: "A", Method: "SurvivingSibling", Err: "DID-NOT-RETURN"})
		}
		close(p.w.gate(750))
	}
	rec.LinkA, rec.LinkB = p.close()
	rec.Events = p.w.Events()
	return rec
}

func hasInv(w *sysWorld, m string, tag int) bool {
	for _, e := range w.Events() {
		if e.Kind == "inv" && e.Method == m && e.Tag == tag {
			return true
		}
	}
	return false
}
func hasRet(w *sysWorld, m string, tag int) bool {
	for _, e := range w.Events() {
		if e.Kind == "ret" && e.Method == m && e.Tag == tag {
			return true
		}
	}
	return false
}

// ---- C08 (and C03): a handler is still running when the peer hangs up; nobody cancels anything ----
func FamCtxEnd[T any](c Codec[T], stream bool, chunk int, seed int64) SysRecord {
	rec := SysRecord{Family: "ctxend", Config: cfgName(c.Name, stream, chunk), Seed: seed}
	p, err := newPair(c, stream, chunk, seed)
	if err != nil {
		rec.Notes = append(rec.Notes, err.Error())
		return rec
	}
	ctx, cancel := context.WithTimeout(context.Background(), 20*time.Second)
	defer cancel()
	done := make(chan SysCall, 1)
	go func() {
		v, err := p.ra.GateCtx(ctx, 750)
		cls := "error"
		if err == nil {
			cls = "nil"
		}
		done <- SysCall{Tag: 750, From: "A", Method: "GateCtxInFlight", Ret: canon(v), Err: cls, Done: true}
	}()
	if !waitUntil(func() bool { return hasInv(p.w, "GateCtx", 750) }, 3*time.Second) {
		rec.Notes = append(rec.Notes, "handler never started")
	}
	p.l.CloseTransport(io.EOF) // the peer hangs up; no context is cancelled by the application
	endB := "LINK-B-DID-NOT-RETURN"
	select {
	case e := <-p.l.ErrB:
		endB = "returned"
		_ = e
	case <-time.After(3 * time.Second):
	}
	select {
	case cl := <-done:
		rec.Calls = append(rec.Calls, cl)
	case <-time.After(3 * time.Second):
		rec.Calls = append(rec.Calls, SysCall{Tag: 750, From: "A", Method: "GateCtxInFlight", Err: "DID-NOT-RETURN"})
	}
	rec.Calls = append(rec.Calls, SysCall{Tag: 751, From: "B", Method: "LinkAfterPeerHangup", Ret: endB, Done: true})
	close(p.w.gate(750))
	if !waitUntil(func() bool {
		for _, e := range p.w.Events() {
			if e.Kind == "ctxerr" {
				return true
			}
		}
		return false
	}, 3*time.Second) {
		rec.Notes = append(rec.Notes, "handler did not finish after its gate opened")
	}
	p.l.CancelA()
	p.l.CancelB()
	select {
	case <-p.l.ErrA:
	case <-time.After(3 * time.Second):
		rec.Notes = append(rec.Notes, "LINK-A-DID-NOT-RETURN")
	}
	if !waitUntil(func() bool { return len(p.a.Remotes()) == 0 && len(p.b.Remotes()) == 0 }, 3*time.Second) {
		rec.Notes = append(rec.Notes, "REMOTE-STILL-ENUMERATED-AFTER-TEARDOWN")
	}
	time.Sleep(2 * time.Millisecond)
	rec.Events = p.w.Events()
	return rec
}

// FamClosuresLong — a long history on one registry: total sequential closure-carrying calls (alternating the
// exit path: normal return, closure error), the closure table must be empty after every one of them
func FamClosuresLong(seed int64, total int) SysRecord {
	c := jsonRawCodec()
	rec := SysRecord{Family: "closures", Config: cfgName(c.Name, false, -1) + "/long", Seed: seed}
	p, err := newPair(c, false, -1, seed)
	if err != nil {
		rec.Notes = append(rec.Notes, err.Error())
		return rec
	}
	ctx, cancel := context.WithTimeout(context.Background(), 40*time.Second)
	defer cancel()
	ran := 0
	for k := 0; k < total; k++ {
		err := p.ra.IterErr(ctx, 60000+k, k, func(ctx context.Context, x int) error {
			ran++
			if x%5 == 4 {
				return errors.New("cbfail")
			}
			return nil
		})
		if (k%5 == 4) != (err != nil) {
			rec.Notes = append(rec.Notes, fmt.Sprintf("sequential closure-carrying call number %d returned %v", k+1, err))
			break
		}
		if n := p.a.Reg.VerifClosureCount(); n != 0 {
			rec.Notes = append(rec.Notes, fmt.Sprintf("CLOSURES-REMAIN tag=%d count=%d after sequential closure-carrying call number %d on this registry returned", 60000+k, n, k+1))
			break
		}
	}
	rec.Calls = append(rec.Calls, SysCall{Tag: 60000, From: "A", Method: "LongHistory", Ret: fmt.Sprint(ran), Arg: fmt.Sprint(total), Done: true})
	rec.LinkA, rec.LinkB = p.close()
	return rec
}
