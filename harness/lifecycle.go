package harness

// lifecycle.go — C15, black-box over many link lifecycles: links are set up, used, ended in different ways
// (context cancelled, peer hangs up, transport fails) with a call in flight, and then called again after
// they have ended (the application kept the remote). Afterwards nothing panrpc started may still be
// running and nothing may still hang off the application's long-lived context.

import (
	"context"
	"encoding/json"
	"errors"
	"fmt"
	"io"
	"reflect"
	"runtime"
	"sort"
	"strings"
	"time"

	"github.com/pojntfx/panrpc/go/pkg/rpc"
)

// ownCtx is an application-defined context.Context (legal): contexts derived from it need a goroutine of
// their own to follow its cancellation until they are cancelled themselves
type ownCtx struct {
	done chan struct{}
}

func (c *ownCtx) Deadline() (time.Time, bool) { return time.Time{}, false }
func (c *ownCtx) Done() <-chan struct{}       { return c.done }
func (c *ownCtx) Err() error {
	select {
	case <-c.done:
		return context.Canceled
	default:
		return nil
	}
}
func (c *ownCtx) Value(key any) any { return nil }

// goroutine stacks by id
func goroutineStacks() map[string]string {
	buf := make([]byte, 4<<20)
	n := runtime.Stack(buf, true)
	m := map[string]string{}
	for _, g := range strings.Split(string(buf[:n]), "\n\n") {
		if strings.HasPrefix(g, "goroutine ") {
			f := strings.Fields(g)
			m[f[1]] = g
		}
	}
	return m
}

// number of contexts still registered as children of a standard cancellable context
func ctxChildren(ctx context.Context) int {
	v := reflect.ValueOf(ctx)
	if v.Kind() != reflect.Ptr || v.Elem().Kind() != reflect.Struct {
		return -1
	}
	f := v.Elem().FieldByName("children")
	if !f.IsValid() || f.Kind() != reflect.Map {
		return -1
	}
	return f.Len()
}

func FamLifecycle(seed int64, rounds int) SysRecord {
	c := jsonRawCodec()
	rec := SysRecord{Family: "lifecycle", Config: c.Name, Seed: seed}
	app, appCancel := context.WithCancel(context.Background()) // the application's long-lived context
	defer appCancel()
	own := &ownCtx{done: make(chan struct{})}
	defer close(own.done)
	time.Sleep(20 * time.Millisecond)
	before := goroutineStacks()
	late := 0
	for k := 0; k < rounds; k++ {
		p, err := newPair(c, k%2 == 1, -1, seed+int64(k))
		if err != nil {
			rec.Notes = append(rec.Notes, err.Error())
			return rec
		}
		tag := 80000 + 10*k
		if v, err := p.ra.EchoInt(app, tag, int64(k)); err != nil || v != int64(k) {
			rec.Notes = append(rec.Notes, fmt.Sprintf("lifecycle %d: EchoInt returned (%v, %v)", k, v, err))
		}
		if _, err := p.ra.EchoInt(own, tag+1, 1); err != nil {
			rec.Notes = append(rec.Notes, fmt.Sprintf("lifecycle %d: EchoInt with an application-defined context returned %v", k, err))
		}
		if _, err := p.rb.Iter(app, tag+2, 2, func(ctx context.Context, i int, s string, xs []int, b bool) (string, error) { return "x", nil }); err != nil {
			rec.Notes = append(rec.Notes, fmt.Sprintf("lifecycle %d: Iter returned %v", k, err))
		}
		// a callback that, while it runs, makes a call which itself passes a callback
		nested := make(chan string, 1)
		go func() {
			v, err := p.rb.Iter(app, tag+7, 1, func(ctx context.Context, i int, s string, xs []int, b bool) (string, error) {
				v, err := p.rb.Iter(app, tag+8, 1, func(ctx context.Context, i int, s string, xs []int, b bool) (string, error) { return "in", nil })
				if err != nil {
					return "", err
				}
				return "out:" + v, nil
			})
			nested <- fmt.Sprintf("%s/%s", v, errText(err))
		}()
		nestedDone := false
		select {
		case r := <-nested:
			nestedDone = true
			if r != "out:in///" {
				rec.Notes = append(rec.Notes, fmt.Sprintf("lifecycle %d: a call made from within a callback (itself passing a callback) returned %q", k, r))
			}
		case <-time.After(2 * time.Second):
			rec.Notes = append(rec.Notes, fmt.Sprintf("lifecycle %d: a call made from within a callback (itself passing a callback) did not complete within 2 s", k))
		}
		inflight := make(chan error, 2)
		go func() { _, err := p.ra.Gate(app, tag+3); inflight <- err }()
		go func() { _, err := p.ra.Gate(own, tag+4); inflight <- err }()
		if !waitUntil(func() bool { return hasInv(p.w, "Gate", tag+3) && hasInv(p.w, "Gate", tag+4) }, 3*time.Second) {
			rec.Notes = append(rec.Notes, fmt.Sprintf("lifecycle %d: handlers never started", k))
		}
		switch k % 3 {
		case 0:
			p.l.CancelA()
			p.l.CancelB()
		case 1:
			p.l.CloseTransport(io.EOF)
		default:
			p.l.CloseTransport(errors.New("transport failed"))
		}
		for _, ch := range []chan error{p.l.ErrA, p.l.ErrB} {
			select {
			case <-ch:
			case <-time.After(3 * time.Second):
				rec.Notes = append(rec.Notes, fmt.Sprintf("lifecycle %d: LINK-DID-NOT-RETURN", k))
			}
		}
		close(p.w.gate(tag + 3))
		close(p.w.gate(tag + 4))
		for i := 0; i < 2; i++ {
			select {
			case <-inflight:
			case <-time.After(3 * time.Second):
				rec.Notes = append(rec.Notes, fmt.Sprintf("lifecycle %d: a call in flight when the link ended did not return", k))
			}
		}
		p.l.CancelA()
		p.l.CancelB()
		p.l.CloseTransport(io.EOF)
		// the application kept the remote: calls on the ended link fail, and leave nothing behind either
		for j := 0; j < 2; j++ {
			for _, cx := range []context.Context{app, own} {
				cctx, ccancel := context.WithTimeout(context.Background(), 2*time.Second)
				done := make(chan error, 1)
				go func() { _, err := p.ra.EchoInt(cx, tag+5+j, 1); done <- err }()
				select {
				case err := <-done:
					late++
					if err == nil {
						rec.Notes = append(rec.Notes, fmt.Sprintf("lifecycle %d: a call on the ended link returned a nil error", k))
					}
				case <-cctx.Done():
					rec.Notes = append(rec.Notes, fmt.Sprintf("lifecycle %d: a call on the ended link did not return", k))
				}
				ccancel()
			}
		}
		if !waitUntil(func() bool { return len(p.a.Remotes()) == 0 && len(p.b.Remotes()) == 0 }, 3*time.Second) {
			rec.Notes = append(rec.Notes, "REMOTE-STILL-ENUMERATED-AFTER-TEARDOWN")
		}
		if !nestedDone {
			select {
			case <-nested:
			case <-time.After(3 * time.Second):
				rec.Notes = append(rec.Notes, fmt.Sprintf("lifecycle %d: that call still has not returned 3 s after its link was torn down", k))
			}
		}
		for _, nd := range []*SysNode[json.RawMessage]{p.a, p.b} {
			if n := nd.Reg.VerifClosureCount(); n != 0 {
				rec.Notes = append(rec.Notes, fmt.Sprintf("CLOSURES-REMAIN count=%d closure registrations on node %s after lifecycle %d was torn down", n, nd.Name, k))
			}
		}
		if len(rec.Notes) > 0 {
			break // the first failing lifecycle is the finding; later ones would only repeat it
		}
	}
	// everything has been torn down: give goroutines that are on their way out the time to leave
	var extra []string
	waitUntil(func() bool {
		extra = extra[:0]
		for id, st := range goroutineStacks() {
			if _, was := before[id]; !was && !strings.Contains(st, "harness.FamLifecycle(") && !strings.Contains(st, "harness.guard(") {
				extra = append(extra, st)
			}
		}
		return len(extra) == 0
	}, 3*time.Second)
	if len(extra) > 0 {
		kinds := map[string]int{}
		for _, st := range extra {
			lines := strings.Split(st, "\n")
			top := "?"
			if len(lines) > 1 {
				top = strings.TrimSpace(lines[1])
			}
			kinds[top]++
		}
		var ks []string
		for k, n := range kinds {
			ks = append(ks, fmt.Sprintf("%dx %s", n, k))
		}
		sort.Strings(ks)
		rec.Notes = append(rec.Notes, fmt.Sprintf("GOROUTINES-REMAIN %d goroutines started during %d link lifecycles are still running 3 s after every link was torn down: %s",
			len(extra), rounds, strings.Join(ks, "; ")))
	}
	if n := ctxChildren(app); n > 0 {
		rec.Notes = append(rec.Notes, fmt.Sprintf("CONTEXT-CHILDREN-REMAIN %d contexts derived inside panrpc still hang off the application's context after %d link lifecycles (%d calls on ended links)", n, rounds, late))
	}
	rec.Calls = append(rec.Calls, SysCall{Tag: 80000, From: "A", Method: "Lifecycles", Ret: fmt.Sprint(rounds), Arg: fmt.Sprint(late), Extra: fmt.Sprint(ctxChildren(app)), Done: true})
	return rec
}

// FamEarlyCancel — a link whose context ends very early: it is already cancelled when Link is called
// (variant 0), or it is cancelled from inside the link's own connect notification (variant 1: e.g. an
// application enforcing a connection limit). Whatever was announced as connected must be announced as
// disconnected, Link returns, and nothing stays enumerated.
func FamEarlyCancel(seed int64, variant int) SysRecord {
	c := jsonRawCodec()
	what := map[int]string{0: "link context already cancelled when Link is called", 1: "link context cancelled from inside the link's connect notification"}[variant%2]
	rec := SysRecord{Family: "earlycancel", Config: c.Name + " " + what, Seed: seed}
	w := newWorld()
	a, b := NewSysNode[json.RawMessage](w, "A"), NewSysNode[json.RawMessage](w, "B")
	parent, pcancel := context.WithCancel(context.Background())
	defer pcancel()
	ready := make(chan struct{})
	var l *SysLink[json.RawMessage]
	if variant%2 == 0 {
		pcancel()
	} else {
		a.SharedHooks = &rpc.LinkHooks{
			OnClientConnect: func(id string) {
				w.log(SysEvent{Node: "A", Kind: "hook", Method: "link-connect", Remote: id})
				<-ready
				l.CancelA()
			},
			OnClientDisconnect: func(id string) { w.log(SysEvent{Node: "A", Kind: "hook", Method: "link-disconnect", Remote: id}) },
		}
	}
	l = ConnectCtx(parent, w, a, b, c, seed%2 == 1, -1, seed)
	close(ready)
	select {
	case <-l.ErrA:
	case <-time.After(3 * time.Second):
		rec.Notes = append(rec.Notes, "LINK-DID-NOT-RETURN although its context is cancelled")
	}
	// the peer notices (its reads fail) and goes away too
	l.CloseTransport(io.EOF)
	l.CancelB()
	select {
	case <-l.ErrB:
	case <-time.After(3 * time.Second):
		rec.Notes = append(rec.Notes, "LINK-DID-NOT-RETURN on the peer's side")
	}
	settled := waitUntil(func() bool {
		n := map[string]int{}
		for _, e := range w.Events() {
			if e.Kind == "hook" && e.Node == "A" {
				n[e.Method]++
			}
		}
		return n["connect"] == n["disconnect"] && n["link-connect"] == n["link-disconnect"] && len(a.Remotes()) == 0
	}, 3*time.Second)
	if !settled {
		n := map[string]int{}
		for _, e := range w.Events() {
			if e.Kind == "hook" && e.Node == "A" {
				n[e.Method]++
			}
		}
		rec.Notes = append(rec.Notes, fmt.Sprintf("EARLY-CANCEL 3 s after Link returned and the transport was closed: %d connect / %d disconnect notifications (registry-wide), %d / %d (per link), %d remote(s) still enumerated",
			n["connect"], n["disconnect"], n["link-connect"], n["link-disconnect"], len(a.Remotes())))
	}
	rec.Events = w.Events()
	return rec
}

// FamEnumPanic — a handler enumerates the remotes of its registry and panics inside the callback. The panic is
// contained (it ends that link with an error); afterwards the link is announced as disconnected, the
// enumeration still works and is empty.
func FamEnumPanic(seed int64) SysRecord {
	c := jsonRawCodec()
	rec := SysRecord{Family: "earlycancel", Config: c.Name + " a handler panics inside a ForRemotes callback", Seed: seed}
	p, err := newPair(c, seed%2 == 1, -1, seed)
	if err != nil {
		rec.Notes = append(rec.Notes, err.Error())
		return rec
	}
	ctx, cancel := context.WithTimeout(context.Background(), 5*time.Second)
	defer cancel()
	p.ra.EnumPanic(ctx, 7800) // B's handler panics: B's link ends
	p.l.CancelA()
	p.l.CancelB()
	p.l.CloseTransport(io.EOF)
	for _, ch := range []chan error{p.l.ErrA, p.l.ErrB} {
		select {
		case <-ch:
		case <-time.After(3 * time.Second):
			rec.Notes = append(rec.Notes, "LINK-DID-NOT-RETURN")
		}
	}
	enumDone := make(chan int, 1)
	go func() { enumDone <- len(p.b.Remotes()) }()
	select {
	case n := <-enumDone:
		_ = n
	case <-time.After(2 * time.Second):
		rec.Notes = append(rec.Notes, "ENUM-PANIC after a handler panicked inside a ForRemotes callback, ForRemotes of that registry blocks forever (the registry is still locked)")
		rec.Events = p.w.Events()
		return rec
	}
	settled := waitUntil(func() bool {
		n := map[string]int{}
		for _, e := range p.w.Events() {
			if e.Kind == "hook" && e.Node == "B" {
				n[e.Method]++
			}
		}
		return n["connect"] == n["disconnect"] && n["link-connect"] == n["link-disconnect"] && len(p.b.Remotes()) == 0
	}, 3*time.Second)
	if !settled {
		rec.Notes = append(rec.Notes, "ENUM-PANIC after a handler panicked inside a ForRemotes callback and the link ended, the disconnect notifications are missing or the remote is still enumerated")
	}
	rec.Events = p.w.Events()
	return rec
}
