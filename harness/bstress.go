package harness

// bstress.go — real-scheduler stress of the Broadcaster for windows that have no yield point
// (e.g. inside a critical section that a change might split): supports the search for a failing
// input; it proves nothing.

import (
	"sync/atomic"
	"os"
	"encoding/json"
	"context"
	"errors"
	"fmt"
	"runtime"
	"sync"
	"time"

	"github.com/pojntfx/panrpc/go/pkg/utils"
)

type StressResult struct {
	Family     string `json:"family"`
	Iterations int    `json:"iterations"`
	Violates   string `json:"violates,omitempty"`
	Kinds      map[string]int `json:"kinds"`
}

// BcastStress runs up to n rounds of each phase, but no longer than budget per phase: the number of
// rounds actually run is what is reported (a run that hits the budget is not a failure).
func BcastStress(n int, budget time.Duration) StressResult {
	res := StressResult{Family: "bcast-stress", Kinds: map[string]int{}}
	// no operation of the Broadcaster blocks for long in these loops (every blocked receive / publish is released
	// by Close, Free or a cancellation the loop itself performs): no progress for 25 s of real time means an
	// operation is stuck inside the Broadcaster (the goroutines cannot be unwound: report and leave)
	var progress atomic.Int64
	stopWatch := make(chan struct{})
	defer close(stopWatch)
	go func() {
		last, since := int64(-1), time.Now()
		for {
			select {
			case <-stopWatch:
				return
			case <-time.After(time.Second):
			}
			if p := progress.Load(); p != last {
				last, since = p, time.Now()
			} else if time.Since(since) > 25*time.Second {
				fmt.Printf("\nSTRESSHANG an operation of the Broadcaster never returns (stress step %d made no progress for 25 s: a goroutine is stuck inside the Broadcaster, e.g. on its mutex)\n", p)
				os.Exit(8)
			}
		}
	}()
	// a receiver's context may carry a cause (WithCancelCause / WithTimeoutCause / children of those): what the
	// receive function returns when that context ends is the context's error, as for every other context
	for k := 0; k < 4 && res.Violates == ""; k++ {
		b := utils.NewBroadcaster[int]()
		var ctx context.Context
		var end func()
		switch k {
		case 0:
			c, cn := context.WithCancelCause(context.Background())
			ctx, end = c, func() { cn(errors.New("user navigated away")) }
		case 1:
			c, cn := context.WithTimeoutCause(context.Background(), 15*time.Millisecond, errors.New("budget exhausted"))
			ctx, end = c, func() { time.Sleep(25 * time.Millisecond); _ = cn }
		case 2:
			parent, cn := context.WithCancelCause(context.Background())
			c, cn2 := context.WithCancel(parent)
			ctx, end = c, func() { cn(errors.New("parent gave up")); _ = cn2 }
		default:
			c, cn := context.WithCancel(context.Background())
			ctx, end = c, cn
		}
		recv, err := b.Receive("k", ctx)
		if err != nil {
			res.Violates = fmt.Sprintf("cause check %d: Receive failed: %v", k, err)
			break
		}
		got := make(chan error, 1)
		go func() { _, err := recv(); got <- err }()
		time.Sleep(2 * time.Millisecond)
		end()
		select {
		case err := <-got:
			if err != ctx.Err() {
				res.Violates = fmt.Sprintf("a receiver whose context (kind %d: 0 cancelled with a cause, 1 timed out with a cause, 2 child of a context cancelled with a cause, 3 plain) ended got %q from its receive function, expected the context's error %q", k, fmt.Sprint(err), fmt.Sprint(ctx.Err()))
			}
		case <-time.After(3 * time.Second):
			res.Violates = fmt.Sprintf("cause check %d: the receive function still blocks 3 s after its context ended", k)
		}
		b.Close(nil)
	}
	// Close reaches every key, also when some keys were abandoned before (their receiver's context ended, the key
	// was never freed): fresh broadcasters, because the order in which Close visits the keys varies
	for k := 0; k < 80 && res.Violates == ""; k++ {
		b := utils.NewBroadcaster[int]()
		actx, acancel := context.WithCancel(context.Background())
		nkeys := 2 + k%3
		recvA, err := b.Receive("abandoned", actx)
		if err != nil {
			res.Violates = fmt.Sprintf("abandoned-key check %d: Receive failed: %v", k, err)
			acancel()
			break
		}
		adone := make(chan struct{})
		go func() { recvA(); close(adone) }()
		got := make(chan error, nkeys)
		for j := 1; j < nkeys; j++ {
			recv, err := b.Receive(fmt.Sprintf("live%d", j), context.Background())
			if err != nil {
				res.Violates = fmt.Sprintf("abandoned-key check %d: Receive failed: %v", k, err)
				break
			}
			go func() { _, err := recv(); got <- err }()
		}
		time.Sleep(time.Millisecond)
		acancel()
		<-adone
		b.Close(nil)
		for j := 1; j < nkeys && res.Violates == ""; j++ {
			select {
			case <-got:
			case <-time.After(2 * time.Second):
				res.Violates = fmt.Sprintf("round %d: %d keys with a blocked receiver each, one more key abandoned earlier (its receiver's context was cancelled, the key not freed): after Close a receiver of a live key still blocks", k, nkeys-1)
			}
		}
	}
	phaseEnd := time.Now().Add(budget)
	within := func(i int) bool { return i%64 != 0 || time.Now().Before(phaseEnd) }
	for i := 0; i < n && res.Violates == "" && within(i); i++ {
		progress.Add(1)
		res.Iterations++
		progress.Add(1)
		b := utils.NewBroadcaster[int]()
		ctx, cancel := context.WithCancel(context.Background())
		var rr func() (*int, error)
		var regErr error
		var wg sync.WaitGroup
		start := make(chan struct{})
		wg.Add(2)
		go func() {
			defer wg.Done()
			<-start
			for j := 0; j < i%7; j++ {
				runtime.Gosched()
			}
			rr, regErr = b.Receive("k", ctx)
		}()
		go func() {
			defer wg.Done()
			<-start
			for j := 0; j < (i/7)%7; j++ {
				runtime.Gosched()
			}
			switch i % 3 {
			case 0:
				b.Close(nil)
			case 1:
				b.Free("k", nil)
				b.Close(nil)
			default:
				go b.Publish("k", 1)
				b.Close(nil)
			}
		}()
		close(start)
		wg.Wait()
		if regErr != nil {
			res.Kinds["refused"]++
			if !errors.Is(regErr, utils.ErrClosed) {
				res.Violates = fmt.Sprintf("iteration %d: Receive failed with %v", i, regErr)
			}
			cancel()
			continue
		}
		// the broadcaster is closed by now: the receive function must return (value or closed), not block
		done := make(chan error, 1)
		go func() { _, err := rr(); done <- err }()
		select {
		case err := <-done:
			if err == nil {
				res.Kinds["value"]++
			} else {
				res.Kinds["closed"]++
			}
		case <-time.After(300 * time.Millisecond):
			res.Violates = fmt.Sprintf("iteration %d (variant %d): a receive function registered concurrently with Close still blocks although the broadcaster is closed", i, i%3)
		}
		cancel()
	}
	// many pending receivers whose owners free their keys as soon as they are woken, while Close walks the table
	phaseEnd = time.Now().Add(budget)
	for i := 0; i < n/200+3 && res.Violates == "" && time.Now().Before(phaseEnd); i++ {
		progress.Add(1)
		b := utils.NewBroadcaster[int]()
		const many = 192
		var wg sync.WaitGroup
		ready := make(chan struct{}, many)
		for k := 0; k < many; k++ {
			key := fmt.Sprintf("k%d", k)
			rr, err := b.Receive(key, context.Background())
			if err != nil {
				res.Violates = fmt.Sprintf("mass round %d: Receive failed: %v", i, err)
				break
			}
			wg.Add(1)
			go func() {
				defer wg.Done()
				ready <- struct{}{}
				rr()
				b.Free(key, context.Canceled)
			}()
		}
		for k := 0; k < many; k++ {
			<-ready
		}
		b.Close(nil)
		done := make(chan struct{})
		go func() { wg.Wait(); close(done) }()
		select {
		case <-done:
			res.Kinds["mass-close"]++
		case <-time.After(3 * time.Second):
			res.Violates = fmt.Sprintf("mass round %d: receivers still blocked 3 s after Close", i)
		}
	}
	// Free racing with Free followed by Receive on the same key: whatever the order, a subscription that
	// exists afterwards is known to the table, so Close releases its receive function
	phaseEnd = time.Now().Add(budget)
	for i := 0; i < n && res.Violates == "" && within(i); i++ {
		progress.Add(1)
		res.Kinds["free-race-rounds"]++
		b := utils.NewBroadcaster[int]()
		if _, err := b.Receive("k", context.Background()); err != nil {
			res.Violates = fmt.Sprintf("free-race round %d: Receive failed: %v", i, err)
			break
		}
		var rr func() (*int, error)
		var regErr error
		var wg sync.WaitGroup
		start := make(chan struct{})
		wg.Add(2)
		go func() {
			defer wg.Done()
			<-start
			for j := 0; j < i%5; j++ {
				runtime.Gosched()
			}
			b.Free("k", nil)
		}()
		go func() {
			defer wg.Done()
			<-start
			for j := 0; j < (i/5)%5; j++ {
				runtime.Gosched()
			}
			b.Free("k", nil)
			rr, regErr = b.Receive("k", context.Background())
		}()
		close(start)
		wg.Wait()
		if regErr != nil {
			res.Violates = fmt.Sprintf("free-race round %d: Receive failed with %v", i, regErr)
			break
		}
		b.Close(nil)
		done := make(chan error, 1)
		go func() { _, err := rr(); done <- err }()
		select {
		case <-done:
			res.Kinds["free-race-released"]++
		case <-time.After(300 * time.Millisecond):
			res.Violates = fmt.Sprintf("free-race round %d: Free(k) raced with Free(k); Receive(k): the receive function of the new subscription still blocks after Close (the table lost the subscription without cancelling it)", i)
		}
	}
	// a stale receive function (its key was freed) runs while a value for ANOTHER key is being handed
	// over: it must return its own key's cancellation, never the other key's value
	phaseEnd = time.Now().Add(budget)
	for i := 0; i < n && res.Violates == "" && within(i); i++ {
		progress.Add(1)
		res.Kinds["stale-rounds"]++
		b := utils.NewBroadcaster[string]()
		ctx := context.Background()
		stale, err := b.Receive("a", ctx)
		if err != nil {
			res.Violates = fmt.Sprintf("stale round %d: Receive a failed: %v", i, err)
			break
		}
		b.Free("a", errors.New("freed"))
		fresh, err := b.Receive("b", ctx)
		if err != nil {
			res.Violates = fmt.Sprintf("stale round %d: Receive b failed: %v", i, err)
			break
		}
		go b.Publish("b", "value-for-b")
		for j := 0; j < i%5; j++ {
			runtime.Gosched()
		}
		if i%2 == 0 {
			time.Sleep(50 * time.Microsecond) // let the publisher reach its hand-off
		}
		sdone := make(chan string, 1)
		go func() {
			v, err := stale()
			if err == nil && v != nil {
				sdone <- "value " + *v
			} else {
				sdone <- "error"
			}
		}()
		select {
		case r := <-sdone:
			res.Kinds["stale-"+r[:5]]++
			if r != "error" {
				res.Violates = fmt.Sprintf("stale round %d: the receive function of freed key a returned %q, published on key b", i, r)
			}
		case <-time.After(300 * time.Millisecond):
			res.Violates = fmt.Sprintf("stale round %d: the receive function of a freed key blocks", i)
		}
		if res.Violates == "" {
			fdone := make(chan bool, 1)
			go func() { v, err := fresh(); fdone <- (err == nil && v != nil && *v == "value-for-b") }()
			select {
			case ok := <-fdone:
				if !ok {
					res.Violates = fmt.Sprintf("stale round %d: the receiver of key b did not get the value published on b", i)
				}
			case <-time.After(300 * time.Millisecond):
				res.Violates = fmt.Sprintf("stale round %d: the receiver of key b never got the value published on b", i)
			}
		}
		b.Close(nil)
	}
	return res
}

// ClosureStress — real scheduler, no yield points: many goroutines make closure-carrying calls on one
// registry (registrations, look-ups by the peer's invocations and releases overlap) while a second, raw
// peer floods the same registry with invocations of closure ids that do not exist. Nothing may take the
// process down; every call gets its own closure's result; every bogus invocation is answered with an error.
func ClosureStress(seed int64, workers, perWorker int) SysRecord {
	c := jsonRawCodec()
	rec := SysRecord{Family: "closurestress", Config: c.Name, Seed: seed}
	p, err := newPair(c, false, -1, seed)
	if err != nil {
		rec.Notes = append(rec.Notes, err.Error())
		return rec
	}
	// the raw peer on a second link of A
	actx, acancel := context.WithCancel(context.Background())
	defer acancel()
	reqIn, resIn := newFrameQ[json.RawMessage](), newFrameQ[json.RawMessage]()
	var answered, wrong int64
	var amu sync.Mutex
	aerr := make(chan error, 1)
	go func() {
		aerr <- p.a.Reg.LinkMessage(actx, func(b json.RawMessage) error { return nil },
			func(b json.RawMessage) error {
				var r struct {
					Err string `json:"err"`
				}
				json.Unmarshal(b, &r)
				amu.Lock()
				answered++
				if r.Err != "closure does not exist" {
					wrong++
				}
				amu.Unlock()
				return nil
			}, reqIn.Get, resIn.Get, c.Marshal, c.Unmarshal, nil)
	}()
	stop := make(chan struct{})
	sent := 0
	var fwg sync.WaitGroup
	fwg.Add(1)
	go func() {
		defer fwg.Done()
		for k := 0; ; k++ {
			select {
			case <-stop:
				return
			default:
			}
			reqIn.Put(json.RawMessage(fmt.Sprintf(`{"call":"x%d","function":"CallClosure","args":["bogus-%d",[]]}`, k, k)))
			sent++
			if k%64 == 0 {
				time.Sleep(200 * time.Microsecond)
			}
		}
	}()
	ctx, cancel := context.WithTimeout(context.Background(), 30*time.Second)
	defer cancel()
	var wg sync.WaitGroup
	bad := make(chan string, workers)
	for g := 0; g < workers; g++ {
		wg.Add(1)
		go func() {
			defer wg.Done()
			for k := 0; k < perWorker; k++ {
				want := g*100000 + k
				v, err := p.ra.Delayed(ctx, 9000, func(ctx context.Context, x int) (int, error) { return want, nil })
				if err != nil || v != want {
					select {
					case bad <- fmt.Sprintf("worker %d call %d returned (%d, %v), expected (%d, nil)", g, k, v, err, want):
					default:
					}
					return
				}
			}
		}()
	}
	close(p.w.gate(9000)) // Delayed invokes its closure at once
	if !waitAll(&wg, 40*time.Second) {
		rec.Hang = true
	}
	close(stop)
	fwg.Wait()
	select {
	case m := <-bad:
		rec.Notes = append(rec.Notes, "closure stress: "+m)
	default:
	}
	waitUntil(func() bool { amu.Lock(); defer amu.Unlock(); return answered >= int64(sent) }, 5*time.Second)
	amu.Lock()
	if wrong != 0 || answered < int64(sent) {
		rec.Notes = append(rec.Notes, fmt.Sprintf("closure stress: %d invocations of unknown closure ids were sent, %d answered, %d of them not with 'closure does not exist'", sent, answered, wrong))
	}
	rec.Calls = append(rec.Calls, SysCall{Tag: 9000, From: "A", Method: "ClosureStress", Arg: fmt.Sprintf("%d workers x %d calls, %d bogus invocations", workers, perWorker, sent), Done: true})
	amu.Unlock()
	if n := p.a.Reg.VerifClosureCount(); n != 0 {
		rec.Notes = append(rec.Notes, fmt.Sprintf("CLOSURES-REMAIN count=%d after the closure stress", n))
	}
	acancel()
	reqIn.Close(errors.New("closed"))
	resIn.Close(errors.New("closed"))
	select {
	case <-aerr:
	case <-time.After(3 * time.Second):
	}
	p.close()
	return rec
}
