package harness

// convert.go — direct correspondence cases for convertValue (C11): (generic value, target type) pairs.

import (
	"fmt"
	"math/rand"
	"reflect"
	"strings"

	"github.com/pojntfx/panrpc/go/pkg/rpc"
)

type ConvCase struct {
	Src string `json:"src"` // Coq term of type gval
	Ty  string `json:"ty"`  // Coq term of type gty
	Out string `json:"out"` // ok:<canonical tval> | err | panic:<text>
}

var convStrings = []string{"", "a", "hello", "ü☃"}

func genG(r *rand.Rand, depth int) (any, string) {
	switch x := r.Intn(9); {
	case x == 0:
		return nil, "GNil"
	case x == 1:
		tw := int64(r.Intn(41) - 20)
		return float64(tw) / 2, fmt.Sprintf("(GNum KFloat (%d)%%Z)", tw)
	case x == 2:
		z := int64(r.Intn(2001) - 1000)
		return z, fmt.Sprintf("(GNum KInt (%d)%%Z)", 2*z)
	case x == 3:
		z := uint64(r.Intn(1000))
		return z, fmt.Sprintf("(GNum KUint (%d)%%Z)", 2*z)
	case x == 4:
		b := r.Intn(2) == 0
		return b, fmt.Sprintf("(GBool %v)", b)
	case x == 5:
		i := r.Intn(len(convStrings))
		return convStrings[i], fmt.Sprintf("(GStr %d%%N)", i)
	default:
		if depth <= 0 {
			return []interface{}{}, "(GList [])"
		}
		n := r.Intn(4)
		l := make([]interface{}, n)
		var ts []string
		// mostly homogeneous lists
		hv, _ := genG(r, 0)
		for i := range l {
			var t string
			if r.Intn(5) == 0 {
				l[i], t = genG(r, depth-1)
			} else {
				l[i], t = genLike(r, hv, depth-1)
			}
			ts = append(ts, t)
		}
		return l, "(GList [" + strings.Join(ts, "; ") + "])"
	}
}

func genLike(r *rand.Rand, like any, depth int) (any, string) {
	switch like.(type) {
	case float64:
		tw := int64(r.Intn(41) - 20)
		return float64(tw) / 2, fmt.Sprintf("(GNum KFloat (%d)%%Z)", tw)
	case int64:
		z := int64(r.Intn(2001) - 1000)
		return z, fmt.Sprintf("(GNum KInt (%d)%%Z)", 2*z)
	case bool:
		b := r.Intn(2) == 0
		return b, fmt.Sprintf("(GBool %v)", b)
	case string:
		i := r.Intn(len(convStrings))
		return convStrings[i], fmt.Sprintf("(GStr %d%%N)", i)
	}
	return genG(r, depth)
}

type convTy struct {
	t   reflect.Type
	coq string
}

func convTypes() []convTy {
	i, f, b, s := reflect.TypeOf(int(0)), reflect.TypeOf(float64(0)), reflect.TypeOf(false), reflect.TypeOf("")
	return []convTy{{i, "TInt"}, {f, "TFloat"}, {b, "TBool"}, {s, "TStr"},
		{reflect.SliceOf(i), "(TSlice TInt)"}, {reflect.SliceOf(f), "(TSlice TFloat)"}, {reflect.SliceOf(b), "(TSlice TBool)"},
		{reflect.SliceOf(s), "(TSlice TStr)"}, {reflect.SliceOf(reflect.SliceOf(i)), "(TSlice (TSlice TInt))"},
		{reflect.SliceOf(reflect.SliceOf(s)), "(TSlice (TSlice TStr))"}}
}

func canonT(v reflect.Value, coqTy string) string {
	switch v.Kind() {
	case reflect.Int:
		return fmt.Sprintf("(VInt (%d)%%Z)", v.Int())
	case reflect.Float64:
		return fmt.Sprintf("(VFloat (%d)%%Z)", int64(v.Float()*2))
	case reflect.Bool:
		return fmt.Sprintf("(VBool %v)", v.Bool())
	case reflect.String:
		for i, s := range convStrings {
			if s == v.String() {
				return fmt.Sprintf("(VStr %d%%N)", i)
			}
		}
		return "(VRune 0%Z)" // a rune conversion; compared by class in the checker
	case reflect.Slice:
		inner := strings.TrimSuffix(strings.TrimPrefix(coqTy, "(TSlice "), ")")
		var es []string
		for i := 0; i < v.Len(); i++ {
			es = append(es, canonT(v.Index(i), inner))
		}
		return fmt.Sprintf("(VSlice %s [%s])", inner, strings.Join(es, "; "))
	}
	return "?"
}

func RunConvert(r *rand.Rand, n int) []ConvCase {
	var out []ConvCase
	tys := convTypes()
	// fixed shapes first: nil at every position of a list and of a list of lists, against every target type
	type fixed struct {
		v   any
		coq string
	}
	fx := []fixed{
		{nil, "GNil"},
		{[]interface{}{}, "(GList [])"},
		{[]interface{}{nil}, "(GList [GNil])"},
		{[]interface{}{int64(1), nil, int64(2)}, "(GList [(GNum KInt (2)%Z); GNil; (GNum KInt (4)%Z)])"},
		{[]interface{}{"a", nil}, "(GList [(GStr 1%N); GNil])"},
		{[]interface{}{[]interface{}{"a"}, nil, []interface{}{"hello", "a"}}, "(GList [(GList [(GStr 1%N)]); GNil; (GList [(GStr 2%N); (GStr 1%N)])])"},
		{[]interface{}{[]interface{}{int64(3)}, nil, []interface{}{}}, "(GList [(GList [(GNum KInt (6)%Z)]); GNil; (GList [])])"},
		{[]interface{}{[]interface{}{nil}}, "(GList [(GList [GNil])])"},
		{[]interface{}{nil, []interface{}{float64(1.5), nil}}, "(GList [GNil; (GList [(GNum KFloat (3)%Z); GNil])])"},
	}
	nfx := 0
	if n >= len(fx)*len(tys) {
		nfx = len(fx) * len(tys)
	}
	for k := 0; k < n; k++ {
		var src any
		var coq string
		var ty convTy
		if k < nfx {
			src, coq, ty = fx[k/len(tys)].v, fx[k/len(tys)].coq, tys[k%len(tys)]
		} else {
			src, coq = genG(r, 2)
			ty = tys[r.Intn(len(tys))]
		}
		c := ConvCase{Src: coq, Ty: ty.coq}
		func() {
			defer func() {
				if e := recover(); e != nil {
					c.Out = "panic:" + fmt.Sprint(e)
				}
			}()
			v, err := rpc.VerifConvertValue(reflect.ValueOf(src), ty.t)
			if err != nil {
				c.Out = "err"
			} else {
				c.Out = "ok:" + canonT(v, ty.coq)
			}
		}()
		out = append(out, c)
	}
	return out
}
