package harness

// peerfuzz.go — C06: a raw peer sends arbitrary frames to one link of a hub; the process must not
// crash or hang, the offending link is answered or ended, and a sibling link keeps working
// (plain calls and closure-carrying calls).

import (
	"context"
	"encoding/json"
	"errors"
	"fmt"
	"math/rand"
	"strings"
	"time"
)

type FuzzCase struct {
	Frames  []string `json:"frames"`
	Stream  bool     `json:"stream"`
	Outcome string   `json:"outcome"` // answered | ended:<error> | silent | hang
	Sibling string   `json:"sibling"` // ok | <what failed>
}

type FuzzRecord struct {
	Family string     `json:"family"`
	Seed   int64      `json:"seed"`
	Cases  []FuzzCase `json:"cases"`
	Notes  []string   `json:"notes,omitempty"`
	Hang   bool       `json:"hang,omitempty"`
}

var fuzzFns = []string{"EchoInt", "EchoStr", "Zero", "Fail", "Nest", "Sub.Ping", "Sub.Deep.Ping", "CallClosure", "Iter", "Keep",
	"", ".", "..", "Sub", "Sub.", ".Sub", "Sub.Deep", "sub.ping", "echoInt", "inv", "peer", "Gate.X", "Sub.Deep.Ping.X", "w", "node", "Sub.w",
	"ünïcode.☃", strings.Repeat("A.", 300) + "B"}

func genFuzzFrame(r *rand.Rand) string {
	q := func(v any) string { b, _ := json.Marshal(v); return string(b) }
	switch x := r.Intn(20); {
	case x < 6: // request with a (possibly odd) function name and argument list
		fn := fuzzFns[r.Intn(len(fuzzFns))]
		var args []any
		switch r.Intn(7) {
		case 0:
			args = []any{}
		case 1:
			args = []any{1, 2}
		case 2:
			args = []any{"str", []int{1}}
		case 3:
			args = []any{nil, nil, nil}
		case 4:
			args = []any{"bogus-closure-id", []any{1, "x", nil}}
		case 5:
			for i := 0; i < 300; i++ {
				args = append(args, i)
			}
		default:
			args = []any{1, map[string]any{"a": []any{1, 2, map[string]any{}}}}
		}
		return fmt.Sprintf(`{"call":%s,"function":%s,"args":%s}`, q(fmt.Sprint("f", r.Intn(5))), q(fn), q(args))
	case x < 9: // type confusion / missing keys
		return []string{`{"call":1,"function":"EchoInt","args":[1,2]}`, `{"call":"a","function":5,"args":[1,2]}`,
			`{"call":"a","function":"EchoInt","args":"notalist"}`, `{"call":"a","function":"EchoInt","args":null}`,
			`{"call":"a","function":"EchoInt"}`, `{"function":"Zero","args":[]}`, `{}`, `null`, `[]`, `"str"`, `123`,
			`{"call":null,"function":null,"args":null}`, `{"call":"a","function":"CallClosure","args":[123,"x"]}`,
			`{"call":"a","function":"CallClosure","args":[]}`, `{"call":"a","function":"CallClosure","args":["bogus",[]]}`}[r.Intn(15)]
	case x < 12: // responses nobody asked for, duplicates, odd types
		return []string{`{"call":"nobody","value":1,"err":""}`, `{"call":"nobody","value":1,"err":"boom"}`, `{"call":"","value":null,"err":""}`,
			`{"call":5,"value":1,"err":""}`, `{"call":"x","value":1,"err":7}`, `{"call":"x"}`, `{"value":1}`}[r.Intn(7)]
	case x < 15: // truncated / syntactically broken
		s := `{"call":"a","function":"EchoInt","args":[1,2]}`
		return s[:1+r.Intn(len(s)-1)]
	default: // random bytes
		b := make([]byte, 1+r.Intn(40))
		r.Read(b)
		return string(b)
	}
}

func FamPeerFuzz(seed int64, n int) FuzzRecord {
	r := rand.New(rand.NewSource(seed))
	rec := FuzzRecord{Family: "peerfuzz", Seed: seed}
	w := newWorld()
	hub := NewSysNode[json.RawMessage](w, "H")
	sib := NewSysNode[json.RawMessage](w, "S")
	c := jsonRawCodec()
	sl := Connect(w, hub, sib, c, false, 0, seed)
	if !WaitRemotes(hub, 1) || !WaitRemotes(sib, 1) {
		rec.Notes = append(rec.Notes, "sibling link did not come up")
		return rec
	}
	var sibRem, hubRem sysRemote
	for _, x := range sib.Remotes() {
		sibRem = x
	}
	for _, x := range hub.Remotes() {
		hubRem = x
	}
	probe := func() string {
		done := make(chan string, 1)
		go func() {
			ctx, cancel := context.WithTimeout(context.Background(), 3*time.Second)
			defer cancel()
			if v, err := sibRem.EchoInt(ctx, 1, 41); err != nil || v != 41 {
				done <- fmt.Sprintf("plain call on the sibling link returned (%d, %v)", v, err)
				return
			}
			if v, err := sibRem.Iter(ctx, 2, 1, func(ctx context.Context, i int, s string, xs []int, b bool) (string, error) { return "s", nil }); err != nil || v != "s/" {
				done <- fmt.Sprintf("closure-carrying call on the sibling link returned (%q, %v)", v, err)
				return
			}
			// the hub itself passes a closure over the sibling link (its own closure table must still work)
			if v, err := hubRem.Iter(ctx, 3, 1, func(ctx context.Context, i int, s string, xs []int, b bool) (string, error) { return "h", nil }); err != nil || v != "h/" {
				done <- fmt.Sprintf("closure-carrying call from the hub over the sibling link returned (%q, %v)", v, err)
				return
			}
			done <- "ok"
		}()
		select {
		case s := <-done:
			return s
		case <-time.After(5 * time.Second):
			return "calls on the sibling link hang"
		}
	}
	// a closure the hub passed over the sibling link stays in flight (the sibling invokes it at the very end):
	// malformed peers on other links come and go meanwhile and must not disturb it
	type dres struct {
		v   int
		err error
	}
	delayed := make(chan dres, 1)
	go func() {
		ctx, cancel := context.WithTimeout(context.Background(), 60*time.Second)
		defer cancel()
		v, err := hubRem.Delayed(ctx, 9000, func(ctx context.Context, x int) (int, error) { return x + 1, nil })
		delayed <- dres{v, err}
	}()
	waitUntil(func() bool { return hasInv(w, "Delayed", 9000) }, 3*time.Second)
	// a peer that answers every call of the hub several times (duplicates race the waiter's clean-up)
	{
		reqOut := make(chan json.RawMessage, 64)
		reqIn, resIn := newFrameQ[json.RawMessage](), newFrameQ[json.RawMessage]()
		ctx, cancel := context.WithCancel(context.Background())
		errc := make(chan error, 1)
		before := hub.Remotes()
		go func() {
			errc <- hub.Reg.LinkMessage(ctx, func(b json.RawMessage) error { reqOut <- b; return nil },
				func(b json.RawMessage) error { return nil }, reqIn.Get, resIn.Get, c.Marshal, c.Unmarshal, nil)
		}()
		WaitRemotes(hub, 2)
		var dup sysRemote
		found := false
		for id, x := range hub.Remotes() {
			if _, ok := before[id]; !ok {
				dup, found = x, true
			}
		}
		go func() {
			for {
				select {
				case b := <-reqOut:
					var q struct {
						Call string            `json:"call"`
						Args []json.RawMessage `json:"args"`
					}
					json.Unmarshal(b, &q)
					val := json.RawMessage("0")
					if len(q.Args) == 2 {
						val = q.Args[1]
					}
					for k := 0; k < 6; k++ {
						resIn.Put(json.RawMessage(fmt.Sprintf(`{"call":%q,"value":%s,"err":""}`, q.Call, val)))
					}
				case <-ctx.Done():
					return
				}
			}
		}()
		if found {
			for k := 0; k < 60; k++ {
				cctx, ccancel := context.WithTimeout(context.Background(), 3*time.Second)
				v, err := dup.EchoInt(cctx, 9100+k, int64(k))
				ccancel()
				if err != nil || v != int64(k) {
					rec.Notes = append(rec.Notes, fmt.Sprintf("a peer that answers every call six times: call %d returned (%d, %v), expected (%d, nil)", k, v, err, k))
					break
				}
			}
		} else {
			rec.Notes = append(rec.Notes, "duplicate-response link did not come up")
		}
		cancel()
		reqIn.Close(errors.New("gone"))
		resIn.Close(errors.New("gone"))
		select {
		case <-errc:
		case <-time.After(3 * time.Second):
			rec.Notes = append(rec.Notes, "duplicate-response link did not return")
		}
	}
	for i := 0; i < n; i++ {
		fc := FuzzCase{Stream: i%4 == 3}
		nf := 1 + r.Intn(3)
		for k := 0; k < nf; k++ {
			fc.Frames = append(fc.Frames, genFuzzFrame(r))
		}
		ctx, cancel := context.WithCancel(context.Background())
		errc := make(chan error, 1)
		answered := make(chan struct{}, 16)
		var closeT func()
		var probeReq func() // sends one more, valid request on the same link
		if !fc.Stream {
			reqIn, resIn := newFrameQ[json.RawMessage](), newFrameQ[json.RawMessage]()
			go func() {
				errc <- hub.Reg.LinkMessage(ctx, func(b json.RawMessage) error { return nil },
					func(b json.RawMessage) error { answered <- struct{}{}; return nil },
					reqIn.Get, resIn.Get, c.Marshal, c.Unmarshal, nil)
			}()
			for k, f := range fc.Frames {
				// requests and responses travel on separate channels in the message API: route by shape
				if strings.Contains(f, `"value"`) || (k%2 == 1 && !strings.Contains(f, `"function"`)) {
					resIn.Put(json.RawMessage(f))
				} else {
					reqIn.Put(json.RawMessage(f))
				}
			}
			closeT = func() { reqIn.Close(errors.New("gone")); resIn.Close(errors.New("gone")) }
			probeReq = func() { reqIn.Put(json.RawMessage(`{"call":"probe","function":"EchoInt","args":[7,7]}`)) }
		} else {
			in, out := newChunkPipe(-1, seed+int64(i)), newChunkPipe(0, 0)
			enc, dec := c.NewEncoder(out), c.NewDecoder(in)
			go func() {
				buf := make([]byte, 4096)
				for {
					if _, err := out.Read(buf); err != nil {
						return
					}
					answered <- struct{}{}
				}
			}()
			go func() { errc <- hub.Reg.LinkStream(ctx, enc, dec, c.Marshal, c.Unmarshal, nil) }()
			for k, f := range fc.Frames {
				switch (i + k) % 5 {
				case 0:
					in.Write([]byte(fmt.Sprintf(`{"request":%s,"response":null}`, f)))
				case 1:
					in.Write([]byte(fmt.Sprintf(`{"request":null,"response":%s}`, f)))
				case 2:
					in.Write([]byte(fmt.Sprintf(`{"request":%s,"response":%s}`, f, f)))
				case 3:
					in.Write([]byte(`{"request":null,"response":null}{}` + "\n"))
					in.Write([]byte(f))
				default:
					in.Write([]byte(f))
				}
			}
			closeT = func() { in.Close(errors.New("gone")); out.Close(errors.New("gone")) }
			probeReq = func() { in.Write([]byte(`{"request":{"call":"probe","function":"EchoInt","args":[7,7]},"response":null}`)) }
		}
		select {
		case <-answered:
			fc.Outcome = "answered"
		case err := <-errc:
			fc.Outcome = "ended:" + errText(err)
			errc <- err
		case <-time.After(30 * time.Millisecond):
			fc.Outcome = "silent"
		}
		// a link that was neither answered nor ended must still be alive: if everything sent so far was well-formed
		// JSON (so that no decoder is left in the middle of a document), one more valid request is answered - or ends the link
		if fc.Outcome == "silent" {
			wellFormed := true
			for _, f := range fc.Frames {
				if !json.Valid([]byte(f)) {
					wellFormed = false
				}
			}
			if wellFormed {
				probeReq()
				select {
				case <-answered:
					fc.Outcome = "silent, then answered"
				case err := <-errc:
					fc.Outcome = "silent, then ended:" + errText(err)
					errc <- err
				case <-time.After(2 * time.Second):
					fc.Outcome = "stalled"
				}
			}
		}
		cancel()
		closeT()
		select {
		case <-errc:
		case <-time.After(3 * time.Second):
			fc.Outcome = "hang"
			rec.Hang = true
		}
		if i%3 == 0 || fc.Outcome == "hang" {
			fc.Sibling = probe()
		} else {
			fc.Sibling = "ok"
		}
		rec.Cases = append(rec.Cases, fc)
		if fc.Sibling != "ok" || fc.Outcome == "hang" {
			break
		}
	}
	if len(rec.Cases) > 0 && rec.Cases[len(rec.Cases)-1].Sibling == "ok" {
		if s := probe(); s != "ok" {
			rec.Notes = append(rec.Notes, "after the fuzz sequence: "+s)
		}
	}
	// now the sibling invokes the closure the hub passed at the very beginning
	close(w.gate(9000))
	select {
	case d := <-delayed:
		if d.err != nil || d.v != 9001 {
			rec.Notes = append(rec.Notes, fmt.Sprintf("a closure the hub passed over the sibling link before the malformed peers came and went no longer works: the call returned (%d, %v), expected (9001, nil)", d.v, d.err))
		}
	case <-time.After(5 * time.Second):
		rec.Notes = append(rec.Notes, "the closure-carrying call over the sibling link did not return")
	}
	sl.CancelA()
	sl.CancelB()
	sl.CloseTransport(errors.New("closed"))
	return rec
}
