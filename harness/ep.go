package harness

// ep.go — window-level scenarios on ONE real registry endpoint linked (LinkMessage) to a raw
// scripted peer played by the harness: every goroutine panrpc starts parks at the verifhook
// labels, the environment delivers frames / faults / cancellations, and after every choice the
// observation (thread statuses, events, table sizes) is recorded for the Coq model (Link.v).

import (
	"context"
	"encoding/json"
	"errors"
	"fmt"
	"math/rand"
	"runtime"
	"sort"
	"strconv"
	"strings"
	"sync"
	"testing"
	"testing/synctest"
	"time"

	"github.com/pojntfx/panrpc/go/pkg/rpc"
	"github.com/pojntfx/panrpc/go/pkg/verifhook"
)

type EpCall struct {
	Ctx     int  `json:"ctx"`
	NRes    int  `json:"nres"`
	Closure bool `json:"closure"`
	Arg     int  `json:"arg"`
}

type EpChoice struct {
	Run string `json:"run,omitempty"` // thread name
	Env string `json:"env,omitempty"` // start deliver-res bad-res fail-res deliver-req bad-req fail-req cancel arm
	I   int    `json:"i,omitempty"`
	ID  int    `json:"id,omitempty"` // call index the response is for (>=1000: bogus id)
	V   int    `json:"v,omitempty"`
	E   int    `json:"e,omitempty"` // app error message number (0 = none)
	F   string `json:"f,omitempty"` // function kind of a delivered request
	N   int    `json:"n,omitempty"` // injected error number / context id / fault kind
	W   int    `json:"w,omitempty"`
}

type EpEvent struct {
	K   string `json:"k"`
	I   int    `json:"i"`
	V   int    `json:"v"`
	E   string `json:"e"`
	F   string `json:"f,omitempty"`
	B   bool   `json:"b,omitempty"`
	B2  bool   `json:"b2,omitempty"`
	Raw string `json:"raw,omitempty"`
}

type EpObs struct {
	Threads  map[string]string `json:"threads"`
	Events   []EpEvent         `json:"events"`
	Pending  int               `json:"pending"`
	BClosed  bool              `json:"bclosed"`
	Closures int               `json:"closures"`
	Remotes  int               `json:"remotes"`
}

type EpStep struct {
	C   EpChoice `json:"c"`
	Obs EpObs    `json:"obs"`
}

type EpCase struct {
	Calls    []EpCall `json:"calls"`
	Trace    []EpStep `json:"trace"`
	Violates string   `json:"violates,omitempty"`
	Leaked   []string `json:"leaked,omitempty"`
	Final    *EpObs   `json:"final,omitempty"` // after teardown
	Final0   *EpObs   `json:"final0,omitempty"` // after teardown, handlers possibly still inside application code
}

type epRemote struct {
	Echo     func(ctx context.Context, x int) (int, error)
	Notify   func(ctx context.Context, x int) error
	EchoCb   func(ctx context.Context, x int, cb func(ctx context.Context, y int) (int, error)) (int, error)
	NotifyCb func(ctx context.Context, x int, cb func(ctx context.Context, y int) (int, error)) error
}

type epLocal struct {
	h *epHarness
}

type epHarness struct {
	s       *Sched
	mu      sync.Mutex
	events  []EpEvent
	callIDs map[string]int // uuid -> call index
	idOf    map[int]string
	faults  [4]int // armed injected error number (0 = none) for write-req, write-res, marshal, unmarshal
	npub    int
	nreq    int
}

func (h *epHarness) log(e EpEvent) {
	h.mu.Lock()
	h.events = append(h.events, e)
	h.mu.Unlock()
}

func (h *epHarness) takeFault(k int) error {
	h.mu.Lock()
	defer h.mu.Unlock()
	if n := h.faults[k]; n != 0 {
		h.faults[k] = 0
		return fmt.Errorf("inj%d", n)
	}
	return nil
}

func (l *epLocal) invoked(name string, x int) {
	th := l.h.s.Current()
	n := -1
	if th != nil {
		fmt.Sscanf(th.Name, "handler:%d", &n)
	}
	l.h.log(EpEvent{K: "inv", I: n, V: x, F: name})
}

func (l *epLocal) Echo(ctx context.Context, x int) (int, error) {
	l.invoked("echo", x)
	return x, nil
}

func (l *epLocal) Notify(ctx context.Context, x int) error {
	l.invoked("notify", x)
	return nil
}

func (l *epLocal) Fail(ctx context.Context, x int, m int) (int, error) {
	l.invoked("fail", x)
	return x, fmt.Errorf("m%d", m)
}

func (l *epLocal) NotifyErr(ctx context.Context, x int, m int) error {
	l.invoked("notifyerr", x)
	return fmt.Errorf("m%d", m)
}

func (l *epLocal) Gated(ctx context.Context, x int) (int, error) {
	l.invoked("gated", x)
	l.h.s.Park("handler.gate", "")
	return x, nil
}

func (l *epLocal) Panic(ctx context.Context, x int) (int, error) {
	l.invoked("panic", x)
	panic(errors.New("boom"))
}

var stackBuf = make([]byte, 1<<20)

func aliveGoids() map[uint64]bool {
	buf := stackBuf
	n := runtime.Stack(buf, true)
	m := map[uint64]bool{}
	for _, line := range strings.Split(string(buf[:n]), "\n") {
		if strings.HasPrefix(line, "goroutine ") {
			f := strings.Fields(line)
			if id, err := strconv.ParseUint(f[1], 10, 64); err == nil {
				m[id] = true
			}
		}
	}
	return m
}

type readResult struct {
	frame json.RawMessage
	err   error
}

// RunEp runs one endpoint scenario; choose gets the step number and the harness (to inspect what is
// possible) and returns the next choice, ok=false to stop.
func RunEp(t *testing.T, calls []EpCall, choose func(step int, v *EpView) (EpChoice, bool), teardown bool) EpCase {
	res := EpCase{Calls: calls}
	synctest.Test(t, func(t *testing.T) {
		s := NewSched()
		h := &epHarness{s: s, callIDs: map[string]int{}, idOf: map[int]string{}}
		ctxs := map[int]context.Context{}
		cancels := map[int]context.CancelFunc{}
		ctxs[0], cancels[0] = context.WithCancel(context.Background())
		for _, c := range calls {
			if _, ok := ctxs[c.Ctx]; !ok {
				if c.Ctx == 3 {
					// context 3 ends by its deadline (fake time of the bubble): "cancel 3" lets the time pass
					ctxs[c.Ctx], cancels[c.Ctx] = context.WithTimeout(context.Background(), time.Hour)
				} else {
					ctxs[c.Ctx], cancels[c.Ctx] = context.WithCancel(context.Background())
				}
			}
		}

		s.Namer = func(label, key string, s *Sched) (string, string) {
			// called with s.mu held
			switch label {
			case "rpc.waiter.start":
				h.mu.Lock()
				i, ok := h.callIDs[key]
				h.mu.Unlock()
				if !ok {
					return "waiter", "waiter:?" + key
				}
				return "waiter", fmt.Sprintf("waiter:%d", i)
			case "bc.publish.enter":
				h.mu.Lock()
				n := h.npub
				h.npub++
				h.mu.Unlock()
				return "pub", fmt.Sprintf("pub:%d", n)
			case "rpc.req.start":
				return "req", "req:" + strings.TrimPrefix(key, "r")
			case "rpc.handler.start":
				return "handler", "handler:" + strings.TrimPrefix(key, "r")
			case "rpc.watcher.start":
				return "watcher", "watcher"
			case "rpc.reqloop.start":
				return "reqloop", "reqloop"
			case "rpc.resloop.start":
				return "resloop", "resloop"
			case "rpc.setup.start":
				return "setup", "setup"
			case "rpc.link.beforeread":
				return "link", "link"
			}
			return "", ""
		}
		s.Active = func(label string) bool {
			switch label {
			case "rpc.watcher.start", "rpc.reqloop.start", "rpc.resloop.start":
				return false
			}
			return true
		}
		var pendingLen func() (int, bool)
		verifhook.SetObjHandler(func(kind string, v any) {
			if kind == "rpc.link.resolver" {
				if b, ok := v.(interface{ VerifLen() (int, bool) }); ok {
					pendingLen = b.VerifLen
				}
			}
		})
		defer verifhook.SetObjHandler(nil)
		verifhook.SetHandler(func(point, key string) {
			if point == "rpc.call.registered" {
				if th := s.Current(); th != nil {
					var i int
					if _, err := fmt.Sscanf(th.Name, "call:%d", &i); err == nil {
						h.mu.Lock()
						h.callIDs[key] = i
						h.idOf[i] = key
						h.mu.Unlock()
					}
				}
			}
			if point == "rpc.seterr.closed" {
				if th := s.Current(); th != nil {
					s.mu.Lock()
					th.Data["seterr"] = key
					s.mu.Unlock()
				}
			}
			s.Park(point, key)
		})
		defer verifhook.SetHandler(nil)

		reqIn := make(chan readResult)
		resIn := make(chan readResult)

		local := &epLocal{h: h}
		reg := rpc.NewRegistry[epRemote, json.RawMessage](local, &rpc.RegistryHooks{
			OnClientConnect:    func(id string) { h.log(EpEvent{K: "hook", B: true, B2: false}) },
			OnClientDisconnect: func(id string) { h.log(EpEvent{K: "hook", B: false, B2: false}) },
		})

		marshal := func(v any) (json.RawMessage, error) {
			if err := h.takeFault(2); err != nil {
				return nil, err
			}
			b, err := json.Marshal(v)
			return b, err
		}
		unmarshal := func(data json.RawMessage, v any) error {
			if err := h.takeFault(3); err != nil {
				return err
			}
			return json.Unmarshal(data, v)
		}
		writeRequest := func(b json.RawMessage) error {
			if err := h.takeFault(0); err != nil {
				return err
			}
			var req struct {
				Call     string            `json:"call"`
				Function string            `json:"function"`
				Args     []json.RawMessage `json:"args"`
			}
			if err := json.Unmarshal(b, &req); err != nil {
				h.log(EpEvent{K: "reqw", I: -1, Raw: string(b)})
				return nil
			}
			h.mu.Lock()
			i, ok := h.callIDs[req.Call]
			h.mu.Unlock()
			if !ok {
				i = -1
			}
			arg := 0
			if len(req.Args) > 0 {
				json.Unmarshal(req.Args[0], &arg)
			}
			h.log(EpEvent{K: "reqw", I: i, V: arg, B: len(req.Args) > 1, F: req.Function, Raw: string(b)})
			return nil
		}
		writeResponse := func(b json.RawMessage) error {
			if err := h.takeFault(1); err != nil {
				return err
			}
			var r struct {
				Call  string          `json:"call"`
				Value json.RawMessage `json:"value"`
				Err   string          `json:"err"`
			}
			json.Unmarshal(b, &r)
			n := -1
			fmt.Sscanf(r.Call, "r%d", &n)
			v := 0
			json.Unmarshal(r.Value, &v)
			h.log(EpEvent{K: "resw", I: n, V: v, E: r.Err, Raw: string(b)})
			return nil
		}
		readRequest := func() (json.RawMessage, error) {
			r := <-reqIn
			return r.frame, r.err
		}
		readResponse := func() (json.RawMessage, error) {
			r := <-resIn
			return r.frame, r.err
		}

		go func() {
			s.Register("link", "link", "")
			err := reg.LinkMessage(ctxs[0], writeRequest, writeResponse, readRequest, readResponse, marshal, unmarshal,
				&rpc.LinkHooks{
					OnClientConnect:    func(id string) { h.log(EpEvent{K: "hook", B: true, B2: true}) },
					OnClientDisconnect: func(id string) { h.log(EpEvent{K: "hook", B: false, B2: true}) },
				})
			h.log(EpEvent{K: "linkret", E: errText(err)})
			s.Finish()
		}()
		synctest.Wait()

		getRemote := func() (epRemote, bool) {
			var r epRemote
			ok := false
			reg.ForRemotes(func(id string, rem epRemote) error {
				r, ok = rem, true
				return nil
			})
			return r, ok
		}

		observe := func() EpObs {
			alive := aliveGoids()
			o := EpObs{Threads: map[string]string{}}
			s.mu.Lock()
			for _, th := range s.Threads {
				st := "blocked"
				switch {
				case th.Done:
					st = "done"
				case th.Parked:
					st = "@" + th.Label
				default:
					if g, ok := th.Data["goid"].(uint64); ok && !alive[g] {
						st = "done"
					}
				}
				o.Threads[th.Name] = st
			}
			s.mu.Unlock()
			h.mu.Lock()
			o.Events = append([]EpEvent{}, h.events...)
			h.mu.Unlock()
			if pendingLen != nil {
				o.Pending, o.BClosed = pendingLen()
			}
			o.Closures = reg.VerifClosureCount()
			n := 0
			reg.ForRemotes(func(id string, rem epRemote) error { n++; return nil })
			o.Remotes = n
			return o
		}

		view := &EpView{h: h, s: s, calls: calls, started: map[int]bool{}, cancelled: map[int]bool{}}
		cb := func(ctx context.Context, y int) (int, error) { return y + 1, nil }

		apply := func(c EpChoice) bool {
			if c.Run != "" {
				th := s.ByName(c.Run)
				if th == nil {
					return false
				}
				if th.Label == "rpc.seterr.closed" {
					s.mu.Lock()
					txt, _ := th.Data["seterr"].(string)
					s.mu.Unlock()
					h.log(EpEvent{K: "report", E: txt})
				}
				return s.Release(th)
			}
			switch c.Env {
			case "start":
				if view.started[c.I] || c.I >= len(calls) {
					return false
				}
				rem, ok := getRemote()
				if !ok {
					return false
				}
				view.started[c.I] = true
				spec := calls[c.I]
				ready := make(chan struct{})
				go func() {
					s.Register(fmt.Sprintf("call:%d", c.I), "call", "")
					close(ready)
					var v int
					var err error
					switch {
					case spec.NRes == 2 && !spec.Closure:
						v, err = rem.Echo(ctxs[spec.Ctx], spec.Arg)
					case spec.NRes == 2 && spec.Closure:
						v, err = rem.EchoCb(ctxs[spec.Ctx], spec.Arg, cb)
					case spec.NRes == 1 && !spec.Closure:
						err = rem.Notify(ctxs[spec.Ctx], spec.Arg)
					default:
						err = rem.NotifyCb(ctxs[spec.Ctx], spec.Arg, cb)
					}
					h.log(EpEvent{K: "ret", I: c.I, V: v, E: errText(err)})
					s.Finish()
				}()
				<-ready
			case "deliver-res":
				if !view.loopReading("resloop") {
					return false
				}
				id := fmt.Sprintf("bogus%d", c.ID)
				h.mu.Lock()
				if x, ok := h.idOf[c.ID]; ok {
					id = x
				}
				h.mu.Unlock()
				e := ""
				if c.E != 0 {
					e = fmt.Sprintf("m%d", c.E)
				}
				b, _ := json.Marshal(map[string]any{"call": id, "value": c.V, "err": e})
				if !trySend(resIn, readResult{frame: b}) {
					return false
				}
			case "bad-res":
				if !view.loopReading("resloop") {
					return false
				}
				if !trySend(resIn, readResult{frame: json.RawMessage(`{"call": 5, "value": `)}) {
					return false
				}
			case "fail-res":
				if !view.loopReading("resloop") {
					return false
				}
				if !trySend(resIn, readResult{err: fmt.Errorf("inj%d", c.N)}) {
					return false
				}
			case "deliver-req":
				if !view.loopReading("reqloop") {
					return false
				}
				h.mu.Lock()
				n := h.nreq
				h.mu.Unlock()
				var fn string
				var args []any
				switch c.F {
				case "echo":
					fn, args = "Echo", []any{c.V}
				case "notify":
					fn, args = "Notify", []any{c.V}
				case "fail":
					fn, args = "Fail", []any{c.V, c.E}
				case "notifyerr":
					fn, args = "NotifyErr", []any{c.V, c.E}
				case "gated":
					fn, args = "Gated", []any{c.V}
				case "panic":
					fn, args = "Panic", []any{c.V}
				case "unknown":
					fn, args = "Nope", []any{c.V}
				case "badargc":
					fn, args = "Echo", []any{c.V, 1}
				case "badarg":
					fn, args = "Echo", []any{"str"}
				}
				rawArgs := []json.RawMessage{}
				for _, a := range args {
					x, _ := json.Marshal(a)
					rawArgs = append(rawArgs, x)
				}
				b, _ := json.Marshal(map[string]any{"call": fmt.Sprintf("r%d", n), "function": fn, "args": rawArgs})
				if !trySend(reqIn, readResult{frame: b}) {
					return false
				}
				h.mu.Lock()
				h.nreq++
				h.mu.Unlock()
			case "bad-req":
				if !view.loopReading("reqloop") {
					return false
				}
				if !trySend(reqIn, readResult{frame: json.RawMessage(`[1, 2`)}) {
					return false
				}
			case "fail-req":
				if !view.loopReading("reqloop") {
					return false
				}
				if !trySend(reqIn, readResult{err: fmt.Errorf("inj%d", c.N)}) {
					return false
				}
			case "cancel":
				if view.cancelled[c.N] || cancels[c.N] == nil {
					return false
				}
				view.cancelled[c.N] = true
				if c.N == 3 {
					time.Sleep(2 * time.Hour) // fake time: the deadline of context 3 passes
				} else {
					cancels[c.N]()
				}
			case "arm":
				h.mu.Lock()
				h.faults[c.W] = c.N
				h.mu.Unlock()
			default:
				return false
			}
			return true
		}

		nfail := 0
		for step := 0; step < 600; step++ {
			c, ok := choose(step, view)
			if !ok {
				break
			}
			if !apply(c) {
				nfail++
				if nfail > 50 {
					break
				}
				continue
			}
			synctest.Wait()
			o := observe()
			view.last = &o
			res.Trace = append(res.Trace, EpStep{C: c, Obs: o})
		}

		// ---- teardown: cancel everything, make reads fail, release every parked goroutine of panrpc;
		// handlers that are still inside application code (handler.gate) stay there for now ----
		s.AbortKeep("handler.gate")
		for _, c := range cancels {
			c()
		}
		synctest.Wait()
		// reads fail from now on
		done := make(chan struct{})
		go func() {
			for {
				select {
				case reqIn <- readResult{err: errors.New("teardown")}:
				case resIn <- readResult{err: errors.New("teardown")}:
				case <-done:
					return
				}
			}
		}()
		synctest.Wait()
		if teardown {
			// nothing may be left of the link except handlers still executing application code
			o := observe()
			res.Final0 = &o
		}
		s.Abort() // the application lets its handlers return
		synctest.Wait()
		close(done)
		synctest.Wait()
		if teardown {
			o := observe()
			res.Final = &o
		}
		for _, g := range PanrpcGoroutines() {
			if strings.Contains(g, "verifharness.RunEp") && !strings.Contains(g, "pkg/rpc.Registry") {
				continue
			}
			lines := strings.Split(g, "\n")
			short := lines[0]
			for _, l := range lines {
				if strings.Contains(l, "panrpc/go/pkg/") && strings.HasPrefix(l, "\t") {
					short += " " + strings.TrimSpace(l)
					break
				}
			}
			res.Leaked = append(res.Leaked, short)
		}
		if len(res.Leaked) > 0 {
			sort.Strings(res.Leaked)
			// leaked goroutines would make the bubble panic; report and bail out through a panic the
			// parent recognises
			b, _ := json.Marshal(map[string]any{"calls": res.Calls, "choices": choicesOf(res.Trace), "leaked": res.Leaked})
			panic("LEAK " + string(b) + " KAEL")
		}
	})
	return res
}

// trySend hands a read result to a reader loop that is blocked in its read; false = nobody is reading
func trySend(ch chan readResult, r readResult) bool {
	select {
	case ch <- r:
		return true
	default:
		return false
	}
}

func errText(err error) string {
	if err == nil {
		return ""
	}
	return err.Error()
}

// EpView is what a chooser may look at
type EpView struct {
	h         *epHarness
	s         *Sched
	calls     []EpCall
	started   map[int]bool
	cancelled map[int]bool
	last      *EpObs
}

func (v *EpView) loopReading(name string) bool {
	th := v.s.ByName(name)
	if th == nil {
		return false
	}
	v.s.mu.Lock()
	defer v.s.mu.Unlock()
	if th.Parked || th.Done {
		return false
	}
	if g, ok := th.Data["goid"].(uint64); ok && !aliveGoids()[g] {
		return false
	}
	return true
}

func (v *EpView) Runnable() []string {
	var r []string
	for _, th := range v.s.Runnable() {
		r = append(r, th.Name)
	}
	sort.Strings(r)
	return r
}

func (v *EpView) LinkUp() bool { return v.s.ByName("resloop") != nil && v.s.ByName("reqloop") != nil }

// ---- generation ----

func GenEpCalls(r *rand.Rand) []EpCall {
	n := r.Intn(4)
	if r.Intn(10) == 0 {
		n = 4 + r.Intn(3)
	}
	calls := make([]EpCall, n)
	for i := range calls {
		calls[i] = EpCall{Ctx: []int{0, 1, 1, 2, 2, 3}[r.Intn(6)], NRes: 1 + r.Intn(2), Closure: r.Intn(4) == 0, Arg: 10 + i}
	}
	return calls
}

var epFns = []string{"echo", "echo", "notify", "fail", "notifyerr", "gated", "gated", "panic", "unknown", "badargc", "badarg"}

// RandomEpChooser: mostly-valid workloads with a small rate of faults and cancellations
func RandomEpChooser(r *rand.Rand, calls []EpCall, maxSteps int, faultRate int) func(int, *EpView) (EpChoice, bool) {
	nreq := 0
	ndeliv := 0
	lateLink := r.Intn(3) == 0
	keepGated := r.Intn(2) == 0 // handlers that are inside application code stay there until after the teardown
	return func(step int, v *EpView) (EpChoice, bool) {
		runnable := v.Runnable()
		if lateLink && step < maxSteps*2/3 {
			// keep Link parked before it reads the fatal slot for most of the workload
			var rr []string
			for _, n := range runnable {
				if n != "link" {
					rr = append(rr, n)
				}
			}
			runnable = rr
		}
		if step >= maxSteps {
			// drain: only run what is runnable until quiescence
			if keepGated {
				var rr []string
				for _, n := range runnable {
					if th := v.s.ByName(n); th != nil && th.Label == "handler.gate" {
						continue
					}
					rr = append(rr, n)
				}
				runnable = rr
			}
			if len(runnable) == 0 || step >= maxSteps+300 {
				return EpChoice{}, false
			}
			return EpChoice{Run: runnable[r.Intn(len(runnable))]}, true
		}
		var opts []EpChoice
		for _, n := range runnable {
			// running threads is the most common choice
			opts = append(opts, EpChoice{Run: n}, EpChoice{Run: n}, EpChoice{Run: n})
		}
		if v.LinkUp() {
			for i := range calls {
				if !v.started[i] {
					opts = append(opts, EpChoice{Env: "start", I: i}, EpChoice{Env: "start", I: i})
				}
			}
			if v.loopReading("resloop") {
				for i := range calls {
					if v.started[i] && ndeliv < 8 {
						e := 0
						if r.Intn(4) == 0 {
							e = 1 + r.Intn(3)
						}
						opts = append(opts, EpChoice{Env: "deliver-res", ID: i, V: 100 + i, E: e})
					}
				}
				if r.Intn(100) < faultRate {
					opts = append(opts, EpChoice{Env: "deliver-res", ID: 1000 + r.Intn(3), V: 7})
					opts = append(opts, EpChoice{Env: "bad-res"}, EpChoice{Env: "fail-res", N: 1 + r.Intn(3)})
				}
			}
			if v.loopReading("reqloop") && nreq < 5 {
				f := epFns[r.Intn(len(epFns))]
				if (f == "panic" || f == "unknown" || f == "badargc" || f == "badarg") && r.Intn(100) >= faultRate*2 {
					f = "echo"
				}
				opts = append(opts, EpChoice{Env: "deliver-req", F: f, V: 50 + nreq, E: 1 + r.Intn(3)})
				if r.Intn(100) < faultRate {
					opts = append(opts, EpChoice{Env: "bad-req"}, EpChoice{Env: "fail-req", N: 1 + r.Intn(3)})
				}
			}
		}
		if faultRate == 0 && r.Intn(100) < 14 {
			// fault-free workloads still cancel individual calls (never the link), at any moment incl. before the call starts
			for c := 1; c <= 3; c++ {
				if !v.cancelled[c] {
					opts = append(opts, EpChoice{Env: "cancel", N: c})
				}
			}
		}
		if r.Intn(100) < faultRate {
			for c := 0; c <= 3; c++ {
				if !v.cancelled[c] && (c != 0 || r.Intn(3) == 0) {
					opts = append(opts, EpChoice{Env: "cancel", N: c})
				}
			}
			opts = append(opts, EpChoice{Env: "arm", W: r.Intn(4), N: 1 + r.Intn(3)})
		}
		if len(opts) == 0 {
			return EpChoice{}, false
		}
		c := opts[r.Intn(len(opts))]
		if c.Env == "deliver-req" {
			nreq++
		}
		if c.Env == "deliver-res" {
			ndeliv++
		}
		return c, true
	}
}

func FixedEpChooser(cs []EpChoice) func(int, *EpView) (EpChoice, bool) {
	return func(step int, v *EpView) (EpChoice, bool) {
		if step >= len(cs) {
			return EpChoice{}, false
		}
		return cs[step], true
	}
}

func choicesOf(tr []EpStep) []EpChoice {
	var cs []EpChoice
	for _, st := range tr {
		cs = append(cs, st.C)
	}
	return cs
}
