package harness

// sys.go — black-box (environment-level) scenarios with two or more REAL registries linked over
// harness-owned transports: message or stream API, JSON / CBOR, raw or byte-string payloads,
// frames optionally held and released in a seeded order.  Real goroutines, real scheduler.

import (
	"bytes"
	"context"
	"encoding/json"
	"errors"
	"fmt"
	"io"
	"math/rand"
	"reflect"
	"sort"
	"strings"
	"sync"
	"time"

	"github.com/fxamacker/cbor/v2"
	"github.com/pojntfx/panrpc/go/pkg/rpc"
)

type Rec struct {
	A int                `json:"a" cbor:"a"`
	B string             `json:"b" cbor:"b"`
	C []string           `json:"c" cbor:"c"`
	D *Rec               `json:"d" cbor:"d"`
	E map[string]float64 `json:"e" cbor:"e"`
	F bool               `json:"f" cbor:"f"`
}

type cbT = func(ctx context.Context, i int, s string, xs []int, b bool) (string, error)
type cbE = func(ctx context.Context, x int) error
type cbI = func(ctx context.Context, x int) (int, error)

type sysRemote struct {
	EchoInt    func(ctx context.Context, tag int, x int64) (int64, error)
	EchoStr    func(ctx context.Context, tag int, s string) (string, error)
	EchoBytes  func(ctx context.Context, tag int, b []byte) ([]byte, error)
	EchoSlice  func(ctx context.Context, tag int, xs []int) ([]int, error)
	EchoMap    func(ctx context.Context, tag int, m map[string]int) (map[string]int, error)
	EchoStruct func(ctx context.Context, tag int, p Rec) (Rec, error)
	EchoPtr    func(ctx context.Context, tag int, p *Rec) (*Rec, error)
	Multi      func(ctx context.Context, tag int, a int, b string, c []byte, d Rec, e *Rec, f []float64, g bool) (string, error)
	Zero       func(ctx context.Context) error
	Fail       func(ctx context.Context, tag int, msg string) error
	FailVal    func(ctx context.Context, tag int, v int, msg string) (int, error)
	Nest       func(ctx context.Context, tag int, depth int) (int, error)
	Gate       func(ctx context.Context, tag int) (int, error)
	Iter       func(ctx context.Context, tag int, n int, cb cbT) (string, error)
	IterErr    func(ctx context.Context, tag int, x int, cb cbE) error
	Keep       func(ctx context.Context, tag int, cb cbI) error
	Delayed    func(ctx context.Context, tag int, cb cbI) (int, error)
	CbFirst    func(ctx context.Context, tag int, cb cbI, v any) error
	WhoAmI     func(ctx context.Context, tag int) (string, error)
	// second generation of workloads
	PartialStruct func(ctx context.Context, tag int, p Rec, msg string) (Rec, error)
	FailConcrete  func(ctx context.Context, tag int, msg string) error
	FailWrap      func(ctx context.Context, tag int, kind int) error
	FailWrapVal   func(ctx context.Context, tag int, kind int) (int, error)
	IterCtx       func(ctx context.Context, tag int, cb cbI) (string, error)
	GateCtx       func(ctx context.Context, tag int) (int, error)
	IterNamed     func(ctx context.Context, tag int, cb cbN) (string, error)
	IterCount     func(ctx context.Context, tag int, cb cbC) (string, error)
	Relay         func(ctx context.Context, tag int) (int, error)
	BadCb         func(ctx context.Context, tag int, cb func(ctx context.Context, msg string)) error // the closure parameter has no error result
	// third generation
	EchoStatus    func(ctx context.Context, tag int, s Status) (Status, error)   // a result type that has an Error method itself
	EchoStatusPtr func(ctx context.Context, tag int, s *Status) (*Status, error)
	Greet         func(ctx context.Context, tag int, name string) (string, error) // the handler returns a value only
	Tags          func(ctx context.Context, tag int) (map[string]int, error)
	Mirror        func(ctx context.Context, tag int, p *Rec) (*Rec, error)
	FailFancy     func(ctx context.Context, tag int, msg string) error            // an error value no serializer can encode
	Notify0       func(ctx context.Context, tag int) error                        // the handler returns nothing at all
	Call0         func(ctx context.Context, tag int, cb cb0) (int, error)         // a closure that takes only a context
	KeepAndCall   func(ctx context.Context, tag int, cb cbI) (int, error)         // keeps the callable and invokes it once
	OpenLink      func(ctx context.Context, tag int) (int, error)                 // the handler opens another link with its request's context
	// fourth generation
	IterNilErr    func(ctx context.Context, tag int, cb cbS) (string, error)      // a closure that returns a nil value together with an error
	EchoLevel     func(ctx context.Context, tag int, l Level) (Level, error)      // a defined string type with its own text encoding
	EchoNamed     func(ctx context.Context, tag int, c Count, n Name) (Count, error)
	Two           func(ctx context.Context, tag int, f cbI, g cbI) (string, error)
	IterDerived   func(ctx context.Context, tag int, cb cbT) (string, error)
	// fifth generation
	Mixed         func(ctx context.Context, tag int, f cbI, n int, g cbI, s string) (string, error) // function arguments between plain ones
	EchoSession   func(ctx context.Context, tag int, s Session) (Session, error)                    // a type whose pointer has its own JSON encoding
	// sixth generation
	Spawn         func(ctx context.Context, tag int) (int, error)                 // starts a call back to the peer on a goroutine of its own and returns at once
	EchoAny       func(ctx context.Context, tag int, v any) (any, error)          // an interface-typed parameter (nil is a legal value)
	FailTypedNil  func(ctx context.Context, tag int) error                        // returns a nil POINTER of an error type: a non-nil error whose Error works on nil
	FailFormatted func(ctx context.Context, tag int, msg string) error            // an error type that also implements fmt.Formatter (prints something else)
	KeepWait      func(ctx context.Context, tag int, cb cbI) (int, error)         // keeps the callable and stays in flight until its gate opens
	RelayCb       func(ctx context.Context, tag int, kept int) (int, error)       // invokes the callable kept under `kept` (another link's) with THIS request's context
	EnumPanic     func(ctx context.Context, tag int) error                        // enumerates the remotes and panics inside the enumeration callback
	IterPreCancelled func(ctx context.Context, tag int, cb cbI) (string, error)   // invokes the callable with a context that is already cancelled, then with a live one
	Shapes        func(ctx context.Context, tag int, f cbI, done cbE) (string, error) // two callables of different result shapes, the error-only one last
	EchoLease     func(ctx context.Context, tag int, l Lease) (Lease, error)        // an argument whose type happens to implement context.Context
	IterNilCtx    func(ctx context.Context, tag int, cb cbI) (string, error)      // invokes the callable from two goroutines at once, both with a nil context
	GateFail      func(ctx context.Context, tag int, msg string) error            // waits for its gate, then returns an ordinary error
	FailOwn       func(ctx context.Context, tag int, code int) error              // the handler's only result has an interface type of its own that embeds error
	CallBackIter  func(ctx context.Context, tag int) (string, error)              // calls the peer back passing a function, returns what the peer's iteration yields
	SpawnEcho     func(ctx context.Context, tag int) (int, error)                 // returns at once; afterwards calls the peer back with the context it was given
	Groups        func(ctx context.Context, tag int, cb cbG) (string, error)      // a callable whose parameter is a list of lists; one inner list is nil
	PanicGate     func(ctx context.Context, tag int) error                                          // waits for its gate, then panics with an error value of a slice type
	Sub           struct {
		Deep struct {
			Ping func(ctx context.Context, tag int) (int, error)
		}
		Ping func(ctx context.Context, tag int) (int, error) // declared after a nested struct
	}
	After func(ctx context.Context, tag int) (int, error) // declared after a nested struct
}

// named non-struct types: kind-equal but not type-equal to what a serializer decodes generically
type Count uint64
type Name string
type Ratio float64
type Small int8
type cbN = func(ctx context.Context, c Count, n Name, r Ratio, s Small) (Count, error)
type cbC = func(ctx context.Context, c Count, s Small) (Count, error)
type cbG = func(ctx context.Context, groups [][]string) (string, error)
type cb0 = func(ctx context.Context) (int, error)
type cbS = func(ctx context.Context, page int) ([]string, error)

// Level is a defined string type that encodes itself as a short code
type Level string

func (l Level) MarshalText() ([]byte, error) {
	switch l {
	case "warn":
		return []byte("W"), nil
	case "error":
		return []byte("E"), nil
	case "":
		return []byte("-"), nil
	}
	return []byte("?" + string(l)), nil
}
func (l *Level) UnmarshalText(b []byte) error {
	switch s := string(b); {
	case s == "W":
		*l = "warn"
	case s == "E":
		*l = "error"
	case s == "-":
		*l = ""
	case strings.HasPrefix(s, "?"):
		*l = Level(s[1:])
	default:
		return fmt.Errorf("bad level code %q", s)
	}
	return nil
}

// Status is a plain result value that happens to implement error
type Status struct {
	Code int    `json:"code" cbor:"code"`
	Msg  string `json:"msg" cbor:"msg"`
}

func (s Status) Error() string { return s.Msg }

// fancyErr carries things no serializer can encode; only its message may travel
type fancyErr struct {
	msg  string
	Hook func()
	Ch   chan int
}

func (e *fancyErr) Error() string { return e.msg }

// sysErr is a concrete error type (a handler may declare it instead of the error interface)
type sysErr struct{ msg string }

func (e *sysErr) Error() string { return e.msg }

// wrapErr builds application errors that wrap sentinel errors panrpc itself uses internally
func wrapErr(kind int) error {
	switch kind % 7 {
	case 0:
		return fmt.Errorf("app step aborted: %w", context.Canceled)
	case 1:
		return fmt.Errorf("app deadline: %w", context.DeadlineExceeded)
	case 2:
		return fmt.Errorf("app input: %w", io.EOF)
	case 3:
		return fmt.Errorf("app input: %w", io.ErrUnexpectedEOF)
	case 4:
		return fmt.Errorf("app closure: %w", rpc.ErrClosureDoesNotExist)
	case 5:
		return errors.Join(errors.New("first"), context.Canceled)
	}
	return context.Canceled
}

type SysEvent struct {
	Node   string `json:"node"`
	Kind   string `json:"kind"` // inv ret cb hook frame
	Method string `json:"m,omitempty"`
	Tag    int    `json:"tag"`
	Remote string `json:"remote,omitempty"`
	Data   string `json:"data,omitempty"`
	Err    string `json:"err,omitempty"`
}

type sysWorld struct {
	relay    func() (sysRemote, bool)              // whom Relay calls (set by the relay workload)
	openLink func(ctx context.Context, tag int) int // what OpenLink does (set by the nested-link workload)
	mu     sync.Mutex
	events []SysEvent
	gates  map[int]chan struct{}
	kept   map[int]cbI
	peers  map[string]func(remoteID string) (sysRemote, bool) // node -> lookup of remote by id
}

func newWorld() *sysWorld {
	return &sysWorld{gates: map[int]chan struct{}{}, kept: map[int]cbI{}, peers: map[string]func(string) (sysRemote, bool){}}
}

func (w *sysWorld) log(e SysEvent) {
	w.mu.Lock()
	w.events = append(w.events, e)
	w.mu.Unlock()
}

func (w *sysWorld) gate(tag int) chan struct{} {
	w.mu.Lock()
	defer w.mu.Unlock()
	g, ok := w.gates[tag]
	if !ok {
		g = make(chan struct{})
		w.gates[tag] = g
	}
	return g
}

func (w *sysWorld) Events() []SysEvent {
	w.mu.Lock()
	defer w.mu.Unlock()
	return append([]SysEvent{}, w.events...)
}

func canon(v any) string {
	b, err := json.Marshal(v)
	if err != nil {
		return "!" + err.Error()
	}
	return string(b)
}

type sysLocal struct {
	forRemotes func(func(string, sysRemote) error) error // the node's own ForRemotes (set after the registry exists)
	Svc  sysGreeter // a nested service held through an interface-typed field
	Kv   sysKV      // ... and one whose type is a named map type with methods
	w    *sysWorld
	node string
	Sub  sysSub
}

type sysSub struct {
	w    *sysWorld
	node string
	Deep sysDeep
}
type sysDeep struct {
	w    *sysWorld
	node string
}

func (s sysSub) Ping(ctx context.Context, tag int) (int, error) {
	s.w.log(SysEvent{Node: s.node, Kind: "inv", Method: "Sub.Ping", Tag: tag, Remote: rpc.GetRemoteID(ctx)})
	return tag + 1000, nil
}
func (s sysDeep) Ping(ctx context.Context, tag int) (int, error) {
	s.w.log(SysEvent{Node: s.node, Kind: "inv", Method: "Sub.Deep.Ping", Tag: tag, Remote: rpc.GetRemoteID(ctx)})
	return tag + 2000, nil
}

func (l *sysLocal) inv(ctx context.Context, m string, tag int, data any) {
	l.w.log(SysEvent{Node: l.node, Kind: "inv", Method: m, Tag: tag, Remote: rpc.GetRemoteID(ctx), Data: canon(data)})
}

func (l *sysLocal) EchoInt(ctx context.Context, tag int, x int64) (int64, error) {
	l.inv(ctx, "EchoInt", tag, x)
	return x, nil
}
func (l *sysLocal) EchoStr(ctx context.Context, tag int, s string) (string, error) {
	l.inv(ctx, "EchoStr", tag, s)
	return s, nil
}
func (l *sysLocal) EchoBytes(ctx context.Context, tag int, b []byte) ([]byte, error) {
	l.inv(ctx, "EchoBytes", tag, b)
	return b, nil
}
func (l *sysLocal) EchoSlice(ctx context.Context, tag int, xs []int) ([]int, error) {
	l.inv(ctx, "EchoSlice", tag, xs)
	return xs, nil
}
func (l *sysLocal) EchoMap(ctx context.Context, tag int, m map[string]int) (map[string]int, error) {
	l.inv(ctx, "EchoMap", tag, m)
	return m, nil
}
func (l *sysLocal) EchoStruct(ctx context.Context, tag int, p Rec) (Rec, error) {
	l.inv(ctx, "EchoStruct", tag, p)
	return p, nil
}
func (l *sysLocal) EchoPtr(ctx context.Context, tag int, p *Rec) (*Rec, error) {
	l.inv(ctx, "EchoPtr", tag, p)
	return p, nil
}
func (l *sysLocal) Multi(ctx context.Context, tag int, a int, b string, c []byte, d Rec, e *Rec, f []float64, g bool) (string, error) {
	s := canon([]any{a, b, c, d, e, f, g})
	l.inv(ctx, "Multi", tag, []any{a, b, c, d, e, f, g})
	return s, nil
}
func (l *sysLocal) Zero(ctx context.Context) error {
	l.inv(ctx, "Zero", 0, nil)
	return nil
}
func (l *sysLocal) Fail(ctx context.Context, tag int, msg string) error {
	l.inv(ctx, "Fail", tag, msg)
	if msg == "<nil>" {
		return nil
	}
	return errors.New(msg)
}
func (l *sysLocal) FailVal(ctx context.Context, tag int, v int, msg string) (int, error) {
	l.inv(ctx, "FailVal", tag, []any{v, msg})
	if msg == "<nil>" {
		return v, nil
	}
	return v, errors.New(msg)
}
func (l *sysLocal) peer(ctx context.Context) (sysRemote, bool) {
	l.w.mu.Lock()
	f := l.w.peers[l.node]
	l.w.mu.Unlock()
	if f == nil {
		return sysRemote{}, false
	}
	return f(rpc.GetRemoteID(ctx))
}
func (l *sysLocal) Nest(ctx context.Context, tag int, depth int) (int, error) {
	l.inv(ctx, "Nest", tag, depth)
	if depth <= 0 {
		return 0, nil
	}
	p, ok := l.peer(ctx)
	if !ok {
		return 0, errors.New("no peer")
	}
	v, err := p.Nest(ctx, tag, depth-1)
	return v + 1, err
}
func (l *sysLocal) Gate(ctx context.Context, tag int) (int, error) {
	l.inv(ctx, "Gate", tag, nil)
	select {
	case <-l.w.gate(tag):
	case <-time.After(20 * time.Second):
		return -1, errors.New("gate timeout")
	}
	return tag, nil
}
func (l *sysLocal) Iter(ctx context.Context, tag int, n int, cb cbT) (string, error) {
	l.inv(ctx, "Iter", tag, n)
	var out []string
	if n < 0 { // concurrent
		n = -n
		res := make([]string, n)
		errs := make([]error, n)
		var wg sync.WaitGroup
		for i := 0; i < n; i++ {
			wg.Add(1)
			go func() {
				defer wg.Done()
				res[i], errs[i] = cb(ctx, i, fmt.Sprintf("s%d", i), iterSlice(i), i%2 == 0)
			}()
		}
		wg.Wait()
		for i := range res {
			out = append(out, res[i]+"/"+errText(errs[i]))
		}
		return strings.Join(out, ";"), nil
	}
	for i := 0; i < n; i++ {
		r, err := cb(ctx, i, fmt.Sprintf("s%d", i), iterSlice(i), i%2 == 0)
		out = append(out, r+"/"+errText(err))
	}
	return strings.Join(out, ";"), nil
}

func iterSlice(i int) []int {
	switch i % 4 {
	case 0:
		return nil // nil slice
	case 1:
		return []int{}
	case 2:
		return []int{0}
	}
	return []int{i, -i, 0}
}

func (l *sysLocal) IterErr(ctx context.Context, tag int, x int, cb cbE) error {
	l.inv(ctx, "IterErr", tag, x)
	return cb(ctx, x)
}
func (l *sysLocal) Keep(ctx context.Context, tag int, cb cbI) error {
	l.inv(ctx, "Keep", tag, nil)
	l.w.mu.Lock()
	l.w.kept[tag] = cb
	l.w.mu.Unlock()
	return nil
}
// Delayed invokes the closure only after its gate has been opened
func (l *sysLocal) Delayed(ctx context.Context, tag int, cb cbI) (int, error) {
	l.inv(ctx, "Delayed", tag, nil)
	select {
	case <-l.w.gate(tag):
	case <-time.After(20 * time.Second):
		return -1, errors.New("gate timeout")
	}
	v, err := cb(ctx, tag)
	l.w.log(SysEvent{Node: l.node, Kind: "ret", Method: "Delayed", Tag: tag, Data: fmt.Sprint(v), Err: errText(err)})
	return v, err
}
// Cred's POINTER has a JSON encoding of its own (it redacts the token); a Cred VALUE is encoded field by
// field. What crosses the link is what the serializer makes of the value the handler returned.
type Cred struct {
	User  string
	Token string
}

func (c *Cred) MarshalJSON() ([]byte, error) {
	return json.Marshal(map[string]string{"User": c.User, "Token": "***"})
}

type Session struct {
	Cred Cred
	N    int
}

func (l *sysLocal) EchoSession(ctx context.Context, tag int, s Session) (Session, error) {
	l.inv(ctx, "EchoSession", tag, s)
	return s, nil
}

type sysGreeter interface {
	Hello(ctx context.Context, tag int) (int, error)
}
type sysHello struct {
	w    *sysWorld
	node string
}

func (h sysHello) Hello(ctx context.Context, tag int) (int, error) {
	h.w.log(SysEvent{Node: h.node, Kind: "inv", Method: "Svc.Hello", Tag: tag})
	return tag + 4000, nil
}

type sysKV map[string]int

func (m sysKV) Size(ctx context.Context, tag int) (int, error) { return len(m) + tag, nil }

// Spawn: the handler starts a call back to its peer on a goroutine of its own (an event subscription does
// that) and returns at once: its response does not wait for that call
func (l *sysLocal) Spawn(ctx context.Context, tag int) (int, error) {
	l.inv(ctx, "Spawn", tag, nil)
	p, ok := l.peer(ctx)
	if !ok {
		return 0, errors.New("no peer")
	}
	go func() {
		v, err := p.Gate(ctx, tag+1)
		l.w.log(SysEvent{Node: l.node, Kind: "ret", Method: "SpawnedGate", Tag: tag + 1, Data: fmt.Sprint(v), Err: errText(err)})
	}()
	// return only once the spawned call is really in flight (its handler on the peer has started and is stalled)
	waitUntil(func() bool { return hasInv(l.w, "Gate", tag+1) }, time.Second)
	return tag, nil
}
// Lease: an ordinary serializable value whose type also has the methods of context.Context (a lease that can
// expire): as an argument it is data like any other
type Lease struct {
	ID    int    `json:"id" cbor:"id"`
	Owner string `json:"owner" cbor:"owner"`
}

func (Lease) Deadline() (time.Time, bool) { return time.Time{}, false }
func (Lease) Done() <-chan struct{}       { return nil }
func (Lease) Err() error                  { return nil }
func (Lease) Value(key any) any           { return nil }

func (l *sysLocal) IterPreCancelled(ctx context.Context, tag int, cb cbI) (string, error) {
	l.inv(ctx, "IterPreCancelled", tag, nil)
	dctx, dcancel := context.WithCancel(ctx)
	dcancel()
	v1, e1 := cb(dctx, 1)
	v2, e2 := cb(ctx, 2)
	return fmt.Sprintf("%d/%s;%d/%s", v1, errText(e1), v2, errText(e2)), nil
}
func (l *sysLocal) Shapes(ctx context.Context, tag int, f cbI, done cbE) (string, error) {
	l.inv(ctx, "Shapes", tag, nil)
	v, err := f(ctx, 1)
	e2 := done(ctx, 2)
	return fmt.Sprintf("%d/%s;%s", v, errText(err), errText(e2)), nil
}
func (l *sysLocal) EchoLease(ctx context.Context, tag int, le Lease) (Lease, error) {
	l.inv(ctx, "EchoLease", tag, le)
	return le, nil
}
func (l *sysLocal) IterNilCtx(ctx context.Context, tag int, cb cbI) (string, error) {
	l.inv(ctx, "IterNilCtx", tag, nil)
	var wg sync.WaitGroup
	start := make(chan struct{})
	out := make([]string, 2)
	for i := 0; i < 2; i++ {
		wg.Add(1)
		go func() {
			defer wg.Done()
			<-start
			var nilCtx context.Context
			v, err := cb(nilCtx, i)
			out[i] = fmt.Sprintf("%d/%s", v, errText(err))
		}()
	}
	close(start)
	wg.Wait()
	return strings.Join(out, ";"), nil
}
func (l *sysLocal) GateFail(ctx context.Context, tag int, msg string) error {
	l.inv(ctx, "GateFail", tag, msg)
	select {
	case <-l.w.gate(tag):
	case <-time.After(20 * time.Second):
	}
	l.w.log(SysEvent{Node: l.node, Kind: "ret", Method: "GateFail", Tag: tag, Err: msg})
	return errors.New(msg)
}

// OwnErr: an application's own error interface (embeds error); a handler may declare it as its only result
type OwnErr interface {
	error
	Code() int
}
type ownErrImpl struct{ code int }

func (e ownErrImpl) Error() string { return fmt.Sprintf("own error %d", e.code) }
func (e ownErrImpl) Code() int     { return e.code }
func (l *sysLocal) FailOwn(ctx context.Context, tag int, code int) OwnErr {
	l.inv(ctx, "FailOwn", tag, code)
	if code == 0 {
		return nil
	}
	return ownErrImpl{code}
}
func (l *sysLocal) CallBackIter(ctx context.Context, tag int) (string, error) {
	l.inv(ctx, "CallBackIter", tag, nil)
	p, ok := l.peer(ctx)
	if !ok {
		return "", errors.New("no peer")
	}
	return p.Iter(ctx, tag+1, 2, func(ctx context.Context, i int, s string, xs []int, b bool) (string, error) {
		return fmt.Sprintf("cb%d", i), nil
	})
}
func (l *sysLocal) SpawnEcho(ctx context.Context, tag int) (int, error) {
	l.inv(ctx, "SpawnEcho", tag, nil)
	p, ok := l.peer(ctx)
	if !ok {
		return 0, errors.New("no peer")
	}
	returned := make(chan struct{})
	go func() {
		<-returned
		time.Sleep(30 * time.Millisecond) // the handler has returned and its response has been written
		v, err := p.EchoInt(ctx, tag+5000, 7)
		l.w.log(SysEvent{Node: l.node, Kind: "ret", Method: "SpawnedEcho", Tag: tag + 5000, Data: fmt.Sprint(v), Err: errText(err)})
	}()
	defer close(returned)
	return tag, nil
}
func (l *sysLocal) EchoAny(ctx context.Context, tag int, v any) (any, error) {
	l.inv(ctx, "EchoAny", tag, v)
	return v, nil
}

// ptrErr: Error works on a nil receiver; a nil *ptrErr stored in an error is a NON-nil error
type ptrErr struct{ msg string }

func (e *ptrErr) Error() string {
	if e == nil {
		return "typed nil error"
	}
	return e.msg
}
func (l *sysLocal) FailTypedNil(ctx context.Context, tag int) error {
	l.inv(ctx, "FailTypedNil", tag, nil)
	var e *ptrErr
	return e
}

// fmtErr prints differently through fmt than its Error method says; the message that crosses the link is Error()
type fmtErr struct{ msg string }

func (e fmtErr) Error() string { return e.msg }
func (e fmtErr) Format(f fmt.State, verb rune) {
	fmt.Fprintf(f, "fmtErr{%q}", e.msg)
}
func (l *sysLocal) FailFormatted(ctx context.Context, tag int, msg string) error {
	l.inv(ctx, "FailFormatted", tag, msg)
	return fmtErr{msg}
}

// EnumPanic: an application handler enumerates the remotes and its callback panics (panics of handlers are
// contained by panrpc; whatever the enumeration held must be released)
func (l *sysLocal) EnumPanic(ctx context.Context, tag int) error {
	l.inv(ctx, "EnumPanic", tag, nil)
	if l.forRemotes == nil {
		return errors.New("no enumeration")
	}
	return l.forRemotes(func(id string, r sysRemote) error { panic(errors.New("panic inside the enumeration callback")) })
}
func (l *sysLocal) KeepWait(ctx context.Context, tag int, cb cbI) (int, error) {
	l.inv(ctx, "KeepWait", tag, nil)
	l.w.mu.Lock()
	l.w.kept[tag] = cb
	l.w.mu.Unlock()
	select {
	case <-l.w.gate(tag):
	case <-time.After(20 * time.Second):
		return -1, errors.New("gate timeout")
	}
	return tag, nil
}
func (l *sysLocal) RelayCb(ctx context.Context, tag int, kept int) (int, error) {
	l.inv(ctx, "RelayCb", tag, kept)
	l.w.mu.Lock()
	cb := l.w.kept[kept]
	l.w.mu.Unlock()
	if cb == nil {
		return -1, errors.New("nothing kept")
	}
	v, err := cb(ctx, tag)
	l.w.log(SysEvent{Node: l.node, Kind: "ret", Method: "RelayCb", Tag: tag, Data: fmt.Sprint(v), Err: errText(err)})
	return v, err
}

// an error type whose values cannot be compared with == (a slice): legal, e.g. a list of field errors
type listErr []error

func (e listErr) Error() string { return fmt.Sprintf("%d errors", len(e)) }

func (l *sysLocal) PanicGate(ctx context.Context, tag int) error {
	l.inv(ctx, "PanicGate", tag, nil)
	<-l.w.gate(tag)
	panic(listErr{errors.New("first"), errors.New("second")})
}

// Mixed: function arguments and plain arguments interleaved; every one must arrive in its own position
func (l *sysLocal) Mixed(ctx context.Context, tag int, f cbI, n int, g cbI, s string) (string, error) {
	l.inv(ctx, "Mixed", tag, []any{n, s})
	a, err := f(ctx, n)
	if err != nil {
		return "", err
	}
	b, err := g(ctx, n+1)
	if err != nil {
		return "", err
	}
	return fmt.Sprintf("%d,%d,%d,%s", a, b, n, s), nil
}
func (l *sysLocal) CbFirst(ctx context.Context, tag int, cb cbI, v any) error {
	l.inv(ctx, "CbFirst", tag, nil)
	_, err := cb(ctx, tag)
	return err
}
func (l *sysLocal) After(ctx context.Context, tag int) (int, error) {
	l.inv(ctx, "After", tag, nil)
	return tag + 3000, nil
}
func (l *sysLocal) PartialStruct(ctx context.Context, tag int, p Rec, msg string) (Rec, error) {
	l.inv(ctx, "PartialStruct", tag, p)
	return p, errors.New(msg)
}
func (l *sysLocal) FailConcrete(ctx context.Context, tag int, msg string) *sysErr {
	l.inv(ctx, "FailConcrete", tag, msg)
	if msg == "<nil>" {
		return nil
	}
	return &sysErr{msg}
}
func (l *sysLocal) FailWrap(ctx context.Context, tag int, kind int) error {
	l.inv(ctx, "FailWrap", tag, kind)
	return wrapErr(kind)
}
func (l *sysLocal) FailWrapVal(ctx context.Context, tag int, kind int) (int, error) {
	l.inv(ctx, "FailWrapVal", tag, kind)
	return tag, wrapErr(kind)
}

// IterCtx invokes the peer's closure with a context of its own, cancels it once the closure is
// running (the closure opens gate tag+1 when it starts), and then invokes the closure once more
func (l *sysLocal) IterCtx(ctx context.Context, tag int, cb cbI) (string, error) {
	l.inv(ctx, "IterCtx", tag, nil)
	cctx, cancel := context.WithCancel(ctx)
	defer cancel()
	type r struct {
		v   int
		err error
	}
	done := make(chan r, 1)
	go func() { v, err := cb(cctx, 1); done <- r{v, err} }()
	select {
	case <-l.w.gate(tag + 1):
	case <-time.After(5 * time.Second):
		return "closure never started", nil
	}
	cancel()
	first := "DID-NOT-RETURN"
	select {
	case x := <-done:
		first = fmt.Sprintf("%d/%s", x.v, errText(x.err))
	case <-time.After(3 * time.Second):
	}
	v2, err2 := cb(ctx, 2)
	return fmt.Sprintf("%s;%d/%s", first, v2, errText(err2)), nil
}

// GateCtx reports what its context says once its gate opens (the link may have ended meanwhile)
func (l *sysLocal) GateCtx(ctx context.Context, tag int) (int, error) {
	l.inv(ctx, "GateCtx", tag, nil)
	select {
	case <-l.w.gate(tag):
	case <-time.After(20 * time.Second):
		return -1, errors.New("gate timeout")
	}
	l.w.log(SysEvent{Node: l.node, Kind: "ctxerr", Method: "GateCtx", Tag: tag, Data: fmt.Sprint(ctx.Err())})
	return tag, nil
}
func (l *sysLocal) IterNamed(ctx context.Context, tag int, cb cbN) (string, error) {
	l.inv(ctx, "IterNamed", tag, nil)
	var out []string
	for i, a := range []struct {
		c Count
		n Name
		r Ratio
		s Small
	}{{0, "", 0, 0}, {3, "nm", 0.5, -4}, {1 << 40, "ü\"q", -1.25, 127}} {
		v, err := cb(ctx, a.c, a.n, a.r, a.s)
		out = append(out, fmt.Sprintf("%d:%d/%s", i, v, errText(err)))
	}
	return strings.Join(out, ";"), nil
}
func (l *sysLocal) IterCount(ctx context.Context, tag int, cb cbC) (string, error) {
	l.inv(ctx, "IterCount", tag, nil)
	var out []string
	for i, a := range []Count{0, 9, 1 << 33} {
		v, err := cb(ctx, a, Small(i-1))
		out = append(out, fmt.Sprintf("%d:%d/%s", i, v, errText(err)))
	}
	return strings.Join(out, ";"), nil
}
// Groups hands a list of lists with a nil element (written as null by every serializer) to the callable
func (l *sysLocal) Groups(ctx context.Context, tag int, cb cbG) (string, error) {
	l.inv(ctx, "Groups", tag, nil)
	v, err := cb(ctx, [][]string{{"alice"}, nil, {"bob", "carol"}, {}})
	return v, err
}

// Relay calls another peer (chosen by the workload) with the context of the request being handled
func (l *sysLocal) Relay(ctx context.Context, tag int) (int, error) {
	l.inv(ctx, "Relay", tag, nil)
	l.w.mu.Lock()
	f := l.w.relay
	l.w.mu.Unlock()
	if f == nil {
		return -1, errors.New("no relay target")
	}
	rem, ok := f()
	if !ok {
		return -1, errors.New("no relay target")
	}
	v, err := rem.Gate(ctx, tag+3)
	l.w.log(SysEvent{Node: l.node, Kind: "ret", Method: "Relay", Tag: tag, Data: fmt.Sprint(v), Err: errText(err)})
	return v, err
}
func (l *sysLocal) BadCb(ctx context.Context, tag int, cb func(ctx context.Context, msg string)) error {
	l.inv(ctx, "BadCb", tag, nil)
	return nil
}
func (l *sysLocal) EchoStatus(ctx context.Context, tag int, s Status) (Status, error) {
	l.inv(ctx, "EchoStatus", tag, s)
	return s, nil
}
func (l *sysLocal) EchoStatusPtr(ctx context.Context, tag int, s *Status) (*Status, error) {
	l.inv(ctx, "EchoStatusPtr", tag, s)
	return s, nil
}
func (l *sysLocal) Greet(ctx context.Context, tag int, name string) string {
	l.inv(ctx, "Greet", tag, name)
	return "hello " + name
}
func (l *sysLocal) Tags(ctx context.Context, tag int) map[string]int {
	l.inv(ctx, "Tags", tag, nil)
	return map[string]int{"a": 1, "b": tag}
}
func (l *sysLocal) Mirror(ctx context.Context, tag int, p *Rec) *Rec {
	l.inv(ctx, "Mirror", tag, p)
	return p
}
func (l *sysLocal) FailFancy(ctx context.Context, tag int, msg string) error {
	l.inv(ctx, "FailFancy", tag, msg)
	if msg == "<nil>" {
		return nil
	}
	return &fancyErr{msg: msg, Hook: func() {}, Ch: make(chan int)}
}
func (l *sysLocal) Notify0(ctx context.Context, tag int) {
	l.inv(ctx, "Notify0", tag, nil)
}
func (l *sysLocal) Call0(ctx context.Context, tag int, cb cb0) (int, error) {
	l.inv(ctx, "Call0", tag, nil)
	return cb(ctx)
}
func (l *sysLocal) KeepAndCall(ctx context.Context, tag int, cb cbI) (int, error) {
	l.inv(ctx, "KeepAndCall", tag, nil)
	l.w.mu.Lock()
	l.w.kept[tag] = cb
	l.w.mu.Unlock()
	v, err := cb(ctx, tag)
	l.w.log(SysEvent{Node: l.node, Kind: "ret", Method: "KeepAndCall", Tag: tag, Data: fmt.Sprint(v), Err: errText(err)})
	return v, err
}
func (l *sysLocal) OpenLink(ctx context.Context, tag int) (int, error) {
	l.inv(ctx, "OpenLink", tag, nil)
	l.w.mu.Lock()
	f := l.w.openLink
	l.w.mu.Unlock()
	if f == nil {
		return -1, errors.New("no link opener")
	}
	return f(ctx, tag), nil
}
func (l *sysLocal) IterNilErr(ctx context.Context, tag int, cb cbS) (string, error) {
	l.inv(ctx, "IterNilErr", tag, nil)
	var out []string
	for page := 0; page < 3; page++ {
		v, err := cb(ctx, page)
		out = append(out, fmt.Sprintf("%d:%s/%s", page, canon(v), errText(err)))
	}
	return strings.Join(out, ";"), nil
}
func (l *sysLocal) EchoLevel(ctx context.Context, tag int, lv Level) (Level, error) {
	l.inv(ctx, "EchoLevel", tag, string(lv))
	return lv, nil
}
func (l *sysLocal) EchoNamed(ctx context.Context, tag int, c Count, n Name) (Count, error) {
	l.inv(ctx, "EchoNamed", tag, []any{c, n})
	return c + Count(len(n)), nil
}

// IterDerived invokes its callable three times: B with the handler's context and A with a context derived
// for that one invocation, both in flight together; A's context is then cancelled (only A must be affected);
// C afterwards releases the caller's function for all of them.
func (l *sysLocal) IterDerived(ctx context.Context, tag int, cb cbT) (string, error) {
	l.inv(ctx, "IterDerived", tag, nil)
	type res struct {
		v   string
		err error
	}
	bch, ach := make(chan res, 1), make(chan res, 1)
	go func() { v, err := cb(ctx, 0, "B", nil, false); bch <- res{v, err} }()
	actx, acancel := context.WithCancel(ctx)
	defer acancel()
	go func() { v, err := cb(actx, 1, "A", nil, false); ach <- res{v, err} }()
	time.Sleep(30 * time.Millisecond)
	acancel()
	get := func(ch chan res) res {
		select {
		case r := <-ch:
			return r
		case <-time.After(3 * time.Second):
			return res{"", errors.New("STUCK")}
		}
	}
	a := get(ach)
	cv, cerr := cb(ctx, 2, "C", nil, false)
	b := get(bch)
	return fmt.Sprintf("A=%s/%s;B=%s/%s;C=%s/%s", a.v, errText(a.err), b.v, errText(b.err), cv, errText(cerr)), nil
}

// Two takes two closures and invokes them alternately: each must reach its own function
func (l *sysLocal) Two(ctx context.Context, tag int, f cbI, g cbI) (string, error) {
	l.inv(ctx, "Two", tag, nil)
	var out []string
	for i := 0; i < 3; i++ {
		a, e1 := f(ctx, i)
		b, e2 := g(ctx, i)
		out = append(out, fmt.Sprintf("%d/%s,%d/%s", a, errText(e1), b, errText(e2)))
	}
	return strings.Join(out, ";"), nil
}
func (l *sysLocal) WhoAmI(ctx context.Context, tag int) (string, error) {
	id := rpc.GetRemoteID(ctx)
	l.inv(ctx, "WhoAmI", tag, nil)
	return id, nil
}

// ---------------------------------------------------------------- transports

// frameQ: unbounded FIFO of frames with optional holding (frames stay invisible until released)
type frameQ[T any] struct {
	mu     sync.Mutex
	cond   *sync.Cond
	ready  []T
	held   []T
	hold   bool
	closed error
	seen   []T // every frame ever put (capture)
	reuse  bool   // hand out views of one receive buffer (valid until the next Get)
	buf    []byte
}

func newFrameQ[T any]() *frameQ[T] {
	q := &frameQ[T]{}
	q.cond = sync.NewCond(&q.mu)
	return q
}

func (q *frameQ[T]) Put(f T) error {
	q.mu.Lock()
	defer q.mu.Unlock()
	if q.closed != nil {
		return q.closed
	}
	q.seen = append(q.seen, f)
	if q.hold {
		q.held = append(q.held, f)
	} else {
		q.ready = append(q.ready, f)
	}
	q.cond.Broadcast()
	return nil
}

func (q *frameQ[T]) Get() (T, error) {
	q.mu.Lock()
	defer q.mu.Unlock()
	for len(q.ready) == 0 && q.closed == nil {
		q.cond.Wait()
	}
	if len(q.ready) > 0 {
		f := q.ready[0]
		q.ready = q.ready[1:]
		if q.reuse {
			return q.view(f), nil
		}
		return f, nil
	}
	return *new(T), q.closed
}

// view copies a byte-slice payload into the queue's one receive buffer and returns a slice of it: like a
// transport that reads every frame into the same buffer, the frame is only valid until the next Get
func (q *frameQ[T]) view(f T) T {
	var b []byte
	switch x := any(f).(type) {
	case json.RawMessage:
		b = x
	case cbor.RawMessage:
		b = x
	case []byte:
		b = x
	default:
		return f
	}
	if q.buf == nil {
		q.buf = make([]byte, 1<<20)
	}
	if len(b) > len(q.buf) {
		return f
	}
	n := copy(q.buf, b)
	switch any(f).(type) {
	case json.RawMessage:
		return any(json.RawMessage(q.buf[:n])).(T)
	case cbor.RawMessage:
		return any(cbor.RawMessage(q.buf[:n])).(T)
	default:
		return any(q.buf[:n]).(T)
	}
}

func (q *frameQ[T]) Close(err error) {
	q.mu.Lock()
	if q.closed == nil {
		q.closed = err
	}
	q.cond.Broadcast()
	q.mu.Unlock()
}

func (q *frameQ[T]) SetHold(h bool) {
	q.mu.Lock()
	q.hold = h
	q.mu.Unlock()
}

func (q *frameQ[T]) HeldLen() int {
	q.mu.Lock()
	defer q.mu.Unlock()
	return len(q.held)
}

// Release makes the held frames visible in the order given by perm (a permutation source)
func (q *frameQ[T]) Release(r *rand.Rand) {
	q.mu.Lock()
	h := q.held
	q.held = nil
	if r != nil {
		r.Shuffle(len(h), func(i, j int) { h[i], h[j] = h[j], h[i] })
	}
	q.ready = append(q.ready, h...)
	q.cond.Broadcast()
	q.mu.Unlock()
}

func (q *frameQ[T]) Seen() []T {
	q.mu.Lock()
	defer q.mu.Unlock()
	return append([]T{}, q.seen...)
}

// Codec bundles the serializer-dependent functions for payload type T
type Codec[T any] struct {
	Name      string
	Marshal   func(v any) (T, error)
	Unmarshal func(d T, v any) error
	// stream framing
	NewEncoder func(w io.Writer) func(v rpc.Message[T]) error
	NewDecoder func(r io.Reader) func(v *rpc.Message[T]) error
	// independent generic decode of a frame payload into map / list / scalars (for C17)
	Generic func(d T) (any, error)
}

func jsonRawCodec() Codec[json.RawMessage] {
	return Codec[json.RawMessage]{
		Name:      "json-raw",
		Marshal:   func(v any) (json.RawMessage, error) { b, err := json.Marshal(v); return b, err },
		Unmarshal: func(d json.RawMessage, v any) error { return json.Unmarshal(d, v) },
		NewEncoder: func(w io.Writer) func(v rpc.Message[json.RawMessage]) error {
			e := json.NewEncoder(w)
			return func(v rpc.Message[json.RawMessage]) error { return e.Encode(v) }
		},
		NewDecoder: func(r io.Reader) func(v *rpc.Message[json.RawMessage]) error {
			d := json.NewDecoder(r)
			return func(v *rpc.Message[json.RawMessage]) error { return d.Decode(v) }
		},
		Generic: func(d json.RawMessage) (any, error) { var x any; err := json.Unmarshal(d, &x); return x, err },
	}
}

// ptrRaw: an application-defined raw payload type whose JSON methods have POINTER receivers (like
// json.RawMessage before Go 1.8): it is encoded verbatim only where the value is addressable
type ptrRaw []byte

func (p *ptrRaw) MarshalJSON() ([]byte, error) {
	if p == nil || *p == nil {
		return []byte("null"), nil
	}
	return *p, nil
}
func (p *ptrRaw) UnmarshalJSON(b []byte) error {
	*p = append((*p)[:0], b...)
	return nil
}

func jsonPtrRawCodec() Codec[ptrRaw] {
	return Codec[ptrRaw]{
		Name:      "json-ptrraw",
		Marshal:   func(v any) (ptrRaw, error) { b, err := json.Marshal(v); return ptrRaw(b), err },
		Unmarshal: func(d ptrRaw, v any) error { return json.Unmarshal([]byte(d), v) },
		NewEncoder: func(w io.Writer) func(v rpc.Message[ptrRaw]) error {
			e := json.NewEncoder(w)
			return func(v rpc.Message[ptrRaw]) error { return e.Encode(&v) }
		},
		NewDecoder: func(r io.Reader) func(v *rpc.Message[ptrRaw]) error {
			d := json.NewDecoder(r)
			return func(v *rpc.Message[ptrRaw]) error { return d.Decode(v) }
		},
		Generic: func(d ptrRaw) (any, error) { var x any; err := json.Unmarshal([]byte(d), &x); return x, err },
	}
}

func jsonBytesCodec() Codec[[]byte] {
	return Codec[[]byte]{
		Name:      "json-bytes",
		Marshal:   func(v any) ([]byte, error) { return json.Marshal(v) },
		Unmarshal: func(d []byte, v any) error { return json.Unmarshal(d, v) },
		NewEncoder: func(w io.Writer) func(v rpc.Message[[]byte]) error {
			e := json.NewEncoder(w)
			return func(v rpc.Message[[]byte]) error { return e.Encode(v) }
		},
		NewDecoder: func(r io.Reader) func(v *rpc.Message[[]byte]) error {
			d := json.NewDecoder(r)
			return func(v *rpc.Message[[]byte]) error { return d.Decode(v) }
		},
		Generic: func(d []byte) (any, error) { var x any; err := json.Unmarshal(d, &x); return x, err },
	}
}

func cborRawCodec() Codec[cbor.RawMessage] {
	return Codec[cbor.RawMessage]{
		Name:      "cbor-raw",
		Marshal:   func(v any) (cbor.RawMessage, error) { b, err := cbor.Marshal(v); return b, err },
		Unmarshal: func(d cbor.RawMessage, v any) error { return cbor.Unmarshal(d, v) },
		NewEncoder: func(w io.Writer) func(v rpc.Message[cbor.RawMessage]) error {
			e := cbor.NewEncoder(w)
			return func(v rpc.Message[cbor.RawMessage]) error { return e.Encode(v) }
		},
		NewDecoder: func(r io.Reader) func(v *rpc.Message[cbor.RawMessage]) error {
			d := cbor.NewDecoder(r)
			return func(v *rpc.Message[cbor.RawMessage]) error { return d.Decode(v) }
		},
		Generic: func(d cbor.RawMessage) (any, error) { var x any; err := cbor.Unmarshal(d, &x); return x, err },
	}
}

func cborBytesCodec() Codec[[]byte] {
	return Codec[[]byte]{
		Name:      "cbor-bytes",
		Marshal:   func(v any) ([]byte, error) { return cbor.Marshal(v) },
		Unmarshal: func(d []byte, v any) error { return cbor.Unmarshal(d, v) },
		NewEncoder: func(w io.Writer) func(v rpc.Message[[]byte]) error {
			e := cbor.NewEncoder(w)
			return func(v rpc.Message[[]byte]) error { return e.Encode(v) }
		},
		NewDecoder: func(r io.Reader) func(v *rpc.Message[[]byte]) error {
			d := cbor.NewDecoder(r)
			return func(v *rpc.Message[[]byte]) error { return d.Decode(v) }
		},
		Generic: func(d []byte) (any, error) { var x any; err := cbor.Unmarshal(d, &x); return x, err },
	}
}

// chunkPipe: byte stream that hands out at most `chunk` bytes per Read (0 = whatever is there)
type chunkPipe struct {
	mu     sync.Mutex
	cond   *sync.Cond
	buf    bytes.Buffer
	closed error
	chunk  int
	r      *rand.Rand
}

func newChunkPipe(chunk int, seed int64) *chunkPipe {
	p := &chunkPipe{chunk: chunk, r: rand.New(rand.NewSource(seed))}
	p.cond = sync.NewCond(&p.mu)
	return p
}
func (p *chunkPipe) Write(b []byte) (int, error) {
	p.mu.Lock()
	defer p.mu.Unlock()
	if p.closed != nil {
		return 0, p.closed
	}
	p.buf.Write(b)
	p.cond.Broadcast()
	return len(b), nil
}
func (p *chunkPipe) Read(b []byte) (int, error) {
	p.mu.Lock()
	defer p.mu.Unlock()
	for p.buf.Len() == 0 && p.closed == nil {
		p.cond.Wait()
	}
	if p.buf.Len() == 0 {
		return 0, p.closed
	}
	n := len(b)
	switch {
	case p.chunk > 0 && n > p.chunk:
		n = p.chunk
	case p.chunk < 0: // random chunk sizes
		if m := 1 + p.r.Intn(17); n > m {
			n = m
		}
	}
	return p.buf.Read(b[:n])
}
func (p *chunkPipe) Close(err error) {
	p.mu.Lock()
	if p.closed == nil {
		p.closed = err
	}
	p.cond.Broadcast()
	p.mu.Unlock()
}

// SysLink is one link between node A and node B
type SysLink[T any] struct {
	// message API queues: A->B requests, A->B responses, B->A requests, B->A responses
	ABreq, ABres, BAreq, BAres *frameQ[T]
	// stream API pipes
	AB, BA *chunkPipe
	CancelA, CancelB context.CancelFunc
	ErrA, ErrB       chan error
}

func (l *SysLink[T]) CloseTransport(err error) {
	for _, q := range []*frameQ[T]{l.ABreq, l.ABres, l.BAreq, l.BAres} {
		if q != nil {
			q.Close(err)
		}
	}
	if l.AB != nil {
		l.AB.Close(err)
		l.BA.Close(err)
	}
}

type SysNode[T any] struct {
	Name  string
	Reg   *rpc.Registry[sysRemote, T]
	Local *sysLocal
	// when set, every link of this node is given this one LinkHooks value (reusing it is legal)
	SharedHooks *rpc.LinkHooks
}

func NewSysNode[T any](w *sysWorld, name string) *SysNode[T] {
	local := &sysLocal{w: w, node: name, Sub: sysSub{w: w, node: name, Deep: sysDeep{w: w, node: name}},
		Svc: sysHello{w: w, node: name}, Kv: sysKV{"a": 1, "b": 2}}
	n := &SysNode[T]{Name: name, Local: local}
	// while a notification is being delivered, can another goroutine enumerate, and what does it see?
	probe := func(kind, id string) {
		done := make(chan bool, 1)
		go func() {
			present := false
			n.Reg.ForRemotes(func(rid string, _ sysRemote) error {
				if rid == id {
					present = true
				}
				return nil
			})
			done <- present
		}()
		select {
		case p := <-done:
			w.log(SysEvent{Node: name, Kind: "probe", Method: kind, Remote: id, Data: fmt.Sprint(p)})
		case <-time.After(2 * time.Millisecond):
			// the enumeration waits until the notification pair is complete
		}
	}
	n.Reg = rpc.NewRegistry[sysRemote, T](local, &rpc.RegistryHooks{
		OnClientConnect: func(id string) {
			w.log(SysEvent{Node: name, Kind: "hook", Method: "connect", Remote: id})
			probe("connect", id)
		},
		OnClientDisconnect: func(id string) {
			w.log(SysEvent{Node: name, Kind: "hook", Method: "disconnect", Remote: id})
			probe("disconnect", id)
		},
	})
	local.forRemotes = n.Reg.ForRemotes
	w.mu.Lock()
	w.peers[name] = func(id string) (sysRemote, bool) {
		var r sysRemote
		ok := false
		// copy the remote out of the enumeration, then call it outside
		n.Reg.ForRemotes(func(rid string, rem sysRemote) error {
			if rid == id {
				r, ok = rem, true
			}
			return nil
		})
		return r, ok
	}
	w.mu.Unlock()
	return n
}

func (n *SysNode[T]) Remotes() map[string]sysRemote {
	m := map[string]sysRemote{}
	n.Reg.ForRemotes(func(id string, r sysRemote) error { m[id] = r; return nil })
	return m
}

// Connect links a and b with the message API (stream=false) or the stream API
func Connect[T any](w *sysWorld, a, b *SysNode[T], c Codec[T], stream bool, chunk int, seed int64) *SysLink[T] {
	return ConnectCtx(context.Background(), w, a, b, c, stream, chunk, seed)
}

// ConnectCtx: the link context of side A descends from parentA (e.g. the context of a request being handled)
func ConnectCtx[T any](parentA context.Context, w *sysWorld, a, b *SysNode[T], c Codec[T], stream bool, chunk int, seed int64) *SysLink[T] {
	l := &SysLink[T]{ErrA: make(chan error, 1), ErrB: make(chan error, 1)}
	ctxA, ca := context.WithCancel(parentA)
	ctxB, cb := context.WithCancel(context.Background())
	l.CancelA, l.CancelB = ca, cb
	hooks := func(node string) *rpc.LinkHooks {
		if node == a.Name && a.SharedHooks != nil {
			return a.SharedHooks
		}
		if node == b.Name && b.SharedHooks != nil {
			return b.SharedHooks
		}
		return &rpc.LinkHooks{
			OnClientConnect:    func(id string) { w.log(SysEvent{Node: node, Kind: "hook", Method: "link-connect", Remote: id}) },
			OnClientDisconnect: func(id string) { w.log(SysEvent{Node: node, Kind: "hook", Method: "link-disconnect", Remote: id}) },
		}
	}
	if !stream {
		l.ABreq, l.ABres, l.BAreq, l.BAres = newFrameQ[T](), newFrameQ[T](), newFrameQ[T](), newFrameQ[T]()
		if seed%2 == 0 {
			// every other message link reads all its frames into one receive buffer per direction
			for _, q := range []*frameQ[T]{l.ABreq, l.ABres, l.BAreq, l.BAres} {
				q.reuse = true
			}
		}
		go func() {
			l.ErrA <- a.Reg.LinkMessage(ctxA, l.ABreq.Put, l.ABres.Put, l.BAreq.Get, l.BAres.Get, c.Marshal, c.Unmarshal, hooks(a.Name))
		}()
		go func() {
			l.ErrB <- b.Reg.LinkMessage(ctxB, l.BAreq.Put, l.BAres.Put, l.ABreq.Get, l.ABres.Get, c.Marshal, c.Unmarshal, hooks(b.Name))
		}()
	} else {
		l.AB, l.BA = newChunkPipe(chunk, seed), newChunkPipe(chunk, seed+1)
		var muA, muB sync.Mutex
		encA, decA := c.NewEncoder(l.AB), c.NewDecoder(l.BA)
		encB, decB := c.NewEncoder(l.BA), c.NewDecoder(l.AB)
		go func() {
			l.ErrA <- a.Reg.LinkStream(ctxA, func(v rpc.Message[T]) error { muA.Lock(); defer muA.Unlock(); return encA(v) }, decA, c.Marshal, c.Unmarshal, hooks(a.Name))
		}()
		go func() {
			l.ErrB <- b.Reg.LinkStream(ctxB, func(v rpc.Message[T]) error { muB.Lock(); defer muB.Unlock(); return encB(v) }, decB, c.Marshal, c.Unmarshal, hooks(b.Name))
		}()
	}
	return l
}

// WaitRemotes waits until node n enumerates k remotes
func WaitRemotes[T any](n *SysNode[T], k int) bool {
	for i := 0; i < 2000; i++ {
		if len(n.Remotes()) == k {
			return true
		}
		time.Sleep(time.Millisecond)
	}
	return false
}

func waitUntil(cond func() bool, d time.Duration) bool {
	deadline := time.Now().Add(d)
	for time.Now().Before(deadline) {
		if cond() {
			return true
		}
		time.Sleep(200 * time.Microsecond)
	}
	return cond()
}

// ---- value generation (C09) ----

func GenRec(r *rand.Rand, depth int) Rec {
	rec := Rec{A: []int{0, 1, -1, 1 << 31, -(1 << 31), r.Intn(1000)}[r.Intn(6)], B: GenString(r), F: r.Intn(2) == 0}
	switch r.Intn(3) {
	case 0:
		rec.C = nil
	case 1:
		rec.C = []string{}
	default:
		rec.C = []string{GenString(r), ""}
	}
	if depth > 0 && r.Intn(2) == 0 {
		d := GenRec(r, depth-1)
		rec.D = &d
	}
	if r.Intn(2) == 0 {
		rec.E = map[string]float64{"x": 1.5, GenString(r): -0.25, "": 0}
	}
	return rec
}

var sampleStrings = []string{"", " ", "a", "hello world", "quote\"s and \\ backslash", "line\nbreak\ttab", "ünïcødé ☃ 日本語", "  leading", "trailing  ", " nbsp", "null", "{}", "emoji 😀", strings.Repeat("long", 300)}

func GenString(r *rand.Rand) string { return sampleStrings[r.Intn(len(sampleStrings))] }

func sortedKeys[V any](m map[string]V) []string {
	ks := make([]string, 0, len(m))
	for k := range m {
		ks = append(ks, k)
	}
	sort.Strings(ks)
	return ks
}

var _ = reflect.TypeOf
