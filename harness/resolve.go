package harness

// resolve.go — end-to-end path resolution cases (C06, C07): a raw peer sends one request naming
// `fn` with `argc` arguments to a registry exposing a zoo root; the outcome is classified.

import (
	"sync"
	"context"
	"encoding/json"
	"errors"
	"fmt"
	"math/rand"
	"strings"
	"time"

	"github.com/pojntfx/panrpc/go/pkg/rpc"
)

type ResolveCase struct {
	Root    string   `json:"root"`
	Fn      string   `json:"fn"`
	Argc    int      `json:"argc"`
	Outcome string   `json:"outcome"` // invoked:<inst.meth> | nofunc | argc | ro | nilderef | closure | badarg | other:<text> | hang
	Hits    []string `json:"hits"`
	LinkErr string   `json:"linkerr,omitempty"`
	RespErr string   `json:"resperr,omitempty"`
	Expect  string   `json:"expect"` // from the hand-written oracle: invoked:<inst.meth> or none
}

func classifyLinkErr(err error) string {
	if err == nil {
		return "other:nil"
	}
	t := err.Error()
	switch {
	case errors.Is(err, rpc.ErrCannotCallNonFunction) || strings.Contains(t, "can not call non function"):
		return "nofunc"
	case errors.Is(err, rpc.ErrInvalidArgsCount):
		return "argc"
	case strings.Contains(t, "obtained using unexported field"):
		return "ro"
	case strings.Contains(t, "nil pointer") || strings.Contains(t, "using nil"):
		return "nilderef"
	case strings.Contains(t, "cannot unmarshal"):
		return "badarg"
	}
	return "other:" + t
}

// ResolveOnce runs one request against a fresh registry exposing root
func ResolveOnce(root any, fn string, argc int) (outcome string, hits []string, linkErr, respErr string) {
	zooTake()
	ctx, cancel := context.WithCancel(context.Background())
	defer cancel()
	reg := rpc.NewRegistry[struct{}, json.RawMessage](root, nil)
	reqIn := make(chan json.RawMessage, 1)
	resp := make(chan string, 4)
	linkDone := make(chan error, 1)
	go func() {
		linkDone <- reg.LinkMessage(ctx,
			func(b json.RawMessage) error { return nil },
			func(b json.RawMessage) error {
				var r struct {
					Err string `json:"err"`
				}
				json.Unmarshal(b, &r)
				resp <- r.Err
				return nil
			},
			func() (json.RawMessage, error) {
				select {
				case b := <-reqIn:
					return b, nil
				case <-ctx.Done():
					return nil, ctx.Err()
				}
			},
			func() (json.RawMessage, error) { <-ctx.Done(); return nil, ctx.Err() },
			func(v any) (json.RawMessage, error) { b, err := json.Marshal(v); return b, err },
			func(d json.RawMessage, v any) error { return json.Unmarshal(d, v) },
			nil)
	}()
	args := []json.RawMessage{}
	if fn == "CallClosure" && argc == 2 {
		args = append(args, json.RawMessage(`"bogus"`), json.RawMessage(`[]`))
	} else {
		for i := 0; i < argc; i++ {
			args = append(args, json.RawMessage(fmt.Sprint(i+1)))
		}
	}
	b, _ := json.Marshal(map[string]any{"call": "1", "function": fn, "args": args})
	reqIn <- b
	select {
	case e := <-resp:
		respErr = e
		outcome = "response"
	case err := <-linkDone:
		linkErr = errText(err)
		outcome = classifyLinkErr(err)
		linkDone <- err
	case <-time.After(3 * time.Second):
		outcome = "hang"
	}
	cancel()
	select {
	case <-linkDone:
	case <-time.After(3 * time.Second):
		outcome = "hang"
	}
	hits = zooTake()
	if outcome == "response" {
		switch {
		case len(hits) == 1:
			outcome = "invoked:" + hits[0]
		case respErr == "closure does not exist":
			outcome = "closure"
		default:
			outcome = "other:response " + respErr
		}
	} else if len(hits) > 0 {
		outcome = "other:ran " + strings.Join(hits, ",") + " then " + outcome
	}
	return
}

// GenPaths: every valid path of the description plus mutations
func GenPaths(r *rand.Rand, d ZDesc, callable map[string]string, n int) []string {
	names := d.AllNames()
	var valid []string
	for p := range callable {
		valid = append(valid, p)
	}
	// all field paths (exported or not) to depth 4, from the type facts
	var walk func(t int, prefix string, depth int)
	fieldPaths := []string{}
	walk = func(t int, prefix string, depth int) {
		if depth > 3 {
			return
		}
		zt := d.Types[t]
		if zt.Kind == "ptr" {
			walk(zt.Elem, prefix, depth)
			return
		}
		for n, idx := range zt.ByName {
			_ = idx
			p := prefix + n
			fieldPaths = append(fieldPaths, p)
			// type of that field: follow index path
			ft := t
			ok := true
			for _, i := range idx {
				tt := d.Types[ft]
				if tt.Kind == "ptr" {
					tt = d.Types[tt.Elem]
				}
				if i >= len(tt.Fields) {
					ok = false
					break
				}
				ft = tt.Fields[i].Type
			}
			if ok {
				walk(ft, p+".", depth+1)
			}
		}
	}
	if d.Root.Type >= 0 {
		walk(d.Root.Type, "", 0)
	}
	out := map[string]bool{"": true, ".": true, "..": true, "CallClosure": true, "callClosure": true, "CallClosure.X": true}
	for _, p := range valid {
		out[p] = true
	}
	methods := []string{}
	for _, t := range d.Types {
		for m := range t.PM {
			methods = append(methods, m)
		}
		for m := range t.IM {
			methods = append(methods, m)
		}
	}
	for _, fp := range fieldPaths {
		out[fp] = true
		for _, m := range methods {
			out[fp+"."+m] = true
		}
	}
	mutate := func(p string) string {
		switch r.Intn(9) {
		case 0: // case flip of one letter
			if len(p) == 0 {
				return p
			}
			i := r.Intn(len(p))
			c := p[i]
			if c >= 'a' && c <= 'z' {
				c -= 32
			} else if c >= 'A' && c <= 'Z' {
				c += 32
			}
			return p[:i] + string(c) + p[i+1:]
		case 1: // drop last component
			if i := strings.LastIndexByte(p, '.'); i >= 0 {
				return p[:i]
			}
			return ""
		case 2: // drop first component
			if i := strings.IndexByte(p, '.'); i >= 0 {
				return p[i+1:]
			}
			return p
		case 3:
			return p + "." + names[r.Intn(len(names))]
		case 4:
			return names[r.Intn(len(names))] + "." + p
		case 5:
			return p + "."
		case 6:
			return "." + p
		case 7:
			return strings.Replace(p, ".", "..", 1)
		default: // replace one component
			parts := strings.Split(p, ".")
			parts[r.Intn(len(parts))] = names[r.Intn(len(names))]
			return strings.Join(parts, ".")
		}
	}
	all := []string{}
	for p := range out {
		all = append(all, p)
	}
	for len(out) < n && len(all) > 0 && len(names) > 0 {
		p := mutate(all[r.Intn(len(all))])
		if !out[p] {
			out[p] = true
			all = append(all, p)
		}
		if r.Intn(50) == 0 {
			break
		}
	}
	res := []string{}
	for p := range out {
		res = append(res, p)
	}
	return res
}

// ---- C07: the object graph may change between requests: a request runs the method of the sub-object that is
// held NOW (same registry, same link, same path) ----
type MutBackend struct{ ID string }

func (b *MutBackend) Who(ctx context.Context) (string, error) { zooHit(b.ID, "Who"); return b.ID, nil }

type MutTenant struct{ Backend *MutBackend }
type MutRoot struct {
	Tenant *MutTenant
	Direct *MutBackend
}

type MutCase struct {
	Mut     bool     `json:"mut"`
	Step    string   `json:"step"`
	Fn      string   `json:"fn"`
	Outcome string   `json:"outcome"`
	Expect  string   `json:"expect"`
	Hits    []string `json:"hits"`
}

func RunMutatingGraph() []MutCase {
	zooTake()
	root := &MutRoot{Tenant: &MutTenant{Backend: &MutBackend{"first"}}, Direct: &MutBackend{"d-first"}}
	ctx, cancel := context.WithCancel(context.Background())
	defer cancel()
	reg := rpc.NewRegistry[struct{}, json.RawMessage](root, nil)
	reqIn := make(chan json.RawMessage, 1)
	resp := make(chan string, 4)
	linkDone := make(chan error, 1)
	go func() {
		linkDone <- reg.LinkMessage(ctx,
			func(b json.RawMessage) error { return nil },
			func(b json.RawMessage) error {
				var r struct {
					Value json.RawMessage `json:"value"`
					Err   string          `json:"err"`
				}
				json.Unmarshal(b, &r)
				resp <- string(r.Value) + "/" + r.Err
				return nil
			},
			func() (json.RawMessage, error) {
				select {
				case b := <-reqIn:
					return b, nil
				case <-ctx.Done():
					return nil, ctx.Err()
				}
			},
			func() (json.RawMessage, error) { <-ctx.Done(); return nil, ctx.Err() },
			func(v any) (json.RawMessage, error) { b, err := json.Marshal(v); return b, err },
			func(d json.RawMessage, v any) error { return json.Unmarshal(d, v) },
			nil)
	}()
	var out []MutCase
	call := func(step, fn, expect string) {
		b, _ := json.Marshal(map[string]any{"call": step, "function": fn, "args": []any{}})
		reqIn <- b
		mc := MutCase{Mut: true, Step: step, Fn: fn, Expect: expect}
		select {
		case r := <-resp:
			mc.Outcome = r
		case err := <-linkDone:
			mc.Outcome = "link ended: " + errText(err)
			linkDone <- err
		case <-time.After(3 * time.Second):
			mc.Outcome = "hang"
		}
		mc.Hits = zooTake()
		out = append(out, mc)
	}
	call("initial graph", "Tenant.Backend.Who", `"first"/`)
	call("initial graph", "Direct.Who", `"d-first"/`)
	root.Tenant = &MutTenant{Backend: &MutBackend{"second"}} // an intermediate pointer is replaced
	call("after replacing the intermediate sub-object", "Tenant.Backend.Who", `"second"/`)
	root.Tenant.Backend = &MutBackend{"third"} // the last pointer is replaced
	call("after replacing the last sub-object", "Tenant.Backend.Who", `"third"/`)
	root.Direct = &MutBackend{"d-second"}
	call("after replacing a direct sub-object", "Direct.Who", `"d-second"/`)
	// frames that name no function at all, after valid requests on the same link: nothing of an earlier
	// request may be reused, no application code runs (the link answers with an error or ends)
	raw := func(step, frame string) {
		reqIn <- json.RawMessage(frame)
		mc := MutCase{Mut: true, Step: step, Fn: frame, Expect: "NO-APPLICATION-CODE"}
		select {
		case r := <-resp:
			mc.Outcome = r
		case err := <-linkDone:
			mc.Outcome = "link ended: " + errText(err)
			linkDone <- err
		case <-time.After(3 * time.Second):
			mc.Outcome = "hang"
		}
		mc.Hits = zooTake()
		if len(mc.Hits) == 0 && mc.Outcome != "hang" {
			mc.Outcome = "NO-APPLICATION-CODE"
		}
		out = append(out, mc)
	}
	raw("a request without a function name after a valid request", `{"call":"n1","args":[]}`)
	cancel()
	select {
	case <-linkDone:
	case <-time.After(3 * time.Second):
	}
	out = append(out, runNoFunctionHistory(`{"call":"n2","function":null,"args":[]}`, "a request whose function name is null after a valid request")...)
	out = append(out, runNoFunctionHistory(`{"call":"n3","function":"","args":[]}`, "a request whose function name is empty after a valid request")...)
	out = append(out, runClosureEntryNames()...)
	return out
}

type cbRemote struct {
	Do func(ctx context.Context, cb func(ctx context.Context, x int) (int, error)) (int, error)
}

// while a call that passes a function is in flight, the peer names the built-in closure entry point in other
// spellings: only the exact name is the extra callable
func runClosureEntryNames() []MutCase {
	ctx, cancel := context.WithCancel(context.Background())
	defer cancel()
	reg := rpc.NewRegistry[cbRemote, json.RawMessage](struct{}{}, nil)
	reqIn := make(chan json.RawMessage, 1)
	resIn := make(chan json.RawMessage, 1)
	reqOut := make(chan json.RawMessage, 4)
	resp := make(chan string, 4)
	linkDone := make(chan error, 1)
	get := func(ch chan json.RawMessage) func() (json.RawMessage, error) {
		return func() (json.RawMessage, error) {
			select {
			case b := <-ch:
				return b, nil
			case <-ctx.Done():
				return nil, ctx.Err()
			}
		}
	}
	go func() {
		linkDone <- reg.LinkMessage(ctx,
			func(b json.RawMessage) error { reqOut <- b; return nil },
			func(b json.RawMessage) error { resp <- string(b); return nil },
			get(reqIn), get(resIn),
			func(v any) (json.RawMessage, error) { b, err := json.Marshal(v); return b, err },
			func(d json.RawMessage, v any) error { return json.Unmarshal(d, v) },
			nil)
	}()
	var remote cbRemote
	got := false
	for dl := time.Now().Add(2 * time.Second); time.Now().Before(dl) && !got; time.Sleep(200 * time.Microsecond) {
		reg.ForRemotes(func(id string, r cbRemote) error { remote, got = r, true; return nil })
	}
	var out []MutCase
	if !got {
		return []MutCase{{Mut: true, Step: "closure entry point names", Fn: "-", Expect: "NO-APPLICATION-CODE", Outcome: "no remote"}}
	}
	var mu sync.Mutex
	ran := 0
	callDone := make(chan struct{})
	go func() {
		defer close(callDone)
		remote.Do(ctx, func(ctx context.Context, x int) (int, error) { mu.Lock(); ran++; mu.Unlock(); return x + 1, nil })
	}()
	var req struct {
		Call string            `json:"call"`
		Args []json.RawMessage `json:"args"`
	}
	select {
	case b := <-reqOut:
		json.Unmarshal(b, &req)
	case <-time.After(3 * time.Second):
		return []MutCase{{Mut: true, Step: "closure entry point names", Fn: "-", Expect: "NO-APPLICATION-CODE", Outcome: "no request written"}}
	}
	if len(req.Args) == 0 {
		return out
	}
	id := string(req.Args[0])
	for k, name := range []string{"callclosure", "CALLCLOSURE", "Callclosure", "callClosure", "CallClosure "} {
		if len(out) > 0 && strings.HasPrefix(out[len(out)-1].Outcome, "link ended") {
			break // the link has (legitimately) ended on the previous name
		}
		mu.Lock()
		before := ran
		mu.Unlock()
		reqIn <- json.RawMessage(fmt.Sprintf(`{"call":"q%d","function":%q,"args":[%s,[5]]}`, k, name, id))
		mc := MutCase{Mut: true, Step: "while a call passing a function is in flight", Fn: name, Expect: "NO-APPLICATION-CODE"}
		select {
		case r := <-resp:
			mc.Outcome = r
		case err := <-linkDone:
			mc.Outcome = "link ended: " + errText(err)
			linkDone <- err
		case <-time.After(3 * time.Second):
			mc.Outcome = "hang"
		}
		mu.Lock()
		if ran != before {
			mc.Hits = []string{fmt.Sprintf("the caller's function (ran %d time(s))", ran-before)}
		} else if mc.Outcome != "hang" {
			mc.Outcome = "NO-APPLICATION-CODE"
		}
		mu.Unlock()
		out = append(out, mc)
	}
	cancel()
	select {
	case <-callDone:
	case <-time.After(3 * time.Second):
	}
	return out
}

// one valid request, then one frame that names no function, on a fresh link
func runNoFunctionHistory(frame, step string) []MutCase {
	zooTake()
	root := &MutRoot{Tenant: &MutTenant{Backend: &MutBackend{"first"}}, Direct: &MutBackend{"d-first"}}
	ctx, cancel := context.WithCancel(context.Background())
	defer cancel()
	reg := rpc.NewRegistry[struct{}, json.RawMessage](root, nil)
	reqIn := make(chan json.RawMessage, 1)
	resp := make(chan string, 4)
	linkDone := make(chan error, 1)
	go func() {
		linkDone <- reg.LinkMessage(ctx,
			func(b json.RawMessage) error { return nil },
			func(b json.RawMessage) error { resp <- string(b); return nil },
			func() (json.RawMessage, error) {
				select {
				case b := <-reqIn:
					return b, nil
				case <-ctx.Done():
					return nil, ctx.Err()
				}
			},
			func() (json.RawMessage, error) { <-ctx.Done(); return nil, ctx.Err() },
			func(v any) (json.RawMessage, error) { b, err := json.Marshal(v); return b, err },
			func(d json.RawMessage, v any) error { return json.Unmarshal(d, v) },
			nil)
	}()
	reqIn <- json.RawMessage(`{"call":"v1","function":"Direct.Who","args":[]}`)
	select {
	case <-resp:
	case <-time.After(3 * time.Second):
	}
	zooTake()
	reqIn <- json.RawMessage(frame)
	mc := MutCase{Mut: true, Step: step, Fn: frame, Expect: "NO-APPLICATION-CODE"}
	select {
	case r := <-resp:
		mc.Outcome = r
	case err := <-linkDone:
		mc.Outcome = "link ended: " + errText(err)
		linkDone <- err
	case <-time.After(3 * time.Second):
		mc.Outcome = "hang"
	}
	mc.Hits = zooTake()
	if len(mc.Hits) == 0 && mc.Outcome != "hang" {
		mc.Outcome = "NO-APPLICATION-CODE"
	}
	cancel()
	select {
	case <-linkDone:
	case <-time.After(3 * time.Second):
	}
	return []MutCase{mc}
}
