package harness

// sched.go — deterministic scheduler core: goroutines park at labels (in-source verifhook
// yield points or harness-owned callbacks) and are released one at a time; quiescence is
// detected with testing/synctest.

import (
	"fmt"
	"runtime"
	"sort"
	"strconv"
	"strings"
	"sync"
)

func goid() uint64 {
	var buf [64]byte
	n := runtime.Stack(buf[:], false)
	// "goroutine 123 [running]:"
	s := string(buf[:n])
	s = strings.TrimPrefix(s, "goroutine ")
	i := strings.IndexByte(s, ' ')
	id, _ := strconv.ParseUint(s[:i], 10, 64)
	return id
}

type Thread struct {
	Name   string
	Kind   string // label class of the first park ("app", "waiter", "pub", ...)
	Key    string
	Label  string // label currently parked at ("" when running / blocked / done)
	Parked bool
	Done   bool
	resume chan struct{}
	Data   map[string]any
}

type Event struct {
	Kind string         `json:"k"`
	Data map[string]any `json:"d,omitempty"`
}

type Sched struct {
	mu      sync.Mutex
	byGoid  map[uint64]*Thread
	Threads []*Thread
	Active  func(label string) bool
	Namer   func(label, key string, s *Sched) (kind string, name string)
	Events  []Event
	Aborted bool
	KeepLabel string // with Aborted: goroutines still park at this label
}

func NewSched() *Sched {
	return &Sched{byGoid: map[uint64]*Thread{}}
}

// Register names the calling goroutine
func (s *Sched) Register(name, kind, key string) *Thread {
	g := goid()
	s.mu.Lock()
	defer s.mu.Unlock()
	th := &Thread{Name: name, Kind: kind, Key: key, resume: make(chan struct{}), Data: map[string]any{"goid": g}}
	s.byGoid[g] = th
	s.Threads = append(s.Threads, th)
	return th
}

// Current returns the thread of the calling goroutine (nil if unknown)
func (s *Sched) Current() *Thread {
	g := goid()
	s.mu.Lock()
	defer s.mu.Unlock()
	return s.byGoid[g]
}

func (s *Sched) Log(kind string, data map[string]any) {
	s.mu.Lock()
	s.Events = append(s.Events, Event{kind, data})
	s.mu.Unlock()
}

func (s *Sched) TakeEvents() []Event {
	s.mu.Lock()
	ev := s.Events
	s.Events = nil
	s.mu.Unlock()
	return ev
}

// Park blocks the calling goroutine at label until it is released. Unknown goroutines are
// registered through Namer (nil name = don't park).
func (s *Sched) Park(label, key string) {
	g := goid()
	s.mu.Lock()
	if s.Aborted && (s.KeepLabel == "" || label != s.KeepLabel) {
		s.mu.Unlock()
		return
	}
	th := s.byGoid[g]
	if th == nil {
		if s.Namer == nil {
			s.mu.Unlock()
			return
		}
		kind, name := s.Namer(label, key, s)
		if name == "" {
			s.mu.Unlock()
			return
		}
		th = &Thread{Name: name, Kind: kind, Key: key, resume: make(chan struct{}), Data: map[string]any{"goid": g}}
		s.byGoid[g] = th
		s.Threads = append(s.Threads, th)
	}
	if s.Active != nil && !s.Active(label) {
		s.mu.Unlock()
		return
	}
	th.Label = label
	th.Parked = true
	s.mu.Unlock()

	<-th.resume

	s.mu.Lock()
	th.Parked = false
	th.Label = ""
	s.mu.Unlock()
}

// Finish marks the calling goroutine's thread as done
func (s *Sched) Finish() {
	g := goid()
	s.mu.Lock()
	if th := s.byGoid[g]; th != nil {
		th.Done = true
	}
	s.mu.Unlock()
}

// Release lets a parked thread continue; the caller then waits for quiescence
func (s *Sched) Release(th *Thread) bool {
	s.mu.Lock()
	ok := th.Parked
	s.mu.Unlock()
	if !ok {
		return false
	}
	th.resume <- struct{}{}
	return true
}

func (s *Sched) Runnable() []*Thread {
	s.mu.Lock()
	defer s.mu.Unlock()
	var r []*Thread
	for _, th := range s.Threads {
		if th.Parked {
			r = append(r, th)
		}
	}
	return r
}

func (s *Sched) ByName(name string) *Thread {
	s.mu.Lock()
	defer s.mu.Unlock()
	for _, th := range s.Threads {
		if th.Name == name {
			return th
		}
	}
	return nil
}

// AbortKeep releases everything that is parked except goroutines at label keep (application code that
// has not returned yet) and makes later parks at other labels no-ops
func (s *Sched) AbortKeep(keep string) {
	s.mu.Lock()
	s.Aborted = true
	s.KeepLabel = keep
	var parked []*Thread
	for _, th := range s.Threads {
		if th.Parked && th.Label != keep {
			parked = append(parked, th)
		}
	}
	s.mu.Unlock()
	for _, th := range parked {
		th.resume <- struct{}{}
	}
}

// Abort releases everything that is parked and makes later parks no-ops
func (s *Sched) Abort() {
	s.mu.Lock()
	s.Aborted = true
	s.KeepLabel = ""
	var parked []*Thread
	for _, th := range s.Threads {
		if th.Parked {
			parked = append(parked, th)
		}
	}
	s.mu.Unlock()
	for _, th := range parked {
		th.resume <- struct{}{}
	}
}

// Snapshot: name -> status string ("@label", "blocked", "done")
func (s *Sched) Snapshot() map[string]string {
	s.mu.Lock()
	defer s.mu.Unlock()
	m := map[string]string{}
	for _, th := range s.Threads {
		switch {
		case th.Done:
			m[th.Name] = "done"
		case th.Parked:
			m[th.Name] = "@" + th.Label
		default:
			m[th.Name] = "blocked"
		}
	}
	return m
}

func SortedKeys(m map[string]string) []string {
	ks := make([]string, 0, len(m))
	for k := range m {
		ks = append(ks, k)
	}
	sort.Strings(ks)
	return ks
}

// PanrpcGoroutines returns the stacks of goroutines that have a panrpc frame
func PanrpcGoroutines() []string {
	buf := make([]byte, 1<<20)
	n := runtime.Stack(buf, true)
	var out []string
	for _, g := range strings.Split(string(buf[:n]), "\n\n") {
		if strings.Contains(g, "panrpc/go/pkg/rpc.") || strings.Contains(g, "panrpc/go/pkg/utils.") {
			out = append(out, g)
		}
	}
	return out
}

var _ = fmt.Sprintf
