package harness

// remote.go — remote definitions for C18: validation outcome of Link and, for valid definitions,
// the function name every stub puts on the wire.

import (
	"context"
	"encoding/json"
	"errors"
	"fmt"
	"reflect"
	"sort"
	"strings"
	"sync"
	"time"

	"github.com/pojntfx/panrpc/go/pkg/rpc"
)

type RNode struct {
	Name   string  `json:"name"`
	Kind   string  `json:"kind"` // func struct other
	NIn    int     `json:"nin"`
	Ctx    bool    `json:"ctx"`  // first parameter implements context.Context
	NOut   int     `json:"nout"`
	ErrLast bool   `json:"errlast"`
	Fields []RNode `json:"fields,omitempty"`
}

type RemoteCase struct {
	Def     string            `json:"def"`
	Desc    RNode             `json:"desc"`
	LinkErr string            `json:"linkerr"`           // "" = link healthy
	Names   map[string]string `json:"names,omitempty"`   // dotted field path -> function name seen on the wire
	E2E     map[string]string `json:"e2e,omitempty"`     // dotted field path -> path of the method that ran on a real peer
	LinkErr2 string           `json:"linkerr2,omitempty"` // the outcome of linking the same registry a second time (rejected definitions)
	Enum    []string          `json:"enum,omitempty"`    // disagreements between ForRemotes and the connect/disconnect notifications
}

var ctxT = reflect.TypeOf((*context.Context)(nil)).Elem()
var errT = reflect.TypeOf((*error)(nil)).Elem()

func describeRemote(name string, t reflect.Type) RNode {
	n := RNode{Name: name}
	switch t.Kind() {
	case reflect.Func:
		if hasUnusableFuncParam(t) {
			// valid for Link's validation (it only looks at the field's own signature) but no call through it
			// ever reaches the wire: it has no observable wire name, so it is described like an ignored field
			n.Kind = "other"
			return n
		}
		n.Kind, n.NIn, n.NOut = "func", t.NumIn(), t.NumOut()
		n.Ctx = t.NumIn() > 0 && t.In(0).Implements(ctxT)
		n.ErrLast = t.NumOut() > 0 && t.Out(t.NumOut()-1).Implements(errT)
	case reflect.Struct:
		n.Kind = "struct"
		for i := 0; i < t.NumField(); i++ {
			n.Fields = append(n.Fields, describeRemote(t.Field(i).Name, t.Field(i).Type))
		}
	default:
		n.Kind = "other"
	}
	return n
}

type fOK = func(ctx context.Context, x int) (int, error)
type fE = func(ctx context.Context) error

type rdValid1 struct {
	A fOK
	N struct {
		B fE
		D struct {
			C  fOK
			C2 fE
		}
		E fOK
	}
	Z    fE
	Num  int
	Name string
}
type rdValid2 struct {
	First struct{ P fE }
	Mid   fOK
	Last  struct {
		Q  fOK
		In struct{ R fE }
	}
	After fE
}
type rdEmpty struct{}
type rdNoFuncs struct {
	X int
	S struct{ Y string }
}
type rdBadRet0 struct {
	A fOK
	B func(ctx context.Context)
}
type rdBadRet3 struct {
	N struct {
		D struct {
			Ok  fE
			Bad func(ctx context.Context) (int64, string, error)
		}
	}
	Z fE
}
type rdBadRetErrFirst struct { // an error among the results, but not as the last one
	F func(ctx context.Context) (error, string)
}
type rdBadRetNoErr struct {
	A func(ctx context.Context) (int, int)
}
type rdBadRetNoErr1 struct {
	N struct{ A func(ctx context.Context) int }
}
type rdBadArgs0 struct {
	Ok fE
	A  func() error
}
type rdBadArgsNoCtx struct {
	S struct {
		T struct{ A func(x int) (int, error) }
	}
}
type rdTwoBad struct { // the first offending field in field order decides: args error before return error
	A func(x int) error
	B func(ctx context.Context) int
}
type rdTwoBad2 struct { // return error first (nested, depth first)
	N struct{ B func(ctx context.Context) int }
	A func(x int) error
}
type rdBothBad struct { // one field with both defects: the return check comes first
	A func(x int) int
}
// an embedded (anonymous) struct: its function fields are reached through the embedded field's name
type RdBase struct {
	F fOK
	G fE
}
type rdEmbedded struct {
	RdBase
	Own fE
	Tail struct {
		RdBase
		H fOK
	}
}

// first parameters: `any` is not a context; an interface wider than context.Context is one
type traceCtx interface {
	context.Context
	TraceID() string
}
type tctx struct{ context.Context }

func (tctx) TraceID() string { return "t" }

type rdAnyFirst struct {
	Ok fE
	N  struct{ A func(x any) error }
}
type rdWiderCtx struct {
	Ok fE
	T  func(ctx traceCtx, x int) (int, error)
}

type rdChan struct {
	C  chan int
	M  map[string]fE
	Ok fOK
	P  *struct{ X fE }
}

func runRemote[R any](name string) RemoteCase {
	var zero R
	rc := RemoteCase{Def: name, Desc: describeRemote("", reflect.TypeOf(zero)), Names: map[string]string{}}
	var hmu sync.Mutex
	var connects, disconnects []string
	// the application creates the registry with an (as yet empty) hooks value and fills it in before linking
	rhooks := &rpc.RegistryHooks{}
	reg := rpc.NewRegistry[R, json.RawMessage](struct{}{}, rhooks)
	rhooks.OnClientConnect = func(id string) { hmu.Lock(); connects = append(connects, id); hmu.Unlock() }
	rhooks.OnClientDisconnect = func(id string) { hmu.Lock(); disconnects = append(disconnects, id); hmu.Unlock() }
	hooks := func() (c, d []string) {
		hmu.Lock()
		defer hmu.Unlock()
		return append([]string{}, connects...), append([]string{}, disconnects...)
	}
	// the enumeration against the notifications: whatever was announced as connected before the enumeration
	// and not announced as disconnected by the time it is over must be in it, and nothing else
	probe := func(when string) {
		c0, d0 := hooks()
		var enum []string
		reg.ForRemotes(func(id string, r R) error { enum = append(enum, id); return nil })
		c1, d1 := hooks()
		if len(c0) != len(c1) || len(d0) != len(d1) {
			return // a notification arrived meanwhile: no verdict from this probe
		}
		live := []string{}
		for _, id := range c0 {
			gone := false
			for _, x := range d0 {
				gone = gone || x == id
			}
			if !gone {
				live = append(live, id)
			}
		}
		sort.Strings(enum)
		sort.Strings(live)
		if strings.Join(enum, ",") != strings.Join(live, ",") {
			rc.Enum = append(rc.Enum, fmt.Sprintf("%s: ForRemotes enumerates %d remote(s) %v, but the links announced as connected and not yet as disconnected are %v", when, len(enum), enum, live))
		}
	}
	waitConnect := func() {
		for dl := time.Now().Add(time.Second); time.Now().Before(dl); time.Sleep(200 * time.Microsecond) {
			if c, _ := hooks(); len(c) > 0 {
				return
			}
		}
	}
	ctx, cancel := context.WithCancel(context.Background())
	defer cancel()
	// after the link's context ended: the disconnect notification arrives and the enumeration is empty again
	finish := func() {
		cancel()
		for dl := time.Now().Add(2 * time.Second); time.Now().Before(dl); time.Sleep(200 * time.Microsecond) {
			if c, d := hooks(); len(d) >= len(c) {
				break
			}
		}
		probe("after the link's context was cancelled")
	}
	// a rejected definition is rejected on every link of the registry, not only on the first
	relink := func() string {
		ctx2, cancel2 := context.WithCancel(context.Background())
		defer cancel2()
		e2 := make(chan error, 1)
		t0 := time.Now()
		slow := &rpc.LinkHooks{OnClientConnect: func(id string) { time.Sleep(1200 * time.Millisecond) }}
		go func() {
			e2 <- reg.LinkMessage(ctx2,
				func(b json.RawMessage) error { return nil }, func(b json.RawMessage) error { return nil },
				func() (json.RawMessage, error) { <-ctx2.Done(); return nil, ctx2.Err() },
				func() (json.RawMessage, error) { <-ctx2.Done(); return nil, ctx2.Err() },
				func(v any) (json.RawMessage, error) { b, err := json.Marshal(v); return b, err },
				func(d json.RawMessage, v any) error { return json.Unmarshal(d, v) }, slow)
		}()
		select {
		case err := <-e2:
			if d := time.Since(t0); d > 700*time.Millisecond {
				return fmt.Sprintf("LATE (after %v, i.e. only after the link's slow connect notification had returned): %s", d.Round(100*time.Millisecond), errText(err))
			}
			return errText(err)
		case <-time.After(3 * time.Second):
			return "NO-ERROR: the second link of the same registry stays up"
		}
	}
	frames := make(chan string, 64)
	linkErr := make(chan error, 1)
	go func() {
		linkErr <- reg.LinkMessage(ctx,
			func(b json.RawMessage) error {
				var q struct {
					Function string `json:"function"`
				}
				json.Unmarshal(b, &q)
				frames <- q.Function
				return nil
			},
			func(b json.RawMessage) error { return nil },
			func() (json.RawMessage, error) { <-ctx.Done(); return nil, ctx.Err() },
			func() (json.RawMessage, error) { <-ctx.Done(); return nil, ctx.Err() },
			func(v any) (json.RawMessage, error) { b, err := json.Marshal(v); return b, err },
			func(d json.RawMessage, v any) error { return json.Unmarshal(d, v) }, nil)
	}()
	// link fails with a signature error, or the remote shows up
	var remote R
	got := false
	deadline := time.Now().Add(2 * time.Second)
	for time.Now().Before(deadline) && !got {
		select {
		case err := <-linkErr:
			rc.LinkErr = errText(err)
			waitConnect()
			probe("the link was rejected (" + rc.LinkErr + ") but its reads have not returned yet")
			finish()
			rc.LinkErr2 = relink()
			return rc
		default:
		}
		reg.ForRemotes(func(id string, r R) error { remote, got = r, true; return nil })
		time.Sleep(200 * time.Microsecond)
	}
	// give a signature error a moment to surface (setErr happens before registration)
	select {
	case err := <-linkErr:
		rc.LinkErr = errText(err)
		waitConnect()
		probe("the link was rejected (" + rc.LinkErr + ") but its reads have not returned yet")
		finish()
		rc.LinkErr2 = relink()
		return rc
	case <-time.After(20 * time.Millisecond):
	}
	probe("the link is up")
	if c0, _ := hooks(); got && len(c0) == 0 {
		rc.Enum = append(rc.Enum, "the link is up and its remote is enumerated, but the registry-wide connect notification (hooks filled in after NewRegistry, before linking) was never made")
	}
	if !got {
		rc.LinkErr = "NO-REMOTE"
		return rc
	}
	// call every stub once and read the function name off the wire
	var walk func(v reflect.Value, prefix string)
	walk = func(v reflect.Value, prefix string) {
		for i := 0; i < v.NumField(); i++ {
			f := v.Field(i)
			path := prefix + v.Type().Field(i).Name
			switch f.Kind() {
			case reflect.Struct:
				walk(f, path+".")
			case reflect.Func:
				if f.IsNil() {
					rc.Names[path] = "NIL-STUB"
					continue
				}
				if hasUnusableFuncParam(f.Type()) {
					// calling it ends the link by design (the closures workload does that on purpose)
					continue
				}
				cctx, ccancel := context.WithCancel(context.Background())
				args := []reflect.Value{reflect.ValueOf(cctx)}
				if !reflect.TypeOf(cctx).AssignableTo(f.Type().In(0)) {
					args = []reflect.Value{reflect.ValueOf(tctx{cctx})}
				}
				for k := 1; k < f.Type().NumIn(); k++ {
					args = append(args, reflect.Zero(f.Type().In(k)))
				}
				done := make(chan struct{})
				go func() { defer close(done); defer func() { recover() }(); f.Call(args) }()
				select {
				case name := <-frames:
					rc.Names[path] = name
				case <-time.After(2 * time.Second):
					rc.Names[path] = "NO-FRAME"
				}
				ccancel()
				<-done
			}
		}
	}
	walk(reflect.ValueOf(remote), "")
	probe("after every stub was called")
	finish()
	select {
	case <-linkErr:
	case <-time.After(2 * time.Second):
	}
	return rc
}

// ---- end to end: every stub of a valid definition is called against a real peer whose object graph
// mirrors the definition with sub-objects held by value and by pointer ----
type pathRec struct {
	mu   chan struct{}
	last []string
}

func newPathRec() *pathRec { p := &pathRec{mu: make(chan struct{}, 1)}; p.mu <- struct{}{}; return p }
func (p *pathRec) hit(s string) { <-p.mu; p.last = append(p.last, s); p.mu <- struct{}{} }
func (p *pathRec) take() []string {
	<-p.mu
	l := p.last
	p.last = nil
	p.mu <- struct{}{}
	return l
}

type lv1 struct {
	r *pathRec
	N *lv1N // by pointer
}
type lv1N struct {
	r *pathRec
	D lv1D // by value
}
type lv1D struct{ r *pathRec }

func (l *lv1) A(ctx context.Context, x int) (int, error) { l.r.hit("A"); return x, nil }
func (l *lv1) Z(ctx context.Context) error               { l.r.hit("Z"); return nil }
func (n *lv1N) B(ctx context.Context) error              { n.r.hit("N.B"); return nil }
func (n *lv1N) E(ctx context.Context, x int) (int, error) { n.r.hit("N.E"); return x, nil }
func (d lv1D) C(ctx context.Context, x int) (int, error) { d.r.hit("N.D.C"); return x, nil }
func (d lv1D) C2(ctx context.Context) error              { d.r.hit("N.D.C2"); return nil }

type lv2 struct {
	r     *pathRec
	First lv2F  // by value
	Last  *lv2L // by pointer
}
type lv2F struct{ r *pathRec }
type lv2L struct {
	r  *pathRec
	In *lv2I // by pointer below a pointer: three components, both intermediates pointer-held
}
type lv2I struct{ r *pathRec }

func (l *lv2) Mid(ctx context.Context, x int) (int, error) { l.r.hit("Mid"); return x, nil }
func (l *lv2) After(ctx context.Context) error             { l.r.hit("After"); return nil }
func (f lv2F) P(ctx context.Context) error                 { f.r.hit("First.P"); return nil }
func (l *lv2L) Q(ctx context.Context, x int) (int, error)  { l.r.hit("Last.Q"); return x, nil }
func (i *lv2I) R(ctx context.Context) error                { i.r.hit("Last.In.R"); return nil }

type lvE struct {
	r      *pathRec
	RdBase lvEB
	Tail   *lvET
}
type lvEB struct {
	r   *pathRec
	pre string
}
type lvET struct {
	r      *pathRec
	RdBase lvEB
}

func (l *lvE) Own(ctx context.Context) error                 { l.r.hit("Own"); return nil }
func (b lvEB) F(ctx context.Context, x int) (int, error)     { b.r.hit(b.pre + "RdBase.F"); return x, nil }
func (b lvEB) G(ctx context.Context) error                   { b.r.hit(b.pre + "RdBase.G"); return nil }
func (t *lvET) H(ctx context.Context, x int) (int, error)    { t.r.hit("Tail.H"); return x, nil }

// non-exported function fields are function fields like any other: an invalid signature fails the link
type rdUnexpRet struct {
	Ok     fE
	helper func()
}
type rdUnexpArgs struct {
	Ok    fE
	Inner struct {
		callback func(s string) error
	}
}

// field names that coincide with names panrpc uses internally (its closure manager's exported method,
// the registry's own methods): they are ordinary paths of the peer's struct
type rdNames struct {
	CallClosure func(ctx context.Context, closureID string, args []interface{}) (interface{}, error)
	N           struct {
		CallClosure fE
		ForRemotes  fOK
	}
	LinkMessage fE
	Close       fOK
}
type lvN struct {
	r *pathRec
	N lvNN
}
type lvNN struct{ r *pathRec }

func (l *lvN) CallClosure(ctx context.Context, closureID string, args []interface{}) (interface{}, error) {
	l.r.hit("CallClosure")
	return nil, nil
}
func (l *lvN) LinkMessage(ctx context.Context) error              { l.r.hit("LinkMessage"); return nil }
func (l *lvN) Close(ctx context.Context, x int) (int, error)      { l.r.hit("Close"); return x, nil }
func (n lvNN) CallClosure(ctx context.Context) error              { n.r.hit("N.CallClosure"); return nil }
func (n lvNN) ForRemotes(ctx context.Context, x int) (int, error) { n.r.hit("N.ForRemotes"); return x, nil }

// the peer reaches the nested service through a field promoted from an embedded struct (legal Go: svc.Store.Get);
// the embedded struct has a method of the same name as a decoy
type rdPromoted struct {
	Store struct {
		Get fOK
		Put fE
	}
	Own fE
}
type lvP struct {
	r *pathRec
	lvPbase
}
type lvPbase struct {
	r     *pathRec
	Pad   int
	Store lvPS
}
type lvPS struct{ r *pathRec }

func (l *lvP) Own(ctx context.Context) error                    { l.r.hit("Own"); return nil }
func (b lvPbase) Get(ctx context.Context, x int) (int, error)   { b.r.hit("base.Get"); return x, nil }
func (s lvPS) Get(ctx context.Context, x int) (int, error)      { s.r.hit("Store.Get"); return x, nil }
func (s lvPS) Put(ctx context.Context) error                    { s.r.hit("Store.Put"); return nil }

// the peer holds a nested service through an interface-typed field
type rdIface struct {
	Greeter struct {
		Greet fOK
	}
	Own fE
}
type lvGreeter interface {
	Greet(ctx context.Context, x int) (int, error)
}
type lvGimpl struct{ r *pathRec }

func (g lvGimpl) Greet(ctx context.Context, x int) (int, error) { g.r.hit("Greeter.Greet"); return x, nil }

type lvI struct {
	r       *pathRec
	Greeter lvGreeter
}

func (l *lvI) Own(ctx context.Context) error { l.r.hit("Own"); return nil }

// four levels deep with several function fields side by side at the deepest level (paths that share a long
// prefix), and nested services whose names differ only in case (Go identifiers are case sensitive)
type rdDeep struct {
	Outer struct {
		Inner struct {
			Deep struct {
				First  fE
				Second fOK
				Third  fE
			}
			Side fE
		}
		Edge fOK
	}
	API struct{ Version fE }
	Api struct{ Version fOK }
}
type lvD struct {
	r     *pathRec
	Outer lvDO
	API   lvDA1
	Api   *lvDA2
}
type lvDO struct {
	r     *pathRec
	Inner *lvDI
}
type lvDI struct {
	r    *pathRec
	Deep lvDD
}
type lvDD struct{ r *pathRec }
type lvDA1 struct{ r *pathRec }
type lvDA2 struct{ r *pathRec }

func (d lvDD) First(ctx context.Context) error                 { d.r.hit("Outer.Inner.Deep.First"); return nil }
func (d lvDD) Second(ctx context.Context, x int) (int, error)  { d.r.hit("Outer.Inner.Deep.Second"); return x, nil }
func (d lvDD) Third(ctx context.Context) error                 { d.r.hit("Outer.Inner.Deep.Third"); return nil }
func (i *lvDI) Side(ctx context.Context) error                 { i.r.hit("Outer.Inner.Side"); return nil }
func (o lvDO) Edge(ctx context.Context, x int) (int, error)    { o.r.hit("Outer.Edge"); return x, nil }
func (a lvDA1) Version(ctx context.Context) error              { a.r.hit("API.Version"); return nil }
func (a *lvDA2) Version(ctx context.Context, x int) (int, error) { a.r.hit("Api.Version"); return x, nil }

func runRemoteE2E[R any](name string, local any, rec *pathRec) RemoteCase {
	var zero R
	rc := RemoteCase{Def: name, Desc: describeRemote("", reflect.TypeOf(zero)), E2E: map[string]string{}}
	caller := rpc.NewRegistry[R, json.RawMessage](struct{}{}, nil)
	callee := rpc.NewRegistry[struct{}, json.RawMessage](local, nil)
	ctx, cancel := context.WithCancel(context.Background())
	defer cancel()
	c := jsonRawCodec()
	abReq, abRes, baReq, baRes := newFrameQ[json.RawMessage](), newFrameQ[json.RawMessage](), newFrameQ[json.RawMessage](), newFrameQ[json.RawMessage]()
	e1, e2 := make(chan error, 1), make(chan error, 1)
	go func() { e1 <- caller.LinkMessage(ctx, abReq.Put, abRes.Put, baReq.Get, baRes.Get, c.Marshal, c.Unmarshal, nil) }()
	go func() { e2 <- callee.LinkMessage(ctx, baReq.Put, baRes.Put, abReq.Get, abRes.Get, c.Marshal, c.Unmarshal, nil) }()
	var remote R
	got := false
	deadline := time.Now().Add(2 * time.Second)
	for time.Now().Before(deadline) && !got {
		caller.ForRemotes(func(id string, r R) error { remote, got = r, true; return nil })
		time.Sleep(200 * time.Microsecond)
	}
	if !got {
		rc.LinkErr = "NO-REMOTE"
		return rc
	}
	var walk func(v reflect.Value, prefix string)
	walk = func(v reflect.Value, prefix string) {
		for i := 0; i < v.NumField(); i++ {
			f := v.Field(i)
			path := prefix + v.Type().Field(i).Name
			switch f.Kind() {
			case reflect.Struct:
				walk(f, path+".")
			case reflect.Func:
				if f.IsNil() {
					rc.E2E[path] = "NIL-STUB"
					continue
				}
				cctx, ccancel := context.WithTimeout(context.Background(), 2*time.Second)
				args := []reflect.Value{reflect.ValueOf(cctx)}
				for k := 1; k < f.Type().NumIn(); k++ {
					args = append(args, reflect.Zero(f.Type().In(k)))
				}
				var out []reflect.Value
				func() { defer func() { recover() }(); out = f.Call(args) }()
				ccancel()
				ran := strings.Join(rec.take(), ",")
				if len(out) > 0 && !out[len(out)-1].IsNil() {
					ran += " error: " + out[len(out)-1].Interface().(error).Error()
				}
				rc.E2E[path] = ran
			}
		}
	}
	walk(reflect.ValueOf(remote), "")
	cancel()
	for _, q := range []*frameQ[json.RawMessage]{abReq, abRes, baReq, baRes} {
		q.Close(errors.New("closed"))
	}
	for _, e := range []chan error{e1, e2} {
		select {
		case <-e:
		case <-time.After(2 * time.Second):
		}
	}
	return rc
}

// a parameter of function type that cannot be turned into a closure (its last result is not an error)
func hasUnusableFuncParam(t reflect.Type) bool {
	for k := 0; k < t.NumIn(); k++ {
		p := t.In(k)
		if p.Kind() == reflect.Func && (p.NumOut() == 0 || !p.Out(p.NumOut()-1).Implements(errT)) {
			return true
		}
	}
	return false
}

func RunRemotes() []RemoteCase {
	r1, r2, r3, r4, r5, r6, r7 := newPathRec(), newPathRec(), newPathRec(), newPathRec(), newPathRec(), newPathRec(), newPathRec()
	e2e := []RemoteCase{
		runRemoteE2E[rdDeep]("deep/e2e", &lvD{r: r7, Outer: lvDO{r: r7, Inner: &lvDI{r: r7, Deep: lvDD{r7}}}, API: lvDA1{r7}, Api: &lvDA2{r7}}, r7),
		runRemoteE2E[rdEmbedded]("embedded/e2e", &lvE{r: r3, RdBase: lvEB{r3, ""}, Tail: &lvET{r: r3, RdBase: lvEB{r3, "Tail."}}}, r3),
		runRemoteE2E[rdValid1]("valid1/e2e", &lv1{r: r1, N: &lv1N{r: r1, D: lv1D{r1}}}, r1),
		runRemoteE2E[rdIface]("iface/e2e", &lvI{r: r6, Greeter: lvGimpl{r6}}, r6),
		runRemoteE2E[rdPromoted]("promoted/e2e", &lvP{r: r5, lvPbase: lvPbase{r: r5, Store: lvPS{r5}}}, r5),
		runRemoteE2E[rdNames]("names/e2e", &lvN{r: r4, N: lvNN{r4}}, r4),
		runRemoteE2E[rdValid2]("valid2/e2e", &lv2{r: r2, First: lv2F{r2}, Last: &lv2L{r: r2, In: &lv2I{r2}}}, r2),
	}
	out := []RemoteCase{
		runRemote[rdValid1]("valid1"), runRemote[rdValid2]("valid2"), runRemote[rdEmpty]("empty"), runRemote[rdNoFuncs]("nofuncs"),
		runRemote[rdBadRet0]("badret0"), runRemote[rdBadRet3]("badret3"), runRemote[rdBadRetNoErr]("badret-noerr"), runRemote[rdBadRetErrFirst]("badret-errfirst"),
		runRemote[rdBadRetNoErr1]("badret-noerr1"), runRemote[rdBadArgs0]("badargs0"), runRemote[rdBadArgsNoCtx]("badargs-noctx"),
		runRemote[rdTwoBad]("twobad"), runRemote[rdTwoBad2]("twobad2"), runRemote[rdBothBad]("bothbad"), runRemote[rdChan]("chan-map-ptr"),
		runRemote[sysRemote]("sysremote"), runRemote[epRemote]("epremote"),
		runRemote[rdEmbedded]("embedded"), runRemote[rdAnyFirst]("anyfirst"), runRemote[rdWiderCtx]("widerctx"),
		runRemote[rdNames]("names"), runRemote[rdPromoted]("promoted"), runRemote[rdUnexpRet]("unexp-ret"), runRemote[rdUnexpArgs]("unexp-args"), runRemote[rdDeep]("deep"),
	}
	out = append(out, e2e...)
	sort.Slice(out, func(i, j int) bool { return out[i].Def < out[j].Def })
	return out
}

var _ = errors.New
var _ = strings.Join
