package harness

// zoo.go — exposed-object zoo for path resolution (C06, C07): hand-written Go types covering value /
// pointer receivers, exported / unexported methods and fields, nesting by value / pointer /
// embedding (also multi-level and through nil pointers), interface-typed fields (nil and
// non-nil), func-typed fields, named non-struct types with methods, several instances of one
// type.  For every root there is (a) a reflection-derived description (type facts + value graph)
// that is the input of the Coq model Resolve.v, and (b) a HAND-WRITTEN list of what must be
// callable (written from the Go language rules, without reflect): the independent oracle.

import (
	"context"
	"errors"
	"fmt"
	"reflect"
	"sort"
	"sync"
)

var zooMu sync.Mutex
var zooLog []string

func zooHit(inst, meth string) {
	zooMu.Lock()
	zooLog = append(zooLog, inst+"."+meth)
	zooMu.Unlock()
}

func zooTake() []string {
	zooMu.Lock()
	defer zooMu.Unlock()
	l := zooLog
	zooLog = nil
	return l
}

type Leaf struct{ ID string }

func (l Leaf) id() string { return l.ID }
func (l *Leaf) pid() string {
	if l == nil {
		return "nil-Leaf"
	}
	return l.ID
}
func (l Leaf) Get(ctx context.Context) (int, error)          { zooHit(l.id(), "Get"); return 1, nil }
func (l *Leaf) Set(ctx context.Context, x int) error         { zooHit(l.pid(), "Set"); return nil }
func (l Leaf) hidden(ctx context.Context) error              { zooHit(l.id(), "hidden"); return nil }
func (l Leaf) Two(ctx context.Context, a, b int) (int, error) { zooHit(l.id(), "Two"); return a + b, nil }
func (l *Leaf) Do(ctx context.Context) error                 { zooHit(l.pid(), "Do"); return nil }

type Doer interface {
	Do(ctx context.Context) error
}

type Counter int

func (c Counter) Inc(ctx context.Context) (int, error) { zooHit(fmt.Sprintf("counter%d", int(c)), "Inc"); return int(c) + 1, nil }

type Mid struct {
	ID       string
	ByVal    Leaf
	ByPtr    *Leaf
	NilPtr   *Leaf
	Fn       func(ctx context.Context) error
	Num      int
	priv     Leaf
	Iface    Doer
	NilIface Doer
	Cnt      Counter
	PP       **Leaf
}

func (m *Mid) pid() string {
	if m == nil {
		return "nil-Mid"
	}
	return m.ID
}
func (m *Mid) Name(ctx context.Context) (int, error) { zooHit(m.pid(), "Name"); return 2, nil }
func (m Mid) Val(ctx context.Context) error          { zooHit(m.ID, "Val"); return nil }

type Emb struct{ EID string }

func (e Emb) EmbVal(ctx context.Context) error { zooHit(e.EID, "EmbVal"); return nil }
func (e *Emb) EmbPtr(ctx context.Context) error {
	if e == nil {
		zooHit("nil-Emb", "EmbPtr")
	} else {
		zooHit(e.EID, "EmbPtr")
	}
	return nil
}

type EmbP struct {
	PID   string
	Inner Leaf
}

func (e *EmbP) PtrM(ctx context.Context) error {
	if e == nil {
		zooHit("nil-EmbP", "PtrM")
	} else {
		zooHit(e.PID, "PtrM")
	}
	return nil
}
func (e EmbP) ValM(ctx context.Context) error { zooHit(e.PID, "ValM"); return nil }

type Root1 struct {
	RID string
	Emb
	*EmbP
	A Mid
	B *Mid
	C *Mid
}

func (r *Root1) Top(ctx context.Context) error { zooHit(r.RID, "Top"); return nil }
func (r Root1) TopVal(ctx context.Context) error { zooHit(r.RID, "TopVal"); return nil }

type Deep3 struct{ X Leaf }

func (d Deep3) D3(ctx context.Context) error { zooHit("deep3", "D3"); return nil }

type Deep2 struct{ Deep3 }
type Deep1 struct{ Deep2 }

type Root2 struct {
	*EmbP // nil
	Deep  Deep1
	unexp Mid
}

func mkMid(id string) Mid {
	l := &Leaf{ID: id + ".byptr"}
	pl := &Leaf{ID: id + ".pp"}
	return Mid{ID: id, ByVal: Leaf{ID: id + ".byval"}, ByPtr: l, Fn: func(ctx context.Context) error { zooHit(id, "Fn"); return nil },
		priv: Leaf{ID: id + ".priv"}, Iface: &Leaf{ID: id + ".iface"}, Cnt: 7, PP: &pl}
}

func mkRoot1() Root1 {
	b := mkMid("B")
	c := mkMid("C")
	return Root1{RID: "root1", Emb: Emb{EID: "emb"}, EmbP: &EmbP{PID: "embp", Inner: Leaf{ID: "embp.inner"}}, A: mkMid("A"), B: &b, C: &c}
}

// Shadow exposes methods named like panrpc's own built-in closure entry point: the exposed object is
// looked up first, so these application methods are the ones that run
type Shadow struct {
	ID  string
	Sub ShadowSub
}
type ShadowSub struct{ ID string }

func (s *Shadow) CallClosure(ctx context.Context, closureID string, args []interface{}) (interface{}, error) {
	zooHit(s.ID, "CallClosure")
	return "app", nil
}
func (s *Shadow) Get(ctx context.Context) (int, error) { zooHit(s.ID, "Get"); return 3, nil }
func (s ShadowSub) CallClosure(ctx context.Context, x int) (int, error) {
	zooHit(s.ID, "CallClosure")
	return x, nil
}

// a root that embeds a mutex (promoted methods without a context parameter) and holds a service behind an
// unexported interface-typed field: none of that is callable by a peer
type journal struct{ ID string }

func (j journal) Flush(ctx context.Context) error { zooHit(j.ID, "Flush"); return nil }

type auditor interface {
	Note(ctx context.Context) error
}
type auditImpl struct {
	ID      string
	Journal journal
}

func (a *auditImpl) Note(ctx context.Context) error { zooHit(a.ID, "Note"); return nil }

type Guarded struct {
	sync.Mutex
	ID    string
	audit auditor
	Pub   auditor
}

func (g *Guarded) Status(ctx context.Context) (int, error) { zooHit(g.ID, "Status"); return 5, nil }

// methods whose single result is not an error, and methods without results: callable like any other
func (g *Guarded) Count(ctx context.Context) int64 { zooHit(g.ID, "Count"); return 5 }
func (g *Guarded) Label(ctx context.Context) string { zooHit(g.ID, "Label"); return "guarded" }
func (g *Guarded) Touch(ctx context.Context)        { zooHit(g.ID, "Touch") }

// exported methods that take no context at all (an io.Closer, a reset): they are not functions a peer can name
func (g *Guarded) Reset()       { zooHit(g.ID, "Reset") }
func (g *Guarded) Close() error { zooHit(g.ID, "Close"); return nil }

// Expected: path -> "instance.method/argc" (argc = parameters without the context)
type ZooRoot struct {
	Name     string
	Value    any
	Callable map[string]string
	Extra    []string // further names to try against this root (paths reflection-based enumeration does not produce)
}

func midCallable(prefix, id string, addressable bool) map[string]string {
	m := map[string]string{
		prefix + "Val":         id + ".Val/0",
		prefix + "ByVal.Get":   id + ".byval.Get/0",
		prefix + "ByVal.Two":   id + ".byval.Two/2",
		prefix + "ByPtr.Get":   id + ".byptr.Get/0",
		prefix + "ByPtr.Two":   id + ".byptr.Two/2",
		prefix + "ByPtr.Set":   id + ".byptr.Set/1",
		prefix + "ByPtr.Do":    id + ".byptr.Do/0",
		prefix + "NilPtr.Set":  "nil-Leaf.Set/1",
		prefix + "NilPtr.Do":   "nil-Leaf.Do/0",
		prefix + "Iface.Do":    id + ".iface.Do/0",
		prefix + "Cnt.Inc":     "counter7.Inc/0",
		// value-receiver methods through a nil pointer are in the method set but panic on call: no
		// application code runs (reflect panics before the body): not listed.
	}
	return m
}

func merge(ms ...map[string]string) map[string]string {
	out := map[string]string{}
	for _, m := range ms {
		for k, v := range m {
			out[k] = v
		}
	}
	return out
}

func ZooRoots() []ZooRoot {
	r1 := mkRoot1()
	r1p := mkRoot1()
	r1p.RID = "root1p"
	common := func(rid string) map[string]string {
		return merge(
			midCallable("A.", "A", false), midCallable("B.", "B", true), midCallable("C.", "C", true),
			map[string]string{
				"TopVal":          rid + ".TopVal/0",
				"B.Name":          "B.Name/0",
				"C.Name":          "C.Name/0",
				"EmbVal":          "emb.EmbVal/0",
				"Emb.EmbVal":      "emb.EmbVal/0",
				"PtrM":            "embp.PtrM/0",
				"ValM":            "embp.ValM/0",
				"EmbP.PtrM":       "embp.PtrM/0",
				"EmbP.ValM":       "embp.ValM/0",
				"Inner.Get":       "embp.inner.Get/0",
				"Inner.Two":       "embp.inner.Two/2",
				"EmbP.Inner.Get":  "embp.inner.Get/0",
				"EmbP.Inner.Two":  "embp.inner.Two/2",
			})
	}
	byValue := common("root1")
	byPtr := merge(common("root1p"), map[string]string{"Top": "root1p.Top/0", "EmbPtr": "emb.EmbPtr/0"})
	r2 := &Root2{Deep: Deep1{Deep2{Deep3{X: Leaf{ID: "deep.x"}}}}, unexp: mkMid("U")}
	leaf := Leaf{ID: "rootleaf"}
	return []ZooRoot{
		{Name: "root1-value", Value: r1, Callable: byValue},
		{Name: "root1-pointer", Value: &r1p, Callable: byPtr},
		{Name: "root2-nil-embedded", Value: r2, Callable: map[string]string{
			"PtrM": "nil-EmbP.PtrM/0", "EmbP.PtrM": "nil-EmbP.PtrM/0",
			"Deep.D3": "deep3.D3/0", "Deep.Deep2.D3": "deep3.D3/0", "Deep.Deep2.Deep3.D3": "deep3.D3/0", "Deep.Deep3.D3": "deep3.D3/0",
			"Deep.X.Get": "deep.x.Get/0", "Deep.X.Two": "deep.x.Two/2", "Deep.Deep2.X.Get": "deep.x.Get/0", "Deep.Deep2.X.Two": "deep.x.Two/2",
			"Deep.Deep2.Deep3.X.Get": "deep.x.Get/0", "Deep.Deep2.Deep3.X.Two": "deep.x.Two/2", "Deep.Deep3.X.Get": "deep.x.Get/0", "Deep.Deep3.X.Two": "deep.x.Two/2",
		}},
		{Name: "nil-root", Value: nil, Callable: map[string]string{}},
		{Name: "leaf-value", Value: leaf, Callable: map[string]string{"Get": "rootleaf.Get/0", "Two": "rootleaf.Two/2"}},
		{Name: "leaf-pointer", Value: &Leaf{ID: "rootleafp"}, Callable: map[string]string{"Get": "rootleafp.Get/0", "Two": "rootleafp.Two/2", "Set": "rootleafp.Set/1", "Do": "rootleafp.Do/0"}},
		{Name: "int-root", Value: 42, Callable: map[string]string{}},
		{Name: "counter-root", Value: Counter(7), Callable: map[string]string{"Inc": "counter7.Inc/0"}},
		{Name: "shadow-root", Value: &Shadow{ID: "shadow", Sub: ShadowSub{ID: "shadow.sub"}}, Callable: map[string]string{
			"CallClosure": "shadow.CallClosure/2", "Get": "shadow.Get/0", "Sub.CallClosure": "shadow.sub.CallClosure/1"}},
		{Name: "guarded-root", Value: &Guarded{ID: "guarded", audit: &auditImpl{ID: "audit", Journal: journal{ID: "journal"}}, Pub: &auditImpl{ID: "pubaudit", Journal: journal{ID: "pubjournal"}}},
			Callable: map[string]string{"Status": "guarded.Status/0", "Pub.Note": "pubaudit.Note/0", "Count": "guarded.Count/0", "Label": "guarded.Label/0", "Touch": "guarded.Touch/0"},
			Extra: []string{"Reset", "Close", "audit.Note", "audit.Journal.Flush", "audit.Journal", "Pub.Journal.Flush", "Mutex.Lock", "Lock", "Unlock", "TryLock", "Mutex.Unlock",
				"audit.Journal.Flush.X", "Pub.Journal.ID"}},
	}
}

// ---- reflection-derived description for the Coq model ----

type ZMeth struct {
	NIn     int  `json:"nin"`     // parameters without the receiver (the context included)
	Via     int  `json:"via"`     // index of the embedded field the method is promoted through, -1 = declared on this type
	PtrRecv bool `json:"ptrrecv"` // declared with a pointer receiver (only meaningful when Via = -1)
}

type ZType struct {
	ID     int              `json:"id"`
	Name   string           `json:"name"`
	Short  string           `json:"short"`
	Kind   string           `json:"kind"` // struct ptr iface other
	Elem   int              `json:"elem"` // ptr: pointee type
	Fields []ZField         `json:"fields,omitempty"`
	ByName map[string][]int `json:"byname,omitempty"` // FieldByName index paths (promoted included)
	VM     []string         `json:"vm,omitempty"`     // method set of T (names)
	PM     map[string]ZMeth `json:"pm,omitempty"`     // method set of *T (T not a pointer / interface)
	IM     map[string]int   `json:"im,omitempty"`     // interface methods: name -> NumIn
}

type ZField struct {
	Name     string `json:"name"`
	Exported bool   `json:"exported"`
	Embedded bool   `json:"embedded"`
	Type     int    `json:"type"`
}

type ZValue struct {
	Type   int      `json:"type"`
	Kind   string   `json:"kind"` // struct ptr iface other invalid
	Inst   string   `json:"inst,omitempty"`
	Fields []ZValue `json:"fields,omitempty"`
	Nil    bool     `json:"nil,omitempty"`
	Elem   *ZValue  `json:"elem,omitempty"`
}

type ZDesc struct {
	Types []ZType `json:"types"`
	Root  ZValue  `json:"root"`
}

type zbuilder struct {
	ids   map[reflect.Type]int
	types []ZType
}

func (b *zbuilder) typ(t reflect.Type) int {
	if id, ok := b.ids[t]; ok {
		return id
	}
	id := len(b.types)
	b.ids[t] = id
	b.types = append(b.types, ZType{ID: id, Name: t.String()})
	zt := ZType{ID: id, Name: t.String(), Short: t.Name(), PM: map[string]ZMeth{}, IM: map[string]int{}}
	if t.Kind() == reflect.Interface {
		for i := 0; i < t.NumMethod(); i++ {
			zt.IM[t.Method(i).Name] = t.Method(i).Type.NumIn()
		}
	} else if t.Kind() != reflect.Ptr {
		for i := 0; i < t.NumMethod(); i++ {
			zt.VM = append(zt.VM, t.Method(i).Name)
		}
		pt := reflect.PointerTo(t)
		for i := 0; i < pt.NumMethod(); i++ {
			m := pt.Method(i)
			_, inV := t.MethodByName(m.Name)
			via := -1
			if t.Kind() == reflect.Struct {
				for fi := 0; fi < t.NumField(); fi++ {
					f := t.Field(fi)
					if !f.Anonymous {
						continue
					}
					ft := f.Type
					if ft.Kind() != reflect.Ptr {
						ft = reflect.PointerTo(ft)
					}
					if _, ok := ft.MethodByName(m.Name); ok {
						via = fi
						break
					}
				}
			}
			zt.PM[m.Name] = ZMeth{NIn: m.Type.NumIn() - 1, Via: via, PtrRecv: !inV}
		}
	}
	switch t.Kind() {
	case reflect.Struct:
		zt.Kind = "struct"
		zt.ByName = map[string][]int{}
		names := map[string]bool{}
		var collect func(t reflect.Type, depth int)
		collect = func(t reflect.Type, depth int) {
			if depth > 6 {
				return
			}
			for i := 0; i < t.NumField(); i++ {
				f := t.Field(i)
				names[f.Name] = true
				ft := f.Type
				if f.Anonymous {
					if ft.Kind() == reflect.Ptr {
						ft = ft.Elem()
					}
					if ft.Kind() == reflect.Struct {
						collect(ft, depth+1)
					}
				}
			}
		}
		collect(t, 0)
		for i := 0; i < t.NumField(); i++ {
			f := t.Field(i)
			zt.Fields = append(zt.Fields, ZField{Name: f.Name, Exported: f.IsExported(), Embedded: f.Anonymous, Type: b.typ(f.Type)})
		}
		for n := range names {
			if f, ok := t.FieldByName(n); ok {
				zt.ByName[n] = f.Index
			}
		}
	case reflect.Ptr:
		zt.Kind = "ptr"
		zt.Elem = b.typ(t.Elem())
	case reflect.Interface:
		zt.Kind = "iface"
	default:
		zt.Kind = "other"
	}
	b.types[id] = zt
	return id
}

func instOf(v reflect.Value) string {
	if v.Kind() == reflect.Struct {
		for _, n := range []string{"ID", "RID", "EID", "PID"} {
			// only a direct field counts
			if sf, ok := v.Type().FieldByName(n); ok && len(sf.Index) == 1 && sf.Type.Kind() == reflect.String {
				return v.Field(sf.Index[0]).String()
			}
		}
		if v.Type().Name() == "Deep3" {
			return "deep3"
		}
	}
	if v.Type().Name() == "Counter" {
		return fmt.Sprintf("counter%d", v.Int())
	}
	return ""
}

func (b *zbuilder) val(v reflect.Value, depth int) ZValue {
	if !v.IsValid() {
		return ZValue{Kind: "invalid", Type: -1}
	}
	zv := ZValue{Type: b.typ(v.Type())}
	switch v.Kind() {
	case reflect.Struct:
		zv.Kind = "struct"
		zv.Inst = instOf(v)
		for i := 0; i < v.NumField(); i++ {
			zv.Fields = append(zv.Fields, b.val(v.Field(i), depth+1))
		}
	case reflect.Ptr:
		zv.Kind = "ptr"
		if v.IsNil() {
			zv.Nil = true
			// keep the pointee type known
			b.typ(v.Type().Elem())
		} else {
			e := b.val(v.Elem(), depth+1)
			zv.Elem = &e
		}
	case reflect.Interface:
		zv.Kind = "iface"
		if v.IsNil() {
			zv.Nil = true
		} else {
			e := b.val(v.Elem(), depth+1)
			zv.Elem = &e
		}
	default:
		zv.Kind = "other"
		zv.Inst = instOf(v)
	}
	return zv
}

func DescribeRoot(root any) ZDesc {
	b := &zbuilder{ids: map[reflect.Type]int{}}
	rv := reflect.ValueOf(root)
	return ZDesc{Root: b.val(rv, 0), Types: b.types}
}

// AllNames returns every field and method name that occurs anywhere in the description (path alphabet)
func (d ZDesc) AllNames() []string {
	set := map[string]bool{}
	for _, t := range d.Types {
		for _, f := range t.Fields {
			set[f.Name] = true
		}
		for n := range t.ByName {
			set[n] = true
		}
		for m := range t.PM {
			set[m] = true
		}
		for m := range t.IM {
			set[m] = true
		}
	}
	var out []string
	for n := range set {
		out = append(out, n)
	}
	sort.Strings(out)
	return out
}

var _ = errors.New
