package harness

// racestress.go — C20 (race run) and C04: windows that only the real scheduler reaches.
//   - responses arriving while the calls they answer are being cancelled (the response's hand-over races the
//     release of the pending-call entry), many rounds;
//   - a handler that invokes a function it was passed from two goroutines at once, both invocations failing
//     inside panrpc (nil context): what each invocation reports is its own.

import (
	"context"
	"fmt"
	"runtime"
	"sync"
	"sync/atomic"
	"time"
)

func FamRaceStress(seed int64, rounds int) SysRecord {
	rec := SysRecord{Family: "racestress", Config: "json-raw/message", Seed: seed}
	c := jsonRawCodec()
	p, err := newPair(c, false, -1, seed)
	if err != nil {
		rec.Notes = append(rec.Notes, err.Error())
		return rec
	}
	bg, bgCancel := context.WithTimeout(context.Background(), 60*time.Second)
	defer bgCancel()
	// responses racing the cancellation of their calls
	var bad atomic.Int64
	for k := 0; k < rounds; k++ {
		cctx, ccancel := context.WithCancel(bg)
		p.l.BAres.Release(nil) // late answers of the previous round
		p.l.BAres.SetHold(k%2 == 0)
		var wg sync.WaitGroup
		const n = 16
		for j := 0; j < n; j++ {
			wg.Add(1)
			go func() {
				defer wg.Done()
				v, err := p.ra.EchoInt(cctx, 91000, int64(j))
				if err == nil && v != int64(j) {
					bad.Add(1)
				}
			}()
		}
		// the responses are held by the transport until all have been written, then released while the calls are
		// being cancelled
		if k%2 == 0 {
			waitUntil(func() bool { return p.l.BAres.HeldLen() >= n }, 3*time.Second)
			go p.l.BAres.Release(nil)
			for s := 0; s < k%7; s++ {
				runtime.Gosched()
			}
		} else {
			for s := 0; s < k%5; s++ {
				time.Sleep(20 * time.Microsecond)
			}
		}
		ccancel()
		if !waitAll(&wg, 5*time.Second) {
			rec.Hang = true
			rec.Notes = append(rec.Notes, fmt.Sprintf("round %d: calls cancelled while their responses arrived did not return", k))
			return rec
		}
	}
	p.l.BAres.SetHold(false)
	p.l.BAres.Release(nil)
	if bad.Load() > 0 {
		rec.Notes = append(rec.Notes, fmt.Sprintf("%d calls returned a nil error with another call's value", bad.Load()))
	}
	// the link is still healthy
	pctx, pcancel := context.WithTimeout(bg, 3*time.Second)
	v, err := p.ra.EchoInt(pctx, 91001, 42)
	pcancel()
	rec.Calls = append(rec.Calls, SysCall{Tag: 91001, From: "A", Method: "Probe", Ret: canon(v), Err: errText(err), Extra: "after responses raced the cancellation of their calls", Done: true})
	// two invocations of one passed function fail inside panrpc at the same time
	for k := 0; k < 3; k++ {
		q, err := newPair(c, k%2 == 1, -1, seed+int64(k))
		if err != nil {
			break
		}
		ictx, icancel := context.WithTimeout(bg, 4*time.Second)
		s, err := q.ra.IterNilCtx(ictx, 91010, func(ctx context.Context, x int) (int, error) { return x, nil })
		icancel()
		rec.Calls = append(rec.Calls, SysCall{Tag: 91010, From: "A", Method: "IterNilCtx", Ret: s, Err: errText(err), Done: true})
		q.close()
	}
	p.close()
	return rec
}
