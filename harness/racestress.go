package harness

// racestress.go — C20 (race run) and C04: windows that only the real scheduler reaches.
//   - responses arriving while the calls they answer are being cancelled (the response's hand-over races the
//     release of the pending-call entry), many rounds;
//   - a handler that invokes a function it was passed from two goroutines at once, both invocations failing
//     inside panrpc (nil context): what each invocation reports is its own.

import (
	"github.com/pojntfx/panrpc/go/pkg/rpc"
	"context"
	"encoding/json"
	"errors"
	"fmt"
	"runtime"
	"strings"
	"sync"
	"sync/atomic"
	"time"
)

func FamRaceStress(seed int64, rounds int) SysRecord {
	rec := SysRecord{Family: "racestress", Config: "json-raw/message", Seed: seed}
	c := jsonRawCodec()
	p, err := newPair(c, false, -1, seed)
	if err != nil {
		rec.Notes = append(rec.Notes, err.Error())
		return rec
	}
	bg, bgCancel := context.WithTimeout(context.Background(), 60*time.Second)
	defer bgCancel()
	// a context that was cancelled explicitly and whose deadline passes later: the call returns the CONTEXT's
	// error (context canceled); a cancelled call with a pointer result returns the zero result (nil)
	{
		dctx, dcancel := context.WithDeadline(bg, time.Now().Add(25*time.Millisecond))
		dcancel()
		time.Sleep(40 * time.Millisecond)
		v, err := p.ra.EchoInt(dctx, 90990, 5)
		rec.Calls = append(rec.Calls, SysCall{Tag: 90990, From: "A", Method: "CancelledThenDeadlinePassed", Ret: canon(v), Err: errText(err), Extra: errText(dctx.Err()), Done: true})
		cctx, ccancel := context.WithCancel(bg)
		ccancel()
		pv, perr := p.ra.EchoPtr(cctx, 90991, &Rec{})
		rec.Calls = append(rec.Calls, SysCall{Tag: 90991, From: "A", Method: "CancelledPointerResult", Ret: canon(pv), Err: errText(perr), Extra: fmt.Sprint(pv == nil), Done: true})
	}
	// responses racing the cancellation of their calls
	var bad atomic.Int64
	for k := 0; k < rounds; k++ {
		cctx, ccancel := context.WithCancel(bg)
		p.l.BAres.Release(nil) // late answers of the previous round
		p.l.BAres.SetHold(k%2 == 0)
		var wg sync.WaitGroup
		const n = 16
		for j := 0; j < n; j++ {
			wg.Add(1)
			go func() {
				defer wg.Done()
				v, err := p.ra.EchoInt(cctx, 91000, int64(j))
				if err == nil && v != int64(j) {
					bad.Add(1)
				}
			}()
		}
		// the responses are held by the transport until all have been written, then released while the calls are
		// being cancelled
		if k%2 == 0 {
			waitUntil(func() bool { return p.l.BAres.HeldLen() >= n }, 3*time.Second)
			go p.l.BAres.Release(nil)
			for s := 0; s < k%7; s++ {
				runtime.Gosched()
			}
		} else {
			for s := 0; s < k%5; s++ {
				time.Sleep(20 * time.Microsecond)
			}
		}
		ccancel()
		if !waitAll(&wg, 5*time.Second) {
			rec.Hang = true
			rec.Notes = append(rec.Notes, fmt.Sprintf("round %d: calls cancelled while their responses arrived did not return", k))
			return rec
		}
	}
	p.l.BAres.SetHold(false)
	p.l.BAres.Release(nil)
	if bad.Load() > 0 {
		rec.Notes = append(rec.Notes, fmt.Sprintf("%d calls returned a nil error with another call's value", bad.Load()))
	}
	// the link is still healthy
	pctx, pcancel := context.WithTimeout(bg, 3*time.Second)
	v, err := p.ra.EchoInt(pctx, 91001, 42)
	pcancel()
	rec.Calls = append(rec.Calls, SysCall{Tag: 91001, From: "A", Method: "Probe", Ret: canon(v), Err: errText(err), Extra: "after responses raced the cancellation of their calls", Done: true})
	// two invocations of one passed function fail inside panrpc at the same time
	for k := 0; k < 3; k++ {
		q, err := newPair(c, k%2 == 1, -1, seed+int64(k))
		if err != nil {
			break
		}
		ictx, icancel := context.WithTimeout(bg, 4*time.Second)
		s, err := q.ra.IterNilCtx(ictx, 91010, func(ctx context.Context, x int) (int, error) { return x, nil })
		icancel()
		rec.Calls = append(rec.Calls, SysCall{Tag: 91010, From: "A", Method: "IterNilCtx", Ret: s, Err: errText(err), Done: true})
		q.close()
	}
	p.close()
	return rec
}

// FamNames — C01 "exactly one invocation of the function it named": the peer exposes functions whose names
// coincide with names panrpc uses internally (CallClosure, LinkMessage, Close). A call of each is an invocation
// of the peer's own function of that name, exactly once.
func FamNames(seed int64) SysRecord {
	rec := SysRecord{Family: "conc", Config: "json-raw/message/exposed functions named like panrpc's own", Seed: seed}
	r4 := newPathRec()
	rc := runRemoteE2E[rdNames]("names/e2e", &lvN{r: r4, N: lvNN{r4}}, r4)
	if rc.LinkErr != "" {
		rec.Notes = append(rec.Notes, "the definition did not link: "+rc.LinkErr)
		return rec
	}
	for path, ran := range rc.E2E {
		rec.Calls = append(rec.Calls, SysCall{Tag: 0, From: "A", Method: "NamedLikeInternal", Arg: path, Ret: ran, Done: true})
	}
	return rec
}

// FamBigNames — C15: many links each ended by the peer naming a function that does not exist, with a name of
// 1 MiB that differs from link to link. After the links have ended nothing of them may remain reachable from the
// registry: the live heap does not grow with the number of finished links.
func FamBigNames(seed int64) SysRecord {
	rec := SysRecord{Family: "earlycancel", Config: "json-raw/message 24 links each ended by a request for an unknown function with a name of 1 MiB", Seed: seed}
	w := newWorld()
	node := NewSysNode[json.RawMessage](w, "A")
	c := jsonRawCodec()
	heap := func() uint64 {
		runtime.GC()
		runtime.GC()
		var m runtime.MemStats
		runtime.ReadMemStats(&m)
		return m.HeapAlloc
	}
	one := func(k int) {
		ctx, cancel := context.WithCancel(context.Background())
		defer cancel()
		reqIn, resIn := newFailQ(), newFailQ()
		sink := func(b json.RawMessage) error { return nil }
		errc := make(chan error, 1)
		go func() { errc <- node.Reg.LinkMessage(ctx, sink, sink, reqIn.Get, resIn.Get, c.Marshal, c.Unmarshal, nil) }()
		name := fmt.Sprintf("NoSuchFunction%06d", k) + strings.Repeat("x", 1<<20)
		reqIn.ch <- json.RawMessage(`{"call":"q","function":"` + name + `","args":[]}`)
		select {
		case <-errc:
		case <-time.After(3 * time.Second):
			rec.Notes = append(rec.Notes, "BIG-NAMES the link did not end after a request for an unknown function")
		}
		cancel()
		other := errors.New("closed")
		select {
		case reqIn.fail <- other:
		default:
		}
		select {
		case resIn.fail <- other:
		default:
		}
		waitUntil(func() bool { return len(node.Remotes()) == 0 }, 2*time.Second)
	}
	one(0)
	time.Sleep(20 * time.Millisecond)
	h0 := heap()
	for k := 1; k <= 24; k++ {
		one(k)
	}
	time.Sleep(50 * time.Millisecond)
	h1 := heap()
	runtime.KeepAlive(node) // the registry is still in use: what it retains counts
	if h1 > h0+10<<20 {
		rec.Notes = append(rec.Notes, fmt.Sprintf("BIG-NAMES after 24 further links had ended (each by a request naming an unknown function, names of 1 MiB) the live heap had grown by %d MiB: something of the finished links is still reachable from the registry", (h1-h0)>>20))
	}
	return rec
}

// FamNilLocalCaller — C11: a registry that exposes nothing (created with a nil local object: a pure caller) passes
// a function to its peer; the peer invokes it: the function runs with the peer's arguments and its result is
// handed back, as for any other caller.
func FamNilLocalCaller(seed int64) SysRecord {
	rec := SysRecord{Family: "closures", Config: "json-raw/message/the caller exposes nothing (nil local object)", Seed: seed}
	w := newWorld()
	callee := NewSysNode[json.RawMessage](w, "B")
	caller := rpc.NewRegistry[sysRemote, json.RawMessage](nil, nil)
	ctx, cancel := context.WithCancel(context.Background())
	defer cancel()
	c := jsonRawCodec()
	abReq, abRes, baReq, baRes := newFrameQ[json.RawMessage](), newFrameQ[json.RawMessage](), newFrameQ[json.RawMessage](), newFrameQ[json.RawMessage]()
	e1, e2 := make(chan error, 1), make(chan error, 1)
	go func() { e1 <- caller.LinkMessage(ctx, abReq.Put, abRes.Put, baReq.Get, baRes.Get, c.Marshal, c.Unmarshal, nil) }()
	go func() { e2 <- callee.Reg.LinkMessage(ctx, baReq.Put, baRes.Put, abReq.Get, abRes.Get, c.Marshal, c.Unmarshal, nil) }()
	defer func() {
		cancel()
		for _, q := range []*frameQ[json.RawMessage]{abReq, abRes, baReq, baRes} {
			q.Close(errors.New("closed"))
		}
	}()
	var remote sysRemote
	got := false
	waitUntil(func() bool {
		caller.ForRemotes(func(id string, r sysRemote) error { remote, got = r, true; return nil })
		return got
	}, 2*time.Second)
	if !got {
		rec.Notes = append(rec.Notes, "link did not come up")
		return rec
	}
	cctx, ccancel := context.WithTimeout(ctx, 4*time.Second)
	var runs []string
	var mu sync.Mutex
	v, err := remote.Iter(cctx, 470, 3, func(ctx context.Context, i int, s string, xs []int, b bool) (string, error) {
		mu.Lock()
		runs = append(runs, canon([]any{i, s, xs, b}))
		mu.Unlock()
		return fmt.Sprintf("r%d", i), nil
	})
	ccancel()
	mu.Lock()
	rec.Calls = append(rec.Calls, SysCall{Tag: 470, From: "A", Method: "Iter", Arg: "3", Oracle: "-1", Ret: v, Err: errText(err), Done: true, Extra: strings.Join(runs, "|")})
	mu.Unlock()
	return rec
}
