module verifharness

go 1.26

require (
	github.com/fxamacker/cbor/v2 v2.7.0
	github.com/pojntfx/panrpc/go v0.0.0
)

require (
	github.com/google/uuid v1.6.0
	github.com/x448/float16 v0.8.4 // indirect
)

replace github.com/pojntfx/panrpc/go => /repo/go
