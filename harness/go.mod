module verifharness

go 1.26

require (
	github.com/fxamacker/cbor/v2 v2.7.0
	github.com/pojntfx/panrpc/go v0.0.0
)

replace github.com/pojntfx/panrpc/go => /repo/go
