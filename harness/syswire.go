package harness

// syswire.go — C17: capture every frame a real registry emits and decode it with an independent
// generic decoder; send hand-written (foreign) frames to a real registry.

import (
	"sync"
	"sort"
	"context"
	"encoding/json"
	"errors"
	"fmt"
	"math/rand"
	"time"

	"github.com/fxamacker/cbor/v2"
	"github.com/pojntfx/panrpc/go/pkg/rpc"
)

type WireFrame struct {
	Dir     string `json:"dir"`  // A>B-req A>B-res B>A-req B>A-res / stream
	Generic string `json:"gen"`  // canonical JSON of the generically decoded frame (payloads decoded generically too)
	Err     string `json:"err,omitempty"`
}

type WireRecord struct {
	Family  string      `json:"family"`
	Config  string      `json:"config"`
	Seed    int64       `json:"seed"`
	Calls   []SysCall   `json:"calls"`
	Frames  []WireFrame `json:"frames"`
	Foreign []SysCall   `json:"foreign"`
	Notes   []string    `json:"notes,omitempty"`
}

// normalise CBOR generic decoding (map[interface{}]interface{}) into JSON-able values
func norm(v any) any {
	switch x := v.(type) {
	case map[any]any:
		m := map[string]any{}
		for k, val := range x {
			m[fmt.Sprint(k)] = norm(val)
		}
		return m
	case map[string]any:
		m := map[string]any{}
		for k, val := range x {
			m[k] = norm(val)
		}
		return m
	case []any:
		out := make([]any, len(x))
		for i := range x {
			out[i] = norm(x[i])
		}
		return out
	case []byte:
		return map[string]any{"$bytes": string(x)}
	case uint64:
		return float64(x)
	case int64:
		return float64(x)
	}
	return v
}

// decodeFrame decodes a message-API frame independently: outer document, then each payload
func decodeFrame[T any](c Codec[T], f T, isReq bool) (string, error) {
	outer, err := c.Generic(f)
	if err != nil {
		return "", err
	}
	doc, ok := norm(outer).(map[string]any)
	if !ok {
		return "", errors.New("frame is not a map")
	}
	payload := func(v any) (any, error) {
		// nested payloads are either embedded documents (raw) or byte strings (JSON base64 / CBOR bytes)
		switch x := v.(type) {
		case map[string]any:
			if b, ok := x["$bytes"]; ok && len(x) == 1 && isBytesCodec(c.Name) {
				var t T
				if err := assignBytes(&t, []byte(b.(string))); err != nil {
					return nil, err
				}
				g, err := c.Generic(t)
				return norm(g), err
			}
			return x, nil
		case string:
			if isBytesCodec(c.Name) {
				// JSON: []byte is base64 text
				var raw []byte
				if err := json.Unmarshal([]byte(fmt.Sprintf("%q", x)), &raw); err != nil {
					return nil, err
				}
				var t T
				if err := assignBytes(&t, raw); err != nil {
					return nil, err
				}
				g, err := c.Generic(t)
				return norm(g), err
			}
			return x, nil
		}
		if v == nil && isBytesCodec(c.Name) {
			return nil, errors.New("payload is null instead of an encoded value")
		}
		return v, nil
	}
	if isReq {
		if args, ok := doc["args"].([]any); ok {
			for i := range args {
				p, err := payload(args[i])
				if err != nil {
					return "", fmt.Errorf("argument %d is not validly encoded: %w", i, err)
				}
				args[i] = p
			}
		}
	} else if v, ok := doc["value"]; ok {
		p, err := payload(v)
		if err != nil {
			return "", fmt.Errorf("value is not validly encoded: %w", err)
		}
		doc["value"] = map[string]any{"$decoded": p}
	}
	return canon(doc), nil
}

func isBytesCodec(name string) bool { return name == "json-bytes" || name == "cbor-bytes" }

func assignBytes[T any](t *T, b []byte) error {
	switch p := any(t).(type) {
	case *[]byte:
		*p = b
	case *json.RawMessage:
		*p = b
	case *cbor.RawMessage:
		*p = b
	default:
		return errors.New("unknown payload type")
	}
	return nil
}

func FamWire[T any](c Codec[T], seed int64) WireRecord {
	r := rand.New(rand.NewSource(seed))
	rec := WireRecord{Family: "wire", Config: c.Name + "/message", Seed: seed}
	p, err := newPair(c, false, 0, seed)
	if err != nil {
		rec.Notes = append(rec.Notes, err.Error())
		return rec
	}
	ctx, cancel := context.WithTimeout(context.Background(), 15*time.Second)
	defer cancel()
	add := func(cl SysCall) { rec.Calls = append(rec.Calls, cl) }
	// a workload touching every return shape, arities 0..8, closures, nested names
	e0 := p.ra.Zero(ctx)
	add(SysCall{Tag: 0, From: "A", Method: "Zero", Err: errText(e0), Done: true})
	x := int64(r.Intn(1000))
	v1, e1 := p.ra.EchoInt(ctx, 801, x)
	add(SysCall{Tag: 801, From: "A", Method: "EchoInt", Arg: canon(x), Ret: canon(v1), Err: errText(e1), Done: true})
	e2 := p.rb.Fail(ctx, 802, "boom "+GenString(r))
	add(SysCall{Tag: 802, From: "B", Method: "Fail", Err: errText(e2), Done: true})
	e3 := p.rb.Fail(ctx, 803, "<nil>")
	add(SysCall{Tag: 803, From: "B", Method: "Fail", Err: errText(e3), Done: true})
	v4, e4 := p.ra.FailVal(ctx, 804, 9, "valerr")
	add(SysCall{Tag: 804, From: "A", Method: "FailVal", Ret: canon(v4), Err: errText(e4), Done: true})
	v5, e5 := p.ra.FailVal(ctx, 805, 9, "<nil>")
	add(SysCall{Tag: 805, From: "A", Method: "FailVal", Ret: canon(v5), Err: errText(e5), Done: true})
	d := GenRec(r, 1)
	v6, e6 := p.rb.Multi(ctx, 806, 1, "s", []byte("b"), d, nil, []float64{1.5}, true)
	add(SysCall{Tag: 806, From: "B", Method: "Multi", Ret: v6, Err: errText(e6), Done: true})
	v7, e7 := p.ra.Iter(ctx, 807, 2, func(ctx context.Context, i int, s string, xs []int, b bool) (string, error) { return "c", nil })
	add(SysCall{Tag: 807, From: "A", Method: "Iter", Ret: v7, Err: errText(e7), Done: true})
	v8, e8 := p.ra.Sub.Deep.Ping(ctx, 808)
	add(SysCall{Tag: 808, From: "A", Method: "Sub.Deep.Ping", Ret: canon(v8), Err: errText(e8), Done: true})
	v9, e9 := p.rb.EchoPtr(ctx, 809, nil)
	add(SysCall{Tag: 809, From: "B", Method: "EchoPtr", Ret: canon(v9), Err: errText(e9), Done: true})
	// zero values are values: 0, "", a zero struct are encoded as such, not as null
	v10, e10 := p.ra.EchoInt(ctx, 810, 0)
	add(SysCall{Tag: 810, From: "A", Method: "EchoInt", Arg: "0", Ret: canon(v10), Err: errText(e10), Done: true})
	v11, e11 := p.rb.EchoStr(ctx, 811, "")
	add(SysCall{Tag: 811, From: "B", Method: "EchoStr", Arg: `""`, Ret: canon(v11), Err: errText(e11), Done: true})
	v12, e12 := p.ra.FailVal(ctx, 812, 0, "zero with error")
	add(SysCall{Tag: 812, From: "A", Method: "FailVal", Ret: canon(v12), Err: errText(e12), Done: true})
	v13, e13 := p.rb.EchoStruct(ctx, 813, Rec{})
	add(SysCall{Tag: 813, From: "B", Method: "EchoStruct", Ret: canon(v13), Err: errText(e13), Done: true})
	// a closure that takes only a context: its invocation frame carries an empty argument array
	v14, e14 := p.ra.Call0(ctx, 814, func(ctx context.Context) (int, error) { return 8140, nil })
	add(SysCall{Tag: 814, From: "A", Method: "Call0", Ret: canon(v14), Err: errText(e14), Done: true})
	e15 := p.rb.Notify0(ctx, 815)
	add(SysCall{Tag: 815, From: "B", Method: "Notify0", Err: errText(e15), Done: true})
	// two callables in one call: every invocation frame names the callable that was invoked
	v19, e19 := p.ra.Two(ctx, 819, func(ctx context.Context, x int) (int, error) { return x + 10, nil }, func(ctx context.Context, x int) (int, error) { return x + 20, nil })
	add(SysCall{Tag: 819, From: "A", Method: "Two", Ret: canon(v19), Err: errText(e19), Done: true})
	// many overlapping calls of one function: every request frame carries its own call's arguments
	{
		var bw sync.WaitGroup
		var bmu sync.Mutex
		for k := 0; k < 120; k++ {
			bw.Add(1)
			go func() {
				defer bw.Done()
				v, err := p.rb.EchoInt(ctx, 82000+k, int64(7000+k))
				bmu.Lock()
				add(SysCall{Tag: 82000 + k, From: "B", Method: "EchoInt", Arg: fmt.Sprint(7000 + k), Ret: canon(v), Err: errText(err), Done: true})
				bmu.Unlock()
			}()
		}
		bw.Wait()
	}
	// a nil callable is an argument like any other: one element per non-context argument
	e16 := p.ra.Keep(ctx, 816, nil)
	add(SysCall{Tag: 816, From: "A", Method: "Keep", Err: errText(e16), Done: true})
	// a handler whose only result has an error interface type of the application's own
	e17 := p.rb.FailOwn(ctx, 817, 7)
	add(SysCall{Tag: 817, From: "B", Method: "FailOwn", Err: errText(e17), Done: true})
	e18 := p.ra.FailOwn(ctx, 818, 0)
	add(SysCall{Tag: 818, From: "A", Method: "FailOwn", Err: errText(e18), Done: true})

	for _, q := range []struct {
		name  string
		q     *frameQ[T]
		isReq bool
	}{{"A>B-req", p.l.ABreq, true}, {"A>B-res", p.l.ABres, false}, {"B>A-req", p.l.BAreq, true}, {"B>A-res", p.l.BAres, false}} {
		for _, f := range q.q.Seen() {
			g, err := decodeFrame(c, f, q.isReq)
			rec.Frames = append(rec.Frames, WireFrame{Dir: q.name, Generic: g, Err: errText(err)})
		}
	}
	p.close()
	return rec
}

// FamForeign: frames hand-written to the documented protocol (purl / TypeScript style) against a real registry
func FamForeign(seed int64) WireRecord {
	rec := WireRecord{Family: "foreign", Config: "json-raw/message+stream", Seed: seed}
	w := newWorld()
	node := NewSysNode[json.RawMessage](w, "A")
	c := jsonRawCodec()
	reqIn, resOut := newFrameQ[json.RawMessage](), newFrameQ[json.RawMessage]()
	resIn, reqOut := newFrameQ[json.RawMessage](), newFrameQ[json.RawMessage]()
	ctx, cancel := context.WithCancel(context.Background())
	defer cancel()
	errc := make(chan error, 1)
	go func() {
		errc <- node.Reg.LinkMessage(ctx, reqOut.Put, resOut.Put, reqIn.Get, resIn.Get, c.Marshal, c.Unmarshal, nil)
	}()
	send := func(tag int, frame string, what string) {
		reqIn.Put(json.RawMessage(frame))
		got := make(chan json.RawMessage, 1)
		go func() { f, err := resOut.Get(); if err == nil { got <- f } }()
		select {
		case f := <-got:
			rec.Foreign = append(rec.Foreign, SysCall{Tag: tag, Method: what, Arg: frame, Ret: string(f), Done: true})
		case err := <-errc:
			rec.Foreign = append(rec.Foreign, SysCall{Tag: tag, Method: what, Arg: frame, Err: "link ended: " + errText(err), Done: true})
			errc <- err
		case <-time.After(3 * time.Second):
			rec.Foreign = append(rec.Foreign, SysCall{Tag: tag, Method: what, Arg: frame, Err: "no answer"})
		}
	}
	// key order as purl / the TypeScript implementation write it, and permuted
	send(901, `{"call":"c1","function":"EchoInt","args":[901,5]}`, "documented order")
	send(902, `{"args":[902,"hi"],"function":"EchoStr","call":"c2"}`, "permuted keys")
	send(903, `{"call":"c3","function":"Zero","args":[]}`, "no arguments")
	send(904, `{"call":"c4","function":"Fail","args":[904,"nope"]}`, "error result")
	send(905, `{"call":"c5","function":"Sub.Deep.Ping","args":[905]}`, "nested name")
	send(906, `{"call":"c6","function":"FailVal","args":[906,3,"<nil>"],"extra":true}`, "unknown extra key")
	send(907, `{"call":"c7","function":"EchoInt","args":[907,0]}`, "zero result")
	send(908, `{"call":"c8","function":"EchoStr","args":[908,""]}`, "empty string result")
	send(909, `{"call":"c9","function":"Notify0","args":[909]}`, "function without any return value")
	send(910, `{"call":"c10","function":"Greet","args":[910,"x"]}`, "function with a value and no error")
	send(921, `{"call":"c21","function":"Svc.Hello","args":[921]}`, "nested service held in an interface-typed field")
	send(922, `{"call":"c22","function":"Kv.Size","args":[922]}`, "nested service of a named map type")
	send(924, `{"call":"c24","function":"FailOwn","args":[924,5]}`, "function whose only result has an error interface type of the application's own (error outcome)")
	send(925, `{"call":"c25","function":"FailOwn","args":[925,0]}`, "function whose only result has an error interface type of the application's own (nil outcome)")
	// node A calls the foreign peer passing a function whose parameter is a list of lists; the peer invokes it
	// with a hand-written frame that has a null element, then answers the call
	if WaitRemotes(node, 1) {
		var rem sysRemote
		for _, x := range node.Remotes() {
			rem = x
		}
		gdone := make(chan string, 1)
		go func() {
			gctx, gcancel := context.WithTimeout(context.Background(), 4*time.Second)
			defer gcancel()
			v, err := rem.Groups(gctx, 923, func(ctx context.Context, gs [][]string) (string, error) { return fmt.Sprint(len(gs)), nil })
			gdone <- v + "/" + errText(err)
		}()
		got := make(chan json.RawMessage, 1)
		go func() { f, err := reqOut.Get(); if err == nil { got <- f } }()
		select {
		case f := <-got:
			var q struct {
				Call string            `json:"call"`
				Args []json.RawMessage `json:"args"`
			}
			json.Unmarshal(f, &q)
			if len(q.Args) == 2 {
				send(923, fmt.Sprintf(`{"call":"c23","function":"CallClosure","args":[%s,[[["alice"],null,["bob","carol"]]]]}`, string(q.Args[1])), "invocation of a passed function with a null element in a list of lists")
				resIn.Put(json.RawMessage(fmt.Sprintf(`{"call":%q,"value":"ok","err":""}`, q.Call)))
				select {
				case r := <-gdone:
					if r != "ok/" {
						rec.Notes = append(rec.Notes, "the call that passed the function returned "+r+" after the foreign peer answered it with \"ok\"")
					}
				case <-time.After(5 * time.Second):
					rec.Notes = append(rec.Notes, "the call that passed the function did not return after the foreign peer answered it")
				}
			} else {
				rec.Notes = append(rec.Notes, "unexpected request frame for a call passing a function: "+string(f))
			}
		case <-time.After(3 * time.Second):
			rec.Notes = append(rec.Notes, "the request of a call passing a function was not written")
		}
	}
	cancel()
	reqIn.Close(errors.New("closed"))
	resIn.Close(errors.New("closed"))
	select {
	case <-errc:
	case <-time.After(3 * time.Second):
		rec.Notes = append(rec.Notes, "link did not return")
	}
	// stream envelope: exactly one of request / response, absent instead of null accepted
	node2 := NewSysNode[json.RawMessage](w, "A2")
	in, out := newChunkPipe(-1, seed), newChunkPipe(0, seed)
	ctx2, cancel2 := context.WithCancel(context.Background())
	defer cancel2()
	errc2 := make(chan error, 1)
	enc, dec := c.NewEncoder(out), c.NewDecoder(in)
	go func() { errc2 <- node2.Reg.LinkStream(ctx2, enc, dec, c.Marshal, c.Unmarshal, nil) }()
	outDec := json.NewDecoder(out)
	outCh := make(chan string, 16)
	go func() {
		for {
			var m map[string]any
			if err := outDec.Decode(&m); err != nil {
				return
			}
			outCh <- canon(m)
		}
	}()
	sendS := func(tag int, frame string, what string) {
		in.Write([]byte(frame))
		select {
		case f := <-outCh:
			rec.Foreign = append(rec.Foreign, SysCall{Tag: tag, Method: what, Arg: frame, Ret: f, Done: true})
		case err := <-errc2:
			rec.Foreign = append(rec.Foreign, SysCall{Tag: tag, Method: what, Arg: frame, Err: "link ended: " + errText(err), Done: true})
			errc2 <- err
		case <-time.After(3 * time.Second):
			rec.Foreign = append(rec.Foreign, SysCall{Tag: tag, Method: what, Arg: frame, Err: "no answer"})
		}
	}
	// a frame that must not be answered (it carries only a response, for a call nobody made)
	sendNone := func(tag int, frame string, what string) {
		in.Write([]byte(frame))
		select {
		case f := <-outCh:
			rec.Foreign = append(rec.Foreign, SysCall{Tag: tag, Method: what, Arg: frame, Ret: f, Extra: "none-expected", Done: true})
		case <-time.After(150 * time.Millisecond):
			rec.Foreign = append(rec.Foreign, SysCall{Tag: tag, Method: what, Arg: frame, Ret: "", Extra: "none-expected", Done: true})
		}
	}
	sendS(911, `{"request":{"call":"s1","function":"EchoInt","args":[911,6]},"response":null}`+"\n", "envelope with null response")
	sendS(912, `{"request":{"call":"s2","function":"EchoStr","args":[912,"x"]}}`, "envelope with absent response")
	sendS(913, ` {"response":null,"request":{"function":"Zero","call":"s3","args":[]}} `, "permuted envelope")
	// envelopes that carry only a response between envelopes that carry only a request: nothing of an
	// earlier frame may be seen again
	sendNone(914, `{"response":{"call":"nobody","value":1,"err":""}}`, "response-only envelope for an unknown call")
	sendS(915, `{"request":{"call":"s5","function":"EchoInt","args":[915,7]}}`, "request-only envelope after a response-only one")
	sendNone(916, `{"response":{"call":"nobody2","value":null,"err":"x"}}`, "response-only envelope for an unknown call")
	sendS(917, `{"request":{"call":"s7","function":"EchoInt","args":[917,0]}}`, "zero result in an envelope")
	// an envelope that carries neither member is skipped; the stream goes on
	sendNone(918, `{}`, "envelope with neither request nor response")
	sendNone(919, `{"request":null,"response":null}`, "envelope with two nulls")
	sendS(920, `{"request":{"call":"s10","function":"EchoInt","args":[920,8]}}`, "request after empty envelopes")
	cancel2()
	in.Close(errors.New("closed"))
	out.Close(errors.New("closed"))
	select {
	case <-errc2:
	case <-time.After(3 * time.Second):
		rec.Notes = append(rec.Notes, "stream link did not return")
	}
	return rec
}

var _ = rpc.GetRemoteID

// ---- C08: the same traffic framed three ways: message API, stream with one envelope per frame, stream with a
// request and a response sharing one envelope.  Nothing may depend on the framing. ----
func FamFraming(seed int64, variant int) SysRecord {
	cfg := []string{"json-raw/message", "json-raw/stream-split-envelopes", "json-raw/stream-combined-envelope"}[variant]
	rec := SysRecord{Family: "framing", Config: cfg, Seed: seed}
	w := newWorld()
	node := NewSysNode[json.RawMessage](w, "A")
	c := jsonRawCodec()
	ctx, cancel := context.WithCancel(context.Background())
	defer cancel()
	errc := make(chan error, 1)
	reqOut, resOut := make(chan string, 16), make(chan string, 16) // what A writes
	var sendReq, sendRes func(req, res string)                     // how the peer sends (either may be "")
	if variant == 0 {
		reqIn, resIn := newFrameQ[json.RawMessage](), newFrameQ[json.RawMessage]()
		go func() {
			errc <- node.Reg.LinkMessage(ctx, func(b json.RawMessage) error { reqOut <- string(b); return nil },
				func(b json.RawMessage) error { resOut <- string(b); return nil }, reqIn.Get, resIn.Get, c.Marshal, c.Unmarshal, nil)
		}()
		sendReq = func(req, res string) {
			if res != "" {
				resIn.Put(json.RawMessage(res))
			}
			if req != "" {
				reqIn.Put(json.RawMessage(req))
			}
		}
		defer func() { reqIn.Close(errors.New("closed")); resIn.Close(errors.New("closed")) }()
	} else {
		in := newChunkPipe(-1, seed)
		enc := func(v rpc.Message[json.RawMessage]) error {
			if v.Request != nil {
				reqOut <- string(*v.Request)
			}
			if v.Response != nil {
				resOut <- string(*v.Response)
			}
			return nil
		}
		go func() { errc <- node.Reg.LinkStream(ctx, enc, c.NewDecoder(in), c.Marshal, c.Unmarshal, nil) }()
		nenv := 0
		sendReq = func(req, res string) {
			// keep-alive envelopes that carry neither member (absent, or both null) between the real ones: they are
			// skipped, the stream goes on - the message API has no counterpart, so nothing may change
			nenv++
			if nenv%2 == 0 {
				in.Write([]byte(`{}`))
			} else {
				in.Write([]byte(`{"request":null,"response":null}`))
			}
			switch {
			case req != "" && res != "" && variant == 2:
				in.Write([]byte(fmt.Sprintf(`{"request":%s,"response":%s}`, req, res)))
			case req != "" && res != "":
				in.Write([]byte(fmt.Sprintf(`{"request":null,"response":%s}`, res)))
				in.Write([]byte(fmt.Sprintf(`{"request":%s,"response":null}`, req)))
			case req != "":
				in.Write([]byte(fmt.Sprintf(`{"request":%s,"response":null}`, req)))
			default:
				in.Write([]byte(fmt.Sprintf(`{"request":null,"response":%s}`, res)))
			}
		}
		defer in.Close(errors.New("closed"))
	}
	_ = sendRes
	if !WaitRemotes(node, 1) {
		rec.Notes = append(rec.Notes, "link did not come up")
		return rec
	}
	var rem sysRemote
	for _, x := range node.Remotes() {
		rem = x
	}
	answer := func(tag int, what string) {
		select {
		case f := <-resOut:
			var d map[string]any
			json.Unmarshal([]byte(f), &d)
			rec.Calls = append(rec.Calls, SysCall{Tag: tag, From: "P", Method: what, Ret: canon(d["value"]), Err: fmt.Sprint(d["err"]), Done: true})
		case <-time.After(3 * time.Second):
			rec.Calls = append(rec.Calls, SysCall{Tag: tag, From: "P", Method: what, Err: "NO-ANSWER"})
		}
	}
	// 1. the peer calls A
	sendReq(`{"call":"r1","function":"EchoInt","args":[771,5]}`, "")
	answer(771, "PeerRequest1")
	// 2. A calls the peer
	done := make(chan SysCall, 1)
	go func() {
		cctx, ccancel := context.WithTimeout(ctx, 3*time.Second)
		defer ccancel()
		v, err := rem.EchoStr(cctx, 772, "x")
		done <- SysCall{Tag: 772, From: "A", Method: "NodeCall", Ret: canon(v), Err: errText(err), Done: true}
	}()
	var callID string
	select {
	case f := <-reqOut:
		var q struct {
			Call string `json:"call"`
		}
		json.Unmarshal([]byte(f), &q)
		callID = q.Call
	case <-time.After(3 * time.Second):
		rec.Notes = append(rec.Notes, "A's request was not written")
	}
	// 3. the peer answers it and calls A again - in one go
	sendReq(`{"call":"r2","function":"Zero","args":[]}`, fmt.Sprintf(`{"call":%q,"value":"x","err":""}`, callID))
	select {
	case cl := <-done:
		rec.Calls = append(rec.Calls, cl)
	case <-time.After(4 * time.Second):
		rec.Calls = append(rec.Calls, SysCall{Tag: 772, From: "A", Method: "NodeCall", Err: "DID-NOT-RETURN"})
	}
	answer(773, "PeerRequest2")
	// 4. the peer calls a function of A passing a callable; A's handler invokes it (a request to the peer);
	//    the peer hands the result back together with a further request - in one go
	sendReq(`{"call":"r3","function":"IterErr","args":[774,5,"peer-closure-1"]}`, "")
	var cbCall string
	select {
	case f := <-reqOut:
		var q struct {
			Call     string `json:"call"`
			Function string `json:"function"`
		}
		json.Unmarshal([]byte(f), &q)
		cbCall = q.Call
		if q.Function != "CallClosure" {
			rec.Notes = append(rec.Notes, "A's handler invoked the callable but wrote a request for "+q.Function)
		}
	case <-time.After(3 * time.Second):
		rec.Notes = append(rec.Notes, "A's handler did not invoke the callable it was given")
	}
	if cbCall != "" {
		answers := []SysCall{}
		sendReq(`{"call":"r4","function":"EchoInt","args":[775,6]}`, fmt.Sprintf(`{"call":%q,"value":null,"err":"from the peer's function"}`, cbCall))
		// two answers are due: the one for r4 and the one for r3 (the error the callable returned); either order
		for k := 0; k < 2; k++ {
			select {
			case f := <-resOut:
				var d map[string]any
				json.Unmarshal([]byte(f), &d)
				what := map[string]string{"r3": "PeerRequestWithCallable", "r4": "PeerRequest3"}[fmt.Sprint(d["call"])]
				answers = append(answers, SysCall{Tag: map[string]int{"PeerRequestWithCallable": 774, "PeerRequest3": 775}[what], From: "P", Method: what, Ret: canon(d["value"]), Err: fmt.Sprint(d["err"]), Done: true})
			case <-time.After(3 * time.Second):
				answers = append(answers, SysCall{Tag: 776, From: "P", Method: "MissingAnswer", Err: "NO-ANSWER"})
			}
		}
		sort.Slice(answers, func(i, j int) bool { return answers[i].Tag < answers[j].Tag })
		rec.Calls = append(rec.Calls, answers...)
	}
	cancel()
	select {
	case <-errc:
	case <-time.After(3 * time.Second):
		rec.Notes = append(rec.Notes, "link did not return")
	}
	time.Sleep(time.Millisecond)
	rec.Events = w.Events()
	return rec
}

// FamEagerPeer — a transport that hands the peer's answer to the registry before the write of the request has
// even returned (an in-process peer, a loopback, a very fast network): the answer still reaches its call.
func FamEagerPeer(seed int64, stream bool) SysRecord {
	cfg := "json-raw/message-eager-peer"
	if stream {
		cfg = "json-raw/stream-eager-peer"
	}
	rec := SysRecord{Family: "framing", Config: cfg, Seed: seed}
	w := newWorld()
	node := NewSysNode[json.RawMessage](w, "A")
	c := jsonRawCodec()
	ctx, cancel := context.WithCancel(context.Background())
	defer cancel()
	errc := make(chan error, 1)
	answer := func(req []byte) string {
		var q struct {
			Call string            `json:"call"`
			Args []json.RawMessage `json:"args"`
		}
		json.Unmarshal(req, &q)
		val := "null"
		if len(q.Args) > 1 {
			val = string(q.Args[1])
		}
		return fmt.Sprintf(`{"call":%q,"value":%s,"err":""}`, q.Call, val)
	}
	if !stream {
		reqIn, resIn := newFrameQ[json.RawMessage](), newFrameQ[json.RawMessage]()
		go func() {
			errc <- node.Reg.LinkMessage(ctx,
				func(b json.RawMessage) error { resIn.Put(json.RawMessage(answer(b))); time.Sleep(2 * time.Millisecond); return nil },
				func(b json.RawMessage) error { return nil }, reqIn.Get, resIn.Get, c.Marshal, c.Unmarshal, nil)
		}()
		defer func() { reqIn.Close(errors.New("closed")); resIn.Close(errors.New("closed")) }()
	} else {
		in := newChunkPipe(0, seed)
		enc := func(v rpc.Message[json.RawMessage]) error {
			if v.Request != nil {
				in.Write([]byte(fmt.Sprintf(`{"request":null,"response":%s}`, answer(*v.Request))))
				time.Sleep(2 * time.Millisecond)
			}
			return nil
		}
		go func() { errc <- node.Reg.LinkStream(ctx, enc, c.NewDecoder(in), c.Marshal, c.Unmarshal, nil) }()
		defer in.Close(errors.New("closed"))
	}
	if !WaitRemotes(node, 1) {
		rec.Notes = append(rec.Notes, "link did not come up")
		return rec
	}
	var rem sysRemote
	for _, x := range node.Remotes() {
		rem = x
	}
	for k := 0; k < 3; k++ {
		cctx, ccancel := context.WithTimeout(ctx, 2*time.Second)
		v, err := rem.EchoInt(cctx, 778+k, int64(9+k))
		ccancel()
		rec.Calls = append(rec.Calls, SysCall{Tag: 778 + k, From: "A", Method: "NodeCallEager", Arg: fmt.Sprint(9 + k), Ret: canon(v), Err: errText(err), Done: true})
	}
	cancel()
	select {
	case <-errc:
	case <-time.After(3 * time.Second):
		rec.Notes = append(rec.Notes, "link did not return")
	}
	return rec
}

// FamStuckStreamWrite — stream API with an encode function that is safe for concurrent use: the write of one
// request is stuck in the transport; a second call made meanwhile is cancelled and must return promptly (its
// frame is not behind the stuck one), a third completes.
func FamStuckStreamWrite(seed int64) SysRecord {
	rec := SysRecord{Family: "cancel", Config: "json-raw/stream one request write stuck in the transport", Seed: seed}
	w := newWorld()
	node := NewSysNode[json.RawMessage](w, "A")
	c := jsonRawCodec()
	ctx, cancel := context.WithCancel(context.Background())
	defer cancel()
	errc := make(chan error, 1)
	in := newChunkPipe(0, seed)
	release := make(chan struct{})
	stuck := make(chan struct{}, 1)
	enc := func(v rpc.Message[json.RawMessage]) error {
		if v.Request == nil {
			return nil
		}
		var q struct {
			Call     string            `json:"call"`
			Function string            `json:"function"`
			Args     []json.RawMessage `json:"args"`
		}
		json.Unmarshal(*v.Request, &q)
		switch q.Function {
		case "Gate": // this one frame is stuck in the transport
			stuck <- struct{}{}
			<-release
		case "EchoStr": // answered at once
			in.Write([]byte(fmt.Sprintf(`{"request":null,"response":{"call":%q,"value":%s,"err":""}}`, q.Call, string(q.Args[1]))))
		}
		return nil
	}
	go func() { errc <- node.Reg.LinkStream(ctx, enc, c.NewDecoder(in), c.Marshal, c.Unmarshal, nil) }()
	defer in.Close(errors.New("closed"))
	if !WaitRemotes(node, 1) {
		rec.Notes = append(rec.Notes, "link did not come up")
		return rec
	}
	var rem sysRemote
	for _, x := range node.Remotes() {
		rem = x
	}
	xdone := make(chan struct{})
	go func() { defer close(xdone); rem.Gate(ctx, 7600) }()
	select {
	case <-stuck:
	case <-time.After(3 * time.Second):
		rec.Notes = append(rec.Notes, "the first request was never handed to the transport")
	}
	bctx, bcancel := context.WithCancel(ctx)
	bdone := make(chan SysCall, 1)
	go func() {
		v, err := rem.EchoInt(bctx, 7601, 5) // never answered
		bdone <- SysCall{Tag: 7601, From: "A", Method: "CancelledWhileOtherWriteStuck", Ret: canon(v), Err: errText(err), Done: true}
	}()
	time.Sleep(30 * time.Millisecond)
	bcancel()
	select {
	case cl := <-bdone:
		rec.Calls = append(rec.Calls, cl)
	case <-time.After(2 * time.Second):
		rec.Calls = append(rec.Calls, SysCall{Tag: 7601, From: "A", Method: "CancelledWhileOtherWriteStuck", Err: "DID-NOT-RETURN within 2 s"})
	}
	cctx, ccancel := context.WithTimeout(ctx, 2*time.Second)
	v, err := rem.EchoStr(cctx, 7602, "c")
	ccancel()
	rec.Calls = append(rec.Calls, SysCall{Tag: 7602, From: "A", Method: "CallWhileOtherWriteStuck", Ret: canon(v), Err: errText(err), Done: true})
	close(release)
	cancel()
	select {
	case <-xdone:
	case <-time.After(3 * time.Second):
	}
	select {
	case <-errc:
	case <-time.After(3 * time.Second):
		rec.Notes = append(rec.Notes, "link did not return")
	}
	return rec
}
