package harness

import (
	"bufio"
	"sync"
	"encoding/json"
	"fmt"
	"math/rand"
	"os"
	"sort"
	"strings"
	"testing"
	"time"
)

// Job is read from the file named by VERIF_JOB; results are written as JSON lines to VERIF_OUT.
type Job struct {
	Family string          `json:"family"`
	Seed   int64           `json:"seed"`
	N      int             `json:"n"`
	Params map[string]int  `json:"params"`
	Cases  json.RawMessage `json:"cases"` // corpus / replay input, family specific
}

func TestHarness(t *testing.T) {
	jobFile := os.Getenv("VERIF_JOB")
	if jobFile == "" {
		t.Skip("no VERIF_JOB")
	}
	raw, err := os.ReadFile(jobFile)
	if err != nil {
		t.Fatal(err)
	}
	var job Job
	if err := json.Unmarshal(raw, &job); err != nil {
		t.Fatal(err)
	}
	outF, err := os.Create(os.Getenv("VERIF_OUT"))
	if err != nil {
		t.Fatal(err)
	}
	defer outF.Close()
	w := bufio.NewWriter(outF)
	defer w.Flush()
	hung := false
	emit := func(v any) {
		if r, ok := v.(SysRecord); ok && r.Hang {
			hung = true
		}
		b, err := json.Marshal(v)
		if err != nil {
			t.Fatal(err)
		}
		w.Write(b)
		w.WriteByte('\n')
		w.Flush()
	}
	r := rand.New(rand.NewSource(job.Seed))
	// watchdog for the window-level Broadcaster cases: a goroutine stuck on a mutex is not "durably blocked",
	// so the synctest bubble would wait for it forever
	var curMu sync.Mutex
	var curCase string
	var curSince time.Time
	setCur := func(v any) {
		b, _ := json.Marshal(v)
		curMu.Lock()
		curCase, curSince = string(b), time.Now()
		curMu.Unlock()
	}
	go func() {
		for {
			time.Sleep(time.Second)
			curMu.Lock()
			c, since := curCase, curSince
			curMu.Unlock()
			if c != "" && time.Since(since) > 25*time.Second {
				w.Flush()
				fmt.Printf("\nHANG-CASE %s ESAC-GNAH\n", c)
				os.Exit(3)
			}
		}
	}()
	switch job.Family {
	case "bcast-replay":
		var cases []struct {
			Progs    [][]BOp `json:"progs"`
			Schedule []int   `json:"schedule"`
		}
		if err := json.Unmarshal(job.Cases, &cases); err != nil {
			t.Fatal(err)
		}
		for _, c := range cases {
			setCur(map[string]any{"progs": c.Progs, "schedule": c.Schedule})
			emit(RunBcast(t, c.Progs, FixedChooser(c.Schedule)))
		}
		setCur(nil)
	case "bcast-random":
		for i := 0; i < job.N; i++ {
			progs := GenBcastProgs(r, 4, job.Params["maxops"])
			setCur(map[string]any{"progs": progs, "schedule": "random, seed " + fmt.Sprint(job.Seed) + " case " + fmt.Sprint(i)})
			emit(RunBcast(t, progs, RandomChooser(r)))
		}
		setCur(nil)
	case "bcast-explore":
		// exhaustive schedules for random small programs
		for i := 0; i < job.N; i++ {
			progs := GenBcastProgs(r, 3, job.Params["maxops"])
			setCur(map[string]any{"progs": progs, "schedule": "exhaustive exploration"})
			n, complete := ExploreBcast(t, progs, job.Params["limit"], func(c BCase) { emit(c) })
			emit(map[string]any{"explored": n, "complete": complete})
		}
	case "ep-replay":
		var cases []struct {
			Calls   []EpCall   `json:"calls"`
			Choices []EpChoice `json:"choices"`
		}
		if err := json.Unmarshal(job.Cases, &cases); err != nil {
			t.Fatal(err)
		}
		for i, c := range cases {
			if i < job.Params["offset"] {
				continue
			}
			emit(map[string]any{"index": i})
			stop := epWatchdog(i)
			emit(RunEp(t, c.Calls, FixedEpChooser(c.Choices), true))
			stop()
		}
	case "ep-random":
		for i := job.Params["offset"]; i < job.N; i++ {
			ri := rand.New(rand.NewSource(job.Seed*1000003 + int64(i)))
			calls := GenEpCalls(ri)
			fr := job.Params["faultrate"]
			if i%3 == 0 {
				fr = 0 // a third of the workloads is fault free
			}
			emit(map[string]any{"index": i})
			stop := epWatchdog(i)
			emit(RunEp(t, calls, RandomEpChooser(ri, calls, job.Params["maxsteps"], fr), true))
			stop()
		}
	case "resolve":
		for _, mc := range RunMutatingGraph() {
			emit(mc)
		}
		// emits one description record per root, then the cases
		for _, zr := range ZooRoots() {
			d := DescribeRoot(zr.Value)
			emit(map[string]any{"desc": d, "root": zr.Name, "callable": zr.Callable})
			paths := GenPaths(r, d, zr.Callable, job.N)
			for _, x := range zr.Extra {
				dup := false
				for _, y := range paths {
					dup = dup || x == y
				}
				if !dup {
					paths = append(paths, x)
				}
			}
			sort.Strings(paths)
			for _, p := range paths {
				argcs := []int{0}
				if exp, ok := zr.Callable[p]; ok {
					var a int
					fmt.Sscanf(exp[strings.LastIndexByte(exp, '/')+1:], "%d", &a)
					argcs = []int{a, a + 1}
					if a > 0 {
						argcs = append(argcs, a-1)
					}
				} else {
					// no arguments (what a context-less method would need if it were invocable) and one other count
					argcs = []int{0, 1 + r.Intn(2)}
					if p == "CallClosure" {
						argcs = []int{2, 0, 3}
					}
				}
				for _, a := range argcs {
					out, hits, le, re := ResolveOnce(zr.Value, p, a)
					exp := "none"
					if e, ok := zr.Callable[p]; ok && strings.HasSuffix(e, fmt.Sprintf("/%d", a)) {
						exp = "invoked:" + e[:strings.LastIndexByte(e, '/')]
					}
					emit(ResolveCase{Root: zr.Name, Fn: p, Argc: a, Outcome: out, Hits: hits, LinkErr: le, RespErr: re, Expect: exp})
				}
			}
			// systematic near-misses of every callable path, sent with that path's own argument count:
			// empty path segments, surrounding dots and blanks, differently-cased first letters
			valid := []string{}
			for p := range zr.Callable {
				valid = append(valid, p)
			}
			sort.Strings(valid)
			r.Shuffle(len(valid), func(i, j int) { valid[i], valid[j] = valid[j], valid[i] })
			if len(valid) > 14 {
				valid = valid[:14]
			}
			for _, p := range valid {
				exp := zr.Callable[p]
				var a int
				fmt.Sscanf(exp[strings.LastIndexByte(exp, '/')+1:], "%d", &a)
				muts := []string{"." + p, ".." + p, p + ".", " " + p, p + " ", strings.ToLower(p[:1]) + p[1:]}
				for i := 0; i < len(p); i++ {
					if p[i] == '.' {
						muts = append(muts, p[:i]+".."+p[i+1:], p[:i]+". "+p[i+1:])
					}
				}
				for _, m := range muts {
					if _, ok := zr.Callable[m]; ok {
						continue
					}
					out, hits, le, re := ResolveOnce(zr.Value, m, a)
					emit(ResolveCase{Root: zr.Name, Fn: m, Argc: a, Outcome: out, Hits: hits, LinkErr: le, RespErr: re, Expect: "none"})
				}
			}
		}
	case "sys":
		// Params: which families (bit mask via list in Cases), n per family
		var fams []string
		json.Unmarshal(job.Cases, &fams)
		has := func(f string) bool {
			for _, x := range fams {
				if x == f {
					return true
				}
			}
			return false
		}
		for i := 0; i < job.N && !hung; i++ {
			seed := job.Seed*7919 + int64(i)
			cfg := i % 4
			stream := (i/4)%3 != 0
			chunk := []int{1, -1, 0}[(i/4)%3]
			if has("conc") {
				switch cfg {
				case 0:
					emit(guard("conc", "jsonRawCodec", seed, func() SysRecord { return FamConc(jsonRawCodec(), seed) }))
				case 1:
					emit(guard("conc", "jsonBytesCodec", seed, func() SysRecord { return FamConc(jsonBytesCodec(), seed) }))
				case 2:
					emit(guard("conc", "cborRawCodec", seed, func() SysRecord { return FamConc(cborRawCodec(), seed) }))
				default:
					emit(guard("conc", "cborBytesCodec", seed, func() SysRecord { return FamConc(cborBytesCodec(), seed) }))
				}
			}
			if has("conc") && i == job.Params["offset"] {
				emit(guard("conc", "json-raw", seed, func() SysRecord { return FamNames(seed) }))
			}
			if has("closures") && i == job.Params["offset"] {
				emit(guard("closures", "json-raw", seed, func() SysRecord { return FamNilLocalCaller(seed) }))
			}
			if has("hub") {
				switch cfg {
				case 0:
					emit(guard("hub", "jsonRawCodec", seed, func() SysRecord { return FamHub(jsonRawCodec(), seed) }))
				case 1:
					emit(guard("hub", "jsonBytesCodec", seed, func() SysRecord { return FamHub(jsonBytesCodec(), seed) }))
				case 2:
					emit(guard("hub", "cborRawCodec", seed, func() SysRecord { return FamHub(cborRawCodec(), seed) }))
				default:
					emit(guard("hub", "cborBytesCodec", seed, func() SysRecord { return FamHub(cborBytesCodec(), seed) }))
				}
			}
			if has("wire") {
				switch cfg {
				case 0:
					emit(FamWire(jsonRawCodec(), seed))
				case 1:
					emit(FamWire(jsonBytesCodec(), seed))
				case 2:
					emit(FamWire(cborRawCodec(), seed))
				default:
					emit(FamWire(cborBytesCodec(), seed))
				}
				if i == 0 {
					emit(FamForeign(seed))
				}
			}
			if has("bursteof") {
				emit(guard("bursteof", "json-raw/message", seed, func() SysRecord { return FamBurstEOF(false, seed) }))
				emit(guard("bursteof", "json-raw/stream", seed, func() SysRecord { return FamBurstEOF(true, seed) }))
			}
			if has("linkend") {
				emit(guard("linkend", "json-raw", seed, func() SysRecord { return FamLinkEnd(job.Seed*31 + int64(i)) }))
				if k := i - job.Params["offset"]; k < 2 {
					emit(guard("linkend", "json-raw", seed, func() SysRecord { return FamEndInEnum(seed, k) }))
				} else if k < 4 {
					emit(guard("linkend", "json-raw", seed, func() SysRecord { return FamPanicTwice(seed) }))
				} else if k < 6 {
					emit(guard("linkend", "json-raw", seed, func() SysRecord { return FamHealthyStaysUp(seed) }))
				} else if k < 8 {
					emit(guard("linkend", "json-raw", seed, func() SysRecord { return FamEndWhileClosureRuns(seed, k-6) }))
				} else if k < 10 {
					emit(guard("linkend", "json-raw", seed, func() SysRecord { return FamNilCtx(seed, k == 9) }))
				} else if k < 12 {
					emit(guard("linkend", "json-raw", seed, func() SysRecord { return FamMassEnd(seed, k == 11) }))
				} else if k < 17 {
					emit(guard("linkend", "json-raw", seed, func() SysRecord { return FamLinkEndMore(seed, k-12) }))
				}
			}
			if has("relay") {
				switch cfg {
				case 0:
					emit(guard("relay", "jsonRawCodec", seed, func() SysRecord { return FamRelay(jsonRawCodec(), seed) }))
				case 1:
					emit(guard("relay", "jsonBytesCodec", seed, func() SysRecord { return FamRelay(jsonBytesCodec(), seed) }))
				case 2:
					emit(guard("relay", "cborRawCodec", seed, func() SysRecord { return FamRelay(cborRawCodec(), seed) }))
				default:
					emit(guard("relay", "cborBytesCodec", seed, func() SysRecord { return FamRelay(cborBytesCodec(), seed) }))
				}
			}
			if has("relay") && cfg == 0 {
				emit(guard("relay", "json-raw", seed, func() SysRecord { return FamRelayClosure(seed) }))
			}
			if has("relay") && cfg == 1 {
				emit(guard("relay", "json-raw", seed, func() SysRecord { return FamRelayBack(jsonRawCodec(), seed) }))
			}
			if has("nestedlink") {
				switch cfg {
				case 0:
					emit(guard("nestedlink", "jsonRawCodec", seed, func() SysRecord { return FamNestedLink(jsonRawCodec(), seed) }))
				case 1:
					emit(guard("nestedlink", "jsonBytesCodec", seed, func() SysRecord { return FamNestedLink(jsonBytesCodec(), seed) }))
				case 2:
					emit(guard("nestedlink", "cborRawCodec", seed, func() SysRecord { return FamNestedLink(cborRawCodec(), seed) }))
				default:
					emit(guard("nestedlink", "cborBytesCodec", seed, func() SysRecord { return FamNestedLink(cborBytesCodec(), seed) }))
				}
			}
			if has("closureslong") && i == job.Params["offset"] {
				emit(guard("closures", "json-raw/message/long", seed, func() SysRecord { return FamClosuresLong(seed, job.Params["long"]) }))
			}
			if has("lifecycle") && i == job.Params["offset"] {
				emit(guard("lifecycle", "json-raw", seed, func() SysRecord { return FamLifecycle(seed, job.Params["rounds"]) }))
			}
			if has("sharedhooks") {
				emit(guard("sharedhooks", "json-raw", seed, func() SysRecord { return FamSharedHooks(seed) }))
			}
			if has("cancel") && i == job.Params["offset"] {
				emit(guard("cancel", "json-raw/stream", seed, func() SysRecord { return FamStuckStreamWrite(seed) }))
			}
			if has("closurestress") && i == job.Params["offset"] {
				emit(guard("closurestress", "json-raw", seed, func() SysRecord { return ClosureStress(seed, job.Params["workers"], job.Params["perworker"]) }))
			}
			if has("racestress") && i == job.Params["offset"] {
				rounds := job.Params["rounds"]
				if rounds == 0 {
					rounds = 150
				}
				emit(guard("racestress", "json-raw", seed, func() SysRecord { return FamRaceStress(seed, rounds) }))
			}
			if has("earlycancel") {
				emit(guard("earlycancel", "json-raw", seed, func() SysRecord { return FamEarlyCancel(seed, i) }))
				if k := i - job.Params["offset"]; k < 2 {
					emit(guard("earlycancel", "json-raw", seed, func() SysRecord { return FamEnumPanic(seed) }))
					emit(guard("earlycancel", "json-raw", seed, func() SysRecord { return FamDeadlineEnd(seed, k == 1) }))
					emit(guard("earlycancel", "json-raw", seed, func() SysRecord { return FamLinkHooksOnly(seed, k) }))
					if k == 0 {
						emit(guard("earlycancel", "json-raw", seed, func() SysRecord { return FamBigNames(seed) }))
					}
				}
			}
			if has("enumrace") {
				emit(guard("enumrace", "json-raw", seed, func() SysRecord { return FamEnumRace(seed) }))
			}
			if has("streamtear") {
				emit(guard("streamtear", "json-raw/stream", seed, func() SysRecord { return FamStreamTear(seed) }))
			}
			if has("framing") {
				emit(guard("framing", "json-raw", seed, func() SysRecord { return FamFraming(seed, i%3) }))
				if i%3 == 0 {
					emit(guard("framing", "json-raw", seed, func() SysRecord { return FamEagerPeer(seed, false) }))
					emit(guard("framing", "json-raw", seed, func() SysRecord { return FamEagerPeer(seed, true) }))
				}
			}
			for _, f := range []string{"values", "errors", "closures", "nest", "inforremotes", "cancel", "ctxend", "closureend"} {
				if !has(f) {
					continue
				}
				np := job.Params["percase"]
				if np == 0 {
					np = 12
				}
				switch cfg {
				case 0:
					emit(runFam(f, jsonRawCodec(), stream, chunk, seed, np))
				case 1:
					emit(runFam(f, jsonBytesCodec(), stream, chunk, seed, np))
				case 2:
					emit(runFam(f, cborRawCodec(), stream, chunk, seed, np))
				default:
					emit(runFam(f, cborBytesCodec(), stream, chunk, seed, np))
				}
				// a payload type whose POINTER has its own JSON encoding (as generated marshalers do)
				if i%5 == 4 && (f == "values" || f == "errors" || f == "closures") {
					emit(runFam(f, jsonPtrRawCodec(), stream, chunk, seed, np))
				}
			}
		}
	case "peerfuzz":
		for i := 0; i < job.N; i++ {
			emit(FamPeerFuzz(job.Seed*31337+int64(i), job.Params["percase"]))
		}
	case "bcast-stress":
		budget := time.Duration(job.Params["budget_s"]) * time.Second
		if budget <= 0 {
			budget = 60 * time.Second
		}
		emit(BcastStress(job.N, budget))
	case "remote":
		for _, c := range RunRemotes() {
			emit(c)
		}
	case "convert":
		for _, c := range RunConvert(r, job.N) {
			emit(c)
		}
	case "config":
		// C08: one seeded workload under every configuration
		for i := 0; i < job.N && !hung; i++ {
			seed := job.Seed*104729 + int64(i)
			for v := 0; v < 3; v++ {
				emit(guard("framing", "json-raw", seed, func() SysRecord { return FamFraming(seed, v) }))
			}
			for sc := 0; sc < 4; sc++ {
				for _, st := range []bool{false, true} {
					emit(guard(fmt.Sprintf("parity%d", sc), "json-raw", seed, func() SysRecord { return FamParity(seed, st, sc) }))
				}
			}
			for _, st := range []struct {
				stream bool
				chunk  int
			}{{false, 0}, {true, 1}, {true, -1}, {true, 0}} {
				for _, f := range []string{"values", "errors", "closures", "ctxend"} {
					emit(runFam(f, jsonRawCodec(), st.stream, st.chunk, seed, 10))
					emit(runFam(f, jsonBytesCodec(), st.stream, st.chunk, seed, 10))
					emit(runFam(f, cborRawCodec(), st.stream, st.chunk, seed, 10))
					emit(runFam(f, cborBytesCodec(), st.stream, st.chunk, seed, 10))
					emit(runFam(f, jsonPtrRawCodec(), st.stream, st.chunk, seed, 10))
				}
			}
		}
	default:
		t.Fatalf("unknown family %q", job.Family)
	}
}

// epWatchdog: a window-level scenario runs in fake time and normally takes milliseconds of real time; when a
// goroutine of panrpc is stuck on a mutex the bubble never becomes idle and the scenario never ends: give up
// after 15 s of REAL time (the process cannot continue: the bubble's goroutines cannot be unwound)
func epWatchdog(index int) func() {
	done := make(chan struct{})
	go func() {
		select {
		case <-done:
		case <-time.After(15 * time.Second):
			fmt.Printf("\nEPHANG %d\n", index)
			os.Exit(7)
		}
	}()
	return func() { close(done) }
}

// guard runs one workload with a deadline: panrpc-internal deadlocks (goroutines stuck on a mutex) do
// not honour contexts, so the workload itself may never come back
func guard(family, config string, seed int64, f func() SysRecord) SysRecord {
	done := make(chan SysRecord, 1)
	go func() { done <- f() }()
	select {
	case r := <-done:
		return r
	case <-time.After(45 * time.Second):
		return SysRecord{Family: family, Config: config, Seed: seed, Hang: true,
			Notes: []string{"the workload did not finish within 45 s: calls are stuck inside panrpc (deadlock)"}}
	}
}

func runFam[T any](f string, c Codec[T], stream bool, chunk int, seed int64, n int) SysRecord {
	return guard(f, cfgName(c.Name, stream, chunk), seed, func() SysRecord { return runFam0(f, c, stream, chunk, seed, n) })
}

func runFam0[T any](f string, c Codec[T], stream bool, chunk int, seed int64, n int) SysRecord {
	switch f {
	case "inforremotes":
		return FamInForRemotes(c, stream, chunk, seed)
	case "values":
		return FamValues(c, stream, chunk, seed, n)
	case "errors":
		return FamErrors(c, stream, chunk, seed, n)
	case "closures":
		return FamClosures(c, stream, chunk, seed, n)
	case "cancel":
		return FamCancel(c, stream, chunk, seed)
	case "ctxend":
		return FamCtxEnd(c, stream, chunk, seed)
	case "closureend":
		return FamClosureEnd(c, stream, chunk, seed)
	default:
		return FamNest(c, stream, chunk, seed)
	}
}
