package harness

import (
	"bufio"
	"encoding/json"
	"fmt"
	"math/rand"
	"os"
	"sort"
	"strings"
	"testing"
)

// Job is read from the file named by VERIF_JOB; results are written as JSON lines to VERIF_OUT.
type Job struct {
	Family string          `json:"family"`
	Seed   int64           `json:"seed"`
	N      int             `json:"n"`
	Params map[string]int  `json:"params"`
	Cases  json.RawMessage `json:"cases"` // corpus / replay input, family specific
}

func TestHarness(t *testing.T) {
	jobFile := os.Getenv("VERIF_JOB")
	if jobFile == "" {
		t.Skip("no VERIF_JOB")
	}
	raw, err := os.ReadFile(jobFile)
	if err != nil {
		t.Fatal(err)
	}
	var job Job
	if err := json.Unmarshal(raw, &job); err != nil {
		t.Fatal(err)
	}
	outF, err := os.Create(os.Getenv("VERIF_OUT"))
	if err != nil {
		t.Fatal(err)
	}
	defer outF.Close()
	w := bufio.NewWriter(outF)
	defer w.Flush()
	emit := func(v any) {
		b, err := json.Marshal(v)
		if err != nil {
			t.Fatal(err)
		}
		w.Write(b)
		w.WriteByte('\n')
		w.Flush()
	}
	r := rand.New(rand.NewSource(job.Seed))
	switch job.Family {
	case "bcast-replay":
		var cases []struct {
			Progs    [][]BOp `json:"progs"`
			Schedule []int   `json:"schedule"`
		}
		if err := json.Unmarshal(job.Cases, &cases); err != nil {
			t.Fatal(err)
		}
		for _, c := range cases {
			emit(RunBcast(t, c.Progs, FixedChooser(c.Schedule)))
		}
	case "bcast-random":
		for i := 0; i < job.N; i++ {
			progs := GenBcastProgs(r, 4, job.Params["maxops"])
			emit(RunBcast(t, progs, RandomChooser(r)))
		}
	case "bcast-explore":
		// exhaustive schedules for random small programs
		for i := 0; i < job.N; i++ {
			progs := GenBcastProgs(r, 3, job.Params["maxops"])
			n, complete := ExploreBcast(t, progs, job.Params["limit"], func(c BCase) { emit(c) })
			emit(map[string]any{"explored": n, "complete": complete})
		}
	case "ep-replay":
		var cases []struct {
			Calls   []EpCall   `json:"calls"`
			Choices []EpChoice `json:"choices"`
		}
		if err := json.Unmarshal(job.Cases, &cases); err != nil {
			t.Fatal(err)
		}
		for _, c := range cases {
			emit(RunEp(t, c.Calls, FixedEpChooser(c.Choices), true))
		}
	case "ep-random":
		for i := job.Params["offset"]; i < job.N; i++ {
			ri := rand.New(rand.NewSource(job.Seed*1000003 + int64(i)))
			calls := GenEpCalls(ri)
			fr := job.Params["faultrate"]
			if i%3 == 0 {
				fr = 0 // a third of the workloads is fault free
			}
			emit(map[string]any{"index": i})
			emit(RunEp(t, calls, RandomEpChooser(ri, calls, job.Params["maxsteps"], fr), true))
		}
	case "resolve":
		// emits one description record per root, then the cases
		for _, zr := range ZooRoots() {
			d := DescribeRoot(zr.Value)
			emit(map[string]any{"desc": d, "root": zr.Name, "callable": zr.Callable})
			paths := GenPaths(r, d, zr.Callable, job.N)
			sort.Strings(paths)
			for _, p := range paths {
				argcs := []int{0}
				if exp, ok := zr.Callable[p]; ok {
					var a int
					fmt.Sscanf(exp[strings.LastIndexByte(exp, '/')+1:], "%d", &a)
					argcs = []int{a, a + 1}
					if a > 0 {
						argcs = append(argcs, a-1)
					}
				} else {
					argcs = []int{r.Intn(3)}
					if p == "CallClosure" {
						argcs = []int{2, 0, 3}
					}
				}
				for _, a := range argcs {
					out, hits, le, re := ResolveOnce(zr.Value, p, a)
					exp := "none"
					if e, ok := zr.Callable[p]; ok && strings.HasSuffix(e, fmt.Sprintf("/%d", a)) {
						exp = "invoked:" + e[:strings.LastIndexByte(e, '/')]
					}
					emit(ResolveCase{Root: zr.Name, Fn: p, Argc: a, Outcome: out, Hits: hits, LinkErr: le, RespErr: re, Expect: exp})
				}
			}
		}
	default:
		t.Fatalf("unknown family %q", job.Family)
	}
}
