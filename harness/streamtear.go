package harness

// streamtear.go — teardown of a stream link against a raw scripted peer that keeps sending
// (C15, C14, C05 for LinkStream): after the context is cancelled and the transport closed nothing
// of the link may remain, whatever the peer sent in between.

import (
	"context"
	"encoding/json"
	"errors"
	"fmt"
	"math/rand"
	"strings"
	"time"
)

func FamStreamTear(seed int64) SysRecord {
	r := rand.New(rand.NewSource(seed))
	variant := int(seed % 6)
	rec := SysRecord{Family: "streamtear", Config: fmt.Sprintf("json-raw/stream variant %d", variant), Seed: seed}
	w := newWorld()
	node := NewSysNode[json.RawMessage](w, "A")
	c := jsonRawCodec()
	in, out := newChunkPipe(-1, seed), newChunkPipe(0, seed+1)
	ctx, cancel := context.WithCancel(context.Background())
	defer cancel()
	errc := make(chan error, 1)
	enc, dec := c.NewEncoder(out), c.NewDecoder(in)
	go func() { errc <- node.Reg.LinkStream(ctx, enc, dec, c.Marshal, c.Unmarshal, nil) }()
	if !WaitRemotes(node, 1) {
		rec.Notes = append(rec.Notes, "link did not come up")
		return rec
	}
	// drain whatever the node writes
	go func() {
		buf := make([]byte, 4096)
		for {
			if _, err := out.Read(buf); err != nil {
				return
			}
		}
	}()
	send := func(s string) { in.Write([]byte(s + "\n")) }
	req := func(i int) string {
		return fmt.Sprintf(`{"request":{"call":"q%d","function":"EchoInt","args":[%d,%d]},"response":null}`, i, 900+i, i)
	}
	res := func(i int) string {
		return fmt.Sprintf(`{"request":null,"response":{"call":"unknown%d","value":1,"err":""}}`, i)
	}
	// a call in flight from the node to the peer, never answered
	var rem sysRemote
	for _, x := range node.Remotes() {
		rem = x
	}
	callDone := make(chan SysCall, 1)
	go func() {
		v, err := rem.EchoInt(context.Background(), 950, 1)
		callDone <- SysCall{Tag: 950, From: "A", Method: "EchoInt", Ret: canon(v), Err: errText(err), Done: true, Extra: "inflight"}
	}()
	send(req(0))
	time.Sleep(time.Millisecond)
	switch variant {
	case 1: // the request reader dies on an undecodable request, then the peer keeps sending requests
		send(`{"request":5,"response":null}`)
	case 2: // the response reader dies on an undecodable response
		send(`{"request":null,"response":"x"}`)
	case 3:
		send(`{"request":5,"response":"x"}`)
	}
	time.Sleep(2 * time.Millisecond)
	nreq, nres := r.Intn(4), r.Intn(4)
	if variant == 4 {
		nreq, nres = 0, 3
	}
	if variant == 5 {
		nreq, nres = 3, 0
	}
	before := r.Intn(2) == 0
	if before {
		// one more frame of each kind before the cancellation (a reader that died no longer takes it)
		send(req(10))
		send(res(10))
		time.Sleep(time.Millisecond)
	}
	cancel()
	time.Sleep(time.Millisecond)
	for i := 0; i < nreq || i < nres; i++ {
		if i < nres {
			send(res(20 + i))
		}
		if i < nreq {
			send(req(20 + i))
		}
	}
	time.Sleep(2 * time.Millisecond)
	in.Close(errors.New("peer gone"))
	out.Close(errors.New("peer gone"))
	select {
	case err := <-errc:
		rec.LinkA = errText(err)
	case <-time.After(4 * time.Second):
		rec.Notes = append(rec.Notes, "LinkStream did not return after cancel + transport close")
		rec.Hang = true
	}
	select {
	case cl := <-callDone:
		rec.Calls = append(rec.Calls, cl)
	case <-time.After(4 * time.Second):
		rec.Calls = append(rec.Calls, SysCall{Tag: 950, From: "A", Method: "EchoInt", Err: "IN-FLIGHT CALL DID NOT RETURN", Extra: "inflight"})
	}
	if !waitUntil(func() bool { return len(node.Remotes()) == 0 }, 3*time.Second) {
		rec.Notes = append(rec.Notes, fmt.Sprintf("the remote is still enumerated after teardown (variant %d, %d requests and %d responses sent after the cancellation)", variant, nreq, nres))
	}
	var leaked []string
	if !waitUntil(func() bool { leaked = streamLeaks(); return len(leaked) == 0 }, 3*time.Second) {
		rec.Notes = append(rec.Notes, fmt.Sprintf("goroutines started by panrpc have not exited after teardown (variant %d, %d requests and %d responses after the cancellation): %s", variant, nreq, nres, strings.Join(leaked, " | ")))
	}
	rec.Events = w.Events()
	return rec
}

// goroutines with a panrpc frame that are not executing application handler code
func streamLeaks() []string {
	var out []string
	for _, g := range PanrpcGoroutines() {
		if strings.Contains(g, "verifharness.(*sysLocal)") || strings.Contains(g, "verifharness.sys") {
			continue // still inside an application handler
		}
		lines := strings.Split(g, "\n")
		short := ""
		for _, l := range lines {
			if strings.Contains(l, "panrpc/go/pkg/") && strings.HasPrefix(l, "\t") {
				short = strings.TrimSpace(l)
				if i := strings.Index(short, " +0x"); i > 0 {
					short = short[:i]
				}
				break
			}
		}
		out = append(out, lines[0]+" "+short)
	}
	return out
}

// FamBurstEOF: the peer sends a burst of requests and disappears; every request received before the
// end of the stream / the read failure must still be dispatched — under both link APIs.
func FamBurstEOF(stream bool, seed int64) SysRecord {
	r := rand.New(rand.NewSource(seed))
	k := 4 + r.Intn(12)
	rec := SysRecord{Family: "bursteof", Config: cfgName("json-raw", stream, -1), Seed: seed}
	w := newWorld()
	node := NewSysNode[json.RawMessage](w, "A")
	c := jsonRawCodec()
	slowUnmarshal := func(d json.RawMessage, v any) error {
		time.Sleep(300 * time.Microsecond) // dispatch slower than decoding
		return c.Unmarshal(d, v)
	}
	ctx, cancel := context.WithCancel(context.Background())
	defer cancel()
	errc := make(chan error, 1)
	reqf := func(i int) string {
		return fmt.Sprintf(`{"call":"b%d","function":"EchoInt","args":[%d,%d]}`, i, 600+i, i)
	}
	var closeT func()
	if stream {
		in, out := newChunkPipe(-1, seed), newChunkPipe(0, 0)
		enc, dec := c.NewEncoder(out), c.NewDecoder(in)
		go func() {
			buf := make([]byte, 4096)
			for {
				if _, err := out.Read(buf); err != nil {
					return
				}
			}
		}()
		go func() { errc <- node.Reg.LinkStream(ctx, enc, dec, c.Marshal, slowUnmarshal, nil) }()
		if !WaitRemotes(node, 1) {
			rec.Notes = append(rec.Notes, "link did not come up")
			return rec
		}
		for i := 0; i < k; i++ {
			in.Write([]byte(fmt.Sprintf(`{"request":%s,"response":null}`, reqf(i))))
		}
		in.Close(errors.New("EOF"))
		closeT = func() { out.Close(errors.New("EOF")) }
	} else {
		reqIn, resIn := newFrameQ[json.RawMessage](), newFrameQ[json.RawMessage]()
		go func() {
			errc <- node.Reg.LinkMessage(ctx, func(b json.RawMessage) error { return nil }, func(b json.RawMessage) error { return nil },
				reqIn.Get, resIn.Get, c.Marshal, slowUnmarshal, nil)
		}()
		if !WaitRemotes(node, 1) {
			rec.Notes = append(rec.Notes, "link did not come up")
			return rec
		}
		for i := 0; i < k; i++ {
			reqIn.Put(json.RawMessage(reqf(i)))
		}
		reqIn.Close(errors.New("EOF"))
		closeT = func() { resIn.Close(errors.New("EOF")) }
	}
	select {
	case err := <-errc:
		rec.LinkA = errText(err)
	case <-time.After(4 * time.Second):
		rec.Notes = append(rec.Notes, "Link did not return after the peer disappeared")
	}
	closeT()
	cancel()
	// handlers of everything that was received run to completion
	waitUntil(func() bool {
		n := 0
		for _, e := range w.Events() {
			if e.Kind == "inv" {
				n++
			}
		}
		return n == k
	}, 500*time.Millisecond)
	rec.Events = w.Events()
	n := 0
	for _, e := range rec.Events {
		if e.Kind == "inv" {
			n++
		}
	}
	rec.Calls = append(rec.Calls, SysCall{Tag: k, Method: "BurstThenEOF", Arg: fmt.Sprint(k), Ret: fmt.Sprint(n), Done: true})
	return rec
}
