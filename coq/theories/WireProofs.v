From Coq Require Import String.
From Verif Require Import Base Wire.
Local Open Scope list_scope.

Section ArgsProofs.
Variables value payload ty : Type.
Variable marshal : value -> payload.
Variable unmarshal : payload -> ty -> value.
Variable dflt : payload.

Notation caller_loop := (caller_loop value payload marshal dflt).
Notation callee_loop := (callee_loop value payload ty unmarshal dflt).

Definition enc (a : carg value) : payload :=
  match a with CData _ v => marshal v | CFunc _ cid => marshal cid | CCtx _ => dflt end.

Lemma caller_loop_pos i args acc : 0 < i -> caller_loop i args acc = acc ++ map enc args.
Proof.
  revert i acc. induction args as [|a r IH]; intros i acc Hi; simpl.
  - rewrite app_nil_r. reflexivity.
  - destruct (Nat.eqb i 0) eqn:E; [apply Nat.eqb_eq in E; lia|].
    rewrite IH by lia. rewrite <- app_assoc. reflexivity.
Qed.

(* the context (argument 0) is never transmitted; every other argument is encoded separately, in order *)
Lemma request_args_spec ctx args :
  request_args value payload marshal dflt (ctx :: args) = map enc args.
Proof. unfold request_args. simpl. rewrite caller_loop_pos by lia. reflexivity. Qed.

Lemma request_args_length ctx args :
  length (request_args value payload marshal dflt (ctx :: args)) = length args.
Proof. rewrite request_args_spec. apply map_length. Qed.

Lemma callee_loop_pos i ptys pre frame :
  0 < i -> length pre = i - 1 -> length ptys <= length frame ->
  callee_loop i ptys (pre ++ frame) =
  (fix go (ptys : list (ptype ty)) (frame : list payload) :=
     match ptys with
     | [] => []
     | t :: r => match t with
                 | PFunc _ => DProxy _ _ (nth 0 frame dflt)
                 | PData _ t' => DVal _ _ (unmarshal (nth 0 frame dflt) t')
                 | PCtx _ => DCtx _ _ end :: go r (tl frame)
     end) ptys frame.
Proof.
  revert i pre frame. induction ptys as [|t r IH]; intros i pre frame Hi Hl Hlen; simpl; [reflexivity|].
  destruct (Nat.eqb i 0) eqn:E; [apply Nat.eqb_eq in E; lia|].
  assert (Hn : nth (i - 1) (pre ++ frame) dflt = nth 0 frame dflt).
  { rewrite app_nth2 by lia. rewrite Hl, Nat.sub_diag. reflexivity. }
  rewrite Hn. f_equal.
  destruct frame as [|p fr]; [simpl in Hlen; lia|].
  replace (pre ++ p :: fr) with ((pre ++ [p]) ++ fr) by (rewrite <- app_assoc; reflexivity).
  rewrite (IH (S i) (pre ++ [p]) fr); [reflexivity|lia|rewrite app_length; simpl; lia|simpl in Hlen; lia].
Qed.

(* position by position: what the handler receives is the caller's k-th non-context argument after
   one encode/decode into the handler's declared k-th parameter type (a proxy bound to the k-th
   payload for function-typed parameters) — for every arity *)
Lemma args_roundtrip_lemma ctx args ptys :
  length ptys = length args ->
  handler_args value payload ty unmarshal dflt (PCtx ty :: ptys)
               (request_args value payload marshal dflt (ctx :: args))
  = DCtx _ _ :: spec_args value payload ty marshal unmarshal dflt args ptys.
Proof.
  intros Hlen. unfold handler_args. rewrite request_args_spec. simpl. f_equal.
  rewrite <- (app_nil_l (map enc args)). rewrite callee_loop_pos by (simpl; try rewrite map_length; lia).
  revert ptys Hlen. induction args as [|a r IH]; intros [|t rt] Hlen; simpl in *; try lia; [reflexivity|].
  f_equal; [|apply IH; lia].
  destruct a, t; reflexivity.
Qed.
End ArgsProofs.

(* ---- errors ---- *)
Lemma error_text_preserved_lemma m : blank m = false -> caller_err (response_err (Some m)) = Some m.
Proof. intros H. unfold caller_err, response_err. rewrite H. reflexivity. Qed.

Lemma nil_stays_nil_lemma : caller_err (response_err None) = None.
Proof. reflexivity. Qed.

Lemma nonblank_char_not_blank m c : In c m -> is_space c = false -> blank m = false.
Proof.
  intros Hin Hc. unfold blank. destruct (forallb is_space m) eqn:E; auto.
  rewrite forallb_forall in E. apply E in Hin. congruence.
Qed.

(* ---- frames ---- *)
Open Scope string_scope.
Fixpoint dlookup (k : string) (d : doc) : option jval :=
  match d with [] => None | (k', v) :: r => if String.eqb k k' then Some v else dlookup k r end.

(* a request: keys exactly call, function, args; args an array (empty, never null) with one
   element per non-context argument *)
Lemma request_shape_lemma id fn args :
  keys (build_request documented id fn args) = ["call"; "function"; "args"] /\
  dlookup "call" (build_request documented id fn args) = Some (JStr id) /\
  dlookup "function" (build_request documented id fn args) = Some (JStr fn) /\
  exists l, dlookup "args" (build_request documented id fn args) = Some (JArr l) /\ length l = length args.
Proof.
  repeat split. destruct args as [|a r].
  - exists []. split; reflexivity.
  - exists (map JPayload (a :: r)). split; [reflexivity|apply map_length].
Qed.

(* a response: keys exactly call, value, err; the call id of the request; err empty exactly when the
   error is nil (for errors with a non-empty message) *)
Lemma response_shape_lemma id v e :
  keys (build_response documented id v e) = ["call"; "value"; "err"] /\
  dlookup "call" (build_response documented id v e) = Some (JStr id) /\
  dlookup "value" (build_response documented id v e) = Some (JPayload v) /\
  (forall m, e = Some m -> m <> "" -> dlookup "err" (build_response documented id v e) = Some (JStr m) /\ m <> "") /\
  (e = None -> dlookup "err" (build_response documented id v e) = Some (JStr "")).
Proof.
  repeat split; auto; intros; subst; reflexivity.
Qed.

(* with the tags taken from the source, the shape theorems hold as soon as the extracted tags are
   the documented ones (regenerated obligation: work/C17/WireTags.v) *)
Lemma shapes_for_extracted t id fn args :
  t = documented -> keys (build_request t id fn args) = ["call"; "function"; "args"] /\
                    (args = [] -> dlookup "args" (build_request t id fn args) = Some (JArr [])).
Proof. intros ->. split; [reflexivity|]. intros ->. reflexivity. Qed.

(* ================================================================= serializer independence (C08 b) *)
(* Two serializers (possibly with different wire payload types) that agree on their own round trips
   give every handler the same arguments, closure identities included: nothing in the plumbing
   looks at a payload except through marshal / unmarshal. *)
Section TwoSerializers.
Variables value ty payload1 payload2 : Type.
Variable marshal1 : value -> payload1.
Variable unmarshal1 : payload1 -> ty -> value.
Variable dflt1 : payload1.
Variable marshal2 : value -> payload2.
Variable unmarshal2 : payload2 -> ty -> value.
Variable dflt2 : payload2.
Variable idty : ty.                                   (* the type closure ids are decoded into *)

Hypothesis agree : forall v t, unmarshal1 (marshal1 v) t = unmarshal2 (marshal2 v) t.
Hypothesis agree_dflt : forall t, unmarshal1 dflt1 t = unmarshal2 dflt2 t.

(* what a handler can observe of its arguments: values, and the decoded id behind a callable *)
Inductive oarg := OCtx | OVal (v : value) | OClosure (id : value).
Definition obs1 (d : darg value payload1) : oarg :=
  match d with DCtx _ _ => OCtx | DVal _ _ v => OVal v | DProxy _ _ p => OClosure (unmarshal1 p idty) end.
Definition obs2 (d : darg value payload2) : oarg :=
  match d with DCtx _ _ => OCtx | DVal _ _ v => OVal v | DProxy _ _ p => OClosure (unmarshal2 p idty) end.

Lemma spec_args_agree args ptys :
  map obs1 (spec_args value payload1 ty marshal1 unmarshal1 dflt1 args ptys) =
  map obs2 (spec_args value payload2 ty marshal2 unmarshal2 dflt2 args ptys).
Proof.
  revert ptys. induction args as [|a r IH]; intros [|t rt]; simpl; auto.
  rewrite IH. f_equal. destruct a, t; simpl; rewrite ?agree, ?agree_dflt; reflexivity.
Qed.

Lemma serializer_independence_lemma ctx args ptys :
  length ptys = length args ->
  map obs1 (handler_args value payload1 ty unmarshal1 dflt1 (PCtx ty :: ptys)
                         (request_args value payload1 marshal1 dflt1 (ctx :: args))) =
  map obs2 (handler_args value payload2 ty unmarshal2 dflt2 (PCtx ty :: ptys)
                         (request_args value payload2 marshal2 dflt2 (ctx :: args))).
Proof.
  intros Hl. rewrite !args_roundtrip_lemma by exact Hl. simpl. f_equal. apply spec_args_agree.
Qed.
End TwoSerializers.
