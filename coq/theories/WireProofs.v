From Coq Require Import String.
From Verif Require Import Base Wire.
Local Open Scope list_scope.

Section ArgsProofs.
Variables value payload ty : Type.
Variable marshal : value -> payload.
Variable unmarshal : payload -> ty -> value.
Variable dflt : payload.

Notation caller_loop := (caller_loop value payload marshal dflt).
Notation callee_loop := (callee_loop value payload ty unmarshal dflt).

Definition enc (a : carg value) : payload :=
  match a with CData _ v => marshal v | CFunc _ cid => marshal cid | CCtx _ => dflt end.

Lemma caller_loop_pos i args acc : 0 < i -> caller_loop i args acc = acc ++ map enc args.
Proof.
  revert i acc. induction args as [|a r IH]; intros i acc Hi; simpl.
  - rewrite app_nil_r. reflexivity.
  - destruct (Nat.eqb i 0) eqn:E; [apply Nat.eqb_eq in E; lia|].
    rewrite IH by lia. rewrite <- app_assoc. reflexivity.
Qed.

(* the context (argument 0) is never transmitted; every other argument is encoded separately, in order *)
Lemma request_args_spec ctx args :
  request_args value payload marshal dflt (ctx :: args) = map enc args.
Proof. unfold request_args. simpl. rewrite caller_loop_pos by lia. reflexivity. Qed.

Lemma request_args_length ctx args :
  length (request_args value payload marshal dflt (ctx :: args)) = length args.
Proof. rewrite request_args_spec. apply map_length. Qed.

Lemma callee_loop_pos i ptys pre frame :
  0 < i -> length pre = i - 1 -> length ptys <= length frame ->
  callee_loop i ptys (pre ++ frame) =
  (fix go (ptys : list (ptype ty)) (frame : list payload) :=
     match ptys with
     | [] => []
     | t :: r => match t with
                 | PFunc _ => DProxy _ _ (nth 0 frame dflt)
                 | PData _ t' => DVal _ _ (unmarshal (nth 0 frame dflt) t')
                 | PCtx _ => DCtx _ _ end :: go r (tl frame)
     end) ptys frame.
Proof.
  revert i pre frame. induction ptys as [|t r IH]; intros i pre frame Hi Hl Hlen; simpl; [reflexivity|].
  destruct (Nat.eqb i 0) eqn:E; [apply Nat.eqb_eq in E; lia|].
  assert (Hn : nth (i - 1) (pre ++ frame) dflt = nth 0 frame dflt).
  { rewrite app_nth2 by lia. rewrite Hl, Nat.sub_diag. reflexivity. }
  rewrite Hn. f_equal.
  destruct frame as [|p fr]; [simpl in Hlen; lia|].
  replace (pre ++ p :: fr) with ((pre ++ [p]) ++ fr) by (rewrite <- app_assoc; reflexivity).
  rewrite (IH (S i) (pre ++ [p]) fr); [reflexivity|lia|rewrite app_length; simpl; lia|simpl in Hlen; lia].
Qed.

(* position by position: what the handler receives is the caller's k-th non-context argument after
   one encode/decode into the handler's declared k-th parameter type (a proxy bound to the k-th
   payload for function-typed parameters) — for every arity *)
Lemma args_roundtrip_lemma ctx args ptys :
  length ptys = length args ->
  handler_args value payload ty unmarshal dflt (PCtx ty :: ptys)
               (request_args value payload marshal dflt (ctx :: args))
  = DCtx _ _ :: spec_args value payload ty marshal unmarshal dflt args ptys.
Proof.
  intros Hlen. unfold handler_args. rewrite request_args_spec. simpl. f_equal.
  rewrite <- (app_nil_l (map enc args)). rewrite callee_loop_pos by (simpl; try rewrite map_length; lia).
  revert ptys Hlen. induction args as [|a r IH]; intros [|t rt] Hlen; simpl in *; try lia; [reflexivity|].
  f_equal; [|apply IH; lia].
  destruct a, t; reflexivity.
Qed.
End ArgsProofs.

(* ---- errors ---- *)
Lemma error_text_preserved_lemma m : blank m = false -> caller_err (response_err (Some m)) = Some m.
Proof. intros H. unfold caller_err, response_err. rewrite H. reflexivity. Qed.

Lemma nil_stays_nil_lemma : caller_err (response_err None) = None.
Proof. reflexivity. Qed.

Lemma nonblank_char_not_blank m c : In c m -> is_space c = false -> blank m = false.
Proof.
  intros Hin Hc. unfold blank. destruct (forallb is_space m) eqn:E; auto.
  rewrite forallb_forall in E. apply E in Hin. congruence.
Qed.

(* ---- frames ---- *)
Open Scope string_scope.
Fixpoint dlookup (k : string) (d : doc) : option jval :=
  match d with [] => None | (k', v) :: r => if String.eqb k k' then Some v else dlookup k r end.

(* a request: keys exactly call, function, args; args an array (empty, never null) with one
   element per non-context argument *)
Lemma request_shape_lemma id fn args :
  keys (build_request documented id fn args) = ["call"; "function"; "args"] /\
  dlookup "call" (build_request documented id fn args) = Some (JStr id) /\
  dlookup "function" (build_request documented id fn args) = Some (JStr fn) /\
  exists l, dlookup "args" (build_request documented id fn args) = Some (JArr l) /\ length l = length args.
Proof.
  repeat split. destruct args as [|a r].
  - exists []. split; reflexivity.
  - exists (map JPayload (a :: r)). split; [reflexivity|apply map_length].
Qed.

(* a response: keys exactly call, value, err; the call id of the request; err empty exactly when the
   error is nil (for errors with a non-empty message) *)
Lemma response_shape_lemma id v e :
  keys (build_response documented id v e) = ["call"; "value"; "err"] /\
  dlookup "call" (build_response documented id v e) = Some (JStr id) /\
  dlookup "value" (build_response documented id v e) = Some (JPayload v) /\
  (forall m, e = Some m -> m <> "" -> dlookup "err" (build_response documented id v e) = Some (JStr m) /\ m <> "") /\
  (e = None -> dlookup "err" (build_response documented id v e) = Some (JStr "")).
Proof.
  repeat split; auto; intros; subst; reflexivity.
Qed.

(* with the tags taken from the source, the shape theorems hold as soon as the extracted tags are
   the documented ones (regenerated obligation: work/C17/WireTags.v) *)
Lemma shapes_for_extracted t id fn args :
  t = documented -> keys (build_request t id fn args) = ["call"; "function"; "args"] /\
                    (args = [] -> dlookup "args" (build_request t id fn args) = Some (JArr [])).
Proof. intros ->. split; [reflexivity|]. intros ->. reflexivity. Qed.
