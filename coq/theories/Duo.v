(* Duo.v — the closed system with BOTH directions networked: endpoints A and B, each calling the other;
   requests and responses of both directions travel through a network that may delay, reorder,
   duplicate and drop frames but forges none.  Pair.v is the one-directional view (the other
   direction's frames arrive as free environment actions there); every run of Duo.v projects onto a
   run of Pair.v for the direction A->B and, with the roles swapped, for B->A (DuoProofs.v), so all
   theorems of PairProofs.v hold for both directions of one and the same run. *)
From Verif Require Import Base Link Pair.

Section Duo.
Variables fnA fnB : nat -> fnkind.           (* the function named by call i of A / call j of B *)
Variables callsA callsB : list callspec.

Record dst := mkD { da : lst; db : lst; dAB : list nat; dBA : list nat }.

Inductive dact :=
| DA (c : choice) (b : nat)     (* A moves: anything but accepting a request or response frame *)
| DB (c : choice) (b : nat)
| ReqAB (i : nat)               (* A's request frame of call i reaches B *)
| ResBA (n : nat)               (* B's response to its n-th accepted request reaches A *)
| ReqBA (j : nat)
| ResAB (m : nat).

Definition is_delivery (c : choice) : bool := is_res_delivery c || is_req_delivery c.

Definition dstep (d : dst) (a : dact) : option dst :=
  match a with
  | DA c b =>
      if is_delivery c then None else
      match lstep fixed callsA (da d) c b with
      | Some a' => Some (mkD a' (db d) (dAB d) (dBA d)) | None => None end
  | DB c b =>
      if is_delivery c then None else
      match lstep fixed callsB (db d) c b with
      | Some b' => Some (mkD (da d) b' (dAB d) (dBA d)) | None => None end
  | ReqAB i =>
      match req_written (evs (da d)) i with
      | Some arg =>
          match lstep fixed callsB (db d) (Env (EDeliverReq (fnA i) arg)) 0 with
          | Some b' => Some (mkD (da d) b' (if Nat.eqb (nreq b') (S (nreq (db d))) then dAB d ++ [i] else dAB d) (dBA d))
          | None => None
          end
      | None => None
      end
  | ResBA n =>
      match res_written (evs (db d)) n, nth_error (dAB d) n with
      | Some (v, e), Some i =>
          match lstep fixed callsA (da d) (Env (EDeliverRes (N.of_nat i) v e)) 0 with
          | Some a' => Some (mkD a' (db d) (dAB d) (dBA d)) | None => None end
      | _, _ => None
      end
  | ReqBA j =>
      match req_written (evs (db d)) j with
      | Some arg =>
          match lstep fixed callsA (da d) (Env (EDeliverReq (fnB j) arg)) 0 with
          | Some a' => Some (mkD a' (db d) (dAB d) (if Nat.eqb (nreq a') (S (nreq (da d))) then dBA d ++ [j] else dBA d))
          | None => None
          end
      | None => None
      end
  | ResAB m =>
      match res_written (evs (da d)) m, nth_error (dBA d) m with
      | Some (v, e), Some j =>
          match lstep fixed callsB (db d) (Env (EDeliverRes (N.of_nat j) v e)) 0 with
          | Some b' => Some (mkD (da d) b' (dAB d) (dBA d)) | None => None end
      | _, _ => None
      end
  end.

Fixpoint drun (d : dst) (l : list dact) : option dst :=
  match l with
  | [] => Some d
  | a :: r => match dstep d a with Some d' => drun d' r | None => None end
  end.

Definition dinit : dst := mkD linit linit [] [].

End Duo.
