(* LinkInvB.v — "nothing waits for something that can no longer happen" (Link.v, variant fixed):
   the blocked-thread invariant behind C03 / C04 / C05 / C15, and the progress lemmas built on it. *)
From Verif Require Import Base Link LinkProofs LinkInv16.

(* ---------------------------------------------------------------- definitions *)
Definition waiter_alive (st : option tstate) : bool :=
  match st with Some (WStart _) | Some (WBlocked _) | Some (WWoke _) => true | _ => false end.

(* conditions that depend on the entries / cancelled contexts only: exactly what [wake1] re-evaluates *)
Definition ev_ok (calls : list callspec) (en : list lentry) (cn : list N) (t : tname) (st : tstate) : Prop :=
  match t, st with
  | TWaiter i, WBlocked ent => memN (c_ctx (nth i calls dflt_call)) cn = false /\ le_done en cn ent = false
  | TPub _, PBlocked ent _ _ => le_done en cn ent = false
  | TCall _, CBlocked => memN 0%N cn = false
  | TWatcher, WatchBlocked => memN 0%N cn = false
  | _, _ => True
  end.

Definition S1 (l : list (tname * tstate)) : Prop :=
  forall i, tget l (TCall i) = Some CBlocked -> waiter_alive (tget l (TWaiter i)) = true.
Definition S3 (l : list (tname * tstate)) : Prop :=
  forall i n ent x e, tget l (TWaiter i) = Some (WBlocked ent) -> tget l (TPub n) = Some (PBlocked ent x e) -> False.
Definition S4 (s : lst) : Prop :=
  bclosed s = true -> Forall (fun en => le_cancelled en = true) (ents s).
Definition EV (calls : list callspec) (s : lst) : Prop :=
  forall t st, tget (threads s) t = Some st -> ev_ok calls (ents s) (cancelled s) t st.

Definition InvS (s : lst) : Prop := S1 (threads s) /\ S3 (threads s) /\ S4 s.
Definition InvB (calls : list callspec) (s : lst) : Prop := InvS s /\ EV calls s.

(* ---------------------------------------------------------------- thread table rewriting *)
Lemma tget_tset l t st t' : tget (tset l t st) t' = if tname_eqb t' t then Some st else tget l t'.
Proof.
  destruct (tname_eqb t' t) eqn:E.
  - apply tname_eqb_eq in E; subst. apply tget_tset_same.
  - apply tget_tset_other. intros ->. rewrite tname_eqb_refl in E. discriminate.
Qed.

Lemma tget_setT s t st t' : tget (threads (setT s t st)) t' = if tname_eqb t' t then Some st else tget (threads s) t'.
Proof. apply tget_tset. Qed.

Ltac teq :=
  repeat match goal with
         | H : context [tname_eqb ?a ?b] |- _ =>
             let E := fresh "E" in destruct (tname_eqb a b) eqn:E;
             [apply tname_eqb_eq in E; try (inversion E; subst; clear E); try discriminate|]
         | |- context [tname_eqb ?a ?b] =>
             let E := fresh "E" in destruct (tname_eqb a b) eqn:E;
             [apply tname_eqb_eq in E; try (inversion E; subst; clear E); try discriminate|]
         end.

(* ---------------------------------------------------------------- S1 / S3 under thread updates *)
Definition blocking (st : tstate) : bool :=
  match st with WBlocked _ | PBlocked _ _ _ | CBlocked => true | _ => false end.

(* updating a thread that is none of caller / waiter / publisher *)
Definition other_thread (t : tname) : bool :=
  match t with TCall _ | TWaiter _ | TPub _ => false | _ => true end.

Lemma S1_tset_other l t st : other_thread t = true -> S1 l -> S1 (tset l t st).
Proof.
  intros Ho H i Hc. rewrite tget_tset in *. destruct t; simpl in *; try discriminate; apply H; auto.
Qed.

Lemma S3_tset_other l t st : other_thread t = true -> S3 l -> S3 (tset l t st).
Proof.
  intros Ho H i n ent x e Hw Hp. rewrite tget_tset in *. destruct t; simpl in *; try discriminate; eapply H; eauto.
Qed.

Lemma S1_tset_pub l n st : S1 l -> S1 (tset l (TPub n) st).
Proof. intros H i Hc. rewrite !tget_tset in *. simpl in *. apply H; auto. Qed.

Lemma S3_tset_pub_unblocked l n st :
  (forall ent x e, st <> PBlocked ent x e) -> S3 l -> S3 (tset l (TPub n) st).
Proof.
  intros Hn H i m ent x e Hw Hp. rewrite !tget_tset in *. simpl in *.
  destruct (Nat.eqb m n); [inversion Hp; subst; eapply Hn; eauto|eapply H; eauto].
Qed.

Lemma S3_tset_pub_blocked l n ent x e :
  (forall i, tget l (TWaiter i) <> Some (WBlocked ent)) -> S3 l -> S3 (tset l (TPub n) (PBlocked ent x e)).
Proof.
  intros Hn H i m ent' x' e' Hw Hp. rewrite !tget_tset in *. simpl in *.
  destruct (Nat.eqb m n); [inversion Hp; subst; eapply Hn; eauto|eapply H; eauto].
Qed.

Lemma S3_tset_call l i st : S3 l -> S3 (tset l (TCall i) st).
Proof. intros H j n ent x e Hw Hp. rewrite !tget_tset in *. simpl in *. eapply H; eauto. Qed.

Lemma S1_tset_call_unblocked l i st : st <> CBlocked -> S1 l -> S1 (tset l (TCall i) st).
Proof.
  intros Hn H j Hc. rewrite !tget_tset in *. simpl in *.
  destruct (Nat.eqb j i); [inversion Hc; congruence|apply H; auto].
Qed.

Lemma S1_tset_call_blocked l i : waiter_alive (tget l (TWaiter i)) = true -> S1 l -> S1 (tset l (TCall i) CBlocked).
Proof.
  intros Ha H j Hc. rewrite !tget_tset in *. simpl in *.
  destruct (Nat.eqb j i) eqn:E; [apply Nat.eqb_eq in E; subst; auto|apply H; auto].
Qed.

Lemma S1_tset_waiter_alive l i st : waiter_alive (Some st) = true -> S1 l -> S1 (tset l (TWaiter i) st).
Proof.
  intros Ha H j Hc. rewrite !tget_tset in *. simpl in *.
  destruct (Nat.eqb j i) eqn:E; [exact Ha|apply H; auto].
Qed.

Lemma S1_tset_waiter_dead l i st : tget l (TCall i) <> Some CBlocked -> S1 l -> S1 (tset l (TWaiter i) st).
Proof.
  intros Hn H j Hc. rewrite !tget_tset in *. simpl in *.
  destruct (Nat.eqb j i) eqn:E; [apply Nat.eqb_eq in E; subst; congruence|apply H; auto].
Qed.

Lemma S3_tset_waiter_unblocked l i st : (forall ent, st <> WBlocked ent) -> S3 l -> S3 (tset l (TWaiter i) st).
Proof.
  intros Hn H j n ent x e Hw Hp. rewrite !tget_tset in *. simpl in *.
  destruct (Nat.eqb j i); [inversion Hw; subst; eapply Hn; eauto|eapply H; eauto].
Qed.

Lemma S3_tset_waiter_blocked l i ent :
  (forall n x e, tget l (TPub n) <> Some (PBlocked ent x e)) -> S3 l -> S3 (tset l (TWaiter i) (WBlocked ent)).
Proof.
  intros Hn H j n ent' x e Hw Hp. rewrite !tget_tset in *. simpl in *.
  destruct (Nat.eqb j i); [inversion Hw; subst; eapply Hn; eauto|eapply H; eauto].
Qed.

(* ---------------------------------------------------------------- wake *)
Lemma wake1_TCall calls s i st :
  snd (wake1 calls s (TCall i, st)) = CBlocked -> st = CBlocked.
Proof. unfold wake1. destruct st; simpl; try congruence. Qed.

Lemma wake1_waiter_alive calls s i st :
  waiter_alive (Some st) = true -> waiter_alive (Some (snd (wake1 calls s (TWaiter i, st)))) = true.
Proof.
  unfold wake1. destruct st; simpl; auto.
  repeat match goal with |- context [if ?c then _ else _] => destruct c end; auto.
Qed.

Lemma wake1_WBlocked calls s i st ent :
  snd (wake1 calls s (TWaiter i, st)) = WBlocked ent -> st = WBlocked ent.
Proof.
  unfold wake1. destruct st; simpl; try congruence.
  repeat match goal with |- context [if ?c then _ else _] => destruct c end; simpl; congruence.
Qed.

Lemma wake1_PBlocked calls s n st ent x e :
  snd (wake1 calls s (TPub n, st)) = PBlocked ent x e -> st = PBlocked ent x e.
Proof.
  unfold wake1. destruct st; simpl; try congruence.
  destruct (le_done (ents s) (cancelled s) ent0); simpl; congruence.
Qed.

Lemma S1_wake calls s l : S1 l -> S1 (map (wake1 calls s) l).
Proof.
  intros H i Hc. rewrite !tget_map_wake_gen in *.
  destruct (tget l (TCall i)) as [st|] eqn:Ec; [|discriminate]. unfold option_map in Hc.
  assert (Hc' : snd (wake1 calls s (TCall i, st)) = CBlocked) by congruence.
  apply wake1_TCall in Hc'. subst. specialize (H i Ec).
  destruct (tget l (TWaiter i)) as [sw|]; [|discriminate]. unfold option_map. apply wake1_waiter_alive. exact H.
Qed.

Lemma S3_wake calls s l : S3 l -> S3 (map (wake1 calls s) l).
Proof.
  intros H i n ent x e Hw Hp. rewrite !tget_map_wake_gen in *.
  destruct (tget l (TWaiter i)) as [sw|] eqn:Ew; [|discriminate].
  destruct (tget l (TPub n)) as [sp|] eqn:Ep; [|discriminate].
  unfold option_map in *.
  assert (Hw' : snd (wake1 calls s (TWaiter i, sw)) = WBlocked ent) by congruence.
  assert (Hp' : snd (wake1 calls s (TPub n, sp)) = PBlocked ent x e) by congruence.
  apply wake1_WBlocked in Hw'. apply wake1_PBlocked in Hp'. subst. eapply H; eauto.
Qed.

Lemma EV_wake calls s : EV calls (wake calls s).
Proof.
  intros t st Ht. unfold wake in Ht. simpl in Ht. rewrite tget_map_wake_gen in Ht.
  destruct (tget (threads s) t) as [st0|]; [|discriminate]. simpl in Ht. inversion Ht; subst. clear Ht.
  unfold wake1, ev_ok. simpl. destruct t, st0; simpl; auto;
    repeat match goal with |- context [if ?c then _ else _] => destruct c eqn:? end; simpl; auto.
Qed.

Lemma InvB_wake calls s : InvS s -> InvB calls (wake calls s).
Proof.
  intros (H1 & H3 & H4). split; [|apply EV_wake].
  repeat split; simpl; [apply S1_wake; auto|apply S3_wake; auto|exact H4].
Qed.

(* ---------------------------------------------------------------- helpers preserve the invariant *)
Lemma InvS_ext s s' :
  threads s' = threads s -> ents s' = ents s -> bclosed s' = bclosed s -> InvS s -> InvS s'.
Proof. intros Ht He Hb (H1 & H3 & H4). unfold InvS, S4. rewrite Ht, He, Hb. auto. Qed.

Lemma InvB_ext calls s s' :
  threads s' = threads s -> ents s' = ents s -> cancelled s' = cancelled s -> bclosed s' = bclosed s ->
  InvB calls s -> InvB calls s'.
Proof.
  intros Ht He Hc Hb (HS & HE). split; [eapply InvS_ext; eauto|].
  unfold EV. rewrite Ht, He, Hc. exact HE.
Qed.

Lemma InvS_do_close s : InvS s -> InvS (do_close s).
Proof.
  intros (H1 & H3 & H4). repeat split; auto. intros _. simpl.
  apply Forall_forall. intros x Hin. apply in_map_iff in Hin as (y & <- & _). reflexivity.
Qed.

Lemma InvS_do_free s id : InvS s -> InvS (do_free s id).
Proof.
  intros (H1 & H3 & H4). unfold do_free. destruct (lookupN id (tbl s)) as [e|]; [|repeat split; auto].
  repeat split; auto. intros Hb. simpl in *. specialize (H4 Hb).
  destruct (nth_error (ents s) e) as [en|]; auto.
  clear -H4. revert e. induction H4 as [|x l Hx Hl IH]; intros [|e]; simpl; constructor; auto.
Qed.

Lemma EV_setT calls s t st : EV calls s -> ev_ok calls (ents s) (cancelled s) t st -> EV calls (setT s t st).
Proof.
  intros H Hok t' st' Ht. rewrite tget_setT in Ht. simpl.
  destruct (tname_eqb t' t) eqn:E.
  - apply tname_eqb_eq in E; subst. inversion Ht; subst. exact Hok.
  - apply H. exact Ht.
Qed.

Definition call_or_other (t : tname) : bool := match t with TWaiter _ | TPub _ => false | _ => true end.

Lemma InvS_setT_unblocked_nonwp s t st :
  call_or_other t = true -> st <> CBlocked -> InvS s -> InvS (setT s t st).
Proof.
  intros Hk Hn (H1 & H3 & H4). unfold InvS, setT. simpl. repeat split; auto.
  - destruct t; simpl in Hk; try discriminate;
      first [apply S1_tset_call_unblocked; auto | apply S1_tset_other; auto].
  - destruct t; simpl in Hk; try discriminate;
      first [apply S3_tset_call; auto | apply S3_tset_other; auto].
Qed.

Lemma InvB_begin_seterr calls s t e k :
  call_or_other t = true -> InvS s -> InvB calls (begin_seterr calls s t e k).
Proof.
  intros Hk HS. unfold begin_seterr. apply InvB_wake.
  apply InvS_setT_unblocked_nonwp; auto; [discriminate|apply InvS_do_close; auto].
Qed.

Lemma InvB_setT_unblocked_nonwp calls s t st :
  call_or_other t = true -> st <> CBlocked -> st <> WatchBlocked -> InvB calls s -> InvB calls (setT s t st).
Proof.
  intros Hk Hn Hw (HS & HE). split; [apply InvS_setT_unblocked_nonwp; auto|].
  apply EV_setT; auto. unfold ev_ok. destruct t, st; simpl in *; auto; congruence.
Qed.

Lemma InvB_caller_panic calls s i e : InvB calls s -> InvB calls (caller_panic calls s i e).
Proof.
  intros (HS & _). unfold caller_panic. apply InvB_begin_seterr; [reflexivity|].
  eapply InvS_ext; [| | |exact HS]; reflexivity.
Qed.

Lemma InvB_caller_return calls s i v e : InvB calls s -> InvB calls (caller_return s i v e).
Proof.
  intros H. unfold caller_return.
  eapply InvB_ext; [| | | |apply (InvB_setT_unblocked_nonwp calls (with_closures s (remove_nat i (closures s))) (TCall i) (CReturned v e))];
    try reflexivity; try discriminate.
  eapply InvB_ext; [| | | |exact H]; reflexivity.
Qed.

Lemma InvB_take_fault calls s k o s1 : take_fault s k = (o, s1) -> InvB calls s -> InvB calls s1.
Proof.
  intros E H. unfold take_fault in E. destruct k as [|[|[|k]]]; inversion E; subst;
    (eapply InvB_ext; [| | | |exact H]; reflexivity).
Qed.

Lemma InvB_loop_again calls s t st :
  call_or_other t = true -> st <> CBlocked -> st <> WatchBlocked -> InvB calls s -> InvB calls (loop_again calls s t st).
Proof.
  intros Hk Hn Hw H. unfold loop_again. destruct (memN 0%N (cancelled s)).
  - apply InvB_begin_seterr; auto. apply H.
  - apply InvB_setT_unblocked_nonwp; auto.
Qed.

Lemma InvB_loop_done calls s : InvB calls s -> InvB calls (loop_done s).
Proof.
  intros H. unfold loop_done. cbv zeta.
  match goal with |- InvB _ (if ?c then _ else ?x) =>
    assert (Hx : InvB calls x) by (eapply InvB_ext; [| | | |exact H]; reflexivity); destruct c; auto end.
  match goal with |- InvB _ (match ?o with _ => _ end) => destruct o as [[]|]; auto end.
  apply InvB_setT_unblocked_nonwp; auto; discriminate.
Qed.

Lemma InvB_do_store calls v s e : InvB calls s -> InvB calls (do_store v s e).
Proof.
  intros H. unfold do_store. cbv zeta.
  match goal with |- InvB _ (match tget (threads ?x) TLink with _ => _ end) =>
    assert (Hx : InvB calls x) by (eapply InvB_ext; [| | | |exact H]; reflexivity);
    destruct (tget (threads x) TLink) as [[]|]; auto end.
  apply InvB_setT_unblocked_nonwp; auto; discriminate.
Qed.

Lemma InvB_handler_respond calls s n v e : InvB calls s -> InvB calls (handler_respond calls s n v e).
Proof.
  intros H. unfold handler_respond.
  destruct (take_fault s 2) as [[x|] s1] eqn:E2; pose proof (InvB_take_fault _ _ _ _ _ E2 H) as H1.
  - apply InvB_begin_seterr; [reflexivity|apply H1].
  - destruct (memN 0%N (cancelled s1)); [apply InvB_begin_seterr; [reflexivity|apply H1]|].
    destruct (take_fault s1 1) as [[x|] s2] eqn:E1; pose proof (InvB_take_fault _ _ _ _ _ E1 H1) as H2.
    + apply InvB_begin_seterr; [reflexivity|apply H2].
    + eapply InvB_ext; [| | | |apply (InvB_setT_unblocked_nonwp calls s2 (THandler n) Finished)]; try reflexivity; try discriminate; auto.
Qed.

Lemma InvB_with_ev calls s e : InvB calls s -> InvB calls (with_ev s e).
Proof. intros H. eapply InvB_ext; [| | | |exact H]; reflexivity. Qed.
Lemma InvB_with_flt calls s f : InvB calls s -> InvB calls (with_flt s f).
Proof. intros H. eapply InvB_ext; [| | | |exact H]; reflexivity. Qed.
Lemma InvB_with_closures calls s c : InvB calls s -> InvB calls (with_closures s c).
Proof. intros H. eapply InvB_ext; [| | | |exact H]; reflexivity. Qed.

(* ---------------------------------------------------------------- sub-steps *)
Ltac brkB H :=
  repeat (match type of H with
          | context [match ?x with _ => _ end] => destruct x eqn:?; try discriminate H
          end);
  try (inversion H; subst; clear H).

Lemma InvS_of calls s : InvB calls s -> InvS s.
Proof. intros H; apply H. Qed.

Ltac invB_solve calls :=
  repeat (lazymatch goal with
  | |- InvB _ (if ?c then _ else _) => destruct c
  | |- InvB _ (caller_panic _ _ _ _) => apply InvB_caller_panic
  | |- InvB _ (caller_return _ _ _ _) => apply InvB_caller_return
  | |- InvB _ (handler_respond _ _ _ _ _) => apply InvB_handler_respond
  | |- InvB _ (loop_done _) => apply InvB_loop_done
  | |- InvB _ (do_store _ _ _) => apply InvB_do_store
  | |- InvB _ (with_ev _ _) => apply InvB_with_ev
  | |- InvB _ (with_flt _ _) => apply InvB_with_flt
  | |- InvB _ (with_closures _ _) => apply InvB_with_closures
  | |- InvB _ (begin_seterr _ _ _ _ _) => apply InvB_begin_seterr; [reflexivity|]
  | |- InvB _ (loop_again _ _ _ _) => apply InvB_loop_again; [reflexivity|discriminate|discriminate|]
  | |- InvS _ => apply (InvS_of calls)
  | |- InvB _ ?x => is_var x; assumption
  end).

Ltac tfB calls :=
  repeat match goal with
         | E : take_fault ?s ?k = (_, ?s1) |- _ =>
             lazymatch goal with
             | _ : InvB calls s1 |- _ => fail
             | _ => assert (InvB calls s1) by (eapply InvB_take_fault; [exact E|invB_solve calls])
             end
         end.

Lemma ev_ok_app calls en cn x t st : ev_ok calls en cn t st -> ev_ok calls (en ++ [x]) cn t st.
Proof.
  assert (L : forall ent, le_done en cn ent = false -> le_done (en ++ [x]) cn ent = false).
  { intros ent H. unfold le_done in *. destruct (Nat.lt_ge_cases ent (length en)).
    - rewrite app_nth1 by auto. exact H.
    - rewrite nth_overflow in H by auto. simpl in H. discriminate. }
  unfold ev_ok. destruct t, st; auto. intros [H1 H2]. split; auto.
Qed.

Lemma InvB_env calls s a s' : InvB calls s -> step_env fixed calls s a = Some s' -> InvB calls s'.
Proof.
  intros HI H. unfold step_env in H. brkB H; tfB calls; try (invB_solve calls; fail).
  - (* EStart: a new entry and a new caller thread parked at rpc.call.registered *)
    match goal with HX : InvB calls ?l |- InvB calls (mkL (tset (threads ?l) _ _) _ _ _ _ _ _ _ _ _ _ _ _ _) =>
      destruct HX as ((H1 & H3 & H4) & HE) end.
    split; [repeat split; simpl|].
    + apply S1_tset_call_unblocked; [discriminate|auto].
    + apply S3_tset_call; auto.
    + intros Hb. simpl in Hb. congruence.
    + intros t st Ht. simpl in *. rewrite tget_tset in Ht.
      destruct (tname_eqb t (TCall i)) eqn:E.
      * apply tname_eqb_eq in E; subst. inversion Ht; subst. exact I.
      * apply ev_ok_app. apply HE. exact Ht.
  - (* EDeliverRes: a new publisher thread *)
    apply InvB_loop_again; [reflexivity|discriminate|discriminate|].
    match goal with HX : InvB calls ?l |- _ => destruct HX as ((H1 & H3 & H4) & HE) end.
    split; [repeat split; simpl|].
    + apply S1_tset_pub; auto.
    + apply S3_tset_pub_unblocked; [discriminate|auto].
    + exact H4.
    + intros t st Ht. simpl in *. rewrite tget_tset in Ht.
      destruct (tname_eqb t (TPub (npub l))) eqn:E.
      * apply tname_eqb_eq in E; subst. inversion Ht; subst. exact I.
      * apply HE. exact Ht.
  - (* EDeliverReq: a new resolver thread *)
    apply InvB_loop_again; [reflexivity|discriminate|discriminate|].
    match goal with HX : InvB calls ?l |- _ => destruct HX as ((H1 & H3 & H4) & HE) end.
    split; [repeat split; simpl|].
    + apply S1_tset_other; auto.
    + apply S3_tset_other; auto.
    + exact H4.
    + intros t st Ht. simpl in *. rewrite tget_tset in Ht.
      destruct (tname_eqb t (TReq (nreq l))) eqn:E.
      * apply tname_eqb_eq in E; subst. inversion Ht; subst. exact I.
      * apply HE. exact Ht.
  - (* ECancel *)
    apply InvB_wake. destruct HI as ((H1 & H3 & H4) & _). repeat split; auto.
Qed.

Lemma tget_In l t st : tget l t = Some st -> In (t, st) l.
Proof.
  induction l as [|[t' st'] r IH]; simpl; [discriminate|].
  destruct (tname_eqb t t') eqn:E; intros H.
  - apply tname_eqb_eq in E; subst. inversion H; subst. auto.
  - auto.
Qed.

Lemma pubs_on_nil ent l : pubs_on ent l = [] -> forall n x e, tget l (TPub n) <> Some (PBlocked ent x e).
Proof.
  intros H n x e Ht. apply tget_In in Ht.
  assert (In n (pubs_on ent l)).
  { unfold pubs_on. apply in_flat_map. exists (TPub n, PBlocked ent x e). split; auto.
    simpl. rewrite Nat.eqb_refl. simpl. auto. }
  rewrite H in *. auto.
Qed.

Lemma waiters_on_nil ent l : waiters_on ent l = [] -> forall i, tget l (TWaiter i) <> Some (WBlocked ent).
Proof.
  intros H i Ht. apply tget_In in Ht.
  assert (In i (waiters_on ent l)).
  { unfold waiters_on. apply in_flat_map. exists (TWaiter i, WBlocked ent). split; auto.
    simpl. rewrite Nat.eqb_refl. simpl. auto. }
  rewrite H in *. auto.
Qed.

Lemma app3_nil {A} (a b c : list A) : a ++ b ++ c = [] -> a = [] /\ b = [] /\ c = [].
Proof. intros H. apply app_eq_nil in H as [H1 H2]. apply app_eq_nil in H2 as [H2 H3]. auto. Qed.

(* generic: set one thread, given what is needed for S1/S3/EV *)
Lemma InvB_set calls s t st :
  InvB calls s ->
  S1 (tset (threads s) t st) -> S3 (tset (threads s) t st) -> ev_ok calls (ents s) (cancelled s) t st ->
  InvB calls (setT s t st).
Proof.
  intros ((H1 & H3 & H4) & HE) N1 N3 Hok. split; [repeat split; auto|apply EV_setT; auto].
Qed.

Lemma InvB_caller calls s i st s' :
  InvB calls s -> tget (threads s) (TCall i) = Some st -> step_caller calls s i st = Some s' -> InvB calls s'.
Proof.
  intros HI Ht H. unfold step_caller in H. brkB H; tfB calls; try (invB_solve calls; fail).
  - (* link context done before the write *)
    apply InvB_caller_panic.
    apply InvB_set; auto; [apply S1_tset_waiter_alive; [reflexivity|apply HI]|apply S3_tset_waiter_unblocked; [discriminate|apply HI]|exact I].
  - (* write failed after the waiter was spawned *)
    apply InvB_caller_panic. eapply InvB_take_fault; [eassumption|].
    apply InvB_set; auto; [apply S1_tset_waiter_alive; [reflexivity|apply HI]|apply S3_tset_waiter_unblocked; [discriminate|apply HI]|exact I].
  - (* request written, caller blocks in its select; its waiter was just spawned *)
    apply InvB_with_ev.
    match goal with E : take_fault ?s0 0 = (None, ?l) |- _ =>
      assert (H0 : InvB calls s0) by
        (apply InvB_set; auto; [apply S1_tset_waiter_alive; [reflexivity|apply HI]|apply S3_tset_waiter_unblocked; [discriminate|apply HI]|exact I]);
      pose proof (InvB_take_fault calls _ _ _ _ E H0) as Hl;
      assert (Tl : threads l = threads s0 /\ cancelled l = cancelled s0) by (unfold take_fault in E; inversion E; subst; auto)
    end.
    destruct Tl as [Tl Cl].
    apply InvB_set; auto.
    + apply S1_tset_call_blocked; [|apply Hl]. rewrite Tl. unfold setT; simpl. rewrite tget_tset_same. reflexivity.
    + apply S3_tset_call. apply Hl.
    + simpl. rewrite Cl. assumption.
Qed.

Lemma InvB_seterr calls s t e k s' :
  InvB calls s -> tget (threads s) t = Some (SetErrMid e k) -> step_seterr fixed s t e k = Some s' -> InvB calls s'.
Proof.
  intros HI Ht H. unfold step_seterr in H.
  destruct (tname_eqb t TLink) eqn:Et; [discriminate|].
  (* a thread inside setErr is a caller or an infrastructure thread, never a waiter or a publisher:
     established by the steps themselves; here we only need that replacing SetErrMid is harmless *)
  assert (Hset : forall st, st <> CBlocked -> st <> WatchBlocked -> (forall ent, st <> WBlocked ent) ->
                            (forall ent x y, st <> PBlocked ent x y) -> waiter_alive (Some st) = false ->
                            InvB calls (setT (do_store fixed s e) t st)).
  { intros st N1 N2 N3 N4 N5. pose proof (InvB_do_store calls fixed s e HI) as HD.
    assert (Tt : tget (threads (do_store fixed s e)) t = Some (SetErrMid e k)).
    { unfold do_store. cbv zeta. match goal with |- tget (threads (match ?o with _ => _ end)) _ = _ => destruct o as [[]|] end; auto.
      unfold setT; simpl. rewrite tget_tset_other; auto. intros <-. rewrite tname_eqb_refl in Et. discriminate. }
    destruct HD as ((D1 & D3 & D4) & DE).
    apply InvB_set; [split; [repeat split|]; auto| | |].
    - intros j Hc. rewrite !tget_tset in *.
      destruct (tname_eqb (TCall j) t) eqn:E1; [inversion Hc; congruence|].
      destruct (tname_eqb (TWaiter j) t) eqn:E2.
      + apply tname_eqb_eq in E2; subst t. specialize (D1 j Hc). rewrite Tt in D1. discriminate.
      + apply D1; auto.
    - intros j n ent x y Hw Hp. rewrite !tget_tset in *.
      destruct (tname_eqb (TWaiter j) t); [inversion Hw; subst; eapply N3; eauto|].
      destruct (tname_eqb (TPub n) t); [inversion Hp; subst; eapply N4; eauto|]. eapply D3; eauto.
    - unfold ev_ok. destruct t, st; auto; congruence. }
  brkB H; try apply InvB_with_ev; try apply InvB_loop_done; apply Hset; try discriminate; reflexivity.
Qed.

Lemma S1_dead_waiter l i : S1 l -> waiter_alive (tget l (TWaiter i)) = false -> tget l (TCall i) <> Some CBlocked.
Proof. intros H Hd Hc. apply H in Hc. congruence. Qed.

Lemma InvB_waiter calls s i st b s' :
  InvB calls s -> tget (threads s) (TWaiter i) = Some st -> step_waiter fixed calls s i st b = Some s' -> InvB calls s'.
Proof.
  intros HI Ht H. unfold step_waiter, only0 in H. destruct HI as ((H1 & H3 & H4) & HE).
  assert (HI : InvB calls s) by (split; [repeat split|]; auto).
  destruct st; try discriminate.
  - (* WStart: the receive function's select *)
    match type of H with context [match ?c with [] => _ | _ => _ end] => destruct c as [|c0 cs] eqn:Ecases end.
    + (* blocks *)
      destruct b; [|discriminate]. inversion H; subst; clear H.
      apply app3_nil in Ecases as (E1 & E2 & E3).
      apply InvB_set; auto.
      * apply S1_tset_waiter_alive; [reflexivity|auto].
      * apply S3_tset_waiter_blocked; auto. apply pubs_on_nil. destruct (pubs_on ent (threads s)); [reflexivity|discriminate].
      * simpl. split.
        -- destruct (memN (c_ctx (nth i calls dflt_call)) (cancelled s)); [discriminate|reflexivity].
        -- destruct (le_done (ents s) (cancelled s) ent); [discriminate|reflexivity].
    + destruct (nth_error (c0 :: cs) b) as [[n| |]|]; try discriminate.
      * destruct (tget (threads s) (TPub n)) as [[]|] eqn:Ep; try discriminate.
        destruct (Nat.eqb ent ent0); [|discriminate]. inversion H; subst; clear H.
        apply InvB_set.
        -- apply InvB_set; auto; [apply S1_tset_pub; auto|apply S3_tset_pub_unblocked; [discriminate|auto]|exact I].
        -- unfold setT; simpl. apply S1_tset_waiter_alive; [reflexivity|apply S1_tset_pub; auto].
        -- unfold setT; simpl. apply S3_tset_waiter_unblocked; [discriminate|apply S3_tset_pub_unblocked; [discriminate|auto]].
        -- exact I.
      * inversion H; subst; clear H. apply InvB_set; auto; [apply S1_tset_waiter_alive; [reflexivity|auto]|apply S3_tset_waiter_unblocked; [discriminate|auto]|exact I].
      * inversion H; subst; clear H. apply InvB_set; auto; [apply S1_tset_waiter_alive; [reflexivity|auto]|apply S3_tset_waiter_unblocked; [discriminate|auto]|exact I].
  - (* WWoke: deposit *)
    destruct b; [|discriminate].
    destruct (tget (threads s) (TCall i)) as [sc|] eqn:Ec.
    + destruct sc; inversion H; subst; clear H;
        try (apply InvB_set; auto; [apply S1_tset_waiter_dead; [congruence|auto]|apply S3_tset_waiter_unblocked; [discriminate|auto]|exact I]; fail).
      (* the caller was blocked: it is handed the result *)
      apply InvB_set.
      * apply InvB_set; auto; [apply S1_tset_call_unblocked; [discriminate|auto]|apply S3_tset_call; auto|exact I].
      * unfold setT; simpl. apply S1_tset_waiter_dead; [rewrite tget_tset_same; discriminate|apply S1_tset_call_unblocked; [discriminate|auto]].
      * unfold setT; simpl. apply S3_tset_waiter_unblocked; [discriminate|apply S3_tset_call; auto].
      * exact I.
    + inversion H; subst; clear H.
      apply InvB_set; auto; [apply S1_tset_waiter_dead; [congruence|auto]|apply S3_tset_waiter_unblocked; [discriminate|auto]|exact I].
  - (* WDeposited: Free, then the wake-ups it causes *)
    destruct b; [|discriminate]. inversion H; subst; clear H.
    apply InvB_wake.
    pose proof (InvS_do_free s (N.of_nat i) (conj H1 (conj H3 H4))) as (F1 & F3 & F4).
    assert (Tf : threads (do_free s (N.of_nat i)) = threads s) by (unfold do_free; destruct (lookupN (N.of_nat i) (tbl s)); reflexivity).
    repeat split; simpl.
    + rewrite Tf. apply S1_tset_waiter_dead; auto. apply S1_dead_waiter; auto. rewrite Ht. reflexivity.
    + rewrite Tf. apply S3_tset_waiter_unblocked; [discriminate|auto].
    + exact F4.
Qed.

Lemma InvB_pub calls s n st b s' :
  InvB calls s -> tget (threads s) (TPub n) = Some st -> step_pub s n st b = Some s' -> InvB calls s'.
Proof.
  intros HI Ht H. unfold step_pub, only0 in H. destruct HI as ((H1 & H3 & H4) & HE).
  assert (HI : InvB calls s) by (split; [repeat split|]; auto).
  assert (Hun : forall st', (forall ent x e, st' <> PBlocked ent x e) -> InvB calls (setT s (TPub n) st')).
  { intros st' Hn. apply InvB_set; auto; [apply S1_tset_pub; auto|apply S3_tset_pub_unblocked; auto|].
    unfold ev_ok. destruct st'; auto. exfalso. eapply Hn; eauto. }
  destruct st; try discriminate.
  - destruct b; [|discriminate].
    destruct (bclosed s); [inversion H; subst; apply InvB_with_ev; apply Hun; discriminate|].
    destruct (lookupN id (tbl s)); inversion H; subst; [apply Hun; discriminate|apply InvB_with_ev; apply Hun; discriminate].
  - match type of H with context [match ?c with [] => _ | _ => _ end] => destruct c as [|c0 cs] eqn:Ecases end.
    + destruct b; [|discriminate]. inversion H; subst; clear H.
      apply app_eq_nil in Ecases as [E1 E2].
      apply InvB_set; auto; [apply S1_tset_pub; auto| |].
      * apply S3_tset_pub_blocked; auto. apply waiters_on_nil. destruct (waiters_on ent (threads s)); [reflexivity|discriminate].
      * simpl. destruct (le_done (ents s) (cancelled s) ent); [discriminate|reflexivity].
    + destruct (nth_error (c0 :: cs) b) as [[i|]|]; try discriminate.
      * destruct (tget (threads s) (TWaiter i)) as [[]|] eqn:Ew; try discriminate.
        destruct (Nat.eqb ent ent0); [|discriminate]. inversion H; subst; clear H.
        apply InvB_set.
        -- apply InvB_set; auto; [apply S1_tset_waiter_alive; [reflexivity|auto]|apply S3_tset_waiter_unblocked; [discriminate|auto]|exact I].
        -- unfold setT; simpl. apply S1_tset_pub. apply S1_tset_waiter_alive; [reflexivity|auto].
        -- unfold setT; simpl. apply S3_tset_pub_unblocked; [discriminate|apply S3_tset_waiter_unblocked; [discriminate|auto]].
        -- exact I.
      * inversion H; subst. apply Hun; discriminate.
  - destruct b; inversion H; subst. apply Hun; discriminate.
  - destruct b; inversion H; subst. apply Hun; discriminate.
Qed.

Lemma InvB_callee calls s t n st s' :
  InvB calls s -> step_callee calls s t n st = Some s' -> InvB calls s'.
Proof.
  intros HI H. unfold step_callee in H. brkB H; tfB calls; try (invB_solve calls; fail).
  all: try (apply InvB_setT_unblocked_nonwp; [reflexivity|discriminate|discriminate|];
            try (apply InvB_setT_unblocked_nonwp; [reflexivity|discriminate|discriminate|]); invB_solve calls; fail).
Qed.

Lemma InvB_infra calls s t st s' :
  InvB calls s -> step_infra fixed calls s t st = Some s' -> InvB calls s'.
Proof.
  intros HI H. unfold step_infra in H. brkB H; tfB calls; try (invB_solve calls; fail).
  all: try (apply InvB_setT_unblocked_nonwp; [reflexivity|discriminate|discriminate|]; invB_solve calls; fail).
  all: try (apply InvB_with_ev; apply InvB_setT_unblocked_nonwp; [reflexivity|discriminate|discriminate|]; invB_solve calls; fail).
  (* SStart (two copies: with / without per-link hooks) *)
  all: try (apply InvB_loop_again; [reflexivity|discriminate|discriminate|];
            apply InvB_loop_again; [reflexivity|discriminate|discriminate|];
            apply InvB_setT_unblocked_nonwp; [reflexivity|discriminate|discriminate|];
            eapply InvB_ext; [| | | |exact HI]; reflexivity).
  (* SWaited *)
  all: try (pose proof (InvB_setT_unblocked_nonwp calls s TSetup Finished eq_refl) as G;
            eapply InvB_ext; [| | | |apply G]; try reflexivity; try discriminate; auto).
Qed.

Lemma InvB_init calls : InvB calls linit.
Proof.
  split; [repeat split|].
  - intros i H. simpl in H. discriminate.
  - intros i n ent x e H. simpl in H. discriminate.
  - intros H. simpl in H. discriminate.
  - intros t st H. simpl in H.
    destruct t; simpl in H; try discriminate; inversion H; subst; simpl; auto.
Qed.

Lemma InvB_step calls s c b s' : InvB calls s -> lstep fixed calls s c b = Some s' -> InvB calls s'.
Proof.
  intros HI H. unfold lstep in H.
  destruct (crashed s); [discriminate|].
  destruct c as [t|a].
  - destruct (tget (threads s) t) as [st|] eqn:Ht; [|discriminate].
    destruct st;
      try (unfold only0 in H; destruct b; [|discriminate]; eapply InvB_seterr; eauto; fail);
      destruct t;
      try (unfold only0 in H; destruct b; [|discriminate]);
      first [ eapply InvB_caller; eauto; fail | eapply InvB_waiter; eauto; fail | eapply InvB_pub; eauto; fail
            | eapply InvB_callee; eauto; fail | eapply InvB_infra; eauto; fail ].
  - unfold only0 in H. destruct b; [|discriminate]. eapply InvB_env; eauto.
Qed.

Lemma InvB_run calls cs : forall s0 s, InvB calls s0 -> lrun fixed calls s0 cs = Some s -> InvB calls s.
Proof.
  induction cs as [|[c b] cs IH]; intros s0 s H0 Hr; simpl in Hr.
  - inversion Hr; subst; auto.
  - destruct (lstep fixed calls s0 c b) eqn:E; [|discriminate]. eapply IH; [eapply InvB_step; eauto|auto].
Qed.

Lemma InvB_reachable calls s : lreachable fixed calls s -> InvB calls s.
Proof. intros [cs Hr]. eapply InvB_run; [apply InvB_init|exact Hr]. Qed.

(* ---------------------------------------------------------------- progress: nobody waits in vain *)
Lemma le_done_when_closed s ent : S4 s -> bclosed s = true -> le_done (ents s) (cancelled s) ent = true.
Proof.
  intros H4 Hb. specialize (H4 Hb). unfold le_done.
  destruct (nth_error (ents s) ent) as [en|] eqn:E.
  - rewrite (nth_error_nth _ _ _ E). rewrite Forall_forall in H4. rewrite (H4 en); [reflexivity|eapply nth_error_In; eauto].
  - rewrite nth_overflow by (apply nth_error_None; auto). reflexivity.
Qed.

Lemma nth_error_last {A} (l : list A) x : nth_error (l ++ [x]) (length l) = Some x.
Proof. rewrite nth_error_app2 by lia. rewrite Nat.sub_diag. reflexivity. Qed.

Lemma lrun_app v calls cs1 cs2 s s1 :
  lrun v calls s cs1 = Some s1 -> lrun v calls s (cs1 ++ cs2) = lrun v calls s1 cs2.
Proof.
  revert s. induction cs1 as [|[c b] r IH]; intros s H; simpl in *.
  - inversion H; subst; reflexivity.
  - destruct (lstep v calls s c b); [apply IH; auto|discriminate].
Qed.

Definition own_steps (i : nat) (cs : list (choice * nat)) : Prop :=
  Forall (fun c => fst c = Run (TWaiter i) \/ fst c = Run (TCall i)) cs.

Ltac own := unfold own_steps; repeat (apply Forall_cons; [simpl; auto|]); apply Forall_nil.

(* caller woken with a result: it returns in at most two steps of its own *)
Lemma caller_selected_returns calls s i r :
  crashed s = false -> tget (threads s) (TCall i) = Some (CSelected (Some r)) ->
  exists cs s' v e, length cs <= 2 /\ own_steps i cs /\ lrun fixed calls s cs = Some s' /\
                    tget (threads s') (TCall i) = Some (CReturned v e) /\
                    (e = None -> exists x, r = WResp x None) /\
                    (forall e0, r = WCancelled e0 -> v = zero /\ e = Some e0).
Proof.
  intros Hc Ht.
  assert (Step1 : lstep fixed calls s (Run (TCall i)) 0 = step_caller calls s i (CSelected (Some r))).
  { unfold lstep. rewrite Hc, Ht. reflexivity. }
  destruct r as [x e|e].
  - unfold step_caller in Step1.
    destruct (Nat.eqb (c_nres (nth i calls dflt_call)) 1).
    + exists [(Run (TCall i), 0)]. eexists. exists zero, (option_map EApp e). simpl. rewrite Step1.
      split; [lia|]. split; [own|]. split; [reflexivity|]. split; [unfold caller_return; simpl; apply tget_tset_same|].
      split; [|intros ee Hx; discriminate]. destruct e; simpl; [intros Hx; discriminate|eauto].
    + destruct (take_fault s 3) as [[y|] s1] eqn:Ef.
      * (* decoding the value fails: the recover path, then the second half of setErr *)
        set (s2 := caller_panic calls s1 i (EInj y)) in *.
        assert (Hc2 : crashed s2 = false).
        { change (crashed s1 = false). unfold take_fault in Ef. inversion Ef; subst. exact Hc. }
        assert (Ht2 : tget (threads s2) (TCall i) = Some (SetErrMid (EInj y) (KReturn (EInj y)))).
        { unfold s2, caller_panic, begin_seterr, wake; simpl. rewrite tget_map_wake_gen. rewrite tget_tset_same. reflexivity. }
        exists [(Run (TCall i), 0); (Run (TCall i), 0)]. eexists. exists zero, (Some (EInj y)).
        simpl. rewrite Step1. unfold lstep. rewrite Hc2, Ht2. simpl.
        split; [lia|]. split; [own|]. split; [reflexivity|]. split; [apply tget_tset_same|].
        split; [intros Hx; discriminate|intros ee Hx; discriminate].
      * exists [(Run (TCall i), 0)]. eexists. exists x, (option_map EApp e). simpl. rewrite Step1.
        split; [lia|]. split; [own|]. split; [reflexivity|]. split; [unfold caller_return; simpl; apply tget_tset_same|].
        split; [|intros ee Hx; discriminate]. destruct e; simpl; [intros Hx; discriminate|eauto].
  - exists [(Run (TCall i), 0)]. eexists. exists zero, (Some e). simpl. rewrite Step1. unfold step_caller.
    split; [lia|]. split; [own|]. split; [reflexivity|]. split; [unfold caller_return; simpl; apply tget_tset_same|].
    split; [intros Hx; discriminate|intros ee Hx; inversion Hx; auto].
Qed.

(* waiter holding a result while the caller is blocked: deposit, then the caller returns *)
Lemma waiter_woke_then_returns calls s i r :
  crashed s = false -> tget (threads s) (TWaiter i) = Some (WWoke r) -> tget (threads s) (TCall i) = Some CBlocked ->
  exists cs s' v e, length cs <= 3 /\ own_steps i cs /\ lrun fixed calls s cs = Some s' /\
                    tget (threads s') (TCall i) = Some (CReturned v e) /\
                    (e = None -> exists x, r = WResp x None) /\
                    (forall e0, r = WCancelled e0 -> v = zero /\ e = Some e0).
Proof.
  intros Hc Hw Hcall.
  set (s1 := setT (setT s (TCall i) (CSelected (Some r))) (TWaiter i) WDeposited).
  assert (St : lstep fixed calls s (Run (TWaiter i)) 0 = Some s1).
  { unfold lstep. rewrite Hc, Hw. simpl. rewrite Hcall. reflexivity. }
  assert (Hc1 : crashed s1 = false) by exact Hc.
  assert (Ht1 : tget (threads s1) (TCall i) = Some (CSelected (Some r))).
  { unfold s1, setT; simpl. rewrite tget_tset_other by discriminate. apply tget_tset_same. }
  destruct (caller_selected_returns calls s1 i r Hc1 Ht1) as (cs & s' & v & e & Hl & Ho & Hr & Hret & Hgen & Hcan).
  exists ((Run (TWaiter i), 0) :: cs), s', v, e.
  split; [simpl; lia|]. split; [apply Forall_cons; [simpl; auto|exact Ho]|].
  split; [simpl; rewrite St; exact Hr|]. auto.
Qed.

(* waiter about to run its receive function while its entry is already done (table closed, key
   freed) or its context cancelled: the select does not block *)
Lemma waiter_start_does_not_block calls s i ent :
  crashed s = false -> tget (threads s) (TWaiter i) = Some (WStart ent) ->
  le_done (ents s) (cancelled s) ent = true \/ memN (c_ctx (nth i calls dflt_call)) (cancelled s) = true ->
  exists b e, lstep fixed calls s (Run (TWaiter i)) b = Some (setT s (TWaiter i) (WWoke (WCancelled e))).
Proof.
  intros Hc Hw Hdone. unfold lstep. rewrite Hc, Hw. simpl.
  set (pubs := map WHand (pubs_on ent (threads s))).
  destruct (memN (c_ctx (nth i calls dflt_call)) (cancelled s)) eqn:Ec.
  - (* the context case is ready: pick it *)
    exists (length pubs). eexists.
    match goal with |- match ?cases with [] => _ | _ => _ end = _ => assert (Hn : nth_error cases (length pubs) = Some WCtx) end.
    { rewrite nth_error_app2 by (unfold pubs; lia). unfold pubs. rewrite Nat.sub_diag. reflexivity. }
    match goal with |- match ?cases with [] => _ | _ => _ end = _ => destruct cases eqn:Ecs end.
    + destruct (length pubs); discriminate.
    + rewrite Hn. reflexivity.
  - destruct Hdone as [Hd|Hd]; [|discriminate]. rewrite Hd.
    exists (length pubs). eexists.
    match goal with |- match ?cases with [] => _ | _ => _ end = _ => assert (Hn : nth_error cases (length pubs) = Some WEnt) end.
    { rewrite nth_error_app2 by (unfold pubs; lia). unfold pubs. rewrite Nat.sub_diag. reflexivity. }
    match goal with |- match ?cases with [] => _ | _ => _ end = _ => destruct cases eqn:Ecs end.
    + destruct (length pubs); discriminate.
    + rewrite Hn. reflexivity.
Qed.

(* C03: on an ended link a blocked call returns after at most four steps of its own waiter and
   itself; the error is non-nil unless the waiter already holds a genuine, error-free response *)
Lemma inflight_call_returns_lemma calls s i :
  lreachable fixed calls s -> bclosed s = true -> tget (threads s) (TCall i) = Some CBlocked ->
  exists cs s' v e, length cs <= 4 /\ own_steps i cs /\ lrun fixed calls s cs = Some s' /\
                    tget (threads s') (TCall i) = Some (CReturned v e) /\
                    (e = None -> exists x, tget (threads s) (TWaiter i) = Some (WWoke (WResp x None))).
Proof.
  intros Hreach Hb Hcall.
  pose proof (lno_crash_lemma _ _ _ Hreach) as Hc.
  pose proof (InvB_reachable calls s Hreach) as ((H1 & H3 & H4) & HE).
  pose proof (H1 i Hcall) as Ha.
  destruct (tget (threads s) (TWaiter i)) as [sw|] eqn:Ew; [|discriminate].
  destruct sw; try discriminate.
  - (* WStart *)
    destruct (waiter_start_does_not_block calls s i ent Hc Ew) as (b & e & St); [left; apply le_done_when_closed; auto|].
    set (s1 := setT s (TWaiter i) (WWoke (WCancelled e))) in *.
    assert (Hw1 : tget (threads s1) (TWaiter i) = Some (WWoke (WCancelled e))) by (apply tget_tset_same).
    assert (Hc1 : tget (threads s1) (TCall i) = Some CBlocked) by (unfold s1, setT; simpl; rewrite tget_tset_other by discriminate; exact Hcall).
    destruct (waiter_woke_then_returns calls s1 i _ Hc Hw1 Hc1) as (cs & s' & v & e' & Hl & Ho & Hr & Hret & Hgen & Hcan).
    exists ((Run (TWaiter i), b) :: cs), s', v, e'.
    split; [simpl; lia|]. split; [apply Forall_cons; [simpl; auto|exact Ho]|].
    split; [simpl; rewrite St; exact Hr|]. split; [exact Hret|].
    intros He. destruct (Hgen He) as [x Hx]. discriminate.
  - (* WBlocked is impossible: the entry is done *)
    exfalso. pose proof (HE _ _ Ew) as Hok. simpl in Hok. destruct Hok as [_ Hd].
    rewrite (le_done_when_closed s ent H4 Hb) in Hd. discriminate.
  - (* WWoke *)
    destruct (waiter_woke_then_returns calls s i r Hc Ew Hcall) as (cs & s' & v & e' & Hl & Ho & Hr & Hret & Hgen & Hcan).
    exists cs, s', v, e'.
    split; [lia|]. split; [exact Ho|]. split; [exact Hr|]. split; [exact Hret|].
    intros He. destruct (Hgen He) as [x ->]. eauto.
Qed.

(* C04: the same for a call whose own context has been cancelled, on a healthy link: it returns the
   context's error with a zero value unless a response had already been handed to its waiter *)
Lemma cancelled_call_returns_lemma calls s i :
  lreachable fixed calls s -> memN (c_ctx (nth i calls dflt_call)) (cancelled s) = true ->
  tget (threads s) (TCall i) = Some CBlocked ->
  exists cs s' v e, length cs <= 4 /\ own_steps i cs /\ lrun fixed calls s cs = Some s' /\
                    tget (threads s') (TCall i) = Some (CReturned v e) /\
                    ((exists ent, tget (threads s) (TWaiter i) = Some (WStart ent)) ->
                     v = zero /\ exists e0, e = Some e0).
Proof.
  intros Hreach Hcn Hcall.
  pose proof (lno_crash_lemma _ _ _ Hreach) as Hc.
  pose proof (InvB_reachable calls s Hreach) as ((H1 & H3 & H4) & HE).
  pose proof (H1 i Hcall) as Ha.
  destruct (tget (threads s) (TWaiter i)) as [sw|] eqn:Ew; [|discriminate].
  destruct sw; try discriminate.
  - destruct (waiter_start_does_not_block calls s i ent Hc Ew) as (b & e & St); [right; exact Hcn|].
    set (s1 := setT s (TWaiter i) (WWoke (WCancelled e))) in *.
    assert (Hw1 : tget (threads s1) (TWaiter i) = Some (WWoke (WCancelled e))) by (apply tget_tset_same).
    assert (Hc1 : tget (threads s1) (TCall i) = Some CBlocked) by (unfold s1, setT; simpl; rewrite tget_tset_other by discriminate; exact Hcall).
    destruct (waiter_woke_then_returns calls s1 i _ Hc Hw1 Hc1) as (cs & s' & v & e' & Hl & Ho & Hr & Hret & Hgen & Hcan).
    exists ((Run (TWaiter i), b) :: cs), s', v, e'.
    split; [simpl; lia|]. split; [apply Forall_cons; [simpl; auto|exact Ho]|].
    split; [simpl; rewrite St; exact Hr|]. split; [exact Hret|].
    intros _. destruct (Hcan e eq_refl) as [Hv He]. split; [exact Hv|exists e; exact He].
  - exfalso. pose proof (HE _ _ Ew) as Hok. simpl in Hok. destruct Hok as [Hd _]. congruence.
  - destruct (waiter_woke_then_returns calls s i r Hc Ew Hcall) as (cs & s' & v & e' & Hl & Ho & Hr & Hret & Hgen).
    exists cs, s', v, e'.
    split; [lia|]. split; [exact Ho|]. split; [exact Hr|]. split; [exact Hret|]. intros (ent & Hx); discriminate.
Qed.
