(* LinkInvQ.v — C01, callee half, at the goroutine level: every accepted request is handled by its
   own goroutines, the exposed function is invoked at most once per request and with that request's
   function name and argument, and a response written for request n carries the result of the
   invocation made for request n (at most one response per request).
   Invariant over every reachable state of Link.v (all schedules, faults, cancellations, peers). *)
From Verif Require Import Base Link LinkProofs LinkInv16 LinkInvB.

Definition reqf := (fnkind * N)%type.

Fixpoint req_of (cs : list (choice * nat)) : list reqf :=
  match cs with
  | [] => []
  | (Env (EDeliverReq f arg), _) :: r => (f, arg) :: req_of r
  | _ :: r => req_of r
  end.

Fixpoint inv_ids (l : list event) : list nat :=
  match l with [] => [] | EvInvoked n _ _ :: r => n :: inv_ids r | _ :: r => inv_ids r end.
Fixpoint res_ids (l : list event) : list nat :=
  match l with [] => [] | EvResWritten n _ _ :: r => n :: res_ids r | _ :: r => res_ids r end.

(* what the response of an invocation of f on arg must be *)
Definition resok (f : fnkind) (arg v : N) (e : option N) : Prop :=
  handler_result f arg = Some (v, e).

Definition thrQ (Q : list reqf) (ev : list event) (t : tname) (st : tstate) : Prop :=
  match t, st with
  | TReq n, QStart f arg => nth_error Q n = Some (f, arg) /\ ~ In n (inv_ids ev) /\ ~ In n (res_ids ev)
  | THandler n, HStart f arg => nth_error Q n = Some (f, arg) /\ ~ In n (inv_ids ev) /\ ~ In n (res_ids ev)
  | THandler n, HGate arg => In (EvInvoked n FGated arg) ev /\ ~ In n (res_ids ev)
  | _, _ => True
  end.

Definition is_qstart (o : option tstate) : bool := match o with Some (QStart _ _) => true | _ => false end.

Record InvQ (Q : list reqf) (s : lst) : Prop := mkInvQ {
  q_len : length Q = nreq s;
  q_thr : forall t st, tget (threads s) t = Some st -> thrQ Q (evs s) t st;
  q_x1 : forall n, tget (threads s) (THandler n) <> None -> is_qstart (tget (threads s) (TReq n)) = false;
  q_bnd : forall n, nreq s <= n ->
            tget (threads s) (TReq n) = None /\ tget (threads s) (THandler n) = None /\
            ~ In n (inv_ids (evs s)) /\ ~ In n (res_ids (evs s));
  q_inv : forall n f arg, In (EvInvoked n f arg) (evs s) -> nth_error Q n = Some (f, arg);
  q_res : forall n v e, In (EvResWritten n v e) (evs s) -> exists f arg, In (EvInvoked n f arg) (evs s) /\ resok f arg v e;
  q_nd1 : NoDup (inv_ids (evs s));
  q_nd2 : NoDup (res_ids (evs s))
}.

Definition callee_name (t : tname) : bool := match t with TReq _ | THandler _ => true | _ => false end.
Definition callee_ev (e : event) : bool := match e with EvInvoked _ _ _ | EvResWritten _ _ _ => true | _ => false end.

Lemma inv_ids_other e l : callee_ev e = false -> inv_ids (e :: l) = inv_ids l.
Proof. destruct e; simpl; intros; try reflexivity; discriminate. Qed.
Lemma res_ids_other e l : callee_ev e = false -> res_ids (e :: l) = res_ids l.
Proof. destruct e; simpl; intros; try reflexivity; discriminate. Qed.

Lemma In_inv_ids n l : In n (inv_ids l) <-> exists f arg, In (EvInvoked n f arg) l.
Proof.
  induction l as [|e r IH]; simpl; [split; [tauto|intros (f & a & [])]|].
  destruct e; simpl; rewrite ?IH;
    try (split; [intros (f & a & H); exists f, a; auto|intros (f & a & [H|H]); [discriminate|exists f, a; auto]]).
  split.
  - intros [->|(f' & a' & H)]; [exists f, arg; auto|exists f', a'; auto].
  - intros (f' & a' & [H|H]); [inversion H; auto|right; exists f', a'; auto].
Qed.

(* ---------------------------------------------------------------- building blocks *)
(* same callee threads, same callee events, same request counter *)
Lemma InvQ_core Q s s' :
  (forall t, callee_name t = true -> tget (threads s') t = tget (threads s) t) ->
  inv_ids (evs s') = inv_ids (evs s) -> res_ids (evs s') = res_ids (evs s) ->
  (forall n f arg, In (EvInvoked n f arg) (evs s') <-> In (EvInvoked n f arg) (evs s)) ->
  (forall n v e, In (EvResWritten n v e) (evs s') <-> In (EvResWritten n v e) (evs s)) ->
  nreq s' = nreq s -> InvQ Q s -> InvQ Q s'.
Proof.
  intros A B C E F G H. destruct H as [h1 h2 h3 h4 h5 h6 h7 h8]. constructor.
  - congruence.
  - intros t st Ht. destruct (callee_name t) eqn:Ec.
    + rewrite A in Ht by auto. specialize (h2 _ _ Ht).
      destruct t; try discriminate; destruct st; simpl in *; auto; rewrite ?B, ?C; try tauto.
      destruct h2 as (P & R). split; [apply E; auto|auto].
    + destruct t; try discriminate; destruct st; exact I.
  - intros n Hn. rewrite (A (TReq n)) by reflexivity. rewrite (A (THandler n)) in Hn by reflexivity. auto.
  - intros n Hn. rewrite G in Hn. rewrite !A by reflexivity. rewrite B, C. auto.
  - intros n f arg Hin. apply E in Hin. eauto.
  - intros n v e Hin. apply F in Hin. destruct (h6 _ _ _ Hin) as (f & a & P & R). exists f, a. split; [apply E; auto|auto].
  - rewrite B; auto.
  - rewrite C; auto.
Qed.

Lemma InvQ_ext Q s s' : threads s' = threads s -> evs s' = evs s -> nreq s' = nreq s -> InvQ Q s -> InvQ Q s'.
Proof. intros A B C H. apply (InvQ_core Q s s'); auto; try (rewrite B; tauto); try (rewrite B; reflexivity). intros; rewrite A; auto. Qed.

Lemma InvQ_setT_other Q s t st : callee_name t = false -> InvQ Q s -> InvQ Q (setT s t st).
Proof.
  intros Hc H. apply (InvQ_core Q s (setT s t st)); auto; try tauto.
  intros t' Ht'. unfold setT; simpl. apply tget_tset_other. intros ->. congruence.
Qed.

Lemma InvQ_evs_other Q s s' e :
  callee_ev e = false -> threads s' = threads s -> evs s' = e :: evs s -> nreq s' = nreq s -> InvQ Q s -> InvQ Q s'.
Proof.
  intros Hc A B C H. apply (InvQ_core Q s s'); auto.
  - intros; rewrite A; auto.
  - rewrite B. apply inv_ids_other; auto.
  - rewrite B. apply res_ids_other; auto.
  - intros n f arg. rewrite B. simpl. split; [intros [Hq|Hq]; [subst e; discriminate|auto]|auto].
  - intros n v e'. rewrite B. simpl. split; [intros [Hq|Hq]; [subst e; discriminate|auto]|auto].
Qed.

Lemma InvQ_with_ev_other Q s e : callee_ev e = false -> InvQ Q s -> InvQ Q (with_ev s e).
Proof. intros Hc H. apply (InvQ_evs_other Q s (with_ev s e) e); auto. Qed.

Lemma InvQ_evs_others Q s s' l :
  forallb (fun e => negb (callee_ev e)) l = true ->
  (forall t, callee_name t = true -> tget (threads s') t = tget (threads s) t) ->
  evs s' = l ++ evs s -> nreq s' = nreq s -> InvQ Q s -> InvQ Q s'.
Proof.
  intros Hl A B C H.
  assert (He : forall e r, forallb (fun e => negb (callee_ev e)) (e :: r) = true ->
                           callee_ev e = false /\ forallb (fun e => negb (callee_ev e)) r = true).
  { intros e r Hx. simpl in Hx. apply andb_prop in Hx as (P & R). split; auto. destruct (callee_ev e); auto; discriminate. }
  apply (InvQ_core Q s s'); auto; rewrite B; clear B.
  - induction l as [|e r IH]; [reflexivity|]. destruct (He _ _ Hl) as (P & R).
    change ((e :: r) ++ evs s) with (e :: (r ++ evs s)). rewrite inv_ids_other; auto.
  - induction l as [|e r IH]; [reflexivity|]. destruct (He _ _ Hl) as (P & R).
    change ((e :: r) ++ evs s) with (e :: (r ++ evs s)). rewrite res_ids_other; auto.
  - intros n f arg. induction l as [|e r IH]; [simpl; tauto|]. destruct (He _ _ Hl) as (P & R).
    change ((e :: r) ++ evs s) with (e :: (r ++ evs s)). rewrite <- (IH R).
    split; [intros [Hq|Hq]; [subst e; discriminate|auto]|intros Hq; right; auto].
  - intros n v e'. induction l as [|e r IH]; [simpl; tauto|]. destruct (He _ _ Hl) as (P & R).
    change ((e :: r) ++ evs s) with (e :: (r ++ evs s)). rewrite <- (IH R).
    split; [intros [Hq|Hq]; [subst e; discriminate|auto]|intros Hq; right; auto].
Qed.

Lemma tget_wake_callee calls s t : callee_name t = true -> tget (threads (wake calls s)) t = tget (threads s) t.
Proof.
  intros Hc. unfold wake; simpl. rewrite tget_map_wake_gen. destruct (tget (threads s) t) as [st|]; [|reflexivity].
  simpl. destruct t; try discriminate; reflexivity.
Qed.

Lemma InvQ_wake calls Q s : InvQ Q s -> InvQ Q (wake calls s).
Proof. intros H. apply (InvQ_core Q s (wake calls s)); auto; try tauto. intros; apply tget_wake_callee; auto. Qed.

Lemma InvQ_do_close Q s : InvQ Q s -> InvQ Q (do_close s).
Proof. intros H. eapply InvQ_ext; [| | |exact H]; reflexivity. Qed.
Lemma InvQ_do_free Q s id : InvQ Q s -> InvQ Q (do_free s id).
Proof. intros H. unfold do_free. destruct (lookupN id (tbl s)); [eapply InvQ_ext; [| | |exact H]; reflexivity|exact H]. Qed.
Lemma InvQ_take_fault Q s k o s1 : take_fault s k = (o, s1) -> InvQ Q s -> InvQ Q s1.
Proof. intros E H. unfold take_fault in E. destruct k as [|[|[|k]]]; inversion E; subst; (eapply InvQ_ext; [| | |exact H]; reflexivity). Qed.
Lemma InvQ_with_flt Q s f : InvQ Q s -> InvQ Q (with_flt s f).
Proof. intros H. eapply InvQ_ext; [| | |exact H]; reflexivity. Qed.
Lemma InvQ_with_closures Q s c : InvQ Q s -> InvQ Q (with_closures s c).
Proof. intros H. eapply InvQ_ext; [| | |exact H]; reflexivity. Qed.

(* a callee thread that exists moves to a state that carries no obligation *)
Definition free_state (st : tstate) : bool :=
  match st with QStart _ _ | HStart _ _ | HGate _ => false | _ => true end.

Lemma InvQ_setT_callee Q s t st0 st :
  tget (threads s) t = Some st0 -> free_state st = true -> InvQ Q s -> InvQ Q (setT s t st).
Proof.
  intros H0 Hf H. destruct H as [h1 h2 h3 h4 h5 h6 h7 h8]. constructor; auto.
  - intros t' st' Ht. unfold setT in Ht; simpl in Ht. rewrite tget_tset in Ht. simpl.
    destruct (tname_eqb t' t) eqn:E.
    + apply tname_eqb_eq in E; subst. inversion Ht; subst. destruct t; destruct st'; simpl in *; auto; discriminate.
    + apply h2; auto.
  - intros n Hn. unfold setT in *; simpl in *. rewrite tget_tset in *.
    destruct (tname_eqb (TReq n) t) eqn:E1.
    + destruct st; simpl in *; auto; discriminate.
    + apply h3. destruct (tname_eqb (THandler n) t) eqn:E2; auto.
      apply tname_eqb_eq in E2; subst. congruence.
  - intros n Hn. unfold setT; simpl. rewrite !tget_tset. destruct (h4 n Hn) as (A & B & C & D).
    destruct (tname_eqb (TReq n) t) eqn:E1; [apply tname_eqb_eq in E1; subst; congruence|].
    destruct (tname_eqb (THandler n) t) eqn:E2; [apply tname_eqb_eq in E2; subst; congruence|]. auto.
Qed.

Lemma InvQ_setT Q s t st0 st :
  (callee_name t = false \/ (tget (threads s) t = Some st0 /\ free_state st = true)) -> InvQ Q s -> InvQ Q (setT s t st).
Proof. intros [Hc|(H0 & Hf)] H; [apply InvQ_setT_other; auto|eapply InvQ_setT_callee; eauto]. Qed.

Definition okQ (s : lst) (t : tname) : Prop := callee_name t = false \/ tget (threads s) t <> None.

Lemma InvQ_begin_seterr calls Q s t e k : okQ s t -> InvQ Q s -> InvQ Q (begin_seterr calls s t e k).
Proof.
  intros Ho H. unfold begin_seterr. apply InvQ_wake.
  destruct Ho as [Hc|Hn]; [apply InvQ_setT_other; auto; apply InvQ_do_close; auto|].
  destruct (tget (threads s) t) as [st0|] eqn:E; [|congruence].
  eapply (InvQ_setT_callee Q (do_close s) t st0); auto. apply InvQ_do_close; auto.
Qed.

Lemma InvQ_caller_panic calls Q s i e : InvQ Q s -> InvQ Q (caller_panic calls s i e).
Proof. intros H. unfold caller_panic. apply InvQ_begin_seterr; [left; reflexivity|]. apply InvQ_with_closures; auto. Qed.
Lemma InvQ_caller_return Q s i v e : InvQ Q s -> InvQ Q (caller_return s i v e).
Proof. intros H. unfold caller_return. apply InvQ_with_ev_other; [reflexivity|]. apply InvQ_setT_other; [reflexivity|]. apply InvQ_with_closures; auto. Qed.

Lemma InvQ_loop_again calls Q s t st : callee_name t = false -> InvQ Q s -> InvQ Q (loop_again calls s t st).
Proof.
  intros Hc H. unfold loop_again. destruct (memN 0%N (cancelled s)); [apply InvQ_begin_seterr; [left; auto|auto]|apply InvQ_setT_other; auto].
Qed.

Lemma InvQ_loop_done Q s : InvQ Q s -> InvQ Q (loop_done s).
Proof.
  intros H. unfold loop_done. cbv zeta.
  match goal with |- InvQ _ (if ?c then _ else ?x) =>
    assert (Hx : InvQ Q x) by (eapply InvQ_ext; [| | |exact H]; reflexivity); destruct c; auto end.
  match goal with |- InvQ _ (match ?o with _ => _ end) => destruct o as [[]|]; auto end.
  apply InvQ_setT_other; auto.
Qed.

Lemma InvQ_do_store Q v s e : InvQ Q s -> InvQ Q (do_store v s e).
Proof.
  intros H. unfold do_store. cbv zeta.
  match goal with |- InvQ _ (match tget (threads ?x) TLink with _ => _ end) =>
    assert (Hx : InvQ Q x) by (apply (InvQ_evs_other Q s x (EvReport e)); auto);
    destruct (tget (threads x) TLink) as [[]|]; auto end.
  apply InvQ_setT_other; auto.
Qed.

(* the handler of request n writes its response *)
Lemma InvQ_respond Q s n st0 v e :
  tget (threads s) (THandler n) = Some st0 ->
  ~ In n (res_ids (evs s)) ->
  (exists f arg, In (EvInvoked n f arg) (evs s) /\ resok f arg v e) ->
  InvQ Q s -> InvQ Q (with_ev (setT s (THandler n) Finished) (EvResWritten n v e)).
Proof.
  intros H0 Hnr Hex H.
  assert (H1 : InvQ Q (setT s (THandler n) Finished)) by (eapply InvQ_setT_callee; eauto).
  destruct H as [h1 h2 h3 h4 h5 h6 h7 h8]. destruct H1 as [g1 g2 g3 g4 g5 g6 g7 g8]. constructor; auto.
  - intros t st Ht. specialize (g2 _ _ Ht). simpl in *.
    destruct t; auto; destruct st; simpl in *; auto.
    + (* TReq m QStart: m <> n by x1 *)
      destruct g2 as (P & R & S). repeat split; auto. intros [Hq|Hq]; [|auto]. subst n0.
      assert (Hx := h3 n). rewrite H0 in Hx. specialize (Hx ltac:(discriminate)).
      rewrite tget_tset_other in Ht by discriminate. rewrite Ht in Hx. discriminate.
    + destruct g2 as (P & R & S). repeat split; auto. intros [Hq|Hq]; [|auto]. subst n0.
      rewrite tget_tset_same in Ht. discriminate.
    + destruct g2 as (P & R). split; auto. intros [Hq|Hq]; [|auto]. subst n0.
      rewrite tget_tset_same in Ht. discriminate.
  - intros m Hm. destruct (g4 m Hm) as (A & B & C & D). simpl. repeat split; auto.
    intros [Hq|Hq]; [|auto]. subst m. simpl in B. rewrite tget_tset_same in B. discriminate.
  - intros m f arg Hin. simpl in Hin. destruct Hin as [Hq|Hin]; [discriminate|]. apply g5; auto.
  - intros m v' e' Hin. simpl in Hin. destruct Hin as [Hq|Hin].
    + inversion Hq; subst. destruct Hex as (f & a & P & R). exists f, a. split; [right; auto|auto].
    + destruct (g6 _ _ _ Hin) as (f & a & P & R). exists f, a. split; [right; auto|auto].
  - simpl. constructor; auto.
Qed.

Lemma InvQ_handler_respond calls Q s n st0 v e :
  tget (threads s) (THandler n) = Some st0 ->
  ~ In n (res_ids (evs s)) ->
  (exists f arg, In (EvInvoked n f arg) (evs s) /\ resok f arg v e) ->
  InvQ Q s -> InvQ Q (handler_respond calls s n v e).
Proof.
  intros H0 Hnr Hex H. unfold handler_respond.
  assert (TF : forall k o s1, take_fault s k = (o, s1) -> threads s1 = threads s /\ evs s1 = evs s).
  { intros k o s1 E. unfold take_fault in E. destruct k as [|[|[|k]]]; inversion E; subst; auto. }
  destruct (take_fault s 2) as [[x|] s1] eqn:E1.
  - apply InvQ_begin_seterr; [right; destruct (TF _ _ _ E1) as (A & _); rewrite A; congruence|]. eapply InvQ_take_fault; eauto.
  - assert (H1 : InvQ Q s1) by (eapply InvQ_take_fault; eauto).
    destruct (TF _ _ _ E1) as (A1 & B1).
    destruct (memN 0%N (cancelled s1)); [apply InvQ_begin_seterr; [right; rewrite A1; congruence|auto]|].
    assert (TF1 : forall k o s2, take_fault s1 k = (o, s2) -> threads s2 = threads s1 /\ evs s2 = evs s1).
    { intros k o s2 E. unfold take_fault in E. destruct k as [|[|[|k]]]; inversion E; subst; auto. }
    destruct (take_fault s1 1) as [[x|] s2] eqn:E2.
    + destruct (TF1 _ _ _ E2) as (A2 & _).
      apply InvQ_begin_seterr; [right; rewrite A2, A1; congruence|]. eapply InvQ_take_fault; eauto.
    + destruct (TF1 _ _ _ E2) as (A2 & B2).
      eapply InvQ_respond; [rewrite A2, A1; eauto|rewrite B2, B1; auto| |eapply InvQ_take_fault; eauto].
      rewrite B2, B1. exact Hex.
Qed.

(* ---------------------------------------------------------------- the sub-steps *)
Lemma nth_error_app_keep {A} (l : list A) x n y : nth_error l n = Some y -> nth_error (l ++ [x]) n = Some y.
Proof. intros H. rewrite nth_error_app1; auto. apply nth_error_Some. congruence. Qed.

(* the request loop accepts request (f, arg): a new resolver goroutine, the next index *)
Lemma InvQ_accept Q s f arg :
  InvQ Q s ->
  InvQ (Q ++ [(f, arg)])
       (mkL (tset (threads s) (TReq (nreq s)) (QStart f arg)) (tbl s) (bclosed s) (ents s) (cancelled s)
            (fatal s) (closures s) (remotes s) (loops_done s) (flt s) (npub s) (S (nreq s)) (evs s) (crashed s)).
Proof.
  intros H. destruct H as [h1 h2 h3 h4 h5 h6 h7 h8].
  destruct (h4 (nreq s) (le_n _)) as (N1 & N2 & N3 & N4).
  constructor; simpl; auto.
  - rewrite app_length; simpl; lia.
  - intros t st Ht. rewrite tget_tset in Ht. destruct (tname_eqb t (TReq (nreq s))) eqn:E.
    + apply tname_eqb_eq in E; subst. inversion Ht; subst. simpl. repeat split; auto.
      rewrite nth_error_app2 by lia. rewrite h1, Nat.sub_diag. reflexivity.
    + specialize (h2 _ _ Ht). destruct t; auto; destruct st; simpl in *; auto.
      * destruct h2 as (P & R). split; auto. apply nth_error_app_keep; auto.
      * destruct h2 as (P & R). split; auto. apply nth_error_app_keep; auto.
  - intros n Hn. rewrite tget_tset_other in Hn by discriminate. rewrite tget_tset.
    destruct (tname_eqb (TReq n) (TReq (nreq s))) eqn:E; [|apply h3; auto].
    apply tname_eqb_eq in E. inversion E; subst. congruence.
  - intros n Hn. destruct (h4 n ltac:(lia)) as (A & B & C & D). rewrite !tget_tset.
    destruct (tname_eqb (TReq n) (TReq (nreq s))) eqn:E; [apply tname_eqb_eq in E; inversion E; lia|].
    simpl. auto.
  - intros n f' arg' Hin. apply nth_error_app_keep. eauto.
Qed.

Definition Q_step (Q : list reqf) (c : choice) (s s' : lst) : list reqf :=
  match c with
  | Env (EDeliverReq f arg) => if Nat.eqb (nreq s') (S (nreq s)) then Q ++ [(f, arg)] else Q
  | _ => Q
  end.

Lemma nreq_begin_seterr calls s t e k : nreq (begin_seterr calls s t e k) = nreq s.
Proof. reflexivity. Qed.
Lemma nreq_loop_again calls s t st : nreq (loop_again calls s t st) = nreq s.
Proof. unfold loop_again. destruct (memN 0%N (cancelled s)); reflexivity. Qed.
Lemma nreq_take_fault s k o s1 : take_fault s k = (o, s1) -> nreq s1 = nreq s.
Proof. intros E. unfold take_fault in E. destruct k as [|[|[|k]]]; inversion E; subst; reflexivity. Qed.

Lemma InvQ_env calls Q s a s' : InvQ Q s -> step_env fixed calls s a = Some s' -> InvQ (Q_step Q (Env a) s s') s'.
Proof.
  intros HI H. unfold step_env in H. destruct a as [i|id x e| |n|f arg| |n|c|which n]; simpl Q_step.
  - destruct (tget (threads s) (TCall i)) eqn:Ht; [discriminate|].
    destruct (nth_error calls i) as [cs|] eqn:Hn; [|discriminate].
    set (s0 := if c_closure cs then with_closures s (i :: closures s) else s) in *.
    assert (H0 : InvQ Q s0) by (unfold s0; destruct (c_closure cs); [apply InvQ_with_closures|]; auto).
    destruct (take_fault s0 2) as [[x|] s1] eqn:E1.
    + inversion H; subst. apply InvQ_caller_panic. eapply InvQ_take_fault; eauto.
    + assert (H1 : InvQ Q s1) by (eapply InvQ_take_fault; eauto).
      destruct (bclosed s1) eqn:Eb; inversion H; subst; [apply InvQ_caller_return; auto|].
      apply (InvQ_core Q s1); auto; try tauto; try reflexivity.
      intros t Hc. simpl. apply tget_tset_other. intros <-. discriminate.
  - destruct (tget (threads s) TResLoop) as [[]|] eqn:Ht; try discriminate.
    destruct (take_fault s 3) as [[y|] s1] eqn:E1; inversion H; subst.
    + apply InvQ_begin_seterr; [left; reflexivity|]. eapply InvQ_take_fault; eauto.
    + apply InvQ_loop_again; [reflexivity|].
      apply (InvQ_core Q s1); auto; try tauto; try reflexivity; [|eapply InvQ_take_fault; eauto].
      intros t Hc. simpl. apply tget_tset_other. intros <-. discriminate.
  - destruct (tget (threads s) TResLoop) as [[]|] eqn:Ht; try discriminate.
    destruct (take_fault s 3) as [[y|] s1] eqn:E1; inversion H; subst;
      (apply InvQ_begin_seterr; [left; reflexivity|]; eapply InvQ_take_fault; eauto).
  - destruct (tget (threads s) TResLoop) as [[]|] eqn:Ht; try discriminate. inversion H; subst.
    apply InvQ_begin_seterr; [left; reflexivity|auto].
  - (* EDeliverReq *)
    destruct (tget (threads s) TReqLoop) as [[]|] eqn:Ht; try discriminate.
    destruct (take_fault s 3) as [[y|] s1] eqn:E1; inversion H; subst.
    + match goal with |- InvQ (if ?c then _ else _) _ =>
        assert (Hc : c = false) by (rewrite nreq_begin_seterr, (nreq_take_fault _ _ _ _ E1); apply Nat.eqb_neq; lia);
        rewrite Hc end.
      apply InvQ_begin_seterr; [left; reflexivity|]. eapply InvQ_take_fault; eauto.
    + match goal with |- InvQ (if ?c then _ else _) _ =>
        assert (Hc : c = true) by (rewrite nreq_loop_again; cbn [nreq]; rewrite (nreq_take_fault _ _ _ _ E1); apply Nat.eqb_refl);
        rewrite Hc end.
      apply InvQ_loop_again; [reflexivity|]. apply InvQ_accept. eapply InvQ_take_fault; eauto.
  - destruct (tget (threads s) TReqLoop) as [[]|] eqn:Ht; try discriminate.
    destruct (take_fault s 3) as [[y|] s1] eqn:E1; inversion H; subst;
      (apply InvQ_begin_seterr; [left; reflexivity|]; eapply InvQ_take_fault; eauto).
  - destruct (tget (threads s) TReqLoop) as [[]|] eqn:Ht; try discriminate. inversion H; subst.
    apply InvQ_begin_seterr; [left; reflexivity|auto].
  - destruct (memN c (cancelled s)); [discriminate|]. inversion H; subst.
    apply InvQ_wake. eapply InvQ_ext; [| | |exact HI]; reflexivity.
  - inversion H; subst. apply InvQ_with_flt; auto.
Qed.

Lemma InvQ_caller calls Q s i st s' : InvQ Q s -> step_caller calls s i st = Some s' -> InvQ Q s'.
Proof.
  intros HI H. unfold step_caller in H. destruct st; try discriminate.
  - set (s0 := setT s (TWaiter i) (WStart ent)) in *.
    assert (H0 : InvQ Q s0) by (unfold s0; apply InvQ_setT_other; auto).
    destruct (memN 0%N (cancelled s0)); [inversion H; subst; apply InvQ_caller_panic; auto|].
    destruct (take_fault s0 0) as [[x|] s1] eqn:E1; inversion H; subst.
    + apply InvQ_caller_panic. eapply InvQ_take_fault; eauto.
    + apply InvQ_with_ev_other; [reflexivity|]. apply InvQ_setT_other; [reflexivity|]. eapply InvQ_take_fault; eauto.
  - destruct o as [[x e|e]|].
    + destruct (Nat.eqb (c_nres (nth i calls dflt_call)) 1); [inversion H; subst; apply InvQ_caller_return; auto|].
      destruct (take_fault s 3) as [[y|] s1] eqn:E1; inversion H; subst.
      * apply InvQ_caller_panic. eapply InvQ_take_fault; eauto.
      * apply InvQ_caller_return. eapply InvQ_take_fault; eauto.
    + inversion H; subst; apply InvQ_caller_return; auto.
    + inversion H; subst; apply InvQ_caller_panic; auto.
Qed.

Lemma InvQ_seterr Q s t e k s' :
  tget (threads s) t = Some (SetErrMid e k) -> InvQ Q s -> step_seterr fixed s t e k = Some s' -> InvQ Q s'.
Proof.
  intros Ht HI H. unfold step_seterr in H. destruct (tname_eqb t TLink) eqn:El; [discriminate|].
  assert (Hn : t <> TLink) by (intros ->; simpl in El; discriminate).
  assert (H1 : InvQ Q (do_store fixed s e)) by (apply InvQ_do_store; auto).
  assert (T1 : tget (threads (do_store fixed s e)) t = Some (SetErrMid e k)).
  { unfold do_store. simpl. destruct (tget (threads s) TLink) as [[]|]; try exact Ht.
    unfold setT; simpl. rewrite tget_tset_other; [exact Ht|congruence]. }
  destruct k as [|e'|].
  - inversion H; subst. eapply InvQ_setT_callee; eauto.
  - destruct t; inversion H; subst; try (eapply InvQ_setT_callee; eauto; fail).
    apply InvQ_with_ev_other; [reflexivity|]. apply InvQ_setT_other; [reflexivity|auto].
  - inversion H; subst. apply InvQ_loop_done. eapply InvQ_setT_callee; eauto.
Qed.

Lemma InvQ_waiter calls Q s i st b s' : InvQ Q s -> step_waiter fixed calls s i st b = Some s' -> InvQ Q s'.
Proof.
  intros HI H. unfold step_waiter in H. destruct st; try discriminate.
  - match type of H with (match ?c with _ => _ end) = _ => destruct c eqn:Ec end.
    + unfold only0 in H. destruct b; inversion H; subst. apply InvQ_setT_other; auto.
    + match type of H with (match ?c with _ => _ end) = _ => destruct c as [[n| |]|] eqn:En end; try discriminate.
      * destruct (tget (threads s) (TPub n)) as [[]|]; try discriminate.
        match type of H with (if ?c then _ else _) = _ => destruct c end; [|discriminate].
        inversion H; subst. apply InvQ_setT_other; [reflexivity|]. apply InvQ_setT_other; auto.
      * inversion H; subst. apply InvQ_setT_other; auto.
      * inversion H; subst. apply InvQ_setT_other; auto.
  - unfold only0 in H. destruct b; [|discriminate]. simpl in H.
    destruct (tget (threads s) (TCall i)) as [[]|]; inversion H; subst;
      try (apply InvQ_setT_other; [reflexivity|auto]; fail).
    apply InvQ_setT_other; [reflexivity|]. apply InvQ_setT_other; auto.
  - unfold only0 in H. destruct b; inversion H; subst. apply InvQ_wake. apply InvQ_setT_other; [reflexivity|].
    apply InvQ_do_free; auto.
Qed.

Lemma InvQ_pub Q s n st b s' : InvQ Q s -> step_pub s n st b = Some s' -> InvQ Q s'.
Proof.
  intros HI H. unfold step_pub in H. destruct st; try discriminate.
  - unfold only0 in H. destruct b; [|discriminate].
    destruct (bclosed s); [inversion H; subst; apply InvQ_with_ev_other; [reflexivity|]; apply InvQ_setT_other; auto|].
    destruct (lookupN id (tbl s)); inversion H; subst;
      [apply InvQ_setT_other; auto|apply InvQ_with_ev_other; [reflexivity|]; apply InvQ_setT_other; auto].
  - match type of H with (match ?c with _ => _ end) = _ => destruct c eqn:Ec end.
    + unfold only0 in H. destruct b; inversion H; subst. apply InvQ_setT_other; auto.
    + match type of H with (match ?c with _ => _ end) = _ => destruct c as [[i|]|] eqn:En end; try discriminate.
      * destruct (tget (threads s) (TWaiter i)) as [[]|]; try discriminate.
        match type of H with (if ?c then _ else _) = _ => destruct c end; [|discriminate].
        inversion H; subst. apply InvQ_setT_other; [reflexivity|]. apply InvQ_setT_other; auto.
      * inversion H; subst. apply InvQ_setT_other; auto.
  - unfold only0 in H. destruct b; inversion H; subst. apply InvQ_setT_other; auto.
  - unfold only0 in H. destruct b; inversion H; subst. apply InvQ_setT_other; auto.
Qed.

(* the resolver of request n hands over to the handler goroutine of request n *)
Lemma InvQ_spawn_handler Q s n f arg :
  tget (threads s) (TReq n) = Some (QStart f arg) -> InvQ Q s ->
  InvQ Q (setT (setT s (TReq n) Finished) (THandler n) (HStart f arg)).
Proof.
  intros Ht H. pose proof (q_thr _ _ H _ _ Ht) as Hk. simpl in Hk. destruct Hk as (K1 & K2 & K3).
  assert (H1 : InvQ Q (setT s (TReq n) Finished)) by (eapply InvQ_setT_callee; eauto).
  assert (Hlt : n < nreq s).
  { destruct (Nat.lt_ge_cases n (nreq s)) as [L|G]; auto. destruct (q_bnd _ _ H n G) as (A & _). congruence. }
  destruct H1 as [g1 g2 g3 g4 g5 g6 g7 g8]. constructor; auto.
  - intros t st Hg. unfold setT in Hg; simpl in Hg. rewrite tget_tset in Hg. simpl.
    destruct (tname_eqb t (THandler n)) eqn:E.
    + apply tname_eqb_eq in E; subst. inversion Hg; subst. simpl. auto.
    + apply g2. exact Hg.
  - intros m Hm. unfold setT in *; simpl in *. rewrite tget_tset_other by discriminate.
    rewrite tget_tset in Hm. destruct (tname_eqb (THandler m) (THandler n)) eqn:E.
    + apply tname_eqb_eq in E. inversion E; subst. rewrite tget_tset_same. reflexivity.
    + apply g3. exact Hm.
  - intros m Hm. simpl in Hm. destruct (g4 m Hm) as (A & B & C & D). unfold setT in *; simpl in *.
    split; [|split; [|split]]; auto.
    + rewrite tget_tset_other by discriminate. exact A.
    + rewrite tget_tset_other; [exact B|]. intros E; inversion E; lia.
Qed.

(* the handler goroutine of request n invokes the exposed function *)
Lemma InvQ_invoke Q s n f arg :
  tget (threads s) (THandler n) = Some (HStart f arg) -> InvQ Q s ->
  let s1 := with_ev s (EvInvoked n f arg) in
  (forall st, free_state st = true \/ (f = FGated /\ st = HGate arg) -> InvQ Q (setT s1 (THandler n) st)).
Proof.
  intros Ht H s1 st Hst. pose proof (q_thr _ _ H _ _ Ht) as Hk. simpl in Hk. destruct Hk as (K1 & K2 & K3).
  destruct H as [h1 h2 h3 h4 h5 h6 h7 h8]. constructor; simpl; auto.
  - intros t st' Hg. rewrite tget_tset in Hg. destruct (tname_eqb t (THandler n)) eqn:E.
    + apply tname_eqb_eq in E; subst. inversion Hg; subst. destruct Hst as [Hf|(-> & ->)].
      * destruct st'; simpl in *; auto; discriminate.
      * simpl. auto.
    + specialize (h2 _ _ Hg). destruct t; auto; destruct st'; simpl in *; auto.
      * destruct h2 as (P & R & S). repeat split; auto. intros [Hq|Hq]; [|auto]. subst n0.
        assert (Hx := h3 n). rewrite Ht in Hx. specialize (Hx ltac:(discriminate)). rewrite Hg in Hx. discriminate.
      * destruct h2 as (P & R & S). repeat split; auto. intros [Hq|Hq]; [|auto]. subst n0.
        simpl in E. rewrite Nat.eqb_refl in E. discriminate.
      * destruct h2 as (P & R). auto.
  - intros m Hm. rewrite tget_tset_other by discriminate. apply h3.
    rewrite tget_tset in Hm. destruct (tname_eqb (THandler m) (THandler n)) eqn:E; auto.
    apply tname_eqb_eq in E. inversion E; subst. congruence.
  - intros m Hm. destruct (h4 m Hm) as (A & B & C & D). rewrite tget_tset_other by discriminate. rewrite tget_tset.
    destruct (tname_eqb (THandler m) (THandler n)) eqn:E; [apply tname_eqb_eq in E; inversion E; subst; congruence|].
    repeat split; auto. intros [Hq|Hq]; [|auto]. subst m. congruence.
  - intros m f' a' [Hq|Hin]; [inversion Hq; subst; auto|eauto].
  - intros m v e [Hq|Hin]; [discriminate|]. destruct (h6 _ _ _ Hin) as (f' & a' & P & R). exists f', a'. split; [right; auto|auto].
  - constructor; auto.
Qed.

Lemma InvQ_equiv Q s s' :
  (forall t, tget (threads s') t = tget (threads s) t) -> evs s' = evs s -> nreq s' = nreq s -> InvQ Q s -> InvQ Q s'.
Proof. intros A B C H. apply (InvQ_core Q s s'); auto; try (rewrite B; tauto); rewrite B; reflexivity. Qed.

Lemma tget_tset_tset l t a b t' : tget (tset (tset l t a) t b) t' = tget (tset l t b) t'.
Proof. rewrite !tget_tset. destruct (tname_eqb t' t); reflexivity. Qed.

(* handler_respond overwrites the handler's own thread state: what that state was does not matter *)
Lemma handler_respond_setT calls s n st v e :
  (forall t, tget (threads (handler_respond calls (setT s (THandler n) st) n v e)) t =
             tget (threads (handler_respond calls s n v e)) t) /\
  evs (handler_respond calls (setT s (THandler n) st) n v e) = evs (handler_respond calls s n v e) /\
  nreq (handler_respond calls (setT s (THandler n) st) n v e) = nreq (handler_respond calls s n v e).
Proof.
  unfold handler_respond, take_fault. cbn [flt setT with_flt with_threads cancelled].
  assert (BS : forall (a b : lst) E,
             (forall t, tget (threads b) t = tget (threads a) t \/ t = THandler n) ->
             ents b = ents a -> cancelled b = cancelled a -> evs b = evs a -> nreq b = nreq a ->
             (forall t, tget (threads (begin_seterr calls b (THandler n) E KDone)) t =
                        tget (threads (begin_seterr calls a (THandler n) E KDone)) t) /\
             evs (begin_seterr calls b (THandler n) E KDone) = evs (begin_seterr calls a (THandler n) E KDone) /\
             nreq (begin_seterr calls b (THandler n) E KDone) = nreq (begin_seterr calls a (THandler n) E KDone)).
  { intros a b E Ht He Hc Hev Hn. split; [|split; simpl; auto].
    intros t. unfold begin_seterr, wake. cbn [threads with_threads setT do_close].
    rewrite !tget_map_wake_gen. rewrite !tget_tset.
    destruct (tname_eqb t (THandler n)) eqn:Eq.
    - simpl. apply tname_eqb_eq in Eq; subst. reflexivity.
    - destruct (Ht t) as [Hq|Hq]; [|subst; rewrite tname_eqb_refl in Eq; discriminate].
      rewrite Hq. destruct (tget (threads a) t) as [st0|]; [|reflexivity]. simpl.
      unfold wake1. cbn [cancelled ents]. rewrite Hc, He. reflexivity. }
  assert (HT : forall f t, tget (threads (with_flt (with_threads s (tset (threads s) (THandler n) st)) f)) t =
                           tget (threads (with_flt s f)) t \/ t = THandler n).
  { intros f t. simpl. rewrite tget_tset. destruct (tname_eqb t (THandler n)) eqn:Eq; [right; apply tname_eqb_eq; auto|left; auto]. }
  destruct (f_marshal (flt s)); [apply BS; auto|].
  destruct (memN 0%N (cancelled s)); [apply BS; auto|].
  cbn [flt with_flt f_wres f_wreq f_marshal f_unmarshal].
  destruct (f_wres (flt s)); [apply BS; auto; intros t; simpl; rewrite tget_tset;
    destruct (tname_eqb t (THandler n)) eqn:Eq; [right; apply tname_eqb_eq; auto|left; auto]|].
  split; [|split; reflexivity]. intros t. simpl. apply tget_tset_tset.
Qed.

Lemma InvQ_callee calls Q s t n st s' :
  tget (threads s) t = Some st -> (t = TReq n \/ t = THandler n) -> InvQ Q s -> step_callee calls s t n st = Some s' -> InvQ Q s'.
Proof.
  intros Ht Htn HI H. unfold step_callee in H.
  assert (TF : forall k o s1, take_fault s k = (o, s1) -> threads s1 = threads s /\ evs s1 = evs s).
  { intros k o s1 E. unfold take_fault in E. destruct k as [|[|[|k]]]; inversion E; subst; auto. }
  destruct t; try discriminate; destruct st; try discriminate.
  - (* TReq QStart *)
    assert (n0 = n) by (destruct Htn as [E|E]; inversion E; auto). subst n0.
    assert (Hok : forall s1, threads s1 = threads s -> okQ s1 (TReq n)) by (intros s1 A; right; rewrite A; congruence).
    destruct f; try (inversion H; subst; apply InvQ_begin_seterr; [apply Hok; reflexivity|auto]; fail);
      destruct (take_fault s 3) as [[y|] s1] eqn:E1; inversion H; subst; destruct (TF _ _ _ E1) as (A1 & B1);
      try (apply InvQ_begin_seterr; [apply Hok; auto|]; eapply InvQ_take_fault; eauto; fail);
      (apply InvQ_spawn_handler; [rewrite A1; exact Ht|eapply InvQ_take_fault; eauto]).
  - (* THandler HStart *)
    assert (n0 = n) by (destruct Htn as [E|E]; inversion E; auto). subst n0.
    pose proof (InvQ_invoke Q s n f arg Ht HI) as Hinv. cbv zeta in Hinv.
    pose proof (q_thr _ _ HI _ _ Ht) as Hk. simpl in Hk. destruct Hk as (K1 & K2 & K3).
    assert (Hresp : forall x e, handler_result f arg = Some (x, e) ->
                                InvQ Q (handler_respond calls (with_ev s (EvInvoked n f arg)) n x e)).
    { intros x e Hr.
      destruct (handler_respond_setT calls (with_ev s (EvInvoked n f arg)) n Finished x e) as (A & B & C).
      eapply InvQ_equiv; [intros t0; symmetry; apply A|symmetry; exact B|symmetry; exact C|].
      eapply InvQ_handler_respond.
      - unfold setT; simpl. apply tget_tset_same.
      - simpl. exact K3.
      - exists f, arg. split; [simpl; auto|exact Hr].
      - apply Hinv. left; reflexivity. }
    destruct f; try discriminate;
      try (destruct (handler_result _ arg) as [[x e]|] eqn:Hr; inversion H; subst; apply Hresp; auto; fail).
    + (* FGated *) inversion H; subst. apply Hinv. right; auto.
    + (* FPanic *) inversion H; subst. unfold begin_seterr. apply InvQ_wake.
      pose proof (InvQ_invoke Q (do_close s) n FPanic arg Ht (InvQ_do_close _ _ HI)) as Hinv2. cbv zeta in Hinv2.
      exact (Hinv2 (SetErrMid EPanic KDone) (or_introl eq_refl)).
  - (* THandler HGate *)
    assert (n0 = n) by (destruct Htn as [E|E]; inversion E; auto). subst n0.
    pose proof (q_thr _ _ HI _ _ Ht) as Hk. simpl in Hk. destruct Hk as (K1 & K2).
    inversion H; subst. eapply InvQ_handler_respond; eauto. exists FGated, arg. split; auto. reflexivity.
Qed.

Lemma InvQ_infra calls Q s t st s' : InvQ Q s -> step_infra fixed calls s t st = Some s' -> InvQ Q s'.
Proof.
  intros HI H. unfold step_infra in H. destruct t; try discriminate; destruct st; try discriminate.
  - inversion H; subst. apply InvQ_begin_seterr; [left; reflexivity|auto].
  - destruct (fatal s); inversion H; subst; (apply InvQ_setT_other; [reflexivity|auto]).
  - inversion H; subst. apply InvQ_with_ev_other; [reflexivity|]. apply InvQ_setT_other; [reflexivity|auto].
  - inversion H; subst. apply InvQ_loop_again; [reflexivity|]. apply InvQ_loop_again; [reflexivity|].
    apply InvQ_setT_other; [reflexivity|].
    eapply (InvQ_evs_others Q s _ [EvHook true true; EvHook true false]); auto; reflexivity.
  - inversion H; subst.
    eapply (InvQ_evs_others Q s _ [EvHook false true; EvHook false false]); auto; try reflexivity.
    intros t Hc. simpl. apply tget_tset_other. intros <-. discriminate.
Qed.

Lemma InvQ_init : InvQ [] linit.
Proof.
  constructor; simpl; auto; try (intros; contradiction); try constructor.
  - intros t st H. destruct t; simpl in H; try discriminate; inversion H; subst; exact I.
Qed.

Lemma InvQ_step calls Q s c b s' : InvQ Q s -> lstep fixed calls s c b = Some s' -> InvQ (Q_step Q c s s') s'.
Proof.
  intros HI H. unfold lstep in H. destruct (crashed s); [discriminate|].
  destruct c as [t|a].
  - simpl Q_step. destruct (tget (threads s) t) as [st|] eqn:Ht; [|discriminate].
    destruct st;
      try (unfold only0 in H; destruct b; [|discriminate]; eapply InvQ_seterr; eauto; fail);
      destruct t;
      try (unfold only0 in H; destruct b; [|discriminate]);
      try (eapply InvQ_caller; eauto; fail);
      try (eapply InvQ_waiter; eauto; fail);
      try (eapply InvQ_pub; eauto; fail);
      try (eapply InvQ_callee; eauto; fail);
      try (eapply InvQ_infra; eauto; fail);
      try discriminate.
  - unfold only0 in H. destruct b; [|discriminate]. eapply InvQ_env; eauto.
Qed.

Lemma In_Q_step Q c s s' x : In x (Q_step Q c s s') -> In x Q \/ exists b, In x (req_of [(c, b)]).
Proof.
  destruct c as [t|a]; simpl; auto. destruct a; simpl; auto.
  destruct (Nat.eqb _ _); auto. intros H. apply in_app_or in H as [H|[H|[]]]; auto.
  right. exists 0. simpl. auto.
Qed.

Lemma req_of_cons c b r x : In x (req_of ((c, b) :: r)) <-> In x (req_of [(c, b)]) \/ In x (req_of r).
Proof. destruct c as [t|a]; simpl; [tauto|]. destruct a; simpl; tauto. Qed.

Lemma InvQ_run calls cs : forall Q s0 s,
  InvQ Q s0 -> lrun fixed calls s0 cs = Some s ->
  exists Q', InvQ Q' s /\ forall x, In x Q' -> In x Q \/ In x (req_of cs).
Proof.
  induction cs as [|[c b] r IH]; intros Q s0 s H0 H; simpl in H.
  - inversion H; subst. exists Q. split; auto.
  - destruct (lstep fixed calls s0 c b) as [s1|] eqn:E; [|discriminate].
    destruct (IH _ _ _ (InvQ_step _ _ _ _ _ _ H0 E) H) as (Q' & HI & Hsub).
    exists Q'. split; auto. intros x Hx. destruct (Hsub x Hx) as [Hd|Hr].
    + destruct (In_Q_step _ _ _ _ _ Hd) as [Hd'|(b' & Hb)]; auto.
      right. apply req_of_cons. left. destruct c as [t|a]; simpl in *; auto; try (destruct a; simpl in *; auto).
    + right. apply req_of_cons. auto.
Qed.

(* every invocation of an exposed function is for a request the peer sent, with that request's
   function and argument; no request is invoked twice; a response written for request n is the
   result of the invocation made for request n; no request is answered twice *)
Lemma callee_side_lemma calls cs s :
  lrun fixed calls linit cs = Some s ->
  (forall n f arg, In (EvInvoked n f arg) (evs s) -> In (f, arg) (req_of cs)) /\
  NoDup (inv_ids (evs s)) /\
  (forall n v e, In (EvResWritten n v e) (evs s) ->
     exists f arg, In (EvInvoked n f arg) (evs s) /\ handler_result f arg = Some (v, e)) /\
  NoDup (res_ids (evs s)).
Proof.
  intros Hr. destruct (InvQ_run calls cs [] linit s InvQ_init Hr) as (Q' & HI & Hsub).
  split; [|split; [exact (q_nd1 _ _ HI)|split; [exact (q_res _ _ HI)|exact (q_nd2 _ _ HI)]]].
  intros n f arg Hin. apply (q_inv _ _ HI) in Hin. apply nth_error_In in Hin.
  destruct (Hsub _ Hin) as [[]|]; auto.
Qed.

(* non-vacuity: three requests, handled and answered in a different order than they arrived *)
Definition cq_schedule : list (choice * nat) :=
  [(Run TSetup, 0); (Env (EDeliverReq FEcho 7%N), 0); (Env (EDeliverReq (FFail 3%N) 8%N), 0); (Env (EDeliverReq FNotify 9%N), 0);
   (Run (TReq 2), 0); (Run (TReq 0), 0); (Run (TReq 1), 0);
   (Run (THandler 1), 0); (Run (THandler 2), 0); (Run (THandler 0), 0)].

Example callee_side_example :
  exists s, lrun fixed [] linit cq_schedule = Some s /\
            In (EvResWritten 0 7%N None) (evs s) /\ In (EvResWritten 1 8%N (Some 3%N)) (evs s) /\
            In (EvResWritten 2 zero None) (evs s) /\ inv_ids (evs s) = [0; 2; 1].
Proof. eexists. split; [vm_compute; reflexivity|]. simpl. tauto. Qed.
