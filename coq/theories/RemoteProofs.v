From Coq Require Import String.
From Verif Require Import Base Resolve ResolveProofs Remote.
Local Open Scope list_scope.

(* Link succeeds exactly when every function-typed field at any depth is valid *)
Lemma validate_ok_iff_lemma fuel prefix fs :
  (exists ps, validate_fields fuel prefix fs = VOk ps) <-> all_valid fuel fs = true.
Proof.
  revert prefix fs. induction fuel as [|fuel IH]; intros prefix fs; simpl.
  - split; eauto.
  - destruct fs as [|[name t] rest]; [split; eauto|].
    destruct t as [nin c nout e|sub|].
    + destruct (check_func nin c nout e) eqn:Ec; simpl.
      * split; [intros [ps H]; discriminate|discriminate].
      * rewrite <- (IH prefix rest). split.
        -- intros [ps H]. destruct (validate_fields fuel prefix rest); [eauto|discriminate].
        -- intros [ps H]. rewrite H. eauto.
    + rewrite andb_true_iff, <- (IH (prefix ++ [name]) sub), <- (IH prefix rest). split.
      * intros [ps H]. destruct (validate_fields fuel (prefix ++ [name]) sub); [|discriminate].
        destruct (validate_fields fuel prefix rest); [eauto|discriminate].
      * intros [[p1 H1] [p2 H2]]. rewrite H1, H2. eauto.
    + simpl. rewrite <- (IH prefix rest). split.
      * intros [ps H]. destruct (validate_fields fuel prefix rest); [eauto|discriminate].
      * intros [ps H]. rewrite H. eauto.
Qed.

(* every stub path extends the prefix with field names of the definition *)
Lemma validate_paths_wf fuel prefix fs ps :
  validate_fields fuel prefix fs = VOk ps ->
  forall p, In p ps -> exists suffix, p = prefix ++ suffix /\ suffix <> [].
Proof.
  revert prefix fs ps. induction fuel as [|fuel IH]; intros prefix fs ps H p Hin; simpl in H.
  - inversion H; subst. destruct Hin.
  - destruct fs as [|[name t] rest]; [inversion H; subst; destruct Hin|].
    destruct t as [nin c nout e|sub|].
    + destruct (check_func nin c nout e); [discriminate|].
      destruct (validate_fields fuel prefix rest) as [p2|] eqn:E2; [|discriminate]. inversion H; subst.
      destruct Hin as [<-|Hin]; [exists [name]; split; [reflexivity|discriminate]|eapply IH; eauto].
    + destruct (validate_fields fuel (prefix ++ [name]) sub) as [p1|] eqn:E1; [|discriminate].
      destruct (validate_fields fuel prefix rest) as [p2|] eqn:E2; [|discriminate]. inversion H; subst.
      apply in_app_or in Hin as [Hin|Hin]; [|eapply IH; eauto].
      destruct (IH _ _ _ E1 p Hin) as (sfx & -> & Hne). exists (name :: sfx). split; [rewrite <- app_assoc; reflexivity|discriminate].
    + destruct (validate_fields fuel prefix rest) as [p2|] eqn:E2; [|discriminate]. inversion H; subst. eapply IH; eauto.
Qed.

(* caller-side naming agrees with callee-side lookup: the name a stub writes splits back into
   exactly the field path of the stub, for every nesting depth (Go identifiers contain no dots) *)
Lemma naming_agrees_lemma (p : list string) :
  p <> [] -> forallb no_dot p = true -> split_dot (wire_name p) = p.
Proof. apply split_join. Qed.
