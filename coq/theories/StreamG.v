(* StreamG.v — LinkStream (registry.go) at goroutine level: the decode goroutine, the two read functions it
   feeds (called by LinkMessage's request loop and response loop), the two unbuffered channels between them,
   decodeDone / decodeErr, and the link context.  Variant flag [decoder_send_unguarded] = the tree as found
   (D3): the decoder's hand-over had no context case.

   What a reader loop does between two reads is outside this model (it is LinkMessage's, Link.v); here a
   reader is either between reads, inside its read function, or gone (its loop has ended: for instance the
   link ended for a reason of its own).  [decode] is the application's: it returns the next element of the
   input or blocks while the input is exhausted. *)
From Verif Require Import Base Stream.

Inductive dstate :=
| DRead                                   (* inside decode / about to call it *)
| DSendReq (f : N) (res : option N)       (* select { requests <- f ; ctx.Done } ; the envelope's response member is next *)
| DSendRes (g : N)                        (* select { responses <- g ; ctx.Done } *)
| DExit.                                  (* decodeDone closed, goroutine gone *)

Inductive rstate := RBetween | RInRead | RGone.

Record gst := mkG {
  inp : list sitem;            (* what successive decode calls will return *)
  dec : dstate;
  rq : rstate; rs : rstate;    (* the request reader, the response reader *)
  gcancelled : bool;           (* the link context *)
  gdone : option N;            (* decodeDone closed, with decodeErr *)
  outq : list rd; outs : list rd   (* what the read functions have returned so far (most recent first) *)
}.

Definition ctx_err : N := 0%N.   (* the context's error, as an error code *)

Inductive gact :=
| ADecode          (* decode returns *)
| AHandReq         (* rendezvous on the requests channel *)
| AHandRes
| ADecCtx          (* the decoder's select takes the ctx.Done case *)
| AReadReq | AReadRes       (* a reader loop calls its read function *)
| AFailReq | AFailRes       (* a read function takes the decodeDone case *)
| ACancel                   (* the link context is cancelled *)
| AGoneReq | AGoneRes.      (* a reader loop ends (between reads) *)

Definition after_req (res : option N) : dstate := match res with Some g => DSendRes g | None => DRead end.

Definition gstep (v : variant) (s : gst) (a : gact) : option gst :=
  match a with
  | ADecode =>
      match dec s, inp s with
      | DRead, SErr n :: r => Some (mkG r DExit (rq s) (rs s) (gcancelled s) (Some n) (outq s) (outs s))
      | DRead, SEnv e :: r =>
          let d := match e_req e with Some f => DSendReq f (e_res e) | None => after_req (e_res e) end in
          Some (mkG r d (rq s) (rs s) (gcancelled s) (gdone s) (outq s) (outs s))
      | _, _ => None
      end
  | AHandReq =>
      match dec s, rq s with
      | DSendReq f res, RInRead => Some (mkG (inp s) (after_req res) RBetween (rs s) (gcancelled s) (gdone s) (RFrame f :: outq s) (outs s))
      | _, _ => None
      end
  | AHandRes =>
      match dec s, rs s with
      | DSendRes g, RInRead => Some (mkG (inp s) DRead (rq s) RBetween (gcancelled s) (gdone s) (outq s) (RFrame g :: outs s))
      | _, _ => None
      end
  | ADecCtx =>
      if decoder_send_unguarded v then None else
      match dec s with
      | DSendReq _ _ | DSendRes _ =>
          if gcancelled s then Some (mkG (inp s) DExit (rq s) (rs s) true (Some ctx_err) (outq s) (outs s)) else None
      | _ => None
      end
  | AReadReq => match rq s with RBetween => Some (mkG (inp s) (dec s) RInRead (rs s) (gcancelled s) (gdone s) (outq s) (outs s)) | _ => None end
  | AReadRes => match rs s with RBetween => Some (mkG (inp s) (dec s) (rq s) RInRead (gcancelled s) (gdone s) (outq s) (outs s)) | _ => None end
  | AFailReq =>
      match rq s, gdone s with
      | RInRead, Some n => Some (mkG (inp s) (dec s) RGone (rs s) (gcancelled s) (gdone s) (RFail n :: outq s) (outs s))
      | _, _ => None
      end
  | AFailRes =>
      match rs s, gdone s with
      | RInRead, Some n => Some (mkG (inp s) (dec s) (rq s) RGone (gcancelled s) (gdone s) (outq s) (RFail n :: outs s))
      | _, _ => None
      end
  | ACancel => Some (mkG (inp s) (dec s) (rq s) (rs s) true (gdone s) (outq s) (outs s))
  | AGoneReq => match rq s with RBetween => Some (mkG (inp s) (dec s) RGone (rs s) (gcancelled s) (gdone s) (outq s) (outs s)) | _ => None end
  | AGoneRes => match rs s with RBetween => Some (mkG (inp s) (dec s) (rq s) RGone (gcancelled s) (gdone s) (outq s) (outs s)) | _ => None end
  end.

Fixpoint grun (v : variant) (s : gst) (l : list gact) : option gst :=
  match l with
  | [] => Some s
  | a :: r => match gstep v s a with Some s' => grun v s' r | None => None end
  end.

Definition ginit (input : list sitem) : gst := mkG input DRead RBetween RBetween false None [] [].
Definition greachable (v : variant) (input : list sitem) (s : gst) : Prop := exists l, grun v (ginit input) l = Some s.

(* can the decode goroutine still move by a step of its own? *)
Definition dec_can_move (v : variant) (s : gst) : bool :=
  match gstep v s ADecCtx with Some _ => true | None => false end.
