(* Wire.v — how panrpc moves arguments, results and errors through frames
   (registry.go: makeRPC argument loop :141-173, callee argument loop :361-479, response
   construction :727-855, caller-side error reconstruction :880-884; utils/messages.go). *)
From Coq Require Import String.
From Verif Require Import Base.

(* ================================================================= arguments (C09) *)
Section Args.
Variables value payload ty : Type.
Variable marshal : value -> payload.
Variable unmarshal : payload -> ty -> value.
Variable dflt : payload.

Inductive carg := CCtx | CData (v : value) | CFunc (closure_id : value).     (* what the stub is called with *)
Inductive ptype := PCtx | PData (t : ty) | PFunc.                            (* the handler's parameter types *)
Inductive darg := DCtx | DVal (v : value) | DProxy (closure_id : payload).   (* what the handler is called with *)

(* caller: `for i, arg := range args { if i == 0 { ctx; continue }; cmd.Args = append(cmd.Args, marshal(..)) }` *)
Fixpoint caller_loop (i : nat) (args : list carg) (acc : list payload) : list payload :=
  match args with
  | [] => acc
  | a :: r =>
      if Nat.eqb i 0 then caller_loop (S i) r acc
      else caller_loop (S i) r (acc ++ [match a with
                                         | CData v => marshal v
                                         | CFunc cid => marshal cid
                                         | CCtx => dflt end])
  end.
Definition request_args (all_args : list carg) : list payload := caller_loop 0 all_args [].

(* callee: `for i := 0; i < NumIn; i++ { if i == 0 { ctx; continue }; argIndex := i - 1; ... req.Args[argIndex] ... }` *)
Fixpoint callee_loop (i : nat) (ptys : list ptype) (frame : list payload) : list darg :=
  match ptys with
  | [] => []
  | t :: r =>
      (if Nat.eqb i 0 then DCtx
       else match t with
            | PFunc => DProxy (nth (i - 1) frame dflt)
            | PData t' => DVal (unmarshal (nth (i - 1) frame dflt) t')
            | PCtx => DCtx
            end) :: callee_loop (S i) r frame
  end.
Definition handler_args (ptys : list ptype) (frame : list payload) : list darg := callee_loop 0 ptys frame.

(* the specification: position by position *)
Definition spec_arg (a : carg) (t : ptype) : darg :=
  match a, t with
  | CData v, PData t' => DVal (unmarshal (marshal v) t')
  | CFunc cid, PFunc => DProxy (marshal cid)
  | CData v, PFunc => DProxy (marshal v)
  | CFunc cid, PData t' => DVal (unmarshal (marshal cid) t')
  | CCtx, PData t' => DVal (unmarshal dflt t')       (* a second context argument is not transmittable *)
  | CCtx, PFunc => DProxy dflt
  | _, PCtx => DCtx
  end.
Fixpoint spec_args (args : list carg) (ptys : list ptype) : list darg :=
  match args, ptys with
  | a :: r, t :: rt => spec_arg a t :: spec_args r rt
  | _, _ => []
  end.
End Args.

(* ================================================================= errors (C10) *)
(* strings as lists of Unicode code points; unicode.IsSpace *)
Definition is_space (c : N) : bool :=
  (N.leb 9 c && N.leb c 13) || N.eqb c 32 || N.eqb c 133 || N.eqb c 160 || N.eqb c 5760 ||
  (N.leb 8192 c && N.leb c 8202) || N.eqb c 8232 || N.eqb c 8233 || N.eqb c 8239 || N.eqb c 8287 || N.eqb c 12288.

Definition blank (s : list N) : bool := forallb is_space s.          (* strings.TrimSpace(s) == "" *)

(* callee: Err = "" for a nil error, err.Error() otherwise *)
Definition response_err (e : option (list N)) : list N := match e with None => [] | Some m => m end.
(* caller: `if strings.TrimSpace(res.Err) != "" { err = errors.New(res.Err) }` *)
Definition caller_err (errfield : list N) : option (list N) := if blank errfield then None else Some errfield.

(* ================================================================= frames (C17) *)
Inductive jval := JNull | JStr (s : string) | JArr (l : list jval) | JPayload (n : N).
Definition doc := list (string * jval).

Record tags := mkTags { t_call : string; t_function : string; t_args : string;
                        t_rcall : string; t_value : string; t_err : string;
                        t_request : string; t_response : string;
                        t_args_init_empty : bool }.

Open Scope string_scope.
Definition documented : tags := mkTags "call" "function" "args" "call" "value" "err" "request" "response" true.

Definition build_request (t : tags) (id fn : string) (args : list N) : doc :=
  [(t_call t, JStr id); (t_function t, JStr fn);
   (t_args t, match args with
              | [] => if t_args_init_empty t then JArr [] else JNull      (* `Args: []T{}` vs a nil slice *)
              | _ => JArr (map JPayload args) end)].

(* the five construction sites build the same shape: value (marshal nil when there is none) and the error text *)
Definition build_response (t : tags) (id : string) (v : N) (e : option string) : doc :=
  [(t_rcall t, JStr id); (t_value t, JPayload v); (t_err t, JStr (match e with None => "" | Some m => m end))].

Definition build_envelope (t : tags) (req res : option doc) : list (string * option doc) :=
  [(t_request t, req); (t_response t, res)].

Definition keys (d : doc) : list string := map fst d.
