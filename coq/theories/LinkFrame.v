(* LinkFrame.v — who can move a goroutine that is not blocked in a select: only its own step.
   Two frame lemmas over single steps of Link.v (variant fixed), used to carry the outer calls of a
   call chain across the steps of the inner ones (ChainProofs.v):
   - a caller that waits for its response whose waiter goroutine has not run yet keeps that state under
     every step except its waiter's own, as long as the link context is not cancelled;
   - a handler that is inside application code keeps that state under every step except its own. *)
From Verif Require Import Base Link LinkProofs LinkInv16 LinkInvB.

(* ---------------------------------------------------------------- the waiting caller *)
Definition KeepC (i ent : nat) (s : lst) : Prop :=
  tget (threads s) (TCall i) = Some CBlocked /\ tget (threads s) (TWaiter i) = Some (WStart ent) /\
  memN 0%N (cancelled s) = false.

Lemma KeepC_ext i ent s s' : threads s' = threads s -> cancelled s' = cancelled s -> KeepC i ent s -> KeepC i ent s'.
Proof. intros A B (H1 & H2 & H3). unfold KeepC. rewrite A, B. auto. Qed.

Lemma KeepC_setT i ent s t st : t <> TCall i -> t <> TWaiter i -> KeepC i ent s -> KeepC i ent (setT s t st).
Proof.
  intros N1 N2 (H1 & H2 & H3). unfold KeepC. unfold setT; simpl.
  rewrite !tget_tset_other by auto. auto.
Qed.

Lemma KeepC_wake calls i ent s : KeepC i ent s -> KeepC i ent (wake calls s).
Proof.
  intros (H1 & H2 & H3). unfold KeepC, wake; simpl. rewrite !tget_map_wake_gen, H1, H2. simpl. rewrite H3. auto.
Qed.

Lemma KeepC_do_free i ent s id : KeepC i ent s -> KeepC i ent (do_free s id).
Proof. intros H. unfold do_free. destruct (lookupN id (tbl s)); [apply (KeepC_ext i ent s); auto|exact H]. Qed.
Lemma KeepC_with_ev i ent s e : KeepC i ent s -> KeepC i ent (with_ev s e).
Proof. apply KeepC_ext; reflexivity. Qed.
Lemma KeepC_with_flt i ent s f : KeepC i ent s -> KeepC i ent (with_flt s f).
Proof. apply KeepC_ext; reflexivity. Qed.
Lemma KeepC_with_closures i ent s c : KeepC i ent s -> KeepC i ent (with_closures s c).
Proof. apply KeepC_ext; reflexivity. Qed.
Lemma KeepC_do_close i ent s : KeepC i ent s -> KeepC i ent (do_close s).
Proof. apply KeepC_ext; reflexivity. Qed.
Lemma KeepC_take_fault i ent s k o s1 : take_fault s k = (o, s1) -> KeepC i ent s -> KeepC i ent s1.
Proof. intros E H. unfold take_fault in E. destruct k as [|[|[|k]]]; inversion E; subst; (apply (KeepC_ext i ent s); [reflexivity|reflexivity|exact H]). Qed.

Lemma KeepC_begin_seterr calls i ent s t e k :
  t <> TCall i -> t <> TWaiter i -> KeepC i ent s -> KeepC i ent (begin_seterr calls s t e k).
Proof. intros N1 N2 H. unfold begin_seterr. apply KeepC_wake. apply KeepC_setT; auto. Qed.
Lemma KeepC_loop_again calls i ent s t st :
  t <> TCall i -> t <> TWaiter i -> KeepC i ent s -> KeepC i ent (loop_again calls s t st).
Proof.
  intros N1 N2 H. unfold loop_again. destruct (memN 0%N (cancelled s)); [apply KeepC_begin_seterr; auto|apply KeepC_setT; auto].
Qed.
Lemma KeepC_loop_done i ent s : KeepC i ent s -> KeepC i ent (loop_done s).
Proof.
  intros H. unfold loop_done. cbv zeta.
  match goal with |- KeepC _ _ (if ?c then _ else ?x) =>
    assert (Hx : KeepC i ent x) by (apply (KeepC_ext i ent s); auto); destruct c; auto end.
  match goal with |- KeepC _ _ (match ?o with _ => _ end) => destruct o as [[]|]; auto end.
  apply KeepC_setT; auto; discriminate.
Qed.
Lemma KeepC_do_store v i ent s e : KeepC i ent s -> KeepC i ent (do_store v s e).
Proof.
  intros H. unfold do_store. cbv zeta.
  match goal with |- KeepC _ _ (match tget (threads ?x) TLink with _ => _ end) =>
    assert (Hx : KeepC i ent x) by (apply (KeepC_ext i ent s); auto);
    destruct (tget (threads x) TLink) as [[]|]; auto end.
  apply KeepC_setT; auto; discriminate.
Qed.
Lemma KeepC_caller_panic calls i ent s j e : j <> i -> KeepC i ent s -> KeepC i ent (caller_panic calls s j e).
Proof.
  intros Hn H. unfold caller_panic. apply KeepC_begin_seterr; try (intros Hq; inversion Hq; congruence).
  apply KeepC_with_closures; auto.
Qed.
Lemma KeepC_caller_return i ent s j v e : j <> i -> KeepC i ent s -> KeepC i ent (caller_return s j v e).
Proof.
  intros Hn H. unfold caller_return. apply KeepC_with_ev. apply KeepC_setT; try (intros Hq; inversion Hq; congruence).
  apply KeepC_with_closures; auto.
Qed.
Lemma KeepC_handler_respond calls i ent s n v e : KeepC i ent s -> KeepC i ent (handler_respond calls s n v e).
Proof.
  intros H. unfold handler_respond.
  destruct (take_fault s 2) as [[x|] s1] eqn:E1.
  - apply KeepC_begin_seterr; try discriminate. eapply KeepC_take_fault; eauto.
  - assert (H1 : KeepC i ent s1) by (eapply KeepC_take_fault; eauto).
    destruct (memN 0%N (cancelled s1)); [apply KeepC_begin_seterr; try discriminate; auto|].
    destruct (take_fault s1 1) as [[x|] s2] eqn:E2.
    + apply KeepC_begin_seterr; try discriminate. eapply KeepC_take_fault; eauto.
    + apply KeepC_with_ev. apply KeepC_setT; try discriminate. eapply KeepC_take_fault; eauto.
Qed.

Ltac neq := try discriminate; try (intros Hq; inversion Hq; congruence).

Ltac kc := repeat first
 [ assumption
 | match goal with
   | |- KeepC _ _ (with_ev _ _) => apply KeepC_with_ev
   | |- KeepC _ _ (with_flt _ _) => apply KeepC_with_flt
   | |- KeepC _ _ (with_closures _ _) => apply KeepC_with_closures
   | |- KeepC _ _ (wake _ _) => apply KeepC_wake
   | |- KeepC _ _ (do_free _ _) => apply KeepC_do_free
   | |- KeepC _ _ (do_close _) => apply KeepC_do_close
   | |- KeepC _ _ (do_store _ _ _) => apply KeepC_do_store
   | |- KeepC _ _ (loop_done _) => apply KeepC_loop_done
   | |- KeepC _ _ (handler_respond _ _ _ _ _) => apply KeepC_handler_respond
   | |- KeepC _ _ (caller_panic _ _ _ _) => apply KeepC_caller_panic; [neq|]
   | |- KeepC _ _ (caller_return _ _ _ _) => apply KeepC_caller_return; [neq|]
   | |- KeepC _ _ (begin_seterr _ _ _ _ _) => apply KeepC_begin_seterr; [neq|neq|]
   | |- KeepC _ _ (loop_again _ _ _ _) => apply KeepC_loop_again; [neq|neq|]
   | |- KeepC _ _ (setT _ _ _) => apply KeepC_setT; [neq|neq|]
   | E : take_fault ?b _ = (_, ?c) |- KeepC _ _ ?c => apply (KeepC_take_fault _ _ _ _ _ _ E)
   end ].

Lemma KeepC_gen i ent s s' t st :
  t <> TCall i -> t <> TWaiter i -> threads s' = tset (threads s) t st -> cancelled s' = cancelled s ->
  KeepC i ent s -> KeepC i ent s'.
Proof.
  intros N1 N2 A B (H1 & H2 & H3). unfold KeepC. rewrite A, B. rewrite !tget_tset_other by auto. auto.
Qed.

Lemma KeepC_env calls i ent s a s' :
  KeepC i ent s -> a <> ECancel 0%N -> step_env fixed calls s a = Some s' -> KeepC i ent s'.
Proof.
  intros HI Hnc H. unfold step_env in H. destruct a as [j|id x e| |n|f arg| |n|c|which n].
  - destruct (tget (threads s) (TCall j)) eqn:Ht; [discriminate|].
    assert (Hji : j <> i) by (intros ->; destruct HI as (H1 & _); congruence).
    destruct (nth_error calls j) as [cs|] eqn:Hn; [|discriminate].
    set (s0 := if c_closure cs then with_closures s (j :: closures s) else s) in *.
    assert (H0 : KeepC i ent s0) by (unfold s0; destruct (c_closure cs); kc).
    destruct (take_fault s0 2) as [[x|] s1] eqn:E1; [inversion H; subst; kc|].
    assert (H1 : KeepC i ent s1) by kc.
    destruct (bclosed s1) eqn:Eb; inversion H; subst; [kc|].
    eapply KeepC_gen with (t := TCall j) (st := CRegistered (length (ents s1))); [neq|neq|reflexivity|reflexivity|exact H1].
  - destruct (tget (threads s) TResLoop) as [[]|] eqn:Ht; try discriminate.
    destruct (take_fault s 3) as [[y|] s1] eqn:E1; inversion H; subst; [kc|].
    apply KeepC_loop_again; neq. assert (H1 : KeepC i ent s1) by kc.
    eapply KeepC_gen with (t := TPub (npub s1)) (st := PEnter id x e); [neq|neq|reflexivity|reflexivity|exact H1].
  - destruct (tget (threads s) TResLoop) as [[]|] eqn:Ht; try discriminate.
    destruct (take_fault s 3) as [[y|] s1] eqn:E1; inversion H; subst; kc.
  - destruct (tget (threads s) TResLoop) as [[]|] eqn:Ht; try discriminate. inversion H; subst. kc.
  - destruct (tget (threads s) TReqLoop) as [[]|] eqn:Ht; try discriminate.
    destruct (take_fault s 3) as [[y|] s1] eqn:E1; inversion H; subst; [kc|].
    apply KeepC_loop_again; neq. assert (H1 : KeepC i ent s1) by kc.
    eapply KeepC_gen with (t := TReq (nreq s1)) (st := QStart f arg); [neq|neq|reflexivity|reflexivity|exact H1].
  - destruct (tget (threads s) TReqLoop) as [[]|] eqn:Ht; try discriminate.
    destruct (take_fault s 3) as [[y|] s1] eqn:E1; inversion H; subst; kc.
  - destruct (tget (threads s) TReqLoop) as [[]|] eqn:Ht; try discriminate. inversion H; subst. kc.
  - destruct (memN c (cancelled s)); [discriminate|]. inversion H; subst.
    apply KeepC_wake. destruct HI as (H1 & H2 & H3). unfold KeepC; simpl. split; [exact H1|]. split; [exact H2|].
    destruct c; [exfalso; apply Hnc; reflexivity|]. simpl. exact H3.
  - inversion H; subst. kc.
Qed.

Lemma KeepC_caller calls i ent s j st s' :
  KeepC i ent s -> j <> i -> step_caller calls s j st = Some s' -> KeepC i ent s'.
Proof.
  intros HI Hji H. unfold step_caller in H. destruct st; try discriminate.
  - set (s0 := setT s (TWaiter j) (WStart ent0)) in *.
    assert (H0 : KeepC i ent s0) by (unfold s0; kc).
    destruct (memN 0%N (cancelled s0)); [inversion H; subst; kc|].
    destruct (take_fault s0 0) as [[x|] s1] eqn:E1; inversion H; subst; kc.
  - destruct o as [[x e|e]|].
    + destruct (Nat.eqb (c_nres (nth j calls dflt_call)) 1); [inversion H; subst; kc|].
      destruct (take_fault s 3) as [[y|] s1] eqn:E1; inversion H; subst; kc.
    + inversion H; subst; kc.
    + inversion H; subst; kc.
Qed.

Lemma KeepC_seterr i ent s t e k s' :
  KeepC i ent s -> t <> TCall i -> t <> TWaiter i -> step_seterr fixed s t e k = Some s' -> KeepC i ent s'.
Proof.
  intros HI N1 N2 H. unfold step_seterr in H. destruct (tname_eqb t TLink); [discriminate|].
  destruct k as [|e'|]; [|destruct t|]; inversion H; subst; kc; apply KeepC_setT; auto; kc.
Qed.

Lemma KeepC_waiter calls i ent s j st b s' :
  KeepC i ent s -> j <> i -> step_waiter fixed calls s j st b = Some s' -> KeepC i ent s'.
Proof.
  intros HI Hji H. unfold step_waiter in H. destruct st; try discriminate.
  - match type of H with (match ?c with _ => _ end) = _ => destruct c eqn:Ec end.
    + unfold only0 in H. destruct b; inversion H; subst; kc.
    + match type of H with (match ?c with _ => _ end) = _ => destruct c as [[n| |]|] eqn:En end; try discriminate.
      * destruct (tget (threads s) (TPub n)) as [[]|]; try discriminate.
        match type of H with (if ?c then _ else _) = _ => destruct c end; [|discriminate].
        inversion H; subst; kc.
      * inversion H; subst; kc.
      * inversion H; subst; kc.
  - unfold only0 in H. destruct b; [|discriminate]. simpl in H.
    destruct (tget (threads s) (TCall j)) as [[]|]; inversion H; subst; kc.
  - unfold only0 in H. destruct b; inversion H; subst; kc.
Qed.

Lemma KeepC_pub i ent s n st b s' : KeepC i ent s -> step_pub s n st b = Some s' -> KeepC i ent s'.
Proof.
  intros HI H. unfold step_pub in H. destruct st; try discriminate.
  - unfold only0 in H. destruct b; [|discriminate].
    destruct (bclosed s); [inversion H; subst; kc|].
    destruct (lookupN id (tbl s)); inversion H; subst; kc.
  - match type of H with (match ?c with _ => _ end) = _ => destruct c eqn:Ec end.
    + unfold only0 in H. destruct b; inversion H; subst; kc.
    + match type of H with (match ?c with _ => _ end) = _ => destruct c as [[j|]|] eqn:En end; try discriminate.
      * destruct (tget (threads s) (TWaiter j)) as [[]|] eqn:Ew; try discriminate.
        match type of H with (if ?c then _ else _) = _ => destruct c end; [|discriminate].
        assert (Hji : j <> i) by (intros ->; destruct HI as (_ & H2 & _); congruence).
        inversion H; subst; kc.
      * inversion H; subst; kc.
  - unfold only0 in H. destruct b; inversion H; subst; kc.
  - unfold only0 in H. destruct b; inversion H; subst; kc.
Qed.

Lemma KeepC_callee calls i ent s t n st s' : KeepC i ent s -> step_callee calls s t n st = Some s' -> KeepC i ent s'.
Proof.
  intros HI H. unfold step_callee in H. destruct t; try discriminate; destruct st; try discriminate.
  - destruct f; try (inversion H; subst; kc; fail);
      destruct (take_fault s 3) as [[y|] s1] eqn:E1; inversion H; subst; kc.
  - destruct f; try (inversion H; subst; kc; fail);
      try (destruct (handler_result _ arg) as [[x e]|]; inversion H; subst; kc).
  - inversion H; subst; kc.
Qed.

Lemma KeepC_infra calls i ent s t st s' : KeepC i ent s -> step_infra fixed calls s t st = Some s' -> KeepC i ent s'.
Proof.
  intros HI H. unfold step_infra in H. destruct t; try discriminate; destruct st; try discriminate.
  - inversion H; subst; kc.
  - destruct (fatal s); inversion H; subst; kc.
  - inversion H; subst; kc.
  - inversion H; subst. kc; try (apply (KeepC_ext i ent s); auto).
  - inversion H; subst. eapply KeepC_gen with (t := TSetup) (st := Finished); [neq|neq|reflexivity|reflexivity|exact HI].
Qed.

(* a caller waiting for its response whose waiter goroutine has not run yet is moved by no step but its
   waiter's own - as long as nobody cancels the link context *)
Lemma waiting_caller_frame_lemma calls i ent s c b s' :
  KeepC i ent s -> c <> Run (TWaiter i) -> c <> Env (ECancel 0%N) -> lstep fixed calls s c b = Some s' -> KeepC i ent s'.
Proof.
  intros HI Nw Nc H. unfold lstep in H. destruct (crashed s); [discriminate|].
  destruct c as [t|a].
  - destruct (tget (threads s) t) as [st|] eqn:Ht; [|discriminate].
    assert (Tw : t <> TWaiter i) by (intros ->; apply Nw; reflexivity).
    destruct (tname_eqb t (TCall i)) eqn:Etc.
    + (* the caller itself: it is blocked, its own step is not enabled *)
      apply tname_eqb_eq in Etc. subst t. destruct HI as (H1 & _). rewrite H1 in Ht. inversion Ht; subst st.
      unfold only0 in H. destruct b; simpl in H; discriminate.
    + assert (Tc : t <> TCall i) by (intros ->; rewrite tname_eqb_refl in Etc; discriminate).
      destruct st;
        try (unfold only0 in H; destruct b; [|discriminate]; eapply KeepC_seterr; eauto; fail);
        destruct t;
        try (simpl in H; unfold only0 in H; destruct b; simpl in H; discriminate);
        try (unfold only0 in H; destruct b; [|discriminate]);
        try (eapply (KeepC_caller calls i ent s _ _ s' HI); [|exact H]; intros Hq; apply Tc; rewrite Hq; reflexivity);
        try (eapply (KeepC_waiter calls i ent s _ _ _ s' HI); [|exact H]; intros Hq; apply Tw; rewrite Hq; reflexivity);
        try (eapply KeepC_pub; eauto; fail);
        try (eapply KeepC_callee; eauto; fail);
        try (eapply KeepC_infra; eauto; fail);
        try discriminate.
  - unfold only0 in H. destruct b; [|discriminate]. eapply KeepC_env; eauto. intros ->. apply Nc. reflexivity.
Qed.

(* ---------------------------------------------------------------- the handler inside application code *)
Definition KeepH (n : nat) (arg : N) (s : lst) : Prop :=
  tget (threads s) (THandler n) = Some (HGate arg) /\ tget (threads s) (TReq n) = Some Finished.

Lemma KeepH_ext n arg s s' : threads s' = threads s -> KeepH n arg s -> KeepH n arg s'.
Proof. intros A H. unfold KeepH. rewrite A. exact H. Qed.
Lemma KeepH_setT n arg s t st : t <> THandler n -> t <> TReq n -> KeepH n arg s -> KeepH n arg (setT s t st).
Proof. intros N1 N2 (H1 & H2). unfold KeepH, setT; simpl. rewrite !tget_tset_other by auto. auto. Qed.
Lemma KeepH_wake calls n arg s : KeepH n arg s -> KeepH n arg (wake calls s).
Proof. intros (H1 & H2). unfold KeepH, wake; simpl. rewrite !tget_map_wake_gen, H1, H2. simpl. auto. Qed.
Lemma KeepH_do_free n arg s id : KeepH n arg s -> KeepH n arg (do_free s id).
Proof. intros H. unfold do_free. destruct (lookupN id (tbl s)); [apply (KeepH_ext n arg s); auto|exact H]. Qed.
Lemma KeepH_take_fault n arg s k o s1 : take_fault s k = (o, s1) -> KeepH n arg s -> KeepH n arg s1.
Proof. intros E H. unfold take_fault in E. destruct k as [|[|[|k]]]; inversion E; subst; (apply (KeepH_ext n arg s); [reflexivity|exact H]). Qed.
Lemma KeepH_begin_seterr calls n arg s t e k : t <> THandler n -> t <> TReq n -> KeepH n arg s -> KeepH n arg (begin_seterr calls s t e k).
Proof. intros N1 N2 H. unfold begin_seterr. apply KeepH_wake. apply KeepH_setT; auto. Qed.
Lemma KeepH_loop_again calls n arg s t st : t <> THandler n -> t <> TReq n -> KeepH n arg s -> KeepH n arg (loop_again calls s t st).
Proof. intros N1 N2 H. unfold loop_again. destruct (memN 0%N (cancelled s)); [apply KeepH_begin_seterr; auto|apply KeepH_setT; auto]. Qed.
Lemma KeepH_loop_done n arg s : KeepH n arg s -> KeepH n arg (loop_done s).
Proof.
  intros H. unfold loop_done. cbv zeta.
  match goal with |- KeepH _ _ (if ?c then _ else ?x) =>
    assert (Hx : KeepH n arg x) by (apply (KeepH_ext n arg s); auto); destruct c; auto end.
  match goal with |- KeepH _ _ (match ?o with _ => _ end) => destruct o as [[]|]; auto end.
  apply KeepH_setT; auto; discriminate.
Qed.
Lemma KeepH_do_store v n arg s e : KeepH n arg s -> KeepH n arg (do_store v s e).
Proof.
  intros H. unfold do_store. cbv zeta.
  match goal with |- KeepH _ _ (match tget (threads ?x) TLink with _ => _ end) =>
    assert (Hx : KeepH n arg x) by (apply (KeepH_ext n arg s); auto);
    destruct (tget (threads x) TLink) as [[]|]; auto end.
  apply KeepH_setT; auto; discriminate.
Qed.
Lemma KeepH_handler_respond calls n arg s m v e : m <> n -> KeepH n arg s -> KeepH n arg (handler_respond calls s m v e).
Proof.
  intros Hm H. assert (Tn : THandler m <> THandler n) by (intros Hq; inversion Hq; congruence).
  unfold handler_respond.
  destruct (take_fault s 2) as [[x|] s1] eqn:E1.
  - apply KeepH_begin_seterr; auto; try discriminate. eapply KeepH_take_fault; eauto.
  - assert (H1 : KeepH n arg s1) by (eapply KeepH_take_fault; eauto).
    destruct (memN 0%N (cancelled s1)); [apply KeepH_begin_seterr; auto; discriminate|].
    destruct (take_fault s1 1) as [[x|] s2] eqn:E2.
    + apply KeepH_begin_seterr; auto; try discriminate. eapply KeepH_take_fault; eauto.
    + apply (KeepH_ext n arg (setT s2 (THandler m) Finished)); auto.
      apply KeepH_setT; auto; try discriminate. eapply KeepH_take_fault; eauto.
Qed.

Ltac kh := repeat first
 [ assumption
 | match goal with
   | |- KeepH _ _ (with_ev ?x _) => apply (KeepH_ext _ _ x); [reflexivity|]
   | |- KeepH _ _ (with_flt ?x _) => apply (KeepH_ext _ _ x); [reflexivity|]
   | |- KeepH _ _ (with_closures ?x _) => apply (KeepH_ext _ _ x); [reflexivity|]
   | |- KeepH _ _ (do_close ?x) => apply (KeepH_ext _ _ x); [reflexivity|]
   | |- KeepH _ _ (wake _ _) => apply KeepH_wake
   | |- KeepH _ _ (do_free _ _) => apply KeepH_do_free
   | |- KeepH _ _ (do_store _ _ _) => apply KeepH_do_store
   | |- KeepH _ _ (loop_done _) => apply KeepH_loop_done
   | |- KeepH _ _ (caller_panic _ ?x _ _) => unfold caller_panic
   | |- KeepH _ _ (caller_return ?x _ _ _) => unfold caller_return
   | |- KeepH _ _ (begin_seterr _ _ _ _ _) => apply KeepH_begin_seterr; [neq|neq|]
   | |- KeepH _ _ (loop_again _ _ _ _) => apply KeepH_loop_again; [neq|neq|]
   | |- KeepH _ _ (setT _ _ _) => apply KeepH_setT; [neq|neq|]
   | E : take_fault ?b _ = (_, ?c) |- KeepH _ _ ?c => apply (KeepH_take_fault _ _ _ _ _ _ E)
   end ].

Lemma KeepH_gen n arg s s' t st :
  t <> THandler n -> t <> TReq n -> threads s' = tset (threads s) t st -> KeepH n arg s -> KeepH n arg s'.
Proof. intros N1 N2 A (H1 & H2). unfold KeepH. rewrite A. rewrite !tget_tset_other by auto. auto. Qed.

(* a fresh request gets a fresh number: requests are numbered by the counter, and a handler exists only for
   numbers below it (InvQ's q_bnd); here taken as a premise of the step *)
Lemma KeepH_env calls n arg s a s' :
  KeepH n arg s -> n < nreq s -> step_env fixed calls s a = Some s' -> KeepH n arg s'.
Proof.
  intros HI Hlt H. unfold step_env in H. destruct a as [j|id x e| |m|f a0| |m|c|which m].
  - destruct (tget (threads s) (TCall j)) eqn:Ht; [discriminate|].
    destruct (nth_error calls j) as [cs|] eqn:Hn; [|discriminate].
    set (s0 := if c_closure cs then with_closures s (j :: closures s) else s) in *.
    assert (H0 : KeepH n arg s0) by (unfold s0; destruct (c_closure cs); kh).
    destruct (take_fault s0 2) as [[x|] s1] eqn:E1; [inversion H; subst; kh|].
    assert (H1 : KeepH n arg s1) by kh.
    destruct (bclosed s1) eqn:Eb; inversion H; subst; [kh|].
    eapply KeepH_gen with (t := TCall j) (st := CRegistered (length (ents s1))); [neq|neq|reflexivity|exact H1].
  - destruct (tget (threads s) TResLoop) as [[]|] eqn:Ht; try discriminate.
    destruct (take_fault s 3) as [[y|] s1] eqn:E1; inversion H; subst; [kh|].
    apply KeepH_loop_again; neq. assert (H1 : KeepH n arg s1) by kh.
    eapply KeepH_gen with (t := TPub (npub s1)) (st := PEnter id x e); [neq|neq|reflexivity|exact H1].
  - destruct (tget (threads s) TResLoop) as [[]|] eqn:Ht; try discriminate.
    destruct (take_fault s 3) as [[y|] s1] eqn:E1; inversion H; subst; kh.
  - destruct (tget (threads s) TResLoop) as [[]|] eqn:Ht; try discriminate. inversion H; subst. kh.
  - destruct (tget (threads s) TReqLoop) as [[]|] eqn:Ht; try discriminate.
    destruct (take_fault s 3) as [[y|] s1] eqn:E1; inversion H; subst; [kh|].
    apply KeepH_loop_again; neq. assert (H1 : KeepH n arg s1) by kh.
    assert (Hq : nreq s1 = nreq s) by (unfold take_fault in E1; inversion E1; reflexivity).
    eapply KeepH_gen with (t := TReq (nreq s1)) (st := QStart f a0);
      [discriminate|intros Hx; inversion Hx; lia|reflexivity|exact H1].
  - destruct (tget (threads s) TReqLoop) as [[]|] eqn:Ht; try discriminate.
    destruct (take_fault s 3) as [[y|] s1] eqn:E1; inversion H; subst; kh.
  - destruct (tget (threads s) TReqLoop) as [[]|] eqn:Ht; try discriminate. inversion H; subst. kh.
  - destruct (memN c (cancelled s)); [discriminate|]. inversion H; subst.
    apply KeepH_wake. apply (KeepH_ext n arg s); auto.
  - inversion H; subst. kh.
Qed.

Lemma KeepH_caller calls n arg s j st s' : KeepH n arg s -> step_caller calls s j st = Some s' -> KeepH n arg s'.
Proof.
  intros HI H. unfold step_caller in H. destruct st; try discriminate.
  - set (s0 := setT s (TWaiter j) (WStart ent)) in *.
    assert (H0 : KeepH n arg s0) by (unfold s0; kh).
    destruct (memN 0%N (cancelled s0)); [inversion H; subst; kh|].
    destruct (take_fault s0 0) as [[x|] s1] eqn:E1; inversion H; subst; kh.
  - destruct o as [[x e|e]|].
    + destruct (Nat.eqb (c_nres (nth j calls dflt_call)) 1); [inversion H; subst; kh|].
      destruct (take_fault s 3) as [[y|] s1] eqn:E1; inversion H; subst; kh.
    + inversion H; subst; kh.
    + inversion H; subst; kh.
Qed.

Lemma KeepH_seterr n arg s t e k s' :
  KeepH n arg s -> t <> THandler n -> t <> TReq n -> step_seterr fixed s t e k = Some s' -> KeepH n arg s'.
Proof.
  intros HI N1 N2 H. unfold step_seterr in H. destruct (tname_eqb t TLink); [discriminate|].
  destruct k as [|e'|]; [|destruct t|]; inversion H; subst; kh; apply KeepH_setT; auto; kh.
Qed.

Lemma KeepH_waiter calls n arg s j st b s' : KeepH n arg s -> step_waiter fixed calls s j st b = Some s' -> KeepH n arg s'.
Proof.
  intros HI H. unfold step_waiter in H. destruct st; try discriminate.
  - match type of H with (match ?c with _ => _ end) = _ => destruct c eqn:Ec end.
    + unfold only0 in H. destruct b; inversion H; subst; kh.
    + match type of H with (match ?c with _ => _ end) = _ => destruct c as [[m| |]|] eqn:En end; try discriminate.
      * destruct (tget (threads s) (TPub m)) as [[]|]; try discriminate.
        match type of H with (if ?c then _ else _) = _ => destruct c end; [|discriminate].
        inversion H; subst; kh.
      * inversion H; subst; kh.
      * inversion H; subst; kh.
  - unfold only0 in H. destruct b; [|discriminate]. simpl in H.
    destruct (tget (threads s) (TCall j)) as [[]|]; inversion H; subst; kh.
  - unfold only0 in H. destruct b; inversion H; subst; kh.
Qed.

Lemma KeepH_pub n arg s m st b s' : KeepH n arg s -> step_pub s m st b = Some s' -> KeepH n arg s'.
Proof.
  intros HI H. unfold step_pub in H. destruct st; try discriminate.
  - unfold only0 in H. destruct b; [|discriminate].
    destruct (bclosed s); [inversion H; subst; kh|].
    destruct (lookupN id (tbl s)); inversion H; subst; kh.
  - match type of H with (match ?c with _ => _ end) = _ => destruct c eqn:Ec end.
    + unfold only0 in H. destruct b; inversion H; subst; kh.
    + match type of H with (match ?c with _ => _ end) = _ => destruct c as [[j|]|] eqn:En end; try discriminate.
      * destruct (tget (threads s) (TWaiter j)) as [[]|] eqn:Ew; try discriminate.
        match type of H with (if ?c then _ else _) = _ => destruct c end; [|discriminate].
        inversion H; subst; kh.
      * inversion H; subst; kh.
  - unfold only0 in H. destruct b; inversion H; subst; kh.
  - unfold only0 in H. destruct b; inversion H; subst; kh.
Qed.

Lemma KeepH_callee calls n arg s t m st s' :
  KeepH n arg s -> m <> n -> (t = TReq m \/ t = THandler m) -> step_callee calls s t m st = Some s' -> KeepH n arg s'.
Proof.
  intros HI Hm Ht H. assert (T1 : TReq m <> TReq n) by (intros Hq; inversion Hq; congruence).
  assert (T2 : THandler m <> THandler n) by (intros Hq; inversion Hq; congruence).
  unfold step_callee in H. destruct t; try discriminate; destruct st; try discriminate;
    destruct Ht as [Ht|Ht]; inversion Ht; subst.
  - destruct f; try (inversion H; subst; kh; fail);
      destruct (take_fault s 3) as [[y|] s1] eqn:E1; inversion H; subst; kh.
  - destruct f; try (inversion H; subst; kh; fail);
      try (destruct (handler_result _ arg0) as [[x e]|]; inversion H; subst;
           apply KeepH_handler_respond; auto; kh).
  - inversion H; subst. apply KeepH_handler_respond; auto.
Qed.

Lemma KeepH_infra calls n arg s t st s' : KeepH n arg s -> step_infra fixed calls s t st = Some s' -> KeepH n arg s'.
Proof.
  intros HI H. unfold step_infra in H. destruct t; try discriminate; destruct st; try discriminate.
  - inversion H; subst; kh.
  - destruct (fatal s); inversion H; subst; kh.
  - inversion H; subst; kh.
  - inversion H; subst. kh; try (apply (KeepH_ext n arg s); auto).
  - inversion H; subst. eapply KeepH_gen with (t := TSetup) (st := Finished); [neq|neq|reflexivity|exact HI].
Qed.

(* a handler that is inside application code is moved by no step but its own *)
Lemma gated_handler_frame_lemma calls n arg s c b s' :
  KeepH n arg s -> n < nreq s -> c <> Run (THandler n) -> lstep fixed calls s c b = Some s' -> KeepH n arg s'.
Proof.
  intros HI Hlt Nh H. unfold lstep in H. destruct (crashed s); [discriminate|].
  destruct c as [t|a].
  - destruct (tget (threads s) t) as [st|] eqn:Ht; [|discriminate].
    assert (Th : t <> THandler n) by (intros ->; apply Nh; reflexivity).
    destruct (tname_eqb t (TReq n)) eqn:Etr.
    + apply tname_eqb_eq in Etr. subst t. destruct HI as (_ & H2). rewrite H2 in Ht. inversion Ht; subst st.
      unfold only0 in H. destruct b; simpl in H; discriminate.
    + assert (Tr : t <> TReq n) by (intros ->; rewrite tname_eqb_refl in Etr; discriminate).
      destruct st;
        try (unfold only0 in H; destruct b; [|discriminate]; eapply KeepH_seterr; eauto; fail);
        destruct t;
        try (simpl in H; unfold only0 in H; destruct b; simpl in H; discriminate);
        try (unfold only0 in H; destruct b; [|discriminate]);
        try (eapply KeepH_caller; eauto; fail);
        try (eapply KeepH_waiter; eauto; fail);
        try (eapply KeepH_pub; eauto; fail);
        try (eapply (KeepH_callee calls n arg s _ _ _ s' HI); [| |exact H]; [intros Hq; first [apply Tr; rewrite Hq; reflexivity|apply Th; rewrite Hq; reflexivity]|auto]; fail);
        try (eapply KeepH_infra; eauto; fail);
        try discriminate.
  - unfold only0 in H. destruct b; [|discriminate]. eapply KeepH_env; eauto.
Qed.

(* ---------------------------------------------------------------- over whole schedules *)
From Verif Require Import LinkInvQ.

Definition spares_caller (i : nat) (c : choice * nat) : Prop :=
  fst c <> Run (TWaiter i) /\ fst c <> Env (ECancel 0%N).

(* a caller waiting for its response (its waiter goroutine not yet run) stays exactly there through ANY
   schedule that does not run its waiter and does not cancel the link context - whatever else happens:
   other calls in both directions, handlers, closures, per-call cancellations, faults, even the end of
   the link (the waiter is what notices that) *)
Lemma waiting_caller_undisturbed_lemma calls i ent cs : forall s s',
  KeepC i ent s -> Forall (spares_caller i) cs -> lrun fixed calls s cs = Some s' -> KeepC i ent s'.
Proof.
  induction cs as [|[c b] r IH]; intros s s' HK Hall Hr; simpl in Hr.
  - inversion Hr; subst; auto.
  - inversion Hall as [|? ? (N1 & N2) Hrest]; subst. simpl in N1, N2.
    destruct (lstep fixed calls s c b) as [s1|] eqn:E; [|discriminate].
    eapply IH; [|exact Hrest|exact Hr]. eapply waiting_caller_frame_lemma; eauto.
Qed.

Lemma nreq_step_mono calls Q s c b s' : InvQ Q s -> lstep fixed calls s c b = Some s' -> nreq s <= nreq s'.
Proof.
  intros HQ H. pose proof (InvQ_step _ _ _ _ _ _ HQ H) as HQ'.
  rewrite <- (q_len _ _ HQ), <- (q_len _ _ HQ').
  destruct c as [t|a]; simpl; [lia|]. destruct a; simpl; try lia.
  destruct (Nat.eqb (nreq s') (S (nreq s))); [rewrite app_length; simpl; lia|lia].
Qed.

(* a handler that is inside application code stays there through ANY schedule that does not run it *)
Lemma gated_handler_undisturbed_lemma calls n arg cs : forall Q s s',
  InvQ Q s -> KeepH n arg s -> n < nreq s -> Forall (fun c => fst c <> Run (THandler n)) cs ->
  lrun fixed calls s cs = Some s' -> KeepH n arg s' /\ n < nreq s'.
Proof.
  induction cs as [|[c b] r IH]; intros Q s s' HQ HK Hn Hall Hr; simpl in Hr.
  - inversion Hr; subst; auto.
  - inversion Hall as [|? ? N1 Hrest]; subst. simpl in N1.
    destruct (lstep fixed calls s c b) as [s1|] eqn:E; [|discriminate].
    eapply (IH (Q_step Q c s s1)); [eapply InvQ_step; eauto| | |exact Hrest|exact Hr].
    + eapply gated_handler_frame_lemma; eauto.
    + pose proof (nreq_step_mono _ _ _ _ _ _ HQ E). lia.
Qed.

(* non-vacuity: call 0 waits (waiter not yet run), a handler is gated; a whole second call is made,
   answered and returns, a per-call context is cancelled: both are exactly where they were *)
Definition fr_calls : list callspec := [mkCall 1 2 false 10; mkCall 2 2 false 11].
Definition fr_prefix : list (choice * nat) :=
  [(Run TSetup, 0); (Env (EStart 0), 0); (Run (TCall 0), 0);
   (Env (EDeliverReq FGated 5%N), 0); (Run (TReq 0), 0); (Run (THandler 0), 0)].
Definition fr_rest : list (choice * nat) :=
  [(Env (EStart 1), 0); (Run (TCall 1), 0); (Run (TWaiter 1), 0);
   (Env (EDeliverRes 1%N 71%N None), 0); (Run (TPub 0), 0); (Run (TPub 0), 0);
   (Run (TWaiter 1), 0); (Run (TCall 1), 0); (Env (ECancel 2%N), 0); (Run (TWaiter 1), 0)].

Example frame_example :
  exists s s', lrun fixed fr_calls linit fr_prefix = Some s /\ lrun fixed fr_calls s fr_rest = Some s' /\
    KeepC 0 0 s /\ KeepH 0 5%N s /\ Forall (spares_caller 0) fr_rest /\
    Forall (fun c => fst c <> Run (THandler 0)) fr_rest /\
    In (EvReturn 1 71%N None) (evs s') /\ KeepC 0 0 s' /\ KeepH 0 5%N s'.
Proof.
  eexists. eexists. split; [vm_compute; reflexivity|]. split; [vm_compute; reflexivity|].
  unfold KeepC, KeepH, spares_caller. simpl.
  repeat split; try reflexivity; try (repeat constructor; simpl; try discriminate; split; discriminate); auto 20.
Qed.
