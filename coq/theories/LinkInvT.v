(* LinkInvT.v — C15: typing of thread states, reader-loop accounting, closed table is empty; and
   the teardown theorem: at quiescence after the link ended, its context was cancelled and its
   reads failed, nothing of the link remains. *)
From Verif Require Import Base Link LinkProofs LinkInv16 LinkInvB LinkInvH LinkInvC.

(* each goroutine only ever is in states of its own kind (variant fixed: no WDepositBlocked) *)
Definition kind_ok (t : tname) (st : tstate) : bool :=
  match t, st with
  | TCall _, (CRegistered _ | CBlocked | CSelected _ | CReturned _ _ | SetErrMid _ (KReturn _)) => true
  | TWaiter _, (WStart _ | WBlocked _ | WWoke _ | WDeposited | Finished) => true
  | TPub _, (PEnter _ _ _ | PFound _ _ _ | PBlocked _ _ _ | PSent | PGaveUp | Finished) => true
  | TReq _, (QStart _ _ | SetErrMid _ KDone | Finished) => true
  | THandler _, (HStart _ _ | HGate _ | SetErrMid _ KDone | Finished) => true
  | TWatcher, (WatchBlocked | WatchWoke | SetErrMid _ KDone | Finished) => true
  | TLink, (LBeforeRead | LWaiting | LReturn _ | LReturned) => true
  | TSetup, (SStart | SWaiting | SWaited | Finished) => true
  | TReqLoop, (QLReading | SetErrMid _ KLoop | Finished) => true
  | TResLoop, (RLReading | SetErrMid _ KLoop | Finished) => true
  | _, _ => false
  end.

Definition fin (o : option tstate) : nat := match o with Some Finished => 1 | _ => 0 end.

Definition Typed (l : list (tname * tstate)) : Prop := forall t st, tget l t = Some st -> kind_ok t st = true.

Definition LoopsOk (s : lst) : Prop :=
  loops_done s = fin (tget (threads s) TReqLoop) + fin (tget (threads s) TResLoop) /\
  match tget (threads s) TSetup with
  | Some SStart => tget (threads s) TReqLoop = None /\ tget (threads s) TResLoop = None
  | Some SWaiting => loops_done s < 2 /\ tget (threads s) TReqLoop <> None /\ tget (threads s) TResLoop <> None
  | _ => 2 <= loops_done s
  end.

Definition InvT (s : lst) : Prop :=
  Typed (threads s) /\ LoopsOk s /\ (bclosed s = true -> tbl s = []).

Lemma typed_tset l t st : kind_ok t st = true -> Typed l -> Typed (tset l t st).
Proof.
  intros Hk H t' st' Ht. rewrite tget_tset in Ht. destruct (tname_eqb t' t) eqn:E.
  - apply tname_eqb_eq in E; subst. inversion Ht; subst. exact Hk.
  - apply H. exact Ht.
Qed.

Lemma typed_wake calls s l : Typed l -> Typed (map (wake1 calls s) l).
Proof.
  intros H t st Ht. rewrite tget_map_wake_gen in Ht. destruct (tget l t) as [st0|] eqn:E; [|discriminate].
  simpl in Ht. inversion Ht; subst. specialize (H _ _ E).
  unfold wake1. destruct t, st0; simpl in *; try discriminate; auto;
    repeat match goal with |- context [if ?c then _ else _] => destruct c end; simpl; auto.
Qed.

Definition plain (t : tname) : bool := match t with TReqLoop | TResLoop | TSetup => false | _ => true end.

Lemma tget_map_wake_plainless calls s l t :
  match t with TCall _ | TWaiter _ | TPub _ | TWatcher => False | _ => True end ->
  tget (map (wake1 calls s) l) t = tget l t.
Proof.
  intros Ht. rewrite tget_map_wake_gen. destruct (tget l t) as [st|]; [|reflexivity]. simpl.
  destruct t; try contradiction; reflexivity.
Qed.

Lemma InvT_ext s s' :
  threads s' = threads s -> loops_done s' = loops_done s -> bclosed s' = bclosed s -> tbl s' = tbl s -> InvT s -> InvT s'.
Proof. intros A B C D (H1 & H2 & H3). unfold InvT, LoopsOk. rewrite A, B, C, D. auto. Qed.

Lemma InvT_setT_plain s t st : plain t = true -> kind_ok t st = true -> InvT s -> InvT (setT s t st).
Proof.
  intros Hp Hk (H1 & (L1 & L2) & H3). split; [apply typed_tset; auto|]. split; [|exact H3].
  unfold LoopsOk, setT; simpl.
  assert (R : forall t', plain t' = false -> tget (tset (threads s) t st) t' = tget (threads s) t').
  { intros t' Hp'. apply tget_tset_other. intros ->. congruence. }
  rewrite !R by reflexivity. auto.
Qed.

Lemma InvT_wake calls s : InvT s -> InvT (wake calls s).
Proof.
  intros (H1 & (L1 & L2) & H3). split; [apply typed_wake; auto|]. split; [|exact H3].
  unfold LoopsOk, wake; simpl. rewrite !tget_map_wake_plainless by exact I. auto.
Qed.

Lemma InvT_do_close s : InvT s -> InvT (do_close s).
Proof. intros (H1 & H2 & H3). split; [exact H1|]. split; [exact H2|]. reflexivity. Qed.

Lemma InvT_do_free s id : InvT s -> InvT (do_free s id).
Proof.
  intros (H1 & H2 & H3). unfold do_free. destruct (lookupN id (tbl s)) eqn:E; [|split; [exact H1|split; [exact H2|exact H3]]].
  split; [exact H1|]. split; [exact H2|]. simpl. intros Hb. rewrite (H3 Hb) in E. discriminate.
Qed.

Lemma InvT_take_fault s k o s1 : take_fault s k = (o, s1) -> InvT s -> InvT s1.
Proof. intros E H. unfold take_fault in E. destruct k as [|[|[|k]]]; inversion E; subst; (eapply InvT_ext; [| | | |exact H]; reflexivity). Qed.

Lemma InvT_with_ev s e : InvT s -> InvT (with_ev s e).
Proof. intros H. eapply InvT_ext; [| | | |exact H]; reflexivity. Qed.
Lemma InvT_with_closures s c : InvT s -> InvT (with_closures s c).
Proof. intros H. eapply InvT_ext; [| | | |exact H]; reflexivity. Qed.
Lemma InvT_with_flt s f : InvT s -> InvT (with_flt s f).
Proof. intros H. eapply InvT_ext; [| | | |exact H]; reflexivity. Qed.

Lemma InvT_begin_seterr_plain calls s t e k :
  plain t = true -> kind_ok t (SetErrMid e k) = true -> InvT s -> InvT (begin_seterr calls s t e k).
Proof. intros Hp Hk H. unfold begin_seterr. apply InvT_wake. apply InvT_setT_plain; auto. apply InvT_do_close; auto. Qed.

Lemma InvT_caller_panic calls s i e : InvT s -> InvT (caller_panic calls s i e).
Proof. intros H. unfold caller_panic. apply InvT_begin_seterr_plain; auto. Qed.

Lemma InvT_caller_return s i v e : InvT s -> InvT (caller_return s i v e).
Proof. intros H. unfold caller_return. apply InvT_with_ev. apply InvT_setT_plain; auto. Qed.

(* a reader loop that is not finished changes to another non-finished state *)
Lemma InvT_setT_loop s t st st0 :
  (t = TReqLoop \/ t = TResLoop) -> kind_ok t st = true -> st <> Finished ->
  tget (threads s) t = Some st0 -> st0 <> Finished -> InvT s -> InvT (setT s t st).
Proof.
  intros Ht Hk Hn H0 Hn0 (H1 & (L1 & L2) & H3). split; [apply typed_tset; auto|]. split; [|exact H3].
  unfold LoopsOk, setT; simpl.
  assert (Rs : tget (tset (threads s) t st) TSetup = tget (threads s) TSetup) by (apply tget_tset_other; destruct Ht; subst; discriminate).
  rewrite Rs. rewrite !tget_tset.
  destruct Ht; subst; simpl; rewrite H0 in *.
  - split.
    + rewrite L1. destruct st, st0; simpl; try congruence; auto.
    + destruct (tget (threads s) TSetup) as [[]|]; auto; try (destruct L2 as (A & B); congruence).
      destruct L2 as (A & B & C). repeat split; auto. discriminate.
  - split.
    + rewrite L1. destruct st, st0; simpl; try congruence; auto.
    + destruct (tget (threads s) TSetup) as [[]|]; auto; try (destruct L2 as (A & B); congruence).
      destruct L2 as (A & B & C). repeat split; auto. discriminate.
Qed.

Lemma InvT_begin_seterr_loop calls s t e st0 :
  (t = TReqLoop \/ t = TResLoop) -> tget (threads s) t = Some st0 -> st0 <> Finished -> InvT s ->
  InvT (begin_seterr calls s t e KLoop).
Proof.
  intros Ht H0 Hn H. unfold begin_seterr. apply InvT_wake.
  eapply (InvT_setT_loop (do_close s) t _ st0); auto; [destruct Ht; subst; reflexivity|discriminate|apply InvT_do_close; auto].
Qed.

Lemma InvT_loop_again calls s t st st0 :
  (t = TReqLoop \/ t = TResLoop) -> kind_ok t st = true -> st <> Finished ->
  tget (threads s) t = Some st0 -> st0 <> Finished -> InvT s -> InvT (loop_again calls s t st).
Proof.
  intros Ht Hk Hn H0 Hn0 H. unfold loop_again. destruct (memN 0%N (cancelled s)).
  - eapply InvT_begin_seterr_loop; eauto.
  - eapply InvT_setT_loop; eauto.
Qed.

Lemma InvT_do_store v s e : InvT s -> InvT (do_store v s e).
Proof.
  intros H. unfold do_store.
  match goal with |- InvT (match tget (threads ?x) TLink with _ => _ end) => set (s1 := x) end.
  assert (H1 : InvT s1) by (eapply InvT_ext; [| | | |exact H]; reflexivity).
  destruct (tget (threads s1) TLink) as [[]|]; auto. apply InvT_setT_plain; auto.
Qed.

Lemma InvT_handler_respond calls s n v e : InvT s -> InvT (handler_respond calls s n v e).
Proof.
  intros H. unfold handler_respond.
  destruct (take_fault s 2) as [[x|] s1] eqn:E1.
  - apply InvT_begin_seterr_plain; auto. eapply InvT_take_fault; eauto.
  - assert (H1 : InvT s1) by (eapply InvT_take_fault; eauto).
    destruct (memN 0%N (cancelled s1)); [apply InvT_begin_seterr_plain; auto|].
    destruct (take_fault s1 1) as [[x|] s2] eqn:E2.
    + apply InvT_begin_seterr_plain; auto. eapply InvT_take_fault; eauto.
    + apply InvT_with_ev. apply InvT_setT_plain; auto. eapply InvT_take_fault; eauto.
Qed.

(* the second half of a reader loop's setErr: it finishes and is counted *)
Lemma InvT_loop_finish s t e :
  (t = TReqLoop \/ t = TResLoop) -> tget (threads s) t = Some (SetErrMid e KLoop) -> InvT s ->
  InvT (loop_done (setT s t Finished)).
Proof.
  intros Ht H0 (H1 & (L1 & L2) & H3).
  assert (HT : Typed (tset (threads s) t Finished)) by (apply typed_tset; auto; destruct Ht; subst; reflexivity).
  assert (Rs : tget (tset (threads s) t Finished) TSetup = tget (threads s) TSetup)
    by (apply tget_tset_other; destruct Ht; subst; discriminate).
  assert (Eq : S (loops_done s) = fin (tget (tset (threads s) t Finished) TReqLoop) + fin (tget (tset (threads s) t Finished) TResLoop)).
  { rewrite !tget_tset. destruct Ht; subst; simpl; rewrite L1, H0; simpl; lia. }
  assert (Ex : tget (tset (threads s) t Finished) TReqLoop <> None /\ tget (tset (threads s) t Finished) TResLoop <> None ->
               True) by auto.
  unfold loop_done, setT, with_threads. cbn [loops_done threads tbl bclosed ents cancelled fatal closures remotes flt npub nreq evs crashed].
  destruct (Nat.leb 2 (S (loops_done s))) eqn:E2.
  - apply Nat.leb_le in E2. rewrite Rs.
    destruct (tget (threads s) TSetup) as [st|] eqn:ES.
    + destruct st; try (split; [exact HT|split; [|exact H3]]; unfold LoopsOk; cbn [loops_done threads]; rewrite Rs; split; [exact Eq|lia]).
      * (* SStart: impossible, the loop exists *)
        exfalso. destruct L2 as (A & B). destruct Ht; subst; congruence.
      * (* SWaiting -> SWaited *)
        split; [apply typed_tset; [reflexivity|exact HT]|]. split; [|exact H3].
        unfold LoopsOk, setT; cbn [loops_done threads].
        rewrite tget_tset_same.
        rewrite !(tget_tset_other _ TSetup) by discriminate. split; [exact Eq|lia].
    + split; [exact HT|split; [|exact H3]]; unfold LoopsOk; cbn [loops_done threads]; rewrite Rs; split; [exact Eq|lia].
  - apply Nat.leb_gt in E2.
    split; [exact HT|split; [|exact H3]]; unfold LoopsOk; cbn [loops_done threads]. rewrite Rs. split; [exact Eq|].
    destruct (tget (threads s) TSetup) as [st|] eqn:ES; [|lia].
    destruct st; try lia.
    + exfalso. destruct L2 as (A & B). destruct Ht; subst; congruence.
    + destruct L2 as (A & B & C). split; [lia|]. rewrite !tget_tset.
      destruct Ht; subst; simpl; split; auto; discriminate.
Qed.

Ltac it := repeat first
 [ assumption
 | match goal with
   | |- InvT (with_ev _ _) => apply InvT_with_ev
   | |- InvT (with_flt _ _) => apply InvT_with_flt
   | |- InvT (with_closures _ _) => apply InvT_with_closures
   | |- InvT (wake _ _) => apply InvT_wake
   | |- InvT (do_free _ _) => apply InvT_do_free
   | |- InvT (do_close _) => apply InvT_do_close
   | |- InvT (do_store _ _ _) => apply InvT_do_store
   | |- InvT (caller_panic _ _ _ _) => apply InvT_caller_panic
   | |- InvT (caller_return _ _ _ _) => apply InvT_caller_return
   | |- InvT (handler_respond _ _ _ _ _) => apply InvT_handler_respond
   | |- InvT (begin_seterr _ _ _ _ _) => apply InvT_begin_seterr_plain; [reflexivity|reflexivity|]
   | |- InvT (setT _ _ _) => apply InvT_setT_plain; [reflexivity|reflexivity|]
   | E : take_fault ?b _ = (_, ?c) |- InvT ?c => apply (InvT_take_fault _ _ _ _ E)
   end ].

Lemma InvT_gen s s' t st :
  plain t = true -> kind_ok t st = true -> threads s' = tset (threads s) t st ->
  loops_done s' = loops_done s -> (bclosed s' = true -> tbl s' = []) -> InvT s -> InvT s'.
Proof.
  intros Hp Hk A B C H. destruct (InvT_setT_plain s t st Hp Hk H) as (H1 & H2 & _).
  split; [rewrite A; exact H1|]. split; [|exact C].
  unfold LoopsOk in *. rewrite A, B. exact H2.
Qed.

(* ---- the set-up goroutine starts the two reader loops ---- *)
Definition InvT0 (s : lst) : Prop :=
  Typed (threads s) /\
  loops_done s = fin (tget (threads s) TReqLoop) + fin (tget (threads s) TResLoop) /\
  (bclosed s = true -> tbl s = []).

Lemma InvT0_wake calls s : InvT0 s -> InvT0 (wake calls s).
Proof.
  intros (H1 & L1 & H3). split; [apply typed_wake; auto|]. split; [|exact H3].
  unfold wake; simpl. rewrite !tget_map_wake_plainless by exact I. auto.
Qed.

Lemma InvT0_do_close s : InvT0 s -> InvT0 (do_close s).
Proof. intros (H1 & H2 & H3). split; [exact H1|]. split; [exact H2|]. reflexivity. Qed.

Lemma InvT0_new_loop s t st :
  (t = TReqLoop \/ t = TResLoop) -> tget (threads s) t = None -> kind_ok t st = true -> st <> Finished ->
  InvT0 s -> InvT0 (setT s t st).
Proof.
  intros Ht H0 Hk Hn (H1 & L1 & H3). split; [apply typed_tset; auto|]. split; [|exact H3].
  unfold setT; simpl. rewrite !tget_tset. rewrite L1.
  destruct Ht; subst; simpl; rewrite H0; destruct st; simpl; congruence.
Qed.

Lemma InvT0_loop_again calls s t st :
  (t = TReqLoop \/ t = TResLoop) -> tget (threads s) t = None -> kind_ok t st = true -> st <> Finished ->
  InvT0 s -> InvT0 (loop_again calls s t st).
Proof.
  intros Ht H0 Hk Hn H. unfold loop_again. destruct (memN 0%N (cancelled s)).
  - unfold begin_seterr. apply InvT0_wake. apply InvT0_new_loop; auto; [destruct Ht; subst; reflexivity|discriminate|apply InvT0_do_close; auto].
  - apply InvT0_new_loop; auto.
Qed.

Lemma loop_again_self calls s t st :
  (t = TReqLoop \/ t = TResLoop) -> tget (threads (loop_again calls s t st)) t <> None.
Proof.
  intros Ht. unfold loop_again, begin_seterr, wake. destruct (memN 0%N (cancelled s)); simpl.
  - rewrite tget_map_wake_plainless by (destruct Ht; subst; exact I). rewrite tget_tset_same. discriminate.
  - rewrite tget_tset_same. discriminate.
Qed.

Lemma loop_again_other calls s t st t' :
  plain t' = false -> t' <> t -> tget (threads (loop_again calls s t st)) t' = tget (threads s) t'.
Proof.
  intros Hp Hne. unfold loop_again, begin_seterr, wake. destruct (memN 0%N (cancelled s)); simpl.
  - rewrite tget_map_wake_plainless by (destruct t'; try discriminate; exact I). apply tget_tset_other; auto.
  - apply tget_tset_other; auto.
Qed.

Lemma loop_again_loops_done calls s t st : loops_done (loop_again calls s t st) = loops_done s.
Proof. unfold loop_again, begin_seterr, wake. destruct (memN 0%N (cancelled s)); reflexivity. Qed.

Lemma InvT_setup_start calls s evs' :
  tget (threads s) TSetup = Some SStart -> InvT s ->
  InvT (loop_again calls
          (loop_again calls
             (setT (mkL (threads s) (tbl s) (bclosed s) (ents s) (cancelled s) (fatal s) (closures s)
                        1 (loops_done s) (flt s) (npub s) (nreq s) evs' (crashed s)) TSetup SWaiting)
             TReqLoop QLReading)
          TResLoop RLReading).
Proof.
  intros HS (H1 & (L1 & L2) & H3). rewrite HS in L2. destruct L2 as (A & B).
  set (s2 := setT _ TSetup SWaiting).
  assert (T2q : tget (threads s2) TReqLoop = None) by (unfold s2, setT; simpl; rewrite tget_tset_other by discriminate; exact A).
  assert (T2r : tget (threads s2) TResLoop = None) by (unfold s2, setT; simpl; rewrite tget_tset_other by discriminate; exact B).
  assert (T2s : tget (threads s2) TSetup = Some SWaiting) by (unfold s2, setT; simpl; apply tget_tset_same).
  assert (I2 : InvT0 s2).
  { split; [unfold s2, setT; simpl; apply typed_tset; auto|]. split; [|exact H3].
    rewrite T2q, T2r. unfold s2, setT; simpl. rewrite L1, A, B. reflexivity. }
  set (s3 := loop_again calls s2 TReqLoop QLReading).
  assert (I3 : InvT0 s3) by (apply InvT0_loop_again; auto; discriminate).
  assert (T3r : tget (threads s3) TResLoop = None) by (unfold s3; rewrite loop_again_other by (reflexivity || discriminate); exact T2r).
  assert (I4 : InvT0 (loop_again calls s3 TResLoop RLReading)) by (apply InvT0_loop_again; auto; discriminate).
  destruct I4 as (K1 & K2 & K3). split; [exact K1|]. split; [|exact K3]. split; [exact K2|].
  rewrite loop_again_other by (reflexivity || discriminate). unfold s3 at 1.
  rewrite loop_again_other by (reflexivity || discriminate). rewrite T2s.
  split; [|split].
  - rewrite loop_again_loops_done. unfold s3. rewrite loop_again_loops_done. unfold s2, setT; simpl. rewrite L1, A, B. simpl. lia.
  - rewrite loop_again_other by (reflexivity || discriminate). unfold s3. apply loop_again_self; auto.
  - apply loop_again_self; auto.
Qed.

(* ---- the sub-steps ---- *)
Ltac brkT H :=
  repeat (match type of H with
          | context [match ?x with _ => _ end] => destruct x eqn:?; try discriminate H
          end);
  try (inversion H; subst; clear H).

Lemma InvT_env calls s a s' : InvT s -> step_env fixed calls s a = Some s' -> InvT s'.
Proof.
  intros HI H. unfold step_env in H. destruct a as [i|id x e| |n|f arg| |n|c|which n].
  - (* EStart *)
    destruct (tget (threads s) (TCall i)) eqn:Ht; [discriminate|].
    destruct (nth_error calls i) as [cs|] eqn:Hn; [|discriminate].
    set (s0 := if c_closure cs then with_closures s (i :: closures s) else s) in *.
    assert (H0 : InvT s0) by (unfold s0; destruct (c_closure cs); it).
    destruct (take_fault s0 2) as [[x|] s1] eqn:E1.
    + inversion H; subst. it.
    + assert (H1 : InvT s1) by it.
      destruct (bclosed s1) eqn:Eb.
      * inversion H; subst. it.
      * inversion H; subst. eapply (InvT_gen s1 _ (TCall i) (CRegistered (length (ents s1)))); try reflexivity; auto.
        simpl. congruence.
  - (* EDeliverRes *)
    destruct (tget (threads s) TResLoop) as [[]|] eqn:Ht; try discriminate.
    destruct (take_fault s 3) as [[y|] s1] eqn:E1.
    + inversion H; subst. assert (H1 : InvT s1) by it.
      assert (T1 : tget (threads s1) TResLoop = Some RLReading).
      { unfold take_fault in E1. inversion E1; subst. exact Ht. }
      eapply InvT_begin_seterr_loop; eauto. discriminate.
    + inversion H; subst. assert (H1 : InvT s1) by it.
      assert (T1 : tget (threads s1) TResLoop = Some RLReading).
      { unfold take_fault in E1. inversion E1; subst. exact Ht. }
      eapply (InvT_loop_again _ _ TResLoop RLReading RLReading); auto; try discriminate.
      * simpl. rewrite tget_tset_other by discriminate. exact T1.
      * eapply (InvT_gen s1 _ (TPub (npub s1)) (PEnter id x e)); try reflexivity; auto.
        destruct H1 as (_ & _ & K). exact K.
  - (* EBadRes *)
    destruct (tget (threads s) TResLoop) as [[]|] eqn:Ht; try discriminate.
    destruct (take_fault s 3) as [[y|] s1] eqn:E1; inversion H; subst;
      (assert (H1 : InvT s1) by it);
      (assert (T1 : tget (threads s1) TResLoop = Some RLReading) by (unfold take_fault in E1; inversion E1; subst; exact Ht));
      (eapply InvT_begin_seterr_loop; eauto; discriminate).
  - (* EFailReadRes *)
    destruct (tget (threads s) TResLoop) as [[]|] eqn:Ht; try discriminate.
    inversion H; subst. eapply InvT_begin_seterr_loop; eauto. discriminate.
  - (* EDeliverReq *)
    destruct (tget (threads s) TReqLoop) as [[]|] eqn:Ht; try discriminate.
    destruct (take_fault s 3) as [[y|] s1] eqn:E1.
    + inversion H; subst. assert (H1 : InvT s1) by it.
      assert (T1 : tget (threads s1) TReqLoop = Some QLReading).
      { unfold take_fault in E1. inversion E1; subst. exact Ht. }
      eapply InvT_begin_seterr_loop; eauto. discriminate.
    + inversion H; subst. assert (H1 : InvT s1) by it.
      assert (T1 : tget (threads s1) TReqLoop = Some QLReading).
      { unfold take_fault in E1. inversion E1; subst. exact Ht. }
      eapply (InvT_loop_again _ _ TReqLoop QLReading QLReading); auto; try discriminate.
      * simpl. rewrite tget_tset_other by discriminate. exact T1.
      * eapply (InvT_gen s1 _ (TReq (nreq s1)) (QStart f arg)); try reflexivity; auto.
        destruct H1 as (_ & _ & K). exact K.
  - (* EBadReq *)
    destruct (tget (threads s) TReqLoop) as [[]|] eqn:Ht; try discriminate.
    destruct (take_fault s 3) as [[y|] s1] eqn:E1; inversion H; subst;
      (assert (H1 : InvT s1) by it);
      (assert (T1 : tget (threads s1) TReqLoop = Some QLReading) by (unfold take_fault in E1; inversion E1; subst; exact Ht));
      (eapply InvT_begin_seterr_loop; eauto; discriminate).
  - (* EFailReadReq *)
    destruct (tget (threads s) TReqLoop) as [[]|] eqn:Ht; try discriminate.
    inversion H; subst. eapply InvT_begin_seterr_loop; eauto. discriminate.
  - (* ECancel *)
    destruct (memN c (cancelled s)); [discriminate|]. inversion H; subst.
    apply InvT_wake. eapply InvT_ext; [| | | |exact HI]; reflexivity.
  - (* EArm *)
    inversion H; subst. it.
Qed.

Lemma InvT_caller calls s i st s' : InvT s -> step_caller calls s i st = Some s' -> InvT s'.
Proof.
  intros HI H. unfold step_caller in H. destruct st; try discriminate.
  - (* CRegistered *)
    set (s0 := setT s (TWaiter i) (WStart ent)) in *.
    assert (H0 : InvT s0) by (unfold s0; it).
    destruct (memN 0%N (cancelled s0)); [inversion H; subst; it|].
    destruct (take_fault s0 0) as [[x|] s1] eqn:E1; inversion H; subst; it.
  - (* CSelected *)
    destruct o as [[x e|e]|].
    + destruct (Nat.eqb (c_nres (nth i calls dflt_call)) 1); [inversion H; subst; it|].
      destruct (take_fault s 3) as [[y|] s1] eqn:E1; inversion H; subst; it.
    + inversion H; subst; it.
    + inversion H; subst; it.
Qed.

Lemma InvT_seterr s t e k s' :
  tget (threads s) t = Some (SetErrMid e k) -> InvT s -> step_seterr fixed s t e k = Some s' -> InvT s'.
Proof.
  intros Ht HI H. unfold step_seterr in H. destruct (tname_eqb t TLink) eqn:El; [discriminate|].
  assert (Hk : kind_ok t (SetErrMid e k) = true) by (destruct HI as (K & _); eapply K; eauto).
  assert (H1 : InvT (do_store fixed s e)) by it.
  assert (T1 : tget (threads (do_store fixed s e)) t = Some (SetErrMid e k)).
  { unfold do_store. simpl. destruct (tget (threads s) TLink) as [[]|]; try exact Ht.
    unfold setT; simpl. rewrite tget_tset_other; [exact Ht|]. intros E. subst t. simpl in El. discriminate. }
  destruct k as [|e'|].
  - destruct t; simpl in Hk; try discriminate; inversion H; subst; it.
  - destruct t; simpl in Hk; try discriminate. inversion H; subst. it.
  - destruct t; simpl in Hk; try discriminate; inversion H; subst;
      (eapply InvT_loop_finish; [auto|exact T1|exact H1]).
Qed.

Lemma InvT_waiter calls s i st b s' : InvT s -> step_waiter fixed calls s i st b = Some s' -> InvT s'.
Proof.
  intros HI H. unfold step_waiter in H. destruct st; try discriminate.
  - (* WStart *)
    match type of H with (match ?c with _ => _ end) = _ => destruct c eqn:Ec end.
    + unfold only0 in H. destruct b; inversion H; subst; it.
    + match type of H with (match ?c with _ => _ end) = _ => destruct c as [[n| |]|] eqn:En end; try discriminate.
      * destruct (tget (threads s) (TPub n)) as [[]|]; try discriminate.
        match type of H with (if ?c then _ else _) = _ => destruct c end; [|discriminate].
        inversion H; subst; it.
      * inversion H; subst; it.
      * inversion H; subst; it.
  - (* WWoke *)
    unfold only0 in H. destruct b; [|discriminate]. simpl in H.
    destruct (tget (threads s) (TCall i)) as [[]|]; inversion H; subst; it.
  - (* WDeposited *)
    unfold only0 in H. destruct b; inversion H; subst; it.
Qed.

Lemma InvT_pub s n st b s' : InvT s -> step_pub s n st b = Some s' -> InvT s'.
Proof.
  intros HI H. unfold step_pub in H. destruct st; try discriminate.
  - unfold only0 in H. destruct b; [|discriminate].
    destruct (bclosed s); [inversion H; subst; it|].
    destruct (lookupN id (tbl s)); inversion H; subst; it.
  - match type of H with (match ?c with _ => _ end) = _ => destruct c eqn:Ec end.
    + unfold only0 in H. destruct b; inversion H; subst; it.
    + match type of H with (match ?c with _ => _ end) = _ => destruct c as [[i|]|] eqn:En end; try discriminate.
      * destruct (tget (threads s) (TWaiter i)) as [[]|]; try discriminate.
        match type of H with (if ?c then _ else _) = _ => destruct c end; [|discriminate].
        inversion H; subst; it.
      * inversion H; subst; it.
  - unfold only0 in H. destruct b; inversion H; subst; it.
  - unfold only0 in H. destruct b; inversion H; subst; it.
Qed.

Lemma InvT_callee calls s t n st s' : InvT s -> step_callee calls s t n st = Some s' -> InvT s'.
Proof.
  intros HI H. unfold step_callee in H. destruct t; try discriminate; destruct st; try discriminate.
  - destruct f; try (inversion H; subst; it; fail);
      destruct (take_fault s 3) as [[y|] s1] eqn:E1; inversion H; subst; it.
  - destruct f; try (inversion H; subst; it; fail);
      try (destruct (handler_result _ arg) as [[x e]|]; inversion H; subst; it).
  - inversion H; subst; it.
Qed.

Lemma InvT_infra calls s t st s' :
  tget (threads s) t = Some st -> InvT s -> step_infra fixed calls s t st = Some s' -> InvT s'.
Proof.
  intros Ht HI H. unfold step_infra in H. destruct t; try discriminate; destruct st; try discriminate.
  - inversion H; subst; it.
  - destruct (fatal s); inversion H; subst; it.
  - inversion H; subst; it.
  - inversion H; subst. apply InvT_setup_start; auto.
  - inversion H; subst. destruct HI as (H1 & (L1 & L2) & H3). rewrite Ht in L2.
    split; [simpl; apply typed_tset; auto|]. split; [|exact H3].
    unfold LoopsOk; simpl. rewrite tget_tset_same. rewrite !(tget_tset_other _ TSetup) by discriminate. auto.
Qed.

Lemma InvT_init : InvT linit.
Proof.
  split; [|split; [|reflexivity]].
  - intros t st H. unfold linit, init_threads in H. simpl in H.
    destruct t; simpl in H; try discriminate; inversion H; subst; reflexivity.
  - split; simpl; auto.
Qed.

Lemma InvT_step calls s c b s' : InvT s -> lstep fixed calls s c b = Some s' -> InvT s'.
Proof.
  intros HI H. unfold lstep in H. destruct (crashed s); [discriminate|].
  destruct c as [t|a].
  - destruct (tget (threads s) t) as [st|] eqn:Ht; [|discriminate].
    destruct st;
      try (unfold only0 in H; destruct b; [|discriminate]; eapply InvT_seterr; eauto; fail);
      destruct t;
      try (unfold only0 in H; destruct b; [|discriminate]);
      try (eapply InvT_caller; eauto; fail);
      try (eapply InvT_waiter; eauto; fail);
      try (eapply InvT_pub; eauto; fail);
      try (eapply InvT_callee; eauto; fail);
      try (eapply InvT_infra; eauto; fail);
      try discriminate.
  - unfold only0 in H. destruct b; [|discriminate]. eapply InvT_env; eauto.
Qed.

Lemma InvT_run calls cs : forall s0 s, InvT s0 -> lrun fixed calls s0 cs = Some s -> InvT s.
Proof.
  induction cs as [|[c b] r IH]; intros s0 s H0 H; simpl in H.
  - inversion H; subst; auto.
  - destruct (lstep fixed calls s0 c b) eqn:E; [|discriminate]. eapply IH; [|exact H]. eapply InvT_step; eauto.
Qed.

Lemma InvT_reachable calls s : lreachable fixed calls s -> InvT s.
Proof. intros (cs & H). eapply InvT_run; [apply InvT_init|exact H]. Qed.

(* ================================================================ the watcher and the closed table *)
(* while the pending-call table is open, the context watcher has not run yet *)
Definition wlive (o : option tstate) : bool :=
  match o with Some WatchBlocked | Some WatchWoke => true | _ => false end.
Definition InvW (s : lst) : Prop := bclosed s = false -> wlive (tget (threads s) TWatcher) = true.

Definition keepW (s s' : lst) : Prop :=
  bclosed s' = true \/
  (bclosed s' = bclosed s /\ wlive (tget (threads s') TWatcher) = wlive (tget (threads s) TWatcher)).

Lemma keepW_InvW s s' : keepW s s' -> InvW s -> InvW s'.
Proof. intros [K|(K1 & K2)] H Hb; [congruence|]. rewrite K2. apply H. congruence. Qed.
Lemma keepW_refl s : keepW s s.
Proof. right; auto. Qed.
Lemma keepW_trans a b c : keepW a b -> keepW b c -> keepW a c.
Proof.
  intros [K|(K1 & K2)] [L|(L1 & L2)]; try (left; congruence).
  right. split; congruence.
Qed.
Lemma keepW_ext s s' : threads s' = threads s -> bclosed s' = bclosed s -> keepW s s'.
Proof. intros A B. right. rewrite A, B. auto. Qed.
Lemma keepW_gen s s' t st : t <> TWatcher -> threads s' = tset (threads s) t st -> bclosed s' = bclosed s -> keepW s s'.
Proof. intros Hn A B. right. rewrite A, B. rewrite tget_tset_other by congruence. auto. Qed.
Lemma keepW_setT s t st : t <> TWatcher -> keepW s (setT s t st).
Proof. intros Hn. eapply keepW_gen; [exact Hn|reflexivity|reflexivity]. Qed.
Lemma keepW_wake calls s : keepW s (wake calls s).
Proof.
  right. split; [reflexivity|]. unfold wake; simpl. rewrite tget_map_wake_gen.
  destruct (tget (threads s) TWatcher) as [st|]; [|reflexivity]. simpl.
  destruct st; try reflexivity. destruct (memN 0%N (cancelled s)); reflexivity.
Qed.
Lemma keepW_do_close s : keepW s (do_close s).
Proof. left; reflexivity. Qed.
Lemma keepW_do_free s id : keepW s (do_free s id).
Proof. unfold do_free. destruct (lookupN id (tbl s)); [apply keepW_ext; reflexivity|apply keepW_refl]. Qed.
Lemma keepW_begin_seterr calls s t e k : keepW s (begin_seterr calls s t e k).
Proof. left; reflexivity. Qed.
Lemma keepW_loop_again calls s t st : t <> TWatcher -> keepW s (loop_again calls s t st).
Proof. intros Hn. unfold loop_again. destruct (memN 0%N (cancelled s)); [apply keepW_begin_seterr|apply keepW_setT; auto]. Qed.
Lemma keepW_loop_done s : keepW s (loop_done s).
Proof.
  unfold loop_done. cbv zeta.
  match goal with |- keepW _ (if ?c then _ else ?x) =>
    assert (Hx : keepW s x) by (apply keepW_ext; reflexivity); destruct c; auto end.
  match goal with |- keepW _ (match ?o with _ => _ end) => destruct o as [[]|]; auto end.
  eapply keepW_trans; [exact Hx|]. apply keepW_setT. discriminate.
Qed.
Lemma keepW_do_store v s e : keepW s (do_store v s e).
Proof.
  unfold do_store. cbv zeta.
  match goal with |- keepW _ (match tget (threads ?x) TLink with _ => _ end) =>
    assert (Hx : keepW s x) by (apply keepW_ext; reflexivity);
    destruct (tget (threads x) TLink) as [[]|]; auto end.
  eapply keepW_trans; [exact Hx|]. apply keepW_setT. discriminate.
Qed.
Lemma keepW_take_fault s k o s1 : take_fault s k = (o, s1) -> keepW s s1.
Proof. intros E. unfold take_fault in E. destruct k as [|[|[|k]]]; inversion E; subst; apply keepW_ext; reflexivity. Qed.
Lemma keepW_with_ev s e : keepW s (with_ev s e).
Proof. apply keepW_ext; reflexivity. Qed.
Lemma keepW_with_flt s f : keepW s (with_flt s f).
Proof. apply keepW_ext; reflexivity. Qed.
Lemma keepW_with_closures s c : keepW s (with_closures s c).
Proof. apply keepW_ext; reflexivity. Qed.

Ltac kw := (* chains of keepW steps *)
  repeat first
    [ apply keepW_refl
    | match goal with
      | |- keepW ?a (with_ev ?b _) => eapply keepW_trans; [|apply keepW_with_ev]
      | |- keepW ?a (with_flt ?b _) => eapply keepW_trans; [|apply keepW_with_flt]
      | |- keepW ?a (with_closures ?b _) => eapply keepW_trans; [|apply keepW_with_closures]
      | |- keepW ?a (wake _ ?b) => eapply keepW_trans; [|apply keepW_wake]
      | |- keepW ?a (do_free ?b _) => eapply keepW_trans; [|apply keepW_do_free]
      | |- keepW ?a (do_close ?b) => eapply keepW_trans; [|apply keepW_do_close]
      | |- keepW ?a (loop_done ?b) => eapply keepW_trans; [|apply keepW_loop_done]
      | |- keepW ?a (do_store _ ?b _) => eapply keepW_trans; [|apply keepW_do_store]
      | |- keepW ?a (begin_seterr _ ?b _ _ _) => left; reflexivity
      | |- keepW ?a (caller_panic _ ?b _ _) => left; reflexivity
      | |- keepW ?a (loop_again _ ?b _ _) => eapply keepW_trans; [|apply keepW_loop_again; discriminate]
      | |- keepW ?a (setT ?b TWatcher _) => fail 1
      | |- keepW ?a (setT ?b _ _) => eapply keepW_trans; [|apply keepW_setT; discriminate]
      | E : take_fault ?b _ = (_, ?c) |- keepW ?a ?c => eapply keepW_trans; [|apply (keepW_take_fault _ _ _ _ E)]
      end ].

Lemma keepW_caller_return s i v e : keepW s (caller_return s i v e).
Proof. unfold caller_return. kw. Qed.
Lemma keepW_handler_respond calls s n v e : keepW s (handler_respond calls s n v e).
Proof.
  unfold handler_respond.
  destruct (take_fault s 2) as [[x|] s1] eqn:E1; [left; reflexivity|].
  destruct (memN 0%N (cancelled s1)); [left; reflexivity|].
  destruct (take_fault s1 1) as [[x|] s2] eqn:E2; [left; reflexivity|]. kw.
Qed.

Lemma keepW_env calls s a s' : step_env fixed calls s a = Some s' -> keepW s s'.
Proof.
  intros H. unfold step_env in H. destruct a as [i|id x e| |n|f arg| |n|c|which n].
  - destruct (tget (threads s) (TCall i)) eqn:Ht; [discriminate|].
    destruct (nth_error calls i) as [cs|] eqn:Hn; [|discriminate].
    set (s0 := if c_closure cs then with_closures s (i :: closures s) else s) in *.
    assert (H0 : keepW s s0) by (unfold s0; destruct (c_closure cs); kw).
    destruct (take_fault s0 2) as [[x|] s1] eqn:E1; [inversion H; subst; left; reflexivity|].
    destruct (bclosed s1) eqn:Eb; inversion H; subst; [left; simpl; exact Eb|].
    eapply keepW_trans; [exact H0|]. eapply keepW_trans; [apply (keepW_take_fault _ _ _ _ E1)|].
    eapply keepW_gen with (t := TCall i); [discriminate|reflexivity|simpl; congruence].
  - destruct (tget (threads s) TResLoop) as [[]|] eqn:Ht; try discriminate.
    destruct (take_fault s 3) as [[y|] s1] eqn:E1; inversion H; subst; [left; reflexivity|].
    kw. eapply keepW_trans; [apply (keepW_take_fault _ _ _ _ E1)|]. eapply keepW_gen with (t := TPub (npub s1)); [discriminate|reflexivity|reflexivity].
  - destruct (tget (threads s) TResLoop) as [[]|] eqn:Ht; try discriminate.
    destruct (take_fault s 3) as [[y|] s1] eqn:E1; inversion H; subst; left; reflexivity.
  - destruct (tget (threads s) TResLoop) as [[]|] eqn:Ht; try discriminate. inversion H; subst; left; reflexivity.
  - destruct (tget (threads s) TReqLoop) as [[]|] eqn:Ht; try discriminate.
    destruct (take_fault s 3) as [[y|] s1] eqn:E1; inversion H; subst; [left; reflexivity|].
    kw. eapply keepW_trans; [apply (keepW_take_fault _ _ _ _ E1)|]. eapply keepW_gen with (t := TReq (nreq s1)); [discriminate|reflexivity|reflexivity].
  - destruct (tget (threads s) TReqLoop) as [[]|] eqn:Ht; try discriminate.
    destruct (take_fault s 3) as [[y|] s1] eqn:E1; inversion H; subst; left; reflexivity.
  - destruct (tget (threads s) TReqLoop) as [[]|] eqn:Ht; try discriminate. inversion H; subst; left; reflexivity.
  - destruct (memN c (cancelled s)); [discriminate|]. inversion H; subst.
    eapply keepW_trans; [|apply keepW_wake]. apply keepW_ext; reflexivity.
  - inversion H; subst. kw.
Qed.

Lemma keepW_caller calls s i st s' : step_caller calls s i st = Some s' -> keepW s s'.
Proof.
  intros H. unfold step_caller in H. destruct st; try discriminate.
  - set (s0 := setT s (TWaiter i) (WStart ent)) in *.
    assert (H0 : keepW s s0) by (unfold s0; kw).
    destruct (memN 0%N (cancelled s0)); [inversion H; subst; left; reflexivity|].
    destruct (take_fault s0 0) as [[x|] s1] eqn:E1; inversion H; subst; [left; reflexivity|].
    eapply keepW_trans; [exact H0|]. kw.
  - destruct o as [[x e|e]|].
    + destruct (Nat.eqb (c_nres (nth i calls dflt_call)) 1); [inversion H; subst; apply keepW_caller_return|].
      destruct (take_fault s 3) as [[y|] s1] eqn:E1; inversion H; subst; [left; reflexivity|].
      eapply keepW_trans; [apply (keepW_take_fault _ _ _ _ E1)|apply keepW_caller_return].
    + inversion H; subst; apply keepW_caller_return.
    + inversion H; subst; left; reflexivity.
Qed.

Lemma bclosed_do_store v s e : bclosed (do_store v s e) = bclosed s.
Proof. unfold do_store. simpl. destruct (tget (threads s) TLink) as [[]|]; reflexivity. Qed.
Lemma bclosed_loop_done s : bclosed (loop_done s) = bclosed s.
Proof.
  unfold loop_done. cbv zeta. destruct (Nat.leb 2 (S (loops_done s))); [|reflexivity]. simpl.
  destruct (tget (threads s) TSetup) as [[]|]; reflexivity.
Qed.

Lemma InvW_seterr s t e k s' :
  tget (threads s) t = Some (SetErrMid e k) -> InvW s -> step_seterr fixed s t e k = Some s' -> InvW s'.
Proof.
  intros Ht HW H. unfold step_seterr in H. destruct (tname_eqb t TLink); [discriminate|].
  destruct (tname_eqb t TWatcher) eqn:Ew.
  - apply tname_eqb_eq in Ew. subst t.
    assert (Hb : bclosed s = true).
    { destruct (bclosed s) eqn:Eb; auto. specialize (HW Eb). rewrite Ht in HW. discriminate. }
    intros Hb'. exfalso.
    destruct k; inversion H; subst; simpl in Hb'; try rewrite bclosed_loop_done in Hb'; simpl in Hb';
      rewrite bclosed_do_store in Hb'; congruence.
  - assert (Hn : t <> TWatcher) by (intros ->; simpl in Ew; discriminate).
    eapply keepW_InvW; [|exact HW].
    destruct k as [|e'|]; [| destruct t |]; inversion H; subst;
      (eapply keepW_trans; [apply (keepW_do_store fixed s e)|]); kw;
      try (apply keepW_setT; auto).
Qed.

Lemma keepW_waiter calls s i st b s' : step_waiter fixed calls s i st b = Some s' -> keepW s s'.
Proof.
  intros H. unfold step_waiter in H. destruct st; try discriminate.
  - match type of H with (match ?c with _ => _ end) = _ => destruct c eqn:Ec end.
    + unfold only0 in H. destruct b; inversion H; subst; kw.
    + match type of H with (match ?c with _ => _ end) = _ => destruct c as [[n| |]|] eqn:En end; try discriminate.
      * destruct (tget (threads s) (TPub n)) as [[]|]; try discriminate.
        match type of H with (if ?c then _ else _) = _ => destruct c end; [|discriminate].
        inversion H; subst; kw.
      * inversion H; subst; kw.
      * inversion H; subst; kw.
  - unfold only0 in H. destruct b; [|discriminate]. simpl in H.
    destruct (tget (threads s) (TCall i)) as [[]|]; inversion H; subst; kw.
  - unfold only0 in H. destruct b; inversion H; subst; kw.
Qed.

Lemma keepW_pub s n st b s' : step_pub s n st b = Some s' -> keepW s s'.
Proof.
  intros H. unfold step_pub in H. destruct st; try discriminate.
  - unfold only0 in H. destruct b; [|discriminate].
    destruct (bclosed s); [inversion H; subst; kw|].
    destruct (lookupN id (tbl s)); inversion H; subst; kw.
  - match type of H with (match ?c with _ => _ end) = _ => destruct c eqn:Ec end.
    + unfold only0 in H. destruct b; inversion H; subst; kw.
    + match type of H with (match ?c with _ => _ end) = _ => destruct c as [[i|]|] eqn:En end; try discriminate.
      * destruct (tget (threads s) (TWaiter i)) as [[]|]; try discriminate.
        match type of H with (if ?c then _ else _) = _ => destruct c end; [|discriminate].
        inversion H; subst; kw.
      * inversion H; subst; kw.
  - unfold only0 in H. destruct b; inversion H; subst; kw.
  - unfold only0 in H. destruct b; inversion H; subst; kw.
Qed.

Lemma keepW_callee calls s t n st s' : step_callee calls s t n st = Some s' -> keepW s s'.
Proof.
  intros H. unfold step_callee in H. destruct t; try discriminate; destruct st; try discriminate.
  - destruct f; try (inversion H; subst; left; reflexivity);
      destruct (take_fault s 3) as [[y|] s1] eqn:E1; inversion H; subst; try (left; reflexivity); kw.
  - destruct f; try (inversion H; subst; left; reflexivity); try (inversion H; subst; kw; fail);
      try (destruct (handler_result _ arg) as [[x e]|]; inversion H; subst;
           (eapply keepW_trans; [|apply keepW_handler_respond]); kw).
  - inversion H; subst. apply keepW_handler_respond.
Qed.

Lemma keepW_infra calls s t st s' : step_infra fixed calls s t st = Some s' -> keepW s s'.
Proof.
  intros H. unfold step_infra in H. destruct t; try discriminate; destruct st; try discriminate.
  - inversion H; subst; left; reflexivity.
  - destruct (fatal s); inversion H; subst; kw.
  - inversion H; subst; kw.
  - inversion H; subst. kw. apply keepW_ext; reflexivity.
  - inversion H; subst. eapply keepW_gen with (t := TSetup); try reflexivity. discriminate.
Qed.

Lemma InvW_step calls s c b s' : InvW s -> lstep fixed calls s c b = Some s' -> InvW s'.
Proof.
  intros HI H. unfold lstep in H. destruct (crashed s); [discriminate|].
  destruct c as [t|a].
  - destruct (tget (threads s) t) as [st|] eqn:Ht; [|discriminate].
    destruct st;
      try (unfold only0 in H; destruct b; [|discriminate]; eapply InvW_seterr; eauto; fail);
      destruct t;
      try (unfold only0 in H; destruct b; [|discriminate]);
      try (eapply keepW_InvW; [eapply keepW_caller; eauto|exact HI]; fail);
      try (eapply keepW_InvW; [eapply keepW_waiter; eauto|exact HI]; fail);
      try (eapply keepW_InvW; [eapply keepW_pub; eauto|exact HI]; fail);
      try (eapply keepW_InvW; [eapply keepW_callee; eauto|exact HI]; fail);
      try (eapply keepW_InvW; [eapply keepW_infra; eauto|exact HI]; fail);
      try discriminate.
  - unfold only0 in H. destruct b; [|discriminate]. eapply keepW_InvW; [eapply keepW_env; eauto|exact HI].
Qed.

Lemma InvW_run calls cs : forall s0 s, InvW s0 -> lrun fixed calls s0 cs = Some s -> InvW s.
Proof.
  induction cs as [|[c b] r IH]; intros s0 s H0 H; simpl in H.
  - inversion H; subst; auto.
  - destruct (lstep fixed calls s0 c b) eqn:E; [|discriminate]. eapply IH; [|exact H]. eapply InvW_step; eauto.
Qed.

Lemma InvW_reachable calls s : lreachable fixed calls s -> InvW s.
Proof. intros (cs & H). eapply InvW_run; [|exact H]. intros _. reflexivity. Qed.

(* ================================================================ C15: nothing is left behind *)
(* application code: a handler the application has not let return yet *)
Definition app_code (st : tstate) : bool := match st with HGate _ => true | _ => false end.

(* quiescent: no goroutine of the link is at a point from which it can run on by itself
   (every label of [status_of] is such a point), except inside application handler code *)
Definition quiescent (s : lst) : Prop :=
  forall t st, tget (threads s) t = Some st ->
    match status_of st with LParked _ => app_code st = true | _ => True end.

(* the transport reads failed: no reader loop is still sitting in a read *)
Definition reads_failed (s : lst) : Prop :=
  tget (threads s) TReqLoop <> Some QLReading /\ tget (threads s) TResLoop <> Some RLReading.

Lemma teardown_clean_lemma calls s :
  lreachable fixed calls s ->
  memN 0%N (cancelled s) = true ->      (* the application cancelled the link's context *)
  reads_failed s ->                     (* ... and made its transport reads fail *)
  quiescent s ->
  (forall t st, tget (threads s) t = Some st -> t <> TLink -> app_code st = true \/ status_of st = LDone) /\
  tbl s = [] /\ bclosed s = true /\
  (forall i, holding (tget (threads s) (TCall i)) = false) /\ closures s = [] /\
  remotes s = 0.
Proof.
  intros Hr Hc (Rq & Rs) Hq.
  destruct (InvT_reachable calls s Hr) as (HT & (L1 & L2) & HC).
  destruct (InvB_reachable calls s Hr) as ((S1' & S3' & S4') & HEV).
  pose proof (InvW_reachable calls s Hr) as HW.
  pose proof (InvH_reachable calls s Hr) as HH.
  (* the watcher has run, so the table is closed *)
  assert (Hb : bclosed s = true).
  { destruct (bclosed s) eqn:Eb; auto. unfold InvW in HW. rewrite Eb in HW. specialize (HW eq_refl).
    destruct (tget (threads s) TWatcher) as [st|] eqn:Ew; [|discriminate].
    destruct st; try discriminate.
    - specialize (HEV _ _ Ew). simpl in HEV. congruence.
    - specialize (Hq _ _ Ew). simpl in Hq. discriminate. }
  assert (Hdone : forall ent, le_done (ents s) (cancelled s) ent = true) by (intros ent; apply le_done_when_closed; auto).
  (* every thread other than Link is done or in application code *)
  assert (Hall : forall t st, tget (threads s) t = Some st -> t <> TLink -> app_code st = true \/ status_of st = LDone).
  { intros t st Ht Hne. pose proof (HT _ _ Ht) as Hk. pose proof (Hq _ _ Ht) as Hp. pose proof (HEV _ _ Ht) as He.
    destruct t; destruct st; simpl in Hk; try discriminate; simpl in Hp; try discriminate; simpl in He; auto;
      try (destruct He as (_ & He)); try (rewrite Hdone in He; discriminate); try congruence.
    - (* TSetup SWaiting: both loops exist and are finished, so the count is 2 *)
      exfalso. rewrite Ht in L2. destruct L2 as (A & B & C).
      assert (Fq : tget (threads s) TReqLoop = Some Finished).
      { destruct (tget (threads s) TReqLoop) as [q|] eqn:Eq; [|congruence].
        pose proof (HT _ _ Eq) as Kq. pose proof (Hq _ _ Eq) as Pq.
        destruct q; simpl in Kq; try discriminate; simpl in Pq; try discriminate; congruence. }
      assert (Fr : tget (threads s) TResLoop = Some Finished).
      { destruct (tget (threads s) TResLoop) as [q|] eqn:Eq; [|congruence].
        pose proof (HT _ _ Eq) as Kq. pose proof (Hq _ _ Eq) as Pq.
        destruct q; simpl in Kq; try discriminate; simpl in Pq; try discriminate; congruence. }
      rewrite Fq, Fr in L1. simpl in L1. lia. }
  assert (Hhold : forall i, holding (tget (threads s) (TCall i)) = false).
  { intros i. destruct (tget (threads s) (TCall i)) as [st|] eqn:Ei; [|reflexivity].
    destruct (Hall _ _ Ei ltac:(discriminate)) as [Ha|Hd]; destruct st; simpl in *; try discriminate; reflexivity. }
  split; [exact Hall|]. split; [exact (HC Hb)|]. split; [exact Hb|]. split; [exact Hhold|].
  split; [eapply closures_empty_when_idle_lemma; eauto|].
  (* the set-up goroutine has finished, so the disconnect hooks ran and the remote is gone *)
  unfold InvH in HH. destruct (tget (threads s) TSetup) as [st|] eqn:Es; [|contradiction].
  destruct (Hall _ _ Es ltac:(discriminate)) as [Ha|Hd]; destruct st; simpl in *; try discriminate; try contradiction; tauto.
Qed.

(* ---- the premises are met by real histories: teardown with two calls in flight (one passing a
   closure), a gated handler still inside application code, and a response arriving late ---- *)
Fixpoint drain (calls : list callspec) (fuel : nat) (s : lst) (acc : list (choice * nat)) : lst * list (choice * nat) :=
  match fuel with
  | 0 => (s, rev acc)
  | S f =>
      match find (fun p => match status_of (snd p) with LParked _ => negb (app_code (snd p)) | _ => false end) (threads s) with
      | Some (t, _) =>
          match lstep fixed calls s (Run t) 0 with
          | Some s' => drain calls f s' ((Run t, 0) :: acc)
          | None => (s, rev acc)
          end
      | None => (s, rev acc)
      end
  end.

Definition td_calls : list callspec := [mkCall 1 2 false 10; mkCall 2 2 true 11].
Definition td_prefix : list (choice * nat) :=
  [(Run TSetup, 0); (Run TLink, 0); (Env (EStart 0), 0); (Env (EStart 1), 0); (Run (TCall 0), 0); (Run (TCall 1), 0);
   (Run (TWaiter 0), 0); (Env (EDeliverReq FGated 5%N), 0); (Run (TReq 0), 0); (Run (THandler 0), 0);
   (Env (EDeliverRes 1%N 7%N None), 0);
   (Env (ECancel 0%N), 0); (Env (EFailReadReq 3%N), 0); (Env (EFailReadRes 4%N), 0)].
Definition td_schedule : list (choice * nat) :=
  Eval vm_compute in
    match lrun fixed td_calls linit td_prefix with
    | Some s => td_prefix ++ snd (drain td_calls 200 s [])
    | None => []
    end.

Example teardown_premises_met :
  exists s, lrun fixed td_calls linit td_schedule = Some s /\
            memN 0%N (cancelled s) = true /\ reads_failed s /\ quiescent s /\
            tget (threads s) (THandler 0) = Some (HGate 5%N) /\
            tget (threads s) (TCall 0) <> None /\ tget (threads s) (TCall 1) <> None /\
            tget (threads s) TLink = Some LReturned.
Proof.
  eexists. split; [vm_compute; reflexivity|]. split; [reflexivity|]. split; [split; discriminate|].
  split; [|repeat split; discriminate].
  intros t st H. simpl in H.
  repeat match type of H with
         | (if ?c then _ else _) = _ => destruct c; [inversion H; subst; simpl; auto|]
         end; try discriminate.
Qed.

(* C14: at that point both notification pairs have been delivered - exactly one connect pair and one
   disconnect pair for the link *)
Lemma teardown_hooks_complete_lemma calls s :
  lreachable fixed calls s -> memN 0%N (cancelled s) = true -> reads_failed s -> quiescent s ->
  rev (hooks_of (evs s)) = [(true, false); (true, true); (false, false); (false, true)].
Proof.
  intros Hr Hc Hf Hq. destruct (teardown_clean_lemma calls s Hr Hc Hf Hq) as (Hall & _).
  pose proof (InvH_reachable calls s Hr) as HH. unfold InvH in HH.
  destruct (tget (threads s) TSetup) as [st|] eqn:Es; [|contradiction].
  destruct (Hall _ _ Es ltac:(discriminate)) as [Ha|Hd]; destruct st; simpl in *; try discriminate; try contradiction.
  destruct HH as (A & _). rewrite A. reflexivity.
Qed.
