(* Regions.v — the critical sections of panrpc's mutexes (C05, and the side conditions of the atomic steps
   of Link.v / Bcast.v).

   The table of critical sections is re-extracted from the sources on every run by the go/ast translator
   tools/regions (-> work/<id>/RegionTable.v); [regions_ok table = true] is re-checked there by
   vm_compute.  What the discipline says:
   - panrpc has one OUTER mutex (the registry's remotesLock) and LEAF mutexes (the Broadcaster's lock, the
     closure table's closuresLock, the condition variable's mutex of the fatal-error slot);
   - panrpc's own code never acquires a mutex inside a critical section;
   - a leaf section contains no call to code that is not panrpc's own or the standard library's, and no
     operation that can block (except waiting on the condition variable the mutex belongs to, which
     releases it): it is a closed, finite piece of code - which is what lets the models treat the
     operations on the pending-call table, the closure table and the fatal-error slot as atomic steps;
   - the outer mutex is acquired only by link set-up, link tear-down and the enumeration; application code
     runs inside it only as a connect/disconnect hook or as the enumeration callback; no blocking operation
     of panrpc's own; and the enumeration - whose callback's panic panrpc itself recovers when the
     enumeration was made by a handler - releases it by defer.

   The machine below lets threads nest critical sections exactly as the table permits; the theorem is that
   no cycle of threads, each waiting for a mutex the next one holds, exists in any configuration of such
   threads (RegionsProofs.v).  Assumption on the application, stated in the machine: code running as a hook
   or as an enumeration callback does not link or enumerate the same registry (the documented restriction);
   it may make and answer calls, pass and invoke closures. *)
From Verif Require Import Base.

Inductive mclass := MOuter | MLeaf (k : nat).          (* leaf k: 0 broadcaster lock, 1 closuresLock, 2 fatalErrLock *)
Inductive site := SSetup | STeardown | SEnumerate | SOther.
Inductive dclass := DHook | DCallback | DOther.
Inductive bclass := BCondWaitOwn | BOther.

Record region := mkRegion {
  r_mutex : mclass; r_site : site; r_deferred : bool;
  r_dynamic : list dclass;     (* calls inside that may run code which is neither panrpc's nor the standard library's *)
  r_blocking : list bclass;    (* operations inside that may block *)
  r_inner : nat                (* mutexes of panrpc acquired inside by panrpc's own code *)
}.

Definition is_nil {A} (l : list A) : bool := match l with [] => true | _ => false end.
Definition is_hook (d : dclass) := match d with DHook => true | _ => false end.
Definition is_callback (d : dclass) := match d with DCallback => true | _ => false end.
Definition is_own_wait (b : bclass) := match b with BCondWaitOwn => true | _ => false end.

Definition region_ok (r : region) : bool :=
  Nat.eqb (r_inner r) 0 &&
  match r_mutex r with
  | MLeaf _ => is_nil (r_dynamic r) && forallb is_own_wait (r_blocking r)
  | MOuter =>
      is_nil (r_blocking r) &&
      match r_site r with
      | SSetup | STeardown => forallb is_hook (r_dynamic r)
      | SEnumerate => forallb is_callback (r_dynamic r) && r_deferred r
      | SOther => false
      end
  end.

Definition regions_ok (t : list region) : bool := forallb region_ok t.

(* ---- the machine: how a thread nests critical sections ---- *)
Definition rank (m : mclass) : nat := match m with MOuter => 0 | MLeaf _ => 1 end.

(* a thread: the sections it is inside of (innermost first) and the mutex it is waiting for, if any *)
Record tstate := mkT { stack : list region; want : option mclass }.

Inductive treach (tbl : list region) : tstate -> Prop :=
| TR_idle : treach tbl (mkT [] None)
| TR_want_outside m : treach tbl (mkT [] None) -> treach tbl (mkT [] (Some m))
| TR_enter st m r : treach tbl (mkT st (Some m)) -> In r tbl -> r_mutex r = m -> treach tbl (mkT (r :: st) None)
| TR_leave r st : treach tbl (mkT (r :: st) None) -> treach tbl (mkT st None)
  (* panrpc's own code acquires inside a section only if the table says that section does *)
| TR_own_want r st m : treach tbl (mkT (r :: st) None) -> r_inner r <> 0 -> treach tbl (mkT (r :: st) (Some m))
  (* application code that runs inside a section (only where the table has a dynamic call) enters panrpc
     again: any leaf mutex (calls, closures, responses) - not the outer one (documented restriction) *)
| TR_app_want r st k : treach tbl (mkT (r :: st) None) -> r_dynamic r <> [] -> treach tbl (mkT (r :: st) (Some (MLeaf k))).

(* configurations: thread i waits for a mutex held by thread j *)
Definition holds (t : tstate) (m : mclass) : Prop := exists r, In r (stack t) /\ r_mutex r = m.
Definition waits_on (t u : tstate) : Prop := exists m, want t = Some m /\ holds u m.

(* a wait-for cycle: t0 waits on t1 ... waits on tn waits on t0 *)
Fixpoint chain (l : list tstate) : Prop :=
  match l with
  | a :: ((b :: _) as r) => waits_on a b /\ chain r
  | _ => True
  end.
Definition wait_cycle (l : list tstate) : Prop :=
  match l with
  | [] => False
  | a :: _ => chain l /\ waits_on (last l a) a
  end.

