(* BcastProofs.v — invariants of Bcast.v (variant [fixed]) and the lemmas behind Props/C19.v. *)
From Verif Require Import Base Bcast.

(* ------------------------------------------------------------------ generic list lemmas *)
Lemma Forall_upd {A} (P : A -> Prop) l n x : Forall P l -> P x -> Forall P (upd l n x).
Proof.
  intros H Hx; revert n; induction H as [|h t Hh Ht IH]; intros [|n]; simpl; constructor; auto.
Qed.

Lemma Forall_nth_error {A} (P : A -> Prop) l n x : Forall P l -> nth_error l n = Some x -> P x.
Proof. intros H Hn. rewrite Forall_forall in H. apply H. eapply nth_error_In; eauto. Qed.

Lemma Forall_nth_error_iff {A} (P : A -> Prop) l :
  Forall P l <-> (forall n x, nth_error l n = Some x -> P x).
Proof.
  split; [intros H n x; apply Forall_nth_error; auto|].
  intros H. apply Forall_forall. intros x Hin. apply In_nth_error in Hin as [n Hn]. eauto.
Qed.

(* ------------------------------------------------------------------ simple facts about the model *)
Lemma wake1_cases v s th : wake1 v s th = th \/ exists r, wake1 v s th = ret th r.
Proof.
  unfold wake1. destruct (pc th) eqn:E; auto.
  - destruct (entry_done s e); eauto.
  - destruct (memN c (cancelled s)); eauto.
    destruct (close_chan_on_free v).
    + destruct (e_chclosed (get_entry s e)); eauto.
    + destruct (entry_done s e); eauto.
Qed.

Lemma wake1_pc v s th : pc (wake1 v s th) = pc th \/ pc (wake1 v s th) = Idle.
Proof. destruct (wake1_cases v s th) as [H|(r & H)]; rewrite H; auto. Qed.

Lemma wake1_handles v s th : handles (wake1 v s th) = handles th.
Proof. destruct (wake1_cases v s th) as [H|(r & H)]; rewrite H; auto. Qed.

Lemma cancel_entries_length v es l : length (cancel_entries v es l) = length l.
Proof.
  unfold cancel_entries. revert l. induction es as [|e es IH]; intros l; simpl; auto.
  destruct (nth_error l e); rewrite IH; auto. apply upd_length.
Qed.

(* ------------------------------------------------------------------ T1: no crash *)
Definition no_closed_chan (l : list entry) : Prop := Forall (fun en => e_chclosed en = false) l.

Definition Inv1 (s : bst) : Prop := crashed s = false /\ no_closed_chan (ents s).

Lemma get_entry_chclosed s e : no_closed_chan (ents s) -> e_chclosed (get_entry s e) = false.
Proof.
  intros H. unfold get_entry. destruct (nth_error (ents s) e) as [en|] eqn:E.
  - rewrite (nth_error_nth _ _ _ E). eapply Forall_nth_error in H; eauto.
  - rewrite nth_overflow; auto. apply nth_error_None; auto.
Qed.

Lemma cancel_entries_no_closed es l :
  no_closed_chan l -> no_closed_chan (cancel_entries fixed es l).
Proof.
  unfold cancel_entries. revert l. induction es as [|e es IH]; intros l H; simpl; auto.
  destruct (nth_error l e) as [en|] eqn:E; auto.
  apply IH. apply Forall_upd; auto. simpl. eapply Forall_nth_error in H; eauto.
Qed.

Lemma Inv1_init progs : Inv1 (init progs).
Proof. split; simpl; auto. constructor. Qed.

(* destructs every match / if the step function goes through *)
Ltac break_step H :=
  unfold bstep, only0 in H;
  repeat (match type of H with
          | context [match ?x with _ => _ end] => destruct x eqn:?; try discriminate H
          end);
  try (inversion H; subst; clear H).

Lemma pub_cases_no_crash s e c0 cs b :
  no_closed_chan (ents s) -> pub_cases s e = c0 :: cs -> nth_error (c0 :: cs) b <> Some PCrash.
Proof.
  intros Hn Hc Hb. apply nth_error_In in Hb. rewrite <- Hc in Hb. unfold pub_cases in Hb.
  rewrite (get_entry_chclosed s e Hn) in Hb.
  apply in_app_or in Hb as [Hb|Hb]; [apply in_map_iff in Hb as (? & ? & _); discriminate|].
  apply in_app_or in Hb as [Hb|Hb]; [|inversion Hb].
  destruct (entry_done s e); simpl in Hb; intuition discriminate.
Qed.

Lemma Inv1_step s t b s' : Inv1 s -> bstep fixed s t b = Some s' -> Inv1 s'.
Proof.
  intros [Hc Hn] H.
  break_step H; unfold do_free, do_close, do_cancel, wake, set_thr, add_log; simpl;
    repeat match goal with |- context [match ?x with _ => _ end] => destruct x eqn:? end; simpl;
    try (split; simpl; auto; fail);
    try (split; simpl; auto; apply Forall_app; split; auto; fail);
    try (split; simpl; auto; apply cancel_entries_no_closed; auto; fail);
    try (split; simpl; auto; apply Forall_upd; auto; simpl;
         match goal with E : nth_error (ents _) _ = Some _ |- _ => eapply Forall_nth_error in E; eauto; apply E end; fail).
  all: exfalso; eapply pub_cases_no_crash; eauto.
Qed.

Lemma Inv1_run progs cs s : run fixed (init progs) cs = Some s -> Inv1 s.
Proof.
  assert (G : forall s0, Inv1 s0 -> run fixed s0 cs = Some s -> Inv1 s).
  { induction cs as [|[t b] cs IH]; intros s0 H0 Hr; simpl in Hr.
    - inversion Hr; subst; auto.
    - destruct (bstep fixed s0 t b) eqn:E; [|discriminate].
      eapply IH; [eapply Inv1_step; eauto|auto]. }
  apply G. apply Inv1_init.
Qed.

Lemma bc_no_crash_lemma progs s : reachable fixed progs s -> crashed s = false.
Proof. intros [cs H]. apply Inv1_run in H. apply H. Qed.

(* ------------------------------------------------------------------ T2: blocked => nothing applies *)
Definition blocked_ok (en : list entry) (cn : list cid) (th : thread) : Prop :=
  match pc th with
  | PubBlocked k e x p => edone en cn e = false
  | RecvBlocked k e c => memN c cn = false /\ edone en cn e = false
  | _ => True
  end.

Definition no_meet (l : list thread) : Prop :=
  forall t1 t2 th1 th2 k1 e x p k2 c,
    nth_error l t1 = Some th1 -> nth_error l t2 = Some th2 ->
    pc th1 = PubBlocked k1 e x p -> pc th2 = RecvBlocked k2 e c -> False.

Definition Inv2 (s : bst) : Prop :=
  Forall (blocked_ok (ents s) (cancelled s)) (thr s) /\ no_meet (thr s).

Definition unblocked (th : thread) : Prop :=
  match pc th with PubBlocked _ _ _ _ | RecvBlocked _ _ _ => False | _ => True end.

Lemma unblocked_ok en cn th : unblocked th -> blocked_ok en cn th.
Proof. unfold unblocked, blocked_ok. destruct (pc th); tauto. Qed.

Lemma no_meet_upd_unblocked l n x : no_meet l -> unblocked x -> no_meet (upd l n x).
Proof.
  intros H Hx t1 t2 th1 th2 k1 e y p k2 c H1 H2 P1 P2.
  apply nth_error_upd in H1. apply nth_error_upd in H2.
  destruct H1 as [(_ & -> & _)|(_ & H1)]; [unfold unblocked in Hx; rewrite P1 in Hx; contradiction|].
  destruct H2 as [(_ & -> & _)|(_ & H2)]; [unfold unblocked in Hx; rewrite P2 in Hx; contradiction|].
  eapply (H t1 t2 th1 th2); eauto.
Qed.

Lemma no_meet_map_wake v s l : no_meet l -> no_meet (map (wake1 v s) l).
Proof.
  intros H t1 t2 th1 th2 k1 e y p k2 c H1 H2 P1 P2.
  rewrite nth_error_map in H1, H2.
  destruct (nth_error l t1) as [a1|] eqn:E1; [|discriminate].
  destruct (nth_error l t2) as [a2|] eqn:E2; [|discriminate].
  simpl in H1, H2. inversion H1; inversion H2; subst.
  destruct (wake1_pc v s a1) as [Q1|Q1]; rewrite Q1 in P1; [|discriminate].
  destruct (wake1_pc v s a2) as [Q2|Q2]; rewrite Q2 in P2; [|discriminate].
  eapply (H t1 t2 a1 a2); eauto.
Qed.

Lemma Forall_wake s : Forall (blocked_ok (ents s) (cancelled s)) (map (wake1 fixed s) (thr s)).
Proof.
  apply Forall_forall. intros x Hin. apply in_map_iff in Hin as (th & <- & _).
  unfold wake1, blocked_ok. destruct (pc th) eqn:E; simpl; try rewrite E; auto.
  - unfold entry_done. destruct (edone (ents s) (cancelled s) e) eqn:D; simpl; [auto|rewrite E; auto].
  - destruct (memN c (cancelled s)) eqn:M; simpl; [auto|].
    unfold entry_done. destruct (edone (ents s) (cancelled s) e) eqn:D; simpl; [auto|rewrite E; auto].
Qed.

Lemma edone_false_lt en cn e : edone en cn e = false -> e < length en.
Proof.
  unfold edone. intros H. destruct (Nat.lt_ge_cases e (length en)); auto.
  rewrite nth_overflow in H by auto. simpl in H. discriminate.
Qed.

Lemma edone_app en cn e x : e < length en -> edone (en ++ [x]) cn e = edone en cn e.
Proof. intros H. unfold edone. rewrite app_nth1; auto. Qed.

Lemma blocked_ok_app en cn x th : blocked_ok en cn th -> blocked_ok (en ++ [x]) cn th.
Proof.
  unfold blocked_ok. destruct (pc th); auto.
  - intros H. rewrite edone_app; auto. eapply edone_false_lt; eauto.
  - intros [H1 H2]. split; auto. rewrite edone_app; auto. eapply edone_false_lt; eauto.
Qed.

Lemma receivers_on_nil_gen e l i :
  receivers_on e l i = [] -> Forall (fun th => forall k c, pc th <> RecvBlocked k e c) l.
Proof.
  revert i. induction l as [|a l IH]; intros i H; simpl in *; constructor.
  - intros k c Hp. rewrite Hp in H. rewrite Nat.eqb_refl in H. discriminate.
  - destruct (pc a); try (eapply IH; eauto; fail).
    destruct (Nat.eqb e e0); [discriminate|eapply IH; eauto].
Qed.

Lemma publishers_on_nil_gen e l i :
  publishers_on e l i = [] -> Forall (fun th => forall k x p, pc th <> PubBlocked k e x p) l.
Proof.
  revert i. induction l as [|a l IH]; intros i H; simpl in *; constructor.
  - intros k x p Hp. rewrite Hp in H. rewrite Nat.eqb_refl in H. discriminate.
  - destruct (pc a); try (eapply IH; eauto; fail).
    destruct (Nat.eqb e e0); [discriminate|eapply IH; eauto].
Qed.

Lemma receivers_on_nil e l :
  receivers_on e l 0 = [] -> forall t th k c, nth_error l t = Some th -> pc th <> RecvBlocked k e c.
Proof. intros H t th k c Hn. apply receivers_on_nil_gen in H. eapply Forall_nth_error in H; eauto. Qed.

Lemma publishers_on_nil e l :
  publishers_on e l 0 = [] -> forall t th k x p, nth_error l t = Some th -> pc th <> PubBlocked k e x p.
Proof. intros H t th k x p Hn. apply publishers_on_nil_gen in H. eapply Forall_nth_error in H; eauto. Qed.

Lemma thr_do_free v s k : thr (do_free v s k) = thr s.
Proof. unfold do_free. destruct (lookupN k (tbl s)); auto. Qed.

Lemma Inv2_wake s1 : no_meet (thr s1) -> Inv2 (wake fixed s1).
Proof.
  intros H. split; simpl.
  - apply Forall_wake.
  - apply no_meet_map_wake; auto.
Qed.

Lemma pub_cases_nil s e :
  pub_cases s e = [] -> receivers_on e (thr s) 0 = [] /\ entry_done s e = false.
Proof.
  unfold pub_cases. intros H. apply app_eq_nil in H as [H1 H2]. apply app_eq_nil in H2 as [H2 _].
  split.
  - destruct (receivers_on e (thr s) 0); auto; discriminate.
  - destruct (entry_done s e); auto; discriminate.
Qed.

Lemma recv_cases_nil s e c :
  recv_cases fixed s e c = [] ->
  publishers_on e (thr s) 0 = [] /\ memN c (cancelled s) = false /\ entry_done s e = false.
Proof.
  unfold recv_cases. simpl. intros H. apply app_eq_nil in H as [H1 H2]. apply app_eq_nil in H2 as [H2 H3].
  repeat split.
  - destruct (publishers_on e (thr s) 0); auto; discriminate.
  - destruct (memN c (cancelled s)); auto; discriminate.
  - destruct (entry_done s e); auto; discriminate.
Qed.

Lemma no_meet_upd_pub l n x k e v p :
  no_meet l -> (forall t th k' c, nth_error l t = Some th -> pc th <> RecvBlocked k' e c) ->
  pc x = PubBlocked k e v p -> no_meet (upd l n x).
Proof.
  intros H Hno Hx t1 t2 th1 th2 k1 e1 y p1 k2 c H1 H2 P1 P2.
  apply nth_error_upd in H1. apply nth_error_upd in H2.
  destruct H2 as [(_ & -> & _)|(_ & H2)]; [congruence|].
  destruct H1 as [(_ & -> & _)|(_ & H1)].
  - rewrite Hx in P1; inversion P1; subst. eapply Hno; eauto.
  - eapply (H t1 t2 th1 th2); eauto.
Qed.

Lemma no_meet_upd_recv l n x k e c :
  no_meet l -> (forall t th k' v p, nth_error l t = Some th -> pc th <> PubBlocked k' e v p) ->
  pc x = RecvBlocked k e c -> no_meet (upd l n x).
Proof.
  intros H Hno Hx t1 t2 th1 th2 k1 e1 y p1 k2 c2 H1 H2 P1 P2.
  apply nth_error_upd in H1. apply nth_error_upd in H2.
  destruct H1 as [(_ & -> & _)|(_ & H1)]; [congruence|].
  destruct H2 as [(_ & -> & _)|(_ & H2)].
  - rewrite Hx in P2; inversion P2; subst. eapply Hno; eauto.
  - eapply (H t1 t2 th1 th2); eauto.
Qed.

Lemma Inv2_init progs : Inv2 (init progs).
Proof.
  split; simpl.
  - apply Forall_forall. intros x Hin. apply in_map_iff in Hin as (p & <- & _). exact I.
  - intros t1 t2 th1 th2 k1 e x p k2 c H1 _ P1 _.
    rewrite nth_error_map in H1. destruct (nth_error progs t1); simpl in H1; inversion H1; subst. discriminate.
Qed.

Ltac unb := first [exact I | apply unblocked_ok; exact I].

Lemma Inv2_step s t b s' : Inv2 s -> bstep fixed s t b = Some s' -> Inv2 s'.
Proof.
  intros [HF HM] H.
  break_step H.
  (* wake-up steps *)
  all: try (apply Inv2_wake; try rewrite thr_do_free; simpl; apply no_meet_upd_unblocked; auto; exact I).
  (* plain updates with unblocked threads *)
  all: try (split; simpl; [repeat apply Forall_upd; auto; unb | repeat apply no_meet_upd_unblocked; auto; exact I]; fail).
  - (* Receive creating an entry *)
    split; simpl.
    + apply Forall_upd; [|unb]. eapply Forall_impl; [|exact HF]. intros a Ha. apply blocked_ok_app; auto.
    + apply no_meet_upd_unblocked; auto. exact I.
  - (* receive function blocks *)
    match goal with E : recv_cases fixed _ _ _ = [] |- _ => apply recv_cases_nil in E as (E1 & E2 & E3) end.
    split; simpl.
    + apply Forall_upd; auto; unfold blocked_ok; simpl; try split; auto.
    + eapply no_meet_upd_recv; eauto; [|reflexivity]. intros; eapply publishers_on_nil; eauto.
  - (* Publish blocks *)
    match goal with E : pub_cases _ _ = [] |- _ => apply pub_cases_nil in E as (E1 & E2) end.
    split; simpl.
    + apply Forall_upd; auto; unfold blocked_ok; simpl; auto.
    + eapply no_meet_upd_pub; eauto; [|reflexivity]. intros; eapply receivers_on_nil; eauto.
Qed.

Lemma Inv2_run progs cs s : run fixed (init progs) cs = Some s -> Inv2 s.
Proof.
  assert (G : forall s0, Inv2 s0 -> run fixed s0 cs = Some s -> Inv2 s).
  { induction cs as [|[t b] cs IH]; intros s0 H0 Hr; simpl in Hr.
    - inversion Hr; subst; auto.
    - destruct (bstep fixed s0 t b) eqn:E; [|discriminate].
      eapply IH; [eapply Inv2_step; eauto|auto]. }
  apply G. apply Inv2_init.
Qed.

(* ------------------------------------------------------------------ statements used by Props/C19.v *)

(* T2, publisher side: a thread parked inside Publish's hand-off has a live entry (not freed, not
   closed, creating context not done) and no receiver is parked on that entry. *)
Lemma bc_publish_blocked_only_if_nothing_applies progs s t th k e x p :
  reachable fixed progs s -> nth_error (thr s) t = Some th -> pc th = PubBlocked k e x p ->
  entry_done s e = false /\
  (forall t' th' k' c, nth_error (thr s) t' = Some th' -> pc th' <> RecvBlocked k' e c).
Proof.
  intros [cs Hr] Hn Hp. apply Inv2_run in Hr as [HF HM]. split.
  - eapply Forall_nth_error in HF; eauto. unfold blocked_ok in HF. rewrite Hp in HF. exact HF.
  - intros t' th' k' c Hn' Hp'. eapply (HM t t' th th'); eauto.
Qed.

(* T2, receiver side *)
Lemma bc_receive_blocked_only_if_nothing_applies progs s t th k e c :
  reachable fixed progs s -> nth_error (thr s) t = Some th -> pc th = RecvBlocked k e c ->
  memN c (cancelled s) = false /\ entry_done s e = false /\
  (forall t' th' k' x p, nth_error (thr s) t' = Some th' -> pc th' <> PubBlocked k' e x p).
Proof.
  intros [cs Hr] Hn Hp. apply Inv2_run in Hr as [HF HM]. repeat split.
  - eapply Forall_nth_error in HF; eauto. unfold blocked_ok in HF. rewrite Hp in HF. apply HF.
  - eapply Forall_nth_error in HF; eauto. unfold blocked_ok in HF. rewrite Hp in HF. apply HF.
  - intros t' th' k' x p Hn' Hp'. eapply (HM t' t th' th); eauto.
Qed.

(* T4: free / close / cancel never block and never fail, whatever the state; a publish on an
   unknown key or a closed broadcaster returns in its first step. *)
Definition is_admin (op : bop) : bool :=
  match op with Free _ | Close | Cancel _ => true | _ => false end.

Lemma bc_admin_ops_always_complete v s t th op rest :
  crashed s = false -> nth_error (thr s) t = Some th -> pc th = Idle -> todo th = op :: rest ->
  is_admin op = true ->
  exists s', bstep v s t 0 = Some s' /\
             exists th', nth_error (thr s') t = Some th' /\ pc th' = Idle /\ todo th' = rest /\
                         results th' = RUnit :: results th.
Proof.
  intros Hc Hn Hp Ht Ha.
  assert (Hlt : t < length (thr s)) by (apply nth_error_Some; congruence).
  unfold bstep. rewrite Hc, Hn, Hp, Ht.
  destruct op; try discriminate; simpl; eexists; split; try reflexivity;
    unfold wake; simpl; try rewrite thr_do_free; simpl;
    rewrite nth_error_map, nth_error_upd_eq by auto; simpl;
    (eexists; split; [reflexivity|]); unfold wake1; simpl; rewrite Ht; auto.
Qed.

Lemma bc_publish_unknown_returns_immediately v s t th k x rest :
  crashed s = false -> nth_error (thr s) t = Some th -> pc th = Idle -> todo th = Publish k x :: rest ->
  closed s = true \/ lookupN k (tbl s) = None ->
  exists s', bstep v s t 0 = Some s' /\
             exists th', nth_error (thr s') t = Some th' /\ pc th' = Idle /\ todo th' = rest /\
                         results th' = RPubNone :: results th.
Proof.
  intros Hc Hn Hp Ht Hk.
  assert (Hlt : t < length (thr s)) by (apply nth_error_Some; congruence).
  unfold bstep. rewrite Hc, Hn, Hp, Ht. simpl.
  destruct (closed s) eqn:Ecl.
  - eexists; split; [reflexivity|]. simpl. rewrite nth_error_upd_eq by auto.
    eexists; split; [reflexivity|]. simpl. rewrite Ht. auto.
  - destruct Hk as [Hk|Hk]; [discriminate|]. rewrite Hk.
    eexists; split; [reflexivity|]. simpl. rewrite nth_error_upd_eq by auto.
    eexists; split; [reflexivity|]. simpl. rewrite Ht. auto.
Qed.
