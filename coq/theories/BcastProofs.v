(* BcastProofs.v — invariants of Bcast.v (variant [fixed]) and the lemmas behind Props/C19.v. *)
From Verif Require Import Base Bcast.

(* ------------------------------------------------------------------ generic list lemmas *)
Lemma Forall_upd {A} (P : A -> Prop) l n x : Forall P l -> P x -> Forall P (upd l n x).
Proof.
  intros H Hx; revert n; induction H as [|h t Hh Ht IH]; intros [|n]; simpl; constructor; auto.
Qed.

Lemma Forall_nth_error {A} (P : A -> Prop) l n x : Forall P l -> nth_error l n = Some x -> P x.
Proof. intros H Hn. rewrite Forall_forall in H. apply H. eapply nth_error_In; eauto. Qed.

Lemma Forall_nth_error_iff {A} (P : A -> Prop) l :
  Forall P l <-> (forall n x, nth_error l n = Some x -> P x).
Proof.
  split; [intros H n x; apply Forall_nth_error; auto|].
  intros H. apply Forall_forall. intros x Hin. apply In_nth_error in Hin as [n Hn]. eauto.
Qed.

(* ------------------------------------------------------------------ simple facts about the model *)
Lemma wake1_cases v s th : wake1 v s th = th \/ exists r, wake1 v s th = ret th r.
Proof.
  unfold wake1. destruct (pc th) eqn:E; auto.
  - destruct (entry_done s e); eauto.
  - destruct (memN c (cancelled s)); eauto.
    destruct (close_chan_on_free v).
    + destruct (e_chclosed (get_entry s e)); eauto.
    + destruct (entry_done s e); eauto.
Qed.

Lemma wake1_pc v s th : pc (wake1 v s th) = pc th \/ pc (wake1 v s th) = Idle.
Proof. destruct (wake1_cases v s th) as [H|(r & H)]; rewrite H; auto. Qed.

Lemma wake1_handles v s th : handles (wake1 v s th) = handles th.
Proof. destruct (wake1_cases v s th) as [H|(r & H)]; rewrite H; auto. Qed.

Lemma cancel_entries_length v es l : length (cancel_entries v es l) = length l.
Proof.
  unfold cancel_entries. revert l. induction es as [|e es IH]; intros l; simpl; auto.
  destruct (nth_error l e); rewrite IH; auto. apply upd_length.
Qed.

(* ------------------------------------------------------------------ T1: no crash *)
Definition no_closed_chan (l : list entry) : Prop := Forall (fun en => e_chclosed en = false) l.

Definition Inv1 (s : bst) : Prop := crashed s = false /\ no_closed_chan (ents s).

Lemma get_entry_chclosed s e : no_closed_chan (ents s) -> e_chclosed (get_entry s e) = false.
Proof.
  intros H. unfold get_entry. destruct (nth_error (ents s) e) as [en|] eqn:E.
  - rewrite (nth_error_nth _ _ _ E). eapply Forall_nth_error in H; eauto.
  - rewrite nth_overflow; auto. apply nth_error_None; auto.
Qed.

Lemma cancel_entries_no_closed es l :
  no_closed_chan l -> no_closed_chan (cancel_entries fixed es l).
Proof.
  unfold cancel_entries. revert l. induction es as [|e es IH]; intros l H; simpl; auto.
  destruct (nth_error l e) as [en|] eqn:E; auto.
  apply IH. apply Forall_upd; auto. simpl. eapply Forall_nth_error in H; eauto.
Qed.

Lemma Inv1_init progs : Inv1 (init progs).
Proof. split; simpl; auto. constructor. Qed.

(* destructs every match / if the step function goes through *)
Ltac break_step H :=
  unfold bstep, only0 in H;
  repeat (match type of H with
          | context [match ?x with _ => _ end] => destruct x eqn:?; try discriminate H
          end);
  try (inversion H; subst; clear H).

Lemma pub_cases_no_crash s e c0 cs b :
  no_closed_chan (ents s) -> pub_cases s e = c0 :: cs -> nth_error (c0 :: cs) b <> Some PCrash.
Proof.
  intros Hn Hc Hb. apply nth_error_In in Hb. rewrite <- Hc in Hb. unfold pub_cases in Hb.
  rewrite (get_entry_chclosed s e Hn) in Hb.
  apply in_app_or in Hb as [Hb|Hb]; [apply in_map_iff in Hb as (? & ? & _); discriminate|].
  apply in_app_or in Hb as [Hb|Hb]; [|inversion Hb].
  destruct (entry_done s e); simpl in Hb; intuition discriminate.
Qed.

Lemma Inv1_step s t b s' : Inv1 s -> bstep fixed s t b = Some s' -> Inv1 s'.
Proof.
  intros [Hc Hn] H.
  break_step H; unfold do_free, do_close, do_cancel, wake, set_thr, add_log; simpl;
    repeat match goal with |- context [match ?x with _ => _ end] => destruct x eqn:? end; simpl;
    try (split; simpl; auto; fail);
    try (split; simpl; auto; apply Forall_app; split; auto; fail);
    try (split; simpl; auto; apply cancel_entries_no_closed; auto; fail);
    try (split; simpl; auto; apply Forall_upd; auto; simpl;
         match goal with E : nth_error (ents _) _ = Some _ |- _ => eapply Forall_nth_error in E; eauto; apply E end; fail).
  all: exfalso; eapply pub_cases_no_crash; eauto.
Qed.

Lemma Inv1_run progs cs s : run fixed (init progs) cs = Some s -> Inv1 s.
Proof.
  assert (G : forall s0, Inv1 s0 -> run fixed s0 cs = Some s -> Inv1 s).
  { induction cs as [|[t b] cs IH]; intros s0 H0 Hr; simpl in Hr.
    - inversion Hr; subst; auto.
    - destruct (bstep fixed s0 t b) eqn:E; [|discriminate].
      eapply IH; [eapply Inv1_step; eauto|auto]. }
  apply G. apply Inv1_init.
Qed.

Lemma bc_no_crash_lemma progs s : reachable fixed progs s -> crashed s = false.
Proof. intros [cs H]. apply Inv1_run in H. apply H. Qed.

(* ------------------------------------------------------------------ T2: blocked => nothing applies *)
Definition blocked_ok (en : list entry) (cn : list cid) (th : thread) : Prop :=
  match pc th with
  | PubBlocked k e x p => edone en cn e = false
  | RecvBlocked k e c => memN c cn = false /\ edone en cn e = false
  | _ => True
  end.

Definition no_meet (l : list thread) : Prop :=
  forall t1 t2 th1 th2 k1 e x p k2 c,
    nth_error l t1 = Some th1 -> nth_error l t2 = Some th2 ->
    pc th1 = PubBlocked k1 e x p -> pc th2 = RecvBlocked k2 e c -> False.

Definition Inv2 (s : bst) : Prop :=
  Forall (blocked_ok (ents s) (cancelled s)) (thr s) /\ no_meet (thr s).

Definition unblocked (th : thread) : Prop :=
  match pc th with PubBlocked _ _ _ _ | RecvBlocked _ _ _ => False | _ => True end.

Lemma unblocked_ok en cn th : unblocked th -> blocked_ok en cn th.
Proof. unfold unblocked, blocked_ok. destruct (pc th); tauto. Qed.

Lemma no_meet_upd_unblocked l n x : no_meet l -> unblocked x -> no_meet (upd l n x).
Proof.
  intros H Hx t1 t2 th1 th2 k1 e y p k2 c H1 H2 P1 P2.
  apply nth_error_upd in H1. apply nth_error_upd in H2.
  destruct H1 as [(_ & -> & _)|(_ & H1)]; [unfold unblocked in Hx; rewrite P1 in Hx; contradiction|].
  destruct H2 as [(_ & -> & _)|(_ & H2)]; [unfold unblocked in Hx; rewrite P2 in Hx; contradiction|].
  eapply (H t1 t2 th1 th2); eauto.
Qed.

Lemma no_meet_map_wake v s l : no_meet l -> no_meet (map (wake1 v s) l).
Proof.
  intros H t1 t2 th1 th2 k1 e y p k2 c H1 H2 P1 P2.
  rewrite nth_error_map in H1, H2.
  destruct (nth_error l t1) as [a1|] eqn:E1; [|discriminate].
  destruct (nth_error l t2) as [a2|] eqn:E2; [|discriminate].
  simpl in H1, H2. inversion H1; inversion H2; subst.
  destruct (wake1_pc v s a1) as [Q1|Q1]; rewrite Q1 in P1; [|discriminate].
  destruct (wake1_pc v s a2) as [Q2|Q2]; rewrite Q2 in P2; [|discriminate].
  eapply (H t1 t2 a1 a2); eauto.
Qed.

Lemma Forall_wake s : Forall (blocked_ok (ents s) (cancelled s)) (map (wake1 fixed s) (thr s)).
Proof.
  apply Forall_forall. intros x Hin. apply in_map_iff in Hin as (th & <- & _).
  unfold wake1, blocked_ok. destruct (pc th) eqn:E; simpl; try rewrite E; auto.
  - unfold entry_done. destruct (edone (ents s) (cancelled s) e) eqn:D; simpl; [auto|rewrite E; auto].
  - destruct (memN c (cancelled s)) eqn:M; simpl; [auto|].
    unfold entry_done. destruct (edone (ents s) (cancelled s) e) eqn:D; simpl; [auto|rewrite E; auto].
Qed.

Lemma edone_false_lt en cn e : edone en cn e = false -> e < length en.
Proof.
  unfold edone. intros H. destruct (Nat.lt_ge_cases e (length en)); auto.
  rewrite nth_overflow in H by auto. simpl in H. discriminate.
Qed.

Lemma edone_app en cn e x : e < length en -> edone (en ++ [x]) cn e = edone en cn e.
Proof. intros H. unfold edone. rewrite app_nth1; auto. Qed.

Lemma blocked_ok_app en cn x th : blocked_ok en cn th -> blocked_ok (en ++ [x]) cn th.
Proof.
  unfold blocked_ok. destruct (pc th); auto.
  - intros H. rewrite edone_app; auto. eapply edone_false_lt; eauto.
  - intros [H1 H2]. split; auto. rewrite edone_app; auto. eapply edone_false_lt; eauto.
Qed.

Lemma receivers_on_nil_gen e l i :
  receivers_on e l i = [] -> Forall (fun th => forall k c, pc th <> RecvBlocked k e c) l.
Proof.
  revert i. induction l as [|a l IH]; intros i H; simpl in *; constructor.
  - intros k c Hp. rewrite Hp in H. rewrite Nat.eqb_refl in H. discriminate.
  - destruct (pc a); try (eapply IH; eauto; fail).
    destruct (Nat.eqb e e0); [discriminate|eapply IH; eauto].
Qed.

Lemma publishers_on_nil_gen e l i :
  publishers_on e l i = [] -> Forall (fun th => forall k x p, pc th <> PubBlocked k e x p) l.
Proof.
  revert i. induction l as [|a l IH]; intros i H; simpl in *; constructor.
  - intros k x p Hp. rewrite Hp in H. rewrite Nat.eqb_refl in H. discriminate.
  - destruct (pc a); try (eapply IH; eauto; fail).
    destruct (Nat.eqb e e0); [discriminate|eapply IH; eauto].
Qed.

Lemma receivers_on_nil e l :
  receivers_on e l 0 = [] -> forall t th k c, nth_error l t = Some th -> pc th <> RecvBlocked k e c.
Proof. intros H t th k c Hn. apply receivers_on_nil_gen in H. eapply Forall_nth_error in H; eauto. Qed.

Lemma publishers_on_nil e l :
  publishers_on e l 0 = [] -> forall t th k x p, nth_error l t = Some th -> pc th <> PubBlocked k e x p.
Proof. intros H t th k x p Hn. apply publishers_on_nil_gen in H. eapply Forall_nth_error in H; eauto. Qed.

Lemma thr_do_free v s k : thr (do_free v s k) = thr s.
Proof. unfold do_free. destruct (lookupN k (tbl s)); auto. Qed.

Lemma Inv2_wake s1 : no_meet (thr s1) -> Inv2 (wake fixed s1).
Proof.
  intros H. split; simpl.
  - apply Forall_wake.
  - apply no_meet_map_wake; auto.
Qed.

Lemma pub_cases_nil s e :
  pub_cases s e = [] -> receivers_on e (thr s) 0 = [] /\ entry_done s e = false.
Proof.
  unfold pub_cases. intros H. apply app_eq_nil in H as [H1 H2]. apply app_eq_nil in H2 as [H2 _].
  split.
  - destruct (receivers_on e (thr s) 0); auto; discriminate.
  - destruct (entry_done s e); auto; discriminate.
Qed.

Lemma recv_cases_nil s e c :
  recv_cases fixed s e c = [] ->
  publishers_on e (thr s) 0 = [] /\ memN c (cancelled s) = false /\ entry_done s e = false.
Proof.
  unfold recv_cases. simpl. intros H. apply app_eq_nil in H as [H1 H2]. apply app_eq_nil in H2 as [H2 H3].
  repeat split.
  - destruct (publishers_on e (thr s) 0); auto; discriminate.
  - destruct (memN c (cancelled s)); auto; discriminate.
  - destruct (entry_done s e); auto; discriminate.
Qed.

Lemma no_meet_upd_pub l n x k e v p :
  no_meet l -> (forall t th k' c, nth_error l t = Some th -> pc th <> RecvBlocked k' e c) ->
  pc x = PubBlocked k e v p -> no_meet (upd l n x).
Proof.
  intros H Hno Hx t1 t2 th1 th2 k1 e1 y p1 k2 c H1 H2 P1 P2.
  apply nth_error_upd in H1. apply nth_error_upd in H2.
  destruct H2 as [(_ & -> & _)|(_ & H2)]; [congruence|].
  destruct H1 as [(_ & -> & _)|(_ & H1)].
  - rewrite Hx in P1; inversion P1; subst. eapply Hno; eauto.
  - eapply (H t1 t2 th1 th2); eauto.
Qed.

Lemma no_meet_upd_recv l n x k e c :
  no_meet l -> (forall t th k' v p, nth_error l t = Some th -> pc th <> PubBlocked k' e v p) ->
  pc x = RecvBlocked k e c -> no_meet (upd l n x).
Proof.
  intros H Hno Hx t1 t2 th1 th2 k1 e1 y p1 k2 c2 H1 H2 P1 P2.
  apply nth_error_upd in H1. apply nth_error_upd in H2.
  destruct H1 as [(_ & -> & _)|(_ & H1)]; [congruence|].
  destruct H2 as [(_ & -> & _)|(_ & H2)].
  - rewrite Hx in P2; inversion P2; subst. eapply Hno; eauto.
  - eapply (H t1 t2 th1 th2); eauto.
Qed.

Lemma Inv2_init progs : Inv2 (init progs).
Proof.
  split; simpl.
  - apply Forall_forall. intros x Hin. apply in_map_iff in Hin as (p & <- & _). exact I.
  - intros t1 t2 th1 th2 k1 e x p k2 c H1 _ P1 _.
    rewrite nth_error_map in H1. destruct (nth_error progs t1); simpl in H1; inversion H1; subst. discriminate.
Qed.

Ltac unb := first [exact I | apply unblocked_ok; exact I].

Lemma Inv2_step s t b s' : Inv2 s -> bstep fixed s t b = Some s' -> Inv2 s'.
Proof.
  intros [HF HM] H.
  break_step H.
  (* wake-up steps *)
  all: try (apply Inv2_wake; try rewrite thr_do_free; simpl; apply no_meet_upd_unblocked; auto; exact I).
  (* plain updates with unblocked threads *)
  all: try (split; simpl; [repeat apply Forall_upd; auto; unb | repeat apply no_meet_upd_unblocked; auto; exact I]; fail).
  - (* Receive creating an entry *)
    split; simpl.
    + apply Forall_upd; [|unb]. eapply Forall_impl; [|exact HF]. intros a Ha. apply blocked_ok_app; auto.
    + apply no_meet_upd_unblocked; auto. exact I.
  - (* receive function blocks *)
    match goal with E : recv_cases fixed _ _ _ = [] |- _ => apply recv_cases_nil in E as (E1 & E2 & E3) end.
    split; simpl.
    + apply Forall_upd; auto; unfold blocked_ok; simpl; try split; auto.
    + eapply no_meet_upd_recv; eauto; [|reflexivity]. intros; eapply publishers_on_nil; eauto.
  - (* Publish blocks *)
    match goal with E : pub_cases _ _ = [] |- _ => apply pub_cases_nil in E as (E1 & E2) end.
    split; simpl.
    + apply Forall_upd; auto; unfold blocked_ok; simpl; auto.
    + eapply no_meet_upd_pub; eauto; [|reflexivity]. intros; eapply receivers_on_nil; eauto.
Qed.

Lemma Inv2_run progs cs s : run fixed (init progs) cs = Some s -> Inv2 s.
Proof.
  assert (G : forall s0, Inv2 s0 -> run fixed s0 cs = Some s -> Inv2 s).
  { induction cs as [|[t b] cs IH]; intros s0 H0 Hr; simpl in Hr.
    - inversion Hr; subst; auto.
    - destruct (bstep fixed s0 t b) eqn:E; [|discriminate].
      eapply IH; [eapply Inv2_step; eauto|auto]. }
  apply G. apply Inv2_init.
Qed.

(* ------------------------------------------------------------------ statements used by Props/C19.v *)

(* T2, publisher side: a thread parked inside Publish's hand-off has a live entry (not freed, not
   closed, creating context not done) and no receiver is parked on that entry. *)
Lemma bc_publish_blocked_only_if_nothing_applies progs s t th k e x p :
  reachable fixed progs s -> nth_error (thr s) t = Some th -> pc th = PubBlocked k e x p ->
  entry_done s e = false /\
  (forall t' th' k' c, nth_error (thr s) t' = Some th' -> pc th' <> RecvBlocked k' e c).
Proof.
  intros [cs Hr] Hn Hp. apply Inv2_run in Hr as [HF HM]. split.
  - eapply Forall_nth_error in HF; eauto. unfold blocked_ok in HF. rewrite Hp in HF. exact HF.
  - intros t' th' k' c Hn' Hp'. eapply (HM t t' th th'); eauto.
Qed.

(* T2, receiver side *)
Lemma bc_receive_blocked_only_if_nothing_applies progs s t th k e c :
  reachable fixed progs s -> nth_error (thr s) t = Some th -> pc th = RecvBlocked k e c ->
  memN c (cancelled s) = false /\ entry_done s e = false /\
  (forall t' th' k' x p, nth_error (thr s) t' = Some th' -> pc th' <> PubBlocked k' e x p).
Proof.
  intros [cs Hr] Hn Hp. apply Inv2_run in Hr as [HF HM]. repeat split.
  - eapply Forall_nth_error in HF; eauto. unfold blocked_ok in HF. rewrite Hp in HF. apply HF.
  - eapply Forall_nth_error in HF; eauto. unfold blocked_ok in HF. rewrite Hp in HF. apply HF.
  - intros t' th' k' x p Hn' Hp'. eapply (HM t' t th' th); eauto.
Qed.

(* T4: free / close / cancel never block and never fail, whatever the state; a publish on an
   unknown key or a closed broadcaster returns in its first step. *)
Definition is_admin (op : bop) : bool :=
  match op with Free _ | Close | Cancel _ => true | _ => false end.

Lemma bc_admin_ops_always_complete v s t th op rest :
  crashed s = false -> nth_error (thr s) t = Some th -> pc th = Idle -> todo th = op :: rest ->
  is_admin op = true ->
  exists s', bstep v s t 0 = Some s' /\
             exists th', nth_error (thr s') t = Some th' /\ pc th' = Idle /\ todo th' = rest /\
                         results th' = RUnit :: results th.
Proof.
  intros Hc Hn Hp Ht Ha.
  assert (Hlt : t < length (thr s)) by (apply nth_error_Some; congruence).
  unfold bstep. rewrite Hc, Hn, Hp, Ht.
  destruct op; try discriminate; simpl; eexists; split; try reflexivity;
    unfold wake; simpl; try rewrite thr_do_free; simpl;
    rewrite nth_error_map, nth_error_upd_eq by auto; simpl;
    (eexists; split; [reflexivity|]); unfold wake1; simpl; rewrite Ht; auto.
Qed.

Lemma bc_publish_unknown_returns_immediately v s t th k x rest :
  crashed s = false -> nth_error (thr s) t = Some th -> pc th = Idle -> todo th = Publish k x :: rest ->
  closed s = true \/ lookupN k (tbl s) = None ->
  exists s', bstep v s t 0 = Some s' /\
             exists th', nth_error (thr s') t = Some th' /\ pc th' = Idle /\ todo th' = rest /\
                         results th' = RPubNone :: results th.
Proof.
  intros Hc Hn Hp Ht Hk.
  assert (Hlt : t < length (thr s)) by (apply nth_error_Some; congruence).
  unfold bstep. rewrite Hc, Hn, Hp, Ht. simpl.
  destruct (closed s) eqn:Ecl.
  - eexists; split; [reflexivity|]. simpl. rewrite nth_error_upd_eq by auto.
    eexists; split; [reflexivity|]. simpl. rewrite Ht. auto.
  - destruct Hk as [Hk|Hk]; [discriminate|]. rewrite Hk.
    eexists; split; [reflexivity|]. simpl. rewrite nth_error_upd_eq by auto.
    eexists; split; [reflexivity|]. simpl. rewrite Ht. auto.
Qed.

(* ------------------------------------------------------------------ T3: each value goes to at most one receiver, of its own key *)
Definition pid_of (th : thread) : option nat :=
  match pc th with PubFound _ _ _ p | PubBlocked _ _ _ p => Some p | _ => None end.

Fixpoint delivered (l : list bev) : list nat :=
  match l with
  | [] => []
  | EvDeliver p _ _ _ _ :: r => p :: delivered r
  | _ :: r => delivered r
  end.

Definition key_of (en : list entry) (e : nat) : key := e_key (nth e en dummy_entry).

(* what a thread remembers about keys agrees with the (immutable) key of the entry it refers to,
   and a publish in progress has logged its start *)
Definition thread_keys_ok (en : list entry) (lg : list bev) (th : thread) : Prop :=
  (match pc th with
   | PubFound k e x p | PubBlocked k e x p => e < length en /\ key_of en e = k /\ In (EvPubStart p k x) lg
   | RecvBlocked k e c => e < length en /\ key_of en e = k
   | Idle => True
   end) /\
  Forall (fun h => match h with (k, e, c) => e < length en /\ key_of en e = k end) (handles th).

Definition Inv3 (s : bst) : Prop :=
  Forall (thread_keys_ok (ents s) (log s)) (thr s) /\
  (forall k e, In (k, e) (tbl s) -> e < length (ents s) /\ key_of (ents s) e = k) /\
  (forall t th p, nth_error (thr s) t = Some th -> pid_of th = Some p -> p < next_pid s /\ ~ In p (delivered (log s))) /\
  (forall t1 t2 th1 th2 p, nth_error (thr s) t1 = Some th1 -> nth_error (thr s) t2 = Some th2 ->
                           pid_of th1 = Some p -> pid_of th2 = Some p -> t1 = t2) /\
  NoDup (delivered (log s)) /\
  (forall p, In p (delivered (log s)) -> p < next_pid s) /\
  (forall p kp kr x r, In (EvDeliver p kp kr x r) (log s) -> kp = kr /\ In (EvPubStart p kp x) (log s)).

Lemma pid_wake1 v s th p : pid_of (wake1 v s th) = Some p -> pid_of th = Some p.
Proof.
  destruct (wake1_cases v s th) as [H|[r H]]; rewrite H; auto. unfold pid_of, ret; simpl. discriminate.
Qed.

Lemma keys_ret en lg th r : thread_keys_ok en lg th -> thread_keys_ok en lg (ret th r).
Proof. intros [_ H]. split; simpl; auto. Qed.

Lemma keys_wake1 v s en lg th : thread_keys_ok en lg th -> thread_keys_ok en lg (wake1 v s th).
Proof. intros H. destruct (wake1_cases v s th) as [E|[r E]]; rewrite E; auto. apply keys_ret; auto. Qed.

Lemma keys_mono en lg en' lg' th :
  thread_keys_ok en lg th ->
  (forall e, e < length en -> e < length en' /\ key_of en' e = key_of en e) ->
  (forall ev, In ev lg -> In ev lg') ->
  thread_keys_ok en' lg' th.
Proof.
  intros [H1 H2] Hk Hl. split.
  - destruct (pc th); auto.
    + destruct H1 as (A & B & C). destruct (Hk _ A) as [A' B']. repeat split; auto. congruence.
    + destruct H1 as (A & B & C). destruct (Hk _ A) as [A' B']. repeat split; auto. congruence.
    + destruct H1 as (A & B). destruct (Hk _ A) as [A' B']. split; auto. congruence.
  - eapply Forall_impl; [|exact H2]. intros [[k e] c] [A B]. destruct (Hk _ A) as [A' B']. split; auto. congruence.
Qed.

Lemma key_of_app en x e : e < length en -> key_of (en ++ [x]) e = key_of en e.
Proof. intros H. unfold key_of. rewrite app_nth1; auto. Qed.

Lemma key_of_upd_cancel v l e0 en e :
  nth_error l e0 = Some en -> key_of (upd l e0 (cancel_entry v en)) e = key_of l e.
Proof.
  intros H. unfold key_of. destruct (Nat.eq_dec e e0) as [->|Hne].
  - assert (e0 < length l) by (apply nth_error_Some; congruence).
    rewrite (nth_error_nth _ _ _ (nth_error_upd_eq l e0 (cancel_entry v en) H0)).
    rewrite (nth_error_nth _ _ _ H). reflexivity.
  - destruct (nth_error l e) as [x|] eqn:E.
    + rewrite (nth_error_nth _ _ _ E). erewrite nth_error_nth; [reflexivity|]. rewrite nth_error_upd_neq; auto.
    + rewrite !nth_overflow; auto; [apply nth_error_None; auto|rewrite upd_length; apply nth_error_None; auto].
Qed.

Lemma key_of_cancel_entries v es l e :
  key_of (cancel_entries v es l) e = key_of l e /\ length (cancel_entries v es l) = length l.
Proof.
  unfold cancel_entries. revert l. induction es as [|e0 es IH]; intros l; simpl; auto.
  destruct (nth_error l e0) as [en|] eqn:E; [|apply IH].
  destruct (IH (upd l e0 (cancel_entry v en))) as [A B]. rewrite A, B, upd_length. split; auto.
  apply key_of_upd_cancel; auto.
Qed.

Lemma delivered_quiet ev lg :
  (forall p a b c d, ev <> EvDeliver p a b c d) -> delivered (ev :: lg) = delivered lg.
Proof. intros H. destruct ev; auto. exfalso. eapply H; eauto. Qed.

(* ---- generic preservation lemmas ---- *)
Lemma Inv3_wake v s : Inv3 s -> Inv3 (wake v s).
Proof.
  intros (K1 & K2 & P1 & P2 & D1 & D2 & D3). unfold wake.
  split; [|split; [|split; [|split; [|split; [|split]]]]]; simpl; auto.
  - apply Forall_forall. intros x Hin. apply in_map_iff in Hin as (th & <- & Hin).
    apply keys_wake1. rewrite Forall_forall in K1. auto.
  - intros t th p H H0. rewrite nth_error_map in H. destruct (nth_error (thr s) t) as [th0|] eqn:E; [|discriminate].
    simpl in H. inversion H; subst. apply pid_wake1 in H0. eapply P1; eauto.
  - intros t1 t2 th1 th2 p H1 H2 Q1 Q2. rewrite nth_error_map in H1, H2.
    destruct (nth_error (thr s) t1) as [a1|] eqn:E1; [|discriminate].
    destruct (nth_error (thr s) t2) as [a2|] eqn:E2; [|discriminate].
    simpl in *. inversion H1; inversion H2; subst. apply pid_wake1 in Q1. apply pid_wake1 in Q2. eapply P2; eauto.
Qed.

(* replacing thread t by a thread that has no publish in progress and only handles that are ok *)
Lemma Inv3_upd_nopid s t th' :
  Inv3 s -> pid_of th' = None -> thread_keys_ok (ents s) (log s) th' -> Inv3 (set_thr s (upd (thr s) t th')).
Proof.
  intros (K1 & K2 & P1 & P2 & D1 & D2 & D3) Hp Hk.
  split; [|split; [|split; [|split; [|split; [|split]]]]]; simpl; auto.
  - apply Forall_upd; auto.
  - intros t0 th p H H0. apply nth_error_upd in H as [(-> & -> & _)|(Hne & H)]; [congruence|eapply P1; eauto].
  - intros t1 t2 th1 th2 p H1 H2 Q1 Q2.
    apply nth_error_upd in H1 as [(-> & -> & _)|(N1 & H1)]; [congruence|].
    apply nth_error_upd in H2 as [(-> & -> & _)|(N2 & H2)]; [congruence|]. eapply P2; eauto.
Qed.

Lemma Inv3_add_log_quiet s ev :
  (forall p a b c d, ev <> EvDeliver p a b c d) -> Inv3 s -> Inv3 (add_log s ev).
Proof.
  intros Hq (K1 & K2 & P1 & P2 & D1 & D2 & D3). unfold add_log.
  pose proof (delivered_quiet ev (log s) Hq) as Hd.
  split; [|split; [|split; [|split; [|split; [|split]]]]]; cbn [thr ents tbl log next_pid]; rewrite ?Hd; auto.
  - eapply Forall_impl; [|exact K1]. intros th Hth. eapply keys_mono; eauto. intros; simpl; auto.
  - intros p kp kr x r [H|H]; [exfalso; eapply Hq; eauto|]. apply D3 in H. destruct H; simpl; auto.
Qed.

(* table / entry changes of Free, Close, Cancel: keys and pids are untouched *)
Lemma Inv3_table_change s tbl' closed' ents' cancelled' :
  Inv3 s ->
  (forall k e, In (k, e) tbl' -> In (k, e) (tbl s)) ->
  (forall e, key_of ents' e = key_of (ents s) e) -> length ents' = length (ents s) ->
  Inv3 (mkBst tbl' closed' ents' cancelled' (thr s) (log s) (crashed s) (next_pid s)).
Proof.
  intros (K1 & K2 & P1 & P2 & D1 & D2 & D3) Ht Hk Hl.
  split; [|split; [|split; [|split; [|split; [|split]]]]]; simpl; auto.
  - eapply Forall_impl; [|exact K1]. intros th Hth. eapply keys_mono; eauto.
    intros e He. rewrite Hl, Hk. auto.
  - intros k e Hin. rewrite Hl, Hk. apply (K2 k e); auto.
Qed.

Lemma keys_idle_any en lg th pc' todo' res' :
  thread_keys_ok en lg th -> pid_of (mkThread pc' todo' (handles th) res') = None ->
  (match pc' with Idle => True | _ => False end) ->
  thread_keys_ok en lg (mkThread pc' todo' (handles th) res').
Proof. intros [_ H] _ Hp. destruct pc'; try contradiction. split; simpl; auto. Qed.

Lemma Inv3_init progs : Inv3 (init progs).
Proof.
  split; [|split; [|split; [|split; [|split; [|split]]]]]; simpl; auto.
  - apply Forall_forall. intros x Hin. apply in_map_iff in Hin as (p & <- & _). split; simpl; auto.
  - intros k e [].
  - intros t th p H Hp. rewrite nth_error_map in H. destruct (nth_error progs t); inversion H; subst. discriminate.
  - intros t1 t2 th1 th2 p H1 _ Q1 _. rewrite nth_error_map in H1. destruct (nth_error progs t1); inversion H1; subst. discriminate.
  - constructor.
  - intros p [].
  - intros p kp kr x r [].
Qed.

Lemma Inv3_step s t b s' : Inv3 s -> bstep fixed s t b = Some s' -> Inv3 s'.
Proof.
  intros HI H. pose proof HI as (K1 & K2 & P1 & P2 & D1 & D2 & D3).
  unfold bstep in H. destruct (crashed s) eqn:Hcr; [discriminate|].
  destruct (nth_error (thr s) t) as [th|] eqn:Hth; [|discriminate].
  pose proof (Forall_nth_error _ _ _ _ K1 Hth) as Hk.
  assert (Hlt : t < length (thr s)) by (apply nth_error_Some; congruence).
  (* replacing t by an idle thread with the same handles *)
  assert (Idle_ok : forall todo' res', Inv3 (set_thr s (upd (thr s) t (mkThread Idle todo' (handles th) res')))).
  { intros. apply Inv3_upd_nopid; auto. destruct Hk as [_ Hh]. split; simpl; auto. }
  destruct (pc th) eqn:Hpc; try discriminate.
  - (* Idle: start the next operation *)
    destruct (todo th) as [|op rest] eqn:Htodo; [discriminate|].
    destruct op.
    + (* Publish *)
      unfold only0 in H. destruct b; [|discriminate].
      destruct (closed s).
      { inversion H; subst. apply Inv3_add_log_quiet; [intros; discriminate|]. apply Idle_ok. }
      destruct (lookupN k (tbl s)) as [e|] eqn:El.
      2:{ inversion H; subst. apply Inv3_add_log_quiet; [intros; discriminate|]. apply Idle_ok. }
      inversion H; subst; clear H.
      destruct (K2 k e (lookupN_In _ _ _ El)) as [Ke1 Ke2].
      split; [|split; [|split; [|split; [|split; [|split]]]]]; cbn [thr ents tbl log next_pid]; auto.
      * apply Forall_upd.
        -- eapply Forall_impl; [|exact K1]. intros a Ha. eapply keys_mono; eauto. intros; simpl; auto.
        -- destruct Hk as [_ Hh]. split; simpl; auto.
      * intros t0 th0 p H H0. apply nth_error_upd in H as [(-> & -> & _)|(Hne & H)].
        -- simpl in H0. inversion H0; subst. split; [lia|]. simpl. intros Hin. apply D2 in Hin. lia.
        -- destruct (P1 _ _ _ H H0). simpl. split; [lia|auto].
      * intros t1 t2 th1 th2 p H1 H2 Q1 Q2.
        apply nth_error_upd in H1 as [(-> & -> & _)|(N1 & H1)]; apply nth_error_upd in H2 as [(-> & -> & _)|(N2 & H2)]; auto.
        -- simpl in Q1. inversion Q1; subst. destruct (P1 _ _ _ H2 Q2). lia.
        -- simpl in Q2. inversion Q2; subst. destruct (P1 _ _ _ H1 Q1). lia.
        -- eapply P2; eauto.
      * intros p Hin. simpl in Hin. apply D2 in Hin. lia.
      * intros p kp kr x0 r [Hc|Hin]; [discriminate|]. apply D3 in Hin. destruct Hin; split; simpl; auto.
    + (* Receive *)
      unfold only0 in H. destruct b; [|discriminate].
      destruct (closed s); [inversion H; subst; apply Idle_ok|].
      destruct (lookupN k (tbl s)) as [e|] eqn:El.
      * inversion H; subst; clear H. destruct (K2 k e (lookupN_In _ _ _ El)) as [Ke1 Ke2].
        apply Inv3_upd_nopid; auto. destruct Hk as [_ Hh]. split; simpl; auto.
        apply Forall_app; split; auto.
      * inversion H; subst; clear H.
        assert (Knew : forall e0, e0 < length (ents s) ->
                  e0 < length (ents s ++ [mkEntry k c false false]) /\
                  key_of (ents s ++ [mkEntry k c false false]) e0 = key_of (ents s) e0).
        { intros e0 He0. rewrite app_length. simpl. split; [lia|apply key_of_app; auto]. }
        assert (Klast : length (ents s) < length (ents s ++ [mkEntry k c false false]) /\
                        key_of (ents s ++ [mkEntry k c false false]) (length (ents s)) = k).
        { rewrite app_length. simpl. split; [lia|]. unfold key_of. rewrite app_nth2 by lia. rewrite Nat.sub_diag. reflexivity. }
        split; [|split; [|split; [|split; [|split; [|split]]]]]; cbn [thr ents tbl log next_pid]; auto.
        -- apply Forall_upd.
           ++ eapply Forall_impl; [|exact K1]. intros a Ha. eapply keys_mono; eauto.
           ++ destruct Hk as [_ Hh]. split; simpl; auto. apply Forall_app; split.
              ** eapply Forall_impl; [|exact Hh]. intros [[k0 e0] c0] [A B]. destruct (Knew _ A). split; auto. congruence.
              ** constructor; auto.
        -- intros k0 e0 [Heq|Hin]; [inversion Heq; subst; exact Klast|]. destruct (K2 _ _ Hin) as [A B]. destruct (Knew _ A). split; auto. congruence.
        -- intros t0 th0 p H H0. apply nth_error_upd in H as [(-> & -> & _)|(Hne & H)]; [discriminate|eapply P1; eauto].
        -- intros t1 t2 th1 th2 p H1 H2 Q1 Q2.
           apply nth_error_upd in H1 as [(-> & -> & _)|(N1 & H1)]; [discriminate|].
           apply nth_error_upd in H2 as [(-> & -> & _)|(N2 & H2)]; [discriminate|]. eapply P2; eauto.
    + (* RunRecv *)
      destruct (nth_error (handles th) h) as [[[k e] c]|] eqn:Eh.
      2:{ unfold only0 in H. destruct b; inversion H; subst. apply Idle_ok. }
      assert (Hhe : e < length (ents s) /\ key_of (ents s) e = k).
      { destruct Hk as [_ Hh]. eapply Forall_nth_error in Hh; eauto. exact Hh. }
      destruct (recv_cases fixed s e c) as [|c0 cs] eqn:Ecases.
      * unfold only0 in H. destruct b; inversion H; subst; clear H.
        apply Inv3_upd_nopid; auto. destruct Hk as [_ Hh]. split; simpl; auto.
      * destruct (nth_error (c0 :: cs) b) as [[t'| | |]|]; try discriminate; try (inversion H; subst; apply Idle_ok).
        (* hand-off from a parked publisher *)
        destruct (nth_error (thr s) t') as [th'|] eqn:Hth'; [|discriminate].
        destruct (pc th') eqn:Hpc'; try discriminate.
        destruct (Nat.eqb e e0) eqn:Ee; [|discriminate]. apply Nat.eqb_eq in Ee; subst e0.
        inversion H; subst; clear H.
        pose proof (Forall_nth_error _ _ _ _ K1 Hth') as Hk'. destruct Hk' as [Hk'1 Hk'2]. rewrite Hpc' in Hk'1.
        destruct Hk'1 as (A1 & A2 & A3).
        assert (Hp' : pid_of th' = Some p) by (unfold pid_of; rewrite Hpc'; reflexivity).
        destruct (P1 _ _ _ Hth' Hp') as [Pb Pn].
        split; [|split; [|split; [|split; [|split; [|split]]]]]; cbn [thr ents tbl log next_pid add_log set_thr]; auto.
        -- apply Forall_upd; [apply Forall_upd|].
           ++ eapply Forall_impl; [|exact K1]. intros a Ha. eapply keys_mono; eauto. intros; simpl; auto.
           ++ split; simpl; auto.
           ++ destruct Hk as [_ Hh]. split; simpl; auto.
        -- intros t0 th0 q H H0. simpl.
           apply nth_error_upd in H as [(-> & -> & _)|(Hne & H)]; [discriminate|].
           apply nth_error_upd in H as [(-> & -> & _)|(Hne' & H)]; [discriminate|].
           destruct (P1 _ _ _ H H0) as [B1 B2]. split; auto. intros [Heq|Hin]; [|auto].
           subst q. apply Hne'. eapply (P2 t0 t' th0 th'); eauto.
        -- intros t1 t2 th1 th2 q H1 H2 Q1 Q2.
           apply nth_error_upd in H1 as [(-> & -> & _)|(N1 & H1)]; [discriminate|].
           apply nth_error_upd in H1 as [(-> & -> & _)|(N1' & H1)]; [discriminate|].
           apply nth_error_upd in H2 as [(-> & -> & _)|(N2 & H2)]; [discriminate|].
           apply nth_error_upd in H2 as [(-> & -> & _)|(N2' & H2)]; [discriminate|]. eapply P2; eauto.
        -- simpl. constructor; auto.
        -- simpl. intros q [<-|Hin]; auto.
        -- simpl. intros q kp kr x0 r [Heq|Hin].
           ++ inversion Heq; subst. split; [destruct Hhe; congruence|right; exact A3].
           ++ apply D3 in Hin. destruct Hin; split; auto.
    + (* Free *)
      unfold only0 in H. destruct b; [|discriminate]. inversion H; subst; clear H.
      apply Inv3_wake.
      pose proof (Idle_ok (tl (todo th)) (RUnit :: results th)) as HI2.
      set (s1 := set_thr s (upd (thr s) t (ret (pop th) RUnit))) in *.
      change (Inv3 s1) in HI2.
      unfold do_free. destruct (lookupN k (tbl s1)) as [e|] eqn:El; [|exact HI2].
      apply (Inv3_table_change s1 (removeN k (tbl s1)) (closed s1) (cancel_entries fixed [e] (ents s1)) (cancelled s1) HI2).
      * intros k0 e0 Hin. apply In_removeN in Hin. apply Hin.
      * intros e0. apply (key_of_cancel_entries fixed [e] (ents s1) e0).
      * apply (key_of_cancel_entries fixed [e] (ents s1) 0).
    + (* Close *)
      unfold only0 in H. destruct b; [|discriminate]. inversion H; subst; clear H.
      apply Inv3_wake.
      pose proof (Idle_ok (tl (todo th)) (RUnit :: results th)) as HI2.
      set (s1 := set_thr s (upd (thr s) t (ret (pop th) RUnit))) in *.
      change (Inv3 s1) in HI2.
      apply (Inv3_table_change s1 [] true (cancel_entries fixed (map snd (tbl s1)) (ents s1)) (cancelled s1) HI2).
      * intros k0 e0 [].
      * intros e0. apply (key_of_cancel_entries fixed (map snd (tbl s1)) (ents s1) e0).
      * apply (key_of_cancel_entries fixed (map snd (tbl s1)) (ents s1) 0).
    + (* Cancel *)
      unfold only0 in H. destruct b; [|discriminate]. inversion H; subst; clear H.
      apply Inv3_wake.
      pose proof (Idle_ok (tl (todo th)) (RUnit :: results th)) as HI2.
      set (s1 := set_thr s (upd (thr s) t (ret (pop th) RUnit))) in *.
      change (Inv3 s1) in HI2.
      apply (Inv3_table_change s1 (tbl s1) (closed s1) (ents s1) (c :: cancelled s1) HI2); auto.
  - (* PubFound: the hand-off select *)
    destruct Hk as [Hk1 Hk2]. rewrite Hpc in Hk1. destruct Hk1 as (A1 & A2 & A3).
    assert (Hp : pid_of th = Some p) by (unfold pid_of; rewrite Hpc; reflexivity).
    destruct (P1 _ _ _ Hth Hp) as [Pb Pn].
    destruct (pub_cases s e) as [|c0 cs] eqn:Ecases.
    + (* blocks: same publish instance, now parked *)
      unfold only0 in H. destruct b; inversion H; subst; clear H.
      split; [|split; [|split; [|split; [|split; [|split]]]]]; cbn [thr ents tbl log next_pid set_thr]; auto.
      * apply Forall_upd; auto. split; simpl; auto.
      * intros t0 th0 q H H0. apply nth_error_upd in H as [(-> & -> & _)|(Hne & H)]; [|eapply P1; eauto].
        simpl in H0. inversion H0; subst. auto.
      * intros t1 t2 th1 th2 q H1 H2 Q1 Q2.
        apply nth_error_upd in H1 as [(-> & -> & _)|(N1 & H1)]; apply nth_error_upd in H2 as [(-> & -> & _)|(N2 & H2)]; auto.
        -- simpl in Q1. inversion Q1; subst. symmetry. eapply (P2 t2 t th2 th); eauto.
        -- simpl in Q2. inversion Q2; subst. eapply (P2 t1 t th1 th); eauto.
        -- eapply P2; eauto.
    + destruct (nth_error (c0 :: cs) b) as [[t'| |]|]; try discriminate.
      * (* hand-off to a parked receiver *)
        destruct (nth_error (thr s) t') as [th'|] eqn:Hth'; [|discriminate].
        destruct (pc th') eqn:Hpc'; try discriminate.
        destruct (Nat.eqb e e0) eqn:Ee; [|discriminate]. apply Nat.eqb_eq in Ee; subst e0.
        inversion H; subst; clear H.
        pose proof (Forall_nth_error _ _ _ _ K1 Hth') as [Hk'1 Hk'2]. rewrite Hpc' in Hk'1. destruct Hk'1 as (B1 & B2).
        split; [|split; [|split; [|split; [|split; [|split]]]]]; cbn [thr ents tbl log next_pid add_log set_thr]; auto.
        -- apply Forall_upd; [apply Forall_upd|].
           ++ eapply Forall_impl; [|exact K1]. intros a Ha. eapply keys_mono; eauto. intros; simpl; auto.
           ++ split; simpl; auto.
           ++ split; simpl; auto.
        -- intros t0 th0 q H H0. simpl.
           apply nth_error_upd in H as [(-> & -> & _)|(Hne & H)]; [discriminate|].
           apply nth_error_upd in H as [(-> & -> & _)|(Hne' & H)]; [discriminate|].
           destruct (P1 _ _ _ H H0) as [C1 C2]. split; auto. intros [Heq|Hin]; [|auto].
           subst q. apply Hne. eapply (P2 t0 t th0 th); eauto.
        -- intros t1 t2 th1 th2 q H1 H2 Q1 Q2.
           apply nth_error_upd in H1 as [(-> & -> & _)|(N1 & H1)]; [discriminate|].
           apply nth_error_upd in H1 as [(-> & -> & _)|(N1' & H1)]; [discriminate|].
           apply nth_error_upd in H2 as [(-> & -> & _)|(N2 & H2)]; [discriminate|].
           apply nth_error_upd in H2 as [(-> & -> & _)|(N2' & H2)]; [discriminate|]. eapply P2; eauto.
        -- simpl. constructor; auto.
        -- simpl. intros q [<-|Hin]; auto.
        -- simpl. intros q kp kr x0 r [Heq|Hin].
           ++ inversion Heq; subst. split; [congruence|right; exact A3].
           ++ apply D3 in Hin. destruct Hin; split; auto.
      * inversion H; subst. apply Idle_ok.
      * (* crash: only in the legacy variant; under [fixed] the case list never contains it, but the
           invariant is preserved anyway *)
        inversion H; subst; clear H.
        split; [|split; [|split; [|split; [|split; [|split]]]]]; cbn [thr ents tbl log next_pid]; auto.
        -- apply Forall_upd.
           ++ eapply Forall_impl; [|exact K1]. intros a Ha. eapply keys_mono; eauto. intros; simpl; auto.
           ++ split; simpl; auto.
        -- intros t0 th0 q H H0. apply nth_error_upd in H as [(-> & -> & _)|(Hne & H)]; [discriminate|]. simpl. eapply P1; eauto.
        -- intros t1 t2 th1 th2 q H1 H2 Q1 Q2.
           apply nth_error_upd in H1 as [(-> & -> & _)|(N1 & H1)]; [discriminate|].
           apply nth_error_upd in H2 as [(-> & -> & _)|(N2 & H2)]; [discriminate|]. eapply P2; eauto.
        -- intros q kp kr x0 r [Hc|Hin]; [discriminate|]. apply D3 in Hin. destruct Hin; split; simpl; auto.
Qed.

Lemma Inv3_run cs : forall s0 s, Inv3 s0 -> run fixed s0 cs = Some s -> Inv3 s.
Proof.
  induction cs as [|[t b] cs IH]; intros s0 s H0 Hr; simpl in Hr.
  - inversion Hr; subst; auto.
  - destruct (bstep fixed s0 t b) eqn:E; [|discriminate]. eapply IH; [eapply Inv3_step; eauto|auto].
Qed.

(* every publish instance (pid) is delivered at most once; a delivery goes to a receiver of the very
   key it was published on and carries the published value *)
Lemma bc_delivery_injective_lemma progs s :
  reachable fixed progs s ->
  NoDup (delivered (log s)) /\
  (forall p kp kr x r, In (EvDeliver p kp kr x r) (log s) -> kp = kr /\ In (EvPubStart p kp x) (log s)).
Proof.
  intros [cs Hr]. pose proof (Inv3_run cs _ _ (Inv3_init progs) Hr) as (_ & _ & _ & _ & D1 & _ & D3). auto.
Qed.
