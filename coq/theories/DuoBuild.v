(* DuoBuild.v — call chains can be made one level deeper from any state: in the closed two-directional system,
   from EVERY reachable state in which both endpoints are up, an unstarted call of either side whose function
   stays inside application code extends whatever chain there is by one level - five steps (the application
   starts the call, the caller goroutine registers and writes the request, the network delivers it, the peer's
   resolver and handler run), all existing levels untouched.  With DuoChain.chain_completes: chains of the
   depths reached this way complete. *)
From Verif Require Import Base Link LinkProofs LinkInv16 LinkInvB LinkInvR LinkInvQ LinkInvK LinkInvT LinkProgress
  LinkEvents LinkHealthy LinkNames LinkFrame LinkFresh LinkChain LinkUp Pair PairProofs PairProgress Duo DuoProofs DuoChain.

Lemma nth_error_nth' {A} (l : list A) n x d : nth_error l n = Some x -> nth n l d = x.
Proof. revert n. induction l as [|a r IH]; intros [|n] H; simpl in *; try discriminate; [inversion H; auto|auto]. Qed.

(* the application starts call j; its caller goroutine registers it and writes the request *)
Lemma start_call calls s j cs :
  crashed s = false -> flt s = no_faults -> bclosed s = false -> memN 0%N (cancelled s) = false ->
  tget (threads s) (TCall j) = None -> nth_error calls j = Some cs -> c_closure cs = false ->
  exists s', lrun fixed calls s [(Env (EStart j), 0); (Run (TCall j), 0)] = Some s' /\
             KeepC j (length (ents s)) s' /\ req_written (evs s') j = Some (c_arg cs) /\
             evs s' = EvReqWritten j (c_arg cs) false :: evs s.
Proof.
  intros Hc Hf Hb Hc0 Ht Hn Hcl.
  set (e := length (ents s)).
  set (s1 := mkL (tset (threads s) (TCall j) (CRegistered e)) ((N.of_nat j, e) :: tbl s) false
                 (ents s ++ [mkLE (c_ctx cs) false j]) (cancelled s) (fatal s)
                 (closures s) (remotes s) (loops_done s) (mkFaults None None None None) (npub s) (nreq s) (evs s) (crashed s)).
  assert (St1 : lstep fixed calls s (Env (EStart j)) 0 = Some s1).
  { unfold lstep. rewrite Hc. simpl. rewrite Ht, Hn, Hcl. unfold take_fault. rewrite Hf. simpl. rewrite Hb. reflexivity. }
  assert (T1 : tget (threads s1) (TCall j) = Some (CRegistered e)) by (unfold s1; simpl; apply tget_tset_same).
  assert (Hnth : nth j calls dflt_call = cs) by (apply nth_error_nth'; exact Hn).
  eexists. split.
  - simpl. rewrite St1. unfold lstep. change (crashed s1) with (crashed s). rewrite Hc, T1. simpl.
    change (cancelled s1) with (cancelled s). rewrite Hc0. unfold take_fault. simpl. rewrite Hnth. reflexivity.
  - rewrite Hcl. split; [|split; [simpl; rewrite Nat.eqb_refl; reflexivity|reflexivity]].
    unfold KeepC, setT; simpl. rewrite tget_tset_same. rewrite tget_tset_other by discriminate.
    rewrite tget_tset_same. auto.
Qed.

(* a request for a function that stays inside application code: its resolver and handler bring the handler there *)
Lemma start_gated_full calls s n arg :
  crashed s = false -> tget (threads s) (TReq n) = Some (QStart FGated arg) -> no_callee_faults s ->
  exists s', lrun fixed calls s [(Run (TReq n), 0); (Run (THandler n), 0)] = Some s' /\
             KeepH n arg s' /\ nreq s' = nreq s.
Proof.
  intros Hc Ht (F1 & F2 & F3).
  assert (S1 : lstep fixed calls s (Run (TReq n)) 0 =
               Some (setT (setT (with_flt s (mkFaults (f_wreq (flt s)) (f_wres (flt s)) (f_marshal (flt s)) None)) (TReq n) Finished)
                          (THandler n) (HStart FGated arg))).
  { unfold lstep. rewrite Hc, Ht. simpl. unfold take_fault. rewrite F3. reflexivity. }
  set (s1 := setT (setT (with_flt s (mkFaults (f_wreq (flt s)) (f_wres (flt s)) (f_marshal (flt s)) None)) (TReq n) Finished)
                  (THandler n) (HStart FGated arg)) in *.
  assert (T1 : tget (threads s1) (THandler n) = Some (HStart FGated arg)) by (unfold s1, setT; simpl; apply tget_tset_same).
  assert (C1 : crashed s1 = false) by exact Hc.
  eexists. simpl. rewrite S1. unfold lstep at 1. rewrite C1, T1. simpl. split; [reflexivity|].
  split; [|reflexivity].
  unfold KeepH, setT; simpl. split; [apply tget_tset_same|].
  rewrite tget_tset_other by discriminate. rewrite tget_tset_other by discriminate. apply tget_tset_same.
Qed.

Section Build.
Variables fnA fnB : nat -> fnkind.
Variables callsA callsB : list callspec.
Notation drun := (drun fnA fnB callsA callsB).

(* the five steps that add a level whose caller is A *)
Definition build_AB (d : dst) (j : nat) : list dact :=
  [DA (Env (EStart j)) 0; DA (Run (TCall j)) 0; ReqAB j;
   DB (Run (TReq (nreq (db d)))) 0; DB (Run (THandler (nreq (db d)))) 0].

Lemma extend_AB l0 d j cs :
  drun dinit l0 = Some d -> Up (da d) -> Up (db d) ->
  tget (threads (da d)) (TCall j) = None -> nth_error callsA j = Some cs -> c_closure cs = false -> fnA j = FGated ->
  exists d',
    drun d (build_AB d j) = Some d' /\
    LevelOk d' (mkLv true j (length (ents (da d))) (nreq (db d)) (c_arg cs)) /\
    dBA d' = dBA d /\ nreq (db d') = S (nreq (db d)) /\ dAB d' = dAB d ++ [j] /\ length (dAB d) = nreq (db d).
Proof.
  intros H0 HUa HUb Ht Hn Hcl Hf.
  destruct (duo_reach fnA fnB callsA callsB _ _ H0) as (HrA & HrB).
  pose proof (lno_crash_lemma _ _ _ HrA) as HcA. pose proof (lno_crash_lemma _ _ _ HrB) as HcB.
  destruct (Up_facts _ HUa) as (Hba & Hca & Hfa & _ & _).
  destruct (Up_facts _ HUb) as (_ & Hcb & Hfb & _ & HqlB).
  destruct (no_faults_callee _ Hfb) as (Hncf & _).
  destruct (start_call callsA (da d) j cs HcA Hfa Hba Hca Ht Hn Hcl) as (a2 & Ra & HK & Hrw & _).
  destruct (deliver_request callsB (db d) (fnA j) (c_arg cs) HcB HqlB Hcb Hncf) as (b1 & St1 & C1 & T1 & N1 & K1 & F1 & E1 & _).
  rewrite Hf in T1.
  destruct (start_gated_full callsB b1 (nreq (db d)) (c_arg cs) C1 T1 F1) as (b2 & Rb & HH & N2).
  assert (Hlen : length (dAB d) = nreq (db d)).
  { destruct (drun_viewAB fnA fnB callsA callsB _ _ _ H0) as (l' & Hl'). change (viewAB dinit) with pinit in Hl'.
    destruct (PInv_run fnA callsA callsB _ _ _ _ _ (PInv_init fnA callsA callsB) Hl') as (D & Q & [hR hQ hl hQd hD hra hrb]).
    simpl in hl. rewrite hl. apply (q_len _ _ hQ). }
  simpl in Ra. destruct (lstep fixed callsA (da d) (Env (EStart j)) 0) as [a1|] eqn:Sa1; [|discriminate].
  destruct (lstep fixed callsA a1 (Run (TCall j)) 0) as [a2'|] eqn:Sa2; [|discriminate]. inversion Ra; subst a2'.
  simpl in Rb. destruct (lstep fixed callsB b1 (Run (TReq (nreq (db d)))) 0) as [b1'|] eqn:Sb1; [|discriminate].
  destruct (lstep fixed callsB b1' (Run (THandler (nreq (db d)))) 0) as [b2'|] eqn:Sb2; [|discriminate]. inversion Rb; subst b2'.
  exists (mkD a2 b2 (dAB d ++ [j]) (dBA d)).
  split.
  - unfold build_AB. destruct d as [a b qab qba]; simpl in *.
    rewrite Sa1. simpl. rewrite Sa2. simpl. rewrite Hrw. rewrite St1. rewrite N1, Nat.eqb_refl. simpl.
    rewrite Sb1. simpl. rewrite Sb2. reflexivity.
  - split; [|split; [reflexivity|split; [simpl; rewrite N2; exact N1|split; [reflexivity|exact Hlen]]]].
    unfold LevelOk; simpl. split; [exact HK|]. split.
    + rewrite nth_error_app2 by lia. rewrite Hlen, Nat.sub_diag. reflexivity.
    + split; [exact HH|]. rewrite N2, N1. lia.
Qed.


(* what the five steps are for either endpoint *)
Lemma build_AB_benign d j sd : fnA j = FGated ->
  Forall (fun a => forall c, proj fnA fnB sd a c -> benign c = true) (build_AB d j).
Proof.
  intros Hf. apply Forall_forall. intros a Hin c Hp. unfold build_AB in Hin. simpl in Hin.
  destruct Hin as [<-|[<-|[<-|[<-|[<-|[]]]]]]; destruct sd; simpl in Hp;
    try contradiction; try (subst c; reflexivity); try (destruct Hp as (x & ->); simpl; rewrite Hf; reflexivity).
Qed.

Lemma build_AB_spares_caller d j sd i :
  Forall (fun a => forall c, proj fnA fnB sd a c -> c <> Run (TWaiter i) /\ c <> Env (ECancel 0%N)) (build_AB d j).
Proof.
  apply Forall_forall. intros a Hin c Hp. unfold build_AB in Hin. simpl in Hin.
  destruct Hin as [<-|[<-|[<-|[<-|[<-|[]]]]]]; destruct sd; simpl in Hp;
    try contradiction; try (subst c; split; discriminate); try (destruct Hp as (x & ->); split; discriminate).
Qed.

Lemma build_AB_spares_handler d j sd n : (sd = false -> n < nreq (db d)) ->
  Forall (fun a => forall c, proj fnA fnB sd a c -> c <> Run (THandler n)) (build_AB d j).
Proof.
  intros Hn. apply Forall_forall. intros a Hin c Hp. unfold build_AB in Hin. simpl in Hin.
  destruct Hin as [<-|[<-|[<-|[<-|[<-|[]]]]]]; destruct sd; simpl in Hp;
    try contradiction; try (subst c; try discriminate); try (destruct Hp as (x & ->); discriminate).
  intros Hq. inversion Hq. specialize (Hn eq_refl). lia.
Qed.

Lemma frame_Fresh sd l d d' j' :
  Fresh j' 0 (ep sd d) -> drun d l = Some d' ->
  Forall (fun a => forall c, proj fnA fnB sd a c -> c <> Env (EStart j')) l -> Fresh j' 0 (ep sd d').
Proof.
  intros HK Hr Hall. destruct (drun_proj fnA fnB callsA callsB sd _ _ _ Hr) as (cs & Hl & Hcs).
  eapply fresh_run; [exact HK| |exact Hl].
  eapply Forall_impl; [|exact Hcs]. intros cb (a & Hin & Hp). rewrite Forall_forall in Hall. exact (Hall a Hin _ Hp).
Qed.

Lemma build_AB_no_start d j sd j' : (sd = true -> j' <> j) ->
  Forall (fun a => forall c, proj fnA fnB sd a c -> c <> Env (EStart j')) (build_AB d j).
Proof.
  intros Hn. apply Forall_forall. intros a Hin c Hp. unfold build_AB in Hin. simpl in Hin.
  destruct Hin as [<-|[<-|[<-|[<-|[<-|[]]]]]]; destruct sd; simpl in Hp;
    try contradiction; try (subst c; try discriminate); try (destruct Hp as (x & ->); discriminate).
  intros Hq. inversion Hq. apply (Hn eq_refl). auto.
Qed.

(* an existing level survives the five steps *)
Lemma level_kept_build_AB l0 d j d' lv :
  drun dinit l0 = Some d -> drun d (build_AB d j) = Some d' ->
  dAB d' = dAB d ++ [j] -> dBA d' = dBA d -> length (dAB d) = nreq (db d) ->
  LevelOk d lv -> LevelOk d' lv.
Proof.
  intros H0 Hr EA EB Hlen (HK & Hn & HH & Hlt).
  split; [|split].
  - eapply (frame_KeepC fnA fnB callsA callsB); [exact HK|exact Hr|apply build_AB_spares_caller].
  - unfold dq in *. destruct (lv_dir lv); simpl in *.
    + rewrite EA. rewrite nth_error_app1; [exact Hn|]. rewrite Hlen. exact Hlt.
    + rewrite EB. exact Hn.
  - eapply (frame_KeepH fnA fnB callsA callsB); [exact H0|exact HH|exact Hlt|exact Hr|].
    apply build_AB_spares_handler. intros E. destruct (lv_dir lv); simpl in *; [exact Hlt|discriminate].
Qed.


(* a chain, whatever its depth and shape, is extended by one level whose caller is A *)
Lemma chain_extends_AB l0 d j cs levels :
  drun dinit l0 = Some d -> Up (da d) -> Up (db d) -> Forall (LevelOk d) levels ->
  tget (threads (da d)) (TCall j) = None -> nth_error callsA j = Some cs -> c_closure cs = false -> fnA j = FGated ->
  exists d' lv,
    drun d (build_AB d j) = Some d' /\ Up (da d') /\ Up (db d') /\
    LevelOk d' lv /\ lv_dir lv = true /\ lv_i lv = j /\ lv_arg lv = c_arg cs /\
    Forall (LevelOk d') levels /\ Forall (distinct lv) levels /\
    (forall sd j', (sd = true -> j' <> j) -> Fresh j' 0 (ep sd d) -> Fresh j' 0 (ep sd d')).
Proof.
  intros H0 HUa HUb Hok Ht Hn Hcl Hf.
  destruct (extend_AB l0 d j cs H0 HUa HUb Ht Hn Hcl Hf) as (d' & Hr & Hlv & EB & Nq & EA & Hlen).
  exists d', (mkLv true j (length (ents (da d))) (nreq (db d)) (c_arg cs)).
  split; [exact Hr|].
  split; [apply (frame_Up fnA fnB callsA callsB true _ d d' HUa Hr (build_AB_benign d j true Hf))|].
  split; [apply (frame_Up fnA fnB callsA callsB false _ d d' HUb Hr (build_AB_benign d j false Hf))|].
  split; [exact Hlv|]. split; [reflexivity|]. split; [reflexivity|]. split; [reflexivity|].
  split; [|split].
  - apply Forall_forall. intros lv' Hin. rewrite Forall_forall in Hok.
    eapply level_kept_build_AB; eauto.
  - apply Forall_forall. intros lv' Hin. rewrite Forall_forall in Hok. destruct (Hok _ Hin) as ((HC & _) & _ & _ & Hlt).
    unfold distinct; simpl. split; intros E.
    + rewrite <- E in HC. simpl in HC. intros ->. congruence.
    + rewrite <- E in Hlt. simpl in Hlt. lia.
  - intros sd j' Hne HF. eapply frame_Fresh; [exact HF|exact Hr|apply build_AB_no_start; exact Hne].
Qed.

End Build.

(* ---- the other direction by symmetry ---- *)
Definition lswap (lv : level) : level := mkLv (negb (lv_dir lv)) (lv_i lv) (lv_ent lv) (lv_n lv) (lv_arg lv).

Lemma lswap_invol lv : lswap (lswap lv) = lv.
Proof. destruct lv as [[|] i e n a]; reflexivity. Qed.

Lemma LevelOk_swap d lv : LevelOk (dswap d) (lswap lv) <-> LevelOk d lv.
Proof. destruct lv as [[|] i e n a]; destruct d; unfold LevelOk, lswap, dswap, ep, dq; simpl; tauto. Qed.

Lemma distinct_swap a b : distinct (lswap a) (lswap b) <-> distinct a b.
Proof.
  destruct a as [[|] i e n x], b as [[|] i' e' n' x']; unfold distinct, lswap; simpl; split; intros (H1 & H2); split; intros E;
    try discriminate; try (apply H1; reflexivity); try (apply H2; reflexivity).
Qed.

Lemma chain_extends_BA fnA fnB cA cB l0 d j cs levels :
  drun fnA fnB cA cB dinit l0 = Some d -> Up (da d) -> Up (db d) -> Forall (LevelOk d) levels ->
  tget (threads (db d)) (TCall j) = None -> nth_error cB j = Some cs -> c_closure cs = false -> fnB j = FGated ->
  exists l d' lv,
    length l = 5 /\ drun fnA fnB cA cB d l = Some d' /\ Up (da d') /\ Up (db d') /\
    LevelOk d' lv /\ lv_dir lv = false /\ lv_i lv = j /\ lv_arg lv = c_arg cs /\
    Forall (LevelOk d') levels /\ Forall (distinct lv) levels /\
    (forall sd j', (sd = false -> j' <> j) -> Fresh j' 0 (ep sd d) -> Fresh j' 0 (ep sd d')).
Proof.
  intros H0 HUa HUb Hok Ht Hn Hcl Hf.
  pose proof (drun_swap _ _ _ _ _ _ _ H0) as H0'. change (dswap dinit) with dinit in H0'.
  assert (Hok' : Forall (LevelOk (dswap d)) (map lswap levels)).
  { apply Forall_forall. intros lv Hin. apply in_map_iff in Hin as (lv0 & <- & Hin0).
    apply LevelOk_swap. rewrite Forall_forall in Hok. apply Hok; exact Hin0. }
  destruct (chain_extends_AB fnB fnA cB cA (map aswap l0) (dswap d) j cs (map lswap levels) H0' HUb HUa Hok' Ht Hn Hcl Hf)
    as (ds' & lv' & Hr & HUa' & HUb' & Hlv & Hd & Hi & Ha & Hold & Hdis & Hfresh).
  exists (map aswap (build_AB (dswap d) j)), (dswap ds'), (lswap lv').
  split; [reflexivity|].
  split; [pose proof (drun_swap _ _ _ _ _ _ _ Hr) as Hr'; rewrite dswap_invol in Hr'; exact Hr'|].
  split; [exact HUb'|]. split; [exact HUa'|].
  split; [apply LevelOk_swap; exact Hlv|].
  split; [unfold lswap; simpl; rewrite Hd; reflexivity|].
  split; [exact Hi|]. split; [exact Ha|].
  split; [|split].
  - apply Forall_forall. intros lv Hin. rewrite Forall_forall in Hold.
    specialize (Hold (lswap lv) (in_map lswap _ _ Hin)).
    rewrite <- (lswap_invol lv). apply LevelOk_swap. exact Hold.
  - apply Forall_forall. intros lv Hin. rewrite Forall_forall in Hdis.
    specialize (Hdis (lswap lv) (in_map lswap _ _ Hin)).
    rewrite <- (lswap_invol lv). apply distinct_swap. exact Hdis.
  - intros sd j' Hne HF. specialize (Hfresh (negb sd) j').
    destruct sd; simpl in *; apply Hfresh; auto; intros E; discriminate.
Qed.

(* either direction *)
Lemma chain_extends_lemma fnA fnB cA cB l0 d dir j cs levels :
  drun fnA fnB cA cB dinit l0 = Some d -> Up (da d) -> Up (db d) -> Forall (LevelOk d) levels ->
  tget (threads (ep dir d)) (TCall j) = None -> nth_error (if dir then cA else cB) j = Some cs -> c_closure cs = false ->
  (if dir then fnA else fnB) j = FGated ->
  exists l d' lv,
    length l = 5 /\ drun fnA fnB cA cB d l = Some d' /\ Up (da d') /\ Up (db d') /\
    LevelOk d' lv /\ lv_dir lv = dir /\ lv_i lv = j /\ lv_arg lv = c_arg cs /\
    Forall (LevelOk d') levels /\ Forall (distinct lv) levels /\
    (forall sd j', (sd = dir -> j' <> j) -> Fresh j' 0 (ep sd d) -> Fresh j' 0 (ep sd d')).
Proof.
  intros H0 HUa HUb Hok Ht Hn Hcl Hf. destruct dir; simpl in *.
  - destruct (chain_extends_AB fnA fnB cA cB l0 d j cs levels H0 HUa HUb Hok Ht Hn Hcl Hf) as (d' & lv & H).
    exists (build_AB d j), d', lv. split; [reflexivity|exact H].
  - exact (chain_extends_BA fnA fnB cA cB l0 d j cs levels H0 HUa HUb Hok Ht Hn Hcl Hf).
Qed.

(* ---- chains of every depth exist: both sides expose a function that stays inside application code and have
   calls to make; level m (counted from the outermost, 0) is call m of side A if m is even, of side B if m is odd ---- *)
Definition c0 : callspec := mkCall 1 2 false 7%N.
Definition gfn (_ : nat) : fnkind := FGated.
Definition su : list dact := [DA (Run TSetup) 0; DB (Run TSetup) 0].

Lemma nth_error_repeat' {A} (a : A) K : forall n, n < K -> nth_error (repeat a K) n = Some a.
Proof. induction K as [|K IH]; intros [|n] H; simpl; try lia; [reflexivity|apply IH; lia]. Qed.

Lemma fresh_linit j : Fresh j 0 linit.
Proof. unfold Fresh. simpl. auto. Qed.

Lemma up_after_setup K :
  exists d0, drun gfn gfn (repeat c0 K) (repeat c0 K) dinit su = Some d0 /\ Up (da d0) /\ Up (db d0) /\
             (forall sd j, Fresh j 0 (ep sd d0)).
Proof.
  set (cl := repeat c0 K).
  assert (St : exists s1, lstep fixed cl linit (Run TSetup) 0 = Some s1 /\ KeepL s1).
  { eexists. split; [reflexivity|]. split; reflexivity. }
  destruct St as (s1 & St & HL).
  assert (HU : Up s1) by (split; [eapply (H_step cl linit (Run TSetup) 0); [apply H_init|reflexivity|exact St]|exact HL]).
  assert (HF : forall j, Fresh j 0 s1).
  { intros j. eapply fresh_frame_lemma; [apply fresh_linit| |exact St]. discriminate. }
  exists (mkD s1 s1 [] []). split.
  { unfold su. cbn [Duo.drun Duo.dstep is_delivery is_res_delivery is_req_delivery orb da db dAB dBA dinit].
    fold cl. rewrite St. cbn [Duo.drun Duo.dstep is_delivery is_res_delivery is_req_delivery orb da db dAB dBA]. rewrite St. reflexivity. }
  split; [exact HU|]. split; [exact HU|]. intros [|] j; simpl; apply HF.
Qed.

Lemma chains_of_every_depth_lemma K : forall k, k <= K ->
  exists sched d levels,
    drun gfn gfn (repeat c0 K) (repeat c0 K) dinit sched = Some d /\ Up (da d) /\ Up (db d) /\
    Forall (LevelOk d) levels /\ ForallOrdPairs distinct levels /\ length levels = k /\
    (forall m lv, nth_error (rev levels) m = Some lv -> lv_dir lv = Nat.even m /\ lv_i lv = m) /\
    (forall sd j, k <= j -> Fresh j 0 (ep sd d)).
Proof.
  induction k as [|k IH]; intros Hk.
  - destruct (up_after_setup K) as (d0 & Hr & HUa & HUb & HF).
    exists su, d0, []. split; [exact Hr|]. split; [exact HUa|]. split; [exact HUb|].
    split; [constructor|]. split; [constructor|]. split; [reflexivity|].
    split; [intros m lv Hn; destruct m; discriminate|]. intros sd j _. apply HF.
  - destruct (IH ltac:(lia)) as (sched & d & levels & Hr & HUa & HUb & Hok & Hdis & Hlen & Halt & HF).
    assert (Ht : tget (threads (ep (Nat.even k) d)) (TCall k) = None) by (destruct (HF (Nat.even k) k (le_n k)) as (H1 & _); exact H1).
    assert (Hn : nth_error (if Nat.even k then repeat c0 K else repeat c0 K) k = Some c0)
      by (destruct (Nat.even k); apply nth_error_repeat'; lia).
    assert (Hfn : (if Nat.even k then gfn else gfn) k = FGated) by (destruct (Nat.even k); reflexivity).
    destruct (chain_extends_lemma gfn gfn (repeat c0 K) (repeat c0 K) sched d (Nat.even k) k c0 levels Hr HUa HUb Hok Ht Hn eq_refl Hfn)
      as (l & d' & lv & _ & Hr' & HUa' & HUb' & Hlv & Hd & Hi & _ & Hold & Hnew & Hfresh).
    exists (sched ++ l), d', (lv :: levels).
    split; [rewrite (drun_app gfn gfn (repeat c0 K) (repeat c0 K) _ _ _ _ Hr); exact Hr'|].
    split; [exact HUa'|]. split; [exact HUb'|].
    split; [constructor; [exact Hlv|exact Hold]|].
    split; [constructor; [exact Hnew|exact Hdis]|].
    split; [simpl; lia|]. split.
    + intros m lv' Hm. simpl in Hm.
      assert (Hrl : length (rev levels) = k) by (rewrite rev_length; exact Hlen).
      destruct (Nat.lt_ge_cases m k) as [Hlt|Hge].
      * rewrite nth_error_app1 in Hm by lia. apply Halt; exact Hm.
      * rewrite nth_error_app2 in Hm by lia. rewrite Hrl in Hm.
        destruct (m - k) as [|x] eqn:E; simpl in Hm; [|destruct x; discriminate].
        inversion Hm; subst lv'. assert (m = k) by lia. subst m. auto.
    + intros sd j Hj. apply Hfresh; [intros _; lia|apply HF; lia].
Qed.
