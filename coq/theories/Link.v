(* Link.v — one link endpoint of a panrpc registry as a goroutine-level transition system
   (go/pkg/rpc/registry.go: makeRPC, LinkMessage; go/pkg/utils/broadcaster.go).

   Threads are the goroutines panrpc starts for one LinkMessage call plus the application
   goroutines that call remote functions.  A thread is either parked at a yield point (a
   `verifhook.At` label in the source: it runs when the schedule picks it), blocked inside a
   blocking operation (it is woken by the step of another thread or of the environment and then
   parks at the label that follows the operation), or finished.  One step = one yield window.

   The environment (peer + application + transport) acts through [envact]: start a call, let a
   read return a frame / garbage / an error, cancel a context, arm a fault for the next
   write / marshal / unmarshal.

   Modelled here: caller stubs incl. the deferred recover path and closure registration, waiter
   goroutines, the pending-call table, response loop and publisher goroutines, request loop,
   resolver and handler goroutines (function resolution abstracted to its outcome), setErr as two
   sub-steps, the context watcher, Link's wait on the fatal slot, the set-up goroutine with the
   remotes table and the connect/disconnect hooks.  Not modelled here: nested calls made by
   handlers (Sys.v), closures' invocation path (Callee/Closure models), LinkStream's decoder
   (Stream.v). *)
From Verif Require Import Base.

(* ---- data ---- *)
Inductive err :=
| ECtx (c : N)        (* ctx.Err() of context c: context canceled *)
| EClosed             (* utils.ErrClosed *)
| EInj (n : N)        (* an error injected by the environment (transport / codec) *)
| EApp (m : N)        (* errors.New(<message m>) built from a response's err field *)
| ENoFunc | EArgCount | EBadArg | EBadFrame | EPanic.

Inductive wres :=                       (* callResponse handed from waiter to caller *)
| WResp (v : N) (e : option N)          (* genuine response: value, optional app error message *)
| WCancelled (e : err).                 (* synthetic: cancelled = true *)

Record callspec := mkCall {
  c_ctx : N;            (* context passed to the call (0 = the link context) *)
  c_nres : nat;         (* number of results of the stub: 1 = error only, 2 = value and error *)
  c_closure : bool;     (* does it pass a function argument? *)
  c_arg : N
}.

Inductive fnkind :=
| FEcho | FNotify | FFail (m : N) | FNotifyErr (m : N) | FGated | FPanic
| FUnknown | FBadArgc | FBadArg.

Inductive tname :=
| TCall (i : nat) | TWaiter (i : nat) | TPub (n : nat) | TReq (n : nat) | THandler (n : nat)
| TWatcher | TLink | TSetup | TReqLoop | TResLoop.

Inductive cont := KDone | KReturn (e : err) | KLoop.

Inductive tstate :=
(* caller i *)
| CRegistered (ent : nat)          (* @rpc.call.registered *)
| CBlocked
| CSelected (o : option wres)      (* @rpc.call.selected; None = the link-context branch *)
| CReturned (v : N) (e : option err)
(* any thread inside setErr, after Close *)
| SetErrMid (e : err) (k : cont)   (* @rpc.seterr.closed *)
(* waiter i *)
| WStart (ent : nat) | WBlocked (ent : nat) | WWoke (r : wres) | WDepositBlocked (r : wres) | WDeposited
(* publisher n *)
| PEnter (id : N) (v : N) (e : option N) | PFound (ent : nat) (v : N) (e : option N)
| PBlocked (ent : nat) (v : N) (e : option N) | PSent | PGaveUp
(* resolver / handler n *)
| QStart (f : fnkind) (arg : N) | HStart (f : fnkind) (arg : N) | HGate (arg : N)
(* watcher, Link, set-up, loops *)
| WatchBlocked | WatchWoke
| LBeforeRead | LWaiting | LReturn (e : err) | LReturned
| SStart | SWaiting | SWaited
| RLReading | QLReading
| Finished.

Inductive event :=
| EvReqWritten (i : nat) (arg : N) (closure : bool)
| EvResWritten (n : nat) (v : N) (e : option N)
| EvInvoked (n : nat) (f : fnkind) (arg : N)
| EvReturn (i : nat) (v : N) (e : option err)
| EvReport (e : err)               (* a setErr reaching the slot (the store) *)
| EvLinkReturn (e : err)
| EvHook (connect : bool) (perlink : bool)
| EvDiscard (id : N)
| EvCrash.

Record lentry := mkLE { le_parent : N; le_cancelled : bool; le_owner : nat (* ghost: the call that registered it *) }.

Record faults := mkFaults {
  f_wreq : option N; f_wres : option N; f_marshal : option N; f_unmarshal : option N
}.

Record lst := mkL {
  threads : list (tname * tstate);
  tbl : list (N * nat);        (* call id -> entry *)
  bclosed : bool;
  ents : list lentry;
  cancelled : list N;          (* cancelled contexts *)
  fatal : option err;          (* the fatal slot; None = empty *)
  closures : list nat;         (* calls whose closure is registered *)
  remotes : nat;               (* number of remotes enumerated for this link: 0 / 1 *)
  loops_done : nat;
  flt : faults;
  npub : nat; nreq : nat;
  evs : list event;            (* newest first *)
  crashed : bool
}.

Inductive envact :=
| EStart (i : nat)
| EDeliverRes (id : N) (v : N) (e : option N)
| EBadRes
| EFailReadRes (n : N)
| EDeliverReq (f : fnkind) (arg : N)
| EBadReq
| EFailReadReq (n : N)
| ECancel (c : N)
| EArm (which : nat) (n : N).     (* 0 write-request 1 write-response 2 marshal 3 unmarshal *)

Inductive choice := Run (t : tname) | Env (a : envact).

(* ---- helpers ---- *)
Definition tname_eqb (a b : tname) : bool :=
  match a, b with
  | TCall i, TCall j | TWaiter i, TWaiter j | TPub i, TPub j | TReq i, TReq j | THandler i, THandler j => Nat.eqb i j
  | TWatcher, TWatcher | TLink, TLink | TSetup, TSetup | TReqLoop, TReqLoop | TResLoop, TResLoop => true
  | _, _ => false
  end.

Fixpoint tget (l : list (tname * tstate)) (t : tname) : option tstate :=
  match l with
  | [] => None
  | (t', st) :: r => if tname_eqb t t' then Some st else tget r t
  end.

Fixpoint tset (l : list (tname * tstate)) (t : tname) (st : tstate) : list (tname * tstate) :=
  match l with
  | [] => [(t, st)]
  | (t', st') :: r => if tname_eqb t t' then (t', st) :: r else (t', st') :: tset r t st
  end.

Definition dummy_le : lentry := mkLE 0%N true 0.
Definition le_done (en : list lentry) (cn : list N) (e : nat) : bool :=
  le_cancelled (nth e en dummy_le) || memN (le_parent (nth e en dummy_le)) cn.

Definition no_faults : faults := mkFaults None None None None.

Definition init_threads : list (tname * tstate) :=
  [(TLink, LBeforeRead); (TWatcher, WatchBlocked); (TSetup, SStart)].

Definition linit : lst :=
  mkL init_threads [] false [] [] None [] 0 0 no_faults 0 0 [] false.

(* field updates *)
Definition with_threads (s : lst) (l : list (tname * tstate)) : lst :=
  mkL l (tbl s) (bclosed s) (ents s) (cancelled s) (fatal s) (closures s) (remotes s)
      (loops_done s) (flt s) (npub s) (nreq s) (evs s) (crashed s).
Definition with_ev (s : lst) (e : event) : lst :=
  mkL (threads s) (tbl s) (bclosed s) (ents s) (cancelled s) (fatal s) (closures s) (remotes s)
      (loops_done s) (flt s) (npub s) (nreq s) (e :: evs s) (crashed s).
Definition with_flt (s : lst) (f : faults) : lst :=
  mkL (threads s) (tbl s) (bclosed s) (ents s) (cancelled s) (fatal s) (closures s) (remotes s)
      (loops_done s) f (npub s) (nreq s) (evs s) (crashed s).
Definition with_closures (s : lst) (c : list nat) : lst :=
  mkL (threads s) (tbl s) (bclosed s) (ents s) (cancelled s) (fatal s) c (remotes s)
      (loops_done s) (flt s) (npub s) (nreq s) (evs s) (crashed s).
Definition setT (s : lst) (t : tname) (st : tstate) : lst := with_threads s (tset (threads s) t st).

Definition remove_nat (i : nat) (l : list nat) : list nat := filter (fun j => negb (Nat.eqb i j)) l.

(* ---- wake-ups: threads blocked in a select whose non-rendezvous case became ready ---- *)
Definition ctx_or_closed (s : lst) (c : N) : err :=
  if memN c (cancelled s) then ECtx c else EClosed.

Definition wake1 (calls : list callspec) (s : lst) (p : tname * tstate) : tname * tstate :=
  match p with
  | (TWaiter i, WBlocked ent) =>
      let c := c_ctx (nth i calls (mkCall 0 1 false 0)) in
      if memN c (cancelled s) then (TWaiter i, WWoke (WCancelled (ECtx c)))
      else if le_done (ents s) (cancelled s) ent then (TWaiter i, WWoke (WCancelled EClosed))
      else p
  | (TPub n, PBlocked ent v e) =>
      if le_done (ents s) (cancelled s) ent then (TPub n, PGaveUp) else p
  | (TCall i, CBlocked) =>
      if memN 0%N (cancelled s) then (TCall i, CSelected None) else p
  | (TWatcher, WatchBlocked) =>
      if memN 0%N (cancelled s) then (TWatcher, WatchWoke) else p
  | _ => p
  end.

Definition wake (calls : list callspec) (s : lst) : lst :=
  with_threads s (map (wake1 calls s) (threads s)).

(* responseResolver.Close *)
Definition do_close (s : lst) : lst :=
  mkL (threads s) [] true (map (fun en => mkLE (le_parent en) true (le_owner en)) (ents s)) (cancelled s)
      (fatal s) (closures s) (remotes s) (loops_done s) (flt s) (npub s) (nreq s) (evs s) (crashed s).

(* responseResolver.Free *)
Definition do_free (s : lst) (id : N) : lst :=
  match lookupN id (tbl s) with
  | None => s
  | Some e =>
      mkL (threads s) (removeN id (tbl s)) (bclosed s)
          (match nth_error (ents s) e with
           | Some en => upd (ents s) e (mkLE (le_parent en) true (le_owner en))
           | None => ents s end)
          (cancelled s) (fatal s) (closures s) (remotes s) (loops_done s) (flt s)
          (npub s) (nreq s) (evs s) (crashed s)
  end.

(* the store + broadcast half of setErr *)
Definition do_store (v : variant) (s : lst) (e : err) : lst :=
  let f := if overwrite_fatal v then e
           else match fatal s with Some e0 => e0 | None => e end in
  let s1 := mkL (threads s) (tbl s) (bclosed s) (ents s) (cancelled s) (Some f) (closures s) (remotes s)
                (loops_done s) (flt s) (npub s) (nreq s) (EvReport e :: evs s) (crashed s) in
  (* Broadcast: Link, if waiting, wakes and reads the slot *)
  match tget (threads s1) TLink with
  | Some LWaiting => setT s1 TLink (LReturn f)
  | _ => s1
  end.

(* first half of setErr: Close, wake, park at rpc.seterr.closed *)
Definition begin_seterr (calls : list callspec) (s : lst) (t : tname) (e : err) (k : cont) : lst :=
  wake calls (setT (do_close s) t (SetErrMid e k)).

(* a loop goroutine has exited: wg.Done; the set-up goroutine wakes when both are gone *)
Definition loop_done (s : lst) : lst :=
  let n := S (loops_done s) in
  let s1 := mkL (threads s) (tbl s) (bclosed s) (ents s) (cancelled s) (fatal s) (closures s)
                (remotes s) n (flt s) (npub s) (nreq s) (evs s) (crashed s) in
  if Nat.leb 2 n then
    match tget (threads s1) TSetup with
    | Some SWaiting => setT s1 TSetup SWaited
    | _ => s1
    end
  else s1.

Definition take_fault (s : lst) (which : nat) : option N * lst :=
  let f := flt s in
  match which with
  | 0 => (f_wreq f, with_flt s (mkFaults None (f_wres f) (f_marshal f) (f_unmarshal f)))
  | 1 => (f_wres f, with_flt s (mkFaults (f_wreq f) None (f_marshal f) (f_unmarshal f)))
  | 2 => (f_marshal f, with_flt s (mkFaults (f_wreq f) (f_wres f) None (f_unmarshal f)))
  | _ => (f_unmarshal f, with_flt s (mkFaults (f_wreq f) (f_wres f) (f_marshal f) None))
  end.

Definition only0 (b : nat) (r : option lst) : option lst := match b with O => r | _ => None end.

Definition zero : N := 0%N.

(* the deferred recover path of makeRPC: closures released, setErr(e), results fixed up *)
Definition caller_panic (calls : list callspec) (s : lst) (i : nat) (e : err) : lst :=
  begin_seterr calls (with_closures s (remove_nat i (closures s))) (TCall i) e (KReturn e).

Definition caller_return (s : lst) (i : nat) (v : N) (e : option err) : lst :=
  with_ev (setT (with_closures s (remove_nat i (closures s))) (TCall i) (CReturned v e)) (EvReturn i v e).

(* a reader loop comes back to its read: readXCtx checks the link context first *)
Definition loop_again (calls : list callspec) (s : lst) (t : tname) (reading : tstate) : lst :=
  if memN 0%N (cancelled s) then begin_seterr calls s t (ECtx 0%N) KLoop
  else setT s t reading.

Definition waiters_on (ent : nat) (l : list (tname * tstate)) : list nat :=
  flat_map (fun p => match p with
                     | (TWaiter i, WBlocked e') => if Nat.eqb ent e' then [i] else []
                     | _ => [] end) l.

Definition pubs_on (ent : nat) (l : list (tname * tstate)) : list nat :=
  flat_map (fun p => match p with
                     | (TPub n, PBlocked e' _ _) => if Nat.eqb ent e' then [n] else []
                     | _ => [] end) l.

Inductive pcase := PHand (i : nat) | PDone.
Inductive wcase := WHand (n : nat) | WCtx | WEnt.

Definition resp_of (v : N) (e : option N) : wres := WResp v e.

(* what a handler of kind f returns: (number of results, value, optional error message) *)
Definition handler_result (f : fnkind) (arg : N) : option (N * option N) :=
  match f with
  | FEcho | FGated => Some (arg, None)
  | FNotify => Some (zero, None)
  | FFail m => Some (arg, Some m)
  | FNotifyErr m => Some (zero, Some m)
  | _ => None
  end.

(* handler epilogue: marshal the result(s), build the response, write it *)
Definition handler_respond (calls : list callspec) (s : lst) (n : nat) (v : N) (e : option N) : lst :=
  match take_fault s 2 with
  | (Some x, s1) => begin_seterr calls s1 (THandler n) (EInj x) KDone
  | (None, s1) =>
      if memN 0%N (cancelled s1) then begin_seterr calls s1 (THandler n) (ECtx 0%N) KDone
      else match take_fault s1 1 with
           | (Some x, s2) => begin_seterr calls s2 (THandler n) (EInj x) KDone
           | (None, s2) => with_ev (setT s2 (THandler n) Finished) (EvResWritten n v e)
           end
  end.

(* ---- the step function, split by who moves ---- *)
Definition step_env (v : variant) (calls : list callspec) (s : lst) (a : envact) : option lst :=
    match a with
    | EStart i =>
        match tget (threads s) (TCall i), nth_error calls i with
        | None, Some cs =>
            (* marshal the arguments (and register the closure), marshal the request, Receive *)
            let s0 := if c_closure cs then with_closures s (i :: closures s) else s in
            match take_fault s0 2 with
            | (Some x, s1) => Some (caller_panic calls s1 i (EInj x))
            | (None, s1) =>
                if bclosed s1 then
                  (* the link has already ended: the call fails at once; the tree as found also reported
                     this consequential ErrClosed through setErr (D8) *)
                  Some (if report_closed v then caller_panic calls s1 i EClosed
                        else caller_return s1 i zero (Some EClosed))
                else
                  let e := length (ents s1) in
                  Some (mkL (tset (threads s1) (TCall i) (CRegistered e)) ((N.of_nat i, e) :: tbl s1) (bclosed s1)
                            (ents s1 ++ [mkLE (c_ctx cs) false i]) (cancelled s1) (fatal s1)
                            (closures s1) (remotes s1) (loops_done s1) (flt s1) (npub s1) (nreq s1) (evs s1) (crashed s1))
            end
        | _, _ => None
        end
    | EDeliverRes id x e =>
        match tget (threads s) TResLoop with
        | Some RLReading =>
            match take_fault s 3 with
            | (Some y, s1) => Some (begin_seterr calls s1 TResLoop (EInj y) KLoop)
            | (None, s1) =>
                let n := npub s1 in
                let s2 := mkL (tset (threads s1) (TPub n) (PEnter id x e)) (tbl s1) (bclosed s1) (ents s1) (cancelled s1)
                              (fatal s1) (closures s1) (remotes s1) (loops_done s1) (flt s1)
                              (S n) (nreq s1) (evs s1) (crashed s1) in
                Some (loop_again calls s2 TResLoop RLReading)
            end
        | _ => None
        end
    | EBadRes =>
        match tget (threads s) TResLoop with
        | Some RLReading =>
            match take_fault s 3 with
            | (Some y, s1) => Some (begin_seterr calls s1 TResLoop (EInj y) KLoop)
            | (None, s1) => Some (begin_seterr calls s1 TResLoop EBadFrame KLoop)
            end
        | _ => None
        end
    | EFailReadRes n =>
        match tget (threads s) TResLoop with
        | Some RLReading => Some (begin_seterr calls s TResLoop (EInj n) KLoop)
        | _ => None
        end
    | EDeliverReq f arg =>
        match tget (threads s) TReqLoop with
        | Some QLReading =>
            match take_fault s 3 with
            | (Some y, s1) => Some (begin_seterr calls s1 TReqLoop (EInj y) KLoop)
            | (None, s1) =>
                let n := nreq s1 in
                let s2 := mkL (tset (threads s1) (TReq n) (QStart f arg)) (tbl s1) (bclosed s1) (ents s1) (cancelled s1)
                              (fatal s1) (closures s1) (remotes s1) (loops_done s1) (flt s1)
                              (npub s1) (S n) (evs s1) (crashed s1) in
                Some (loop_again calls s2 TReqLoop QLReading)
            end
        | _ => None
        end
    | EBadReq =>
        match tget (threads s) TReqLoop with
        | Some QLReading =>
            match take_fault s 3 with
            | (Some y, s1) => Some (begin_seterr calls s1 TReqLoop (EInj y) KLoop)
            | (None, s1) => Some (begin_seterr calls s1 TReqLoop EBadFrame KLoop)
            end
        | _ => None
        end
    | EFailReadReq n =>
        match tget (threads s) TReqLoop with
        | Some QLReading => Some (begin_seterr calls s TReqLoop (EInj n) KLoop)
        | _ => None
        end
    | ECancel c =>
        if memN c (cancelled s) then None
        else Some (wake calls (mkL (threads s) (tbl s) (bclosed s) (ents s) (c :: cancelled s) (fatal s)
                                   (closures s) (remotes s) (loops_done s) (flt s) (npub s) (nreq s) (evs s) (crashed s)))
    | EArm which n =>
        let f := flt s in
        Some (with_flt s (match which with
                          | 0 => mkFaults (Some n) (f_wres f) (f_marshal f) (f_unmarshal f)
                          | 1 => mkFaults (f_wreq f) (Some n) (f_marshal f) (f_unmarshal f)
                          | 2 => mkFaults (f_wreq f) (f_wres f) (Some n) (f_unmarshal f)
                          | _ => mkFaults (f_wreq f) (f_wres f) (f_marshal f) (Some n)
                          end))
    end.

Definition dflt_call : callspec := mkCall 0 1 false 0.

Definition step_caller (calls : list callspec) (s : lst) (i : nat) (st : tstate) : option lst :=
  let cs := nth i calls dflt_call in
  match st with
  | CRegistered ent =>
      let s0 := setT s (TWaiter i) (WStart ent) in           (* go waiter *)
      if memN 0%N (cancelled s0) then Some (caller_panic calls s0 i (ECtx 0%N))   (* writeRequestCtx *)
      else match take_fault s0 0 with
           | (Some x, s1) => Some (caller_panic calls s1 i (EInj x))
           | (None, s1) =>
               Some (with_ev (setT s1 (TCall i) CBlocked) (EvReqWritten i (c_arg cs) (c_closure cs)))
           end
  | CSelected None => Some (caller_panic calls s i (ECtx 0%N))
  | CSelected (Some (WCancelled e)) => Some (caller_return s i zero (Some e))
  | CSelected (Some (WResp x e)) =>
      if Nat.eqb (c_nres cs) 1 then Some (caller_return s i zero (option_map EApp e))
      else match take_fault s 3 with
           | (Some y, s1) => Some (caller_panic calls s1 i (EInj y))
           | (None, s1) => Some (caller_return s1 i x (option_map EApp e))
           end
  | _ => None
  end.

(* second half of setErr: store + broadcast, then what the thread does next *)
Definition step_seterr (v : variant) (s : lst) (t : tname) (e : err) (k : cont) : option lst :=
  if tname_eqb t TLink then None else      (* the goroutine calling Link never calls setErr *)
  let s1 := do_store v s e in
  match k, t with
  | KReturn e', TCall i =>
      Some (with_ev (setT s1 t (CReturned zero (Some e'))) (EvReturn i zero (Some e')))
  | KLoop, _ => Some (loop_done (setT s1 t Finished))
  | _, _ => Some (setT s1 t Finished)
  end.

Definition step_waiter (v : variant) (calls : list callspec) (s : lst) (i : nat) (st : tstate) (b : nat) : option lst :=
  let cs := nth i calls dflt_call in
  let t := TWaiter i in
  match st with
  | WStart ent =>
      let cases := map WHand (pubs_on ent (threads s))
                   ++ (if memN (c_ctx cs) (cancelled s) then [WCtx] else [])
                   ++ (if le_done (ents s) (cancelled s) ent then [WEnt] else []) in
      match cases with
      | [] => only0 b (Some (setT s t (WBlocked ent)))
      | _ =>
          match nth_error cases b with
          | None => None
          | Some (WHand n) =>
              match tget (threads s) (TPub n) with
              | Some (PBlocked ent' x e) =>
                  if Nat.eqb ent ent' then Some (setT (setT s (TPub n) PSent) t (WWoke (WResp x e))) else None
              | _ => None
              end
          | Some WCtx => Some (setT s t (WWoke (WCancelled (ECtx (c_ctx cs)))))
          | Some WEnt => Some (setT s t (WWoke (WCancelled (ctx_or_closed s (c_ctx cs)))))
          end
      end
  | WWoke r =>
      only0 b
      (match tget (threads s) (TCall i) with
       | Some CBlocked => Some (setT (setT s (TCall i) (CSelected (Some r))) t WDeposited)
       | _ => if res_unbuffered v then Some (setT s t (WDepositBlocked r))
              else Some (setT s t WDeposited)
       end)
  | WDeposited => only0 b (Some (wake calls (setT (do_free s (N.of_nat i)) t Finished)))
  | _ => None
  end.

Definition step_pub (s : lst) (n : nat) (st : tstate) (b : nat) : option lst :=
  let t := TPub n in
  match st with
  | PEnter id x e =>
      only0 b
      (if bclosed s then Some (with_ev (setT s t Finished) (EvDiscard id))
       else match lookupN id (tbl s) with
            | None => Some (with_ev (setT s t Finished) (EvDiscard id))
            | Some ent => Some (setT s t (PFound ent x e))
            end)
  | PFound ent x e =>
      let cases := map PHand (waiters_on ent (threads s))
                   ++ (if le_done (ents s) (cancelled s) ent then [PDone] else []) in
      match cases with
      | [] => only0 b (Some (setT s t (PBlocked ent x e)))
      | _ =>
          match nth_error cases b with
          | None => None
          | Some (PHand i) =>
              match tget (threads s) (TWaiter i) with
              | Some (WBlocked ent') =>
                  if Nat.eqb ent ent' then Some (setT (setT s (TWaiter i) (WWoke (WResp x e))) t PSent) else None
              | _ => None
              end
          | Some PDone => Some (setT s t PGaveUp)
          end
      end
  | PSent => only0 b (Some (setT s t Finished))
  | PGaveUp => only0 b (Some (setT s t Finished))
  | _ => None
  end.

Definition step_callee (calls : list callspec) (s : lst) (t : tname) (n : nat) (st : tstate) : option lst :=
  match t, st with
  | TReq _, QStart f arg =>
      match f with
      | FUnknown => Some (begin_seterr calls s t ENoFunc KDone)
      | FBadArgc => Some (begin_seterr calls s t EArgCount KDone)
      | FBadArg =>
          match take_fault s 3 with
          | (Some y, s1) => Some (begin_seterr calls s1 t (EInj y) KDone)
          | (None, s1) => Some (begin_seterr calls s1 t EBadArg KDone)
          end
      | _ =>
          match take_fault s 3 with         (* decoding the argument *)
          | (Some y, s1) => Some (begin_seterr calls s1 t (EInj y) KDone)
          | (None, s1) => Some (setT (setT s1 t Finished) (THandler n) (HStart f arg))
          end
      end
  | THandler _, HStart f arg =>
      let s1 := with_ev s (EvInvoked n f arg) in
      match f with
      | FPanic => Some (begin_seterr calls s1 t EPanic KDone)
      | FGated => Some (setT s1 t (HGate arg))
      | _ => match handler_result f arg with
             | Some (x, e) => Some (handler_respond calls s1 n x e)
             | None => None
             end
      end
  | THandler _, HGate arg => Some (handler_respond calls s n arg None)
  | _, _ => None
  end.

Definition step_infra (v : variant) (calls : list callspec) (s : lst) (t : tname) (st : tstate) : option lst :=
  match t, st with
  | TWatcher, WatchWoke => Some (begin_seterr calls s t (ECtx 0%N) KDone)
  | TLink, LBeforeRead =>
      match fatal s with
      | Some e => Some (setT s t (LReturn e))
      | None => Some (setT s t LWaiting)
      end
  | TLink, LReturn e => Some (with_ev (setT s t LReturned) (EvLinkReturn e))
  | TSetup, SStart =>
      let s1 := mkL (threads s) (tbl s) (bclosed s) (ents s) (cancelled s) (fatal s) (closures s)
                    1 (loops_done s) (flt s) (npub s) (nreq s)
                    ((if no_link_hooks v then [] else [EvHook true true]) ++ EvHook true false :: evs s) (crashed s) in
      let s2 := setT s1 t SWaiting in
      let s3 := loop_again calls s2 TReqLoop QLReading in
      Some (loop_again calls s3 TResLoop RLReading)
  | TSetup, SWaited =>
      Some (mkL (tset (threads s) t Finished) (tbl s) (bclosed s) (ents s) (cancelled s) (fatal s)
                (closures s) 0 (loops_done s) (flt s) (npub s) (nreq s)
                ((if no_link_hooks v then [] else [EvHook false true]) ++ EvHook false false :: evs s) (crashed s))
  | _, _ => None
  end.

Definition lstep (v : variant) (calls : list callspec) (s : lst) (c : choice) (b : nat) : option lst :=
  if crashed s then None else
  match c with
  | Env a => only0 b (step_env v calls s a)
  | Run t =>
    match tget (threads s) t with
    | None => None
    | Some st =>
      match st with
      | SetErrMid e k => only0 b (step_seterr v s t e k)
      | _ =>
        match t with
        | TCall i => only0 b (step_caller calls s i st)
        | TWaiter i => step_waiter v calls s i st b
        | TPub n => step_pub s n st b
        | TReq n | THandler n => only0 b (step_callee calls s t n st)
        | _ => only0 b (step_infra v calls s t st)
        end
      end
    end
  end.

Fixpoint lrun (v : variant) (calls : list callspec) (s : lst) (cs : list (choice * nat)) : option lst :=
  match cs with
  | [] => Some s
  | (c, b) :: r => match lstep v calls s c b with Some s' => lrun v calls s' r | None => None end
  end.

Definition lreachable (v : variant) (calls : list callspec) (s : lst) : Prop :=
  exists cs, lrun v calls linit cs = Some s.

(* ---- observation ---- *)
Inductive lstatus := LParked (label : nat) | LBlocked | LDone.
(* labels: 1 rpc.call.registered 2 rpc.call.selected 3 rpc.seterr.closed 4 rpc.waiter.start
   5 rpc.waiter.woke 6 rpc.waiter.deposited 7 bc.publish.enter 8 bc.publish.found 9 bc.publish.sent
   10 bc.publish.gaveup 11 rpc.req.start 12 rpc.handler.start 13 handler.gate 14 rpc.watcher.woke
   15 rpc.link.beforeread 16 rpc.link.return 17 rpc.setup.start 18 rpc.setup.waited *)
Definition status_of (st : tstate) : lstatus :=
  match st with
  | CRegistered _ => LParked 1 | CSelected _ => LParked 2 | SetErrMid _ _ => LParked 3
  | WStart _ => LParked 4 | WWoke _ => LParked 5 | WDeposited => LParked 6
  | PEnter _ _ _ => LParked 7 | PFound _ _ _ => LParked 8 | PSent => LParked 9 | PGaveUp => LParked 10
  | QStart _ _ => LParked 11 | HStart _ _ => LParked 12 | HGate _ => LParked 13
  | WatchWoke => LParked 14 | LBeforeRead => LParked 15 | LReturn _ => LParked 16
  | SStart => LParked 17 | SWaited => LParked 18
  | CBlocked | WBlocked _ | WDepositBlocked _ | PBlocked _ _ _ | WatchBlocked | LWaiting | SWaiting
  | RLReading | QLReading => LBlocked
  | CReturned _ _ | LReturned | Finished => LDone
  end.

Record lobs := mkObs {
  o_threads : list (tname * lstatus);
  o_events : list event;       (* all events so far, oldest first *)
  o_pending : nat; o_bclosed : bool; o_closures : nat; o_remotes : nat; o_crashed : bool
}.

Definition lobserve (s : lst) : lobs :=
  mkObs (map (fun p => (fst p, status_of (snd p))) (threads s)) (rev (evs s))
        (length (tbl s)) (bclosed s) (length (closures s)) (remotes s) (crashed s).
