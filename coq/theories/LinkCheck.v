(* LinkCheck.v — executable correspondence checker for Link.v. *)
From Verif Require Import Base Link.

Definition errclass (e : err) : nat :=
  match e with
  | ECtx _ => 1 | EClosed => 2 | ENoFunc => 3 | EArgCount => 4 | EBadArg => 5 | EBadFrame => 6 | EPanic => 7
  | EInj n => 10 + N.to_nat n | EApp m => 100 + N.to_nat m
  end.
Definition errclass_opt (e : option err) : nat := match e with None => 0 | Some x => errclass x end.
Definition msg_opt (e : option N) : nat := match e with None => 0 | Some m => N.to_nat m end.
Definition fcode (f : fnkind) : nat :=
  match f with FEcho => 1 | FNotify => 2 | FFail _ => 3 | FNotifyErr _ => 4 | FGated => 5 | FPanic => 6
             | FUnknown => 7 | FBadArgc => 8 | FBadArg => 9 end.

(* observable projection of the ghost events *)
Definition oev := (nat * nat * N * nat)%type.
Definition ev_obs (e : event) : list oev :=
  match e with
  | EvReqWritten i arg cl => [(1, i, arg, if cl then 1 else 0)]
  | EvResWritten n x m => [(2, n, x, msg_opt m)]
  | EvInvoked n f arg => [(3, n, arg, fcode f)]
  | EvReturn i x e => [(4, i, x, errclass_opt e)]
  | EvReport e => [(5, 0, 0%N, errclass e)]
  | EvLinkReturn e => [(6, 0, 0%N, errclass e)]
  | EvHook c p => [(7, if c then 1 else 0, 0%N, if p then 1 else 0)]
  | EvDiscard _ => []
  | EvCrash => [(9, 0, 0%N, 0)]
  end.

Definition oev_eqb (a b : oev) : bool :=
  match a, b with (a1, a2, a3, a4), (b1, b2, b3, b4) => Nat.eqb a1 b1 && Nat.eqb a2 b2 && N.eqb a3 b3 && Nat.eqb a4 b4 end.

Definition lstatus_eqb (a b : lstatus) : bool :=
  match a, b with
  | LParked x, LParked y => Nat.eqb x y
  | LBlocked, LBlocked | LDone, LDone => true
  | _, _ => false
  end.

Fixpoint list_eqb {A} (eqb : A -> A -> bool) (l1 l2 : list A) : bool :=
  match l1, l2 with
  | [], [] => true
  | x :: t1, y :: t2 => eqb x y && list_eqb eqb t1 t2
  | _, _ => false
  end.

Record oobs := mkOO {
  oo_threads : list (tname * lstatus);
  oo_events : list oev;
  oo_pending : nat; oo_bclosed : bool; oo_closures : nat; oo_remotes : nat
}.

Fixpoint status_lookup (l : list (tname * lstatus)) (t : tname) : option lstatus :=
  match l with
  | [] => None
  | (t', st) :: r => if tname_eqb t t' then Some st else status_lookup r t
  end.

Definition threads_match (model observed : list (tname * lstatus)) : bool :=
  Nat.eqb (length model) (length observed) &&
  forallb (fun p => match status_lookup model (fst p) with
                    | Some st => lstatus_eqb st (snd p)
                    | None => false end) observed.

Definition obs_match (s : lst) (o : oobs) : bool :=
  let m := lobserve s in
  threads_match (o_threads m) (oo_threads o) &&
  list_eqb oev_eqb (flat_map ev_obs (o_events m)) (oo_events o) &&
  Nat.eqb (o_pending m) (oo_pending o) && Bool.eqb (o_bclosed m) (oo_bclosed o) &&
  Nat.eqb (o_closures m) (oo_closures o) && Nat.eqb (o_remotes m) (oo_remotes o).

Definition lsuccessors (v : variant) (calls : list callspec) (s : lst) (c : choice) (o : oobs) : list lst :=
  flat_map (fun b => match lstep v calls s c b with
                     | Some s' => if obs_match s' o then [s'] else []
                     | None => [] end)
           (seq 0 (length (threads s) + 3)).

Fixpoint lconsistent_from (v : variant) (calls : list callspec) (states : list lst)
         (tr : list (choice * oobs)) (k : nat) : option nat :=
  match tr with
  | [] => None
  | (c, o) :: rest =>
      match flat_map (fun s => lsuccessors v calls s c o) states with
      | [] => Some k
      | states' => lconsistent_from v calls states' rest (S k)
      end
  end.

Definition lconsistent (v : variant) (calls : list callspec) (tr : list (choice * oobs)) : option nat :=
  lconsistent_from v calls [linit] tr 0.

Definition lmismatches (v : variant) (cases : list (list callspec * list (choice * oobs))) : list (nat * nat) :=
  let fix go (i : nat) (l : list (list callspec * list (choice * oobs))) :=
    match l with
    | [] => []
    | (p, tr) :: rest =>
        match lconsistent v p tr with
        | None => go (S i) rest
        | Some k => (i, k) :: go (S i) rest
        end
    end in go 0 cases.

(* what the model predicts at a mismatching step (for diagnostics) *)
Definition lpredict (v : variant) (calls : list callspec) (tr : list (choice * oobs)) (k : nat)
  : list (list (tname * lstatus) * list oev * (nat * bool * nat * nat)) :=
  let fix go (states : list lst) (tr : list (choice * oobs)) (k : nat) :=
    match tr, k with
    | (c, o) :: _, O =>
        flat_map (fun s => flat_map (fun b => match lstep v calls s c b with
                                              | Some s' => let m := lobserve s' in
                                                  [(o_threads m, flat_map ev_obs (o_events m),
                                                    (o_pending m, o_bclosed m, o_closures m, o_remotes m))]
                                              | None => [] end) (seq 0 (length (threads s) + 3))) states
    | (c, o) :: rest, S k' => go (flat_map (fun s => lsuccessors v calls s c o) states) rest k'
    | [], _ => []
    end in go [linit] tr k.
