(* LinkChain.v — a caller that waits for its response with its waiter goroutine not yet run (the state the
   frame lemma of LinkFrame.v carries across everything else) is completed by the response frame and its
   own goroutines, whatever the waiter finds when it finally runs: nothing (it blocks, then the response
   completes the call), an earlier duplicate of the response already waiting to be handed over, its call
   context cancelled, or its table entry released. *)
From Verif Require Import Base Link LinkProofs LinkInv16 LinkInvB LinkInvK LinkProgress LinkNames LinkFrame.

Definition completes_own (s : lst) (i : nat) (x : N) (e : option N) (c : choice * nat) : Prop :=
  fst c = Env (EDeliverRes (N.of_nat i) x e) \/ fst c = Run (TPub (npub s)) \/
  fst c = Run (TWaiter i) \/ fst c = Run (TCall i).

Lemma waiting_caller_completes_lemma calls s i ent x e :
  lreachable fixed calls s -> bclosed s = false ->
  tget (threads s) TResLoop = Some RLReading -> memN 0%N (cancelled s) = false -> f_unmarshal (flt s) = None ->
  tget (threads s) (TCall i) = Some CBlocked -> tget (threads s) (TWaiter i) = Some (WStart ent) ->
  exists cs s' v er,
    length cs <= 7 /\ Forall (completes_own s i x e) cs /\ lrun fixed calls s cs = Some s' /\
    tget (threads s') (TCall i) = Some (CReturned v er).
Proof.
  intros Hreach Hb Hr Hc0 Hf Hcall Hw.
  pose proof (lno_crash_lemma _ _ _ Hreach) as Hc.
  pose proof (ND_reachable _ _ Hreach) as Hnd.
  destruct (pubs_on ent (threads s)) as [|n ps] eqn:Ep.
  - destruct (le_done (ents s) (cancelled s) ent) eqn:Ed;
      [|destruct (memN (c_ctx (nth i calls dflt_call)) (cancelled s)) eqn:Ec].
    + (* the entry is gone: the waiter does not block *)
      destruct (waiter_start_does_not_block calls s i ent Hc Hw) as (b & e0 & St); [left; exact Ed|].
      set (s1 := setT s (TWaiter i) (WWoke (WCancelled e0))) in *.
      assert (Hw1 : tget (threads s1) (TWaiter i) = Some (WWoke (WCancelled e0))) by (apply tget_tset_same).
      assert (Hc1 : tget (threads s1) (TCall i) = Some CBlocked) by (unfold s1, setT; simpl; rewrite tget_tset_other by discriminate; exact Hcall).
      destruct (waiter_woke_then_returns calls s1 i _ Hc Hw1 Hc1) as (cs & s' & v & e' & Hl & Ho & Hrun & Hret & _).
      exists ((Run (TWaiter i), b) :: cs), s', v, e'.
      split; [simpl; lia|]. split.
      * apply Forall_cons; [unfold completes_own; simpl; auto|].
        eapply Forall_impl; [|exact Ho]. intros c [Hx|Hx]; unfold completes_own; auto.
      * split; [simpl; rewrite St; exact Hrun|exact Hret].
    + (* the call's context is cancelled *)
      destruct (waiter_start_does_not_block calls s i ent Hc Hw) as (b & e0 & St); [right; exact Ec|].
      set (s1 := setT s (TWaiter i) (WWoke (WCancelled e0))) in *.
      assert (Hw1 : tget (threads s1) (TWaiter i) = Some (WWoke (WCancelled e0))) by (apply tget_tset_same).
      assert (Hc1 : tget (threads s1) (TCall i) = Some CBlocked) by (unfold s1, setT; simpl; rewrite tget_tset_other by discriminate; exact Hcall).
      destruct (waiter_woke_then_returns calls s1 i _ Hc Hw1 Hc1) as (cs & s' & v & e' & Hl & Ho & Hrun & Hret & _).
      exists ((Run (TWaiter i), b) :: cs), s', v, e'.
      split; [simpl; lia|]. split.
      * apply Forall_cons; [unfold completes_own; simpl; auto|].
        eapply Forall_impl; [|exact Ho]. intros c [Hx|Hx]; unfold completes_own; auto.
      * split; [simpl; rewrite St; exact Hrun|exact Hret].
    + (* nothing is ready: the waiter blocks, then the response completes the call *)
      set (s1 := setT s (TWaiter i) (WBlocked ent)).
      assert (St : lstep fixed calls s (Run (TWaiter i)) 0 = Some s1).
      { unfold lstep. rewrite Hc, Hw. simpl. rewrite Ep, Ec, Ed. reflexivity. }
      assert (Hreach1 : lreachable fixed calls s1) by (eapply lreachable_step; eauto).
      assert (Hw1 : tget (threads s1) (TWaiter i) = Some (WBlocked ent)) by (apply tget_tset_same).
      assert (Hc1 : tget (threads s1) (TCall i) = Some CBlocked) by (unfold s1, setT; simpl; rewrite tget_tset_other by discriminate; exact Hcall).
      assert (Hr1 : tget (threads s1) TResLoop = Some RLReading) by (unfold s1, setT; simpl; rewrite tget_tset_other by discriminate; exact Hr).
      destruct (response_completes_call_lemma calls s1 i ent x e Hreach1 Hb Hr1 Hc0 Hf Hc1 Hw1)
        as (cs & s' & v & er & Hl & Ho & Hrun & Hret & _).
      exists ((Run (TWaiter i), 0) :: cs), s', v, er.
      split; [simpl; lia|]. split.
      * apply Forall_cons; [unfold completes_own; simpl; auto|].
        eapply Forall_impl; [|exact Ho]. intros c Hx. unfold completes_own. exact Hx.
      * split; [simpl; rewrite St; exact Hrun|exact Hret].
  - (* an earlier copy of the response is waiting to be handed over: the waiter takes it *)
    destruct (pubs_on_tget (threads s) ent n Hnd) as (x' & e' & Hp); [rewrite Ep; left; reflexivity|].
    set (s1 := setT (setT s (TPub n) PSent) (TWaiter i) (WWoke (WResp x' e'))).
    assert (St : lstep fixed calls s (Run (TWaiter i)) 0 = Some s1).
    { unfold lstep. rewrite Hc, Hw. simpl. rewrite Ep. simpl. rewrite Hp, Nat.eqb_refl. reflexivity. }
    assert (Hw1 : tget (threads s1) (TWaiter i) = Some (WWoke (WResp x' e'))) by (apply tget_tset_same).
    assert (Hc1 : tget (threads s1) (TCall i) = Some CBlocked).
    { unfold s1, setT; simpl. rewrite !tget_tset_other by discriminate. exact Hcall. }
    destruct (waiter_woke_then_returns calls s1 i _ Hc Hw1 Hc1) as (cs & s' & v & er & Hl & Ho & Hrun & Hret & _).
    exists ((Run (TWaiter i), 0) :: cs), s', v, er.
    split; [simpl; lia|]. split.
    + apply Forall_cons; [unfold completes_own; simpl; auto|].
      eapply Forall_impl; [|exact Ho]. intros c [Hx|Hx]; unfold completes_own; auto.
    + split; [simpl; rewrite St; exact Hrun|exact Hret].
Qed.
