(* LinkFresh.v — a call that has not been started stays unstarted: no step other than the application's own
   "start call j" creates the caller goroutine of call j or its waiter (thread names are created only by the
   step that spawns them).  Used to build call chains of every depth (DuoChainBuild.v). *)
From Verif Require Import Base Link LinkProofs LinkInv16 LinkInvB.

(* ---------------------------------------------------------------- the waiting caller *)
(* [ent] is a dummy (it keeps the statements parallel to LinkFrame.v) *)
Definition Fresh (i ent : nat) (s : lst) : Prop :=
  tget (threads s) (TCall i) = None /\ tget (threads s) (TWaiter i) = None /\ ent = ent.

Lemma Fresh_ext i ent s s' : threads s' = threads s -> cancelled s' = cancelled s -> Fresh i ent s -> Fresh i ent s'.
Proof. intros A B (H1 & H2 & H3). unfold Fresh. rewrite A. auto. Qed.

Lemma Fresh_setT i ent s t st : t <> TCall i -> t <> TWaiter i -> Fresh i ent s -> Fresh i ent (setT s t st).
Proof.
  intros N1 N2 (H1 & H2 & H3). unfold Fresh. unfold setT; simpl.
  rewrite !tget_tset_other by auto. auto.
Qed.

Lemma Fresh_wake calls i ent s : Fresh i ent s -> Fresh i ent (wake calls s).
Proof.
  intros (H1 & H2 & H3). unfold Fresh, wake; simpl. rewrite !tget_map_wake_gen, H1, H2. simpl. auto.
Qed.

Lemma Fresh_do_free i ent s id : Fresh i ent s -> Fresh i ent (do_free s id).
Proof. intros H. unfold do_free. destruct (lookupN id (tbl s)); [apply (Fresh_ext i ent s); auto|exact H]. Qed.
Lemma Fresh_with_ev i ent s e : Fresh i ent s -> Fresh i ent (with_ev s e).
Proof. apply Fresh_ext; reflexivity. Qed.
Lemma Fresh_with_flt i ent s f : Fresh i ent s -> Fresh i ent (with_flt s f).
Proof. apply Fresh_ext; reflexivity. Qed.
Lemma Fresh_with_closures i ent s c : Fresh i ent s -> Fresh i ent (with_closures s c).
Proof. apply Fresh_ext; reflexivity. Qed.
Lemma Fresh_do_close i ent s : Fresh i ent s -> Fresh i ent (do_close s).
Proof. apply Fresh_ext; reflexivity. Qed.
Lemma Fresh_take_fault i ent s k o s1 : take_fault s k = (o, s1) -> Fresh i ent s -> Fresh i ent s1.
Proof. intros E H. unfold take_fault in E. destruct k as [|[|[|k]]]; inversion E; subst; (apply (Fresh_ext i ent s); [reflexivity|reflexivity|exact H]). Qed.

Lemma Fresh_begin_seterr calls i ent s t e k :
  t <> TCall i -> t <> TWaiter i -> Fresh i ent s -> Fresh i ent (begin_seterr calls s t e k).
Proof. intros N1 N2 H. unfold begin_seterr. apply Fresh_wake. apply Fresh_setT; auto. Qed.
Lemma Fresh_loop_again calls i ent s t st :
  t <> TCall i -> t <> TWaiter i -> Fresh i ent s -> Fresh i ent (loop_again calls s t st).
Proof.
  intros N1 N2 H. unfold loop_again. destruct (memN 0%N (cancelled s)); [apply Fresh_begin_seterr; auto|apply Fresh_setT; auto].
Qed.
Lemma Fresh_loop_done i ent s : Fresh i ent s -> Fresh i ent (loop_done s).
Proof.
  intros H. unfold loop_done. cbv zeta.
  match goal with |- Fresh _ _ (if ?c then _ else ?x) =>
    assert (Hx : Fresh i ent x) by (apply (Fresh_ext i ent s); auto); destruct c; auto end.
  match goal with |- Fresh _ _ (match ?o with _ => _ end) => destruct o as [[]|]; auto end.
  apply Fresh_setT; auto; discriminate.
Qed.
Lemma Fresh_do_store v i ent s e : Fresh i ent s -> Fresh i ent (do_store v s e).
Proof.
  intros H. unfold do_store. cbv zeta.
  match goal with |- Fresh _ _ (match tget (threads ?x) TLink with _ => _ end) =>
    assert (Hx : Fresh i ent x) by (apply (Fresh_ext i ent s); auto);
    destruct (tget (threads x) TLink) as [[]|]; auto end.
  apply Fresh_setT; auto; discriminate.
Qed.
Lemma Fresh_caller_panic calls i ent s j e : j <> i -> Fresh i ent s -> Fresh i ent (caller_panic calls s j e).
Proof.
  intros Hn H. unfold caller_panic. apply Fresh_begin_seterr; try (intros Hq; inversion Hq; congruence).
  apply Fresh_with_closures; auto.
Qed.
Lemma Fresh_caller_return i ent s j v e : j <> i -> Fresh i ent s -> Fresh i ent (caller_return s j v e).
Proof.
  intros Hn H. unfold caller_return. apply Fresh_with_ev. apply Fresh_setT; try (intros Hq; inversion Hq; congruence).
  apply Fresh_with_closures; auto.
Qed.
Lemma Fresh_handler_respond calls i ent s n v e : Fresh i ent s -> Fresh i ent (handler_respond calls s n v e).
Proof.
  intros H. unfold handler_respond.
  destruct (take_fault s 2) as [[x|] s1] eqn:E1.
  - apply Fresh_begin_seterr; try discriminate. eapply Fresh_take_fault; eauto.
  - assert (H1 : Fresh i ent s1) by (eapply Fresh_take_fault; eauto).
    destruct (memN 0%N (cancelled s1)); [apply Fresh_begin_seterr; try discriminate; auto|].
    destruct (take_fault s1 1) as [[x|] s2] eqn:E2.
    + apply Fresh_begin_seterr; try discriminate. eapply Fresh_take_fault; eauto.
    + apply Fresh_with_ev. apply Fresh_setT; try discriminate. eapply Fresh_take_fault; eauto.
Qed.

Ltac neq := try discriminate; try (intros Hq; inversion Hq; congruence).

Ltac kc := repeat first
 [ assumption
 | match goal with
   | |- Fresh _ _ (with_ev _ _) => apply Fresh_with_ev
   | |- Fresh _ _ (with_flt _ _) => apply Fresh_with_flt
   | |- Fresh _ _ (with_closures _ _) => apply Fresh_with_closures
   | |- Fresh _ _ (wake _ _) => apply Fresh_wake
   | |- Fresh _ _ (do_free _ _) => apply Fresh_do_free
   | |- Fresh _ _ (do_close _) => apply Fresh_do_close
   | |- Fresh _ _ (do_store _ _ _) => apply Fresh_do_store
   | |- Fresh _ _ (loop_done _) => apply Fresh_loop_done
   | |- Fresh _ _ (handler_respond _ _ _ _ _) => apply Fresh_handler_respond
   | |- Fresh _ _ (caller_panic _ _ _ _) => apply Fresh_caller_panic; [neq|]
   | |- Fresh _ _ (caller_return _ _ _ _) => apply Fresh_caller_return; [neq|]
   | |- Fresh _ _ (begin_seterr _ _ _ _ _) => apply Fresh_begin_seterr; [neq|neq|]
   | |- Fresh _ _ (loop_again _ _ _ _) => apply Fresh_loop_again; [neq|neq|]
   | |- Fresh _ _ (setT _ _ _) => apply Fresh_setT; [neq|neq|]
   | E : take_fault ?b _ = (_, ?c) |- Fresh _ _ ?c => apply (Fresh_take_fault _ _ _ _ _ _ E)
   end ].

Lemma Fresh_gen i ent s s' t st :
  t <> TCall i -> t <> TWaiter i -> threads s' = tset (threads s) t st -> cancelled s' = cancelled s ->
  Fresh i ent s -> Fresh i ent s'.
Proof.
  intros N1 N2 A B (H1 & H2 & H3). unfold Fresh. rewrite A. rewrite !tget_tset_other by auto. auto.
Qed.

Lemma Fresh_env calls i ent s a s' :
  Fresh i ent s -> a <> EStart i -> step_env fixed calls s a = Some s' -> Fresh i ent s'.
Proof.
  intros HI Hnc H. unfold step_env in H. destruct a as [j|id x e| |n|f arg| |n|c|which n].
  - destruct (tget (threads s) (TCall j)) eqn:Ht; [discriminate|].
    assert (Hji : j <> i) by (intros ->; apply Hnc; reflexivity).
    destruct (nth_error calls j) as [cs|] eqn:Hn; [|discriminate].
    set (s0 := if c_closure cs then with_closures s (j :: closures s) else s) in *.
    assert (H0 : Fresh i ent s0) by (unfold s0; destruct (c_closure cs); kc).
    destruct (take_fault s0 2) as [[x|] s1] eqn:E1; [inversion H; subst; kc|].
    assert (H1 : Fresh i ent s1) by kc.
    destruct (bclosed s1) eqn:Eb; inversion H; subst; [kc|].
    eapply Fresh_gen with (t := TCall j) (st := CRegistered (length (ents s1))); [neq|neq|reflexivity|reflexivity|exact H1].
  - destruct (tget (threads s) TResLoop) as [[]|] eqn:Ht; try discriminate.
    destruct (take_fault s 3) as [[y|] s1] eqn:E1; inversion H; subst; [kc|].
    apply Fresh_loop_again; neq. assert (H1 : Fresh i ent s1) by kc.
    eapply Fresh_gen with (t := TPub (npub s1)) (st := PEnter id x e); [neq|neq|reflexivity|reflexivity|exact H1].
  - destruct (tget (threads s) TResLoop) as [[]|] eqn:Ht; try discriminate.
    destruct (take_fault s 3) as [[y|] s1] eqn:E1; inversion H; subst; kc.
  - destruct (tget (threads s) TResLoop) as [[]|] eqn:Ht; try discriminate. inversion H; subst. kc.
  - destruct (tget (threads s) TReqLoop) as [[]|] eqn:Ht; try discriminate.
    destruct (take_fault s 3) as [[y|] s1] eqn:E1; inversion H; subst; [kc|].
    apply Fresh_loop_again; neq. assert (H1 : Fresh i ent s1) by kc.
    eapply Fresh_gen with (t := TReq (nreq s1)) (st := QStart f arg); [neq|neq|reflexivity|reflexivity|exact H1].
  - destruct (tget (threads s) TReqLoop) as [[]|] eqn:Ht; try discriminate.
    destruct (take_fault s 3) as [[y|] s1] eqn:E1; inversion H; subst; kc.
  - destruct (tget (threads s) TReqLoop) as [[]|] eqn:Ht; try discriminate. inversion H; subst. kc.
  - destruct (memN c (cancelled s)); [discriminate|]. inversion H; subst.
    apply Fresh_wake. destruct HI as (H1 & H2 & H3). unfold Fresh; simpl. split; [exact H1|]. split; [exact H2|].
    reflexivity.
  - inversion H; subst. kc.
Qed.

Lemma Fresh_caller calls i ent s j st s' :
  Fresh i ent s -> j <> i -> step_caller calls s j st = Some s' -> Fresh i ent s'.
Proof.
  intros HI Hji H. unfold step_caller in H. destruct st; try discriminate.
  - set (s0 := setT s (TWaiter j) (WStart ent0)) in *.
    assert (H0 : Fresh i ent s0) by (unfold s0; kc).
    destruct (memN 0%N (cancelled s0)); [inversion H; subst; kc|].
    destruct (take_fault s0 0) as [[x|] s1] eqn:E1; inversion H; subst; kc.
  - destruct o as [[x e|e]|].
    + destruct (Nat.eqb (c_nres (nth j calls dflt_call)) 1); [inversion H; subst; kc|].
      destruct (take_fault s 3) as [[y|] s1] eqn:E1; inversion H; subst; kc.
    + inversion H; subst; kc.
    + inversion H; subst; kc.
Qed.

Lemma Fresh_seterr i ent s t e k s' :
  Fresh i ent s -> t <> TCall i -> t <> TWaiter i -> step_seterr fixed s t e k = Some s' -> Fresh i ent s'.
Proof.
  intros HI N1 N2 H. unfold step_seterr in H. destruct (tname_eqb t TLink); [discriminate|].
  destruct k as [|e'|]; [|destruct t|]; inversion H; subst; kc; apply Fresh_setT; auto; kc.
Qed.

Lemma Fresh_waiter calls i ent s j st b s' :
  Fresh i ent s -> j <> i -> step_waiter fixed calls s j st b = Some s' -> Fresh i ent s'.
Proof.
  intros HI Hji H. unfold step_waiter in H. destruct st; try discriminate.
  - match type of H with (match ?c with _ => _ end) = _ => destruct c eqn:Ec end.
    + unfold only0 in H. destruct b; inversion H; subst; kc.
    + match type of H with (match ?c with _ => _ end) = _ => destruct c as [[n| |]|] eqn:En end; try discriminate.
      * destruct (tget (threads s) (TPub n)) as [[]|]; try discriminate.
        match type of H with (if ?c then _ else _) = _ => destruct c end; [|discriminate].
        inversion H; subst; kc.
      * inversion H; subst; kc.
      * inversion H; subst; kc.
  - unfold only0 in H. destruct b; [|discriminate]. simpl in H.
    destruct (tget (threads s) (TCall j)) as [[]|]; inversion H; subst; kc.
  - unfold only0 in H. destruct b; inversion H; subst; kc.
Qed.

Lemma Fresh_pub i ent s n st b s' : Fresh i ent s -> step_pub s n st b = Some s' -> Fresh i ent s'.
Proof.
  intros HI H. unfold step_pub in H. destruct st; try discriminate.
  - unfold only0 in H. destruct b; [|discriminate].
    destruct (bclosed s); [inversion H; subst; kc|].
    destruct (lookupN id (tbl s)); inversion H; subst; kc.
  - match type of H with (match ?c with _ => _ end) = _ => destruct c eqn:Ec end.
    + unfold only0 in H. destruct b; inversion H; subst; kc.
    + match type of H with (match ?c with _ => _ end) = _ => destruct c as [[j|]|] eqn:En end; try discriminate.
      * destruct (tget (threads s) (TWaiter j)) as [[]|] eqn:Ew; try discriminate.
        match type of H with (if ?c then _ else _) = _ => destruct c end; [|discriminate].
        assert (Hji : j <> i) by (intros ->; destruct HI as (_ & H2 & _); congruence).
        inversion H; subst; kc.
      * inversion H; subst; kc.
  - unfold only0 in H. destruct b; inversion H; subst; kc.
  - unfold only0 in H. destruct b; inversion H; subst; kc.
Qed.

Lemma Fresh_callee calls i ent s t n st s' : Fresh i ent s -> step_callee calls s t n st = Some s' -> Fresh i ent s'.
Proof.
  intros HI H. unfold step_callee in H. destruct t; try discriminate; destruct st; try discriminate.
  - destruct f; try (inversion H; subst; kc; fail);
      destruct (take_fault s 3) as [[y|] s1] eqn:E1; inversion H; subst; kc.
  - destruct f; try (inversion H; subst; kc; fail);
      try (destruct (handler_result _ arg) as [[x e]|]; inversion H; subst; kc).
  - inversion H; subst; kc.
Qed.

Lemma Fresh_infra calls i ent s t st s' : Fresh i ent s -> step_infra fixed calls s t st = Some s' -> Fresh i ent s'.
Proof.
  intros HI H. unfold step_infra in H. destruct t; try discriminate; destruct st; try discriminate.
  - inversion H; subst; kc.
  - destruct (fatal s); inversion H; subst; kc.
  - inversion H; subst; kc.
  - inversion H; subst. kc; try (apply (Fresh_ext i ent s); auto).
  - inversion H; subst. eapply Fresh_gen with (t := TSetup) (st := Finished); [neq|neq|reflexivity|reflexivity|exact HI].
Qed.

(* an unstarted call stays unstarted under every step but the application's "start call i" *)
Lemma fresh_frame_lemma calls i ent s c b s' :
  Fresh i ent s -> c <> Env (EStart i) -> lstep fixed calls s c b = Some s' -> Fresh i ent s'.
Proof.
  intros HI Nc H. unfold lstep in H. destruct (crashed s); [discriminate|].
  destruct c as [t|a].
  - destruct (tget (threads s) t) as [st|] eqn:Ht; [|discriminate].
    assert (Tw : t <> TWaiter i) by (intros ->; destruct HI as (_ & H2 & _); congruence).
    assert (Tc : t <> TCall i) by (intros ->; destruct HI as (H1 & _); congruence).
    destruct st;
      try (unfold only0 in H; destruct b; [|discriminate]; eapply Fresh_seterr; eauto; fail);
      destruct t;
      try (simpl in H; unfold only0 in H; destruct b; simpl in H; discriminate);
      try (unfold only0 in H; destruct b; [|discriminate]);
      try (eapply (Fresh_caller calls i ent s _ _ s' HI); [|exact H]; intros Hq; apply Tc; rewrite Hq; reflexivity);
      try (eapply (Fresh_waiter calls i ent s _ _ _ s' HI); [|exact H]; intros Hq; apply Tw; rewrite Hq; reflexivity);
      try (eapply Fresh_pub; eauto; fail);
      try (eapply Fresh_callee; eauto; fail);
      try (eapply Fresh_infra; eauto; fail);
      try discriminate.
  - unfold only0 in H. destruct b; [|discriminate]. eapply Fresh_env; eauto. intros ->. apply Nc. reflexivity.
Qed.

Lemma fresh_run calls i ent cs : forall s s',
  Fresh i ent s -> Forall (fun c => fst c <> Env (EStart i)) cs -> lrun fixed calls s cs = Some s' -> Fresh i ent s'.
Proof.
  induction cs as [|[c b] r IH]; intros s s' HK Hall Hr; simpl in Hr.
  - inversion Hr; subst; auto.
  - inversion Hall as [|? ? N1 Hrest]; subst. simpl in N1.
    destruct (lstep fixed calls s c b) as [s1|] eqn:E; [|discriminate].
    eapply IH; [|exact Hrest|exact Hr]. eapply fresh_frame_lemma; eauto.
Qed.
