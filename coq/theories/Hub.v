(* Hub.v — one registry with several links, each joined to its own peer by its own network: the product
   of two-endpoint systems (Pair.v).  Link k of the hub is endpoint A of component k, its peer is
   endpoint B of component k.  The links share nothing but the closure and remotes tables, which are
   keyed by fresh ids and therefore modelled as disjoint (Registry.v); each link has its own
   transport functions (arguments of LinkMessage / LinkStream), so a frame written on link k can only
   be read by peer k: that is the product structure. *)
From Verif Require Import Base Link Pair.

Section Hub.
Variable fns : nat -> nat -> fnkind.                      (* link -> call of the hub on that link -> function named *)
Variables callsAs callsBs : list (list callspec).        (* per link: the hub's calls, the peer's calls *)

Definition hst := list pst.

Definition hstep (hs : hst) (k : nat) (a : pact) : option hst :=
  match nth_error hs k with
  | Some p => option_map (fun p' => upd hs k p') (pstep (fns k) (nth k callsAs []) (nth k callsBs []) p a)
  | None => None
  end.

Fixpoint hrun (hs : hst) (sched : list (nat * pact)) : option hst :=
  match sched with
  | [] => Some hs
  | (k, a) :: r => match hstep hs k a with Some hs' => hrun hs' r | None => None end
  end.

Definition hinit (n : nat) : hst := repeat pinit n.
Definition hreachable (n : nat) (hs : hst) : Prop := exists sched, hrun (hinit n) sched = Some hs.

End Hub.
