(* LinkInvC.v — C12: the closure table holds exactly the closures of the calls that are in flight. *)
From Verif Require Import Base Link LinkProofs LinkInvB.

Definition holding (o : option tstate) : bool :=
  match o with Some (CRegistered _) | Some CBlocked | Some (CSelected _) => true | _ => false end.

Definition passes (calls : list callspec) (i : nat) : bool := c_closure (nth i calls dflt_call).

Definition InvC (calls : list callspec) (s : lst) : Prop :=
  NoDup (closures s) /\
  forall i, In i (closures s) <-> (holding (tget (threads s) (TCall i)) = true /\ passes calls i = true).

(* same closure list, same holding status of every caller *)
Definition same_hold (s s' : lst) : Prop :=
  closures s' = closures s /\ forall j, holding (tget (threads s') (TCall j)) = holding (tget (threads s) (TCall j)).

Lemma same_hold_refl s : same_hold s s.
Proof. split; auto. Qed.

Lemma same_hold_trans a b c : same_hold a b -> same_hold b c -> same_hold a c.
Proof. intros [A1 A2] [B1 B2]. split; [congruence|intros j; rewrite B2; auto]. Qed.

Lemma InvC_same calls s s' : same_hold s s' -> InvC calls s -> InvC calls s'.
Proof. intros [A B] [N H]. unfold InvC. rewrite A. split; [exact N|]. intros i. rewrite B. apply H. Qed.

Lemma same_hold_ext s s' : threads s' = threads s -> closures s' = closures s -> same_hold s s'.
Proof. intros A B. split; [exact B|intros j; rewrite A; reflexivity]. Qed.

Lemma same_hold_setT_other s t st : (forall i, t <> TCall i) -> same_hold s (setT s t st).
Proof.
  intros H. split; [reflexivity|]. intros j. unfold setT; simpl. rewrite tget_tset_other; [reflexivity|]. apply H.
Qed.

Lemma same_hold_setT_call s i st :
  holding (Some st) = holding (tget (threads s) (TCall i)) -> same_hold s (setT s (TCall i) st).
Proof.
  intros H. split; [reflexivity|]. intros j. unfold setT; simpl. rewrite tget_tset. simpl.
  destruct (Nat.eqb j i) eqn:E; [apply Nat.eqb_eq in E; subst; auto|reflexivity].
Qed.

Lemma same_hold_wake calls s : same_hold s (wake calls s).
Proof.
  split; [reflexivity|]. intros j. unfold wake; simpl. rewrite tget_map_wake_gen.
  destruct (tget (threads s) (TCall j)) as [st|]; [|reflexivity]. simpl.
  unfold wake1. destruct st; simpl; auto. destruct (memN 0%N (cancelled s)); reflexivity.
Qed.

Lemma same_hold_do_close s : same_hold s (do_close s).
Proof. apply same_hold_ext; reflexivity. Qed.
Lemma same_hold_do_free s id : same_hold s (do_free s id).
Proof. unfold do_free. destruct (lookupN id (tbl s)); [apply same_hold_ext; reflexivity|apply same_hold_refl]. Qed.

Lemma same_hold_begin_seterr_other calls s t e k : (forall i, t <> TCall i) -> same_hold s (begin_seterr calls s t e k).
Proof.
  intros H. unfold begin_seterr.
  eapply same_hold_trans; [apply same_hold_do_close|].
  eapply same_hold_trans; [apply same_hold_setT_other; exact H|apply same_hold_wake].
Qed.

Lemma same_hold_loop_again calls s t st : (forall i, t <> TCall i) -> same_hold s (loop_again calls s t st).
Proof.
  intros H. unfold loop_again. destruct (memN 0%N (cancelled s));
    [apply same_hold_begin_seterr_other; auto|apply same_hold_setT_other; auto].
Qed.

Lemma same_hold_loop_done s : same_hold s (loop_done s).
Proof.
  unfold loop_done. cbv zeta.
  match goal with |- same_hold _ (if ?c then _ else ?x) =>
    assert (Hx : same_hold s x) by (apply same_hold_ext; reflexivity); destruct c; auto end.
  match goal with |- same_hold _ (match ?o with _ => _ end) => destruct o as [[]|]; auto end.
  eapply same_hold_trans; [exact Hx|]. apply same_hold_setT_other. intros; discriminate.
Qed.

Lemma same_hold_do_store v s e : same_hold s (do_store v s e).
Proof.
  unfold do_store. cbv zeta.
  match goal with |- same_hold _ (match tget (threads ?x) TLink with _ => _ end) =>
    assert (Hx : same_hold s x) by (apply same_hold_ext; reflexivity);
    destruct (tget (threads x) TLink) as [[]|]; auto end.
  eapply same_hold_trans; [exact Hx|]. apply same_hold_setT_other. intros; discriminate.
Qed.

Lemma same_hold_take_fault s k o s1 : take_fault s k = (o, s1) -> same_hold s s1.
Proof. intros E. unfold take_fault in E. destruct k as [|[|[|k]]]; inversion E; subst; apply same_hold_ext; reflexivity. Qed.

Lemma same_hold_with_ev s e : same_hold s (with_ev s e).
Proof. apply same_hold_ext; reflexivity. Qed.
Lemma same_hold_with_flt s f : same_hold s (with_flt s f).
Proof. apply same_hold_ext; reflexivity. Qed.

Lemma same_hold_handler_respond calls s n v e : same_hold s (handler_respond calls s n v e).
Proof.
  unfold handler_respond.
  destruct (take_fault s 2) as [[x|] s1] eqn:E2; pose proof (same_hold_take_fault _ _ _ _ E2) as H1.
  - eapply same_hold_trans; [exact H1|apply same_hold_begin_seterr_other; intros; discriminate].
  - destruct (memN 0%N (cancelled s1)); [eapply same_hold_trans; [exact H1|apply same_hold_begin_seterr_other; intros; discriminate]|].
    destruct (take_fault s1 1) as [[x|] s2] eqn:E1; pose proof (same_hold_take_fault _ _ _ _ E1) as H2.
    + eapply same_hold_trans; [exact H1|]. eapply same_hold_trans; [exact H2|apply same_hold_begin_seterr_other; intros; discriminate].
    + eapply same_hold_trans; [exact H1|]. eapply same_hold_trans; [exact H2|].
      eapply same_hold_trans; [apply (same_hold_setT_other s2 (THandler n) Finished); intros; discriminate|apply same_hold_with_ev].
Qed.

(* ---- a call leaves: its closure goes, the thread stops holding ---- *)
Lemma In_remove_nat i j l : In j (remove_nat i l) <-> j <> i /\ In j l.
Proof.
  unfold remove_nat. rewrite filter_In. split.
  - intros [H1 H2]. apply negb_true_iff in H2. apply Nat.eqb_neq in H2. auto.
  - intros [H1 H2]. split; auto. apply negb_true_iff. apply Nat.eqb_neq. auto.
Qed.

Lemma NoDup_remove_nat i l : NoDup l -> NoDup (remove_nat i l).
Proof. intros H. unfold remove_nat. apply NoDup_filter. exact H. Qed.

Lemma InvC_release calls s i st :
  holding (Some st) = false -> InvC calls s ->
  InvC calls (setT (with_closures s (remove_nat i (closures s))) (TCall i) st).
Proof.
  intros Hst [N H]. split; simpl.
  - apply NoDup_remove_nat; auto.
  - intros j. rewrite In_remove_nat. rewrite tget_tset. simpl.
    destruct (Nat.eqb j i) eqn:E.
    + apply Nat.eqb_eq in E; subst. rewrite Hst. split; [intros [A _]; congruence|intros [A _]; discriminate].
    + apply Nat.eqb_neq in E. rewrite H. tauto.
Qed.

Lemma InvC_caller_return calls s i v e : InvC calls s -> InvC calls (caller_return s i v e).
Proof.
  intros H. unfold caller_return. eapply InvC_same; [apply same_hold_with_ev|]. apply InvC_release; auto.
Qed.

Lemma InvC_caller_panic calls s i e : InvC calls s -> InvC calls (caller_panic calls s i e).
Proof.
  intros H. unfold caller_panic, begin_seterr.
  eapply InvC_same; [apply same_hold_wake|].
  (* do_close commutes with the release *)
  pose proof (InvC_release calls (do_close s) i (SetErrMid e (KReturn e)) eq_refl) as R.
  assert (Hd : InvC calls (do_close s)) by (eapply InvC_same; [apply same_hold_do_close|exact H]).
  specialize (R Hd). exact R.
Qed.

Ltac brkC H :=
  repeat (match type of H with
          | context [match ?x with _ => _ end] => destruct x eqn:?; try discriminate H
          end);
  try (inversion H; subst; clear H).

Ltac sh := (* chains of same_hold steps *)
  repeat first
    [ apply same_hold_refl
    | match goal with
      | |- same_hold ?a (with_ev ?b _) => eapply same_hold_trans; [|apply same_hold_with_ev]
      | |- same_hold ?a (with_flt ?b _) => eapply same_hold_trans; [|apply same_hold_with_flt]
      | |- same_hold ?a (wake _ ?b) => eapply same_hold_trans; [|apply same_hold_wake]
      | |- same_hold ?a (do_free ?b _) => eapply same_hold_trans; [|apply same_hold_do_free]
      | |- same_hold ?a (do_close ?b) => eapply same_hold_trans; [|apply same_hold_do_close]
      | |- same_hold ?a (loop_done ?b) => eapply same_hold_trans; [|apply same_hold_loop_done]
      | |- same_hold ?a (do_store _ ?b _) => eapply same_hold_trans; [|apply same_hold_do_store]
      | |- same_hold ?a (handler_respond _ ?b _ _ _) => eapply same_hold_trans; [|apply same_hold_handler_respond]
      | |- same_hold ?a (begin_seterr _ ?b _ _ _) => eapply same_hold_trans; [|apply same_hold_begin_seterr_other; intros; discriminate]
      | |- same_hold ?a (loop_again _ ?b _ _) => eapply same_hold_trans; [|apply same_hold_loop_again; intros; discriminate]
      | |- same_hold ?a (setT ?b (TCall _) _) => fail 1
      | |- same_hold ?a (setT ?b _ _) => eapply same_hold_trans; [|apply same_hold_setT_other; intros; discriminate]
      | E : take_fault ?b _ = (_, ?c) |- same_hold ?a ?c => eapply same_hold_trans; [|apply (same_hold_take_fault _ _ _ _ E)]
      end ].

Lemma InvC_env calls s a s' : InvC calls s -> step_env fixed calls s a = Some s' -> InvC calls s'.
Proof.
  intros HI H. unfold step_env in H. destruct a.
  - (* EStart *)
    destruct (tget (threads s) (TCall i)) eqn:Ht; [discriminate|].
    destruct (nth_error calls i) as [cs|] eqn:Hn; [|discriminate].
    assert (Hcs : passes calls i = c_closure cs) by (unfold passes; rewrite (nth_error_nth _ _ _ Hn); reflexivity).
    destruct HI as [N HC].
    assert (Hni : ~ In i (closures s)) by (intros Hin; apply HC in Hin; rewrite Ht in Hin; destruct Hin; discriminate).
    (* the state after the (possible) registration, with thread i not yet existing *)
    set (s0 := if c_closure cs then with_closures s (i :: closures s) else s) in *.
    destruct (take_fault s0 2) as [[x|] s1] eqn:E;
      assert (T1 : threads s1 = threads s /\ closures s1 = closures s0 /\ bclosed s1 = bclosed s0)
        by (unfold take_fault in E; inversion E; subst; unfold s0; destruct (c_closure cs); auto).
    + (* marshal failed: the panic path releases whatever was registered *)
      inversion H; subst; clear H. unfold caller_panic, begin_seterr.
      eapply InvC_same; [apply same_hold_wake|].
      destruct T1 as (Ta & Tb & _).
      split; simpl.
      * rewrite Tb. apply NoDup_remove_nat. unfold s0. destruct (c_closure cs); simpl; [constructor; auto|auto].
      * intros j. rewrite In_remove_nat, Tb, tget_tset, Ta. simpl.
        destruct (Nat.eqb j i) eqn:Ej.
        -- apply Nat.eqb_eq in Ej; subst. simpl. split; [intros [A _]; congruence|intros [A _]; discriminate].
        -- apply Nat.eqb_neq in Ej. rewrite <- HC. unfold s0. destruct (c_closure cs); simpl; [|tauto].
           split; [intros [A [B|B]]; [congruence|auto]|intros B; auto].
    + destruct (bclosed s1) eqn:Eb; inversion H; subst; clear H.
      * unfold caller_return.
        destruct T1 as (Ta & Tb & _).
        split; simpl.
        -- rewrite Tb. apply NoDup_remove_nat. unfold s0. destruct (c_closure cs); simpl; [constructor; auto|auto].
        -- intros j. rewrite In_remove_nat, Tb, tget_tset, Ta. simpl.
           destruct (Nat.eqb j i) eqn:Ej.
           ++ apply Nat.eqb_eq in Ej; subst. simpl. split; [intros [A _]; congruence|intros [A _]; discriminate].
           ++ apply Nat.eqb_neq in Ej. rewrite <- HC. unfold s0. destruct (c_closure cs); simpl; [|tauto].
              split; [intros [A [B|B]]; [congruence|auto]|intros B; auto].
      * (* registered: the caller now holds *)
        destruct T1 as (Ta & Tb & _). split; simpl.
        -- rewrite Tb. unfold s0. destruct (c_closure cs); simpl; [constructor; auto|auto].
        -- intros j. rewrite Tb, tget_tset, Ta. simpl.
           destruct (Nat.eqb j i) eqn:Ej.
           ++ apply Nat.eqb_eq in Ej; subst. simpl. rewrite Hcs. unfold s0. destruct (c_closure cs); simpl; [tauto|].
              split; [intros A; contradiction|intros [_ A]; discriminate].
           ++ apply Nat.eqb_neq in Ej. rewrite <- HC. unfold s0. destruct (c_closure cs); simpl; [|tauto].
              split; [intros [A|A]; [congruence|auto]|auto].
  - (* EDeliverRes *)
    destruct (tget (threads s) TResLoop) as [[]|]; try discriminate.
    destruct (take_fault s 3) as [[y|] s1] eqn:E; inversion H; subst; clear H; (eapply InvC_same; [|exact HI]); sh.
    eapply same_hold_trans; [apply (same_hold_take_fault _ _ _ _ E)|].
    split; [reflexivity|]. intros j. simpl. rewrite tget_tset_other by discriminate. reflexivity.
  - destruct (tget (threads s) TResLoop) as [[]|]; try discriminate.
    destruct (take_fault s 3) as [[y|] s1] eqn:E; inversion H; subst; clear H; (eapply InvC_same; [|exact HI]); sh.
  - destruct (tget (threads s) TResLoop) as [[]|]; try discriminate. inversion H; subst. (eapply InvC_same; [|exact HI]); sh.
  - destruct (tget (threads s) TReqLoop) as [[]|]; try discriminate.
    destruct (take_fault s 3) as [[y|] s1] eqn:E; inversion H; subst; clear H; (eapply InvC_same; [|exact HI]); sh.
    eapply same_hold_trans; [apply (same_hold_take_fault _ _ _ _ E)|].
    split; [reflexivity|]. intros j. simpl. rewrite tget_tset_other by discriminate. reflexivity.
  - destruct (tget (threads s) TReqLoop) as [[]|]; try discriminate.
    destruct (take_fault s 3) as [[y|] s1] eqn:E; inversion H; subst; clear H; (eapply InvC_same; [|exact HI]); sh.
  - destruct (tget (threads s) TReqLoop) as [[]|]; try discriminate. inversion H; subst. (eapply InvC_same; [|exact HI]); sh.
  - destruct (memN c (cancelled s)); inversion H; subst. (eapply InvC_same; [|exact HI]); sh. apply same_hold_ext; reflexivity.
  - inversion H; subst. (eapply InvC_same; [|exact HI]); sh.
Qed.

Lemma InvC_caller calls s i st s' :
  InvC calls s -> tget (threads s) (TCall i) = Some st -> step_caller calls s i st = Some s' -> InvC calls s'.
Proof.
  intros HI Ht H. unfold step_caller in H.
  destruct st; try discriminate.
  - (* CRegistered: spawn the waiter, write; the caller keeps holding (CBlocked) or takes the panic path *)
    assert (H0 : InvC calls (setT s (TWaiter i) (WStart ent))) by (eapply InvC_same; [apply same_hold_setT_other; intros; discriminate|exact HI]).
    destruct (memN 0%N (cancelled (setT s (TWaiter i) (WStart ent)))); [inversion H; subst; apply InvC_caller_panic; auto|].
    destruct (take_fault _ 0) as [[x|] s1] eqn:E; pose proof (InvC_same calls _ _ (same_hold_take_fault _ _ _ _ E) H0) as H1; inversion H; subst.
    + apply InvC_caller_panic; auto.
    + eapply InvC_same; [|exact H1]. eapply same_hold_trans; [|apply same_hold_with_ev].
      apply same_hold_setT_call. simpl.
      assert (T : threads s1 = threads (setT s (TWaiter i) (WStart ent))) by (unfold take_fault in E; inversion E; subst; reflexivity).
      rewrite T. unfold setT; simpl. rewrite tget_tset_other by discriminate. rewrite Ht. reflexivity.
  - destruct o as [[x e|e]|]; try (inversion H; subst; first [apply InvC_caller_panic; auto|apply InvC_caller_return; auto]; fail).
    destruct (Nat.eqb (c_nres (nth i calls dflt_call)) 1); [inversion H; subst; apply InvC_caller_return; auto|].
    destruct (take_fault s 3) as [[y|] s1] eqn:E; pose proof (InvC_same calls _ _ (same_hold_take_fault _ _ _ _ E) HI) as H1; inversion H; subst;
      [apply InvC_caller_panic|apply InvC_caller_return]; auto.
Qed.

Lemma InvC_seterr calls s t e k s' :
  InvC calls s -> tget (threads s) t = Some (SetErrMid e k) -> step_seterr fixed s t e k = Some s' -> InvC calls s'.
Proof.
  intros HI Ht H. unfold step_seterr in H.
  destruct (tname_eqb t TLink) eqn:Et; [discriminate|].
  pose proof (InvC_same calls _ _ (same_hold_do_store fixed s e) HI) as HD.
  assert (Tt : tget (threads (do_store fixed s e)) t = Some (SetErrMid e k)).
  { unfold do_store. cbv zeta. match goal with |- tget (threads (match ?o with _ => _ end)) _ = _ => destruct o as [[]|] end; auto.
    unfold setT; simpl. rewrite tget_tset_other; auto. intros <-. rewrite tname_eqb_refl in Et. discriminate. }
  (* replacing a non-holding state (SetErrMid) by another non-holding state *)
  assert (Hset : forall st, holding (Some st) = false -> InvC calls (setT (do_store fixed s e) t st)).
  { intros st Hst. eapply InvC_same; [|exact HD].
    destruct t; try (apply same_hold_setT_other; intros; discriminate).
    apply same_hold_setT_call. rewrite Tt. exact Hst. }
  destruct k; destruct t; inversion H; subst;
    try (eapply InvC_same; [apply same_hold_loop_done|]); try (eapply InvC_same; [apply same_hold_with_ev|]); apply Hset; reflexivity.
Qed.

Lemma InvC_waiter calls s i st b s' :
  InvC calls s -> step_waiter fixed calls s i st b = Some s' -> InvC calls s'.
Proof.
  intros HI H. unfold step_waiter, only0 in H.
  destruct st; try discriminate.
  - brkC H; (eapply InvC_same; [|exact HI]); sh.
  - destruct b; [|discriminate].
    destruct (tget (threads s) (TCall i)) as [sc|] eqn:Ec.
    + destruct sc; inversion H; subst; clear H; (eapply InvC_same; [|exact HI]); sh.
      (* the caller moves from CBlocked to CSelected: still holding *)
      apply same_hold_setT_call. rewrite Ec. reflexivity.
    + inversion H; subst. (eapply InvC_same; [|exact HI]); sh.
  - destruct b; [|discriminate]. inversion H; subst. (eapply InvC_same; [|exact HI]); sh.
Qed.

Lemma InvC_pub calls s n st b s' : InvC calls s -> step_pub s n st b = Some s' -> InvC calls s'.
Proof.
  intros HI H. unfold step_pub, only0 in H. brkC H; (eapply InvC_same; [|exact HI]); sh.
Qed.

Lemma InvC_callee calls s t n st s' : InvC calls s -> step_callee calls s t n st = Some s' -> InvC calls s'.
Proof.
  intros HI H. unfold step_callee in H. brkC H; (eapply InvC_same; [|exact HI]); sh.
Qed.

Lemma InvC_infra calls s t st s' : InvC calls s -> step_infra fixed calls s t st = Some s' -> InvC calls s'.
Proof.
  intros HI H. unfold step_infra in H. brkC H; (eapply InvC_same; [|exact HI]); sh;
    try (apply same_hold_ext; reflexivity);
    try (split; [reflexivity|]; intros j; simpl; rewrite ?tget_tset_other by discriminate; reflexivity).
Qed.

Lemma InvC_init calls : InvC calls linit.
Proof.
  split; simpl; [constructor|]. intros i. split; [intros []|]. intros [H _]. destruct i; simpl in H; discriminate.
Qed.

Lemma InvC_step calls s c b s' : InvC calls s -> lstep fixed calls s c b = Some s' -> InvC calls s'.
Proof.
  intros HI H. unfold lstep in H.
  destruct (crashed s); [discriminate|].
  destruct c as [t|a].
  - destruct (tget (threads s) t) as [st|] eqn:Ht; [|discriminate].
    destruct st;
      try (unfold only0 in H; destruct b; [|discriminate]; eapply InvC_seterr; eauto; fail);
      destruct t;
      try (unfold only0 in H; destruct b; [|discriminate]);
      first [ eapply InvC_caller; eauto; fail | eapply InvC_waiter; eauto; fail | eapply InvC_pub; eauto; fail
            | eapply InvC_callee; eauto; fail | eapply InvC_infra; eauto; fail ].
  - unfold only0 in H. destruct b; [|discriminate]. eapply InvC_env; eauto.
  Unshelve. all: try exact 0; try exact Finished; try exact TLink; try exact []; try exact fixed.
Qed.

Lemma InvC_run calls cs : forall s0 s, InvC calls s0 -> lrun fixed calls s0 cs = Some s -> InvC calls s.
Proof.
  induction cs as [|[c b] cs IH]; intros s0 s H0 Hr; simpl in Hr.
  - inversion Hr; subst; auto.
  - destruct (lstep fixed calls s0 c b) eqn:E; [|discriminate]. eapply IH; [eapply InvC_step; eauto|auto].
Qed.

Lemma InvC_reachable calls s : lreachable fixed calls s -> InvC calls s.
Proof. intros [cs Hr]. eapply InvC_run; [apply InvC_init|exact Hr]. Qed.

(* the closure table is empty whenever no call is in flight *)
Lemma closures_empty_when_idle_lemma calls s :
  lreachable fixed calls s -> (forall i, holding (tget (threads s) (TCall i)) = false) -> closures s = [].
Proof.
  intros Hr Hn. destruct (InvC_reachable calls s Hr) as [_ H].
  destruct (closures s) as [|i l] eqn:E; auto. exfalso.
  assert (Hin : In i (i :: l)) by (simpl; auto). apply H in Hin. rewrite Hn in Hin. destruct Hin; discriminate.
Qed.
