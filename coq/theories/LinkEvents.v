(* LinkEvents.v — the event history of a link only grows, and a request frame that a call writes
   carries that call's own argument (and closure flag).  Two-state relation [grow] proved for every
   step of Link.v (variant fixed); used by the composition of two endpoints (Pair.v). *)
From Verif Require Import Base Link LinkProofs LinkInv16 LinkInvB.

Definition okev (calls : list callspec) (e : event) : Prop :=
  match e with
  | EvReqWritten i arg cl => arg = c_arg (nth i calls dflt_call) /\ cl = c_closure (nth i calls dflt_call)
  | _ => True
  end.

Definition grow (calls : list callspec) (s s' : lst) : Prop :=
  exists l, evs s' = l ++ evs s /\ Forall (okev calls) l.

Lemma grow_refl calls s : grow calls s s.
Proof. exists []. split; [reflexivity|constructor]. Qed.
Lemma grow_trans calls a b c : grow calls a b -> grow calls b c -> grow calls a c.
Proof.
  intros (l1 & E1 & F1) (l2 & E2 & F2). exists (l2 ++ l1). split.
  - rewrite E2, E1. apply app_assoc.
  - apply Forall_app. auto.
Qed.
Lemma grow_ext calls s s' : evs s' = evs s -> grow calls s s'.
Proof. intros E. exists []. split; [exact E|constructor]. Qed.
Lemma grow_ev calls s s' e : okev calls e -> evs s' = e :: evs s -> grow calls s s'.
Proof. intros Ho E. exists [e]. split; [exact E|constructor; [exact Ho|constructor]]. Qed.
Lemma grow_evs calls s s' l : Forall (okev calls) l -> evs s' = l ++ evs s -> grow calls s s'.
Proof. intros Ho E. exists l. auto. Qed.

Lemma grow_In calls s s' e : grow calls s s' -> In e (evs s) -> In e (evs s').
Proof. intros (l & E & _) H. rewrite E. apply in_or_app. auto. Qed.
Lemma grow_new calls s s' e : grow calls s s' -> In e (evs s') -> In e (evs s) \/ okev calls e.
Proof.
  intros (l & E & F) H. rewrite E in H. apply in_app_or in H as [H|H]; auto.
  right. rewrite Forall_forall in F. auto.
Qed.

Lemma evs_setT s t st : evs (setT s t st) = evs s.
Proof. reflexivity. Qed.
Lemma evs_wake calls s : evs (wake calls s) = evs s.
Proof. reflexivity. Qed.
Lemma evs_do_close s : evs (do_close s) = evs s.
Proof. reflexivity. Qed.
Lemma evs_do_free s id : evs (do_free s id) = evs s.
Proof. unfold do_free. destruct (lookupN id (tbl s)); reflexivity. Qed.
Lemma evs_begin_seterr calls s t e k : evs (begin_seterr calls s t e k) = evs s.
Proof. reflexivity. Qed.
Lemma evs_caller_panic calls s i e : evs (caller_panic calls s i e) = evs s.
Proof. reflexivity. Qed.
Lemma evs_loop_again calls s t st : evs (loop_again calls s t st) = evs s.
Proof. unfold loop_again. destruct (memN 0%N (cancelled s)); reflexivity. Qed.
Lemma evs_loop_done s : evs (loop_done s) = evs s.
Proof.
  unfold loop_done. cbv zeta. destruct (Nat.leb 2 (S (loops_done s))); [|reflexivity]. simpl.
  destruct (tget (threads s) TSetup) as [[]|]; reflexivity.
Qed.
Lemma evs_take_fault s k o s1 : take_fault s k = (o, s1) -> evs s1 = evs s.
Proof. intros E. unfold take_fault in E. destruct k as [|[|[|k]]]; inversion E; subst; reflexivity. Qed.
Lemma evs_do_store v s e : evs (do_store v s e) = EvReport e :: evs s.
Proof. unfold do_store. cbv zeta. simpl. destruct (tget (threads s) TLink) as [[]|]; reflexivity. Qed.

Lemma grow_setT calls s t st : grow calls s (setT s t st).
Proof. apply grow_ext. reflexivity. Qed.
Lemma grow_wake calls s : grow calls s (wake calls s).
Proof. apply grow_ext. reflexivity. Qed.
Lemma grow_do_free calls s id : grow calls s (do_free s id).
Proof. apply grow_ext. apply evs_do_free. Qed.
Lemma grow_begin_seterr calls s t e k : grow calls s (begin_seterr calls s t e k).
Proof. apply grow_ext. reflexivity. Qed.
Lemma grow_caller_panic calls s i e : grow calls s (caller_panic calls s i e).
Proof. apply grow_ext. reflexivity. Qed.
Lemma grow_loop_again calls s t st : grow calls s (loop_again calls s t st).
Proof. apply grow_ext. apply evs_loop_again. Qed.
Lemma grow_loop_done calls s : grow calls s (loop_done s).
Proof. apply grow_ext. apply evs_loop_done. Qed.
Lemma grow_take_fault calls s k o s1 : take_fault s k = (o, s1) -> grow calls s s1.
Proof. intros E. apply grow_ext. eapply evs_take_fault; eauto. Qed.
Lemma grow_with_flt calls s f : grow calls s (with_flt s f).
Proof. apply grow_ext. reflexivity. Qed.
Lemma grow_with_closures calls s c : grow calls s (with_closures s c).
Proof. apply grow_ext. reflexivity. Qed.
Lemma grow_with_ev calls s e : okev calls e -> grow calls s (with_ev s e).
Proof. intros Ho. eapply grow_ev; [exact Ho|reflexivity]. Qed.
Lemma grow_do_store calls v s e : grow calls s (do_store v s e).
Proof. eapply grow_ev; [|apply evs_do_store]. exact I. Qed.

Ltac kg :=
  repeat first
    [ apply grow_refl
    | match goal with
      | |- grow _ ?a (with_ev ?b _) => eapply grow_trans; [|apply grow_with_ev; simpl; auto]
      | |- grow _ ?a (with_flt ?b _) => eapply grow_trans; [|apply grow_with_flt]
      | |- grow _ ?a (with_closures ?b _) => eapply grow_trans; [|apply grow_with_closures]
      | |- grow _ ?a (wake _ ?b) => eapply grow_trans; [|apply grow_wake]
      | |- grow _ ?a (do_free ?b _) => eapply grow_trans; [|apply grow_do_free]
      | |- grow _ ?a (do_store _ ?b _) => eapply grow_trans; [|apply grow_do_store]
      | |- grow _ ?a (loop_done ?b) => eapply grow_trans; [|apply grow_loop_done]
      | |- grow _ ?a (begin_seterr _ ?b _ _ _) => eapply grow_trans; [|apply grow_begin_seterr]
      | |- grow _ ?a (caller_panic _ ?b _ _) => eapply grow_trans; [|apply grow_caller_panic]
      | |- grow _ ?a (loop_again _ ?b _ _) => eapply grow_trans; [|apply grow_loop_again]
      | |- grow _ ?a (setT ?b _ _) => eapply grow_trans; [|apply grow_setT]
      | E : take_fault ?b _ = (_, ?c) |- grow _ ?a ?c => eapply grow_trans; [|apply (grow_take_fault _ _ _ _ _ E)]
      end ].

Lemma grow_caller_return calls s i v e : grow calls s (caller_return s i v e).
Proof. unfold caller_return. kg. Qed.
Lemma grow_handler_respond calls s n v e : grow calls s (handler_respond calls s n v e).
Proof.
  unfold handler_respond.
  destruct (take_fault s 2) as [[x|] s1] eqn:E1; [kg|].
  destruct (memN 0%N (cancelled s1)); [kg|].
  destruct (take_fault s1 1) as [[x|] s2] eqn:E2; kg.
Qed.

Lemma grow_env calls s a s' : step_env fixed calls s a = Some s' -> grow calls s s'.
Proof.
  intros H. unfold step_env in H. destruct a as [i|id x e| |n|f arg| |n|c|which n].
  - destruct (tget (threads s) (TCall i)) eqn:Ht; [discriminate|].
    destruct (nth_error calls i) as [cs|] eqn:Hn; [|discriminate].
    set (s0 := if c_closure cs then with_closures s (i :: closures s) else s) in *.
    assert (H0 : grow calls s s0) by (unfold s0; destruct (c_closure cs); kg).
    destruct (take_fault s0 2) as [[x|] s1] eqn:E1; [inversion H; subst; eapply grow_trans; [exact H0|]; kg|].
    assert (H1 : grow calls s s1) by (eapply grow_trans; [exact H0|apply (grow_take_fault _ _ _ _ _ E1)]).
    destruct (bclosed s1) eqn:Eb; inversion H; subst.
    + simpl. eapply grow_trans; [exact H1|]. apply grow_caller_return.
    + eapply grow_trans; [exact H1|]. apply grow_ext. reflexivity.
  - destruct (tget (threads s) TResLoop) as [[]|] eqn:Ht; try discriminate.
    destruct (take_fault s 3) as [[y|] s1] eqn:E1; inversion H; subst; [kg|].
    kg. eapply grow_trans; [apply (grow_take_fault _ _ _ _ _ E1)|]. apply grow_ext. reflexivity.
  - destruct (tget (threads s) TResLoop) as [[]|] eqn:Ht; try discriminate.
    destruct (take_fault s 3) as [[y|] s1] eqn:E1; inversion H; subst; kg.
  - destruct (tget (threads s) TResLoop) as [[]|] eqn:Ht; try discriminate. inversion H; subst; kg.
  - destruct (tget (threads s) TReqLoop) as [[]|] eqn:Ht; try discriminate.
    destruct (take_fault s 3) as [[y|] s1] eqn:E1; inversion H; subst; [kg|].
    kg. eapply grow_trans; [apply (grow_take_fault _ _ _ _ _ E1)|]. apply grow_ext. reflexivity.
  - destruct (tget (threads s) TReqLoop) as [[]|] eqn:Ht; try discriminate.
    destruct (take_fault s 3) as [[y|] s1] eqn:E1; inversion H; subst; kg.
  - destruct (tget (threads s) TReqLoop) as [[]|] eqn:Ht; try discriminate. inversion H; subst; kg.
  - destruct (memN c (cancelled s)); [discriminate|]. inversion H; subst.
    eapply grow_trans; [|apply grow_wake]. apply grow_ext; reflexivity.
  - inversion H; subst. kg.
Qed.

Lemma grow_caller calls s i st s' : step_caller calls s i st = Some s' -> grow calls s s'.
Proof.
  intros H. unfold step_caller in H. destruct st; try discriminate.
  - set (s0 := setT s (TWaiter i) (WStart ent)) in *.
    assert (H0 : grow calls s s0) by (unfold s0; kg).
    destruct (memN 0%N (cancelled s0)); [inversion H; subst; eapply grow_trans; [exact H0|]; kg|].
    destruct (take_fault s0 0) as [[x|] s1] eqn:E1; inversion H; subst; (eapply grow_trans; [exact H0|]); kg.
  - destruct o as [[x e|e]|].
    + destruct (Nat.eqb (c_nres (nth i calls dflt_call)) 1); [inversion H; subst; apply grow_caller_return|].
      destruct (take_fault s 3) as [[y|] s1] eqn:E1; inversion H; subst; [kg|].
      eapply grow_trans; [apply (grow_take_fault _ _ _ _ _ E1)|apply grow_caller_return].
    + inversion H; subst; apply grow_caller_return.
    + inversion H; subst; kg.
Qed.

Lemma grow_seterr calls s t e k s' : step_seterr fixed s t e k = Some s' -> grow calls s s'.
Proof.
  intros H. unfold step_seterr in H. destruct (tname_eqb t TLink); [discriminate|].
  destruct k as [|e'|]; [|destruct t|]; inversion H; subst; kg.
Qed.

Lemma grow_waiter calls s i st b s' : step_waiter fixed calls s i st b = Some s' -> grow calls s s'.
Proof.
  intros H. unfold step_waiter in H. destruct st; try discriminate.
  - match type of H with (match ?c with _ => _ end) = _ => destruct c eqn:Ec end.
    + unfold only0 in H. destruct b; inversion H; subst; kg.
    + match type of H with (match ?c with _ => _ end) = _ => destruct c as [[n| |]|] eqn:En end; try discriminate.
      * destruct (tget (threads s) (TPub n)) as [[]|]; try discriminate.
        match type of H with (if ?c then _ else _) = _ => destruct c end; [|discriminate].
        inversion H; subst; kg.
      * inversion H; subst; kg.
      * inversion H; subst; kg.
  - unfold only0 in H. destruct b; [|discriminate]. simpl in H.
    destruct (tget (threads s) (TCall i)) as [[]|]; inversion H; subst; kg.
  - unfold only0 in H. destruct b; inversion H; subst; kg.
Qed.

Lemma grow_pub calls s n st b s' : step_pub s n st b = Some s' -> grow calls s s'.
Proof.
  intros H. unfold step_pub in H. destruct st; try discriminate.
  - unfold only0 in H. destruct b; [|discriminate].
    destruct (bclosed s); [inversion H; subst; kg|].
    destruct (lookupN id (tbl s)); inversion H; subst; kg.
  - match type of H with (match ?c with _ => _ end) = _ => destruct c eqn:Ec end.
    + unfold only0 in H. destruct b; inversion H; subst; kg.
    + match type of H with (match ?c with _ => _ end) = _ => destruct c as [[i|]|] eqn:En end; try discriminate.
      * destruct (tget (threads s) (TWaiter i)) as [[]|]; try discriminate.
        match type of H with (if ?c then _ else _) = _ => destruct c end; [|discriminate].
        inversion H; subst; kg.
      * inversion H; subst; kg.
  - unfold only0 in H. destruct b; inversion H; subst; kg.
  - unfold only0 in H. destruct b; inversion H; subst; kg.
Qed.

Lemma grow_callee calls s t n st s' : step_callee calls s t n st = Some s' -> grow calls s s'.
Proof.
  intros H. unfold step_callee in H. destruct t; try discriminate; destruct st; try discriminate.
  - destruct f; try (inversion H; subst; kg; fail);
      destruct (take_fault s 3) as [[y|] s1] eqn:E1; inversion H; subst; kg.
  - destruct f; try (inversion H; subst; kg; fail);
      try (destruct (handler_result _ arg) as [[x e]|]; inversion H; subst;
           (eapply grow_trans; [|apply grow_handler_respond]); kg).
  - inversion H; subst. apply grow_handler_respond.
Qed.

Lemma grow_infra calls s t st s' : step_infra fixed calls s t st = Some s' -> grow calls s s'.
Proof.
  intros H. unfold step_infra in H. destruct t; try discriminate; destruct st; try discriminate.
  - inversion H; subst; kg.
  - destruct (fatal s); inversion H; subst; kg.
  - inversion H; subst; kg.
  - inversion H; subst. kg. apply (grow_evs _ _ _ [EvHook true true; EvHook true false]); [repeat constructor|reflexivity].
  - inversion H; subst. apply (grow_evs _ _ _ [EvHook false true; EvHook false false]); [repeat constructor|reflexivity].
Qed.

Lemma grow_step calls s c b s' : lstep fixed calls s c b = Some s' -> grow calls s s'.
Proof.
  intros H. unfold lstep in H. destruct (crashed s); [discriminate|].
  destruct c as [t|a].
  - destruct (tget (threads s) t) as [st|] eqn:Ht; [|discriminate].
    destruct st;
      try (unfold only0 in H; destruct b; [|discriminate]; eapply grow_seterr; eauto; fail);
      destruct t;
      try (unfold only0 in H; destruct b; [|discriminate]);
      try (eapply grow_caller; eauto; fail);
      try (eapply grow_waiter; eauto; fail);
      try (eapply grow_pub; eauto; fail);
      try (eapply grow_callee; eauto; fail);
      try (eapply grow_infra; eauto; fail);
      try discriminate.
  - unfold only0 in H. destruct b; [|discriminate]. eapply grow_env; eauto.
Qed.

Lemma grow_run calls cs : forall s0 s, lrun fixed calls s0 cs = Some s -> grow calls s0 s.
Proof.
  induction cs as [|[c b] r IH]; intros s0 s H; simpl in H.
  - inversion H; subst. apply grow_refl.
  - destruct (lstep fixed calls s0 c b) as [s1|] eqn:E; [|discriminate].
    eapply grow_trans; [eapply grow_step; eauto|eauto].
Qed.

(* every request frame a call has written carries that call's own argument *)
Lemma request_carries_own_argument_lemma calls cs s i arg cl :
  lrun fixed calls linit cs = Some s -> In (EvReqWritten i arg cl) (evs s) ->
  arg = c_arg (nth i calls dflt_call) /\ cl = c_closure (nth i calls dflt_call).
Proof.
  intros Hr Hin. destruct (grow_new _ _ _ _ (grow_run _ _ _ _ Hr) Hin) as [H|H]; [destruct H|exact H].
Qed.
