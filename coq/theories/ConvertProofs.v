From Verif Require Import Base Convert.
From Coq Require Import ZArith.

Lemma convert_total_lemma : forall src t, shaped src t = true -> exists y, convert_value fixed src t = COk y.
Proof.
  fix IH 1. intros src t H. destruct src as [k tw|b|s|l|].
  - destruct t; simpl in H; try discriminate; destruct k; simpl; eauto.
  - destruct t; simpl in H; try discriminate; simpl; eauto.
  - destruct t; simpl in H; try discriminate; simpl; eauto.
  - destruct t as [| | | |t']; simpl in H; try discriminate.
    cbn [convert_value].
    assert (G : exists ys, (fix go (l : list gval) : lres :=
                   match l with
                   | [] => LOk []
                   | x :: r =>
                       match convert_value fixed x t' with
                       | COk y => match go r with LOk ys => LOk (y :: ys) | o => o end
                       | CErr => LErr
                       | CPanic => LPanic
                       end
                   end) l = LOk ys).
    { induction l as [|x r IHl]; [eexists; reflexivity|].
      simpl in H. apply andb_true_iff in H as [Hx Hr].
      destruct (IH x t' Hx) as [y Hy]. destruct (IHl Hr) as [ys Hys].
      exists (y :: ys). rewrite Hy, Hys. reflexivity. }
    destruct G as [ys ->]. eauto.
  - destruct t; simpl in H; try discriminate. simpl. eauto.
Qed.

Lemma convert_int_identity k z : convert_value fixed (GNum k (2 * z)) TInt = COk (VInt z).
Proof.
  assert (Q : Z.quot (2 * z) 2 = z) by (rewrite Z.mul_comm; apply Z.quot_mul; lia).
  unfold convert_value, convert_scalar. destruct k; rewrite Q; reflexivity.
Qed.

Lemma convert_nil_slice t : convert_value fixed GNil (TSlice t) = COk (VSlice t []).
Proof. reflexivity. Qed.
