(* Resolve.v — callee-side function lookup (go/pkg/rpc/registry.go:
   findMethodByFunctionCallPathRecursively + the closure-manager fallback + the argument-count
   check of findLocalFunctionToCallRecursively) over a small model of what `reflect` reports.

   Type facts (field tables, FieldByName index paths incl. promotion, method sets of T and *T with
   the embedded field a promoted method comes from, interface method tables) are DATA: the harness
   derives them from Go's reflect for the zoo objects on every run.  The value graph says which
   pointers / interfaces are nil and names the instances.  What is modelled here is panrpc's walk
   over these facts and Go's rules for invoking a method value (receiver selection, nil receivers,
   read-only values obtained through unexported fields). *)
From Coq Require Import String Ascii.
From Verif Require Import Base.
Open Scope string_scope.

Record meth := mkMeth { m_name : string; m_nin : nat; m_via : option nat; m_ptrrecv : bool }.

Inductive tkind := KStruct | KPtr | KIface | KOther.

Record tinfo := mkT {
  ti_short : string;
  ti_kind : tkind;
  ti_elem : nat;
  ti_fields : list (string * bool);          (* name, exported *)
  ti_byname : list (string * list nat);      (* FieldByName: name -> index path *)
  ti_vm : list string;                       (* method set of T *)
  ti_pm : list meth;                         (* method set of *T *)
  ti_im : list (string * nat)                (* interface methods: name, NumIn *)
}.

Inductive value :=
| VStruct (ty : nat) (inst : string) (fs : list value)
| VPtr (ety : nat) (tgt : option value)       (* pointer to a value of type ety *)
| VIface (ity : nat) (dyn : option value)
| VOther (ty : nat) (inst : string)
| VInvalid.

Inductive outcome :=
| OInvoked (inst : string) (m : string)       (* application code runs: this method of this instance *)
| ONoFunc                                     (* ErrCannotCallNonFunction: link error *)
| OArgCount                                   (* ErrInvalidArgsCount: link error *)
| OPanicInCall                                (* reflect panics inside utils.Call (recovered): link error, no application code *)
| OClosureEntry                               (* the built-in closure entry point *)
| OCrash.                                     (* panic outside any recover: the process dies *)

Definition dflt_t : tinfo := mkT "" KOther 0 [] [] [] [] [].
Definition tget (tys : list tinfo) (n : nat) : tinfo := nth n tys dflt_t.

(* ---- strings ---- *)
Fixpoint split_dot_aux (s : string) (cur : string) : list string :=
  match s with
  | EmptyString => [cur]
  | String c r => if Ascii.eqb c "."%char then cur :: split_dot_aux r EmptyString
                  else split_dot_aux r (cur ++ String c EmptyString)
  end.
Definition split_dot (s : string) : list string := split_dot_aux s EmptyString.   (* strings.Split(s, ".") *)

Fixpoint assoc {A} (k : string) (l : list (string * A)) : option A :=
  match l with
  | [] => None
  | (k', a) :: r => if String.eqb k k' then Some a else assoc k r
  end.

Fixpoint mem_str (k : string) (l : list string) : bool :=
  match l with [] => false | x :: r => String.eqb k x || mem_str k r end.

Fixpoint find_meth (k : string) (l : list meth) : option meth :=
  match l with
  | [] => None
  | m :: r => if String.eqb k (m_name m) then Some m else find_meth k r
  end.

(* ---- reflect fragments ---- *)
Definition inst_of (v : value) : string :=
  match v with VStruct _ i _ => i | VOther _ i => i | _ => "" end.

(* Value.FieldByIndexErr from a struct value; ro = some field on the way is unexported;
   None = nil embedded pointer on the way / malformed *)
Fixpoint follow (tys : list tinfo) (name : string) (v : value) (idx : list nat) (first : bool) (ro : bool) : option (value * bool) :=
  match idx with
  | [] => None
  | i :: rest =>
      let v1 := if first then Some v
                else match v with
                     | VPtr _ (Some x) => Some x
                     | VPtr _ None => None            (* nil embedded pointer *)
                     | _ => Some v
                     end in
      match v1 with
      | Some (VStruct ty _ fs) =>
          match nth_error fs i, nth_error (ti_fields (tget tys ty)) i with
          | Some f, Some (fname, exported) =>
              match rest with
              | [] => if String.eqb fname name then Some (f, ro || negb exported) else None
              | _ => follow tys name f rest false (ro || negb exported)
              end
          | _, _ => None
          end
      | _ => None
      end
  end.

Inductive walkres := WOk (v : value) (ro : bool) | WErr | WPanic.

(* the loop over all but the last path component *)
Fixpoint walk (v : variant) (tys : list tinfo) (cur : value) (ro : bool) (names : list string) : walkres :=
  match names with
  | [] => WOk cur ro
  | name :: rest =>
      let cur1 := match cur with VPtr _ (Some x) => x | VPtr _ None => VInvalid | _ => cur end in   (* one Elem() *)
      match cur1 with
      | VStruct ty _ _ =>
          match assoc name (ti_byname (tget tys ty)) with
          | None => WErr
          | Some idx =>
              match follow tys name cur1 idx true ro with
              | Some (f, ro') => walk v tys f ro' rest
              | None => if resolve_unchecked_nil v then WPanic else WErr
              end
          end
      | _ => WErr
      end
  end.

(* MethodByName: is there a method, and how many parameters (without receiver) does it take *)
Definition has_method (tys : list tinfo) (v : value) (m : string) : option nat :=
  match v with
  | VStruct ty _ _ | VOther ty _ =>
      if mem_str m (ti_vm (tget tys ty)) then option_map m_nin (find_meth m (ti_pm (tget tys ty))) else None
  | VPtr ety _ => option_map m_nin (find_meth m (ti_pm (tget tys ety)))
  | VIface ity (Some _) => assoc m (ti_im (tget tys ity))
  | _ => None
  end.

(* calling the method value *)
Fixpoint invoke (tys : list tinfo) (fuel : nat) (v : value) (m : string) : outcome :=
  match fuel with
  | O => OCrash
  | S fuel' =>
      match v with
      | VIface _ (Some d) => invoke tys fuel' d m
      | VIface _ None | VInvalid => OPanicInCall
      | _ =>
          let bty := match v with VStruct ty _ _ => ty | VPtr ety _ => ety | VOther ty _ => ty | _ => 0 end in
          match find_meth m (ti_pm (tget tys bty)) with
          | None => OPanicInCall
          | Some mt =>
              match m_via mt with
              | None =>
                  match v with
                  | VPtr _ None => if m_ptrrecv mt then OInvoked ("nil-" ++ ti_short (tget tys bty)) m else OPanicInCall
                  | VPtr _ (Some x) => OInvoked (inst_of x) m
                  | _ => OInvoked (inst_of v) m
                  end
              | Some i =>
                  let base := match v with VPtr _ t => t | _ => Some v end in
                  match base with
                  | Some (VStruct _ _ fs) =>
                      match nth_error fs i with
                      | Some f => invoke tys fuel' f m
                      | None => OCrash
                      end
                  | _ => OPanicInCall         (* promoted through a nil outer pointer *)
                  end
              end
          end
      end
  end.

Definition fallback (name : string) (argc : nat) : outcome :=
  if String.eqb name "CallClosure" then (if Nat.eqb argc 2 then OClosureEntry else OArgCount) else ONoFunc.

Fixpoint last_str (l : list string) : string :=
  match l with [] => "" | [x] => x | _ :: r => last_str r end.

Definition resolve (v : variant) (tys : list tinfo) (root : value) (name : string) (argc : nat) : outcome :=
  let parts := split_dot name in
  match parts with
  | [""] => fallback name argc                       (* ErrInvalidFunctionCallPath *)
  | _ =>
      match walk v tys root false (removelast parts) with
      | WPanic => OCrash
      | WErr => fallback name argc
      | WOk f ro =>
          let m := last_str parts in
          let nil_target := match f with VInvalid => true | VIface _ None => true | _ => false end in
          if nil_target then
            (if resolve_unchecked_nil v then
               match f with
               | VInvalid => OCrash
               | VIface ity None => (match assoc m (ti_im (tget tys ity)) with Some _ => OCrash | None => fallback name argc end)
               | _ => fallback name argc
               end
             else fallback name argc)
          else
          match has_method tys f m with
          | None => fallback name argc
          | Some nin =>
              if Nat.eqb nin (argc + 1) then (if ro then OPanicInCall else invoke tys 20 f m)
              else OArgCount
          end
      end
  end.

(* ---- the property, written independently of the walk: what SHOULD be callable ---- *)
(* An exported name starts with an upper-case ASCII letter (the zoo uses ASCII identifiers). *)
Definition exported_name (s : string) : bool :=
  match s with
  | String c _ => let n := nat_of_ascii c in Nat.leb 65 n && Nat.leb n 90
  | EmptyString => false
  end.

(* well-formed type facts: exported flags agree with the names, method tables list exported names only
   (what reflect guarantees); re-checked by computation on the facts read from Go on every run *)
Definition wf_tinfo (t : tinfo) : bool :=
  forallb (fun p => Bool.eqb (snd p) (exported_name (fst p))) (ti_fields t) &&
  forallb exported_name (ti_vm t) &&
  forallb (fun m => exported_name (m_name m)) (ti_pm t) &&
  forallb (fun p => exported_name (fst p)) (ti_im t).
Definition wf_tys (tys : list tinfo) : bool := forallb wf_tinfo tys.

Fixpoint join_dot (l : list string) : string :=
  match l with
  | [] => ""
  | [x] => x
  | x :: r => x ++ "." ++ join_dot r
  end.

Fixpoint no_dot (s : string) : bool :=
  match s with
  | EmptyString => true
  | String c r => negb (Ascii.eqb c "."%char) && no_dot r
  end.
