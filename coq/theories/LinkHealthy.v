(* LinkHealthy.v — C16 (first clause) and C10 (last clause): while nothing goes wrong, the link stays
   up and Link does not return — whatever the traffic: any number of calls in both directions,
   handlers that return application errors, gated handlers, per-call cancellations, late and
   duplicate responses, responses for unknown ids.  "Something goes wrong" is exactly: the link
   context is cancelled, a read fails, a frame cannot be decoded, a fault is armed in the transport or
   the serializer, the peer names a function that does not exist / passes the wrong number or kind of
   arguments, or a handler panics ([benign] excludes these choices of the environment and nothing
   else).  Invariant [Healthy] over every benign run of Link.v (variant fixed). *)
From Verif Require Import Base Link LinkProofs LinkInv16 LinkInvB LinkInvH LinkInvC LinkInvT.

Definition ok_fn (f : fnkind) : bool :=
  match f with FPanic | FUnknown | FBadArgc | FBadArg => false | _ => true end.

Definition benign (c : choice) : bool :=
  match c with
  | Env EBadRes | Env (EFailReadRes _) | Env EBadReq | Env (EFailReadReq _) | Env (EArm _ _) => false
  | Env (ECancel c) => negb (N.eqb c 0)
  | Env (EDeliverReq f _) => ok_fn f
  | _ => true
  end.

Definition okst (t : tname) (st : tstate) : bool :=
  match t, st with
  | _, SetErrMid _ _ => false
  | TReq _, QStart f _ => ok_fn f
  | THandler _, HStart f _ => ok_fn f
  | TWatcher, WatchWoke => false
  | TLink, LReturn _ => false
  | TLink, LReturned => false
  | TCall _, CSelected None => false
  | _, _ => true
  end.

Definition quietb (e : event) : bool :=
  match e with EvReport _ | EvLinkReturn _ | EvCrash => false | _ => true end.

Record Healthy (s : lst) : Prop := mkH {
  h_open : bclosed s = false;
  h_fatal : fatal s = None;
  h_flt : flt s = no_faults;
  h_ctx : memN 0%N (cancelled s) = false;
  h_thr : forall t st, tget (threads s) t = Some st -> okst t st = true;
  h_evs : forallb quietb (evs s) = true;
  h_link : exists st, tget (threads s) TLink = Some st      (* the goroutine that called Link *)
}.

Lemma H_ext s s' :
  threads s' = threads s -> bclosed s' = bclosed s -> fatal s' = fatal s -> flt s' = flt s ->
  cancelled s' = cancelled s -> evs s' = evs s -> Healthy s -> Healthy s'.
Proof. intros A B C D E F [h1 h2 h3 h4 h5 h6 h7]. constructor; try congruence; rewrite A; auto. Qed.

Lemma H_gen s s' t st :
  okst t st = true -> threads s' = tset (threads s) t st -> bclosed s' = bclosed s -> fatal s' = fatal s ->
  flt s' = flt s -> cancelled s' = cancelled s -> evs s' = evs s -> Healthy s -> Healthy s'.
Proof.
  intros Hk A B C D E F [h1 h2 h3 h4 h5 h6 h7]. constructor; try congruence.
  - intros t' st' Ht. rewrite A, tget_tset in Ht. destruct (tname_eqb t' t) eqn:Eq; [|eauto].
    inversion Ht; subst. apply tname_eqb_eq in Eq. subst. exact Hk.
  - rewrite A, tget_tset. destruct (tname_eqb TLink t); eauto.
Qed.

Lemma H_setT s t st : okst t st = true -> Healthy s -> Healthy (setT s t st).
Proof. intros Hk H. eapply H_gen; [exact Hk|reflexivity..|exact H]. Qed.

Lemma H_with_ev s e : quietb e = true -> Healthy s -> Healthy (with_ev s e).
Proof. intros He [h1 h2 h3 h4 h5 h6 h7]. constructor; auto. simpl. rewrite He, h6. reflexivity. Qed.
Lemma H_with_closures s c : Healthy s -> Healthy (with_closures s c).
Proof. intros H. apply (H_ext s); [reflexivity..|exact H]. Qed.
Lemma H_do_free s id : Healthy s -> Healthy (do_free s id).
Proof. intros H. unfold do_free. destruct (lookupN id (tbl s)); [apply (H_ext s); [reflexivity..|exact H]|exact H]. Qed.

Lemma okst_wake1 calls s t st :
  memN 0%N (cancelled s) = false -> okst t st = true -> okst t (snd (wake1 calls s (t, st))) = true.
Proof.
  intros Hc H. destruct t; destruct st; simpl in *; auto; try rewrite Hc;
    repeat match goal with |- context [if ?c then _ else _] => destruct c; simpl; auto end; reflexivity.
Qed.

Lemma H_wake calls s : Healthy s -> Healthy (wake calls s).
Proof.
  intros [h1 h2 h3 h4 h5 h6 h7]. constructor; auto.
  - intros t st Ht. unfold wake in Ht; simpl in Ht. rewrite tget_map_wake_gen in Ht.
    destruct (tget (threads s) t) as [st0|] eqn:E; [|discriminate]. simpl in Ht. inversion Ht; subst.
    apply okst_wake1; auto.
  - destruct h7 as (st & Hst). unfold wake; simpl. rewrite tget_map_wake_gen, Hst. simpl. eauto.
Qed.

Lemma H_take_fault s k o s1 : Healthy s -> take_fault s k = (o, s1) -> o = None /\ Healthy s1.
Proof.
  intros H E. pose proof (h_flt _ H) as Hf. unfold take_fault in E. rewrite Hf in E.
  destruct k as [|[|[|k]]]; inversion E; subst; (split; [reflexivity|]);
    destruct H as [h1 h2 h3 h4 h5 h6 h7]; constructor; auto.
Qed.

Lemma H_loop_again calls s t st : okst t st = true -> Healthy s -> Healthy (loop_again calls s t st).
Proof. intros Hk H. unfold loop_again. rewrite (h_ctx _ H). apply H_setT; auto. Qed.

Lemma H_caller_return s i v e : Healthy s -> Healthy (caller_return s i v e).
Proof. intros H. unfold caller_return. apply H_with_ev; [reflexivity|]. apply H_setT; [reflexivity|]. apply H_with_closures; auto. Qed.

Lemma H_handler_respond calls s n v e : Healthy s -> Healthy (handler_respond calls s n v e).
Proof.
  intros H. unfold handler_respond.
  destruct (take_fault s 2) as [o s1] eqn:E1. destruct (H_take_fault _ _ _ _ H E1) as (-> & H1).
  rewrite (h_ctx _ H1).
  destruct (take_fault s1 1) as [o2 s2] eqn:E2. destruct (H_take_fault _ _ _ _ H1 E2) as (-> & H2).
  apply H_with_ev; [reflexivity|]. apply H_setT; [reflexivity|]. exact H2.
Qed.

Ltac hh := repeat first
 [ assumption
 | match goal with
   | |- Healthy (with_ev _ _) => apply H_with_ev; [reflexivity|]
   | |- Healthy (with_closures _ _) => apply H_with_closures
   | |- Healthy (wake _ _) => apply H_wake
   | |- Healthy (do_free _ _) => apply H_do_free
   | |- Healthy (caller_return _ _ _ _) => apply H_caller_return
   | |- Healthy (handler_respond _ _ _ _ _) => apply H_handler_respond
   | |- Healthy (loop_again _ _ _ _) => apply H_loop_again; [reflexivity|]
   | |- Healthy (setT _ _ _) => apply H_setT; [reflexivity|]
   end ].

Lemma memN_cons_false x y l : N.eqb y x = false -> memN y l = false -> memN y (x :: l) = false.
Proof. intros A B. simpl. rewrite A, B. reflexivity. Qed.

Lemma H_env calls s a s' : Healthy s -> benign (Env a) = true -> step_env fixed calls s a = Some s' -> Healthy s'.
Proof.
  intros HI Hb H. unfold step_env in H. destruct a as [i|id x e| |n|f arg| |n|c|which n]; simpl in Hb; try discriminate.
  - destruct (tget (threads s) (TCall i)) eqn:Ht; [discriminate|].
    destruct (nth_error calls i) as [cs|] eqn:Hn; [|discriminate].
    set (s0 := if c_closure cs then with_closures s (i :: closures s) else s) in *.
    assert (H0 : Healthy s0) by (unfold s0; destruct (c_closure cs); hh).
    destruct (take_fault s0 2) as [o s1] eqn:E1. destruct (H_take_fault _ _ _ _ H0 E1) as (-> & H1).
    rewrite (h_open _ H1) in H. inversion H; subst.
    eapply H_gen with (t := TCall i) (st := CRegistered (length (ents s1))); [reflexivity|reflexivity|simpl; symmetry; exact (h_open _ H1)|reflexivity..|exact H1].
  - destruct (tget (threads s) TResLoop) as [[]|] eqn:Ht; try discriminate.
    destruct (take_fault s 3) as [o s1] eqn:E1. destruct (H_take_fault _ _ _ _ HI E1) as (-> & H1).
    inversion H; subst. apply H_loop_again; [reflexivity|].
    eapply H_gen with (t := TPub (npub s1)) (st := PEnter id x e); [reflexivity|reflexivity..|exact H1].
  - destruct (tget (threads s) TReqLoop) as [[]|] eqn:Ht; try discriminate.
    destruct (take_fault s 3) as [o s1] eqn:E1. destruct (H_take_fault _ _ _ _ HI E1) as (-> & H1).
    inversion H; subst. apply H_loop_again; [reflexivity|].
    eapply H_gen with (t := TReq (nreq s1)) (st := QStart f arg); [exact Hb|reflexivity..|exact H1].
  - destruct (memN c (cancelled s)); [discriminate|]. inversion H; subst.
    apply H_wake. destruct HI as [h1 h2 h3 h4 h5 h6 h7]. constructor; auto. simpl.
    apply Bool.negb_true_iff in Hb. destruct c; [discriminate|]. simpl. exact h4.
Qed.

Lemma H_caller calls s i st s' :
  Healthy s -> tget (threads s) (TCall i) = Some st -> step_caller calls s i st = Some s' -> Healthy s'.
Proof.
  intros HI Ht H. unfold step_caller in H. destruct st; try discriminate.
  - set (s0 := setT s (TWaiter i) (WStart ent)) in *.
    assert (H0 : Healthy s0) by (unfold s0; hh).
    rewrite (h_ctx _ H0) in H.
    destruct (take_fault s0 0) as [o s1] eqn:E1. destruct (H_take_fault _ _ _ _ H0 E1) as (-> & H1).
    inversion H; subst. hh.
  - destruct o as [[x e|e]|].
    + destruct (Nat.eqb (c_nres (nth i calls dflt_call)) 1); [inversion H; subst; hh|].
      destruct (take_fault s 3) as [o s1] eqn:E1. destruct (H_take_fault _ _ _ _ HI E1) as (-> & H1).
      inversion H; subst; hh.
    + inversion H; subst; hh.
    + pose proof (h_thr _ HI _ _ Ht) as K. discriminate.
Qed.

Lemma H_waiter calls s i st b s' : Healthy s -> step_waiter fixed calls s i st b = Some s' -> Healthy s'.
Proof.
  intros HI H. unfold step_waiter in H. destruct st; try discriminate.
  - match type of H with (match ?c with _ => _ end) = _ => destruct c eqn:Ec end.
    + unfold only0 in H. destruct b; inversion H; subst; hh.
    + match type of H with (match ?c with _ => _ end) = _ => destruct c as [[n| |]|] eqn:En end; try discriminate.
      * destruct (tget (threads s) (TPub n)) as [[]|]; try discriminate.
        match type of H with (if ?c then _ else _) = _ => destruct c end; [|discriminate].
        inversion H; subst; hh.
      * inversion H; subst; hh.
      * inversion H; subst; hh.
  - unfold only0 in H. destruct b; [|discriminate]. simpl in H.
    destruct (tget (threads s) (TCall i)) as [[]|]; inversion H; subst; hh.
  - unfold only0 in H. destruct b; inversion H; subst; hh.
Qed.

Lemma H_pub s n st b s' : Healthy s -> step_pub s n st b = Some s' -> Healthy s'.
Proof.
  intros HI H. unfold step_pub in H. destruct st; try discriminate.
  - unfold only0 in H. destruct b; [|discriminate].
    destruct (bclosed s); [inversion H; subst; hh|].
    destruct (lookupN id (tbl s)); inversion H; subst; hh.
  - match type of H with (match ?c with _ => _ end) = _ => destruct c eqn:Ec end.
    + unfold only0 in H. destruct b; inversion H; subst; hh.
    + match type of H with (match ?c with _ => _ end) = _ => destruct c as [[i|]|] eqn:En end; try discriminate.
      * destruct (tget (threads s) (TWaiter i)) as [[]|]; try discriminate.
        match type of H with (if ?c then _ else _) = _ => destruct c end; [|discriminate].
        inversion H; subst; hh.
      * inversion H; subst; hh.
  - unfold only0 in H. destruct b; inversion H; subst; hh.
  - unfold only0 in H. destruct b; inversion H; subst; hh.
Qed.

Lemma H_callee calls s t n st s' :
  Healthy s -> tget (threads s) t = Some st -> step_callee calls s t n st = Some s' -> Healthy s'.
Proof.
  intros HI Ht H. pose proof (h_thr _ HI _ _ Ht) as K.
  unfold step_callee in H. destruct t; try discriminate; destruct st; try discriminate; simpl in K.
  - destruct f; try discriminate;
      (destruct (take_fault s 3) as [o s1] eqn:E1; destruct (H_take_fault _ _ _ _ HI E1) as (-> & H1);
       inversion H; subst; apply H_setT; [reflexivity|]; apply H_setT; [reflexivity|]; exact H1).
  - destruct f; try discriminate;
      try (inversion H; subst; hh; fail);
      try (destruct (handler_result _ arg) as [[x e]|]; inversion H; subst; hh).
  - inversion H; subst; hh.
Qed.

Lemma H_infra calls s t st s' :
  Healthy s -> tget (threads s) t = Some st -> step_infra fixed calls s t st = Some s' -> Healthy s'.
Proof.
  intros HI Ht H. pose proof (h_thr _ HI _ _ Ht) as K.
  unfold step_infra in H. destruct t; try discriminate; destruct st; try discriminate; simpl in K; try discriminate.
  - rewrite (h_fatal _ HI) in H. inversion H; subst; hh.
  - inversion H; subst. hh.
    destruct HI as [h1 h2 h3 h4 h5 h6 h7]. constructor; auto.
  - inversion H; subst. destruct HI as [h1 h2 h3 h4 h5 h6 h7]. constructor; auto.
    + intros t st Hg. simpl in Hg. rewrite tget_tset in Hg. destruct (tname_eqb t TSetup) eqn:Eq; [|eauto].
      inversion Hg; subst. apply tname_eqb_eq in Eq. subst. reflexivity.
    + simpl. rewrite tget_tset. simpl. exact h7.
Qed.

Lemma H_init : Healthy linit.
Proof.
  constructor; try reflexivity.
  - intros t st H. unfold linit, init_threads in H. simpl in H.
    destruct t; simpl in H; try discriminate; inversion H; subst; reflexivity.
  - exists LBeforeRead. reflexivity.
Qed.

Lemma H_step calls s c b s' : Healthy s -> benign c = true -> lstep fixed calls s c b = Some s' -> Healthy s'.
Proof.
  intros HI Hb H. unfold lstep in H. destruct (crashed s); [discriminate|].
  destruct c as [t|a].
  - destruct (tget (threads s) t) as [st|] eqn:Ht; [|discriminate].
    destruct st;
      try (pose proof (h_thr _ HI _ _ Ht) as K; destruct t; discriminate);
      destruct t;
      try (simpl in H; unfold only0 in H; destruct b; simpl in H; discriminate);
      try (unfold only0 in H; destruct b; [|discriminate]);
      try (eapply H_caller; eauto; fail);
      try (eapply H_waiter; eauto; fail);
      try (eapply H_pub; eauto; fail);
      try (eapply H_callee; eauto; fail);
      try (eapply H_infra; eauto; fail);
      try discriminate.
  - unfold only0 in H. destruct b; [|discriminate]. exact (H_env calls s a s' HI Hb H).
Qed.

Lemma H_run calls cs : forall s0 s,
  Healthy s0 -> forallb (fun c => benign (fst c)) cs = true -> lrun fixed calls s0 cs = Some s -> Healthy s.
Proof.
  induction cs as [|[c b] r IH]; intros s0 s H0 Hb H; simpl in *.
  - inversion H; subst; auto.
  - apply andb_prop in Hb as (Hc & Hr).
    destruct (lstep fixed calls s0 c b) eqn:E; [|discriminate]. eapply IH; [|exact Hr|exact H]. eapply H_step; eauto.
Qed.

(* while nothing goes wrong the link stays up: nothing is reported, the pending-call table stays open,
   the fatal slot stays empty and Link has not returned (it is before its read of the slot or waiting) *)
Lemma healthy_link_stays_up_lemma calls cs s :
  lrun fixed calls linit cs = Some s -> forallb (fun c => benign (fst c)) cs = true ->
  bclosed s = false /\ fatal s = None /\
  (forall e, ~ In (EvReport e) (evs s)) /\ (forall e, ~ In (EvLinkReturn e) (evs s)) /\
  (tget (threads s) TLink = Some LBeforeRead \/ tget (threads s) TLink = Some LWaiting).
Proof.
  intros Hr Hb. pose proof (H_run calls cs linit s H_init Hb Hr) as [h1 h2 h3 h4 h5 h6 (st & Hst)].
  split; [exact h1|]. split; [exact h2|].
  rewrite forallb_forall in h6.
  split; [intros e Hin; specialize (h6 _ Hin); discriminate|].
  split; [intros e Hin; specialize (h6 _ Hin); discriminate|].
  pose proof (h5 _ _ Hst) as K.
  destruct (InvT_reachable calls s (ex_intro _ cs Hr)) as (HT & _).
  pose proof (HT _ _ Hst) as Kk.
  destruct st; simpl in K, Kk; try discriminate; auto.
Qed.

(* non-vacuity: a benign run with a handler that returns an application error, a call that gets an
   application error back, a per-call cancellation and a late response for the cancelled call *)
Definition hl_calls : list callspec := [mkCall 1 2 false 10; mkCall 2 2 false 11].
Definition hl_schedule : list (choice * nat) :=
  [(Run TSetup, 0); (Run TLink, 0);
   (Env (EDeliverReq (FFail 3%N) 8%N), 0); (Run (TReq 0), 0); (Run (THandler 0), 0);
   (Env (EStart 0), 0); (Run (TCall 0), 0); (Run (TWaiter 0), 0);
   (Env (EStart 1), 0); (Run (TCall 1), 0); (Run (TWaiter 1), 0);
   (Env (EDeliverRes 0%N 70%N (Some 5%N)), 0); (Run (TPub 0), 0); (Run (TPub 0), 0);
   (Run (TWaiter 0), 0); (Run (TCall 0), 0);
   (Env (ECancel 2%N), 0); (Run (TWaiter 1), 0); (Run (TCall 1), 0); (Run (TWaiter 1), 0);
   (Env (EDeliverRes 1%N 71%N None), 0); (Run (TPub 1), 0)].

Example healthy_run_example :
  exists s, lrun fixed hl_calls linit hl_schedule = Some s /\
            forallb (fun c => benign (fst c)) hl_schedule = true /\
            In (EvResWritten 0 8%N (Some 3%N)) (evs s) /\
            In (EvReturn 0 70%N (Some (EApp 5%N))) (evs s) /\
            In (EvReturn 1 zero (Some (ECtx 2%N))) (evs s) /\
            In (EvDiscard 1%N) (evs s) /\
            tget (threads s) TLink = Some LWaiting.
Proof. eexists. split; [vm_compute; reflexivity|]. split; [reflexivity|]. simpl. tauto. Qed.
