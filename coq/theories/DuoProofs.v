(* DuoProofs.v — every run of the two-directional closed system (Duo.v) is, seen from either side, a
   run of the one-directional system (Pair.v); hence the end-to-end theorems hold for both directions
   of the same run: each side's calls get their own handlers' results from the other side. *)
From Verif Require Import Base Link LinkProofs LinkInv16 LinkInvB LinkInvR LinkInvQ LinkEvents Pair PairProofs Duo.

Section DuoProofs.
Variables fnA fnB : nat -> fnkind.
Variables callsA callsB : list callspec.
Notation dstep := (dstep fnA fnB callsA callsB).
Notation drun := (drun fnA fnB callsA callsB).

(* the view for direction A->B, and for direction B->A (roles swapped) *)
Definition viewAB (d : dst) : pst := mkP (da d) (db d) (dAB d).
Definition viewBA (d : dst) : pst := mkP (db d) (da d) (dBA d).

Lemma not_delivery c : is_delivery c = false -> is_res_delivery c = false /\ is_req_delivery c = false.
Proof. unfold is_delivery. intros H. apply Bool.orb_false_iff in H. exact H. Qed.

Lemma dstep_viewAB d a d' :
  dstep d a = Some d' -> exists l, length l <= 1 /\ prun fnA callsA callsB (viewAB d) l = Some (viewAB d').
Proof.
  intros H. destruct a as [c b|c b|i|n|j|m]; simpl in H.
  - destruct (is_delivery c) eqn:Ec; [discriminate|]. destruct (not_delivery _ Ec) as (E1 & E2).
    destruct (lstep fixed callsA (da d) c b) as [a'|] eqn:Es; [|discriminate]. inversion H; subst.
    exists [PA c b]. split; [simpl; lia|]. unfold viewAB; simpl. rewrite E1, Es. reflexivity.
  - destruct (is_delivery c) eqn:Ec; [discriminate|]. destruct (not_delivery _ Ec) as (E1 & E2).
    destruct (lstep fixed callsB (db d) c b) as [b'|] eqn:Es; [|discriminate]. inversion H; subst.
    exists [PB c b]. split; [simpl; lia|]. unfold viewAB; simpl. rewrite E2, Es. reflexivity.
  - destruct (req_written (evs (da d)) i) as [arg|] eqn:Ew; [|discriminate].
    destruct (lstep fixed callsB (db d) (Env (EDeliverReq (fnA i) arg)) 0) as [b'|] eqn:Es; [|discriminate]. inversion H; subst.
    exists [NReq i]. split; [simpl; lia|]. unfold viewAB; simpl. rewrite Ew, Es. reflexivity.
  - destruct (res_written (evs (db d)) n) as [[v e]|] eqn:Ew; [|discriminate].
    destruct (nth_error (dAB d) n) as [i|] eqn:En; [|discriminate].
    destruct (lstep fixed callsA (da d) (Env (EDeliverRes (N.of_nat i) v e)) 0) as [a'|] eqn:Es; [|discriminate]. inversion H; subst.
    exists [NRes n]. split; [simpl; lia|]. unfold viewAB; simpl. rewrite Ew, En, Es. reflexivity.
  - (* a request of B reaches A: for the direction A->B this is a free step of A *)
    destruct (req_written (evs (db d)) j) as [arg|] eqn:Ew; [|discriminate].
    destruct (lstep fixed callsA (da d) (Env (EDeliverReq (fnB j) arg)) 0) as [a'|] eqn:Es; [|discriminate]. inversion H; subst.
    exists [PA (Env (EDeliverReq (fnB j) arg)) 0]. split; [simpl; lia|]. unfold viewAB; simpl. rewrite Es. reflexivity.
  - (* a response of A reaches B: a free step of B *)
    destruct (res_written (evs (da d)) m) as [[v e]|] eqn:Ew; [|discriminate].
    destruct (nth_error (dBA d) m) as [j|] eqn:En; [|discriminate].
    destruct (lstep fixed callsB (db d) (Env (EDeliverRes (N.of_nat j) v e)) 0) as [b'|] eqn:Es; [|discriminate]. inversion H; subst.
    exists [PB (Env (EDeliverRes (N.of_nat j) v e)) 0]. split; [simpl; lia|]. unfold viewAB; simpl. rewrite Es. reflexivity.
Qed.

Lemma dstep_viewBA d a d' :
  dstep d a = Some d' -> exists l, length l <= 1 /\ prun fnB callsB callsA (viewBA d) l = Some (viewBA d').
Proof.
  intros H. destruct a as [c b|c b|i|n|j|m]; simpl in H.
  - destruct (is_delivery c) eqn:Ec; [discriminate|]. destruct (not_delivery _ Ec) as (E1 & E2).
    destruct (lstep fixed callsA (da d) c b) as [a'|] eqn:Es; [|discriminate]. inversion H; subst.
    exists [PB c b]. split; [simpl; lia|]. unfold viewBA; simpl. rewrite E2, Es. reflexivity.
  - destruct (is_delivery c) eqn:Ec; [discriminate|]. destruct (not_delivery _ Ec) as (E1 & E2).
    destruct (lstep fixed callsB (db d) c b) as [b'|] eqn:Es; [|discriminate]. inversion H; subst.
    exists [PA c b]. split; [simpl; lia|]. unfold viewBA; simpl. rewrite E1, Es. reflexivity.
  - destruct (req_written (evs (da d)) i) as [arg|] eqn:Ew; [|discriminate].
    destruct (lstep fixed callsB (db d) (Env (EDeliverReq (fnA i) arg)) 0) as [b'|] eqn:Es; [|discriminate]. inversion H; subst.
    exists [PA (Env (EDeliverReq (fnA i) arg)) 0]. split; [simpl; lia|]. unfold viewBA; simpl. rewrite Es. reflexivity.
  - destruct (res_written (evs (db d)) n) as [[v e]|] eqn:Ew; [|discriminate].
    destruct (nth_error (dAB d) n) as [i|] eqn:En; [|discriminate].
    destruct (lstep fixed callsA (da d) (Env (EDeliverRes (N.of_nat i) v e)) 0) as [a'|] eqn:Es; [|discriminate]. inversion H; subst.
    exists [PB (Env (EDeliverRes (N.of_nat i) v e)) 0]. split; [simpl; lia|]. unfold viewBA; simpl. rewrite Es. reflexivity.
  - destruct (req_written (evs (db d)) j) as [arg|] eqn:Ew; [|discriminate].
    destruct (lstep fixed callsA (da d) (Env (EDeliverReq (fnB j) arg)) 0) as [a'|] eqn:Es; [|discriminate]. inversion H; subst.
    exists [NReq j]. split; [simpl; lia|]. unfold viewBA; simpl. rewrite Ew, Es. reflexivity.
  - destruct (res_written (evs (da d)) m) as [[v e]|] eqn:Ew; [|discriminate].
    destruct (nth_error (dBA d) m) as [j|] eqn:En; [|discriminate].
    destruct (lstep fixed callsB (db d) (Env (EDeliverRes (N.of_nat j) v e)) 0) as [b'|] eqn:Es; [|discriminate]. inversion H; subst.
    exists [NRes m]. split; [simpl; lia|]. unfold viewBA; simpl. rewrite Ew, En, Es. reflexivity.
Qed.

Lemma prun_app fn cA cB l1 : forall l2 p p1, prun fn cA cB p l1 = Some p1 -> prun fn cA cB p (l1 ++ l2) = prun fn cA cB p1 l2.
Proof.
  induction l1 as [|a r IH]; intros l2 p p1 H; simpl in *.
  - inversion H; subst; reflexivity.
  - destruct (pstep fn cA cB p a); [apply IH; auto|discriminate].
Qed.

Lemma drun_viewAB l : forall d d', drun d l = Some d' -> exists l', prun fnA callsA callsB (viewAB d) l' = Some (viewAB d').
Proof.
  induction l as [|a r IH]; intros d d' H; simpl in H.
  - inversion H; subst. exists []. reflexivity.
  - destruct (dstep d a) as [d1|] eqn:E; [|discriminate].
    destruct (dstep_viewAB _ _ _ E) as (l1 & _ & H1). destruct (IH _ _ H) as (l2 & H2).
    exists (l1 ++ l2). rewrite (prun_app _ _ _ _ _ _ _ H1). exact H2.
Qed.

Lemma drun_viewBA l : forall d d', drun d l = Some d' -> exists l', prun fnB callsB callsA (viewBA d) l' = Some (viewBA d').
Proof.
  induction l as [|a r IH]; intros d d' H; simpl in H.
  - inversion H; subst. exists []. reflexivity.
  - destruct (dstep d a) as [d1|] eqn:E; [|discriminate].
    destruct (dstep_viewBA _ _ _ E) as (l1 & _ & H1). destruct (IH _ _ H) as (l2 & H2).
    exists (l1 ++ l2). rewrite (prun_app _ _ _ _ _ _ _ H1). exact H2.
Qed.

(* both directions of one run: each side's calls get their own handlers' results from the other side *)
Lemma duo_both_directions_lemma l d :
  drun dinit l = Some d ->
  (forall i v r oe, In (EvReturn i v r) (evs (da d)) -> genuine r = Some oe ->
     exists n x, nth_error (dAB d) n = Some i /\
                 In (EvInvoked n (fnA i) (c_arg (nth i callsA dflt_call))) (evs (db d)) /\
                 handler_result (fnA i) (c_arg (nth i callsA dflt_call)) = Some (x, oe) /\
                 v = (if nres1 callsA i then zero else x)) /\
  (forall j v r oe, In (EvReturn j v r) (evs (db d)) -> genuine r = Some oe ->
     exists m x, nth_error (dBA d) m = Some j /\
                 In (EvInvoked m (fnB j) (c_arg (nth j callsB dflt_call))) (evs (da d)) /\
                 handler_result (fnB j) (c_arg (nth j callsB dflt_call)) = Some (x, oe) /\
                 v = (if nres1 callsB j then zero else x)).
Proof.
  intros H. split.
  - intros i v r oe Hin Hg. destruct (drun_viewAB _ _ _ H) as (l' & Hl').
    exact (pair_result_is_own_handlers_lemma fnA callsA callsB l' (viewAB d) i v r oe Hl' Hin Hg).
  - intros j v r oe Hin Hg. destruct (drun_viewBA _ _ _ H) as (l' & Hl').
    exact (pair_result_is_own_handlers_lemma fnB callsB callsA l' (viewBA d) j v r oe Hl' Hin Hg).
Qed.

End DuoProofs.

(* non-vacuity: A calls B and, while that call's handler is stalled (gated), B calls A; B's call
   completes first, then the gate opens and A's call completes: an alternating chain of depth 2 *)
Definition du_callsA : list callspec := [mkCall 1 2 false 30].
Definition du_callsB : list callspec := [mkCall 1 2 false 40].
Definition du_fnA (i : nat) : fnkind := FGated.
Definition du_fnB (j : nat) : fnkind := FFail 6%N.
Definition du_sched : list dact :=
  [DA (Run TSetup) 0; DB (Run TSetup) 0;
   DA (Env (EStart 0)) 0; DA (Run (TCall 0)) 0; DA (Run (TWaiter 0)) 0;
   ReqAB 0; DB (Run (TReq 0)) 0; DB (Run (THandler 0)) 0;          (* B's handler is now inside application code *)
   DB (Env (EStart 0)) 0; DB (Run (TCall 0)) 0; DB (Run (TWaiter 0)) 0;  (* ... from where it calls A *)
   ReqBA 0; DA (Run (TReq 0)) 0; DA (Run (THandler 0)) 0; ResAB 0;
   DB (Run (TPub 0)) 0; DB (Run (TPub 0)) 0; DB (Run (TWaiter 0)) 0; DB (Run (TCall 0)) 0;
   DB (Run (THandler 0)) 0;                                           (* the inner call returned: B's handler returns *)
   ResBA 0; DA (Run (TPub 0)) 0; DA (Run (TPub 0)) 0; DA (Run (TWaiter 0)) 0; DA (Run (TCall 0)) 0].

Example duo_example :
  exists d, drun du_fnA du_fnB du_callsA du_callsB (dinit) du_sched = Some d /\
            In (EvReturn 0 40%N (Some (EApp 6%N))) (evs (db d)) /\
            In (EvReturn 0 30%N None) (evs (da d)) /\ dAB d = [0] /\ dBA d = [0].
Proof. eexists. split; [vm_compute; reflexivity|]. simpl. tauto. Qed.
