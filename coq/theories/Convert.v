(* Convert.v — convertValue (registry.go:516-542) as used for closure arguments
   (manager.go:42-54) and closure results (registry.go:443-467), over generically decoded values.

   Generic decode of the simple types of C11: JSON gives float64 / bool / string / []interface{} /
   nil; CBOR gives uint64 / int64 / float64 / bool / string / []interface{} / nil.  Numbers are
   kept as twice their value (so that x.5 is representable) with their dynamic Go kind. *)
From Verif Require Import Base.
From Coq Require Import ZArith.

Inductive nkind := KInt | KUint | KFloat.
Inductive gval :=
| GNum (k : nkind) (twice : Z)
| GBool (b : bool)
| GStr (s : N)                 (* strings are opaque here *)
| GList (l : list gval)        (* []interface{} *)
| GNil.                        (* nil interface: JSON null / CBOR null *)

Inductive gty := TInt | TFloat | TBool | TStr | TSlice (t : gty).

(* typed result values *)
Inductive tval :=
| VInt (z : Z) | VFloat (twice : Z) | VBool (b : bool) | VStr (s : N) | VRune (z : Z)
| VSlice (t : gty) (l : list tval).

Inductive cres := COk (v : tval) | CErr | CPanic.

Definition zero_of (t : gty) : tval :=
  match t with
  | TInt => VInt 0 | TFloat => VFloat 0 | TBool => VBool false | TStr => VStr 0 | TSlice t' => VSlice t' []
  end.

(* reflect.Type.ConvertibleTo + Value.Convert for the kinds that occur *)
Definition convert_scalar (v : gval) (t : gty) : option tval :=
  match v, t with
  | GNum KFloat tw, TInt => Some (VInt (Z.quot tw 2))           (* float -> int truncates towards zero *)
  | GNum _ tw, TInt => Some (VInt (Z.quot tw 2))
  | GNum _ tw, TFloat => Some (VFloat tw)
  | GNum KFloat _, TStr => None                                  (* float -> string is not convertible *)
  | GNum _ tw, TStr => Some (VRune (Z.quot tw 2))                (* integer -> string is (a rune conversion) *)
  | GBool b, TBool => Some (VBool b)
  | GStr s, TStr => Some (VStr s)
  | _, _ => None
  end.

Inductive lres := LOk (l : list tval) | LErr | LPanic.

Fixpoint convert_value (v : variant) (src : gval) (t : gty) : cres :=
  match src with
  | GNil => if convert_unchecked_nil v then CPanic else COk (zero_of t)
  | GList l =>
      match t with
      | TSlice t' =>
          match (fix go (l : list gval) : lres :=
                   match l with
                   | [] => LOk []
                   | x :: r =>
                       match convert_value v x t' with
                       | COk y => match go r with LOk ys => LOk (y :: ys) | o => o end
                       | CErr => LErr
                       | CPanic => LPanic
                       end
                   end) l with
          | LOk ys => COk (VSlice t' ys)
          | LErr => CErr
          | LPanic => CPanic
          end
      | _ => CErr
      end
  | _ => match convert_scalar src t with Some y => COk y | None => CErr end
  end.

(* a generically decoded value has the shape of type t (what the peer's serializer produces for a
   value of that type, or nil) *)
Fixpoint shaped (src : gval) (t : gty) : bool :=
  match src, t with
  | GNil, TSlice _ => true                      (* a nil slice arrives as nil *)
  | GNum _ _, TInt | GNum _ _, TFloat => true
  | GBool _, TBool | GStr _, TStr => true
  | GList l, TSlice t' => forallb (fun x => shaped x t') l
  | _, _ => false
  end.

(* ---- comparison with observed outcomes (correspondence check) ---- *)
Fixpoint tval_eqb (a b : tval) : bool :=
  match a, b with
  | VInt x, VInt y | VFloat x, VFloat y => Z.eqb x y
  | VBool x, VBool y => Bool.eqb x y
  | VStr x, VStr y => N.eqb x y
  | VRune _, VRune _ => true                 (* rune conversions are compared by class *)
  | VSlice _ l1, VSlice _ l2 =>
      (fix go (l1 l2 : list tval) : bool :=
         match l1, l2 with
         | [], [] => true
         | x :: r1, y :: r2 => tval_eqb x y && go r1 r2
         | _, _ => false
         end) l1 l2
  | _, _ => false
  end.

Definition cres_eqb (a b : cres) : bool :=
  match a, b with
  | COk x, COk y => tval_eqb x y
  | CErr, CErr | CPanic, CPanic => true
  | _, _ => false
  end.

Definition cmismatches (v : variant) (cases : list (gval * gty * cres)) : list nat :=
  let fix go (i : nat) (l : list (gval * gty * cres)) :=
    match l with
    | [] => []
    | (s, t, o) :: r => if cres_eqb (convert_value v s t) o then go (S i) r else i :: go (S i) r
    end in go 0 cases.
