(* LinkInv16.v — C16: the fatal slot holds the first reported error and Link returns it. *)
From Verif Require Import Base Link LinkProofs.

Lemma inv16_core s s' :
  fatal s' = fatal s -> first_report (evs s') = first_report (evs s) ->
  (forall e, In (EvLinkReturn e) (evs s') -> In (EvLinkReturn e) (evs s)) ->
  tget (threads s') TLink = tget (threads s) TLink -> Inv16 s -> Inv16 s'.
Proof.
  intros Hf He Hl Ht (H1 & H2 & H3). unfold Inv16, link_state_ok. rewrite Hf, He, Ht. repeat split; auto.
Qed.

Ltac ne_link := first [discriminate | congruence |
  match goal with Hx : tget _ ?t = Some ?st |- ?t <> TLink => intros ->; congruence end].

Ltac inv16_solve :=
  repeat first
    [ assumption
    | apply inv16_caller_panic | apply inv16_caller_return | apply inv16_handler_respond
    | apply inv16_loop_done | apply inv16_do_store
    | apply inv16_with_ev; [exact I|] | apply inv16_with_flt | apply inv16_with_closures
    | apply inv16_wake | apply inv16_do_free | apply inv16_do_close
    | apply inv16_begin_seterr; [ne_link|] | apply inv16_loop_again; [ne_link|]
    | apply inv16_setT; [ne_link|] ].

Lemma inv16_take_fault' s k o s1 : take_fault s k = (o, s1) -> Inv16 s -> Inv16 s1.
Proof. intros E H. pose proof (inv16_take_fault s k H) as H'. rewrite E in H'. exact H'. Qed.

Ltac tf :=
  repeat match goal with
         | E : take_fault ?s ?k = (_, ?s1) |- _ =>
             lazymatch goal with
             | _ : Inv16 s1 |- _ => fail
             | _ => assert (Inv16 s1) by (eapply inv16_take_fault'; [exact E|inv16_solve])
             end
         end.

Lemma Inv16_init : Inv16 linit.
Proof. repeat split; simpl; auto. intros e []. Qed.

Lemma inv16_upd s thr' tbl' bc' ents' canc' clos' rem' ld' flt' np' nq' evs' :
  Inv16 s -> tget thr' TLink = tget (threads s) TLink ->
  first_report evs' = first_report (evs s) ->
  (forall e, In (EvLinkReturn e) evs' -> In (EvLinkReturn e) (evs s)) ->
  Inv16 (mkL thr' tbl' bc' ents' canc' (fatal s) clos' rem' ld' flt' np' nq' evs' (crashed s)).
Proof.
  intros H Ht He Hl. eapply inv16_core; [| | | |exact H]; simpl; auto.
Qed.

Ltac lit :=
  apply inv16_upd; [try assumption
                   |simpl; rewrite ?tget_tset_other by discriminate; auto
                   |simpl; auto
                   |simpl; intuition (try discriminate)].

Ltac inv16_full :=
  repeat (lazymatch goal with
  | |- Inv16 (if ?c then _ else _) => destruct c
  | |- Inv16 (caller_panic _ _ _ _) => apply inv16_caller_panic
  | |- Inv16 (caller_return _ _ _ _) => apply inv16_caller_return
  | |- Inv16 (handler_respond _ _ _ _ _) => apply inv16_handler_respond
  | |- Inv16 (loop_done _) => apply inv16_loop_done
  | |- Inv16 (do_store _ _ _) => apply inv16_do_store
  | |- Inv16 (with_ev _ _) => apply inv16_with_ev; [exact I|]
  | |- Inv16 (with_flt _ _) => apply inv16_with_flt
  | |- Inv16 (with_closures _ _) => apply inv16_with_closures
  | |- Inv16 (wake _ _) => apply inv16_wake
  | |- Inv16 (do_free _ _) => apply inv16_do_free
  | |- Inv16 (do_close _) => apply inv16_do_close
  | |- Inv16 (begin_seterr _ _ _ _ _) => apply inv16_begin_seterr; [ne_link|]
  | |- Inv16 (loop_again _ _ _ _) => apply inv16_loop_again; [ne_link|]
  | |- Inv16 (setT _ _ _) => apply inv16_setT; [ne_link|]
  | |- Inv16 (mkL _ _ _ _ _ _ _ _ _ _ _ _ _ _) => lit
  | |- Inv16 ?x => is_var x; assumption
  end).

Ltac tf2 :=
  repeat match goal with
         | E : take_fault ?s ?k = (_, ?s1) |- _ =>
             lazymatch goal with
             | _ : Inv16 s1 |- _ => fail
             | _ => assert (Inv16 s1) by (eapply inv16_take_fault'; [exact E|inv16_full])
             end
         end.

Ltac brk H :=
  repeat (match type of H with
          | context [match ?x with _ => _ end] => destruct x eqn:?; try discriminate H
          end);
  try (inversion H; subst; clear H).

Ltac link_own HI :=
  destruct HI as (H1 & H2 & H3);
  match goal with E : tget (threads ?s) TLink = Some _ |- _ =>
    unfold link_state_ok in H2; rewrite E in H2 end;
  repeat split; simpl; auto;
  try (unfold link_state_ok, setT; simpl; rewrite tget_tset_same; auto);
  try (intros e' [Hc|Hin]; [inversion Hc; subst; auto|auto]).

Lemma Inv16_env calls s a s' : Inv16 s -> step_env fixed calls s a = Some s' -> Inv16 s'.
Proof. intros HI H. unfold step_env in H. brk H; tf2; inv16_full. Qed.

Lemma Inv16_caller calls s i st s' : Inv16 s -> step_caller calls s i st = Some s' -> Inv16 s'.
Proof. intros HI H. unfold step_caller in H. brk H; tf2; inv16_full. Qed.

Lemma Inv16_seterr s t e k s' : Inv16 s -> step_seterr fixed s t e k = Some s' -> Inv16 s'.
Proof.
  intros HI H. unfold step_seterr in H.
  destruct (tname_eqb t TLink) eqn:Et; [discriminate|].
  assert (Hne : t <> TLink) by (intros ->; rewrite tname_eqb_refl in Et; discriminate).
  brk H; inv16_full.
Qed.

Lemma Inv16_waiter calls s i st b s' : Inv16 s -> step_waiter fixed calls s i st b = Some s' -> Inv16 s'.
Proof. intros HI H. unfold step_waiter, only0 in H. brk H; tf2; inv16_full. Qed.

Lemma Inv16_pub s n st b s' : Inv16 s -> step_pub s n st b = Some s' -> Inv16 s'.
Proof. intros HI H. unfold step_pub, only0 in H. brk H; tf2; inv16_full. Qed.

Lemma Inv16_callee calls s t n st s' : Inv16 s -> step_callee calls s t n st = Some s' -> Inv16 s'.
Proof. intros HI H. unfold step_callee in H. brk H; tf2; inv16_full. Qed.

Lemma Inv16_infra calls s t st s' :
  Inv16 s -> tget (threads s) t = Some st -> step_infra fixed calls s t st = Some s' -> Inv16 s'.
Proof.
  intros HI Ht H. unfold step_infra in H. brk H; tf2; try (inv16_full; fail); link_own HI.
Qed.

Lemma Inv16_step calls s c b s' : Inv16 s -> lstep fixed calls s c b = Some s' -> Inv16 s'.
Proof.
  intros HI H. unfold lstep in H.
  destruct (crashed s); [discriminate|].
  destruct c as [t|a].
  - destruct (tget (threads s) t) as [st|] eqn:Ht; [|discriminate].
    destruct st;
      try (unfold only0 in H; destruct b; [|discriminate]; eapply Inv16_seterr; eauto; fail);
      destruct t;
      try (unfold only0 in H; destruct b; [|discriminate]);
      first [ eapply Inv16_caller; eauto; fail | eapply Inv16_waiter; eauto; fail | eapply Inv16_pub; eauto; fail
            | eapply Inv16_callee; eauto; fail | eapply Inv16_infra; eauto; fail ].
  - unfold only0 in H. destruct b; [|discriminate]. eapply Inv16_env; eauto.
Qed.

Lemma Inv16_run calls cs s : lrun fixed calls linit cs = Some s -> Inv16 s.
Proof.
  assert (G : forall s0, Inv16 s0 -> lrun fixed calls s0 cs = Some s -> Inv16 s).
  { induction cs as [|[c b] cs IH]; intros s0 H0 Hr; simpl in Hr.
    - inversion Hr; subst; auto.
    - destruct (lstep fixed calls s0 c b) eqn:E; [|discriminate].
      eapply IH; [eapply Inv16_step; eauto|auto]. }
  apply G. apply Inv16_init.
Qed.

(* ---- no step of the model sets the crash flag (all crash causes are variant-specific) ---- *)
Ltac crash_simpl :=
  unfold caller_panic, caller_return, handler_respond, begin_seterr, loop_again, loop_done, do_store, wake,
         do_free, do_close, take_fault, setT, with_ev, with_flt, with_closures, with_threads in *;
  repeat (simpl in *; try congruence;
          match goal with
          | |- context [match ?x with _ => _ end] => destruct x eqn:?
          | H : (_, _) = (_, _) |- _ => inversion H; subst; clear H
          end); simpl in *; try congruence; auto.

Lemma crashed_take_fault s k : crashed (snd (take_fault s k)) = crashed s.
Proof. unfold take_fault. destruct k as [|[|[|k]]]; reflexivity. Qed.

Lemma crashed_do_store v s e : crashed (do_store v s e) = crashed s.
Proof. unfold do_store. simpl. destruct (tget (threads s) TLink) as [[]|]; reflexivity. Qed.

Lemma crashed_wake calls s : crashed (wake calls s) = crashed s.
Proof. reflexivity. Qed.

Lemma crashed_begin_seterr calls s t e k : crashed (begin_seterr calls s t e k) = crashed s.
Proof. reflexivity. Qed.

Lemma crashed_loop_again calls s t st : crashed (loop_again calls s t st) = crashed s.
Proof. unfold loop_again. destruct (memN 0%N (cancelled s)); reflexivity. Qed.

Lemma crashed_loop_done s : crashed (loop_done s) = crashed s.
Proof.
  unfold loop_done. cbv zeta.
  match goal with |- crashed (if ?c then _ else _) = _ => destruct c end; [|reflexivity].
  match goal with |- crashed (match ?o with _ => _ end) = _ => destruct o as [[]|] end; reflexivity.
Qed.

Lemma crashed_do_free s id : crashed (do_free s id) = crashed s.
Proof. unfold do_free. destruct (lookupN id (tbl s)); reflexivity. Qed.

Lemma crashed_handler_respond calls s n v e : crashed (handler_respond calls s n v e) = crashed s.
Proof.
  unfold handler_respond.
  pose proof (crashed_take_fault s 2) as H2. destruct (take_fault s 2) as [[x|] s1]; simpl in H2.
  - rewrite crashed_begin_seterr; auto.
  - destruct (memN 0%N (cancelled s1)); [rewrite crashed_begin_seterr; auto|].
    pose proof (crashed_take_fault s1 1) as H3. destruct (take_fault s1 1) as [[x|] s2]; simpl in H3.
    + rewrite crashed_begin_seterr; congruence.
    + simpl. congruence.
Qed.

Ltac crash_full :=
  repeat (first
    [ rewrite crashed_handler_respond | rewrite crashed_loop_done | rewrite crashed_loop_again
    | rewrite crashed_do_store | rewrite crashed_do_free
    | progress (unfold caller_panic, caller_return, begin_seterr, wake, setT, with_ev, with_flt, with_closures, with_threads, do_close; simpl)
    | match goal with |- crashed (if ?c then _ else _) = _ => destruct c end
    | match goal with E : take_fault ?s ?k = (_, ?s1) |- context [crashed ?s1] =>
        let H := fresh in pose proof (crashed_take_fault s k) as H; rewrite E in H; simpl in H; rewrite H; clear E end
    ]); auto.

Lemma crashed_lstep v calls s c b s' : lstep v calls s c b = Some s' -> crashed s' = crashed s.
Proof.
  intros H. unfold lstep in H. destruct (crashed s) eqn:Hc; [discriminate|]. rewrite <- Hc.
  destruct c as [t|a].
  - destruct (tget (threads s) t) as [st|] eqn:Ht; [|discriminate].
    destruct st; destruct t;
      try (unfold only0 in H; destruct b; [|discriminate]);
      unfold step_seterr, step_caller, step_waiter, step_pub, step_callee, step_infra, only0 in H;
      brk H; crash_full.
  - unfold only0 in H. destruct b; [|discriminate]. unfold step_env in H. brk H; crash_full.
Qed.

Lemma crashed_lrun v calls cs s0 s : lrun v calls s0 cs = Some s -> crashed s = crashed s0.
Proof.
  revert s0. induction cs as [|[c b] cs IH]; intros s0 Hr; simpl in Hr.
  - inversion Hr; auto.
  - destruct (lstep v calls s0 c b) as [s1|] eqn:E; [|discriminate].
    rewrite (IH _ Hr). eapply crashed_lstep; eauto.
Qed.

Lemma lno_crash_lemma v calls s : lreachable v calls s -> crashed s = false.
Proof. intros [cs Hr]. apply crashed_lrun in Hr. rewrite Hr. reflexivity. Qed.

(* ---- statements used by Props/C16.v ---- *)
Lemma link_returns_first_lemma calls s e :
  lreachable fixed calls s -> In (EvLinkReturn e) (evs s) -> first_report (evs s) = Some e.
Proof. intros [cs Hr] Hin. apply Inv16_run in Hr as (H1 & H2 & H3). rewrite <- H1. auto. Qed.

Lemma link_not_blocked_once_ended_lemma calls s e :
  lreachable fixed calls s -> first_report (evs s) = Some e ->
  tget (threads s) TLink <> Some LWaiting /\
  (forall e', tget (threads s) TLink = Some (LReturn e') -> e' = e) /\
  (tget (threads s) TLink = Some LBeforeRead ->
   exists s', lstep fixed calls s (Run TLink) 0 = Some s' /\ tget (threads s') TLink = Some (LReturn e)).
Proof.
  intros Hreach Hf. pose proof (lno_crash_lemma _ _ _ Hreach) as Hc. destruct Hreach as [cs Hr].
  pose proof (Inv16_run _ _ _ Hr) as (H1 & H2 & H3).
  rewrite Hf in H1. unfold link_state_ok in H2. repeat split.
  - intros Hw. rewrite Hw in H2. congruence.
  - intros e' He'. rewrite He' in H2. congruence.
  - intros Hb. unfold lstep. rewrite Hc, Hb. simpl. rewrite H1.
    eexists; split; [reflexivity|]. unfold setT; simpl. apply tget_tset_same.
Qed.
