From Coq Require Import String.
From Verif Require Import Base Resolve.

Definition outcome_eqb (a b : outcome) : bool :=
  match a, b with
  | OInvoked i m, OInvoked j n => String.eqb i j && String.eqb m n
  | ONoFunc, ONoFunc | OArgCount, OArgCount | OPanicInCall, OPanicInCall | OClosureEntry, OClosureEntry | OCrash, OCrash => true
  | _, _ => false
  end.

Definition rmismatches (v : variant) (tys : list tinfo) (root : value) (cases : list (string * nat * outcome)) : list nat :=
  let fix go (i : nat) (l : list (string * nat * outcome)) :=
    match l with
    | [] => []
    | (n, a, o) :: r => if outcome_eqb (resolve v tys root n a) o then go (S i) r else i :: go (S i) r
    end in go 0 cases.

(* finite side conditions of the C06/C07 theorems, evaluated on the facts read from Go *)
Fixpoint nodes (fuel : nat) (v : value) : list value :=
  match fuel with
  | O => [v]
  | S f =>
      v :: match v with
           | VStruct _ _ fs => flat_map (nodes f) fs
           | VPtr _ (Some x) => nodes f x
           | VIface _ (Some x) => nodes f x
           | _ => []
           end
  end.

Definition all_meths (tys : list tinfo) : list string :=
  flat_map (fun t => (map m_name (ti_pm t) ++ map fst (ti_im t))%list) tys.

Definition is_crash (o : outcome) : bool := match o with OCrash => true | _ => false end.

Definition invoke_total (tys : list tinfo) (root : value) : bool :=
  forallb (fun v => forallb (fun m => negb (is_crash (invoke tys 20 v m))) (all_meths tys)) (nodes 12 root).
