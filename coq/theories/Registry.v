(* Registry.v — several links of one registry: the product of per-link endpoints (Link.v).
   Each link has its own pending-call table, fatal slot, reader loops and stub set (registry.go
   :603-625, created inside LinkMessage); what the links share is the closure table (keyed by fresh
   closure ids) and the remotes table (keyed by fresh remote ids).  Fresh ids are assumed distinct
   (uuid), so the shared tables are modelled as the disjoint union of the per-link parts. *)
From Verif Require Import Base Link.

Definition rstate := list lst.

Definition rstep (v : variant) (callss : list (list callspec)) (rs : rstate) (k : nat) (c : choice) (b : nat) : option rstate :=
  match nth_error rs k with
  | Some s => option_map (fun s' => upd rs k s') (lstep v (nth k callss []) s c b)
  | None => None
  end.

(* what the registry enumerates: the links whose remote is registered *)
Definition enumerated (rs : rstate) : list nat :=
  flat_map (fun p => if Nat.eqb (remotes (snd p)) 1 then [fst p] else []) (combine (seq 0 (length rs)) rs).

(* runs of the product: each step names the link that moves *)
Fixpoint rrun (v : variant) (callss : list (list callspec)) (rs : rstate) (sched : list (nat * choice * nat)) : option rstate :=
  match sched with
  | [] => Some rs
  | (k, c, b) :: r => match rstep v callss rs k c b with Some rs' => rrun v callss rs' r | None => None end
  end.

Definition rinit (n : nat) : rstate := repeat linit n.
Definition rreachable (v : variant) (callss : list (list callspec)) (n : nat) (rs : rstate) : Prop :=
  exists sched, rrun v callss (rinit n) sched = Some rs.

(* identities: link k carries the fresh id [rid k]; handlers of link k read [rid k] from their context,
   the connect / disconnect notifications of link k carry [rid k], the enumeration lists [rid k] *)
Section Ids.
Variable rid : nat -> N.
Definition enumerated_ids (rs : rstate) : list N := map rid (enumerated rs).
End Ids.
