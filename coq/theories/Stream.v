(* Stream.v — LinkStream's demultiplexer (registry.go:904-979): one decode goroutine reads
   envelopes and hands the request member to the request reader and the response member to the
   response reader (in that order), until decoding fails; from then on both readers get the
   decode error. *)
From Verif Require Import Base.

Record envelope := mkEnv { e_req : option N; e_res : option N }.
Inductive sitem := SEnv (e : envelope) | SErr (n : N).      (* what successive decode calls return *)

Inductive rd := RFrame (f : N) | RFail (n : N).              (* what a reader's read function returns *)

(* the sequence of results the request reader gets / the response reader gets *)
Fixpoint req_view (l : list sitem) : list rd :=
  match l with
  | [] => []
  | SErr n :: _ => [RFail n]
  | SEnv e :: r => match e_req e with Some f => RFrame f :: req_view r | None => req_view r end
  end.
Fixpoint res_view (l : list sitem) : list rd :=
  match l with
  | [] => []
  | SErr n :: _ => [RFail n]
  | SEnv e :: r => match e_res e with Some f => RFrame f :: res_view r | None => res_view r end
  end.

(* the message-API view of the same traffic: requests and responses as two independent sequences *)
Fixpoint requests_of (l : list sitem) : list N :=
  match l with
  | SEnv e :: r => match e_req e with Some f => f :: requests_of r | None => requests_of r end
  | _ => []
  end.
Fixpoint responses_of (l : list sitem) : list N :=
  match l with
  | SEnv e :: r => match e_res e with Some f => f :: responses_of r | None => responses_of r end
  | _ => []
  end.
Fixpoint first_err (l : list sitem) : option N :=
  match l with [] => None | SErr n :: _ => Some n | _ :: r => first_err r end.
