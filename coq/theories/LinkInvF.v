(* LinkInvF.v — C03: "the link has ended" always means "the pending-call table is closed".
   While the table is open nobody is inside setErr and the fatal slot is empty: every failure, of
   whatever kind, closes the table in the very step in which it is noticed, before it is reported.
   So once anything was reported (or Link returned) the progress theorems of C03 apply.
   Invariant over all reachable states of Link.v (variant fixed). *)
From Verif Require Import Base Link LinkProofs LinkInv16 LinkInvB.

Definition mid (o : option tstate) : bool := match o with Some (SetErrMid _ _) => true | _ => false end.

Definition InvF (s : lst) : Prop :=
  bclosed s = false -> fatal s = None /\ forall t, mid (tget (threads s) t) = false.

(* s' is closed, or nothing relevant changed *)
Definition keepF (s s' : lst) : Prop :=
  bclosed s' = true \/
  (bclosed s' = bclosed s /\ fatal s' = fatal s /\ forall t, mid (tget (threads s') t) = true -> mid (tget (threads s) t) = true).

Lemma keepF_InvF s s' : keepF s s' -> InvF s -> InvF s'.
Proof.
  intros [K|(K1 & K2 & K3)] H Hb; [congruence|]. destruct H as (A & B); [congruence|].
  split; [congruence|]. intros t. destruct (mid (tget (threads s') t)) eqn:E; auto. apply K3 in E. rewrite B in E. discriminate.
Qed.
Lemma keepF_refl s : keepF s s.
Proof. right; auto. Qed.
Lemma keepF_trans a b c : keepF a b -> keepF b c -> keepF a c.
Proof.
  intros [K|(K1 & K2 & K3)] [L|(L1 & L2 & L3)]; try (left; congruence).
  right. split; [congruence|]. split; [congruence|]. auto.
Qed.
Lemma keepF_ext s s' : threads s' = threads s -> bclosed s' = bclosed s -> fatal s' = fatal s -> keepF s s'.
Proof. intros A B C. right. rewrite A. auto. Qed.
Lemma keepF_gen s s' t st :
  mid (Some st) = false -> threads s' = tset (threads s) t st -> bclosed s' = bclosed s -> fatal s' = fatal s -> keepF s s'.
Proof.
  intros Hm A B C. right. split; [exact B|]. split; [exact C|]. intros t'. rewrite A, tget_tset.
  destruct (tname_eqb t' t); [rewrite Hm; discriminate|auto].
Qed.
Lemma keepF_setT s t st : mid (Some st) = false -> keepF s (setT s t st).
Proof. intros Hm. eapply keepF_gen; [exact Hm|reflexivity|reflexivity|reflexivity]. Qed.
Lemma keepF_wake calls s : keepF s (wake calls s).
Proof.
  right. split; [reflexivity|]. split; [reflexivity|]. intros t. unfold wake; simpl. rewrite tget_map_wake_gen.
  destruct (tget (threads s) t) as [st|]; [|auto]. simpl.
  destruct t; destruct st; simpl; auto;
    repeat match goal with |- context [if ?c then _ else _] => destruct c; simpl; auto end.
Qed.
Lemma keepF_do_free s id : keepF s (do_free s id).
Proof. unfold do_free. destruct (lookupN id (tbl s)); [apply keepF_ext; reflexivity|apply keepF_refl]. Qed.
Lemma keepF_loop_again calls s t st : mid (Some st) = false -> keepF s (loop_again calls s t st).
Proof. intros Hm. unfold loop_again. destruct (memN 0%N (cancelled s)); [left; reflexivity|apply keepF_setT; auto]. Qed.
Lemma keepF_loop_done s : keepF s (loop_done s).
Proof.
  unfold loop_done. cbv zeta.
  match goal with |- keepF _ (if ?c then _ else ?x) =>
    assert (Hx : keepF s x) by (apply keepF_ext; reflexivity); destruct c; auto end.
  match goal with |- keepF _ (match ?o with _ => _ end) => destruct o as [[]|]; auto end.
  eapply keepF_trans; [exact Hx|]. apply keepF_setT. reflexivity.
Qed.
Lemma keepF_take_fault s k o s1 : take_fault s k = (o, s1) -> keepF s s1.
Proof. intros E. unfold take_fault in E. destruct k as [|[|[|k]]]; inversion E; subst; apply keepF_ext; reflexivity. Qed.
Lemma keepF_with_ev s e : keepF s (with_ev s e).
Proof. apply keepF_ext; reflexivity. Qed.
Lemma keepF_with_flt s f : keepF s (with_flt s f).
Proof. apply keepF_ext; reflexivity. Qed.
Lemma keepF_with_closures s c : keepF s (with_closures s c).
Proof. apply keepF_ext; reflexivity. Qed.

Ltac kf :=
  repeat first
    [ apply keepF_refl
    | match goal with
      | |- keepF ?a (with_ev ?b _) => eapply keepF_trans; [|apply keepF_with_ev]
      | |- keepF ?a (with_flt ?b _) => eapply keepF_trans; [|apply keepF_with_flt]
      | |- keepF ?a (with_closures ?b _) => eapply keepF_trans; [|apply keepF_with_closures]
      | |- keepF ?a (wake _ ?b) => eapply keepF_trans; [|apply keepF_wake]
      | |- keepF ?a (do_free ?b _) => eapply keepF_trans; [|apply keepF_do_free]
      | |- keepF ?a (loop_done ?b) => eapply keepF_trans; [|apply keepF_loop_done]
      | |- keepF ?a (begin_seterr _ ?b _ _ _) => left; reflexivity
      | |- keepF ?a (caller_panic _ ?b _ _) => left; reflexivity
      | |- keepF ?a (loop_again _ ?b _ _) => eapply keepF_trans; [|apply keepF_loop_again; reflexivity]
      | |- keepF ?a (setT ?b _ _) => eapply keepF_trans; [|apply keepF_setT; reflexivity]
      | E : take_fault ?b _ = (_, ?c) |- keepF ?a ?c => eapply keepF_trans; [|apply (keepF_take_fault _ _ _ _ E)]
      end ].

Lemma keepF_caller_return s i v e : keepF s (caller_return s i v e).
Proof. unfold caller_return. kf. Qed.
Lemma keepF_handler_respond calls s n v e : keepF s (handler_respond calls s n v e).
Proof.
  unfold handler_respond.
  destruct (take_fault s 2) as [[x|] s1] eqn:E1; [left; reflexivity|].
  destruct (memN 0%N (cancelled s1)); [left; reflexivity|].
  destruct (take_fault s1 1) as [[x|] s2] eqn:E2; [left; reflexivity|]. kf.
Qed.

Lemma keepF_env calls s a s' : step_env fixed calls s a = Some s' -> keepF s s'.
Proof.
  intros H. unfold step_env in H. destruct a as [i|id x e| |n|f arg| |n|c|which n].
  - destruct (tget (threads s) (TCall i)) eqn:Ht; [discriminate|].
    destruct (nth_error calls i) as [cs|] eqn:Hn; [|discriminate].
    set (s0 := if c_closure cs then with_closures s (i :: closures s) else s) in *.
    assert (H0 : keepF s s0) by (unfold s0; destruct (c_closure cs); kf).
    destruct (take_fault s0 2) as [[x|] s1] eqn:E1; [inversion H; subst; left; reflexivity|].
    destruct (bclosed s1) eqn:Eb; inversion H; subst; [left; simpl; exact Eb|].
    eapply keepF_trans; [exact H0|]. eapply keepF_trans; [apply (keepF_take_fault _ _ _ _ E1)|].
    eapply keepF_gen with (t := TCall i) (st := CRegistered (length (ents s1))); [reflexivity|reflexivity|simpl; congruence|reflexivity].
  - destruct (tget (threads s) TResLoop) as [[]|] eqn:Ht; try discriminate.
    destruct (take_fault s 3) as [[y|] s1] eqn:E1; inversion H; subst; [left; reflexivity|].
    kf. eapply keepF_trans; [apply (keepF_take_fault _ _ _ _ E1)|].
    eapply keepF_gen with (t := TPub (npub s1)) (st := PEnter id x e); reflexivity.
  - destruct (tget (threads s) TResLoop) as [[]|] eqn:Ht; try discriminate.
    destruct (take_fault s 3) as [[y|] s1] eqn:E1; inversion H; subst; left; reflexivity.
  - destruct (tget (threads s) TResLoop) as [[]|] eqn:Ht; try discriminate. inversion H; subst; left; reflexivity.
  - destruct (tget (threads s) TReqLoop) as [[]|] eqn:Ht; try discriminate.
    destruct (take_fault s 3) as [[y|] s1] eqn:E1; inversion H; subst; [left; reflexivity|].
    kf. eapply keepF_trans; [apply (keepF_take_fault _ _ _ _ E1)|].
    eapply keepF_gen with (t := TReq (nreq s1)) (st := QStart f arg); reflexivity.
  - destruct (tget (threads s) TReqLoop) as [[]|] eqn:Ht; try discriminate.
    destruct (take_fault s 3) as [[y|] s1] eqn:E1; inversion H; subst; left; reflexivity.
  - destruct (tget (threads s) TReqLoop) as [[]|] eqn:Ht; try discriminate. inversion H; subst; left; reflexivity.
  - destruct (memN c (cancelled s)); [discriminate|]. inversion H; subst.
    eapply keepF_trans; [|apply keepF_wake]. apply keepF_ext; reflexivity.
  - inversion H; subst. kf.
Qed.

Lemma keepF_caller calls s i st s' : step_caller calls s i st = Some s' -> keepF s s'.
Proof.
  intros H. unfold step_caller in H. destruct st; try discriminate.
  - set (s0 := setT s (TWaiter i) (WStart ent)) in *.
    assert (H0 : keepF s s0) by (unfold s0; kf).
    destruct (memN 0%N (cancelled s0)); [inversion H; subst; left; reflexivity|].
    destruct (take_fault s0 0) as [[x|] s1] eqn:E1; inversion H; subst; [left; reflexivity|].
    eapply keepF_trans; [exact H0|]. kf.
  - destruct o as [[x e|e]|].
    + destruct (Nat.eqb (c_nres (nth i calls dflt_call)) 1); [inversion H; subst; apply keepF_caller_return|].
      destruct (take_fault s 3) as [[y|] s1] eqn:E1; inversion H; subst; [left; reflexivity|].
      eapply keepF_trans; [apply (keepF_take_fault _ _ _ _ E1)|apply keepF_caller_return].
    + inversion H; subst; apply keepF_caller_return.
    + inversion H; subst; left; reflexivity.
Qed.

Lemma bclosed_do_store' v s e : bclosed (do_store v s e) = bclosed s.
Proof. unfold do_store. simpl. destruct (tget (threads s) TLink) as [[]|]; reflexivity. Qed.
Lemma bclosed_loop_done' s : bclosed (loop_done s) = bclosed s.
Proof.
  unfold loop_done. cbv zeta. destruct (Nat.leb 2 (S (loops_done s))); [|reflexivity]. simpl.
  destruct (tget (threads s) TSetup) as [[]|]; reflexivity.
Qed.

(* the second half of setErr happens on a closed table: the thread was inside setErr *)
Lemma InvF_seterr s t e k s' :
  tget (threads s) t = Some (SetErrMid e k) -> InvF s -> step_seterr fixed s t e k = Some s' -> InvF s'.
Proof.
  intros Ht HF H. unfold step_seterr in H. destruct (tname_eqb t TLink); [discriminate|].
  assert (Hb : bclosed s = true).
  { destruct (bclosed s) eqn:Eb; auto. destruct (HF Eb) as (_ & B). specialize (B t). rewrite Ht in B. discriminate. }
  intros Hb'. exfalso.
  destruct k as [|e'|]; [|destruct t|]; inversion H; subst; simpl in Hb'; try rewrite bclosed_loop_done' in Hb'; simpl in Hb';
    rewrite bclosed_do_store' in Hb'; congruence.
Qed.

Lemma keepF_waiter calls s i st b s' : step_waiter fixed calls s i st b = Some s' -> keepF s s'.
Proof.
  intros H. unfold step_waiter in H. destruct st; try discriminate.
  - match type of H with (match ?c with _ => _ end) = _ => destruct c eqn:Ec end.
    + unfold only0 in H. destruct b; inversion H; subst; kf.
    + match type of H with (match ?c with _ => _ end) = _ => destruct c as [[n| |]|] eqn:En end; try discriminate.
      * destruct (tget (threads s) (TPub n)) as [[]|]; try discriminate.
        match type of H with (if ?c then _ else _) = _ => destruct c end; [|discriminate].
        inversion H; subst; kf.
      * inversion H; subst; kf.
      * inversion H; subst; kf.
  - unfold only0 in H. destruct b; [|discriminate]. simpl in H.
    destruct (tget (threads s) (TCall i)) as [[]|]; inversion H; subst; kf.
  - unfold only0 in H. destruct b; inversion H; subst; kf.
Qed.

Lemma keepF_pub s n st b s' : step_pub s n st b = Some s' -> keepF s s'.
Proof.
  intros H. unfold step_pub in H. destruct st; try discriminate.
  - unfold only0 in H. destruct b; [|discriminate].
    destruct (bclosed s); [inversion H; subst; kf|].
    destruct (lookupN id (tbl s)); inversion H; subst; kf.
  - match type of H with (match ?c with _ => _ end) = _ => destruct c eqn:Ec end.
    + unfold only0 in H. destruct b; inversion H; subst; kf.
    + match type of H with (match ?c with _ => _ end) = _ => destruct c as [[i|]|] eqn:En end; try discriminate.
      * destruct (tget (threads s) (TWaiter i)) as [[]|]; try discriminate.
        match type of H with (if ?c then _ else _) = _ => destruct c end; [|discriminate].
        inversion H; subst; kf.
      * inversion H; subst; kf.
  - unfold only0 in H. destruct b; inversion H; subst; kf.
  - unfold only0 in H. destruct b; inversion H; subst; kf.
Qed.

Lemma keepF_callee calls s t n st s' : step_callee calls s t n st = Some s' -> keepF s s'.
Proof.
  intros H. unfold step_callee in H. destruct t; try discriminate; destruct st; try discriminate.
  - destruct f; try (inversion H; subst; left; reflexivity);
      destruct (take_fault s 3) as [[y|] s1] eqn:E1; inversion H; subst; try (left; reflexivity); kf.
  - destruct f; try (inversion H; subst; left; reflexivity); try (inversion H; subst; kf; fail);
      try (destruct (handler_result _ arg) as [[x e]|]; inversion H; subst;
           (eapply keepF_trans; [|apply keepF_handler_respond]); kf).
  - inversion H; subst. apply keepF_handler_respond.
Qed.

Lemma keepF_infra calls s t st s' : step_infra fixed calls s t st = Some s' -> keepF s s'.
Proof.
  intros H. unfold step_infra in H. destruct t; try discriminate; destruct st; try discriminate.
  - inversion H; subst; left; reflexivity.
  - destruct (fatal s); inversion H; subst; kf.
  - inversion H; subst; kf.
  - inversion H; subst. kf. apply keepF_ext; reflexivity.
  - inversion H; subst. eapply keepF_gen with (t := TSetup) (st := Finished); reflexivity.
Qed.

Lemma InvF_step calls s c b s' : InvF s -> lstep fixed calls s c b = Some s' -> InvF s'.
Proof.
  intros HI H. unfold lstep in H. destruct (crashed s); [discriminate|].
  destruct c as [t|a].
  - destruct (tget (threads s) t) as [st|] eqn:Ht; [|discriminate].
    destruct st;
      try (unfold only0 in H; destruct b; [|discriminate]; eapply InvF_seterr; eauto; fail);
      destruct t;
      try (unfold only0 in H; destruct b; [|discriminate]);
      try (eapply keepF_InvF; [eapply keepF_caller; eauto|exact HI]; fail);
      try (eapply keepF_InvF; [eapply keepF_waiter; eauto|exact HI]; fail);
      try (eapply keepF_InvF; [eapply keepF_pub; eauto|exact HI]; fail);
      try (eapply keepF_InvF; [eapply keepF_callee; eauto|exact HI]; fail);
      try (eapply keepF_InvF; [eapply keepF_infra; eauto|exact HI]; fail);
      try discriminate.
  - unfold only0 in H. destruct b; [|discriminate]. eapply keepF_InvF; [eapply keepF_env; eauto|exact HI].
Qed.

Lemma InvF_run calls cs : forall s0 s, InvF s0 -> lrun fixed calls s0 cs = Some s -> InvF s.
Proof.
  induction cs as [|[c b] r IH]; intros s0 s H0 H; simpl in H.
  - inversion H; subst; auto.
  - destruct (lstep fixed calls s0 c b) eqn:E; [|discriminate]. eapply IH; [|exact H]. eapply InvF_step; eauto.
Qed.

Lemma InvF_reachable calls s : lreachable fixed calls s -> InvF s.
Proof.
  intros (cs & H). eapply InvF_run; [|exact H]. intros _. split; [reflexivity|].
  intros t. unfold linit, init_threads; simpl. destruct t; reflexivity.
Qed.

(* whenever a failure of any kind has been noticed (a thread is inside setErr), reported (the slot is
   written) or returned by Link, the pending-call table is closed: C03's progress theorems apply *)
Lemma ended_means_closed_lemma calls s :
  lreachable fixed calls s ->
  (fatal s <> None \/ (exists t e k, tget (threads s) t = Some (SetErrMid e k)) \/ (exists e, In (EvLinkReturn e) (evs s))) ->
  bclosed s = true.
Proof.
  intros Hr Hc. destruct (bclosed s) eqn:Eb; auto. exfalso.
  destruct (InvF_reachable calls s Hr Eb) as (A & B).
  destruct Hc as [Hc|[(t & e & k & Ht)|(e & Hin)]].
  - congruence.
  - specialize (B t). rewrite Ht in B. discriminate.
  - destruct Hr as (cs & Hrun). destruct (Inv16_run _ _ _ Hrun) as (_ & _ & H3). rewrite (H3 _ Hin) in A. discriminate.
Qed.
