(* RegionsProofs.v — under the discipline of Regions.v: leaf sections are closed pieces of code, the mutex a
   thread waits for outranks every mutex it holds, and no wait-for cycle exists. *)
From Verif Require Import Base Regions.

Lemma regions_ok_in tbl r : regions_ok tbl = true -> In r tbl -> region_ok r = true.
Proof. unfold regions_ok. rewrite forallb_forall. auto. Qed.

Lemma region_ok_inner r : region_ok r = true -> r_inner r = 0.
Proof. unfold region_ok. intros H. apply andb_prop in H as [H _]. apply Nat.eqb_eq in H. exact H. Qed.

Lemma is_nil_true {A} (l : list A) : is_nil l = true -> l = [].
Proof. destruct l; simpl; congruence. Qed.

Lemma region_ok_leaf r : region_ok r = true -> rank (r_mutex r) = 1 ->
  r_dynamic r = [] /\ forallb is_own_wait (r_blocking r) = true.
Proof.
  unfold region_ok. intros H Hr. apply andb_prop in H as [_ H].
  destruct (r_mutex r); simpl in Hr; [discriminate|].
  apply andb_prop in H as [H1 H2]. split; [apply is_nil_true; exact H1|exact H2].
Qed.

Lemma region_ok_dynamic_outer r : region_ok r = true -> r_dynamic r <> [] -> rank (r_mutex r) = 0.
Proof.
  intros H Hd. destruct (rank (r_mutex r)) as [|n] eqn:E; [reflexivity|].
  assert (E1 : rank (r_mutex r) = 1) by (destruct (r_mutex r); simpl in *; [discriminate|reflexivity]).
  destruct (region_ok_leaf r H E1) as [H1 _]. contradiction.
Qed.

(* the invariant of a thread *)
Fixpoint descending (st : list region) : Prop :=
  match st with
  | [] => True
  | r :: st' => Forall (fun r' => rank (r_mutex r') < rank (r_mutex r)) st' /\ descending st'
  end.

Definition TInv (tbl : list region) (t : tstate) : Prop :=
  Forall (fun r => In r tbl) (stack t) /\ descending (stack t) /\
  (forall m, want t = Some m -> Forall (fun r => rank (r_mutex r) < rank m) (stack t)).

Lemma treach_inv tbl t : regions_ok tbl = true -> treach tbl t -> TInv tbl t.
Proof.
  intros Hok H. induction H as [|m _ _|st m r _ IH Hin Hm|r st _ IH|r st m _ IH Hne|r st k _ IH Hne].
  - split; [|split]; simpl; auto; try (intros m Hm; discriminate).
  - split; [|split]; simpl; auto.
  - destruct IH as (A & B & C). simpl in *. split; [|split].
    + constructor; assumption.
    + split; [|exact B]. subst m. apply (C _ eq_refl).
    + intros m' Hm'; discriminate.
  - destruct IH as (A & B & C). simpl in *. inversion A; subst. destruct B as [_ B]. split; [|split]; auto.
    intros m Hm; discriminate.
  - destruct IH as (A & _ & _). simpl in A. inversion A; subst.
    exfalso. apply Hne. apply region_ok_inner. apply (regions_ok_in tbl); assumption.
  - destruct IH as (A & B & C). simpl in *. inversion A as [|? ? Hr Hst]; subst.
    assert (R0 : rank (r_mutex r) = 0) by (apply region_ok_dynamic_outer; [apply (regions_ok_in tbl); assumption|exact Hne]).
    split; [|split]; auto.
    intros m Hm. inversion Hm; subst m. constructor; [simpl; lia|].
    destruct B as [B _]. eapply Forall_impl; [|exact B]. simpl. intros a Ha. lia.
Qed.

Lemma ranks_lemma tbl t m r :
  regions_ok tbl = true -> treach tbl t -> want t = Some m -> In r (stack t) -> rank (r_mutex r) < rank m.
Proof.
  intros Hok Ht Hm Hr. destruct (treach_inv tbl t Hok Ht) as (_ & _ & C).
  specialize (C m Hm). rewrite Forall_forall in C. apply C; exact Hr.
Qed.

Lemma own_code_never_nests_lemma tbl t r st :
  regions_ok tbl = true -> treach tbl t -> stack t = r :: st -> r_inner r = 0.
Proof.
  intros Hok Ht Hs. destruct (treach_inv tbl t Hok Ht) as (A & _ & _). rewrite Hs in A. inversion A; subst.
  apply region_ok_inner. apply (regions_ok_in tbl); assumption.
Qed.

Lemma leaf_sections_closed_lemma tbl t r st :
  regions_ok tbl = true -> treach tbl t -> stack t = r :: st -> rank (r_mutex r) = 1 ->
  want t = None /\ r_dynamic r = [] /\ forallb is_own_wait (r_blocking r) = true /\ r_inner r = 0.
Proof.
  intros Hok Ht Hs Hr. destruct (treach_inv tbl t Hok Ht) as (A & _ & C). rewrite Hs in A, C.
  inversion A as [|? ? Hin _]; subst.
  pose proof (regions_ok_in tbl r Hok Hin) as Hro.
  destruct (region_ok_leaf r Hro Hr) as [D E]. repeat split; auto.
  - destruct (want t) as [m|] eqn:W; [|reflexivity].
    specialize (C m eq_refl). inversion C as [|? ? Hlt _]; subst.
    destruct m; simpl in Hlt; lia.
  - apply region_ok_inner; exact Hro.
Qed.

(* ---- no wait-for cycle ---- *)
Definition wr (t : tstate) : nat := match want t with Some m => rank m | None => 0 end.

Lemma waits_lt tbl a b : regions_ok tbl = true -> treach tbl b -> waits_on a b -> want b <> None -> wr a < wr b.
Proof.
  intros Hok Hb (m & Hwa & (r & Hr & Hm)) Hwb. unfold wr. rewrite Hwa.
  destruct (want b) as [mb|] eqn:W; [|congruence].
  subst m. eapply ranks_lemma; eauto.
Qed.

Lemma waits_wants a b : waits_on a b -> want a <> None.
Proof. intros (m & H & _). congruence. Qed.

Lemma last_cons {A} (r : list A) (a b : A) : last (b :: r) a = last r b.
Proof. revert a b. induction r as [|c r IH]; intros a b; [reflexivity|]. change (last (b :: c :: r) a) with (last (c :: r) a). rewrite (IH a c), (IH b c). reflexivity. Qed.

Lemma last_in {A} (r : list A) (b a : A) : In (last (b :: r) a) (b :: r).
Proof. revert b. induction r as [|c r IH]; intros b; [simpl; auto|]. right. change (last (b :: c :: r) a) with (last (c :: r) a). apply IH. Qed.

Lemma chain_mono tbl : regions_ok tbl = true -> forall l a,
  Forall (treach tbl) (a :: l) -> chain (a :: l) -> want (last l a) <> None ->
  wr a <= wr (last l a) /\ (l <> [] -> wr a < wr (last l a)).
Proof.
  intros Hok l. induction l as [|b r IH]; intros a HF Hc Hw.
  - simpl. split; [lia|congruence].
  - simpl in Hc. destruct Hc as [Hab Hc].
    inversion HF as [|? ? Ha HF']; subst.
    rewrite last_cons in *.
    destruct (IH b HF' Hc Hw) as [Hle _].
    assert (Hwb : want b <> None).
    { destruct r as [|c r']; [simpl in Hw; exact Hw|]. simpl in Hc. destruct Hc as [Hbc _]. eapply waits_wants; eauto. }
    inversion HF' as [|? ? Hb _]; subst.
    pose proof (waits_lt tbl a b Hok Hb Hab Hwb). split; [lia|intros _; lia].
Qed.

Lemma no_wait_cycle_lemma tbl l : regions_ok tbl = true -> Forall (treach tbl) l -> ~ wait_cycle l.
Proof.
  intros Hok HF Hc. destruct l as [|a r]; [exact Hc|].
  unfold wait_cycle in Hc. destruct Hc as [Hch Hclose].
  rewrite last_cons in Hclose.
  pose proof (waits_wants _ _ Hclose) as Hwl.
  destruct (chain_mono tbl Hok r a HF Hch Hwl) as [Hle _].
  assert (Hwa : want a <> None).
  { destruct r as [|b r']; [simpl in Hwl; exact Hwl|]. destruct Hch as [Hab _]. eapply waits_wants; eauto. }
  inversion HF as [|? ? Ha HF']; subst.
  assert (Hl : treach tbl (last r a)).
  { destruct r as [|b r']; [exact Ha|]. rewrite Forall_forall in HF'. apply HF'. apply last_in. }
  pose proof (waits_lt tbl (last r a) a Hok Ha Hclose Hwa). lia.
Qed.
