(* LinkInvH.v — C14: the hook notifications of a link always form a prefix of
   connect(registry), connect(link), disconnect(registry), disconnect(link), in step with the
   set-up goroutine's state and with the enumeration; no request is handled before the connect pair. *)
From Verif Require Import Base Link LinkProofs.

Fixpoint hooks_of (l : list event) : list (bool * bool) :=      (* newest first, like [evs] *)
  match l with
  | [] => []
  | EvHook c p :: r => (c, p) :: hooks_of r
  | _ :: r => hooks_of r
  end.

Fixpoint invoked_any (l : list event) : bool :=
  match l with [] => false | EvInvoked _ _ _ :: _ => true | _ :: r => invoked_any r end.

Definition connected_hooks : list (bool * bool) := [(true, true); (true, false)].
Definition all_hooks : list (bool * bool) := [(false, true); (false, false); (true, true); (true, false)].

Definition no_callee_threads (l : list (tname * tstate)) : Prop :=
  tget l TReqLoop = None /\ (forall n, tget l (TReq n) = None) /\ (forall n, tget l (THandler n) = None).

Definition InvH (s : lst) : Prop :=
  match tget (threads s) TSetup with
  | Some SStart => hooks_of (evs s) = [] /\ remotes s = 0 /\ invoked_any (evs s) = false /\ no_callee_threads (threads s)
  | Some SWaiting | Some SWaited => hooks_of (evs s) = connected_hooks /\ remotes s = 1
  | Some Finished => hooks_of (evs s) = all_hooks /\ remotes s = 0
  | _ => False
  end.

Definition hquiet (e : event) : Prop := match e with EvHook _ _ | EvInvoked _ _ _ => False | _ => True end.

(* what a state must share with another one for InvH to carry over *)
Lemma invH_core s s' :
  tget (threads s') TSetup = tget (threads s) TSetup -> hooks_of (evs s') = hooks_of (evs s) ->
  remotes s' = remotes s ->
  (tget (threads s) TSetup = Some SStart -> invoked_any (evs s') = false /\ no_callee_threads (threads s')) ->
  InvH s -> InvH s'.
Proof.
  intros Ht He Hr Hs H. unfold InvH in *. rewrite Ht, He, Hr.
  destruct (tget (threads s) TSetup) as [[]|]; auto.
  destruct H as (A & B & C & D). destruct (Hs eq_refl). auto.
Qed.

Definition callee_name (t : tname) : bool := match t with TReqLoop | TReq _ | THandler _ => true | _ => false end.

Lemma no_callee_tset l t st : callee_name t = false -> no_callee_threads l -> no_callee_threads (tset l t st).
Proof.
  intros Hc (A & B & C). repeat split; intros; rewrite tget_tset_other; auto; intros ->; discriminate.
Qed.

(* a thread that exists is not one of the callee threads while the set-up goroutine has not started *)
Lemma invH_setT_existing s t st0 st :
  t <> TSetup -> tget (threads s) t = Some st0 -> InvH s -> InvH (setT s t st).
Proof.
  intros Hne Hex H. eapply (invH_core s); [apply tget_tset_other; auto|reflexivity|reflexivity| |exact H].
  - intros Hs. unfold InvH in H. rewrite Hs in H. destruct H as (_ & _ & C & D). split; auto.
    apply no_callee_tset; auto. destruct D as (D1 & D2 & D3).
    destruct t; simpl; auto; congruence.
Qed.

Lemma invH_setT_noncallee s t st :
  t <> TSetup -> callee_name t = false -> InvH s -> InvH (setT s t st).
Proof.
  intros Hne Hc H. eapply (invH_core s); [apply tget_tset_other; auto|reflexivity|reflexivity| |exact H].
  - intros Hs. unfold InvH in H. rewrite Hs in H. destruct H as (_ & _ & C & D). split; auto.
    apply no_callee_tset; auto.
Qed.

Lemma invH_ext s s' :
  threads s' = threads s -> evs s' = evs s -> remotes s' = remotes s -> InvH s -> InvH s'.
Proof.
  intros Ht He Hr H. eapply (invH_core s); [| | | |exact H]; rewrite ?Ht, ?He; auto.
  intros Hs. unfold InvH in H. rewrite Hs in H. destruct H as (_ & _ & C & D). auto.
Qed.

Lemma invH_with_ev s e : hquiet e -> InvH s -> InvH (with_ev s e).
Proof.
  intros Hq H. eapply (invH_core s); [reflexivity| |reflexivity| |exact H].
  - destruct e; simpl in *; try reflexivity; contradiction.
  - intros Hs. unfold InvH in H. rewrite Hs in H. destruct H as (_ & _ & C & D). split; auto.
    destruct e; simpl in *; auto; contradiction.
Qed.

Lemma tget_map_wake_none calls s l t : tget l t = None -> tget (map (wake1 calls s) l) t = None.
Proof. intros H. rewrite tget_map_wake_gen, H. reflexivity. Qed.

Lemma invH_wake calls s : InvH s -> InvH (wake calls s).
Proof.
  intros H. eapply (invH_core s); [apply (proj2 (tget_map_wake calls s (threads s)))|reflexivity|reflexivity| |exact H].
  - intros Hs. unfold InvH in H. rewrite Hs in H. destruct H as (_ & _ & C & (D1 & D2 & D3)). split; auto.
    repeat split; intros; apply tget_map_wake_none; auto.
Qed.

Lemma invH_do_close s : InvH s -> InvH (do_close s).
Proof. apply invH_ext; reflexivity. Qed.
Lemma invH_do_free s id : InvH s -> InvH (do_free s id).
Proof. unfold do_free. destruct (lookupN id (tbl s)); [apply invH_ext; reflexivity|auto]. Qed.
Lemma invH_with_flt s f : InvH s -> InvH (with_flt s f).
Proof. apply invH_ext; reflexivity. Qed.
Lemma invH_with_closures s c : InvH s -> InvH (with_closures s c).
Proof. apply invH_ext; reflexivity. Qed.

Lemma invH_take_fault s k o s1 : take_fault s k = (o, s1) -> InvH s -> InvH s1.
Proof.
  intros E H. unfold take_fault in E. destruct k as [|[|[|k]]]; inversion E; subst; apply invH_with_flt; auto.
Qed.

Lemma not_sstart_of_callee s t st :
  InvH s -> tget (threads s) t = Some st -> callee_name t = true -> tget (threads s) TSetup <> Some SStart.
Proof.
  intros H Ht Hc Hs. unfold InvH in H. rewrite Hs in H. destruct H as (_ & _ & _ & (D1 & D2 & D3)).
  destruct t; simpl in Hc; try discriminate; congruence.
Qed.

Definition okT (s : lst) (t : tname) : Prop :=
  t <> TSetup /\ (callee_name t = false \/ tget (threads s) TSetup <> Some SStart).

Lemma invH_setT s t st : okT s t -> InvH s -> InvH (setT s t st).
Proof.
  intros [Hne [Hc|Hs]] H; [apply invH_setT_noncallee; auto|].
  eapply (invH_core s); [apply tget_tset_other; auto|reflexivity|reflexivity| |exact H]. intros; congruence.
Qed.

Lemma invH_with_ev_any s e :
  (forall c p, e <> EvHook c p) -> tget (threads s) TSetup <> Some SStart -> InvH s -> InvH (with_ev s e).
Proof.
  intros Hq Hs H. eapply (invH_core s); [reflexivity| |reflexivity| |exact H].
  - destruct e; simpl; auto. exfalso. eapply Hq; eauto.
  - intros; congruence.
Qed.

Lemma okT_ext s s' t : tget (threads s') TSetup = tget (threads s) TSetup -> okT s t -> okT s' t.
Proof. intros E [A B]. split; auto. rewrite E. auto. Qed.

Lemma invH_begin_seterr calls s t e k : okT s t -> InvH s -> InvH (begin_seterr calls s t e k).
Proof.
  intros Hok H. unfold begin_seterr. apply invH_wake. apply invH_setT; [eapply okT_ext; [|exact Hok]; reflexivity|].
  apply invH_do_close; auto.
Qed.

Lemma invH_caller_panic calls s i e : InvH s -> InvH (caller_panic calls s i e).
Proof.
  intros H. unfold caller_panic. apply invH_begin_seterr; [split; [discriminate|left; reflexivity]|].
  apply invH_with_closures; auto.
Qed.

Lemma invH_caller_return s i v e : InvH s -> InvH (caller_return s i v e).
Proof.
  intros H. unfold caller_return. apply invH_with_ev; [exact I|].
  apply invH_setT; [split; [discriminate|left; reflexivity]|]. apply invH_with_closures; auto.
Qed.

Lemma invH_loop_again calls s t st : okT s t -> InvH s -> InvH (loop_again calls s t st).
Proof.
  intros Hok H. unfold loop_again. destruct (memN 0%N (cancelled s)); [apply invH_begin_seterr; auto|apply invH_setT; auto].
Qed.

(* loop_done may move the set-up goroutine from SWaiting to SWaited: same class *)
Lemma invH_loop_done s : InvH s -> InvH (loop_done s).
Proof.
  intros H. unfold loop_done. cbv zeta.
  match goal with |- InvH (if ?c then _ else ?x) =>
    assert (Hx : InvH x) by (eapply invH_ext; [| | |exact H]; reflexivity); destruct c; auto end.
  match goal with |- InvH (match tget (threads ?x) TSetup with _ => _ end) =>
    destruct (tget (threads x) TSetup) as [st|] eqn:Es; auto; destruct st; auto;
    set (X := x) in * end.
  unfold InvH in *. unfold setT; simpl. rewrite tget_tset_same. simpl in Es, Hx. rewrite Es in Hx. exact Hx.
Qed.

Lemma invH_do_store v s e : InvH s -> InvH (do_store v s e).
Proof.
  intros H. unfold do_store. cbv zeta.
  match goal with |- InvH (match tget (threads ?x) TLink with _ => _ end) =>
    assert (Hx : InvH x) by (eapply (invH_core s); [reflexivity|reflexivity|reflexivity| |exact H];
                             intros Hs; unfold InvH in H; simpl in Hs; rewrite Hs in H; destruct H as (_ & _ & C & D); auto);
    destruct (tget (threads x) TLink) as [[]|]; auto end.
  apply invH_setT; [split; [discriminate|left; reflexivity]|auto].
Qed.

Lemma invH_handler_respond calls s n v e :
  tget (threads s) TSetup <> Some SStart -> InvH s -> InvH (handler_respond calls s n v e).
Proof.
  intros Hs H. unfold handler_respond.
  assert (OK : forall s', tget (threads s') TSetup = tget (threads s) TSetup -> okT s' (THandler n)).
  { intros s' E. split; [discriminate|right; rewrite E; auto]. }
  destruct (take_fault s 2) as [[x|] s1] eqn:E2; pose proof (invH_take_fault _ _ _ _ E2 H) as H1;
    assert (T1 : tget (threads s1) TSetup = tget (threads s) TSetup) by (unfold take_fault in E2; inversion E2; subst; reflexivity).
  - apply invH_begin_seterr; auto.
  - destruct (memN 0%N (cancelled s1)); [apply invH_begin_seterr; auto|].
    destruct (take_fault s1 1) as [[x|] s2] eqn:E1; pose proof (invH_take_fault _ _ _ _ E1 H1) as H2;
      assert (T2 : tget (threads s2) TSetup = tget (threads s) TSetup) by (unfold take_fault in E1; inversion E1; subst; exact T1).
    + apply invH_begin_seterr; auto.
    + apply invH_with_ev; [exact I|]. apply invH_setT; auto.
Qed.

Ltac brkH H :=
  repeat (match type of H with
          | context [match ?x with _ => _ end] => destruct x eqn:?; try discriminate H
          end);
  try (inversion H; subst; clear H).

Ltac okc := split; [discriminate|left; reflexivity].

Lemma take_fault_tsetup s k o s1 : take_fault s k = (o, s1) -> tget (threads s1) TSetup = tget (threads s) TSetup.
Proof. intros E. unfold take_fault in E. destruct k as [|[|[|k]]]; inversion E; subst; reflexivity. Qed.

Lemma InvH_env calls s a s' : InvH s -> step_env fixed calls s a = Some s' -> InvH s'.
Proof.
  intros HI H. unfold step_env in H. destruct a.
  - (* EStart *)
    destruct (tget (threads s) (TCall i)); [discriminate|].
    destruct (nth_error calls i) as [cs|]; [|discriminate].
    assert (H0 : InvH (if c_closure cs then with_closures s (i :: closures s) else s)) by (destruct (c_closure cs); [apply invH_with_closures|]; auto).
    destruct (take_fault _ 2) as [[x|] s1] eqn:E; pose proof (invH_take_fault _ _ _ _ E H0) as H1; inversion H; subst; clear H.
    + apply invH_caller_panic; auto.
    + destruct (bclosed s1); inversion H3; subst; [apply invH_caller_return; auto|].
      eapply (invH_core s1); [simpl; apply tget_tset_other; discriminate|reflexivity|reflexivity| |exact H1].
      intros Hs. unfold InvH in H1. rewrite Hs in H1. destruct H1 as (_ & _ & C & D). split; auto.
      simpl. apply no_callee_tset; auto.
  - (* EDeliverRes *)
    destruct (tget (threads s) TResLoop) as [[]|] eqn:El; try discriminate.
    destruct (take_fault s 3) as [[y|] s1] eqn:E; pose proof (invH_take_fault _ _ _ _ E HI) as H1; inversion H; subst; clear H.
    + apply invH_begin_seterr; auto. split; [discriminate|left; reflexivity].
    + apply invH_loop_again; [split; [discriminate|left; reflexivity]|].
      eapply (invH_core s1); [simpl; apply tget_tset_other; discriminate|reflexivity|reflexivity| |exact H1].
      intros Hs. unfold InvH in H1. rewrite Hs in H1. destruct H1 as (_ & _ & C & D). split; auto.
      simpl. apply no_callee_tset; auto.
  - destruct (tget (threads s) TResLoop) as [[]|] eqn:El; try discriminate.
    destruct (take_fault s 3) as [[y|] s1] eqn:E; pose proof (invH_take_fault _ _ _ _ E HI) as H1; inversion H; subst;
      apply invH_begin_seterr; auto; split; try discriminate; left; reflexivity.
  - destruct (tget (threads s) TResLoop) as [[]|] eqn:El; try discriminate. inversion H; subst.
    apply invH_begin_seterr; auto; split; [discriminate|left; reflexivity].
  - (* EDeliverReq: the request loop exists, so the set-up goroutine has started *)
    destruct (tget (threads s) TReqLoop) as [[]|] eqn:El; try discriminate.
    pose proof (not_sstart_of_callee s TReqLoop _ HI El eq_refl) as Hns.
    destruct (take_fault s 3) as [[y|] s1] eqn:E; pose proof (invH_take_fault _ _ _ _ E HI) as H1;
      pose proof (take_fault_tsetup _ _ _ _ E) as T1; inversion H; subst; clear H.
    + apply invH_begin_seterr; auto. split; [discriminate|right; rewrite T1; auto].
    + apply invH_loop_again; [split; [discriminate|right; simpl; rewrite tget_tset_other by discriminate; rewrite T1; auto]|].
      eapply (invH_core s1); [simpl; apply tget_tset_other; discriminate|reflexivity|reflexivity| |exact H1].
      intros Hs. congruence.
  - destruct (tget (threads s) TReqLoop) as [[]|] eqn:El; try discriminate.
    pose proof (not_sstart_of_callee s TReqLoop _ HI El eq_refl) as Hns.
    destruct (take_fault s 3) as [[y|] s1] eqn:E; pose proof (invH_take_fault _ _ _ _ E HI) as H1;
      pose proof (take_fault_tsetup _ _ _ _ E) as T1; inversion H; subst;
      apply invH_begin_seterr; auto; split; try discriminate; right; rewrite T1; auto.
  - destruct (tget (threads s) TReqLoop) as [[]|] eqn:El; try discriminate.
    pose proof (not_sstart_of_callee s TReqLoop _ HI El eq_refl) as Hns. inversion H; subst.
    apply invH_begin_seterr; auto; split; [discriminate|right; auto].
  - (* ECancel *)
    destruct (memN c (cancelled s)); inversion H; subst. apply invH_wake. eapply invH_ext; [| | |exact HI]; reflexivity.
  - inversion H; subst. apply invH_with_flt; auto.
Qed.

Lemma InvH_caller calls s i st s' :
  InvH s -> step_caller calls s i st = Some s' -> InvH s'.
Proof.
  intros HI H. unfold step_caller in H.
  destruct st; try discriminate.
  - (* CRegistered *)
    assert (H0 : InvH (setT s (TWaiter i) (WStart ent))) by (apply invH_setT; [okc|auto]).
    destruct (memN 0%N (cancelled (setT s (TWaiter i) (WStart ent)))); [inversion H; subst; apply invH_caller_panic; auto|].
    destruct (take_fault _ 0) as [[x|] s1] eqn:E; pose proof (invH_take_fault _ _ _ _ E H0) as H1; inversion H; subst.
    + apply invH_caller_panic; auto.
    + apply invH_with_ev; [exact I|]. apply invH_setT; [okc|auto].
  - destruct o as [[x e|e]|]; try (inversion H; subst; first [apply invH_caller_panic; auto|apply invH_caller_return; auto]; fail).
    destruct (Nat.eqb (c_nres (nth i calls dflt_call)) 1); [inversion H; subst; apply invH_caller_return; auto|].
    destruct (take_fault s 3) as [[y|] s1] eqn:E; pose proof (invH_take_fault _ _ _ _ E HI) as H1; inversion H; subst;
      [apply invH_caller_panic|apply invH_caller_return]; auto.
Qed.

Lemma InvH_seterr s t e k s' :
  InvH s -> tget (threads s) t = Some (SetErrMid e k) -> step_seterr fixed s t e k = Some s' -> InvH s'.
Proof.
  intros HI Ht H. unfold step_seterr in H.
  destruct (tname_eqb t TLink); [discriminate|].
  assert (Hne : t <> TSetup).
  { intros ->. unfold InvH in HI. rewrite Ht in HI. contradiction. }
  pose proof (invH_do_store fixed s e HI) as HD.
  assert (Tt : exists st0, tget (threads (do_store fixed s e)) t = Some st0).
  { unfold do_store. cbv zeta. match goal with |- exists _, tget (threads (match ?o with _ => _ end)) _ = _ => destruct o as [[]|] end; simpl; eauto.
    unfold setT; simpl. destruct (tname_eqb t TLink) eqn:Et.
    - apply tname_eqb_eq in Et; subst. rewrite tget_tset_same. eauto.
    - rewrite tget_tset_other; eauto. intros <-. rewrite tname_eqb_refl in Et. discriminate. }
  destruct Tt as [st0 Tt].
  assert (Hset : forall st, InvH (setT (do_store fixed s e) t st)) by (intros; eapply invH_setT_existing; eauto).
  destruct k; destruct t; inversion H; subst;
    try apply invH_loop_done; try (apply invH_with_ev; [exact I|]); apply Hset.
Qed.

Lemma InvH_waiter calls s i st b s' :
  InvH s -> step_waiter fixed calls s i st b = Some s' -> InvH s'.
Proof.
  intros HI H. unfold step_waiter, only0 in H.
  assert (Hw : forall s0 st', InvH s0 -> InvH (setT s0 (TWaiter i) st')) by (intros; apply invH_setT; [okc|auto]).
  assert (Hp : forall s0 n st', InvH s0 -> InvH (setT s0 (TPub n) st')) by (intros; apply invH_setT; [okc|auto]).
  assert (Hc : forall s0 st', InvH s0 -> InvH (setT s0 (TCall i) st')) by (intros; apply invH_setT; [okc|auto]).
  brkH H; auto.
  apply invH_wake. apply Hw. apply invH_do_free; auto.
Qed.

Lemma InvH_pub s n st b s' : InvH s -> step_pub s n st b = Some s' -> InvH s'.
Proof.
  intros HI H. unfold step_pub, only0 in H.
  assert (Hw : forall s0 i st', InvH s0 -> InvH (setT s0 (TWaiter i) st')) by (intros; apply invH_setT; [okc|auto]).
  assert (Hp : forall s0 st', InvH s0 -> InvH (setT s0 (TPub n) st')) by (intros; apply invH_setT; [okc|auto]).
  brkH H; auto; try (apply invH_with_ev; [exact I|]; auto).
Qed.

Lemma InvH_callee calls s t n st s' :
  InvH s -> tget (threads s) t = Some st -> step_callee calls s t n st = Some s' -> InvH s'.
Proof.
  intros HI Ht H. unfold step_callee in H.
  destruct t; try discriminate.
  - (* resolver *)
    pose proof (not_sstart_of_callee s (TReq n0) _ HI Ht eq_refl) as Hns.
    assert (OK : forall s0 t0, t0 <> TSetup -> tget (threads s0) TSetup = tget (threads s) TSetup -> okT s0 t0)
      by (intros s0 t0 N E; split; [auto|right; rewrite E; auto]).
    destruct st; try discriminate. destruct f;
      try (inversion H; subst; apply invH_begin_seterr; [apply OK; [discriminate|reflexivity]|auto]; fail);
      destruct (take_fault s 3) as [[y|] s1] eqn:E; pose proof (invH_take_fault _ _ _ _ E HI) as H1;
      pose proof (take_fault_tsetup _ _ _ _ E) as T1; inversion H; subst;
      try (apply invH_begin_seterr; [apply OK; [discriminate|exact T1]|auto]; fail);
      (apply invH_setT; [apply OK; [discriminate|simpl; rewrite tget_tset_other by discriminate; exact T1]|];
       apply invH_setT; [apply OK; [discriminate|exact T1]|auto]).
  - (* handler *)
    pose proof (not_sstart_of_callee s (THandler n0) _ HI Ht eq_refl) as Hns.
    assert (OK : forall s0 t0, t0 <> TSetup -> tget (threads s0) TSetup = tget (threads s) TSetup -> okT s0 t0)
      by (intros s0 t0 N E; split; [auto|right; rewrite E; auto]).
    assert (Hev : forall e, (forall c p, e <> EvHook c p) -> InvH (with_ev s e)) by (intros; apply invH_with_ev_any; auto).
    destruct st; try discriminate.
    + destruct f; simpl in H; inversion H; subst;
        try (apply invH_handler_respond; [exact Hns|apply Hev; discriminate]; fail);
        try (apply invH_begin_seterr; [apply OK; [discriminate|reflexivity]|apply Hev; discriminate]; fail);
        try (apply invH_setT; [apply OK; [discriminate|reflexivity]|apply Hev; discriminate]; fail).
    + inversion H; subst. apply invH_handler_respond; auto.
Qed.

Lemma tsetup_loop_again calls s t st :
  t <> TSetup -> tget (threads (loop_again calls s t st)) TSetup = tget (threads s) TSetup.
Proof.
  intros Hne. unfold loop_again. destruct (memN 0%N (cancelled s)).
  - unfold begin_seterr, wake. cbn [threads with_threads].
    rewrite (proj2 (tget_map_wake calls _ _)). unfold setT. cbn [threads with_threads].
    rewrite tget_tset_other by auto. reflexivity.
  - unfold setT. cbn [threads with_threads]. rewrite tget_tset_other by auto. reflexivity.
Qed.

Lemma InvH_infra calls s t st s' :
  InvH s -> tget (threads s) t = Some st -> step_infra fixed calls s t st = Some s' -> InvH s'.
Proof.
  intros HI Ht H. unfold step_infra in H.
  destruct t; try discriminate.
  - destruct st; try discriminate. inversion H; subst. apply invH_begin_seterr; [okc|auto].
  - destruct st; try discriminate.
    + destruct (fatal s); inversion H; subst; apply invH_setT; try okc; auto.
    + inversion H; subst. apply invH_with_ev; [exact I|]. apply invH_setT; [okc|auto].
  - (* the set-up goroutine *)
    unfold InvH in HI. rewrite Ht in HI.
    destruct st; try discriminate.
    + (* SStart: register + both connect notifications, then the reader loops *)
      inversion H; subst; clear H. destruct HI as (A & B & C & D).
      set (s1 := mkL (threads s) (tbl s) (bclosed s) (ents s) (cancelled s) (fatal s) (closures s) 1 (loops_done s) (flt s) (npub s) (nreq s)
                     ((if no_link_hooks fixed then [] else [EvHook true true]) ++ EvHook true false :: evs s) (crashed s)).
      assert (H2 : InvH (setT s1 TSetup SWaiting)).
      { unfold InvH, setT; simpl. rewrite tget_tset_same. simpl. rewrite A. split; reflexivity. }
      assert (Ns : forall s0, tget (threads s0) TSetup = Some SWaiting -> forall t0, t0 <> TSetup -> okT s0 t0)
        by (intros s0 E t0 N; split; [auto|right; rewrite E; discriminate]).
      assert (T2 : tget (threads (setT s1 TSetup SWaiting)) TSetup = Some SWaiting) by (unfold setT; simpl; apply tget_tset_same).
      assert (H3 : InvH (loop_again calls (setT s1 TSetup SWaiting) TReqLoop QLReading)) by (apply invH_loop_again; [apply Ns; [exact T2|discriminate]|exact H2]).
      apply invH_loop_again; [|exact H3].
      split; [discriminate|right]. rewrite tsetup_loop_again by discriminate. unfold setT; cbn [threads with_threads]. rewrite tget_tset_same. discriminate.
    + (* SWaited: removal + both disconnect notifications *)
      inversion H; subst; clear H. destruct HI as (A & B).
      unfold InvH; simpl. rewrite tget_tset_same. simpl. rewrite A. split; reflexivity.
Qed.

Lemma InvH_init : InvH linit.
Proof. unfold InvH; simpl. repeat split; auto. Qed.

Lemma InvH_step calls s c b s' : InvH s -> lstep fixed calls s c b = Some s' -> InvH s'.
Proof.
  intros HI H. unfold lstep in H.
  destruct (crashed s); [discriminate|].
  destruct c as [t|a].
  - destruct (tget (threads s) t) as [st|] eqn:Ht; [|discriminate].
    destruct st;
      try (unfold only0 in H; destruct b; [|discriminate]; eapply InvH_seterr; eauto; fail);
      destruct t;
      try (unfold only0 in H; destruct b; [|discriminate]);
      first [ eapply InvH_caller; eauto; fail | eapply InvH_waiter; eauto; fail | eapply InvH_pub; eauto; fail
            | eapply InvH_callee; eauto; fail | eapply InvH_infra; eauto; fail ].
  - unfold only0 in H. destruct b; [|discriminate]. eapply InvH_env; eauto.
  Unshelve. all: try exact 0; try exact Finished; try exact TLink; try exact []; try exact fixed.
Qed.

Lemma InvH_run calls cs : forall s0 s, InvH s0 -> lrun fixed calls s0 cs = Some s -> InvH s.
Proof.
  induction cs as [|[c b] cs IH]; intros s0 s H0 Hr; simpl in Hr.
  - inversion Hr; subst; auto.
  - destruct (lstep fixed calls s0 c b) eqn:E; [|discriminate]. eapply IH; [eapply InvH_step; eauto|auto].
Qed.

Lemma InvH_reachable calls s : lreachable fixed calls s -> InvH s.
Proof. intros [cs Hr]. eapply InvH_run; [apply InvH_init|exact Hr]. Qed.

(* readable form: in every reachable state the notifications so far (oldest first) are one of the
   three prefixes, the enumeration shows the remote exactly between the connect pair and the
   disconnect pair, and nothing was invoked before the connect pair *)
Lemma hook_protocol_lemma calls s :
  lreachable fixed calls s ->
  (rev (hooks_of (evs s)) = [] /\ remotes s = 0 /\ invoked_any (evs s) = false) \/
  (rev (hooks_of (evs s)) = [(true, false); (true, true)] /\ remotes s = 1) \/
  (rev (hooks_of (evs s)) = [(true, false); (true, true); (false, false); (false, true)] /\ remotes s = 0).
Proof.
  intros Hr. pose proof (InvH_reachable calls s Hr) as H. unfold InvH in H.
  destruct (tget (threads s) TSetup) as [[]|]; try contradiction.
  - left. destruct H as (A & B & C & _). rewrite A. repeat split; auto.
  - right. left. destruct H as [A B]. rewrite A. split; [reflexivity|exact B].
  - right. left. destruct H as [A B]. rewrite A. split; [reflexivity|exact B].
  - right. right. destruct H as [A B]. rewrite A. split; [reflexivity|exact B].
Qed.
