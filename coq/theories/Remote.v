(* Remote.v — implementRemoteStructRecursively (registry.go:240-324): validation of a remote
   definition and the dotted names its stubs put on the wire. *)
From Coq Require Import String.
From Verif Require Import Base Resolve.
Local Open Scope list_scope.

Inductive rtype :=
| RFunc (nin : nat) (ctx_first : bool) (nout : nat) (err_last : bool)
| RStruct (fields : list (string * rtype))
| ROther.

Inductive sigerr := ErrInvalidReturn | ErrInvalidArgs.
Inductive vres := VOk (stubs : list (list string)) | VErr (e : sigerr).

(* the checks on one function-typed field, in the order of the code *)
Definition check_func (nin : nat) (ctx_first : bool) (nout : nat) (err_last : bool) : option sigerr :=
  if Nat.eqb nout 0 || Nat.ltb 2 nout then Some ErrInvalidReturn
  else if negb err_last then Some ErrInvalidReturn
  else if Nat.ltb nin 1 then Some ErrInvalidArgs
  else if negb ctx_first then Some ErrInvalidArgs
  else None.

(* field loop with the recursion on nested structs; returns the stub paths (as component lists) in field order *)
Fixpoint validate_fields (fuel : nat) (prefix : list string) (fs : list (string * rtype)) : vres :=
  match fuel with
  | O => VOk []
  | S fuel' =>
      match fs with
      | [] => VOk []
      | (name, t) :: rest =>
          let here :=
            match t with
            | RStruct sub => validate_fields fuel' (prefix ++ [name]) sub
            | RFunc nin c nout e => match check_func nin c nout e with Some err => VErr err | None => VOk [prefix ++ [name]] end
            | ROther => VOk []
            end in
          match here with
          | VErr e => VErr e
          | VOk p1 => match validate_fields fuel' prefix rest with
                      | VErr e => VErr e
                      | VOk p2 => VOk (p1 ++ p2)
                      end
          end
      end
  end.

(* size measure for the fuel *)
Fixpoint rsize (t : rtype) : nat :=
  match t with
  | RStruct fs => S ((fix go (l : list (string * rtype)) := match l with [] => 0 | (_, x) :: r => S (rsize x + go r) end) fs)
  | _ => 1
  end.
Definition fsize (fs : list (string * rtype)) : nat :=
  (fix go (l : list (string * rtype)) := match l with [] => 0 | (_, x) :: r => S (rsize x + go r) end) fs.

Definition validate (fs : list (string * rtype)) : vres := validate_fields (S (fsize fs)) [] fs.

Definition wire_name (path : list string) : string := join_dot path.

(* the specification: every function field, at any depth, is valid *)
Fixpoint all_valid (fuel : nat) (fs : list (string * rtype)) : bool :=
  match fuel with
  | O => true
  | S fuel' =>
      match fs with
      | [] => true
      | (_, t) :: rest =>
          (match t with
           | RFunc nin c nout e => match check_func nin c nout e with None => true | Some _ => false end
           | RStruct sub => all_valid fuel' sub
           | ROther => true
           end) && all_valid fuel' rest
      end
  end.

(* ---- comparison with observed outcomes (correspondence check) ---- *)
Inductive robs := OFail (e : sigerr) | OOk (names : list (list string * string)).

Fixpoint path_eqb (a b : list string) : bool :=
  match a, b with
  | [], [] => true
  | x :: r, y :: s => String.eqb x y && path_eqb r s
  | _, _ => false
  end.

Fixpoint lookup_path (p : list string) (l : list (list string * string)) : option string :=
  match l with
  | [] => None
  | (q, n) :: r => if path_eqb p q then Some n else lookup_path p r
  end.

Definition rcheck (fs : list (string * rtype)) (o : robs) : bool :=
  match validate fs, o with
  | VErr ErrInvalidReturn, OFail ErrInvalidReturn | VErr ErrInvalidArgs, OFail ErrInvalidArgs => true
  | VOk ps, OOk names =>
      Nat.eqb (length ps) (length names) &&
      forallb (fun p => match lookup_path p names with Some n => String.eqb n (wire_name p) | None => false end) ps
  | _, _ => false
  end.
