(* BcastCheck.v — executable correspondence checker for Bcast.v: does the model, driven by the
   same choices, accept the observations the real Broadcaster produced? *)
From Verif Require Import Base Bcast.

Definition rres_eqb (a b : rres) : bool :=
  match a, b with
  | Got x, Got y => N.eqb x y
  | CtxErr, CtxErr | ErrClosed, ErrClosed | NoHandle, NoHandle => true
  | _, _ => false
  end.

Definition bres_eqb (a b : bres) : bool :=
  match a, b with
  | RPubSent, RPubSent | RPubGaveUp, RPubGaveUp | RPubNone, RPubNone | RUnit, RUnit => true
  | RReg x, RReg y => Bool.eqb x y
  | RRecv x, RRecv y => rres_eqb x y
  | _, _ => false
  end.

Definition status_eqb (a b : status) : bool :=
  match a, b with
  | SGate n, SGate m => Nat.eqb n m
  | SFound, SFound | SBlocked, SBlocked => true
  | _, _ => false
  end.

Fixpoint list_eqb {A} (eqb : A -> A -> bool) (l1 l2 : list A) : bool :=
  match l1, l2 with
  | [], [] => true
  | x :: t1, y :: t2 => eqb x y && list_eqb eqb t1 t2
  | _, _ => false
  end.

Definition obs := (bool * list (status * list bres))%type.

Definition obs_eqb (a b : obs) : bool :=
  Bool.eqb (fst a) (fst b) &&
  list_eqb (fun x y => status_eqb (fst x) (fst y) && list_eqb bres_eqb (snd x) (snd y)) (snd a) (snd b).

Definition successors (v : variant) (s : bst) (t : nat) (o : obs) : list bst :=
  flat_map (fun b => match bstep v s t b with
                     | Some s' => if obs_eqb (observe s') o then [s'] else []
                     | None => [] end)
           (seq 0 (length (thr s) + 3)).

(* None = consistent; Some k = the k-th choice (0-based) has no matching model step *)
Fixpoint consistent_from (v : variant) (states : list bst) (tr : list (nat * obs)) (k : nat) : option nat :=
  match tr with
  | [] => None
  | (t, o) :: rest =>
      match flat_map (fun s => successors v s t o) states with
      | [] => Some k
      | states' => consistent_from v states' rest (S k)
      end
  end.

Definition consistent (v : variant) (progs : list (list bop)) (tr : list (nat * obs)) : option nat :=
  consistent_from v [init progs] tr 0.

(* model-side monitor on a trace the model accepted: did any accepted state crash? *)
Definition mismatches (v : variant) (cases : list (list (list bop) * list (nat * obs))) : list (nat * nat) :=
  let fix go (i : nat) (l : list (list (list bop) * list (nat * obs))) :=
    match l with
    | [] => []
    | (p, tr) :: rest =>
        match consistent v p tr with
        | None => go (S i) rest
        | Some k => (i, k) :: go (S i) rest
        end
    end in go 0 cases.
