(* StreamGProofs.v — the goroutine-level stream model refines the sequence functions of Stream.v, closes
   decodeDone exactly once, wakes its readers, and (variant fixed) its decode goroutine never waits in vain
   once the link context is cancelled; the tree as found (D3) leaves it blocked for ever. *)
From Verif Require Import Base Stream StreamG.

Definition frames (l : list rd) : list N := flat_map (fun r => match r with RFrame f => [f] | RFail _ => [] end) l.
Definition pendq (s : gst) : list N := match dec s with DSendReq f _ => [f] | _ => [] end.
Definition pends (s : gst) : list N := match dec s with DSendReq _ (Some g) => [g] | DSendRes g => [g] | _ => [] end.

Record GInv (input : list sitem) (s : gst) : Prop := mkGInv {
  g_q1 : exists rest, requests_of input = rev (frames (outq s)) ++ rest;
  g_q2 : dec s <> DExit -> requests_of input = rev (frames (outq s)) ++ pendq s ++ requests_of (inp s);
  g_s1 : exists rest, responses_of input = rev (frames (outs s)) ++ rest;
  g_s2 : dec s <> DExit -> responses_of input = rev (frames (outs s)) ++ pends s ++ responses_of (inp s);
  g_done : gdone s <> None <-> dec s = DExit
}.

Lemma GInv_init input : GInv input (ginit input).
Proof.
  constructor; simpl.
  - exists (requests_of input). reflexivity.
  - intros _. reflexivity.
  - exists (responses_of input). reflexivity.
  - intros _. reflexivity.
  - split; [intros H; exfalso; apply H; reflexivity|discriminate].
Qed.

Lemma app_assoc' {A} (a b c : list A) : (a ++ b) ++ c = a ++ b ++ c.
Proof. symmetry. apply app_assoc. Qed.

Lemma GInv_step v input s a s' : GInv input s -> gstep v s a = Some s' -> GInv input s'.
Proof.
  intros [q1 q2 s1 s2 dn] H. destruct a; simpl in H.
  - (* ADecode *)
    destruct (dec s) eqn:Ed; try discriminate. destruct (inp s) as [|[e|n] r] eqn:Ei; try discriminate.
    + inversion H; subst s'; clear H.
      specialize (q2 ltac:(discriminate)). specialize (s2 ltac:(discriminate)).
      unfold pendq, pends in q2, s2. rewrite Ed in q2, s2. simpl in q2, s2.
      constructor; simpl; auto.
      * intros _. rewrite q2. unfold pendq; simpl. destruct (e_req e); simpl; [reflexivity|].
        unfold after_req. destruct (e_res e); reflexivity.
      * intros _. rewrite s2. unfold pends; simpl. destruct (e_req e); simpl; destruct (e_res e); reflexivity.
      * split.
        -- intros Hd. exfalso. apply dn in Hd. congruence.
        -- destruct (e_req e); [discriminate|]. unfold after_req. destruct (e_res e); discriminate.
    + inversion H; subst s'; clear H. constructor; simpl; auto.
      * intros Hx; exfalso; apply Hx; reflexivity.
      * intros Hx; exfalso; apply Hx; reflexivity.
      * split; [reflexivity|discriminate].
  - (* AHandReq *)
    destruct (dec s) eqn:Ed; try discriminate. destruct (rq s); try discriminate. inversion H; subst s'; clear H.
    specialize (q2 ltac:(discriminate)). specialize (s2 ltac:(discriminate)).
    unfold pendq, pends in q2, s2. rewrite Ed in q2, s2. simpl in q2, s2.
    constructor; simpl; auto.
    + exists (requests_of (inp s)). rewrite q2. rewrite app_assoc'. reflexivity.
    + intros _. rewrite q2. unfold pendq; simpl. rewrite app_assoc'. simpl.
      unfold after_req. destruct res; reflexivity.
    + intros _. rewrite s2. unfold pends; simpl. unfold after_req. destruct res; reflexivity.
    + split; [intros Hd; apply dn in Hd; congruence|unfold after_req; destruct res; discriminate].
  - (* AHandRes *)
    destruct (dec s) eqn:Ed; try discriminate. destruct (rs s); try discriminate. inversion H; subst s'; clear H.
    specialize (q2 ltac:(discriminate)). specialize (s2 ltac:(discriminate)).
    unfold pendq, pends in q2, s2. rewrite Ed in q2, s2. simpl in q2, s2.
    constructor; simpl; auto.
    + exists (responses_of (inp s)). rewrite s2. rewrite app_assoc'. reflexivity.
    + intros _. rewrite s2. unfold pends; simpl. rewrite app_assoc'. reflexivity.
    + split; [intros Hd; apply dn in Hd; congruence|discriminate].
  - (* ADecCtx *)
    destruct (decoder_send_unguarded v); [discriminate|].
    destruct (dec s) eqn:Ed; try discriminate; destruct (gcancelled s); try discriminate; inversion H; subst s'; clear H;
      constructor; simpl; auto; try (intros Hx; exfalso; apply Hx; reflexivity); (split; [reflexivity|discriminate]).
  - destruct (rq s); try discriminate. inversion H; subst s'. constructor; simpl; auto.
  - destruct (rs s); try discriminate. inversion H; subst s'. constructor; simpl; auto.
  - destruct (rq s); try discriminate. destruct (gdone s) eqn:Eg; try discriminate. inversion H; subst s'. constructor; simpl; auto; try (rewrite Eg in dn; exact dn).
  - destruct (rs s); try discriminate. destruct (gdone s) eqn:Eg; try discriminate. inversion H; subst s'. constructor; simpl; auto; try (rewrite Eg in dn; exact dn).
  - inversion H; subst s'. constructor; simpl; auto.
  - destruct (rq s); try discriminate. inversion H; subst s'. constructor; simpl; auto.
  - destruct (rs s); try discriminate. inversion H; subst s'. constructor; simpl; auto.
Qed.

Lemma GInv_run v input l : forall s s', GInv input s -> grun v s l = Some s' -> GInv input s'.
Proof.
  induction l as [|a r IH]; intros s s' HI H; simpl in H.
  - inversion H; subst; auto.
  - destruct (gstep v s a) as [s1|] eqn:E; [|discriminate]. eapply IH; [|exact H]. eapply GInv_step; eauto.
Qed.

Lemma GInv_reachable v input s : greachable v input s -> GInv input s.
Proof. intros (l & H). eapply GInv_run; [apply GInv_init|exact H]. Qed.

(* the frames the read functions return are, in order, a prefix of the request members / of the response
   members of the envelope sequence (Stream.v: the message-API view of the same traffic) *)
Lemma stream_refines_lemma v input s :
  greachable v input s ->
  (exists rest, requests_of input = rev (frames (outq s)) ++ rest) /\
  (exists rest, responses_of input = rev (frames (outs s)) ++ rest).
Proof. intros H. destruct (GInv_reachable _ _ _ H) as [q1 _ s1 _ _]. auto. Qed.

(* nothing is lost: once the input has been consumed without a decoding error and nothing is pending, every
   request and every response member has been returned by a read function *)
Lemma stream_complete_lemma v input s :
  greachable v input s -> inp s = [] -> dec s = DRead ->
  requests_of input = rev (frames (outq s)) /\ responses_of input = rev (frames (outs s)).
Proof.
  intros H Hi Hd. destruct (GInv_reachable _ _ _ H) as [_ q2 _ s2 _].
  assert (Hne : dec s <> DExit) by (rewrite Hd; discriminate).
  specialize (q2 Hne). specialize (s2 Hne). unfold pendq, pends in *. rewrite Hd, Hi in *. simpl in *.
  rewrite app_nil_r in q2, s2. auto.
Qed.

(* decodeDone is closed exactly when the decode goroutine has exited: the two steps that close it are enabled
   only while it is still open (no double close) *)
Lemma done_closed_once_lemma v input s a s' :
  greachable v input s -> gstep v s a = Some s' -> gdone s <> None -> gdone s' = gdone s /\ dec s' = DExit.
Proof.
  intros H Hs Hd. destruct (GInv_reachable _ _ _ H) as [_ _ _ _ dn]. pose proof (proj1 dn Hd) as He.
  destruct a; simpl in Hs; rewrite ?He in Hs; try discriminate;
    try (destruct (decoder_send_unguarded v); discriminate);
    try (destruct (rq s); try discriminate; destruct (gdone s); try discriminate; inversion Hs; subst; simpl; auto; fail);
    try (destruct (rs s); try discriminate; destruct (gdone s); try discriminate; inversion Hs; subst; simpl; auto; fail);
    try (destruct (rq s); try discriminate; inversion Hs; subst; simpl; auto; fail);
    try (destruct (rs s); try discriminate; inversion Hs; subst; simpl; auto; fail);
    try (inversion Hs; subst; simpl; auto; fail).
Qed.

(* a reader inside its read function when decodeDone is closed can take that case *)
Lemma readers_wake_lemma v s n :
  gdone s = Some n -> (rq s = RInRead -> gstep v s AFailReq <> None) /\ (rs s = RInRead -> gstep v s AFailRes <> None).
Proof. intros Hd. split; intros Hr; simpl; rewrite Hr, Hd; discriminate. Qed.

(* C15 / D3: once the link context is cancelled the decode goroutine is inside decode (the application's),
   gone, or can leave by a step of its own - whatever the readers do *)
Lemma decoder_never_waits_in_vain_lemma s :
  gcancelled s = true ->
  match dec s with
  | DSendReq _ _ | DSendRes _ =>
      exists s', gstep fixed s ADecCtx = Some s' /\ dec s' = DExit /\ gdone s' = Some ctx_err
  | _ => True
  end.
Proof. intros Hc. destruct (dec s) eqn:Ed; auto; simpl; rewrite Ed, Hc; eexists; (split; [reflexivity|split; reflexivity]). Qed.

(* the tree as found: the decoder blocked in its hand-over when the reader is gone stays there for ever *)
Lemma legacy_decoder_stuck l : forall s s' f res,
  dec s = DSendReq f res -> rq s = RGone -> grun legacy s l = Some s' -> dec s' = DSendReq f res /\ rq s' = RGone.
Proof.
  induction l as [|a r IH]; intros s s' f res Hd Hr H; simpl in H.
  - inversion H; subst; auto.
  - destruct (gstep legacy s a) as [s1|] eqn:E; [|discriminate].
    assert (dec s1 = DSendReq f res /\ rq s1 = RGone).
    { destruct a; simpl in E; rewrite ?Hd, ?Hr in E; try discriminate;
        try (destruct (rs s); try discriminate; try (destruct (gdone s); try discriminate); inversion E; subst; simpl; auto; fail);
        try (inversion E; subst; simpl; auto; fail). }
    destruct H0. eapply IH; eauto.
Qed.

Definition d3_input : list sitem := [SEnv (mkEnv (Some 5%N) None)].
Definition d3_sched : list gact := [AGoneReq; ACancel; ADecode].
Lemma D3_refuted_lemma :
  exists s, grun legacy (ginit d3_input) d3_sched = Some s /\ gcancelled s = true /\ rq s = RGone /\
            dec s = DSendReq 5%N None /\
            (forall l s', grun legacy s l = Some s' -> dec s' = DSendReq 5%N None) /\
            (exists s2, grun fixed (ginit d3_input) (d3_sched ++ [ADecCtx]) = Some s2 /\ dec s2 = DExit).
Proof.
  eexists. split; [reflexivity|]. simpl. repeat split; auto.
  - intros l s' H. pose proof (fun Hd Hr => legacy_decoder_stuck l _ s' 5%N None Hd Hr H) as K. apply K; reflexivity.
  - eexists. split; reflexivity.
Qed.
