From Verif Require Import Base Lockset.

Lemma discipline_pair t a b : discipline t = true -> In a t -> In b t -> pair_ok a b = true.
Proof.
  unfold discipline. intros H Ha Hb. rewrite forallb_forall in H. specialize (H a Ha).
  rewrite forallb_forall in H. apply H; auto.
Qed.

Lemma lockset_sound_lemma tbl s : discipline tbl = true -> respects tbl s -> ~ race tbl s.
Proof.
  intros Hd Hr (t1 & t2 & k1 & k2 & a1 & a2 & Hne & H1 & H2 & Hk1 & Hk2 & Hc & Hp).
  pose proof (discipline_pair tbl a1 a2 Hd (nth_error_In _ _ Hk1) (nth_error_In _ _ Hk2)) as Hok.
  unfold pair_ok in Hok. rewrite Hc, Hp in Hok. simpl in Hok. rewrite orb_false_r in Hok.
  unfold shares_lock in Hok. apply existsb_exists in Hok as (l & Hl1 & Hl2).
  apply existsb_exists in Hl2 as (l' & Hl2 & E). apply Nat.eqb_eq in E; subst l'.
  pose proof (Hr t1 k1 a1 H1 Hk1 l Hl1) as Ho1. pose proof (Hr t2 k2 a2 H2 Hk2 l Hl2) as Ho2.
  congruence.
Qed.
