(* Sys.v — message-level model of remote calls between two registries over a network that may
   delay and reorder frames arbitrarily (no duplication, no corruption: DESIGN.md §7), for any
   number of concurrent calls.  One direction is modelled (caller side -> callee side); the other
   direction is the same system with the roles swapped and shares nothing but the transport.

   What the endpoint does per step is what Link.v establishes at the goroutine level:
     - a call takes a fresh id, registers a waiter for it and writes one request frame;
     - the callee handles every request it reads exactly once and answers with the same id;
     - a response is handed to the waiter registered under its id, otherwise discarded. *)
From Coq Require Import Permutation.
From Verif Require Import Base.

Section Sys.
Variable h : N -> N -> N.          (* the exposed function: name -> argument -> result *)

Record scall := mkSC { sc_fn : N; sc_arg : N }.

Record sst := mkS {
  scalls : list scall;                 (* calls issued so far; call id = index *)
  net_req : list (nat * N * N);        (* request frames in the network (a bag: any may be delivered next) *)
  net_res : list (nat * N);            (* response frames in the network *)
  spending : list nat;                 (* ids with a registered waiter *)
  sinvoked : list (nat * N * N);       (* handler invocations on the callee: id, function, argument *)
  sreturned : list (nat * N)           (* calls that returned: id, value *)
}.

Inductive sact := ACall (fn arg : N) | ADeliverReq (k : nat) | ADeliverRes (k : nat).

Fixpoint remove_nth {A} (k : nat) (l : list A) : list A :=
  match l, k with
  | [], _ => []
  | _ :: t, O => t
  | x :: t, S k' => x :: remove_nth k' t
  end.

Definition sinit : sst := mkS [] [] [] [] [] [].

Definition sstep (s : sst) (a : sact) : option sst :=
  match a with
  | ACall fn arg =>
      let id := length (scalls s) in
      Some (mkS (scalls s ++ [mkSC fn arg]) ((id, fn, arg) :: net_req s) (net_res s) (id :: spending s)
                (sinvoked s) (sreturned s))
  | ADeliverReq k =>
      match nth_error (net_req s) k with
      | Some (id, fn, arg) =>
          Some (mkS (scalls s) (remove_nth k (net_req s)) ((id, h fn arg) :: net_res s) (spending s)
                    ((id, fn, arg) :: sinvoked s) (sreturned s))
      | None => None
      end
  | ADeliverRes k =>
      match nth_error (net_res s) k with
      | Some (id, v) =>
          if existsb (Nat.eqb id) (spending s)
          then Some (mkS (scalls s) (net_req s) (remove_nth k (net_res s))
                         (filter (fun j => negb (Nat.eqb id j)) (spending s)) (sinvoked s) ((id, v) :: sreturned s))
          else Some (mkS (scalls s) (net_req s) (remove_nth k (net_res s)) (spending s) (sinvoked s) (sreturned s))
      | None => None
      end
  end.

Fixpoint srun (s : sst) (l : list sact) : option sst :=
  match l with
  | [] => Some s
  | a :: r => match sstep s a with Some s' => srun s' r | None => None end
  end.

Definition sreachable (s : sst) : Prop := exists l, srun sinit l = Some s.

(* ---- invariant ---- *)
Definition rid (x : nat * N * N) : nat := fst (fst x).

Definition SInv (s : sst) : Prop :=
  (forall id fn arg, In (id, fn, arg) (net_req s ++ sinvoked s) -> nth_error (scalls s) id = Some (mkSC fn arg)) /\
  (forall id v, In (id, v) (net_res s ++ sreturned s) ->
     exists c, nth_error (scalls s) id = Some c /\ v = h (sc_fn c) (sc_arg c) /\ In id (map rid (sinvoked s))) /\
  NoDup (map rid (net_req s ++ sinvoked s)).

Lemma remove_nth_perm {A} k (l : list A) x : nth_error l k = Some x -> Permutation l (x :: remove_nth k l).
Proof.
  revert k. induction l as [|y t IH]; intros [|k] H; simpl in *; try discriminate.
  - inversion H; subst. apply Permutation_refl.
  - apply IH in H. eapply Permutation_trans; [apply perm_skip; exact H|apply perm_swap].
Qed.

Lemma In_remove_nth {A} k (l : list A) y : In y (remove_nth k l) -> In y l.
Proof.
  revert k. induction l as [|x t IH]; intros [|k] H; simpl in *; auto.
  destruct H as [H|H]; auto. right. eapply IH; eauto.
Qed.

Lemma SInv_init : SInv sinit.
Proof. repeat split; simpl; try tauto. constructor. Qed.

Lemma nth_error_app_old {A} (l : list A) x i y : nth_error l i = Some y -> nth_error (l ++ [x]) i = Some y.
Proof. intros H. rewrite nth_error_app1; auto. apply nth_error_Some. congruence. Qed.

Lemma SInv_step s a s' : SInv s -> sstep s a = Some s' -> SInv s'.
Proof.
  intros (H1 & H2 & H3) H. destruct a as [fn arg|k|k]; simpl in H.
  - inversion H; subst; clear H. repeat split; simpl.
    + intros id fn' arg' [E|Hin].
      * inversion E; subst. rewrite nth_error_app2 by lia. rewrite Nat.sub_diag. reflexivity.
      * apply nth_error_app_old. auto.
    + intros id v Hin. destruct (H2 id v Hin) as (c & Hc & Hv & Hi). exists c. repeat split; auto.
      apply nth_error_app_old; auto.
    + constructor; auto. intros Hin. apply in_map_iff in Hin as (x & Hx & Hin).
      destruct x as [[id fn'] arg']. unfold rid in Hx; simpl in Hx; subst.
      apply H1 in Hin. assert (length (scalls s) < length (scalls s)) by (apply nth_error_Some; congruence). lia.
  - destruct (nth_error (net_req s) k) as [[[id fn] arg]|] eqn:E; [|discriminate].
    inversion H; subst; clear H.
    assert (P : Permutation (net_req s ++ sinvoked s) (remove_nth k (net_req s) ++ (id, fn, arg) :: sinvoked s)).
    { eapply Permutation_trans; [apply Permutation_app_tail; apply (remove_nth_perm _ _ _ E)|].
      simpl. apply Permutation_middle. }
    repeat split; simpl.
    + intros id' fn' arg' Hin. apply H1. eapply Permutation_in; [apply Permutation_sym; exact P|exact Hin].
    + intros id' v [Ev|Hin].
      * inversion Ev; subst. exists (mkSC fn arg). repeat split; simpl; auto.
        apply H1. apply in_or_app. left. eapply nth_error_In; eauto.
      * destruct (H2 id' v Hin) as (c & Hc & Hv & Hi). exists c. repeat split; auto.
    + eapply Permutation_NoDup; [apply Permutation_map; exact P|exact H3].
  - destruct (nth_error (net_res s) k) as [[id v]|] eqn:E; [|discriminate].
    assert (Hsub : forall id' v', In (id', v') (remove_nth k (net_res s) ++ (id, v) :: sreturned s) ->
                                  In (id', v') (net_res s ++ sreturned s)).
    { intros id' v' Hin. apply in_app_or in Hin as [Hin|[Hin|Hin]].
      - apply in_or_app; left. eapply In_remove_nth; eauto.
      - inversion Hin; subst. apply in_or_app; left. eapply nth_error_In; eauto.
      - apply in_or_app; right; auto. }
    destruct (existsb (Nat.eqb id) (spending s)); inversion H; subst; clear H; repeat split; simpl; auto.
    all: intros id' v' Hin; apply H2; apply Hsub;
      apply in_app_or in Hin as [Hin|Hin]; apply in_or_app;
      [left; exact Hin | right; first [exact Hin | right; exact Hin]].
Qed.

Lemma SInv_run l : forall s0 s, SInv s0 -> srun s0 l = Some s -> SInv s.
Proof.
  induction l as [|a r IH]; intros s0 s H0 Hr; simpl in Hr.
  - inversion Hr; subst; auto.
  - destruct (sstep s0 a) eqn:E; [|discriminate]. eapply IH; [eapply SInv_step; eauto|auto].
Qed.

Lemma SInv_reachable s : sreachable s -> SInv s.
Proof. intros [l Hr]. eapply SInv_run; [apply SInv_init|exact Hr]. Qed.

(* every returned call got the result of exactly one invocation of the exposed function, made
   with that call's own function name and argument — for any number of calls in flight and
   any delivery order *)
Lemma each_call_own_result_lemma s id v :
  sreachable s -> In (id, v) (sreturned s) ->
  exists c, nth_error (scalls s) id = Some c /\ v = h (sc_fn c) (sc_arg c) /\
            In (id, sc_fn c, sc_arg c) (sinvoked s) /\
            (forall fn arg, In (id, fn, arg) (sinvoked s) -> fn = sc_fn c /\ arg = sc_arg c) /\
            NoDup (map rid (sinvoked s)).
Proof.
  intros Hr Hin. apply SInv_reachable in Hr as (H1 & H2 & H3).
  destruct (H2 id v) as (c & Hc & Hv & Hi); [apply in_or_app; auto|].
  assert (Hown : forall fn2 arg2, In (id, fn2, arg2) (sinvoked s) -> fn2 = sc_fn c /\ arg2 = sc_arg c).
  { intros fn2 arg2 Hin2. assert (Hn := H1 id fn2 arg2 (in_or_app _ _ _ (or_intror Hin2))).
    rewrite Hc in Hn. inversion Hn; subst; auto. }
  exists c. split; [exact Hc|]. split; [exact Hv|]. split; [|split; [exact Hown|]].
  - apply in_map_iff in Hi as (x & Hx & Hin'). destruct x as [[id' fn] arg]. unfold rid in Hx; simpl in Hx; subst.
    destruct (Hown fn arg Hin') as [-> ->]. exact Hin'.
  - rewrite map_app in H3. clear -H3. induction (map rid (net_req s)) as [|x l IH]; simpl in H3; auto.
    inversion H3; subst. auto.
Qed.

End Sys.
