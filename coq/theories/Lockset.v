(* Lockset.v — lock-set discipline for the shared locations of panrpc (C20, partial: a discipline
   over a syntactic access table, not the Go memory model).

   Trace model: threads take and release mutexes and perform accesses; a mutex has at most one
   holder.  An access table says, for every access site, which location it touches, whether it
   writes, and which mutexes are (syntactically) held there; sites that are ordered by a
   publication edge instead (write; close(ch) ... <-ch; read — or initialisation before the
   goroutines are started) are marked [a_pub]. *)
From Verif Require Import Base.

Record acc := mkAcc { a_loc : nat; a_write : bool; a_locks : list nat; a_pub : bool }.

Definition shares_lock (a b : acc) : bool := existsb (fun l => existsb (Nat.eqb l) (a_locks b)) (a_locks a).
Definition conflict (a b : acc) : bool := Nat.eqb (a_loc a) (a_loc b) && (a_write a || a_write b).

Definition pair_ok (a b : acc) : bool := negb (conflict a b) || shares_lock a b || (a_pub a && a_pub b).
Definition discipline (t : list acc) : bool := forallb (fun a => forallb (pair_ok a) t) t.

(* ---- machine ---- *)
Definition holders := list (nat * nat).           (* mutex -> holding thread *)
Record mstate := mkM { held : holders; nexts : list (nat * nat) }.   (* thread -> access site it is about to perform *)

Fixpoint holder (h : holders) (l : nat) : option nat :=
  match h with [] => None | (l', t) :: r => if Nat.eqb l l' then Some t else holder r l end.

(* a state respects the table when every thread about to perform site k holds the mutexes the table lists for k *)
Definition respects (tbl : list acc) (s : mstate) : Prop :=
  forall t k a, In (t, k) (nexts s) -> nth_error tbl k = Some a ->
                forall l, In l (a_locks a) -> holder (held s) l = Some t.

(* a race: two different threads about to perform conflicting accesses that are not ordered by a publication edge *)
Definition race (tbl : list acc) (s : mstate) : Prop :=
  exists t1 t2 k1 k2 a1 a2,
    t1 <> t2 /\ In (t1, k1) (nexts s) /\ In (t2, k2) (nexts s) /\
    nth_error tbl k1 = Some a1 /\ nth_error tbl k2 = Some a2 /\
    conflict a1 a2 = true /\ (a_pub a1 && a_pub a2) = false.
