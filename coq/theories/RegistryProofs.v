(* RegistryProofs.v — C13 / C14 on the product of links: every component of a reachable product state
   is a reachable state of its own link (so every per-link invariant holds in it), steps of one link
   leave the others alone, and the registry-wide enumeration lists exactly the links whose connect
   pair has been announced and whose disconnect pair has not. *)
From Coq Require Import FinFun.
From Verif Require Import Base Link LinkProofs LinkInv16 LinkInvB LinkInvH Registry.

Lemma nth_error_upd_same {A} (l : list A) k x y : nth_error l k = Some y -> nth_error (upd l k x) k = Some x.
Proof. intros H. apply nth_error_upd_eq. apply nth_error_Some. congruence. Qed.

Lemma lrun_snoc v calls cs c b s s1 s2 :
  lrun v calls s cs = Some s1 -> lstep v calls s1 c b = Some s2 -> lrun v calls s (cs ++ [(c, b)]) = Some s2.
Proof. intros H1 H2. rewrite (lrun_app _ _ _ _ _ _ H1). simpl. rewrite H2. reflexivity. Qed.

(* projection: component k of a product run is a run of link k *)
Lemma rrun_project v callss sched : forall rs0 rs,
  rrun v callss rs0 sched = Some rs ->
  length rs = length rs0 /\
  forall k s0, nth_error rs0 k = Some s0 ->
    exists cs s, lrun v (nth k callss []) s0 cs = Some s /\ nth_error rs k = Some s.
Proof.
  induction sched as [|[[k c] b] r IH]; intros rs0 rs H; simpl in H.
  - inversion H; subst. split; auto. intros k s0 Hk. exists [], s0. split; auto.
  - destruct (rstep v callss rs0 k c b) as [rs1|] eqn:E; [|discriminate].
    unfold rstep in E. destruct (nth_error rs0 k) as [sk|] eqn:Ek; [|discriminate].
    destruct (lstep v (nth k callss []) sk c b) as [sk'|] eqn:Es; [|discriminate]. inversion E; subst rs1.
    destruct (IH _ _ H) as (L & P). split; [rewrite L; apply upd_length|].
    intros j s0 Hj. destruct (Nat.eq_dec j k) as [->|Hne].
    + rewrite Ek in Hj. inversion Hj; subst s0.
      destruct (P k sk') as (cs & s & Hr & Hn); [eapply nth_error_upd_same; eauto|].
      exists ((c, b) :: cs), s. split; [simpl; rewrite Es; exact Hr|exact Hn].
    + destruct (P j s0) as (cs & s & Hr & Hn); [rewrite nth_error_upd_neq; auto|]. exists cs, s. auto.
Qed.

Lemma nth_error_repeat {A} (x : A) n k : k < n -> nth_error (repeat x n) k = Some x.
Proof. revert k. induction n as [|n IH]; intros [|k] H; simpl; try lia; auto. apply IH. lia. Qed.

Lemma component_reachable_lemma callss n rs k s :
  rreachable fixed callss n rs -> nth_error rs k = Some s -> lreachable fixed (nth k callss []) s.
Proof.
  intros (sched & Hr) Hk. destruct (rrun_project _ _ _ _ _ Hr) as (L & P).
  assert (Hlt : k < n).
  { assert (k < length rs) by (apply nth_error_Some; congruence). rewrite L in H. unfold rinit in H. rewrite repeat_length in H. exact H. }
  destruct (P k linit) as (cs & s' & Hrun & Hn); [unfold rinit; apply nth_error_repeat; auto|].
  rewrite Hk in Hn. inversion Hn; subst. exists cs. exact Hrun.
Qed.

Lemma nth_error_combine_seq_gen {A} (l : list A) a i j s :
  nth_error (combine (seq a (length l)) l) i = Some (j, s) <-> (j = a + i /\ nth_error l i = Some s).
Proof.
  revert a i. induction l as [|x r IH]; intros a i; simpl.
  - destruct i; simpl; split; try discriminate; intros (_ & H); discriminate.
  - destruct i; simpl.
    + split; [intros H; inversion H; subst; split; [lia|reflexivity]|intros (-> & H); inversion H; subst; f_equal; f_equal; lia].
    + rewrite IH. split; intros (-> & H); split; auto; lia.
Qed.

(* enumeration: link k is listed iff its remote is registered *)
Lemma In_enumerated rs k : In k (enumerated rs) <-> exists s, nth_error rs k = Some s /\ remotes s = 1.
Proof.
  unfold enumerated. rewrite in_flat_map. split.
  - intros ((j & s) & Hin & Hk). simpl in Hk. destruct (Nat.eqb (remotes s) 1) eqn:E; [|destruct Hk].
    destruct Hk as [Hk|[]]. subst j. apply Nat.eqb_eq in E.
    apply In_nth_error in Hin as (i & Hi).
    apply nth_error_combine_seq_gen in Hi as (-> & Hs). exists s. auto.
  - intros (s & Hn & Hr). exists (k, s). split.
    + apply nth_error_In with (n := k). apply nth_error_combine_seq_gen; auto.
    + simpl. rewrite Hr. simpl. auto.
Qed.

(* C14 registry-wide / C13: in every reachable state of the product, link k is enumerated exactly
   when its connect pair has been announced and its disconnect pair has not; and nothing of link k
   has been handled before its connect pair *)
Lemma enumeration_matches_hooks_lemma callss n rs k s :
  rreachable fixed callss n rs -> nth_error rs k = Some s ->
  (In k (enumerated rs) <-> rev (hooks_of (evs s)) = [(true, false); (true, true)]) /\
  (rev (hooks_of (evs s)) = [] -> invoked_any (evs s) = false).
Proof.
  intros Hr Hk. pose proof (component_reachable_lemma _ _ _ _ _ Hr Hk) as Hc.
  destruct (hook_protocol_lemma _ _ Hc) as [(A & B & C)|[(A & B)|(A & B)]].
  - split; [|auto]. rewrite In_enumerated. split.
    + intros (s' & Hs & Hrem). rewrite Hk in Hs. inversion Hs; subst. lia.
    + intros Hx. rewrite A in Hx. discriminate.
  - split; [|intros Hx; rewrite A in Hx; discriminate]. rewrite In_enumerated. split; auto. intros _. exists s. auto.
  - split; [|intros Hx; rewrite A in Hx; discriminate]. rewrite In_enumerated. split.
    + intros (s' & Hs & Hrem). rewrite Hk in Hs. inversion Hs; subst. lia.
    + intros Hx. rewrite A in Hx. discriminate.
Qed.

(* identities are distinct per link when the id source is injective *)
Lemma enumerated_from_NoDup a (rs : rstate) :
  NoDup (flat_map (fun p : nat * lst => if Nat.eqb (remotes (snd p)) 1 then [fst p] else []) (combine (seq a (length rs)) rs)).
Proof.
  revert a. induction rs as [|s r IH]; intros a; simpl; [constructor|].
  destruct (Nat.eqb (remotes s) 1); simpl; [|apply IH].
  constructor; [|apply IH]. intros Hin. apply in_flat_map in Hin as ((j & s') & Hin & Hj). simpl in Hj.
  destruct (Nat.eqb (remotes s') 1); [|destruct Hj]. destruct Hj as [Hj|[]]. subst j.
  apply In_nth_error in Hin as (i & Hi). apply nth_error_combine_seq_gen in Hi as (Ha & _). lia.
Qed.

Lemma enumerated_ids_distinct_lemma (rid : nat -> N) rs :
  (forall a b, rid a = rid b -> a = b) -> NoDup (enumerated_ids rid rs).
Proof.
  intros Hinj. unfold enumerated_ids. apply Injective_map_NoDup; [exact Hinj|]. apply enumerated_from_NoDup.
Qed.
