(* ResolveProofs.v — lemmas behind Props/C07.v, C06.v, C18.v *)
From Coq Require Import String Ascii.
From Verif Require Import Base Resolve.
Open Scope string_scope.

(* ---------------------------------------------------------------- strings *)
Lemma sapp_nil_r s : s ++ "" = s.
Proof. induction s; simpl; congruence. Qed.

Lemma sapp_assoc a b c : (a ++ b) ++ c = a ++ (b ++ c).
Proof. induction a; simpl; congruence. Qed.

(* ---------------------------------------------------------------- split / join *)
Lemma split_dot_aux_nodot s cur rest :
  no_dot s = true -> split_dot_aux (s ++ rest) cur = split_dot_aux rest (cur ++ s).
Proof.
  revert cur. induction s as [|c s IH]; intros cur H; simpl in *.
  - rewrite sapp_nil_r. reflexivity.
  - apply andb_true_iff in H as [Hc Hs]. destruct (Ascii.eqb c ".") eqn:E; [discriminate|].
    rewrite IH by auto. f_equal. rewrite sapp_assoc. reflexivity.
Qed.

Lemma split_dot_aux_join ps cur :
  ps <> [] -> forallb no_dot ps = true ->
  split_dot_aux (join_dot ps) cur = match ps with [] => [] | p :: r => (cur ++ p) :: r end.
Proof.
  revert cur. induction ps as [|p r IH]; intros cur Hne H; [congruence|].
  simpl in H. apply andb_true_iff in H as [Hp Hr].
  destruct r as [|q r'].
  - simpl. rewrite <- (sapp_nil_r p) at 1. rewrite split_dot_aux_nodot by auto. reflexivity.
  - change (join_dot (p :: q :: r')) with (p ++ "." ++ join_dot (q :: r')).
    rewrite split_dot_aux_nodot by auto. simpl split_dot_aux at 1.
    rewrite IH by (auto; discriminate). reflexivity.
Qed.

(* caller-side naming and callee-side splitting agree, for every depth *)
Lemma split_join ps :
  ps <> [] -> forallb no_dot ps = true -> split_dot (join_dot ps) = ps.
Proof.
  intros Hne H. unfold split_dot. rewrite split_dot_aux_join by auto. destruct ps; [congruence|reflexivity].
Qed.

(* ---------------------------------------------------------------- no crash under [fixed] *)
Lemma walk_fixed_no_panic tys names cur ro : walk fixed tys cur ro names <> WPanic.
Proof.
  revert cur ro. induction names as [|n r IH]; intros cur ro; simpl; [discriminate|].
  destruct (match cur with VPtr _ (Some x) => x | VPtr _ None => VInvalid | _ => cur end); try discriminate.
  destruct (assoc n (ti_byname (tget tys ty))); [|discriminate].
  destruct (follow tys n _ l true ro) as [[f ro']|]; [apply IH|discriminate].
Qed.

Lemma fallback_no_crash name argc : fallback name argc <> OCrash.
Proof. unfold fallback. destruct (String.eqb name "CallClosure"); [destruct (Nat.eqb argc 2)|]; discriminate. Qed.

Lemma split_dot_aux_nonempty s cur : split_dot_aux s cur <> [].
Proof.
  revert cur. induction s as [|c s IH]; intros cur; simpl; [discriminate|].
  destruct (Ascii.eqb c "."); [discriminate|apply IH].
Qed.

Arguments invoke : simpl never.

Lemma resolve_crash_only_from_invoke tys root name argc :
  resolve fixed tys root name argc = OCrash ->
  exists f ro m, walk fixed tys root false (removelast (split_dot name)) = WOk f ro /\
                 m = last_str (split_dot name) /\ invoke tys 20 f m = OCrash.
Proof.
  unfold resolve. intros H.
  destruct (split_dot name) as [|p ps] eqn:Es; [exfalso; eapply split_dot_aux_nonempty; exact Es|].
  assert (Hgen :
      match walk fixed tys root false (removelast (p :: ps)) with
      | WPanic => OCrash
      | WErr => fallback name argc
      | WOk f ro =>
          if match f with VInvalid => true | VIface _ None => true | _ => false end then fallback name argc
          else match has_method tys f (last_str (p :: ps)) with
               | None => fallback name argc
               | Some nin => if Nat.eqb nin (argc + 1) then (if ro then OPanicInCall else invoke tys 20 f (last_str (p :: ps))) else OArgCount
               end
      end = OCrash \/ fallback name argc = OCrash).
  { destruct p as [|c p']; [destruct ps|]; auto. }
  clear H. destruct Hgen as [H|H]; [|exfalso; eapply fallback_no_crash; eauto].
  destruct (walk fixed tys root false (removelast (p :: ps))) as [f ro| |] eqn:Ew.
  - destruct (match f with VInvalid => true | VIface _ None => true | _ => false end);
      [exfalso; eapply fallback_no_crash; eauto|].
    destruct (has_method tys f (last_str (p :: ps))); [|exfalso; eapply fallback_no_crash; eauto].
    destruct (Nat.eqb n (argc + 1)); [|discriminate].
    destruct ro; [discriminate|]. eexists _, _, _; repeat split; eauto.
  - exfalso; eapply fallback_no_crash; eauto.
  - exfalso. eapply walk_fixed_no_panic; eauto.
Qed.

(* ---------------------------------------------------------------- only exported names run application code *)
Lemma wf_tget tys ty : wf_tys tys = true -> wf_tinfo (tget tys ty) = true.
Proof.
  intros H. unfold tget. destruct (nth_error tys ty) as [t|] eqn:E.
  - rewrite (nth_error_nth _ _ _ E). unfold wf_tys in H. rewrite forallb_forall in H. apply H. eapply nth_error_In; eauto.
  - rewrite nth_overflow by (apply nth_error_None; auto). reflexivity.
Qed.

Lemma wf_field tys ty i fname e :
  wf_tys tys = true -> nth_error (ti_fields (tget tys ty)) i = Some (fname, e) -> e = exported_name fname.
Proof.
  intros H Hn. pose proof (wf_tget tys ty H) as W. unfold wf_tinfo in W.
  repeat (apply andb_true_iff in W as [W ?]).
  rewrite forallb_forall in W. apply nth_error_In in Hn. apply W in Hn. simpl in Hn.
  apply Bool.eqb_prop in Hn. auto.
Qed.

Lemma follow_not_ro tys name idx v first ro f :
  wf_tys tys = true -> follow tys name v idx first ro = Some (f, false) ->
  ro = false /\ exported_name name = true.
Proof.
  intros W. revert v first ro. induction idx as [|i rest IH]; intros v first ro H; simpl in H; [discriminate|].
  destruct (if first then Some v else match v with VPtr _ (Some x) => Some x | VPtr _ None => None | _ => Some v end) as [v1|];
    [|discriminate].
  destruct v1; try discriminate.
  destruct (nth_error fs i) as [fv|]; [|discriminate].
  destruct (nth_error (ti_fields (tget tys ty)) i) as [[fname e]|] eqn:Ef; [|discriminate].
  pose proof (wf_field _ _ _ _ _ W Ef) as He.
  destruct rest as [|j rest'].
  - destruct (String.eqb fname name) eqn:En; [|discriminate]. inversion H; subst.
    apply orb_false_iff in H2 as [Hro Hex]. apply negb_false_iff in Hex.
    apply String.eqb_eq in En. subst. split; auto. congruence.
  - apply IH in H as [Hro Hname]. apply orb_false_iff in Hro as [Hro _]. auto.
Qed.

Lemma walk_not_ro v tys names cur ro f :
  wf_tys tys = true -> walk v tys cur ro names = WOk f false ->
  ro = false /\ forallb exported_name names = true.
Proof.
  intros W. revert cur ro. induction names as [|n r IH]; intros cur ro H; simpl in H.
  - inversion H; subst. auto.
  - destruct (match cur with VPtr _ (Some x) => x | VPtr _ None => VInvalid | _ => cur end) eqn:Ec; try discriminate.
    destruct (assoc n (ti_byname (tget tys ty))) as [idx|]; [|discriminate].
    destruct (follow tys n (VStruct ty inst fs) idx true ro) as [[f' ro']|] eqn:Ef.
    + apply IH in H as [Hro Hr]. subst ro'. apply follow_not_ro in Ef as [Hro Hn]; auto.
      split; auto. simpl. rewrite Hn, Hr. reflexivity.
    + destruct (resolve_unchecked_nil v); discriminate.
Qed.

Lemma find_meth_in k l m : find_meth k l = Some m -> In m l /\ m_name m = k.
Proof.
  induction l as [|x r IH]; simpl; [discriminate|].
  destruct (String.eqb k (m_name x)) eqn:E.
  - intros H; inversion H; subst. apply String.eqb_eq in E. auto.
  - intros H. apply IH in H as [H1 H2]. auto.
Qed.

Lemma assoc_in {A} k (l : list (string * A)) a : assoc k l = Some a -> In (k, a) l.
Proof.
  induction l as [|[k' a'] r IH]; simpl; [discriminate|].
  destruct (String.eqb k k') eqn:E.
  - intros H; inversion H; subst. apply String.eqb_eq in E; subst. auto.
  - auto.
Qed.

Lemma has_method_exported tys f m n :
  wf_tys tys = true -> has_method tys f m = Some n -> exported_name m = true.
Proof.
  intros W H.
  assert (Hpm : forall ty x, find_meth m (ti_pm (tget tys ty)) = Some x -> exported_name m = true).
  { intros ty x Hf. apply find_meth_in in Hf as [Hin Hn]. pose proof (wf_tget tys ty W) as Wt.
    unfold wf_tinfo in Wt. repeat (apply andb_true_iff in Wt as [Wt ?]).
    match goal with Hx : forallb (fun m => exported_name (m_name m)) _ = true |- _ =>
      rewrite forallb_forall in Hx; apply Hx in Hin; rewrite Hn in Hin; exact Hin end. }
  destruct f; simpl in H; try discriminate.
  - destruct (mem_str m (ti_vm (tget tys ty))); [|discriminate].
    destruct (find_meth m (ti_pm (tget tys ty))) eqn:E; [eapply Hpm; eauto|discriminate].
  - destruct (find_meth m (ti_pm (tget tys ety))) eqn:E; [eapply Hpm; eauto|discriminate].
  - destruct dyn; [|discriminate]. apply assoc_in in H. pose proof (wf_tget tys ity W) as Wt.
    unfold wf_tinfo in Wt. repeat (apply andb_true_iff in Wt as [Wt ?]).
    match goal with Hx : forallb (fun p => exported_name (fst p)) (ti_im _) = true |- _ =>
      rewrite forallb_forall in Hx; apply Hx in H; exact H end.
  - destruct (mem_str m (ti_vm (tget tys ty))); [|discriminate].
    destruct (find_meth m (ti_pm (tget tys ty))) eqn:E; [eapply Hpm; eauto|discriminate].
Qed.

Lemma fallback_not_invoked name argc i m : fallback name argc <> OInvoked i m.
Proof. unfold fallback. destruct (String.eqb name "CallClosure"); [destruct (Nat.eqb argc 2)|]; discriminate. Qed.

Lemma removelast_last_str (l : list string) : l <> [] -> l = (removelast l ++ [last_str l])%list.
Proof.
  induction l as [|x r IH]; [congruence|]. intros _. destruct r as [|y r']; [reflexivity|].
  change (removelast (x :: y :: r')) with (x :: removelast (y :: r')).
  change (last_str (x :: y :: r')) with (last_str (y :: r')).
  simpl app. f_equal. apply IH. discriminate.
Qed.

(* what it takes for a request to run application code *)
Lemma resolve_invoked_inv v tys root name argc i m :
  resolve v tys root name argc = OInvoked i m ->
  exists f, walk v tys root false (removelast (split_dot name)) = WOk f false /\
            has_method tys f (last_str (split_dot name)) = Some (argc + 1) /\
            invoke tys 20 f (last_str (split_dot name)) = OInvoked i m.
Proof.
  unfold resolve. intros H.
  destruct (split_dot name) as [|p ps] eqn:Es; [exfalso; eapply split_dot_aux_nonempty; exact Es|].
  assert (Hgen :
      match walk v tys root false (removelast (p :: ps)) with
      | WPanic => OCrash
      | WErr => fallback name argc
      | WOk f ro =>
          if match f with VInvalid => true | VIface _ None => true | _ => false end then
            (if resolve_unchecked_nil v then
               match f with
               | VInvalid => OCrash
               | VIface ity None => (match assoc (last_str (p :: ps)) (ti_im (tget tys ity)) with Some _ => OCrash | None => fallback name argc end)
               | _ => fallback name argc
               end
             else fallback name argc)
          else match has_method tys f (last_str (p :: ps)) with
               | None => fallback name argc
               | Some nin => if Nat.eqb nin (argc + 1) then (if ro then OPanicInCall else invoke tys 20 f (last_str (p :: ps))) else OArgCount
               end
      end = OInvoked i m \/ fallback name argc = OInvoked i m).
  { destruct p as [|c p']; [destruct ps|]; auto. }
  clear H. destruct Hgen as [H|H]; [|exfalso; eapply fallback_not_invoked; eauto].
  destruct (walk v tys root false (removelast (p :: ps))) as [f ro| |] eqn:Ew;
    [|exfalso; eapply fallback_not_invoked; eauto|discriminate].
  destruct (match f with VInvalid => true | VIface _ None => true | _ => false end) eqn:En.
  - destruct (resolve_unchecked_nil v); [|exfalso; eapply fallback_not_invoked; eauto].
    destruct f; try discriminate; try (exfalso; eapply fallback_not_invoked; eauto; fail).
    destruct dyn; [exfalso; eapply fallback_not_invoked; eauto|].
    destruct (assoc (last_str (p :: ps)) (ti_im (tget tys ity))); [discriminate|exfalso; eapply fallback_not_invoked; eauto].
  - destruct (has_method tys f (last_str (p :: ps))) as [nin|] eqn:Eh; [|exfalso; eapply fallback_not_invoked; eauto].
    destruct (Nat.eqb nin (argc + 1)) eqn:Ea; [|discriminate].
    destruct ro; [discriminate|]. apply Nat.eqb_eq in Ea; subst. eauto.
Qed.

Lemma only_exported_names_run_lemma v tys root name argc i m :
  wf_tys tys = true -> resolve v tys root name argc = OInvoked i m ->
  forallb exported_name (split_dot name) = true.
Proof.
  intros W H. apply resolve_invoked_inv in H as (f & Hw & Hm & _).
  apply walk_not_ro in Hw as [_ Hr]; auto. apply has_method_exported in Hm; auto.
  rewrite (removelast_last_str (split_dot name)) by apply split_dot_aux_nonempty.
  rewrite forallb_app, Hr. simpl. rewrite Hm. reflexivity.
Qed.

(* the argument count sent equals the method's parameter count minus the context *)
Lemma arity_matches_lemma v tys root name argc i m :
  resolve v tys root name argc = OInvoked i m ->
  exists f, has_method tys f (last_str (split_dot name)) = Some (argc + 1).
Proof. intros H. apply resolve_invoked_inv in H as (f & _ & Hm & _). eauto. Qed.
