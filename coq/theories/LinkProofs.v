(* LinkProofs.v — invariants of Link.v and the lemmas behind Props/C03..C16. *)
From Verif Require Import Base Link.

Ltac break_lstep H :=
  unfold lstep, only0 in H;
  repeat (match type of H with
          | context [match ?x with _ => _ end] => destruct x eqn:?; try discriminate H
          end);
  try (inversion H; subst; clear H).

(* ---------------------------------------------------------------- thread table *)
Lemma tname_eqb_refl t : tname_eqb t t = true.
Proof. destruct t; simpl; auto using Nat.eqb_refl. Qed.

Lemma tname_eqb_eq a b : tname_eqb a b = true <-> a = b.
Proof.
  split; [|intros ->; apply tname_eqb_refl].
  destruct a, b; simpl; intros H; try discriminate; auto; apply Nat.eqb_eq in H; subst; auto.
Qed.

Lemma tget_tset_same l t st : tget (tset l t st) t = Some st.
Proof.
  induction l as [|[t' st'] r IH]; simpl.
  - rewrite tname_eqb_refl; auto.
  - destruct (tname_eqb t t') eqn:E; simpl; rewrite ?E; auto.
Qed.

Lemma tget_tset_other l t t' st : t <> t' -> tget (tset l t st) t' = tget l t'.
Proof.
  intros Hne. induction l as [|[t2 st2] r IH]; simpl.
  - destruct (tname_eqb t' t) eqn:E; auto. apply tname_eqb_eq in E; congruence.
  - destruct (tname_eqb t t2) eqn:E; simpl.
    + apply tname_eqb_eq in E; subst t2.
      destruct (tname_eqb t' t) eqn:E2; auto. apply tname_eqb_eq in E2; congruence.
    + destruct (tname_eqb t' t2); auto.
Qed.

Lemma wake1_fst calls s p : fst (wake1 calls s p) = fst p.
Proof.
  destruct p as [t st]. unfold wake1. destruct t, st; simpl; auto;
    repeat match goal with |- context [if ?c then _ else _] => destruct c end; auto.
Qed.

Lemma tget_map_wake_gen calls s l t :
  tget (map (wake1 calls s) l) t = option_map (fun st => snd (wake1 calls s (t, st))) (tget l t).
Proof.
  induction l as [|[t' st'] r IH]; [reflexivity|].
  change (map (wake1 calls s) ((t', st') :: r)) with (wake1 calls s (t', st') :: map (wake1 calls s) r).
  destruct (wake1 calls s (t', st')) as [t2 st2] eqn:E.
  assert (t2 = t') by (pose proof (wake1_fst calls s (t', st')) as F; rewrite E in F; exact F). subst t2.
  cbn [tget]. destruct (tname_eqb t t') eqn:Et.
  - apply tname_eqb_eq in Et; subst. unfold option_map. rewrite E. reflexivity.
  - exact IH.
Qed.

Lemma tget_map_wake calls s l :
  tget (map (wake1 calls s) l) TLink = tget l TLink /\ tget (map (wake1 calls s) l) TSetup = tget l TSetup.
Proof.
  rewrite !tget_map_wake_gen. split.
  - destruct (tget l TLink); reflexivity.
  - destruct (tget l TSetup); reflexivity.
Qed.

(* ---------------------------------------------------------------- C16: Link returns the first report *)
Fixpoint first_report (l : list event) : option err :=       (* l is newest first *)
  match l with
  | [] => None
  | EvReport e :: r => match first_report r with Some e0 => Some e0 | None => Some e end
  | _ :: r => first_report r
  end.

Definition link_state_ok (s : lst) : Prop :=
  match tget (threads s) TLink with
  | Some (LReturn e) => fatal s = Some e
  | Some LWaiting => fatal s = None
  | _ => True
  end.

Definition Inv16 (s : lst) : Prop :=
  fatal s = first_report (evs s) /\
  link_state_ok s /\
  (forall e, In (EvLinkReturn e) (evs s) -> fatal s = Some e).

Definition quiet (e : event) : Prop :=
  match e with EvReport _ | EvLinkReturn _ => False | _ => True end.

Lemma first_report_quiet e l : quiet e -> first_report (e :: l) = first_report l.
Proof. destruct e; simpl; tauto. Qed.

(* preservation by the building blocks *)
Lemma inv16_setT s t st : t <> TLink -> Inv16 s -> Inv16 (setT s t st).
Proof.
  intros Hne (H1 & H2 & H3). repeat split; auto.
  unfold link_state_ok, setT in *; simpl. rewrite tget_tset_other; auto.
Qed.

Lemma inv16_with_ev s e : quiet e -> Inv16 s -> Inv16 (with_ev s e).
Proof.
  intros Hq (H1 & H2 & H3). repeat split; auto.
  - change (evs (with_ev s e)) with (e :: evs s). rewrite first_report_quiet; auto.
  - change (evs (with_ev s e)) with (e :: evs s). intros e' [->|Hin]; [simpl in Hq; tauto|auto].
Qed.

Lemma inv16_with_flt s f : Inv16 s -> Inv16 (with_flt s f).
Proof. intros (H1 & H2 & H3); repeat split; auto. Qed.

Lemma inv16_with_closures s c : Inv16 s -> Inv16 (with_closures s c).
Proof. intros (H1 & H2 & H3); repeat split; auto. Qed.

Lemma inv16_wake calls s : Inv16 s -> Inv16 (wake calls s).
Proof.
  intros (H1 & H2 & H3); repeat split; auto.
  unfold link_state_ok, wake in *; simpl. destruct (tget_map_wake calls s (threads s)) as [-> _]. auto.
Qed.

Lemma inv16_do_close s : Inv16 s -> Inv16 (do_close s).
Proof. intros (H1 & H2 & H3); repeat split; auto. Qed.

Lemma inv16_do_free s id : Inv16 s -> Inv16 (do_free s id).
Proof. intros (H1 & H2 & H3). unfold do_free. destruct (lookupN id (tbl s)); repeat split; auto. Qed.

Lemma inv16_take_fault s k : Inv16 s -> Inv16 (snd (take_fault s k)).
Proof.
  intros H. unfold take_fault. destruct k as [|[|[|k]]]; simpl; apply inv16_with_flt; auto.
Qed.

Lemma inv16_begin_seterr calls s t e k : t <> TLink -> Inv16 s -> Inv16 (begin_seterr calls s t e k).
Proof. intros Hne H. unfold begin_seterr. apply inv16_wake, inv16_setT, inv16_do_close; auto. Qed.

Lemma inv16_caller_panic calls s i e : Inv16 s -> Inv16 (caller_panic calls s i e).
Proof. intros H. unfold caller_panic. apply inv16_begin_seterr; [discriminate|]. apply inv16_with_closures; auto. Qed.

Lemma inv16_caller_return s i v e : Inv16 s -> Inv16 (caller_return s i v e).
Proof.
  intros H. unfold caller_return. apply inv16_with_ev; [exact I|].
  apply inv16_setT; [discriminate|]. apply inv16_with_closures; auto.
Qed.

Lemma inv16_loop_again calls s t st : t <> TLink -> Inv16 s -> Inv16 (loop_again calls s t st).
Proof.
  intros Hne H. unfold loop_again. destruct (memN 0%N (cancelled s)).
  - apply inv16_begin_seterr; auto.
  - apply inv16_setT; auto.
Qed.

Lemma inv16_same_core s s' :
  fatal s' = fatal s -> evs s' = evs s -> threads s' = threads s -> Inv16 s -> Inv16 s'.
Proof.
  intros Hf He Ht (H1 & H2 & H3). unfold Inv16, link_state_ok. rewrite Hf, He, Ht. auto.
Qed.

Lemma inv16_loop_done s : Inv16 s -> Inv16 (loop_done s).
Proof.
  intros H. unfold loop_done.
  match goal with |- Inv16 (if ?c then _ else ?x) =>
    assert (Hx : Inv16 x) by (eapply inv16_same_core; [| | |exact H]; reflexivity); destruct c; auto end.
  match goal with |- Inv16 (match ?o with _ => _ end) => destruct o as [[]|]; auto end.
  apply inv16_setT; [discriminate|auto].
Qed.

Lemma inv16_handler_respond calls s n v e : Inv16 s -> Inv16 (handler_respond calls s n v e).
Proof.
  intros H. unfold handler_respond.
  pose proof (inv16_take_fault s 2 H) as H2. destruct (take_fault s 2) as [[x|] s1]; simpl in H2.
  - apply inv16_begin_seterr; [discriminate|auto].
  - destruct (memN 0%N (cancelled s1)); [apply inv16_begin_seterr; [discriminate|auto]|].
    pose proof (inv16_take_fault s1 1 H2) as H3. destruct (take_fault s1 1) as [[x|] s2]; simpl in H3.
    + apply inv16_begin_seterr; [discriminate|auto].
    + apply inv16_with_ev; [exact I|]. apply inv16_setT; [discriminate|auto].
Qed.

Lemma first_report_cons_report e l :
  first_report (EvReport e :: l) = match first_report l with Some e0 => Some e0 | None => Some e end.
Proof. reflexivity. Qed.

Lemma inv16_do_store s e : Inv16 s -> Inv16 (do_store fixed s e).
Proof.
  intros (H1 & H2 & H3). unfold do_store. simpl.
  set (f := match fatal s with Some e0 => e0 | None => e end).
  assert (Hf : Some f = first_report (EvReport e :: evs s)).
  { rewrite first_report_cons_report, <- H1. unfold f. destruct (fatal s); auto. }
  assert (Hold : forall e', fatal s = Some e' -> f = e') by (intros e' He; unfold f; rewrite He; auto).
  unfold link_state_ok in H2.
  destruct (tget (threads s) TLink) as [st|] eqn:Et.
  2:{ repeat split; simpl; auto.
      - unfold link_state_ok; simpl. rewrite Et. auto.
      - intros e' [Hc|Hin]; [discriminate|]. f_equal. auto. }
  destruct st;
    try (repeat split; simpl; auto;
         [unfold link_state_ok; simpl; rewrite Et; auto; try (f_equal; auto)
         |intros e' [Hc|Hin]; [discriminate|]; f_equal; auto]; fail).
  (* Link was waiting: it wakes and reads the slot *)
  repeat split; simpl; auto.
  - unfold link_state_ok, setT; simpl. rewrite tget_tset_same. auto.
  - intros e' [Hc|Hin]; [discriminate|]. f_equal. auto.
Qed.

