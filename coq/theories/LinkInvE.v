(* LinkInvE.v — C16: the error Link returns is never the consequential 'closed' error of a call
   that was made on the already ended link (defect D8 of the tree as found: such a call reported
   utils.ErrClosed through setErr and could win the race for the fatal slot against the failure
   that had ended the link).  Invariant over all reachable states of Link.v (variant fixed):
   nobody is inside setErr with ErrClosed and no report of ErrClosed was ever made. *)
From Verif Require Import Base Link LinkProofs LinkInv16 LinkInvB.

Definition not_closed (e : err) : bool := match e with EClosed => false | _ => true end.

Definition thrE (st : tstate) : bool := match st with SetErrMid e _ => not_closed e | _ => true end.
Definition evE (e : event) : bool := match e with EvReport x => not_closed x | _ => true end.

Definition InvE (s : lst) : Prop :=
  (forall t st, tget (threads s) t = Some st -> thrE st = true) /\ forallb evE (evs s) = true.

Lemma InvE_ext s s' : threads s' = threads s -> evs s' = evs s -> InvE s -> InvE s'.
Proof. intros A B (H1 & H2). split; [rewrite A; exact H1|rewrite B; exact H2]. Qed.

Lemma InvE_setT s t st : thrE st = true -> InvE s -> InvE (setT s t st).
Proof.
  intros Hk (H1 & H2). split; [|exact H2]. intros t' st' Ht. unfold setT in Ht; simpl in Ht. rewrite tget_tset in Ht.
  destruct (tname_eqb t' t); [inversion Ht; subst; exact Hk|eauto].
Qed.

Lemma InvE_with_ev s e : evE e = true -> InvE s -> InvE (with_ev s e).
Proof. intros He (H1 & H2). split; [exact H1|]. simpl. rewrite He, H2. reflexivity. Qed.

Lemma thrE_wake1 calls s t st : thrE st = true -> thrE (snd (wake1 calls s (t, st))) = true.
Proof.
  intros H. destruct t; destruct st; simpl; auto;
    repeat match goal with |- context [if ?c then _ else _] => destruct c; simpl; auto end.
Qed.

Lemma InvE_wake calls s : InvE s -> InvE (wake calls s).
Proof.
  intros (H1 & H2). split; [|exact H2]. intros t st Ht. unfold wake in Ht; simpl in Ht. rewrite tget_map_wake_gen in Ht.
  destruct (tget (threads s) t) as [st0|] eqn:E; [|discriminate]. simpl in Ht. inversion Ht; subst.
  apply thrE_wake1. eauto.
Qed.

Lemma InvE_do_close s : InvE s -> InvE (do_close s).
Proof. intros H. eapply InvE_ext; [| |exact H]; reflexivity. Qed.
Lemma InvE_do_free s id : InvE s -> InvE (do_free s id).
Proof. intros H. unfold do_free. destruct (lookupN id (tbl s)); [eapply InvE_ext; [| |exact H]; reflexivity|exact H]. Qed.
Lemma InvE_take_fault s k o s1 : take_fault s k = (o, s1) -> InvE s -> InvE s1.
Proof. intros E H. unfold take_fault in E. destruct k as [|[|[|k]]]; inversion E; subst; (eapply InvE_ext; [| |exact H]; reflexivity). Qed.
Lemma InvE_with_flt s f : InvE s -> InvE (with_flt s f).
Proof. intros H. eapply InvE_ext; [| |exact H]; reflexivity. Qed.
Lemma InvE_with_closures s c : InvE s -> InvE (with_closures s c).
Proof. intros H. eapply InvE_ext; [| |exact H]; reflexivity. Qed.

Lemma InvE_begin_seterr calls s t e k : not_closed e = true -> InvE s -> InvE (begin_seterr calls s t e k).
Proof. intros He H. unfold begin_seterr. apply InvE_wake. apply InvE_setT; [exact He|]. apply InvE_do_close; auto. Qed.
Lemma InvE_caller_panic calls s i e : not_closed e = true -> InvE s -> InvE (caller_panic calls s i e).
Proof. intros He H. unfold caller_panic. apply InvE_begin_seterr; auto. Qed.
Lemma InvE_caller_return s i v e : InvE s -> InvE (caller_return s i v e).
Proof. intros H. unfold caller_return. apply InvE_with_ev; [reflexivity|]. apply InvE_setT; [reflexivity|]. apply InvE_with_closures; auto. Qed.
Lemma InvE_loop_again calls s t st : thrE st = true -> InvE s -> InvE (loop_again calls s t st).
Proof. intros Hk H. unfold loop_again. destruct (memN 0%N (cancelled s)); [apply InvE_begin_seterr; auto|apply InvE_setT; auto]. Qed.

Lemma InvE_loop_done s : InvE s -> InvE (loop_done s).
Proof.
  intros H. unfold loop_done. cbv zeta.
  match goal with |- InvE (if ?c then _ else ?x) =>
    assert (Hx : InvE x) by (eapply InvE_ext; [| |exact H]; reflexivity); destruct c; auto end.
  match goal with |- InvE (match ?o with _ => _ end) => destruct o as [[]|]; auto end.
  apply InvE_setT; auto.
Qed.

Lemma InvE_do_store v s e : not_closed e = true -> InvE s -> InvE (do_store v s e).
Proof.
  intros He (H1 & H2). unfold do_store. cbv zeta.
  match goal with |- InvE (match tget (threads ?x) TLink with _ => _ end) =>
    assert (Hx : InvE x) by (split; [exact H1|simpl; rewrite He, H2; reflexivity]);
    destruct (tget (threads x) TLink) as [[]|]; auto end.
  apply InvE_setT; auto.
Qed.

Lemma InvE_handler_respond calls s n v e : InvE s -> InvE (handler_respond calls s n v e).
Proof.
  intros H. unfold handler_respond.
  destruct (take_fault s 2) as [[x|] s1] eqn:E1.
  - apply InvE_begin_seterr; [reflexivity|]. eapply InvE_take_fault; eauto.
  - assert (H1 : InvE s1) by (eapply InvE_take_fault; eauto).
    destruct (memN 0%N (cancelled s1)); [apply InvE_begin_seterr; [reflexivity|auto]|].
    destruct (take_fault s1 1) as [[x|] s2] eqn:E2.
    + apply InvE_begin_seterr; [reflexivity|]. eapply InvE_take_fault; eauto.
    + apply InvE_with_ev; [reflexivity|]. apply InvE_setT; [reflexivity|]. eapply InvE_take_fault; eauto.
Qed.

Ltac ie := repeat first
 [ assumption
 | match goal with
   | |- InvE (with_ev _ _) => apply InvE_with_ev; [reflexivity|]
   | |- InvE (with_flt _ _) => apply InvE_with_flt
   | |- InvE (with_closures _ _) => apply InvE_with_closures
   | |- InvE (wake _ _) => apply InvE_wake
   | |- InvE (do_free _ _) => apply InvE_do_free
   | |- InvE (do_close _) => apply InvE_do_close
   | |- InvE (caller_panic _ _ _ _) => apply InvE_caller_panic; [reflexivity|]
   | |- InvE (caller_return _ _ _ _) => apply InvE_caller_return
   | |- InvE (handler_respond _ _ _ _ _) => apply InvE_handler_respond
   | |- InvE (begin_seterr _ _ _ _ _) => apply InvE_begin_seterr; [reflexivity|]
   | |- InvE (loop_again _ _ _ _) => apply InvE_loop_again; [reflexivity|]
   | |- InvE (loop_done _) => apply InvE_loop_done
   | |- InvE (setT _ _ _) => apply InvE_setT; [reflexivity|]
   | E : take_fault ?b _ = (_, ?c) |- InvE ?c => apply (InvE_take_fault _ _ _ _ E)
   end ].

Lemma InvE_env calls s a s' : InvE s -> step_env fixed calls s a = Some s' -> InvE s'.
Proof.
  intros HI H. unfold step_env in H. destruct a as [i|id x e| |n|f arg| |n|c|which n].
  - destruct (tget (threads s) (TCall i)) eqn:Ht; [discriminate|].
    destruct (nth_error calls i) as [cs|] eqn:Hn; [|discriminate].
    set (s0 := if c_closure cs then with_closures s (i :: closures s) else s) in *.
    assert (H0 : InvE s0) by (unfold s0; destruct (c_closure cs); ie).
    destruct (take_fault s0 2) as [[x|] s1] eqn:E1; [inversion H; subst; ie|].
    assert (H1 : InvE s1) by ie.
    destruct (bclosed s1) eqn:Eb; inversion H; subst; [ie|].
    destruct H1 as (K1 & K2). split; [|exact K2].
    intros t st Hg. simpl in Hg. rewrite tget_tset in Hg. destruct (tname_eqb t (TCall i)); [inversion Hg; reflexivity|eauto].
  - destruct (tget (threads s) TResLoop) as [[]|] eqn:Ht; try discriminate.
    destruct (take_fault s 3) as [[y|] s1] eqn:E1; inversion H; subst; [ie|].
    apply InvE_loop_again; [reflexivity|]. assert (H1 : InvE s1) by ie. destruct H1 as (K1 & K2). split; [|exact K2].
    intros t st Hg. simpl in Hg. rewrite tget_tset in Hg. destruct (tname_eqb t (TPub (npub s1))); [inversion Hg; reflexivity|eauto].
  - destruct (tget (threads s) TResLoop) as [[]|] eqn:Ht; try discriminate.
    destruct (take_fault s 3) as [[y|] s1] eqn:E1; inversion H; subst; ie.
  - destruct (tget (threads s) TResLoop) as [[]|] eqn:Ht; try discriminate. inversion H; subst. ie.
  - destruct (tget (threads s) TReqLoop) as [[]|] eqn:Ht; try discriminate.
    destruct (take_fault s 3) as [[y|] s1] eqn:E1; inversion H; subst; [ie|].
    apply InvE_loop_again; [reflexivity|]. assert (H1 : InvE s1) by ie. destruct H1 as (K1 & K2). split; [|exact K2].
    intros t st Hg. simpl in Hg. rewrite tget_tset in Hg. destruct (tname_eqb t (TReq (nreq s1))); [inversion Hg; reflexivity|eauto].
  - destruct (tget (threads s) TReqLoop) as [[]|] eqn:Ht; try discriminate.
    destruct (take_fault s 3) as [[y|] s1] eqn:E1; inversion H; subst; ie.
  - destruct (tget (threads s) TReqLoop) as [[]|] eqn:Ht; try discriminate. inversion H; subst. ie.
  - destruct (memN c (cancelled s)); [discriminate|]. inversion H; subst.
    apply InvE_wake. eapply InvE_ext; [| |exact HI]; reflexivity.
  - inversion H; subst. ie.
Qed.

Lemma InvE_caller calls s i st s' : InvE s -> step_caller calls s i st = Some s' -> InvE s'.
Proof.
  intros HI H. unfold step_caller in H. destruct st; try discriminate.
  - set (s0 := setT s (TWaiter i) (WStart ent)) in *.
    assert (H0 : InvE s0) by (unfold s0; ie).
    destruct (memN 0%N (cancelled s0)); [inversion H; subst; ie|].
    destruct (take_fault s0 0) as [[x|] s1] eqn:E1; inversion H; subst; ie.
  - destruct o as [[x e|e]|].
    + destruct (Nat.eqb (c_nres (nth i calls dflt_call)) 1); [inversion H; subst; ie|].
      destruct (take_fault s 3) as [[y|] s1] eqn:E1; inversion H; subst; ie.
    + inversion H; subst; ie.
    + inversion H; subst; ie.
Qed.

Lemma InvE_seterr s t e k s' :
  tget (threads s) t = Some (SetErrMid e k) -> InvE s -> step_seterr fixed s t e k = Some s' -> InvE s'.
Proof.
  intros Ht HI H. unfold step_seterr in H. destruct (tname_eqb t TLink); [discriminate|].
  assert (He : not_closed e = true) by (exact (proj1 HI _ _ Ht)).
  assert (H1 : InvE (do_store fixed s e)) by (apply InvE_do_store; auto).
  destruct k as [|e'|]; [|destruct t|]; inversion H; subst; ie.
Qed.

Lemma InvE_waiter calls s i st b s' : InvE s -> step_waiter fixed calls s i st b = Some s' -> InvE s'.
Proof.
  intros HI H. unfold step_waiter in H. destruct st; try discriminate.
  - match type of H with (match ?c with _ => _ end) = _ => destruct c eqn:Ec end.
    + unfold only0 in H. destruct b; inversion H; subst; ie.
    + match type of H with (match ?c with _ => _ end) = _ => destruct c as [[n| |]|] eqn:En end; try discriminate.
      * destruct (tget (threads s) (TPub n)) as [[]|]; try discriminate.
        match type of H with (if ?c then _ else _) = _ => destruct c end; [|discriminate].
        inversion H; subst; ie.
      * inversion H; subst; ie.
      * inversion H; subst; ie.
  - unfold only0 in H. destruct b; [|discriminate]. simpl in H.
    destruct (tget (threads s) (TCall i)) as [[]|]; inversion H; subst; ie.
  - unfold only0 in H. destruct b; inversion H; subst; ie.
Qed.

Lemma InvE_pub s n st b s' : InvE s -> step_pub s n st b = Some s' -> InvE s'.
Proof.
  intros HI H. unfold step_pub in H. destruct st; try discriminate.
  - unfold only0 in H. destruct b; [|discriminate].
    destruct (bclosed s); [inversion H; subst; ie|].
    destruct (lookupN id (tbl s)); inversion H; subst; ie.
  - match type of H with (match ?c with _ => _ end) = _ => destruct c eqn:Ec end.
    + unfold only0 in H. destruct b; inversion H; subst; ie.
    + match type of H with (match ?c with _ => _ end) = _ => destruct c as [[i|]|] eqn:En end; try discriminate.
      * destruct (tget (threads s) (TWaiter i)) as [[]|]; try discriminate.
        match type of H with (if ?c then _ else _) = _ => destruct c end; [|discriminate].
        inversion H; subst; ie.
      * inversion H; subst; ie.
  - unfold only0 in H. destruct b; inversion H; subst; ie.
  - unfold only0 in H. destruct b; inversion H; subst; ie.
Qed.

Lemma InvE_callee calls s t n st s' : InvE s -> step_callee calls s t n st = Some s' -> InvE s'.
Proof.
  intros HI H. unfold step_callee in H. destruct t; try discriminate; destruct st; try discriminate.
  - destruct f; try (inversion H; subst; ie; fail);
      destruct (take_fault s 3) as [[y|] s1] eqn:E1; inversion H; subst; ie.
  - destruct f; try (inversion H; subst; ie; fail);
      try (destruct (handler_result _ arg) as [[x e]|]; inversion H; subst; ie).
  - inversion H; subst; ie.
Qed.

Lemma InvE_infra calls s t st s' : InvE s -> step_infra fixed calls s t st = Some s' -> InvE s'.
Proof.
  intros HI H. unfold step_infra in H. destruct t; try discriminate; destruct st; try discriminate.
  - inversion H; subst; ie.
  - destruct (fatal s); inversion H; subst; ie.
  - inversion H; subst; ie.
  - inversion H; subst. ie.
  - inversion H; subst. destruct HI as (K1 & K2). split; [|simpl; exact K2].
    intros t st Hg. simpl in Hg. rewrite tget_tset in Hg. destruct (tname_eqb t TSetup); [inversion Hg; reflexivity|eauto].
Qed.

Lemma InvE_init : InvE linit.
Proof.
  split; [|reflexivity]. intros t st H. unfold linit, init_threads in H. simpl in H.
  destruct t; simpl in H; try discriminate; inversion H; subst; reflexivity.
Qed.

Lemma InvE_step calls s c b s' : InvE s -> lstep fixed calls s c b = Some s' -> InvE s'.
Proof.
  intros HI H. unfold lstep in H. destruct (crashed s); [discriminate|].
  destruct c as [t|a].
  - destruct (tget (threads s) t) as [st|] eqn:Ht; [|discriminate].
    destruct st;
      try (unfold only0 in H; destruct b; [|discriminate]; eapply InvE_seterr; eauto; fail);
      destruct t;
      try (unfold only0 in H; destruct b; [|discriminate]);
      try (eapply InvE_caller; eauto; fail);
      try (eapply InvE_waiter; eauto; fail);
      try (eapply InvE_pub; eauto; fail);
      try (eapply InvE_callee; eauto; fail);
      try (eapply InvE_infra; eauto; fail);
      try discriminate.
  - unfold only0 in H. destruct b; [|discriminate]. eapply InvE_env; eauto.
Qed.

Lemma InvE_run calls cs : forall s0 s, InvE s0 -> lrun fixed calls s0 cs = Some s -> InvE s.
Proof.
  induction cs as [|[c b] r IH]; intros s0 s H0 H; simpl in H.
  - inversion H; subst; auto.
  - destruct (lstep fixed calls s0 c b) eqn:E; [|discriminate]. eapply IH; [|exact H]. eapply InvE_step; eauto.
Qed.

Lemma InvE_reachable calls s : lreachable fixed calls s -> InvE s.
Proof. intros (cs & H). eapply InvE_run; [apply InvE_init|exact H]. Qed.

Lemma first_report_not_closed l : forall e, forallb evE l = true -> first_report l = Some e -> e <> EClosed.
Proof.
  induction l as [|x r IH]; intros e Hl Hf; simpl in *; [discriminate|].
  apply andb_prop in Hl as (Hx & Hr).
  destruct x as [| | | |x0| | | |]; simpl in *; auto.
  destruct (first_report r) as [e1|] eqn:Er.
  - inversion Hf; subst. apply (IH e); auto.
  - inversion Hf; subst. intros Hq. subst e. discriminate.
Qed.

(* whatever Link returns is not the consequential 'closed' error: it is the first report, and no
   report of ErrClosed is ever made *)
Lemma link_never_returns_closed_lemma calls s e :
  lreachable fixed calls s -> In (EvLinkReturn e) (evs s) -> e <> EClosed /\ first_report (evs s) = Some e.
Proof.
  intros Hr Hin. pose proof (link_returns_first_lemma calls s e Hr Hin) as Hf. split; [|exact Hf].
  destruct (InvE_reachable calls s Hr) as (_ & H2). eapply first_report_not_closed; eauto.
Qed.

(* the tree as found: a call made on the already ended link wins the race for the fatal slot and
   Link returns its consequential ErrClosed instead of the transport's error *)
Lemma D8_refuted_lemma :
  exists calls cs s,
    lrun {| close_chan_on_free := false; res_unbuffered := false; decoder_send_unguarded := false;
            overwrite_fatal := false; no_link_hooks := false; resolve_unchecked_nil := false;
            convert_unchecked_nil := false; report_closed := true |} calls linit cs = Some s /\
    In (EvLinkReturn EClosed) (evs s) /\ In (EvReport (EInj 1%N)) (evs s).
Proof.
  exists [mkCall 1 2 false 10; mkCall 2 2 false 11],
         [(Run TSetup, 0); (Run TLink, 0); (Env (EStart 0), 0); (Run (TCall 0), 0); (Run (TWaiter 0), 0);
          (Env (EFailReadRes 1%N), 0); (Env (EStart 1), 0); (Run (TCall 1), 0); (Run TResLoop, 0); (Run TLink, 0)].
  eexists. split; [vm_compute; reflexivity|]. simpl. tauto.
Qed.
