(* LinkUp.v — while nothing goes wrong both reader loops stay at their reads: [Up] = [Healthy]
   (LinkHealthy.v) plus "the request loop and the response loop are parked at their read", an invariant of
   every benign run from any state in which it holds.  This is the health premise of the hop / descend /
   unwind lemmas in a form that is carried across arbitrary benign traffic. *)
From Verif Require Import Base Link LinkProofs LinkInv16 LinkInvB LinkInvT LinkHealthy.

Definition KeepL (s : lst) : Prop :=
  tget (threads s) TResLoop = Some RLReading /\ tget (threads s) TReqLoop = Some QLReading.

Definition loopname (t : tname) : bool := match t with TResLoop | TReqLoop => true | _ => false end.

Lemma KeepL_ext s s' : threads s' = threads s -> KeepL s -> KeepL s'.
Proof. intros A (H1 & H2). unfold KeepL. rewrite A. auto. Qed.
Lemma KeepL_setT s t st : loopname t = false -> KeepL s -> KeepL (setT s t st).
Proof.
  intros N (H1 & H2). unfold KeepL, setT; simpl.
  rewrite !tget_tset_other by (intros ->; discriminate). auto.
Qed.
Lemma KeepL_wake calls s : KeepL s -> KeepL (wake calls s).
Proof. intros (H1 & H2). unfold KeepL, wake; simpl. rewrite !tget_map_wake_gen, H1, H2. simpl. auto. Qed.
Lemma KeepL_do_free s id : KeepL s -> KeepL (do_free s id).
Proof. intros H. unfold do_free. destruct (lookupN id (tbl s)); [apply (KeepL_ext s); auto|exact H]. Qed.
Lemma KeepL_with_ev s e : KeepL s -> KeepL (with_ev s e).
Proof. apply KeepL_ext; reflexivity. Qed.
Lemma KeepL_with_flt s f : KeepL s -> KeepL (with_flt s f).
Proof. apply KeepL_ext; reflexivity. Qed.
Lemma KeepL_with_closures s c : KeepL s -> KeepL (with_closures s c).
Proof. apply KeepL_ext; reflexivity. Qed.
Lemma KeepL_do_close s : KeepL s -> KeepL (do_close s).
Proof. apply KeepL_ext; reflexivity. Qed.
Lemma KeepL_take_fault s k o s1 : take_fault s k = (o, s1) -> KeepL s -> KeepL s1.
Proof. intros E H. unfold take_fault in E. destruct k as [|[|[|k]]]; inversion E; subst; (apply (KeepL_ext s); [reflexivity|exact H]). Qed.
Lemma KeepL_begin_seterr calls s t e k : loopname t = false -> KeepL s -> KeepL (begin_seterr calls s t e k).
Proof. intros N H. unfold begin_seterr. apply KeepL_wake. apply KeepL_setT; [exact N|apply KeepL_do_close; exact H]. Qed.
Lemma KeepL_loop_done s : KeepL s -> KeepL (loop_done s).
Proof.
  intros H. unfold loop_done. cbv zeta.
  match goal with |- KeepL (if ?c then _ else ?x) =>
    assert (Hx : KeepL x) by (apply (KeepL_ext s); auto); destruct c; auto end.
  match goal with |- KeepL (match ?o with _ => _ end) => destruct o as [[]|]; auto end.
  apply KeepL_setT; auto.
Qed.
Lemma KeepL_do_store v s e : KeepL s -> KeepL (do_store v s e).
Proof.
  intros H. unfold do_store. cbv zeta.
  match goal with |- KeepL (match tget (threads ?x) TLink with _ => _ end) =>
    assert (Hx : KeepL x) by (apply (KeepL_ext s); auto);
    destruct (tget (threads x) TLink) as [[]|]; auto end.
  apply KeepL_setT; auto.
Qed.
Lemma KeepL_caller_panic calls s j e : KeepL s -> KeepL (caller_panic calls s j e).
Proof. intros H. unfold caller_panic. apply KeepL_begin_seterr; [reflexivity|]. apply KeepL_with_closures; auto. Qed.
Lemma KeepL_caller_return s j v e : KeepL s -> KeepL (caller_return s j v e).
Proof. intros H. unfold caller_return. apply KeepL_with_ev. apply KeepL_setT; [reflexivity|]. apply KeepL_with_closures; auto. Qed.
Lemma KeepL_handler_respond calls s n v e : KeepL s -> KeepL (handler_respond calls s n v e).
Proof.
  intros H. unfold handler_respond.
  destruct (take_fault s 2) as [[x|] s1] eqn:E1.
  - apply KeepL_begin_seterr; [reflexivity|]. eapply KeepL_take_fault; eauto.
  - assert (H1 : KeepL s1) by (eapply KeepL_take_fault; eauto).
    destruct (memN 0%N (cancelled s1)); [apply KeepL_begin_seterr; [reflexivity|auto]|].
    destruct (take_fault s1 1) as [[x|] s2] eqn:E2.
    + apply KeepL_begin_seterr; [reflexivity|]. eapply KeepL_take_fault; eauto.
    + apply KeepL_with_ev. apply KeepL_setT; [reflexivity|]. eapply KeepL_take_fault; eauto.
Qed.

Ltac kl := repeat first
 [ assumption
 | match goal with
   | |- KeepL (with_ev _ _) => apply KeepL_with_ev
   | |- KeepL (with_flt _ _) => apply KeepL_with_flt
   | |- KeepL (with_closures _ _) => apply KeepL_with_closures
   | |- KeepL (wake _ _) => apply KeepL_wake
   | |- KeepL (do_free _ _) => apply KeepL_do_free
   | |- KeepL (do_close _) => apply KeepL_do_close
   | |- KeepL (do_store _ _ _) => apply KeepL_do_store
   | |- KeepL (loop_done _) => apply KeepL_loop_done
   | |- KeepL (handler_respond _ _ _ _ _) => apply KeepL_handler_respond
   | |- KeepL (caller_panic _ _ _ _) => apply KeepL_caller_panic
   | |- KeepL (caller_return _ _ _ _) => apply KeepL_caller_return
   | |- KeepL (begin_seterr _ _ _ _ _) => apply KeepL_begin_seterr; [reflexivity|]
   | |- KeepL (setT _ _ _) => apply KeepL_setT; [reflexivity|]
   | E : take_fault ?b _ = (_, ?c) |- KeepL ?c => apply (KeepL_take_fault _ _ _ _ E)
   end ].

Lemma KeepL_gen s s' t st : loopname t = false -> threads s' = tset (threads s) t st -> KeepL s -> KeepL s'.
Proof.
  intros N A (H1 & H2). unfold KeepL. rewrite A. rewrite !tget_tset_other by (intros ->; discriminate). auto.
Qed.

(* the reader loop that took a frame is back at its read (the link context is not cancelled) *)
Lemma KeepL_again_res calls s : memN 0%N (cancelled s) = false -> KeepL s -> KeepL (loop_again calls s TResLoop RLReading).
Proof.
  intros Hc (H1 & H2). unfold loop_again. rewrite Hc. unfold KeepL, setT; simpl.
  rewrite tget_tset_same. rewrite tget_tset_other by discriminate. auto.
Qed.
Lemma KeepL_again_req calls s : memN 0%N (cancelled s) = false -> KeepL s -> KeepL (loop_again calls s TReqLoop QLReading).
Proof.
  intros Hc (H1 & H2). unfold loop_again. rewrite Hc. unfold KeepL, setT; simpl.
  rewrite tget_tset_same. rewrite tget_tset_other by discriminate. auto.
Qed.

Lemma KeepL_env calls s a s' :
  Healthy s -> KeepL s -> benign (Env a) = true -> step_env fixed calls s a = Some s' -> KeepL s'.
Proof.
  intros HH HI Hb H. unfold step_env in H. destruct a as [j|id x e| |n|f arg| |n|c|which n]; try discriminate Hb.
  - destruct (tget (threads s) (TCall j)) eqn:Ht; [discriminate|].
    destruct (nth_error calls j) as [cs|] eqn:Hn; [|discriminate].
    set (s0 := if c_closure cs then with_closures s (j :: closures s) else s) in *.
    assert (H0 : KeepL s0) by (unfold s0; destruct (c_closure cs); kl).
    destruct (take_fault s0 2) as [[x|] s1] eqn:E1; [inversion H; subst; kl|].
    assert (H1 : KeepL s1) by kl.
    destruct (bclosed s1) eqn:Eb; inversion H; subst; [kl|].
    eapply KeepL_gen with (t := TCall j) (st := CRegistered (length (ents s1))); [reflexivity|reflexivity|exact H1].
  - destruct (tget (threads s) TResLoop) as [[]|] eqn:Ht; try discriminate.
    destruct (take_fault s 3) as [o s1] eqn:E1. destruct (H_take_fault _ _ _ _ HH E1) as (-> & HH1).
    inversion H; subst.
    apply KeepL_again_res; [simpl; exact (h_ctx _ HH1)|].
    assert (H1 : KeepL s1) by kl.
    eapply KeepL_gen with (t := TPub (npub s1)) (st := PEnter id x e); [reflexivity|reflexivity|exact H1].
  - destruct (tget (threads s) TReqLoop) as [[]|] eqn:Ht; try discriminate.
    destruct (take_fault s 3) as [o s1] eqn:E1. destruct (H_take_fault _ _ _ _ HH E1) as (-> & HH1).
    inversion H; subst.
    apply KeepL_again_req; [simpl; exact (h_ctx _ HH1)|].
    assert (H1 : KeepL s1) by kl.
    eapply KeepL_gen with (t := TReq (nreq s1)) (st := QStart f arg); [reflexivity|reflexivity|exact H1].
  - destruct (memN c (cancelled s)); [discriminate|]. inversion H; subst.
    apply KeepL_wake. apply (KeepL_ext s); [reflexivity|exact HI].
Qed.

Lemma KeepL_caller calls s j st s' : KeepL s -> step_caller calls s j st = Some s' -> KeepL s'.
Proof.
  intros HI H. unfold step_caller in H. destruct st; try discriminate.
  - set (s0 := setT s (TWaiter j) (WStart ent)) in *.
    assert (H0 : KeepL s0) by (unfold s0; kl).
    destruct (memN 0%N (cancelled s0)); [inversion H; subst; kl|].
    destruct (take_fault s0 0) as [[x|] s1] eqn:E1; inversion H; subst; kl.
  - destruct o as [[x e|e]|].
    + destruct (Nat.eqb (c_nres (nth j calls dflt_call)) 1); [inversion H; subst; kl|].
      destruct (take_fault s 3) as [[y|] s1] eqn:E1; inversion H; subst; kl.
    + inversion H; subst; kl.
    + inversion H; subst; kl.
Qed.

Lemma KeepL_seterr s t e k s' : KeepL s -> loopname t = false -> step_seterr fixed s t e k = Some s' -> KeepL s'.
Proof.
  intros HI N H. unfold step_seterr in H. destruct (tname_eqb t TLink); [discriminate|].
  destruct k as [|e'|]; [|destruct t|]; inversion H; subst; kl; apply KeepL_setT; auto; kl.
Qed.

Lemma KeepL_waiter calls s j st b s' : KeepL s -> step_waiter fixed calls s j st b = Some s' -> KeepL s'.
Proof.
  intros HI H. unfold step_waiter in H. destruct st; try discriminate.
  - match type of H with (match ?c with _ => _ end) = _ => destruct c eqn:Ec end.
    + unfold only0 in H. destruct b; inversion H; subst; kl.
    + match type of H with (match ?c with _ => _ end) = _ => destruct c as [[n| |]|] eqn:En end; try discriminate.
      * destruct (tget (threads s) (TPub n)) as [[]|]; try discriminate.
        match type of H with (if ?c then _ else _) = _ => destruct c end; [|discriminate].
        inversion H; subst; kl.
      * inversion H; subst; kl.
      * inversion H; subst; kl.
  - unfold only0 in H. destruct b; [|discriminate]. simpl in H.
    destruct (tget (threads s) (TCall j)) as [[]|]; inversion H; subst; kl.
  - unfold only0 in H. destruct b; inversion H; subst; kl.
Qed.

Lemma KeepL_pub s n st b s' : KeepL s -> step_pub s n st b = Some s' -> KeepL s'.
Proof.
  intros HI H. unfold step_pub in H. destruct st; try discriminate.
  - unfold only0 in H. destruct b; [|discriminate].
    destruct (bclosed s); [inversion H; subst; kl|].
    destruct (lookupN id (tbl s)); inversion H; subst; kl.
  - match type of H with (match ?c with _ => _ end) = _ => destruct c eqn:Ec end.
    + unfold only0 in H. destruct b; inversion H; subst; kl.
    + match type of H with (match ?c with _ => _ end) = _ => destruct c as [[j|]|] eqn:En end; try discriminate.
      * destruct (tget (threads s) (TWaiter j)) as [[]|] eqn:Ew; try discriminate.
        match type of H with (if ?c then _ else _) = _ => destruct c end; [|discriminate].
        inversion H; subst; kl.
      * inversion H; subst; kl.
  - unfold only0 in H. destruct b; inversion H; subst; kl.
  - unfold only0 in H. destruct b; inversion H; subst; kl.
Qed.

Lemma KeepL_callee calls s t n st s' : KeepL s -> step_callee calls s t n st = Some s' -> KeepL s'.
Proof.
  intros HI H. unfold step_callee in H. destruct t; try discriminate; destruct st; try discriminate.
  - destruct f; try (inversion H; subst; kl; fail);
      destruct (take_fault s 3) as [[y|] s1] eqn:E1; inversion H; subst; kl.
  - destruct f; try (inversion H; subst; kl; fail);
      try (destruct (handler_result _ arg) as [[x e]|]; inversion H; subst; kl).
  - inversion H; subst; kl.
Qed.

Lemma KeepL_infra calls s t st s' : Healthy s -> KeepL s -> step_infra fixed calls s t st = Some s' -> KeepL s'.
Proof.
  intros HH HI H. unfold step_infra in H. destruct t; try discriminate; destruct st; try discriminate.
  - inversion H; subst; kl.
  - destruct (fatal s); inversion H; subst; kl.
  - inversion H; subst; kl.
  - inversion H; subst. pose proof (h_ctx _ HH) as Hc. unfold loop_again, setT; simpl. rewrite Hc. simpl. rewrite Hc.
    unfold KeepL; simpl. rewrite tget_tset_same. rewrite tget_tset_other by discriminate. rewrite tget_tset_same. auto.
  - inversion H; subst. eapply KeepL_gen with (t := TSetup) (st := Finished); [reflexivity|reflexivity|exact HI].
Qed.

Lemma KeepL_step calls s c b s' :
  Healthy s -> KeepL s -> benign c = true -> lstep fixed calls s c b = Some s' -> KeepL s'.
Proof.
  intros HH HI Hb H. unfold lstep in H. destruct (crashed s); [discriminate|].
  destruct c as [t|a].
  - destruct (tget (threads s) t) as [st|] eqn:Ht; [|discriminate].
    destruct (loopname t) eqn:El.
    + (* a reader loop parked at its read has no step of its own *)
      destruct HI as (H1 & H2). destruct t; try discriminate El.
      * rewrite H2 in Ht. inversion Ht; subst st. simpl in H. unfold only0 in H. destruct b; simpl in H; discriminate.
      * rewrite H1 in Ht. inversion Ht; subst st. simpl in H. unfold only0 in H. destruct b; simpl in H; discriminate.
    + destruct st;
        try (unfold only0 in H; destruct b; [|discriminate]; eapply KeepL_seterr; eauto; fail);
        destruct t;
        try discriminate El;
        try (simpl in H; unfold only0 in H; destruct b; simpl in H; discriminate);
        try (unfold only0 in H; destruct b; [|discriminate]);
        try (eapply KeepL_caller; eauto; fail);
        try (eapply KeepL_waiter; eauto; fail);
        try (eapply KeepL_pub; eauto; fail);
        try (eapply KeepL_callee; eauto; fail);
        try (eapply KeepL_infra; eauto; fail);
        try discriminate.
  - unfold only0 in H. destruct b; [|discriminate]. eapply KeepL_env; eauto.
Qed.

(* the invariant *)
Definition Up (s : lst) : Prop := Healthy s /\ KeepL s.

Lemma Up_step calls s c b s' : Up s -> benign c = true -> lstep fixed calls s c b = Some s' -> Up s'.
Proof. intros (HH & HL) Hb H. split; [eapply H_step; eauto|eapply KeepL_step; eauto]. Qed.

Lemma Up_run calls cs : forall s s',
  Up s -> Forall (fun c => benign (fst c) = true) cs -> lrun fixed calls s cs = Some s' -> Up s'.
Proof.
  induction cs as [|[c b] r IH]; intros s s' HU Hall Hr; simpl in Hr.
  - inversion Hr; subst; auto.
  - inversion Hall as [|? ? Hb Hrest]; subst. simpl in Hb.
    destruct (lstep fixed calls s c b) as [s1|] eqn:E; [|discriminate].
    eapply IH; [|exact Hrest|exact Hr]. eapply Up_step; eauto.
Qed.

(* what Up provides to the progress lemmas *)
Lemma Up_facts s : Up s ->
  bclosed s = false /\ memN 0%N (cancelled s) = false /\ flt s = no_faults /\
  tget (threads s) TResLoop = Some RLReading /\ tget (threads s) TReqLoop = Some QLReading.
Proof. intros ([h1 h2 h3 h4 h5 h6 h7] & (L1 & L2)). auto. Qed.
