(* PairProgress.v — C02 end to end (one hop of any call chain): in the closed system of two endpoints
   and a network (Pair.v), a call that waits for its response on a healthy link is completed by the
   steps of ITS OWN goroutines on both sides and the delivery of ITS OWN two frames — the request
   reader and response reader take one step each and are back at their reads — whatever every other
   goroutine of either endpoint is doing (handlers stalled or blocked, closures running, other calls
   in any state): the premises say nothing about them.
   Composition of the per-endpoint progress lemmas (LinkInvK: response_completes_call; here: a
   delivered request is answered by its own resolver and handler). *)
From Verif Require Import Base Link LinkProofs LinkInv16 LinkInvB LinkInvR LinkInvQ LinkInvK LinkEvents Pair PairProofs.

(* functions that compute their result and return (no gate, no panic, no decoding failure) *)
Definition returns_at_once (f : fnkind) : bool :=
  match f with FEcho | FNotify | FFail _ | FNotifyErr _ => true | _ => false end.

Definition no_callee_faults (s : lst) : Prop :=
  f_wres (flt s) = None /\ f_marshal (flt s) = None /\ f_unmarshal (flt s) = None.

(* the request reader accepts a frame whatever else is going on, and is back at its read *)
Lemma deliver_request calls s f arg :
  crashed s = false -> tget (threads s) TReqLoop = Some QLReading -> memN 0%N (cancelled s) = false ->
  no_callee_faults s ->
  exists s', lstep fixed calls s (Env (EDeliverReq f arg)) 0 = Some s' /\
             crashed s' = false /\ tget (threads s') (TReq (nreq s)) = Some (QStart f arg) /\
             nreq s' = S (nreq s) /\ cancelled s' = cancelled s /\ no_callee_faults s' /\ evs s' = evs s /\
             tget (threads s') TReqLoop = Some QLReading.
Proof.
  intros Hc Hr Hc0 (F1 & F2 & F3). unfold lstep. rewrite Hc. simpl. rewrite Hr. unfold take_fault. rewrite F3. simpl.
  unfold loop_again. simpl. rewrite Hc0. eexists. split; [reflexivity|]. unfold setT; simpl.
  split; [exact Hc|]. split; [rewrite tget_tset_other by discriminate; apply tget_tset_same|].
  split; [reflexivity|]. split; [reflexivity|]. split; [unfold no_callee_faults; simpl; auto|].
  split; [reflexivity|apply tget_tset_same].
Qed.

(* a delivered request is answered by two steps: its resolver and its handler *)
Lemma answer_request calls s n f arg x e :
  crashed s = false -> tget (threads s) (TReq n) = Some (QStart f arg) ->
  returns_at_once f = true -> handler_result f arg = Some (x, e) ->
  memN 0%N (cancelled s) = false -> no_callee_faults s ->
  exists s', lrun fixed calls s [(Run (TReq n), 0); (Run (THandler n), 0)] = Some s' /\
             evs s' = EvResWritten n x e :: EvInvoked n f arg :: evs s.
Proof.
  intros Hc Ht Hs Hres Hc0 (F1 & F2 & F3).
  assert (S1 : lstep fixed calls s (Run (TReq n)) 0 =
               Some (setT (setT (with_flt s (mkFaults (f_wreq (flt s)) (f_wres (flt s)) (f_marshal (flt s)) None)) (TReq n) Finished)
                          (THandler n) (HStart f arg))).
  { unfold lstep. rewrite Hc, Ht. simpl. unfold take_fault. rewrite F3.
    destruct f; try discriminate; reflexivity. }
  set (s1 := setT (setT (with_flt s (mkFaults (f_wreq (flt s)) (f_wres (flt s)) (f_marshal (flt s)) None)) (TReq n) Finished)
                  (THandler n) (HStart f arg)) in *.
  assert (T1 : tget (threads s1) (THandler n) = Some (HStart f arg)) by (unfold s1, setT; simpl; apply tget_tset_same).
  assert (C1 : crashed s1 = false) by exact Hc.
  assert (S2 : exists s2, lstep fixed calls s1 (Run (THandler n)) 0 = Some s2 /\
                          evs s2 = EvResWritten n x e :: EvInvoked n f arg :: evs s).
  { unfold lstep. rewrite C1, T1. simpl.
    assert (Hh : step_callee calls s1 (THandler n) n (HStart f arg) =
                 Some (handler_respond calls (with_ev s1 (EvInvoked n f arg)) n x e)).
    { unfold step_callee. rewrite Hres. destruct f; try discriminate; reflexivity. }
    destruct f; try discriminate; simpl in Hh |- *; rewrite ?Hres in *;
      (eexists; split; [try exact Hh; reflexivity|]);
      unfold handler_respond, take_fault; simpl; rewrite F2; simpl; rewrite Hc0; rewrite F1; reflexivity. }
  destruct S2 as (s2 & St2 & E2). exists s2. simpl. rewrite S1, St2. auto.
Qed.

Section Lift.
Variable fn : nat -> fnkind.
Variables callsA callsB : list callspec.
Notation prun := (prun fn callsA callsB).

(* steps of A (with deliveries of one response frame of B) as steps of the pair *)
Definition liftA (n : nat) (c : choice * nat) : pact :=
  if is_res_delivery (fst c) then NRes n else PA (fst c) (snd c).

Lemma lift_A_run n i x e b dq : forall cs a a',
  res_written (evs b) n = Some (x, e) -> nth_error dq n = Some i ->
  Forall (fun c => fst c = Env (EDeliverRes (N.of_nat i) x e) \/ is_res_delivery (fst c) = false) cs ->
  lrun fixed callsA a cs = Some a' ->
  prun (mkP a b dq) (map (liftA n) cs) = Some (mkP a' b dq).
Proof.
  induction cs as [|[c bnd] r IH]; intros a a' Hw Hn Hall Hr; simpl in *.
  - inversion Hr; subst. reflexivity.
  - inversion Hall as [|? ? Hc Hrest]; subst. destruct (lstep fixed callsA a c bnd) as [a1|] eqn:Es; [|discriminate].
    unfold liftA at 1. simpl fst; simpl snd. destruct Hc as [Hc|Hc]; simpl in Hc.
    + subst c. simpl is_res_delivery. cbn iota. simpl. rewrite Hw, Hn.
      assert (bnd = 0). { unfold lstep in Es. destruct (crashed a); [discriminate|]. unfold only0 in Es. destruct bnd; [reflexivity|discriminate]. }
      subst bnd. rewrite Es. apply IH; auto.
    + rewrite Hc. simpl. rewrite Hc. rewrite Es. apply IH; auto.
Qed.
End Lift.

Section Hop.
Variable fn : nat -> fnkind.
Variables callsA callsB : list callspec.
Notation prun := (prun fn callsA callsB).

Definition own_action (p : pst) (i : nat) (a : pact) : Prop :=
  a = NReq i \/ a = PB (Run (TReq (nreq (pb p)))) 0 \/ a = PB (Run (THandler (nreq (pb p)))) 0 \/
  a = NRes (nreq (pb p)) \/
  (exists b, a = PA (Run (TPub (npub (pa p)))) b) \/ (exists b, a = PA (Run (TWaiter i)) b) \/ (exists b, a = PA (Run (TCall i)) b).

Lemma hop_completes_lemma l0 p i ent arg x e :
  prun pinit l0 = Some p ->
  (* A: call i has written its request and waits for the response on a healthy link *)
  bclosed (pa p) = false -> tget (threads (pa p)) TResLoop = Some RLReading ->
  memN 0%N (cancelled (pa p)) = false -> f_unmarshal (flt (pa p)) = None ->
  tget (threads (pa p)) (TCall i) = Some CBlocked -> tget (threads (pa p)) (TWaiter i) = Some (WBlocked ent) ->
  req_written (evs (pa p)) i = Some arg ->
  (* B: healthy; the function returns at once *)
  tget (threads (pb p)) TReqLoop = Some QLReading -> memN 0%N (cancelled (pb p)) = false -> no_callee_faults (pb p) ->
  returns_at_once (fn i) = true -> handler_result (fn i) arg = Some (x, e) ->
  exists l p' v er,
    length l <= 10 /\ Forall (own_action p i) l /\ prun p l = Some p' /\
    tget (threads (pa p')) (TCall i) = Some (CReturned v er) /\ (er = None -> e = None).
Proof.
  intros Hp Hb Hrl Hc0 Hfu Hcall Hwt Hrw HrlB Hc0B HfB Hsimple Hres.
  destruct (PInv_run fn callsA callsB _ _ _ _ _ (PInv_init fn callsA callsB) Hp) as (D & Q & [hR hQ hl hQd hD (csa & hra) (csb & hrb)]).
  assert (HcB : crashed (pb p) = false) by (eapply lno_crash_lemma; exists csb; eauto).
  assert (Hlen : length (dreq p) = nreq (pb p)) by (rewrite hl; apply (q_len _ _ hQ)).
  destruct p as [a b dq]; simpl in *.
  (* 1. the network hands the request to B *)
  destruct (deliver_request callsB b (fn i) arg HcB HrlB Hc0B HfB) as (b1 & St1 & C1 & T1 & N1 & K1 & F1 & E1 & _).
  (* 2. resolver and handler *)
  rewrite <- K1 in Hc0B.
  destruct (answer_request callsB b1 (nreq b) (fn i) arg x e C1 T1 Hsimple Hres Hc0B F1) as (b2 & R2 & E2).
  assert (Hw2 : res_written (evs b2) (nreq b) = Some (x, e)) by (rewrite E2; simpl; rewrite Nat.eqb_refl; reflexivity).
  assert (Hn2 : nth_error (dq ++ [i]) (nreq b) = Some i).
  { rewrite nth_error_app2 by lia. rewrite Hlen, Nat.sub_diag. reflexivity. }
  (* 3. the response travels back and completes the call *)
  destruct (response_completes_call_lemma callsA a i ent x e (ex_intro _ csa hra) Hb Hrl Hc0 Hfu Hcall Hwt)
    as (cs & a' & v & er & Hlcs & Hown & Hrun & Hret & Hgen).
  exists ([NReq i; PB (Run (TReq (nreq b))) 0; PB (Run (THandler (nreq b))) 0] ++ map (liftA (nreq b)) cs),
         (mkP a' b2 (dq ++ [i])), v, er.
  split; [rewrite app_length, map_length; simpl; lia|].
  split.
  - apply Forall_app. split.
    + apply Forall_cons; [unfold own_action; auto|apply Forall_cons; [unfold own_action; auto|apply Forall_cons; [unfold own_action; auto 6|apply Forall_nil]]].
    + apply Forall_forall. intros act Ha. apply in_map_iff in Ha as ([c bnd] & <- & Hin).
      rewrite Forall_forall in Hown. specialize (Hown _ Hin). simpl in Hown. unfold liftA, own_action; simpl.
      destruct Hown as [ -> | [ -> | [ -> | -> ] ] ]; simpl; eauto 10.
  - split; [|split; [exact Hret|exact Hgen]].
    simpl in R2. destruct (lstep fixed callsB b1 (Run (TReq (nreq b))) 0) as [b1'|] eqn:Sa; [|discriminate].
    destruct (lstep fixed callsB b1' (Run (THandler (nreq b))) 0) as [b1''|] eqn:Sb; [|discriminate].
    inversion R2; subst b1''.
    cbn [Pair.prun Pair.pstep app pa pb dreq is_req_delivery]. rewrite Hrw. rewrite St1. rewrite N1. rewrite Nat.eqb_refl.
    cbn [Pair.prun Pair.pstep app pa pb dreq is_req_delivery]. rewrite Sa.
    cbn [Pair.prun Pair.pstep app pa pb dreq is_req_delivery]. rewrite Sb.
    apply (lift_A_run fn callsA callsB (nreq b) i x e b2 (dq ++ [i]) cs a a' Hw2 Hn2); auto.
    apply Forall_forall. intros c Hin. rewrite Forall_forall in Hown. specialize (Hown _ Hin).
    destruct Hown as [H|[H|[H|H]]]; [left; exact H|right; rewrite H; reflexivity..].
Qed.
End Hop.

(* a delivered request for a function that stays inside application code: two steps bring its handler there *)
Lemma start_gated calls s n arg :
  crashed s = false -> tget (threads s) (TReq n) = Some (QStart FGated arg) -> no_callee_faults s ->
  exists s', lrun fixed calls s [(Run (TReq n), 0); (Run (THandler n), 0)] = Some s' /\
             tget (threads s') (THandler n) = Some (HGate arg) /\ crashed s' = false /\
             cancelled s' = cancelled s /\ no_callee_faults s' /\ bclosed s' = bclosed s.
Proof.
  intros Hc Ht (F1 & F2 & F3).
  assert (S1 : lstep fixed calls s (Run (TReq n)) 0 =
               Some (setT (setT (with_flt s (mkFaults (f_wreq (flt s)) (f_wres (flt s)) (f_marshal (flt s)) None)) (TReq n) Finished)
                          (THandler n) (HStart FGated arg))).
  { unfold lstep. rewrite Hc, Ht. simpl. unfold take_fault. rewrite F3. reflexivity. }
  set (s1 := setT (setT (with_flt s (mkFaults (f_wreq (flt s)) (f_wres (flt s)) (f_marshal (flt s)) None)) (TReq n) Finished)
                  (THandler n) (HStart FGated arg)) in *.
  assert (T1 : tget (threads s1) (THandler n) = Some (HStart FGated arg)) by (unfold s1, setT; simpl; apply tget_tset_same).
  assert (C1 : crashed s1 = false) by exact Hc.
  eexists. simpl. rewrite S1. unfold lstep at 1. rewrite C1, T1. simpl. split; [reflexivity|].
  unfold setT; simpl. split; [apply tget_tset_same|]. split; [exact Hc|]. split; [reflexivity|].
  split; [unfold no_callee_faults; simpl; auto|reflexivity].
Qed.

(* a handler that was inside application code (gated) and resumes answers its request in one step *)
Lemma resume_handler calls s n arg :
  crashed s = false -> tget (threads s) (THandler n) = Some (HGate arg) ->
  memN 0%N (cancelled s) = false -> no_callee_faults s ->
  exists s', lstep fixed calls s (Run (THandler n)) 0 = Some s' /\ evs s' = EvResWritten n arg None :: evs s.
Proof.
  intros Hc Ht Hc0 (F1 & F2 & F3). unfold lstep. rewrite Hc, Ht. simpl.
  unfold handler_respond, take_fault. rewrite F2. simpl. rewrite Hc0. rewrite F1. eexists. split; reflexivity.
Qed.

Section Unwind.
Variable fn : nat -> fnkind.
Variables callsA callsB : list callspec.
Notation prun := (prun fn callsA callsB).

(* the way down a call chain: the request of call i reaches B and its handler enters application code
   (where it may, for instance, call the peer back); three steps, none of them of A *)
Lemma descend_lemma l0 p i arg :
  prun pinit l0 = Some p ->
  req_written (evs (pa p)) i = Some arg -> fn i = FGated ->
  tget (threads (pb p)) TReqLoop = Some QLReading -> memN 0%N (cancelled (pb p)) = false -> no_callee_faults (pb p) ->
  exists p',
    prun p [NReq i; PB (Run (TReq (nreq (pb p)))) 0; PB (Run (THandler (nreq (pb p)))) 0] = Some p' /\
    pa p' = pa p /\ nth_error (dreq p') (nreq (pb p)) = Some i /\
    tget (threads (pb p')) (THandler (nreq (pb p))) = Some (HGate arg) /\
    memN 0%N (cancelled (pb p')) = false /\ no_callee_faults (pb p') /\ bclosed (pb p') = bclosed (pb p).
Proof.
  intros Hp Hrw Hf HrlB Hc0B HfB.
  destruct (PInv_run fn callsA callsB _ _ _ _ _ (PInv_init fn callsA callsB) Hp) as (D & Q & [hR hQ hl hQd hD (csa & hra) (csb & hrb)]).
  assert (HcB : crashed (pb p) = false) by (eapply lno_crash_lemma; exists csb; eauto).
  assert (Hlen : length (dreq p) = nreq (pb p)) by (rewrite hl; apply (q_len _ _ hQ)).
  destruct p as [a b dq]; simpl in *.
  destruct (deliver_request callsB b (fn i) arg HcB HrlB Hc0B HfB) as (b1 & St1 & C1 & T1 & N1 & K1 & F1 & E1 & _).
  rewrite Hf in T1.
  destruct (start_gated callsB b1 (nreq b) arg C1 T1 F1) as (b2 & R2 & T2 & C2 & K2 & F2 & B2).
  simpl in R2. destruct (lstep fixed callsB b1 (Run (TReq (nreq b))) 0) as [b1'|] eqn:Sa; [|discriminate].
  destruct (lstep fixed callsB b1' (Run (THandler (nreq b))) 0) as [b1''|] eqn:Sb; [|discriminate].
  inversion R2; subst b1''.
  exists (mkP a b2 (dq ++ [i])).
  cbn [Pair.prun Pair.pstep app pa pb dreq is_req_delivery]. rewrite Hrw, St1, N1, Nat.eqb_refl.
  cbn [Pair.prun Pair.pstep app pa pb dreq is_req_delivery]. rewrite Sa.
  cbn [Pair.prun Pair.pstep app pa pb dreq is_req_delivery]. rewrite Sb.
  split; [reflexivity|]. split; [reflexivity|].
  split; [rewrite nth_error_app2 by lia; rewrite Hlen, Nat.sub_diag; reflexivity|].
  split; [exact T2|]. split; [rewrite K2, K1; exact Hc0B|]. split; [exact F2|].
  rewrite B2. unfold lstep in St1. rewrite HcB in St1. simpl in St1. rewrite HrlB in St1.
  unfold take_fault in St1. destruct HfB as (_ & _ & F3). rewrite F3 in St1. simpl in St1.
  unfold loop_again in St1. simpl in St1. rewrite Hc0B in St1. inversion St1; subst b1. reflexivity.
Qed.

Definition unwind_action (p : pst) (i n : nat) (a : pact) : Prop :=
  a = PB (Run (THandler n)) 0 \/ a = NRes n \/
  (exists b, a = PA (Run (TPub (npub (pa p)))) b) \/ (exists b, a = PA (Run (TWaiter i)) b) \/ (exists b, a = PA (Run (TCall i)) b).

(* the way back up a call chain: the handler B runs for call i of A was stalled inside application code
   (for instance waiting for a call of its own to the peer); once it resumes, call i is completed by at
   most seven steps of that handler, of the network for its response frame, and of call i's own
   goroutines - whatever every other goroutine of either endpoint is doing *)
Lemma unwind_completes_lemma l0 p i ent n arg :
  prun pinit l0 = Some p ->
  bclosed (pa p) = false -> tget (threads (pa p)) TResLoop = Some RLReading ->
  memN 0%N (cancelled (pa p)) = false -> f_unmarshal (flt (pa p)) = None ->
  tget (threads (pa p)) (TCall i) = Some CBlocked -> tget (threads (pa p)) (TWaiter i) = Some (WBlocked ent) ->
  nth_error (dreq p) n = Some i -> tget (threads (pb p)) (THandler n) = Some (HGate arg) ->
  memN 0%N (cancelled (pb p)) = false -> no_callee_faults (pb p) ->
  exists l p' v er,
    length l <= 7 /\ Forall (unwind_action p i n) l /\ prun p l = Some p' /\
    tget (threads (pa p')) (TCall i) = Some (CReturned v er).
Proof.
  intros Hp Hb Hrl Hc0 Hfu Hcall Hwt Hn Hh Hc0B HfB.
  destruct (PInv_run fn callsA callsB _ _ _ _ _ (PInv_init fn callsA callsB) Hp) as (D & Q & [hR hQ hl hQd hD (csa & hra) (csb & hrb)]).
  assert (HcB : crashed (pb p) = false) by (eapply lno_crash_lemma; exists csb; eauto).
  destruct p as [a b dq]; simpl in *.
  destruct (resume_handler callsB b n arg HcB Hh Hc0B HfB) as (b2 & St & E2).
  assert (Hw2 : res_written (evs b2) n = Some (arg, None)) by (rewrite E2; simpl; rewrite Nat.eqb_refl; reflexivity).
  destruct (response_completes_call_lemma callsA a i ent arg None (ex_intro _ csa hra) Hb Hrl Hc0 Hfu Hcall Hwt)
    as (cs & a' & v & er & Hlcs & Hown & Hrun & Hret & Hgen).
  exists ([PB (Run (THandler n)) 0] ++ map (liftA n) cs), (mkP a' b2 dq), v, er.
  split; [rewrite app_length, map_length; simpl; lia|].
  split.
  - apply Forall_app. split.
    + apply Forall_cons; [unfold unwind_action; auto|apply Forall_nil].
    + apply Forall_forall. intros act Ha. apply in_map_iff in Ha as ([c bnd] & <- & Hin).
      rewrite Forall_forall in Hown. specialize (Hown _ Hin). simpl in Hown. unfold liftA, unwind_action; simpl.
      destruct Hown as [ -> | [ -> | [ -> | -> ] ] ]; simpl; eauto 10.
  - split; [|exact Hret].
    cbn [Pair.prun Pair.pstep app pa pb dreq is_req_delivery]. rewrite St.
    apply (lift_A_run fn callsA callsB n i arg None b2 dq cs a a' Hw2 Hn); auto.
    apply Forall_forall. intros c Hin. rewrite Forall_forall in Hown. specialize (Hown _ Hin).
    destruct Hown as [H|[H|[H|H]]]; [left; exact H|right; rewrite H; reflexivity..].
Qed.
End Unwind.

(* non-vacuity: call 1 of A waits for its response while the handler B runs for call 0 is stalled and
   a handler of A itself (serving a request of the peer) is stalled too *)
Definition hx_calls : list callspec := [mkCall 1 2 false 10; mkCall 2 2 false 11].
Definition hx_fn (i : nat) : fnkind := match i with 0 => FGated | _ => FEcho end.
Definition hx_sched : list pact :=
  [PA (Run TSetup) 0; PB (Run TSetup) 0;
   PA (Env (EStart 0)) 0; PA (Run (TCall 0)) 0; PA (Run (TWaiter 0)) 0;
   NReq 0; PB (Run (TReq 0)) 0; PB (Run (THandler 0)) 0;
   PA (Env (EDeliverReq FGated 5%N)) 0; PA (Run (TReq 0)) 0; PA (Run (THandler 0)) 0;
   PA (Env (EStart 1)) 0; PA (Run (TCall 1)) 0; PA (Run (TWaiter 1)) 0].

Example hop_premises_example :
  exists p, prun hx_fn hx_calls [] pinit hx_sched = Some p /\
    bclosed (pa p) = false /\ tget (threads (pa p)) TResLoop = Some RLReading /\
    memN 0%N (cancelled (pa p)) = false /\ f_unmarshal (flt (pa p)) = None /\
    tget (threads (pa p)) (TCall 1) = Some CBlocked /\ tget (threads (pa p)) (TWaiter 1) = Some (WBlocked 1) /\
    req_written (evs (pa p)) 1 = Some 11%N /\
    tget (threads (pb p)) TReqLoop = Some QLReading /\ memN 0%N (cancelled (pb p)) = false /\ no_callee_faults (pb p) /\
    returns_at_once (hx_fn 1) = true /\ handler_result (hx_fn 1) 11%N = Some (11%N, None) /\
    tget (threads (pb p)) (THandler 0) = Some (HGate 10%N) /\ tget (threads (pa p)) (THandler 0) = Some (HGate 5%N).
Proof. eexists. split; [vm_compute; reflexivity|]. unfold no_callee_faults. simpl. repeat split. Qed.
